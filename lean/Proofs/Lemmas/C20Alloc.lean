import Model.Storage.IdAlloc
namespace C20
open Storage.Upload Storage.IdAlloc

theorem set_decomp {α : Type} (l : List α) (i : Nat) (t : α) (h : l[i]? = some t) :
    ∃ l1 l2, l = l1 ++ t :: l2 ∧ ∀ t', l.set i t' = l1 ++ t' :: l2 := by
  induction l generalizing i with
  | nil => simp at h
  | cons a as ih =>
    cases i with
    | zero => simp at h; subst h; exact ⟨[], as, rfl, fun _ => rfl⟩
    | succ j =>
      simp at h
      obtain ⟨l1, l2, h1, h2⟩ := ih j h
      exact ⟨a :: l1, l2, by simp [h1], fun t' => by simp [h2 t']⟩

/-- invariant of concurrent allocation -/
structure AllocInv (rows0 : List UKey) (s : St) : Prop where
  nodup : (s.rows ++ pending s.txns).Nodup
  ret_nodup : (returned s.txns).Nodup
  ret_rows : ∀ k ∈ returned s.txns, k ∈ s.rows ∧ k ∉ rows0
  pend_new : ∀ k ∈ pending s.txns, k ∉ rows0
  grow : ∀ k ∈ rows0, k ∈ s.rows

theorem pending_split (l1 l2 : List Txn) (t : Txn) :
    pending (l1 ++ t :: l2) = pending l1 ++ (pendingOf t).toList ++ pending l2 := by
  simp [pending, List.filterMap_append, List.filterMap_cons]
  cases pendingOf t <;> simp

theorem returned_split (l1 l2 : List Txn) (t : Txn) :
    returned (l1 ++ t :: l2) = returned l1 ++ (returnedOf t).toList ++ returned l2 := by
  simp [returned, List.filterMap_append, List.filterMap_cons]
  cases returnedOf t <;> simp

/-- replacing a transaction that neither holds a pending key nor returned one by another such -/
theorem neutral_set (rows0 : List UKey) (s : St) (i : Nat) (t t' : Txn) (hi : s.txns[i]? = some t)
    (hp : pendingOf t = none) (hr : returnedOf t = none) (hp' : pendingOf t' = none) (hr' : returnedOf t' = none)
    (inv : AllocInv rows0 s) : AllocInv rows0 { s with txns := s.txns.set i t' } := by
  obtain ⟨l1, l2, h1, h2⟩ := set_decomp s.txns i t hi
  have e1 : pending (s.txns.set i t') = pending s.txns := by
    rw [h2 t']; conv => rhs; rw [h1]
    rw [pending_split, pending_split, hp, hp']
  have e2 : returned (s.txns.set i t') = returned s.txns := by
    rw [h2 t']; conv => rhs; rw [h1]
    rw [returned_split, returned_split, hr, hr']
  exact ⟨by simpa [e1] using inv.nodup, by simpa [e2] using inv.ret_nodup, by simpa [e2] using inv.ret_rows,
    by simpa [e1] using inv.pend_new, inv.grow⟩

theorem step_inv (rows0 : List UKey) (s : St) (i : Nat) (ok : Bool) (inv : AllocInv rows0 s) :
    AllocInv rows0 (step s i ok) := by
  unfold step
  cases hi : s.txns[i]? with
  | none => exact inv
  | some t =>
    obtain ⟨d, pc⟩ := t
    simp only
    cases pc with
    | start =>
      simp only
      exact neutral_set rows0 s i _ _ hi rfl rfl (by cases ok <;> rfl) (by cases ok <;> rfl) inv
    | read last =>
      simp only
      split
      · exact neutral_set rows0 s i _ _ hi rfl rfl rfl rfl inv
      · rename_i hc
        split
        · exact inv
        · rename_i hpend
          simp only [Bool.or_eq_true, Bool.not_eq_true', decide_eq_true_eq, not_or] at hc
          obtain ⟨l1, l2, h1, h2⟩ := set_decomp s.txns i _ hi
          have hp0 : pending s.txns = pending l1 ++ pending l2 := by
            conv => lhs; rw [h1]
            rw [pending_split]; simp [pendingOf]
          have hp : pending (s.txns.set i ⟨d, Pc.inserted (nextKey d last)⟩) =
              pending l1 ++ nextKey d last :: pending l2 := by
            rw [h2, pending_split]; simp [pendingOf]
          have hr : returned (s.txns.set i ⟨d, Pc.inserted (nextKey d last)⟩) = returned s.txns := by
            rw [h2]; conv => rhs; rw [h1]
            rw [returned_split, returned_split]; simp [returnedOf]
          refine ⟨?_, by simpa [hr] using inv.ret_nodup, by simpa [hr] using inv.ret_rows, ?_, inv.grow⟩
          · simp only [hp]
            have hn := inv.nodup
            rw [hp0] at hn hpend
            have : (s.rows ++ (pending l1 ++ nextKey d last :: pending l2)).Perm
                (nextKey d last :: (s.rows ++ (pending l1 ++ pending l2))) := by
              rw [← List.append_assoc, ← List.append_assoc]
              exact List.perm_middle
            rw [this.nodup_iff, List.nodup_cons]
            refine ⟨?_, hn⟩
            intro hm
            rcases List.mem_append.mp hm with hm | hm
            · exact hc.2 hm
            · exact hpend hm
          · simp only [hp]
            intro k hk
            rcases List.mem_append.mp hk with hk | hk
            · exact inv.pend_new k (by rw [hp0]; exact List.mem_append_left _ hk)
            · rcases List.mem_cons.mp hk with rfl | hk
              · intro h0; exact hc.2 (inv.grow _ h0)
              · exact inv.pend_new k (by rw [hp0]; exact List.mem_append_right _ hk)
    | inserted k =>
      simp only
      obtain ⟨l1, l2, h1, h2⟩ := set_decomp s.txns i _ hi
      have hp0 : pending s.txns = pending l1 ++ k :: pending l2 := by
        conv => lhs; rw [h1]
        rw [pending_split]; simp [pendingOf]
      have hr0 : returned s.txns = returned l1 ++ returned l2 := by
        conv => lhs; rw [h1]
        rw [returned_split]; simp [returnedOf]
      have hn := inv.nodup
      rw [hp0] at hn
      have hperm : (s.rows ++ (pending l1 ++ k :: pending l2)).Perm (k :: (s.rows ++ (pending l1 ++ pending l2))) := by
        rw [← List.append_assoc, ← List.append_assoc]
        exact List.perm_middle
      rw [hperm.nodup_iff, List.nodup_cons] at hn
      have hknew : k ∉ rows0 := inv.pend_new k (by rw [hp0]; simp)
      have hkret : k ∉ returned s.txns := fun h => hn.1 (List.mem_append_left _ (inv.ret_rows k h).1)
      split
      · -- commit
        have hp : pending (s.txns.set i ⟨d, Pc.committed k⟩) = pending l1 ++ pending l2 := by
          rw [h2, pending_split]; simp [pendingOf]
        have hr : returned (s.txns.set i ⟨d, Pc.committed k⟩) = returned l1 ++ k :: returned l2 := by
          rw [h2, returned_split]; simp [returnedOf]
        refine ⟨?_, ?_, ?_, ?_, fun k' hk' => List.mem_append_left _ (inv.grow k' hk')⟩
        · simp only [hp]
          have : ((s.rows ++ [k]) ++ (pending l1 ++ pending l2)).Perm (k :: (s.rows ++ (pending l1 ++ pending l2))) := by
            rw [List.append_assoc]
            exact List.perm_middle
          rw [this.nodup_iff, List.nodup_cons]
          exact hn
        · simp only [hr]
          have : (returned l1 ++ k :: returned l2).Perm (k :: (returned l1 ++ returned l2)) := List.perm_middle
          rw [this.nodup_iff, List.nodup_cons, ← hr0]
          exact ⟨hkret, inv.ret_nodup⟩
        · simp only [hr]
          intro k' hk'
          have : k' = k ∨ k' ∈ returned s.txns := by
            rw [hr0]
            rcases List.mem_append.mp hk' with h | h
            · exact Or.inr (List.mem_append_left _ h)
            · rcases List.mem_cons.mp h with h | h
              · exact Or.inl h
              · exact Or.inr (List.mem_append_right _ h)
          rcases this with rfl | h
          · exact ⟨by simp, hknew⟩
          · exact ⟨List.mem_append_left _ (inv.ret_rows k' h).1, (inv.ret_rows k' h).2⟩
        · simp only [hp]
          intro k' hk'
          refine inv.pend_new k' ?_
          rw [hp0]
          rcases List.mem_append.mp hk' with h | h
          · exact List.mem_append_left _ h
          · exact List.mem_append_right _ (List.mem_cons_of_mem _ h)
      · -- refused: rollback
        have hp : pending (s.txns.set i ⟨d, Pc.failed⟩) = pending l1 ++ pending l2 := by
          rw [h2, pending_split]; simp [pendingOf]
        have hr : returned (s.txns.set i ⟨d, Pc.failed⟩) = returned s.txns := by
          rw [h2, returned_split, hr0]; simp [returnedOf]
        refine ⟨by simp only [hp]; exact hn.2, by simpa [hr] using inv.ret_nodup, by simpa [hr] using inv.ret_rows,
          ?_, inv.grow⟩
        simp only [hp]
        intro k' hk'
        refine inv.pend_new k' ?_
        rw [hp0]
        rcases List.mem_append.mp hk' with h | h
        · exact List.mem_append_left _ h
        · exact List.mem_append_right _ (List.mem_cons_of_mem _ h)
    | committed k => exact inv
    | failed => exact inv

theorem run_inv (rows0 : List UKey) (sched : List (Nat × Bool)) (s : St) (inv : AllocInv rows0 s) :
    AllocInv rows0 (run sched s) := by
  induction sched generalizing s with
  | nil => exact inv
  | cons a rest ih => exact ih _ (step_inv rows0 s a.1 a.2 inv)

theorem init_inv (rows0 : List UKey) (days : List Nat) (h : rows0.Nodup) : AllocInv rows0 (init rows0 days) := by
  have hp : pending (days.map fun d => (⟨d, Pc.start⟩ : Txn)) = [] := by
    induction days with
    | nil => rfl
    | cons d ds ih => simp [pending, pendingOf] at ih ⊢
  have hr : returned (days.map fun d => (⟨d, Pc.start⟩ : Txn)) = [] := by
    induction days with
    | nil => rfl
    | cons d ds ih => simp [returned, returnedOf] at ih ⊢
  exact ⟨by simp [init, hp, h], by simp [init, hr], by simp [init, hr], by simp [init, hp], fun k hk => hk⟩

end C20
