/-
C01 helper lemmas, part 6: every line the writer prints for a well-formed history holds no LF
and does not end in CR (`Clean`), so that `bufio.ScanLines` gives the lines back.
-/
import Proofs.Lemmas.C01Bytes

namespace C01
open Fmt Spec.RoundTrip

theorem hasByte_append (a b : Bytes) (c : UInt8) :
    Bytes.hasByte (a ++ b) c = (Bytes.hasByte a c || Bytes.hasByte b c) := by
  simp [Bytes.hasByte, List.any_append]

theorem asciiSpace_10 : asciiSpace 10 = true := by decide
theorem asciiSpace_13 : asciiSpace 13 = true := by decide

theorem noAsciiSpace_mem {t : Bytes} (h : noAsciiSpace t = true) {c : UInt8} (hc : c ∈ t) :
    asciiSpace c = false := by
  simp only [noAsciiSpace, List.all_eq_true, Bool.not_eq_true'] at h
  exact h c hc

theorem noLF_of_noAsciiSpace {t : Bytes} (h : noAsciiSpace t = true) : Bytes.hasByte t 10 = false := by
  simp only [Bytes.hasByte, List.any_eq_false, beq_iff_eq]
  intro c hc he
  have := noAsciiSpace_mem h hc
  rw [he, asciiSpace_10] at this
  exact absurd this (by simp)

theorem clean_blank : Clean [] := ⟨rfl, by simp⟩

theorem clean_delLine {k : Bytes} (h : Bytes.hasByte k 10 = false) : Clean (delLine k) := by
  refine ⟨?_, ?_⟩
  · rw [delLine, hasByte_append, h]; rfl
  · simp [delLine]

theorem clean_kvLine {k v : Bytes} (hk : Bytes.hasByte k 10 = false) (hv : valueOKnoCR v = true)
    (hcr : endsCR v = false) : Clean (kvLine k v) := by
  simp only [valueOKnoCR, Bool.and_eq_true, Bool.not_eq_true'] at hv
  refine ⟨?_, ?_⟩
  · rw [kvLine, hasByte_append, hasByte_append, hk, hv.1.2]; rfl
  · have hne : v ≠ [] := by intro e; rw [e] at hv; simp at hv
    simp only [endsCR, beq_eq_false_iff_ne, ne_eq] at hcr
    simp only [kvLine, List.getLast?_append]
    cases hl : v.getLast? with
    | none => rw [List.getLast?_eq_none_iff] at hl; exact absurd hl hne
    | some c => rw [hl] at hcr; simpa using hcr

theorem joinSp_noLF : ∀ ts : List Bytes, (∀ t ∈ ts, noAsciiSpace t = true) →
    Bytes.hasByte (joinSp ts) 10 = false := by
  intro ts
  induction ts with
  | nil => intro _; rfl
  | cons t ts ih =>
    intro h
    have ht := noLF_of_noAsciiSpace (h t List.mem_cons_self)
    cases ts with
    | nil => simpa [joinSp] using ht
    | cons t2 ts' =>
      have := ih (fun t' h' => h t' (List.mem_cons_of_mem _ h'))
      have e : t ++ 32 :: joinSp (t2 :: ts') = t ++ ([32] ++ joinSp (t2 :: ts')) := by simp
      rw [joinSp, e, hasByte_append, hasByte_append, ht, this]; rfl

theorem getLast_token {t : Bytes} (hne : t ≠ []) (h : noAsciiSpace t = true) :
    ∃ c, t.getLast? = some c ∧ asciiSpace c = false := by
  cases hl : t.getLast? with
  | none => rw [List.getLast?_eq_none_iff] at hl; exact absurd hl hne
  | some c => exact ⟨c, rfl, noAsciiSpace_mem h (List.mem_of_getLast? hl)⟩

theorem joinSp_last : ∀ ts : List Bytes, ts ≠ [] → (∀ t ∈ ts, t ≠ [] ∧ noAsciiSpace t = true) →
    ∃ c, (joinSp ts).getLast? = some c ∧ asciiSpace c = false := by
  intro ts
  induction ts with
  | nil => intro h _; exact absurd rfl h
  | cons t ts ih =>
    intro _ h
    cases ts with
    | nil =>
      obtain ⟨hne, hns⟩ := h t List.mem_cons_self
      simpa [joinSp] using getLast_token hne hns
    | cons t2 ts' =>
      obtain ⟨c, hc, hs⟩ := ih (by simp) (fun t' h' => h t' (List.mem_cons_of_mem _ h'))
      refine ⟨c, ?_, hs⟩
      simp only [joinSp, List.getLast?_append, List.getLast?_cons, hc]
      simp

theorem clean_of_last {l : Bytes} (h10 : Bytes.hasByte l 10 = false)
    (hl : ∃ c, l.getLast? = some c ∧ asciiSpace c = false) : Clean l := by
  refine ⟨h10, ?_⟩
  obtain ⟨c, hc, hs⟩ := hl
  rw [hc]
  intro e
  simp only [Option.some.injEq] at e
  rw [e, asciiSpace_13] at hs
  exact absurd hs (by simp)

theorem tokenOK_noSpace {uc : UC} {t : Bytes} (h : tokenOK uc t = true) : noAsciiSpace t = true :=
  (tokenOK_split h).1

theorem clean_benchLine (O : Oracles) (P : WParams) (r : Res) (hnum : ResNumOK O P r)
    (hname : tokenOK O.uc r.name = true)
    (hunits : ∀ v ∈ r.values, v.written.2 ≠ [] ∧ tokenOK O.uc v.written.2 = true) :
    Clean (benchLine P r) := by
  have htoks : ∀ t ∈ fmtInt r.iters :: valToks P r.values, t ≠ [] ∧ noAsciiSpace t = true := by
    intro t ht
    simp only [List.mem_cons, valToks, List.mem_flatMap, List.not_mem_nil, or_false] at ht
    rcases ht with ht | ⟨v, hv', ht⟩
    · subst ht; exact ⟨(fmtInt_token O.uc r.iters).1, tokenOK_noSpace (fmtInt_token O.uc r.iters).2⟩
    · rcases ht with ht | ht
      · subst ht; exact ⟨(hnum.2 v hv').2.1, tokenOK_noSpace (hnum.2 v hv').2.2⟩
      · subst ht; exact ⟨(hunits v hv').1, tokenOK_noSpace (hunits v hv').2⟩
  obtain ⟨c, hc, hs⟩ := joinSp_last _ (by simp) htoks
  have hj := joinSp_noLF _ (fun t ht => (htoks t ht).2)
  rw [benchLine_eq]
  apply clean_of_last
  · have e : r.name ++ 32 :: joinSp (fmtInt r.iters :: valToks P r.values) =
        r.name ++ ([32] ++ joinSp (fmtInt r.iters :: valToks P r.values)) := by simp
    rw [hasByte_append, e, hasByte_append, hasByte_append, noLF_of_noAsciiSpace (tokenOK_noSpace hname), hj]
    rfl
  · refine ⟨c, ?_, hs⟩
    simp only [List.getLast?_append, List.getLast?_cons, hc]
    simp

theorem clean_unitLine (O : Oracles) (u : UnitMeta) (h : unitOK O u = true) : Clean (unitLine u) := by
  unfold unitOK at h
  simp only [Bool.and_eq_true, Bool.not_eq_true', beq_iff_eq] at h
  obtain ⟨⟨⟨⟨⟨hone, hotok⟩, _⟩, _⟩, hkvtok⟩, _⟩ := h
  have hkv : u.key ++ [61] ++ u.value = u.key ++ 61 :: u.value := by simp
  rw [hkv] at hkvtok
  have hone' : u.origUnit ≠ [] := by cases hh : u.origUnit <;> simp_all
  have htoks : ∀ t ∈ [u.origUnit, u.key ++ 61 :: u.value], t ≠ [] ∧ noAsciiSpace t = true := by
    intro t ht
    simp only [List.mem_cons, List.not_mem_nil, or_false] at ht
    rcases ht with ht | ht
    · subst ht; exact ⟨hone', tokenOK_noSpace hotok⟩
    · subst ht; exact ⟨by simp, tokenOK_noSpace hkvtok⟩
  obtain ⟨c, hc, hs⟩ := joinSp_last _ (by simp) htoks
  have hj := joinSp_noLF _ (fun t ht => (htoks t ht).2)
  have hline : unitLine u = unitPrefix ++ ([32] ++ joinSp [u.origUnit, u.key ++ 61 :: u.value]) := by
    simp [unitLine, joinSp]
  rw [hline]
  apply clean_of_last
  · rw [hasByte_append, hasByte_append, hj]; rfl
  · refine ⟨c, ?_, hs⟩
    simp only [List.getLast?_append, hc]
    simp

/-! ### which lines a configuration block holds -/

theorem cfgAt_mem {config : List Cfg} {key : Bytes} {c : Cfg} (h : cfgAt config key = some c) :
    c ∈ config := by
  unfold cfgAt at h
  split at h
  · exact List.mem_of_getElem? h
  · exact absurd h (by simp)

theorem walk_sub (config : List Cfg) : ∀ (order : List Bytes) (fc : FC),
    (∀ k ∈ (walk config order fc).1, k ∈ order) ∧
    ∀ l ∈ (walk config order fc).2.2,
      (∃ k ∈ order, l = delLine k) ∨ (∃ k ∈ order, ∃ c ∈ config, c.file = true ∧ l = kvLine k c.value) := by
  intro order
  induction order with
  | nil => intro fc; simp [walk]
  | cons key rest ih =>
    intro fc
    cases hc : cfgAt config key with
    | none =>
      obtain ⟨h1, h2⟩ := ih (fc.erase key)
      simp only [walk, hc]
      refine ⟨fun k hk => List.mem_cons_of_mem _ (h1 k hk), fun l hl => ?_⟩
      simp only [List.mem_cons] at hl
      rcases hl with hl | hl
      · exact Or.inl ⟨key, List.mem_cons_self, hl⟩
      · rcases h2 l hl with ⟨k, hk, e⟩ | ⟨k, hk, c, hcm, hf, e⟩
        · exact Or.inl ⟨k, List.mem_cons_of_mem _ hk, e⟩
        · exact Or.inr ⟨k, List.mem_cons_of_mem _ hk, c, hcm, hf, e⟩
    | some cfg =>
      have hcm := cfgAt_mem hc
      simp only [walk, hc]
      split
      · obtain ⟨h1, h2⟩ := ih fc
        refine ⟨fun k hk => ?_, fun l hl => ?_⟩
        · simp only [List.mem_cons] at hk ⊢
          rcases hk with hk | hk
          · exact Or.inl hk
          · exact Or.inr (h1 k hk)
        · rcases h2 l hl with ⟨k, hk, e⟩ | ⟨k, hk, c, hcm', hf, e⟩
          · exact Or.inl ⟨k, List.mem_cons_of_mem _ hk, e⟩
          · exact Or.inr ⟨k, List.mem_cons_of_mem _ hk, c, hcm', hf, e⟩
      · obtain ⟨h1, h2⟩ := ih (fc.set key cfg.value cfg.file)
        refine ⟨fun k hk => ?_, fun l hl => ?_⟩
        · simp only [List.mem_cons] at hk ⊢
          rcases hk with hk | hk
          · exact Or.inl hk
          · exact Or.inr (h1 k hk)
        · simp only [List.mem_append] at hl
          rcases hl with hl | hl
          · by_cases hf : cfg.file = true
            · simp only [hf, ↓reduceIte, List.mem_singleton] at hl
              exact Or.inr ⟨key, List.mem_cons_self, cfg, hcm, hf, hl⟩
            · simp only [hf, Bool.false_eq_true, ↓reduceIte] at hl
              split at hl
              · simp only [List.mem_singleton] at hl
                exact Or.inl ⟨key, List.mem_cons_self, hl⟩
              · simp at hl
          · rcases h2 l hl with ⟨k, hk, e⟩ | ⟨k, hk, c, hcm', hf, e⟩
            · exact Or.inl ⟨k, List.mem_cons_of_mem _ hk, e⟩
            · exact Or.inr ⟨k, List.mem_cons_of_mem _ hk, c, hcm', hf, e⟩

theorem newKeys_sub : ∀ (cs : List Cfg) (fc : FC) (ord : List Bytes),
    (∀ k ∈ (newKeys cs fc ord).2.1, k ∈ ord ∨ k ∈ cs.map Cfg.key) ∧
    ∀ l ∈ (newKeys cs fc ord).2.2, ∃ c ∈ cs, c.file = true ∧ l = kvLine c.key c.value := by
  intro cs
  induction cs with
  | nil => intro fc ord; simp [newKeys]
  | cons c cs ih =>
    intro fc ord
    simp only [newKeys]
    split
    · obtain ⟨h1, h2⟩ := ih fc ord
      refine ⟨fun k hk => ?_, fun l hl => ?_⟩
      · rcases h1 k hk with h | h
        · exact Or.inl h
        · exact Or.inr (by simp only [List.map_cons, List.mem_cons]; exact Or.inr h)
      · obtain ⟨c', hc', hf, e⟩ := h2 l hl
        exact ⟨c', List.mem_cons_of_mem _ hc', hf, e⟩
    · obtain ⟨h1, h2⟩ := ih (fc.set c.key c.value c.file) (ord ++ [c.key])
      refine ⟨fun k hk => ?_, fun l hl => ?_⟩
      · rcases h1 k hk with h | h
        · simp only [List.mem_append, List.mem_singleton] at h
          rcases h with h | h
          · exact Or.inl h
          · exact Or.inr (by simp [h])
        · exact Or.inr (by simp only [List.map_cons, List.mem_cons]; exact Or.inr h)
      · simp only [List.mem_append] at hl
        rcases hl with hl | hl
        · by_cases hf : c.file = true
          · simp only [hf, ↓reduceIte, List.mem_singleton] at hl
            exact ⟨c, List.mem_cons_self, hf, hl⟩
          · simp [hf] at hl
        · obtain ⟨c', hc', hf, e⟩ := h2 l hl
          exact ⟨c', List.mem_cons_of_mem _ hc', hf, e⟩

/-- the keys the writer knows hold no LF -/
def KeysClean (w : WState) : Prop := ∀ k ∈ w.order, Bytes.hasByte k 10 = false

/-- what cleanliness needs from a configuration entry -/
def CfgClean (c : Cfg) : Prop :=
  Bytes.hasByte c.key 10 = false ∧ (c.file = true → valueOKnoCR c.value = true ∧ endsCR c.value = false)

theorem writeFileConfig_clean (w : WState) (config : List Cfg) (hk : KeysClean w)
    (hc : ∀ c ∈ config, CfgClean c) :
    KeysClean (writeFileConfig w config).1 ∧ ∀ l ∈ (writeFileConfig w config).2, Clean l := by
  obtain ⟨w1, w2⟩ := walk_sub config w.order w.fileConfig
  have hwalk : ∀ l ∈ (walk config w.order w.fileConfig).2.2, Clean l := by
    intro l hl
    rcases w2 l hl with ⟨k, hko, e⟩ | ⟨k, hko, c, hcm, hf, e⟩
    · rw [e]; exact clean_delLine (hk k hko)
    · rw [e]; exact clean_kvLine (hk k hko) ((hc c hcm).2 hf).1 ((hc c hcm).2 hf).2
  have hord1 : ∀ k ∈ (walk config w.order w.fileConfig).1, Bytes.hasByte k 10 = false :=
    fun k hk' => hk k (w1 k hk')
  unfold writeFileConfig
  simp only
  split
  · obtain ⟨n1, n2⟩ := newKeys_sub config (walk config w.order w.fileConfig).2.1 (walk config w.order w.fileConfig).1
    refine ⟨fun k hk' => ?_, fun l hl => ?_⟩
    · rcases n1 k hk' with h | h
      · exact hord1 k h
      · simp only [List.mem_map] at h
        obtain ⟨c, hcm, e⟩ := h
        rw [← e]; exact (hc c hcm).1
    · simp only [List.mem_append, List.mem_singleton] at hl
      rcases hl with ((hl | hl) | hl) | hl
      · split at hl
        · simp only [List.mem_singleton] at hl; rw [hl]; exact clean_blank
        · simp at hl
      · exact hwalk l hl
      · obtain ⟨c, hcm, hf, e⟩ := n2 l hl
        rw [e]; exact clean_kvLine (hc c hcm).1 ((hc c hcm).2 hf).1 ((hc c hcm).2 hf).2
      · rw [hl]; exact clean_blank
  · refine ⟨hord1, fun l hl => ?_⟩
    simp only [List.mem_append, List.mem_singleton, List.not_mem_nil, or_false] at hl
    rcases hl with (hl | hl) | hl
    · split at hl
      · simp only [List.mem_singleton] at hl; rw [hl]; exact clean_blank
      · simp at hl
    · exact hwalk l hl
    · rw [hl]; exact clean_blank

theorem cfgClean_of_ok (O : Oracles) (c : Cfg) (h : cfgOKnoCR O c = true)
    (hcr : (c.file && endsCR c.value) = false) : CfgClean c := by
  unfold cfgOKnoCR at h
  by_cases hf : c.file = true
  · simp only [hf, ↓reduceIte, Bool.and_eq_true] at h
    simp only [hf, Bool.true_and] at hcr
    exact ⟨noLF_of_noAsciiSpace (keyOK_noSpace h.1), fun _ => ⟨h.2, hcr⟩⟩
  · have hf' : c.file = false := by simpa using hf
    simp only [hf', Bool.false_eq_true, ↓reduceIte, internalKeyOK, Bool.and_eq_true, Bool.not_eq_true'] at h
    exact ⟨h.1, fun hh => absurd hh (by simp [hf'])⟩

theorem history_clean (O : Oracles) (P : WParams) :
    ∀ (h : List Rec) (w : WState), NumOKFor O P h → KeysClean w → (∀ r ∈ h, recOKnoCR O r = true) →
      hasCRValue h = false →
      ∀ l ∈ Writer.writeFrom P w h, Clean l := by
  intro h
  induction h with
  | nil => intro w _ _ _ _ l hl; simp [Writer.writeFrom] at hl
  | cons rec rest ih =>
    intro w hnum hk hok hcr l hl
    have hnum' : NumOKFor O P rest := fun r hr => hnum r (List.mem_cons_of_mem _ hr)
    have hrest : ∀ r ∈ rest, recOKnoCR O r = true := fun r hr => hok r (List.mem_cons_of_mem _ hr)
    have hrec := hok rec List.mem_cons_self
    simp only [hasCRValue, List.any_cons, Bool.or_eq_false_iff] at hcr
    have hcr' : hasCRValue rest = false := by simpa [hasCRValue] using hcr.2
    simp only [Writer.writeFrom, List.mem_append] at hl
    cases rec with
    | err e =>
      simp only [Writer.write, List.not_mem_nil, false_or] at hl
      exact ih w hnum' hk hrest hcr' l hl
    | unit u =>
      simp only [Writer.write, List.mem_singleton] at hl
      rcases hl with hl | hl
      · rw [hl]; exact clean_unitLine O u hrec
      · exact ih w hnum' hk hrest hcr' l hl
    | result r =>
      simp only [recOKnoCR, resOKnoCR, Bool.and_eq_true, List.all_eq_true, Bool.not_eq_true'] at hrec
      obtain ⟨⟨⟨⟨_, hc⟩, _⟩, hn⟩, hu⟩ := hrec
      have hcrr : ∀ c ∈ r.config, (c.file && endsCR c.value) = false := by
        have := hcr.1
        simp only [List.any_eq_false] at this
        intro c hcm
        have := this c hcm
        simpa using this
      have hclean : ∀ c ∈ r.config, CfgClean c := fun c hcm => cfgClean_of_ok O c (hc c hcm) (hcrr c hcm)
      have hunits : ∀ v ∈ r.values, v.written.2 ≠ [] ∧ tokenOK O.uc v.written.2 = true := by
        intro v hvm
        have := hu v hvm
        simp only [valOK, Bool.and_eq_true, Bool.not_eq_true'] at this
        rw [written_snd]
        refine ⟨?_, this.2⟩
        intro he; rw [he] at this; simp at this
      have hblock : KeysClean (if needFileConfig w.fileConfig r.config then writeFileConfig w r.config else (w, [])).1 ∧
          ∀ l ∈ (if needFileConfig w.fileConfig r.config then writeFileConfig w r.config else (w, [])).2, Clean l := by
        split
        · exact writeFileConfig_clean w r.config hk hclean
        · exact ⟨hk, fun l hl => by simp at hl⟩
      rcases hl with hl | hl
      · simp only [Writer.write, writeResult, List.mem_append, List.mem_singleton] at hl
        rcases hl with hl | hl
        · exact hblock.2 l hl
        · rw [hl]; exact clean_benchLine O P r (hnum r List.mem_cons_self) hn hunits
      · refine ih _ hnum' ?_ hrest hcr' l hl
        simp only [Writer.write, writeResult]
        exact hblock.1

end C01
