/-
C19 helper lemmas: SplitWords undoes the quoting of the analysis front end's addToQuery.
-/
import Model.Storage.Query
import Model.Analysis.Quote

namespace C19
open Storage.Query Analysis.Quote

theorem swGo_nil (b : Bool) (w : Bytes) (ws : List Bytes) : swGo b w ws [] = flush w ws := by
  cases b <;> simp [swGo]
theorem swGo_true_cons (w : Bytes) (ws : List Bytes) (c : UInt8) (rest : Bytes) :
    swGo true w ws (c :: rest) =
      if c == cQuote then swGo false w ws rest
      else if c == cBackslash then
        (match rest with
        | [] => flush w ws
        | d :: rest' => swGo true (w ++ [d]) ws rest')
      else swGo true (w ++ [c]) ws rest := by
  rw [swGo.eq_def]; rfl
theorem swGo_false_cons (w : Bytes) (ws : List Bytes) (c : UInt8) (rest : Bytes) :
    swGo false w ws (c :: rest) =
      if c == cQuote then swGo true w ws rest
      else if c == cSpace || c == cTab then swGo false [] (flush w ws) rest
      else if c == cBackslash then
        (match rest with
        | [] => flush w ws
        | d :: rest' => swGo false (w ++ [d]) ws rest')
      else swGo false (w ++ [c]) ws rest := by
  rw [swGo.eq_def]; rfl

/-- per-byte view of the two `strings.Replace` passes -/
def enc (c : UInt8) : Bytes :=
  if c == cBackslash then [cBackslash, cBackslash] else if c == cQuote then [cBackslash, cQuote] else [c]

theorem replace_append (c : UInt8) (to a b : Bytes) :
    replaceByte c to (a ++ b) = replaceByte c to a ++ replaceByte c to b := by
  simp [replaceByte]

theorem escape_eq (s : Bytes) :
    replaceByte cQuote [cBackslash, cQuote] (replaceByte cBackslash [cBackslash, cBackslash] s)
      = s.flatMap enc := by
  induction s with
  | nil => simp [replaceByte]
  | cons c s ih =>
    have h1 : replaceByte cBackslash [cBackslash, cBackslash] (c :: s)
        = (if c == cBackslash then [cBackslash, cBackslash] else [c]) ++
          replaceByte cBackslash [cBackslash, cBackslash] s := by
      simp [replaceByte]
    rw [h1, replace_append, ih, List.flatMap_cons]
    congr 1
    by_cases hb : c = cBackslash
    · subst hb; simp [enc, replaceByte, cBackslash, cQuote]
    · by_cases hq : c = cQuote
      · subst hq; simp [enc, replaceByte, cBackslash, cQuote]
      · simp [enc, replaceByte, hb, hq]

/-- inside quotes the escaped text is read back byte for byte -/
theorem swGo_quoted (s w : Bytes) (ws : List Bytes) (rest : Bytes) :
    swGo true w ws (s.flatMap enc ++ rest) = swGo true (w ++ s) ws rest := by
  induction s generalizing w with
  | nil => simp
  | cons c s ih =>
    rw [List.flatMap_cons, List.append_assoc]
    by_cases hb : c = cBackslash
    · subst hb
      simp only [enc, beq_self_eq_true, if_true, List.cons_append, List.nil_append]
      rw [swGo_true_cons]
      simp only [show (cBackslash == cQuote) = false from by decide, Bool.false_eq_true, if_false,
        beq_self_eq_true, if_true]
      rw [ih]; simp
    · by_cases hq : c = cQuote
      · subst hq
        simp only [enc, show (cQuote == cBackslash) = false from by decide, Bool.false_eq_true,
          if_false, beq_self_eq_true, if_true, List.cons_append, List.nil_append]
        rw [swGo_true_cons]
        simp only [show (cBackslash == cQuote) = false from by decide, Bool.false_eq_true, if_false,
          beq_self_eq_true, if_true]
        rw [ih]; simp
      · have hb' : (c == cBackslash) = false := by simpa using hb
        have hq' : (c == cQuote) = false := by simpa using hq
        simp only [enc, hb', hq', Bool.false_eq_true, if_false, List.cons_append, List.nil_append]
        rw [swGo_true_cons]
        simp only [hb', hq', Bool.false_eq_true, if_false]
        rw [ih]; simp

/-- outside quotes a word without blanks, quotes and backslashes is read byte for byte -/
theorem swGo_plain (s w : Bytes) (ws : List Bytes) (rest : Bytes) (h : needsQuote s = false) :
    swGo false w ws (s ++ rest) = swGo false (w ++ s) ws rest := by
  induction s generalizing w with
  | nil => simp
  | cons c s ih =>
    simp only [needsQuote, List.any_cons, Bool.or_eq_false_iff] at h
    obtain ⟨⟨⟨⟨h1, h2⟩, h3⟩, h4⟩, hs⟩ := h
    rw [List.cons_append, swGo_false_cons]
    simp only [h1, h2, h3, h4, Bool.false_eq_true, if_false, Bool.or_self]
    rw [ih _ (by simpa [needsQuote] using hs)]; simp

/-- reading a quoted word appends exactly the word to the word under construction -/
theorem swGo_quote (s w : Bytes) (ws : List Bytes) (rest : Bytes) :
    swGo false w ws (quote s ++ rest) = swGo false (w ++ s) ws rest := by
  unfold quote
  by_cases h : needsQuote s = true
  · simp only [h, if_true]
    rw [escape_eq]
    simp only [List.cons_append, List.nil_append, List.append_assoc]
    rw [swGo_false_cons]
    simp only [beq_self_eq_true, if_true]
    rw [swGo_quoted, swGo_true_cons]
    simp
  · have h' : needsQuote s = false := by simpa using h
    simp only [h', Bool.false_eq_true, if_false]
    exact swGo_plain s w ws rest h'

theorem flush_acc (w : Bytes) (ws : List Bytes) : flush w ws = ws ++ flush w [] := by
  unfold flush; split <;> simp

/-- the words already found are a prefix of the result -/
theorem swGo_acc (b : Bool) (w : Bytes) (ws : List Bytes) (r : Bytes) :
    swGo b w ws r = ws ++ swGo b w [] r := by
  generalize hn : r.length = n
  induction n using Nat.strongRecOn generalizing b w ws r with
  | _ n ih =>
    cases r with
    | nil => rw [swGo_nil, swGo_nil]; exact flush_acc w ws
    | cons c r =>
      simp only [List.length_cons] at hn
      have ih1 := fun b w ws => ih r.length (by omega) b w ws r rfl
      cases b with
      | true =>
        rw [swGo_true_cons, swGo_true_cons]
        split
        · exact ih1 _ _ _
        · split
          · cases r with
            | nil => exact flush_acc w ws
            | cons d r' =>
              exact ih r'.length (by simp only [List.length_cons] at hn; omega) _ _ _ r' rfl
          · exact ih1 _ _ _
      | false =>
        rw [swGo_false_cons, swGo_false_cons]
        split
        · exact ih1 _ _ _
        · split
          · rw [ih1 false [] (flush w ws), ih1 false [] (flush w []), flush_acc w ws,
              List.append_assoc]
          · split
            · cases r with
              | nil => exact flush_acc w ws
              | cons d r' =>
                exact ih r'.length (by simp only [List.length_cons] at hn; omega) _ _ _ r' rfl
            · exact ih1 _ _ _

theorem splitWords_nonempty (q : Bytes) : ∀ w ∈ splitWords q, w ≠ [] := by
  suffices h : ∀ n (r : Bytes), r.length = n → ∀ b w ws, (∀ x ∈ ws, x ≠ []) →
      ∀ x ∈ swGo b w ws r, x ≠ [] from h _ q rfl false [] [] (by simp)
  intro n
  induction n using Nat.strongRecOn with
  | _ n ih =>
    intro r hn b w ws hws
    have hflush : ∀ x ∈ flush w ws, x ≠ [] := by
      unfold flush; split
      · exact hws
      · intro x hx
        rcases List.mem_append.mp hx with h | h
        · exact hws x h
        · simp at h; subst h; intro hnil; simp_all
    cases r with
    | nil => rw [swGo_nil]; exact hflush
    | cons c r =>
      simp only [List.length_cons] at hn
      have ih1 := fun b w ws hws => ih r.length (by omega) r rfl b w ws hws
      cases b with
      | true =>
        rw [swGo_true_cons]
        split
        · exact ih1 _ _ _ hws
        · split
          · cases r with
            | nil => exact hflush
            | cons d r' =>
              exact ih r'.length (by simp only [List.length_cons] at hn; omega) r' rfl _ _ _ hws
          · exact ih1 _ _ _ hws
      | false =>
        rw [swGo_false_cons]
        split
        · exact ih1 _ _ _ hws
        · split
          · exact ih1 _ _ _ hflush
          · split
            · cases r with
              | nil => exact hflush
              | cons d r' =>
                exact ih r'.length (by simp only [List.length_cons] at hn; omega) r' rfl _ _ _ hws
            · exact ih1 _ _ _ hws

/-- a quoted word followed by a blank is split off as exactly that word -/
theorem splitWords_quote_cons (s rest : Bytes) (hs : s ≠ []) :
    splitWords (quote s ++ cSpace :: rest) = s :: splitWords rest := by
  unfold splitWords
  rw [swGo_quote, swGo_false_cons]
  simp only [show (cSpace == cQuote) = false from by decide, Bool.false_eq_true, if_false,
    beq_self_eq_true, Bool.true_or, if_true, List.nil_append]
  rw [swGo_acc]
  have : flush s [] = [s] := by unfold flush; simp [hs]
  rw [this]; rfl

theorem splitWords_quote_end (s : Bytes) (hs : s ≠ []) : splitWords (quote s) = [s] := by
  have := swGo_quote s [] [] []
  unfold splitWords
  rw [List.append_nil] at this
  rw [this, swGo_nil]
  unfold flush; simp [hs]

end C19
