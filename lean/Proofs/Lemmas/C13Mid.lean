/-
C13: the float64 interpolation `a + 0.5·(b − a)` of two finite values a ≤ b (moremath's
`Sample.Quantile(0.5)` for even sample sizes) lies between a and b and within two units in the last
place of the exact midpoint — provided b − a is finite (its failure is the recorded finding X1).
Built on the read-only float64 library (F64RoundQ: `roundQ_mono`, `roundQ_exact`, `roundQ_dyadic`,
`roundMag_err`; F64Arith: `sval_add`, `sval_sub`, `sval_mul`, `add_eq`).
-/
import Proofs.Lemmas.F64Arith

namespace C13
open F64

set_option exponentiation.threshold 2000

/-- 0.5 -/
def halfB : Bits := 0x3FE0000000000000

theorem sval_halfB : sval halfB = 1 / 2 := by
  have h1 : signBit halfB = false := by decide
  have h2 : mant halfB = 2 ^ 52 := by decide
  have h3 : expo halfB = -53 := by decide
  unfold sval val; rw [h1, h2, h3]; norm_num

/-- half of the smallest subnormal step: 2⁻¹⁰⁷⁵ -/
def tinyQ : ℚ := (2 : ℚ) ^ (-1075 : Int)

theorem tinyQ_pos : 0 < tinyQ := two_zpow_pos _

/-! ### rounding error of `roundQ` -/

/-- **roundQ_err** — a finite rounding result is within 2⁻⁵³ relative, or half a subnormal step
absolute, of the rounded rational -/
theorem roundQ_err (q : ℚ) (hf : isFinite (roundQ q) = true) :
    |sval (roundQ q) - q| ≤ |q| / 2 ^ 53 + tinyQ := by
  rcases eq_or_ne q 0 with h0 | h0
  · subst h0; rw [roundQ_zero, sval_posZero]; have := tinyQ_pos; simp; linarith
  have hn : 0 < q.num.natAbs := Int.natAbs_pos.mpr (Rat.num_ne_zero.mpr h0)
  have hd := q.den_pos
  have hnd := natAbs_div_den q
  have habs : 0 < |q| := abs_pos.mpr h0
  -- the magnitude is finite
  have hmf : isFinite (magQ q) = true := by
    rw [roundQ_eq] at hf; split at hf
    · rwa [isFinite_neg] at hf
    · exact hf
  have hov : magBits q.num.natAbs q.den < 0x7FF0000000000000 := by
    have h1 := (isFinite_iff (magQ q)).mp hmf
    have h2 := toNat_decomp_full (magQ q)
    rw [magQ_signBit] at h2
    have h3 := roundMag_toNat q.num.natAbs q.den hn hd
    unfold magQ at h1 h2
    simp at h2
    omega
  have herr := roundMag_err q.num.natAbs q.den hn hd hov
  rw [hnd] at herr
  obtain ⟨s1, s2, s3⟩ := shiftOf_specQ q.num.natAbs q.den hn hd
  rw [hnd] at s2 s3
  -- the error in terms of |q|
  have key : |val (magQ q) - abs q| ≤ |q| / 2 ^ 53 + tinyQ := by
    refine le_trans herr ?_
    have two_ne : (2 : ℚ) ≠ 0 := by norm_num
    rcases lt_or_eq_of_le s1 with hlt | heq
    · have h52 := s3 hlt
      have hp := two_zpow_pos (-shiftOf q.num.natAbs q.den)
      have e : |q| = |q| * (2 : ℚ) ^ (shiftOf q.num.natAbs q.den) * (2 : ℚ) ^ (-shiftOf q.num.natAbs q.den) := by
        rw [mul_assoc, ← zpow_add₀ two_ne, add_neg_cancel, zpow_zero, _root_.mul_one]
      have : (2 : ℚ) ^ 52 * (2 : ℚ) ^ (-shiftOf q.num.natAbs q.den) ≤ |q| := by
        rw [e]; exact mul_le_mul_of_nonneg_right h52 hp.le
      have h53 : (2 : ℚ) ^ 53 = 2 * 2 ^ 52 := by norm_num
      rw [h53]
      have hpos : (0 : ℚ) < tinyQ := tinyQ_pos
      have : (2 : ℚ) ^ (-shiftOf q.num.natAbs q.den) / 2 ≤ |q| / (2 * 2 ^ 52) := by
        rw [div_le_div_iff₀ (by norm_num) (by positivity)]
        nlinarith
      linarith
    · rw [heq]
      have : (2 : ℚ) ^ (-(1074 : Int)) / 2 = tinyQ := by
        unfold tinyQ
        rw [show (-1075 : Int) = -1074 - 1 by norm_num, zpow_sub_one₀ two_ne]; ring
      rw [this]
      have : 0 ≤ |q| / 2 ^ 53 := by positivity
      linarith
  rw [sval_roundQ]
  split
  · rename_i hneg
    rw [abs_of_neg hneg] at key
    rw [show -val (magQ q) - q = -(val (magQ q) - -q) by ring, _root_.abs_neg]
    rwa [abs_of_neg hneg]
  · rename_i hpos
    rw [abs_of_nonneg (not_lt.mp hpos)] at key
    rwa [abs_of_nonneg (not_lt.mp hpos)]

/-! ### small helpers -/

/-- 2⁻¹⁰²¹: below it every difference of two floats is computed exactly -/
def gridTop : ℚ := (2 : ℚ) ^ (-1021 : Int)

theorem gridTop_pos : 0 < gridTop := two_zpow_pos _

theorem tinyQ_eq : tinyQ = gridTop / 2 ^ 54 := by
  unfold tinyQ gridTop
  rw [show (-1075 : Int) = -1021 + -54 by norm_num, zpow_add₀ (by norm_num : (2 : ℚ) ≠ 0)]
  have : (2 : ℚ) ^ (-54 : Int) = 1 / 2 ^ 54 := by norm_num
  rw [this]; ring

theorem finite_of_abs_le (c d : Bits) (hd : isFinite d = true) (h : |sval c| ≤ |sval d|) :
    isFinite c = true := by
  rw [abs_sval, abs_sval, val_le_iff] at h
  rw [isFinite_iff] at hd ⊢
  omega

theorem sval_roundQ_self (x : Bits) (hx : isFinite x = true) : sval (roundQ (sval x)) = sval x := by
  by_cases hz : isZero x = true
  · rw [sval_eq_zero_of_isZero hz, roundQ_zero, sval_posZero]
  · rw [roundQ_exact x hx (by simpa using hz)]

/-- every finite float is an integer multiple of 2⁻¹⁰⁷⁴ -/
theorem sval_grid (a : Bits) : ∃ k : Int, sval a = (k : ℚ) * (2 : ℚ) ^ (-1074 : Int) := by
  have he := expo_ge a
  have two_ne : (2 : ℚ) ≠ 0 := by norm_num
  have hv : val a = ((mant a * 2 ^ (expo a + 1074).toNat : Nat) : ℚ) * (2 : ℚ) ^ (-1074 : Int) := by
    unfold val
    push_cast
    rw [mul_assoc, ← zpow_natCast (2 : ℚ), ← zpow_add₀ two_ne]
    congr 2
    omega
  unfold sval
  split
  · exact ⟨-((mant a * 2 ^ (expo a + 1074).toNat : Nat) : Int), by rw [hv]; push_cast; ring⟩
  · exact ⟨((mant a * 2 ^ (expo a + 1074).toNat : Nat) : Int), by rw [hv]; push_cast; ring⟩

/-- a non-negative difference of two floats below 2⁻¹⁰²¹ is rounded without error -/
theorem roundQ_small_diff (a b : Bits) (h0 : 0 ≤ sval b - sval a) (hs : sval b - sval a < gridTop) :
    sval (roundQ (sval b - sval a)) = sval b - sval a := by
  obtain ⟨ka, hka⟩ := sval_grid a
  obtain ⟨kb, hkb⟩ := sval_grid b
  have hp := two_zpow_pos (-1074 : Int)
  have hx : sval b - sval a = ((kb - ka : Int) : ℚ) * (2 : ℚ) ^ (-1074 : Int) := by
    rw [hka, hkb]; push_cast; ring
  have hk0 : 0 ≤ kb - ka := by
    by_contra hneg
    have : ((kb - ka : Int) : ℚ) < 0 := by exact_mod_cast (not_le.mp hneg)
    have := mul_neg_of_neg_of_pos this hp
    linarith
  have hM : ((kb - ka).toNat : ℚ) = ((kb - ka : Int) : ℚ) := by
    have : (((kb - ka).toNat : Int)) = kb - ka := Int.toNat_of_nonneg hk0
    exact_mod_cast this
  have hlt : (kb - ka).toNat < 2 ^ 53 := by
    have e : gridTop = (2 : ℚ) ^ (53 : Int) * (2 : ℚ) ^ (-1074 : Int) := by
      unfold gridTop
      rw [← zpow_add₀ (by norm_num : (2 : ℚ) ≠ 0)]; norm_num
    rw [hx, e, ← hM] at hs
    have := lt_of_mul_lt_mul_right hs hp.le
    have h53 : ((2 : ℚ) ^ (53 : Int)) = ((2 ^ 53 : Nat) : ℚ) := by norm_num
    rw [h53] at this
    exact_mod_cast this
  refine (roundQ_dyadic (sval b - sval a) (kb - ka).toNat (-1074) hlt (le_refl _) ?_ ?_).1
  · rw [abs_of_nonneg h0, hx, hM]
  · rw [abs_of_nonneg h0]
    refine lt_trans hs ?_
    unfold gridTop
    exact zpow_lt_zpow_right₀ (by norm_num) (by norm_num)

/-! ### the interpolation -/

/-- **midpoint_f64** — for finite float64 a ≤ b (by value) with b − a finite (no overflow: not in
class X1), the value c = a + 0.5·(b − a) computed in float64 (three roundings) is finite, lies in
[a, b], and is within max(|a|,|b|)·2⁻⁵¹ + 2⁻¹⁰⁷³ of the exact midpoint (a + b)/2. -/
theorem midpoint_f64 (a b : Bits) (ha : isFinite a = true) (hb : isFinite b = true)
    (hab : sval a ≤ sval b) (hd : isFinite (F64.sub b a) = true) :
    isFinite (F64.add a (F64.mul halfB (F64.sub b a))) = true ∧
    sval a ≤ sval (F64.add a (F64.mul halfB (F64.sub b a))) ∧
    sval (F64.add a (F64.mul halfB (F64.sub b a))) ≤ sval b ∧
    |sval (F64.add a (F64.mul halfB (F64.sub b a))) - (sval a + sval b) / 2|
      ≤ max |sval a| |sval b| / 2 ^ 51 + 4 * tinyQ := by
  have two_ne : (2 : ℚ) ≠ 0 := by norm_num
  have htiny := tinyQ_pos
  have hgt := gridTop_pos
  have hte := tinyQ_eq
  set x : ℚ := sval b - sval a with hxdef
  have hx0 : 0 ≤ x := by linarith
  set d := F64.sub b a with hddef
  -- d = R(x)
  have hD : sval d = sval (roundQ x) := sval_sub b a hb ha
  have hRxfin : isFinite (roundQ x) = true := by
    rcases eq_or_ne x 0 with h0 | h0
    · rw [h0, roundQ_zero]; decide
    · have e : d = roundQ x := by
        rw [hddef, sub_eq b a (isNaN_of_finite ha), add_eq b (neg a) hb (by rw [isFinite_neg]; exact ha), sval_neg,
          ← sub_eq_add_neg, if_neg h0]
      rw [← e]; exact hd
  have hD0 : 0 ≤ sval d := by
    rw [hD]; have := roundQ_mono 0 x hx0; rwa [roundQ_zero, sval_posZero] at this
  -- h = R(D/2)
  set h := F64.mul halfB d with hhdef
  have hH : sval h = sval (roundQ (sval d / 2)) := by
    rw [hhdef, sval_mul halfB d (by decide) hd, sval_halfB]; congr 2; ring
  have hH0 : 0 ≤ sval h := by
    rw [hH]; have := roundQ_mono 0 (sval d / 2) (by linarith); rwa [roundQ_zero, sval_posZero] at this
  have hHD : sval h ≤ sval d := by
    rw [hH]; have := roundQ_mono (sval d / 2) (sval d) (by linarith)
    rwa [sval_roundQ_self d hd] at this
  have hhfin : isFinite h = true :=
    finite_of_abs_le h d hd (by rw [abs_of_nonneg hH0, abs_of_nonneg hD0]; exact hHD)
  have hRhfin : isFinite (roundQ (sval d / 2)) = true :=
    finite_of_abs_le _ d hd (by rw [← hH, abs_of_nonneg hH0, abs_of_nonneg hD0]; exact hHD)
  -- the key inequality H ≤ x
  have hHx : sval h ≤ x := by
    by_cases hsmall : x < gridTop
    · have : sval d = x := by rw [hD]; exact roundQ_small_diff a b hx0 hsmall
      linarith
    · have hxge : gridTop ≤ x := not_lt.mp hsmall
      -- D ≥ 2^-1021, so halving D is exact
      have hDge : gridTop ≤ sval d := by
        rw [hD]
        have h1 := roundQ_mono gridTop x hxge
        have h2 := (roundQ_dyadic gridTop 1 (-1021) (by norm_num) (by norm_num)
          (by rw [abs_of_pos hgt]; unfold gridTop; simp)
          (by rw [abs_of_pos hgt]; unfold gridTop; exact zpow_lt_zpow_right₀ (by norm_num) (by norm_num))).1
        linarith
      have hvd : val d = sval d := by rw [← abs_sval, abs_of_nonneg hD0]
      have hE2 : 2 ≤ expField d := by
        by_contra hlt
        have := val_lt_of_expField d (-1073) (by omega) (by norm_num)
        rw [hvd] at this
        have e : (2 : ℚ) ^ ((52 : Int) + -1073) = gridTop := by unfold gridTop; norm_num
        rw [e] at this; linarith
      have hEx : expo d = (expField d : Int) - 1075 := by rw [expo_eq, if_neg (by omega)]
      have hEle : expField d ≤ 2046 := by
        have := (isFinite_iff d).mp hd; have := fracField_lt d; unfold magOf at *; omega
      have hhalf : sval h = sval d / 2 := by
        rw [hH]
        refine (roundQ_dyadic (sval d / 2) (mant d) (expo d - 1) (mant_lt d) (by omega) ?_ ?_).1
        · rw [abs_of_nonneg (by linarith), ← hvd]; unfold val; rw [zpow_sub_one₀ two_ne]; ring
        · rw [abs_of_nonneg (by linarith), ← hvd]
          have hlt := val_lt_of_expField d 972 (by omega) (by norm_num)
          have e : (52 : Int) + 972 = 1024 := by norm_num
          rw [e] at hlt
          exact lt_of_le_of_lt (half_le_self (val_nonneg d)) hlt
      have herr := roundQ_err x hRxfin
      rw [← hD, abs_of_nonneg hx0] at herr
      have := (abs_le.mp herr).2
      rw [hhalf]
      -- D ≤ x + x/2^53 + tiny, tiny = gridTop/2^54 ≤ x/2^54
      have : tinyQ ≤ x / 2 ^ 54 := by rw [hte]; exact div_le_div_of_nonneg_right hxge (by positivity)
      linarith
  -- c = R(a + H)
  have hC : sval (F64.add a h) = sval (roundQ (sval a + sval h)) := sval_add a h ha hhfin
  have hlo : sval a ≤ sval (F64.add a h) := by
    rw [hC]; have := roundQ_mono (sval a) (sval a + sval h) (by linarith)
    rwa [sval_roundQ_self a ha] at this
  have hhi : sval (F64.add a h) ≤ sval b := by
    rw [hC]; have := roundQ_mono (sval a + sval h) (sval b) (by linarith)
    rwa [sval_roundQ_self b hb] at this
  -- finiteness: |c| ≤ max(|a|, |b|)
  have habs : |sval (F64.add a h)| ≤ max |sval a| |sval b| := by
    rw [abs_le]
    constructor
    · have := neg_abs_le (sval a); have := le_max_left |sval a| |sval b|; linarith
    · have := le_abs_self (sval b); have := le_max_right |sval a| |sval b|; linarith
  have hcfin : isFinite (F64.add a h) = true := by
    rcases le_total |sval a| |sval b| with hm | hm
    · exact finite_of_abs_le _ b hb (by rwa [max_eq_right hm] at habs)
    · exact finite_of_abs_le _ a ha (by rwa [max_eq_left hm] at habs)
  have hRcfin : isFinite (roundQ (sval a + sval h)) = true := by
    rcases le_total |sval a| |sval b| with hm | hm
    · exact finite_of_abs_le _ b hb (by rw [← hC]; rwa [max_eq_right hm] at habs)
    · exact finite_of_abs_le _ a ha (by rw [← hC]; rwa [max_eq_left hm] at habs)
  refine ⟨hcfin, hlo, hhi, ?_⟩
  -- the quantitative bound: three rounding errors
  have e1 := roundQ_err x hRxfin
  rw [← hD, abs_of_nonneg hx0] at e1
  have e2 := roundQ_err (sval d / 2) hRhfin
  rw [← hH, abs_of_nonneg (by linarith : (0 : ℚ) ≤ sval d / 2)] at e2
  have e3 := roundQ_err (sval a + sval h) hRcfin
  rw [← hC] at e3
  set m := max |sval a| |sval b| with hm
  have hma : |sval a| ≤ m := le_max_left _ _
  have hmb : |sval b| ≤ m := le_max_right _ _
  have hm0 : 0 ≤ m := le_trans (abs_nonneg _) hma
  have hxm : x ≤ 2 * m := by
    have := le_abs_self (sval b); have := neg_abs_le (sval a); linarith
  have hsum : |sval a + sval h| ≤ m := by
    rw [abs_le]
    constructor
    · have := neg_abs_le (sval a); linarith
    · have := le_abs_self (sval b); linarith
  have e3' : |sval (F64.add a h) - (sval a + sval h)| ≤ m / 2 ^ 53 + tinyQ := by
    refine le_trans e3 ?_
    have : |sval a + sval h| / 2 ^ 53 ≤ m / 2 ^ 53 := div_le_div_of_nonneg_right hsum (by positivity)
    linarith
  obtain ⟨e1l, e1u⟩ := abs_le.mp e1
  obtain ⟨e2l, e2u⟩ := abs_le.mp e2
  obtain ⟨e3l, e3u⟩ := abs_le.mp e3'
  have hmid : (sval a + sval b) / 2 = sval a + x / 2 := by rw [hxdef]; ring
  rw [hmid, abs_le]
  have k53 : (0 : ℚ) < 2 ^ 53 := by positivity
  have hx53 : x / 2 ^ 53 ≤ 2 * m / 2 ^ 53 := div_le_div_of_nonneg_right hxm (by positivity)
  have hd53 : sval d / 2 / 2 ^ 53 ≤ (2 * m + 2 * m / 2 ^ 53 + tinyQ) / 2 / 2 ^ 53 := by
    apply div_le_div_of_nonneg_right _ (by positivity)
    linarith
  have hmm : m / 2 ^ 53 / 2 ^ 53 ≤ m / 2 ^ 53 := by
    apply div_le_self (by positivity); norm_num
  have htt : tinyQ / 2 / 2 ^ 53 ≤ tinyQ := by
    rw [div_div]; apply div_le_self htiny.le; norm_num
  have expand : (2 * m + 2 * m / 2 ^ 53 + tinyQ) / 2 / 2 ^ 53
      = m / 2 ^ 53 + m / 2 ^ 53 / 2 ^ 53 + tinyQ / 2 / 2 ^ 53 := by ring
  have h51 : m / 2 ^ 51 = 4 * (m / 2 ^ 53) := by ring
  constructor <;> linarith

end C13
