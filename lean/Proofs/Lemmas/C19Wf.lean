/-
C19 helper lemmas: every database state reachable by uploads satisfies the integrity predicate `WF`
that `query_result_spec` assumes.
-/
import Model.Storage.Query
import Model.Storage.Fmt
import Proofs.Lemmas.C19Rel
import Proofs.Lemmas.C19Fmt

namespace C19
open Storage.Query Storage.Fmt

/-! ### Labels.set / erase -/

theorem mem_set_self (l : Labels) (k v : Bytes) : (k, v) ∈ Labels.set l k v := by
  induction l with
  | nil => simp [Labels.set]
  | cons x rest ih =>
    obtain ⟨k', v'⟩ := x
    unfold Labels.set
    split
    · simp
    · split
      · simp
      · simp [ih]

theorem mem_set_of_mem (l : Labels) (k v : Bytes) (x : Bytes × Bytes) (hx : x ∈ l) (hk : x.1 ≠ k) :
    x ∈ Labels.set l k v := by
  induction l with
  | nil => cases hx
  | cons y rest ih =>
    obtain ⟨k', v'⟩ := y
    unfold Labels.set
    rcases List.mem_cons.mp hx with rfl | hx
    · have : (k' == k) = false := by simpa using hk
      simp only [this, Bool.false_eq_true, if_false]
      split <;> simp
    · split
      · exact List.mem_cons_of_mem _ hx
      · split
        · exact List.mem_cons_of_mem _ (List.mem_cons_of_mem _ hx)
        · exact List.mem_cons_of_mem _ (ih hx)

theorem mem_set_cases (l : Labels) (k v : Bytes) (x : Bytes × Bytes) (hx : x ∈ Labels.set l k v) :
    x = (k, v) ∨ x ∈ l := by
  induction l with
  | nil => simp [Labels.set] at hx; exact Or.inl hx
  | cons y rest ih =>
    obtain ⟨k', v'⟩ := y
    unfold Labels.set at hx
    split at hx
    · rcases List.mem_cons.mp hx with h | h
      · exact Or.inl h
      · exact Or.inr (List.mem_cons_of_mem _ h)
    · split at hx
      · rcases List.mem_cons.mp hx with h | h
        · exact Or.inl h
        · exact Or.inr h
      · rcases List.mem_cons.mp hx with h | h
        · exact Or.inr (h ▸ List.mem_cons_self)
        · rcases ih h with h | h
          · exact Or.inl h
          · exact Or.inr (List.mem_cons_of_mem _ h)

theorem mem_erase_of_mem (l : Labels) (k : Bytes) (x : Bytes × Bytes) (hx : x ∈ l) (hk : x.1 ≠ k) :
    x ∈ Labels.erase l k := by
  unfold Labels.erase
  exact List.mem_filter.mpr ⟨hx, by simpa using hk⟩

theorem has_of_mem (l : Labels) (x : Bytes × Bytes) (hx : x ∈ l) : Labels.has l x.1 = true := by
  unfold Labels.has
  exact List.any_eq_true.mpr ⟨x, hx, by simp⟩

/-! ### the server's `upload` label reaches every result -/

theorem foldl_set_mem (id : Bytes) (lbls acc : Labels)
    (h1 : (uploadKey, id) ∈ acc ∨ (uploadKey, id) ∈ lbls)
    (h2 : ∀ x ∈ lbls, x.1 = uploadKey → x = (uploadKey, id)) :
    (uploadKey, id) ∈ lbls.foldl (fun a kv => a.set kv.1 kv.2) acc := by
  induction lbls generalizing acc with
  | nil => simpa using h1
  | cons y rest ih =>
    simp only [List.foldl_cons]
    apply ih
    · by_cases hy : y.1 = uploadKey
      · have := h2 y (by simp) hy
        subst this
        exact Or.inl (mem_set_self _ _ _)
      · rcases h1 with h | h
        · exact Or.inl (mem_set_of_mem _ _ _ _ h (fun e => hy e.symm))
        · rcases List.mem_cons.mp h with h | h
          · exact absurd (h ▸ rfl) hy
          · exact Or.inr h
    · intro x hx; exact h2 x (List.mem_cons_of_mem _ hx)

theorem mem_ofList_sub (kvs : List (Bytes × Bytes)) (acc : Labels) (x : Bytes × Bytes)
    (hx : x ∈ kvs.foldl (fun l kv => l.set kv.1 kv.2) acc) : x ∈ acc ∨ x ∈ kvs := by
  induction kvs generalizing acc with
  | nil => exact Or.inl hx
  | cons y rest ih =>
    simp only [List.foldl_cons] at hx
    rcases ih _ hx with h | h
    · rcases mem_set_cases _ _ _ _ h with h | h
      · exact Or.inr (h ▸ List.mem_cons_self)
      · exact Or.inl h
    · exact Or.inr (List.mem_cons_of_mem _ h)

theorem metaLabels_upload (id : Bytes) (i : Nat) (user fname : Bytes) :
    (uploadKey, id) ∈ metaLabels id i user fname ∧
    ∀ x ∈ metaLabels id i user fname, x.1 = uploadKey → x = (uploadKey, id) := by
  have hne1 : Bytes.ofString "upload-part" ≠ uploadKey := by decide +kernel
  have hne2 : Bytes.ofString "upload-time" ≠ uploadKey := by decide +kernel
  have hne3 : Bytes.ofString "upload-file" ≠ uploadKey := by decide +kernel
  have hne4 : Bytes.ofString "by" ≠ uploadKey := by decide +kernel
  -- the three unconditional labels
  let base : Labels := Labels.ofList [(Bytes.ofString "upload", id),
    (Bytes.ofString "upload-part", id ++ [cSlash] ++ natToDec i),
    (Bytes.ofString "upload-time", uploadTimePlaceholder)]
  have hb1 : (uploadKey, id) ∈ base := by
    show (uploadKey, id) ∈ Labels.ofList _
    unfold Labels.ofList
    simp only [List.foldl_cons, List.foldl_nil]
    apply mem_set_of_mem _ _ _ _ _ (fun e => hne2 e.symm)
    apply mem_set_of_mem _ _ _ _ _ (fun e => hne1 e.symm)
    exact mem_set_self _ _ _
  have hb2 : ∀ x ∈ base, x.1 = uploadKey → x = (uploadKey, id) := by
    intro x hx hk
    rcases mem_ofList_sub _ [] x hx with h | h
    · cases h
    · simp only [List.mem_cons, List.not_mem_nil, or_false] at h
      rcases h with h | h | h
      · exact h
      · subst h; exact absurd hk hne1
      · subst h; exact absurd hk hne2
  -- the two conditional ones
  have step : ∀ (l : Labels) (k v : Bytes), k ≠ uploadKey →
      ((uploadKey, id) ∈ l ∧ ∀ x ∈ l, x.1 = uploadKey → x = (uploadKey, id)) →
      ((uploadKey, id) ∈ l.set k v ∧ ∀ x ∈ l.set k v, x.1 = uploadKey → x = (uploadKey, id)) := by
    intro l k v hk ⟨h1, h2⟩
    refine ⟨mem_set_of_mem _ _ _ _ h1 (fun e => hk e.symm), ?_⟩
    intro x hx hxk
    rcases mem_set_cases _ _ _ _ hx with h | h
    · subst h; exact absurd hxk hk
    · exact h2 x h hxk
  unfold metaLabels
  simp only
  split <;> split <;> first
    | exact ⟨hb1, hb2⟩
    | exact step _ _ _ hne4 ⟨hb1, hb2⟩
    | exact step _ _ _ hne3 ⟨hb1, hb2⟩
    | exact step _ _ _ hne4 (step _ _ _ hne3 ⟨hb1, hb2⟩)

/-- reader invariant: `upload` is a permanent label with value `id` -/
def RInv (id : Bytes) (r : Reader) : Prop :=
  (∃ p, r.perm = some p ∧ Labels.has p uploadKey = true) ∧ (uploadKey, id) ∈ r.labels

theorem addLabels_inv (id : Bytes) (l : Labels)
    (h : (uploadKey, id) ∈ l ∧ ∀ x ∈ l, x.1 = uploadKey → x = (uploadKey, id)) :
    RInv id (Reader.addLabels {} l) := by
  refine ⟨⟨l, rfl, has_of_mem l _ h.1⟩, ?_⟩
  exact foldl_set_mem id l [] (Or.inr h.1) h.2

theorem nextGo_inv (id : Bytes) (lines : List Bytes) (r : Reader)
    (res : Result) (r' : Reader) (rest : List Bytes)
    (h : Reader.nextGo true r lines = some (res, r', rest)) (hr : RInv id r) :
    RInv id r' ∧ (uploadKey, id) ∈ res.labels ∧ rest.length < lines.length := by
  induction lines generalizing r with
  | nil => simp [Reader.nextGo] at h
  | cons line ls ih =>
    obtain ⟨⟨p, hp, hhas⟩, hmem⟩ := hr
    unfold Reader.nextGo at h
    simp only at h
    split at h
    · rename_i key value _
      split at h
      · have := ih _ h ⟨⟨p, hp, hhas⟩, hmem⟩
        exact ⟨this.1, this.2.1, by simp only [List.length_cons]; omega⟩
      · rename_i hnot
        have hkey : key ≠ uploadKey := by
          intro e; subst e
          simp only [hp, Option.getD_some] at hnot
          exact hnot hhas
        split at h
        · have := ih _ h ⟨⟨p, hp, hhas⟩, mem_erase_of_mem _ _ _ hmem (fun e => hkey e.symm)⟩
          exact ⟨this.1, this.2.1, by simp only [List.length_cons]; omega⟩
        · have := ih _ h ⟨⟨p, hp, hhas⟩, mem_set_of_mem _ _ _ _ hmem (fun e => hkey e.symm)⟩
          exact ⟨this.1, this.2.1, by simp only [List.length_cons]; omega⟩
    · simp only [Bool.not_true, Bool.false_eq_true, if_false] at h
      split at h
      · rename_i fullName _
        simp only [Reader.newResult] at h
        split at h <;>
        · simp only [Option.some.injEq, Prod.mk.injEq] at h
          obtain ⟨rfl, rfl, rfl⟩ := h
          exact ⟨⟨⟨p, hp, hhas⟩, hmem⟩, hmem, by simp⟩
      · have := ih _ h ⟨⟨p, hp, hhas⟩, hmem⟩
        exact ⟨this.1, this.2.1, by simp only [List.length_cons]; omega⟩

theorem allGo_upload (id : Bytes) (fuel : Nat) (r : Reader) (hr : RInv id r) (lines : List Bytes) :
    ∀ res ∈ Reader.allGo fuel r lines, (uploadKey, id) ∈ res.labels := by
  induction fuel generalizing r lines with
  | zero => simp [Reader.allGo]
  | succ n ih =>
    unfold Reader.allGo
    cases hn : r.next lines with
    | none => simp
    | some t =>
      obtain ⟨res, r', rest⟩ := t
      have hsome : r.perm.isSome = true := by obtain ⟨⟨p, hp, _⟩, _⟩ := hr; simp [hp]
      unfold Reader.next at hn
      rw [hsome] at hn
      have := nextGo_inv id lines r res r' rest hn hr
      intro x hx
      rcases List.mem_cons.mp hx with rfl | hx
      · exact this.2.1
      · exact ih r' this.1 rest x hx


/-! ### the rows queued by one upload -/

/-- (UploadID, RecordID) of a record row; `appendToLast` does not change it -/
def pr (r : RecordRow) : Bytes × Nat := (r.upload, r.rid)

theorem appendToLast_pr (recs : List RecordRow) (e : Bytes) :
    (appendToLast recs e).map pr = recs.map pr := by
  unfold appendToLast
  split
  · rename_i h
    have : recs = [] := by simpa using h
    simp [this]
  · rename_i r before h
    have h2 : recs = (r :: before).reverse := by rw [← h, List.reverse_reverse]
    rw [h2]
    simp [pr]

theorem insertLabel_labels (u : Upload) (k v : Bytes) :
    (u.insertLabel k v).labels = u.labels ++ [⟨u.id, u.recordid, k, v⟩] := by
  unfold Upload.insertLabel Upload.flush
  split <;> simp

theorem foldl_insertLabel_labels (l : Labels) (u : Upload) :
    (l.foldl (fun u kv => u.insertLabel kv.1 kv.2) u).labels =
      u.labels ++ l.map fun kv => (⟨u.id, u.recordid, kv.1, kv.2⟩ : LabelRow) := by
  induction l generalizing u with
  | nil => simp
  | cons kv rest ih =>
    simp only [List.foldl_cons, List.map_cons]
    rw [ih, insertLabel_labels]
    have h := insertLabel_fields u kv.1 kv.2
    rw [h.2.1, h.2.2]
    simp

structure UInv (u : Upload) : Prop where
  recUp : ∀ k ∈ u.records.map pr, k.1 = u.id ∧ k.2 < u.recordid
  recNodup : (u.records.map pr).Nodup
  labUp : ∀ l ∈ u.labels, l.upload = u.id ∧ (l.upload, l.rid) ∈ u.records.map pr
  upLabel : ∀ k ∈ u.records.map pr, (⟨u.id, k.2, uploadKey, u.id⟩ : LabelRow) ∈ u.labels

theorem insertNew_spec (u : Upload) (r : Result) :
    (u.insertNew r).id = u.id ∧ (u.insertNew r).recordid = u.recordid + 1 ∧
    (u.insertNew r).records = u.records ++ [⟨u.id, u.recordid, (printResult [] r).1⟩] ∧
    (u.insertNew r).labels = u.labels ++
      (r.labels ++ r.nameL).map fun kv => (⟨u.id, u.recordid, kv.1, kv.2⟩ : LabelRow) := by
  unfold Upload.insertNew
  simp only
  have f1 := foldl_insertLabel_fields r.labels
    { u with lastResult := some r, records := u.records ++ [⟨u.id, u.recordid, (printResult [] r).1⟩] }
  have l1 := foldl_insertLabel_labels r.labels
    { u with lastResult := some r, records := u.records ++ [⟨u.id, u.recordid, (printResult [] r).1⟩] }
  have f2 := foldl_insertLabel_fields r.nameL (r.labels.foldl (fun u kv => u.insertLabel kv.1 kv.2)
    { u with lastResult := some r, records := u.records ++ [⟨u.id, u.recordid, (printResult [] r).1⟩] })
  have l2 := foldl_insertLabel_labels r.nameL (r.labels.foldl (fun u kv => u.insertLabel kv.1 kv.2)
    { u with lastResult := some r, records := u.records ++ [⟨u.id, u.recordid, (printResult [] r).1⟩] })
  refine ⟨f2.2.1.trans f1.2.1, by rw [f2.2.2, f1.2.2], f2.1.trans f1.1, ?_⟩
  rw [l2, l1, f1.2.1, f1.2.2]
  simp [List.append_assoc]

theorem insertRecord_id (u : Upload) (r : Result) : (u.insertRecord r).id = u.id := by
  unfold Upload.insertRecord
  split
  · split
    · rfl
    · exact (insertNew_spec u r).1
  · exact (insertNew_spec u r).1

theorem insertRecord_inv (u : Upload) (r : Result) (hu : UInv u)
    (hr : (uploadKey, u.id) ∈ r.labels) : UInv (u.insertRecord r) := by
  have hnew : UInv (u.insertNew r) := by
    obtain ⟨hid, hrid, hrec, hlab⟩ := insertNew_spec u r
    refine ⟨?_, ?_, ?_, ?_⟩
    · intro k hk
      rw [hrec, hid, hrid] at *
      simp only [List.map_append, List.map_cons, List.map_nil, List.mem_append, List.mem_singleton] at hk
      rcases hk with hk | hk
      · have := hu.recUp k hk; exact ⟨this.1, by omega⟩
      · subst hk; exact ⟨rfl, by simp [pr]⟩
    · rw [hrec]
      simp only [List.map_append, List.map_cons, List.map_nil]
      rw [List.nodup_append]
      refine ⟨hu.recNodup, by simp, ?_⟩
      intro a ha b hb
      simp only [List.mem_singleton] at hb
      subst hb
      intro e; subst e
      have := (hu.recUp _ ha).2
      simp [pr] at this
    · intro l hl
      rw [hlab] at hl
      rw [hid, hrec]
      simp only [List.map_append, List.map_cons, List.map_nil, List.mem_append, List.mem_singleton]
      rcases List.mem_append.mp hl with hl | hl
      · have := hu.labUp l hl; exact ⟨this.1, Or.inl this.2⟩
      · obtain ⟨kv, _, rfl⟩ := List.mem_map.mp hl
        exact ⟨rfl, Or.inr rfl⟩
    · intro k hk
      rw [hrec] at hk
      rw [hid, hlab]
      simp only [List.map_append, List.map_cons, List.map_nil, List.mem_append, List.mem_singleton] at hk
      rcases hk with hk | hk
      · exact List.mem_append_left _ (hu.upLabel k hk)
      · subst hk
        apply List.mem_append_right
        exact List.mem_map.mpr ⟨(uploadKey, u.id), List.mem_append_left _ hr, rfl⟩
  unfold Upload.insertRecord
  split
  · split
    · exact ⟨by simpa [appendToLast_pr] using hu.recUp, by simpa [appendToLast_pr] using hu.recNodup,
        by simpa [appendToLast_pr] using hu.labUp, by simpa [appendToLast_pr] using hu.upLabel⟩
    · exact hnew
  · exact hnew

theorem foldl_insertRecord_inv (rs : List Result) (u : Upload) (hu : UInv u)
    (hr : ∀ r ∈ rs, (uploadKey, u.id) ∈ r.labels) :
    UInv (rs.foldl Upload.insertRecord u) ∧ (rs.foldl Upload.insertRecord u).id = u.id := by
  induction rs generalizing u with
  | nil => exact ⟨hu, rfl⟩
  | cons r rest ih =>
    simp only [List.foldl_cons]
    have h1 := insertRecord_inv u r hu (hr r (by simp))
    have hid := insertRecord_id u r
    have := ih (u.insertRecord r) h1 (fun x hx => by rw [hid]; exact hr x (by simp [hx]))
    exact ⟨this.1, this.2.trans hid⟩

theorem indexFiles_inv (user : Bytes) (files : List FileIn) (i : Nat) (u u' : Upload) (hu : UInv u)
    (h : indexFiles u user i files = some u') : UInv u' ∧ u'.id = u.id := by
  induction files generalizing u i with
  | nil => simp [indexFiles] at h; subst h; exact ⟨hu, rfl⟩
  | cons f fs ih =>
    unfold indexFiles at h
    cases hf : indexFile u i user f with
    | none => simp [hf] at h
    | some u1 =>
      simp only [hf] at h
      unfold indexFile at hf
      simp only at hf
      split at hf
      · cases hf
      split at hf
      · cases hf
      · simp only [Option.some.injEq] at hf
        have hres : ∀ r ∈ (Reader.addLabels {} (metaLabels u.id i user f.name)).all f.content,
            (uploadKey, u.id) ∈ r.labels := by
          unfold Reader.all
          exact allGo_upload u.id _ _
            (addLabels_inv u.id _ (metaLabels_upload u.id i user f.name)) (scanLines f.content)
        have := foldl_insertRecord_inv _ u hu hres
        rw [hf] at this
        have h2 := ih (i + 1) u1 this.1 h
        exact ⟨h2.1, h2.2.trans this.2⟩


/-! ### processUpload keeps the integrity of the database -/

theorem pkClash_nodup (ls : List LabelRow) (h : pkClash ls = false) :
    (ls.map fun l => (l.rid, l.name)).Nodup := by
  induction ls with
  | nil => simp
  | cons l rest ih =>
    unfold pkClash at h
    simp only [Bool.or_eq_false_iff] at h
    simp only [List.map_cons, List.nodup_cons]
    refine ⟨?_, ih h.2⟩
    intro hm
    obtain ⟨m, hmr, hme⟩ := List.mem_map.mp hm
    have hany := h.1
    rw [List.any_eq_false] at hany
    have := hany m hmr
    simp only [Prod.mk.injEq] at hme
    simp [hme.1, hme.2] at this

/-- what every reachable state satisfies: `WF`, distinct upload ids, and every record belongs to a
registered upload -/
structure Inv (db : DB) : Prop where
  wf : WF db
  upNodup : (db.uploads.map (·.id)).Nodup
  recUp : ∀ r ∈ db.records, r.upload ∈ db.uploads.map (·.id)

theorem inv_empty : Inv {} :=
  ⟨⟨by simp, by simp, by simp, by simp⟩, by simp, by simp⟩

theorem inv_add_upload (db : DB) (h : Inv db) (row : UploadRow)
    (hfresh : row.id ∉ db.uploads.map (·.id)) :
    Inv { db with uploads := db.uploads ++ [row] } := by
  refine ⟨⟨h.wf.recNodup, h.wf.labelPK, h.wf.fk, h.wf.uploadLabel⟩, ?_, ?_⟩
  · simp only [List.map_append, List.map_cons, List.map_nil]
    rw [List.nodup_append]
    refine ⟨h.upNodup, by simp, ?_⟩
    intro a ha b hb
    simp only [List.mem_singleton] at hb
    subst hb
    intro e; subst e; exact hfresh ha
  · intro r hr
    simp only [List.map_append, List.mem_append]
    exact Or.inl (h.recUp r hr)

theorem inv_add_rows (db : DB) (h : Inv db) (u : Upload) (hu : UInv u)
    (hfresh : u.id ∉ (db.records.map (·.upload)))
    (hreg : u.id ∈ db.uploads.map (·.id))
    (hpk : pkClash u.labels = false) :
    Inv { db with records := db.records ++ u.records, labels := db.labels ++ u.labels } := by
  have hpr : ∀ l : List RecordRow, l.map RecordRow.rkey = l.map pr := fun _ => rfl
  have oldLabUp : ∀ l ∈ db.labels, l.upload ≠ u.id := by
    intro l hl e
    have := h.wf.fk l hl
    obtain ⟨r, hr, hk⟩ := List.mem_map.mp this
    simp only [RecordRow.rkey, LabelRow.rkey, Prod.mk.injEq] at hk
    exact hfresh (List.mem_map.mpr ⟨r, hr, hk.1.trans e⟩)
  refine ⟨⟨?_, ?_, ?_, ?_⟩, h.upNodup, ?_⟩
  · -- Records primary key
    simp only [List.map_append]
    rw [List.nodup_append]
    refine ⟨h.wf.recNodup, by rw [hpr]; exact hu.recNodup, ?_⟩
    intro a ha b hb e
    subst e
    obtain ⟨r, hr, rfl⟩ := List.mem_map.mp ha
    rw [hpr] at hb
    have := (hu.recUp _ hb).1
    exact hfresh (List.mem_map.mpr ⟨r, hr, this⟩)
  · -- RecordLabels primary key
    simp only [List.map_append]
    rw [List.nodup_append]
    refine ⟨h.wf.labelPK, ?_, ?_⟩
    · have h1 := pkClash_nodup u.labels hpk
      have : (u.labels.map fun l => (l.rid, l.name)) =
          (u.labels.map fun l => (l.upload, l.rid, l.name)).map (fun t => t.2) := by
        simp
      rw [this] at h1
      exact List.Nodup.of_map _ h1
    · intro a ha b hb e
      subst e
      obtain ⟨l, hl, rfl⟩ := List.mem_map.mp ha
      obtain ⟨m, hm, hme⟩ := List.mem_map.mp hb
      simp only [Prod.mk.injEq] at hme
      exact oldLabUp l hl (hme.1.symm.trans (hu.labUp m hm).1)
  · -- foreign key
    intro l hl
    simp only [List.map_append, List.mem_append]
    rcases List.mem_append.mp hl with hl | hl
    · exact Or.inl (h.wf.fk l hl)
    · right; rw [hpr]; exact (hu.labUp l hl).2
  · -- the upload label
    intro r hr
    rcases List.mem_append.mp hr with hr | hr
    · exact List.mem_append_left _ (h.wf.uploadLabel r hr)
    · apply List.mem_append_right
      have hk : pr r ∈ u.records.map pr := List.mem_map.mpr ⟨r, hr, rfl⟩
      have hid : r.upload = u.id := (hu.recUp _ hk).1
      have := hu.upLabel _ hk
      simpa [pr, hid] using this
  · intro r hr
    rcases List.mem_append.mp hr with hr | hr
    · exact h.recUp r hr
    · have hk : pr r ∈ u.records.map pr := List.mem_map.mpr ⟨r, hr, rfl⟩
      have hid : r.upload = u.id := (hu.recUp _ hk).1
      rw [hid]; exact hreg

theorem uinv_init (id : Bytes) : UInv { id := id } :=
  ⟨by simp, by simp, by simp, by simp⟩

/-- **processUpload preserves the invariant** -/
theorem processUpload_inv (db : DB) (h : Inv db) (day user : Bytes) (files : List FileIn) :
    Inv (processUpload db day user files).1 := by
  unfold processUpload
  simp only
  split
  · exact h
  · rename_i hany
    have hfresh : (day ++ [46] ++ natToDec (nextSeq db day)) ∉ db.uploads.map (·.id) := by
      intro hm
      obtain ⟨x, hx, he⟩ := List.mem_map.mp hm
      exact hany (List.any_eq_true.mpr ⟨x, hx, by simp [he]⟩)
    have h1 := inv_add_upload db h ⟨_, day, nextSeq db day⟩ hfresh
    split
    · exact h1
    · rename_i u hu
      split
      · exact h1
      · rename_i hpk
        have hui := indexFiles_inv user files 0 _ u (uinv_init _) hu
        have hid : u.id = day ++ [46] ++ natToDec (nextSeq db day) := hui.2
        refine inv_add_rows _ h1 u hui.1 ?_ ?_ (by simpa using hpk)
        · intro hm
          obtain ⟨r, hr, he⟩ := List.mem_map.mp hm
          exact hfresh (hid ▸ he ▸ h.recUp r hr)
        · simp [hid]

end C19
