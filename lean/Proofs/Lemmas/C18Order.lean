/-
C18 helper: Go's string order (`Series.bytesLe`) is a total order, and the strict order derived
from any total order `le` as `lt a b := !le b a` (that is `Env.lt`) is a strict total order —
the hypotheses `TotalOrder env.le` / `StrictOrder env.lt` of the series theorems are satisfied by
the environment the driver runs.
-/
import Proofs.Lemmas.C18Series

namespace C18
open Series

theorem u8_lt_iff (x y : UInt8) : x < y ↔ x.toNat < y.toNat := UInt8.lt_iff_toNat_lt
theorem u8_eq_iff (x y : UInt8) : x = y ↔ x.toNat = y.toNat := UInt8.toNat_inj.symm

theorem bytesLe_cons (x y : UInt8) (xs ys : Bytes) :
    bytesLe (x :: xs) (y :: ys) = true ↔ x.toNat < y.toNat ∨ (x.toNat = y.toNat ∧ bytesLe xs ys = true) := by
  simp [bytesLe, u8_lt_iff, u8_eq_iff]

theorem bytesLe_trans : ∀ (a b c : Bytes), bytesLe a b = true → bytesLe b c = true → bytesLe a c = true
  | [], _, _, _, _ => by simp [bytesLe]
  | _ :: _, [], _, h, _ => by simp [bytesLe] at h
  | _ :: _, _ :: _, [], _, h => by simp [bytesLe] at h
  | x :: xs, y :: ys, z :: zs, h1, h2 => by
    rw [bytesLe_cons] at h1 h2 ⊢
    rcases h1 with h1 | ⟨e1, h1⟩ <;> rcases h2 with h2 | ⟨e2, h2⟩
    · left; omega
    · left; omega
    · left; omega
    · right; exact ⟨by omega, bytesLe_trans xs ys zs h1 h2⟩

theorem bytesLe_total : ∀ (a b : Bytes), (bytesLe a b || bytesLe b a) = true
  | [], _ => by simp [bytesLe]
  | _ :: _, [] => by simp [bytesLe]
  | x :: xs, y :: ys => by
    have ih := bytesLe_total xs ys
    rw [Bool.or_eq_true] at ih ⊢
    rw [bytesLe_cons, bytesLe_cons]
    rcases Nat.lt_trichotomy x.toNat y.toNat with h | h | h
    · left; left; exact h
    · rcases ih with ih | ih
      · left; right; exact ⟨h, ih⟩
      · right; right; exact ⟨h.symm, ih⟩
    · right; left; exact h

theorem bytesLe_antisymm : ∀ (a b : Bytes), bytesLe a b = true → bytesLe b a = true → a = b
  | [], [], _, _ => rfl
  | [], _ :: _, _, h => by simp [bytesLe] at h
  | _ :: _, [], h, _ => by simp [bytesLe] at h
  | x :: xs, y :: ys, h1, h2 => by
    rw [bytesLe_cons] at h1 h2
    rcases h1 with h1 | ⟨e1, h1⟩ <;> rcases h2 with h2 | ⟨e2, h2⟩
    · omega
    · omega
    · omega
    · rw [(u8_eq_iff x y).mpr e1, bytesLe_antisymm xs ys h1 h2]

theorem bytesLe_totalOrder : TotalOrder bytesLe := ⟨bytesLe_trans, bytesLe_total, bytesLe_antisymm⟩

/-- `Env.lt` of a totally ordered `Env.le` is a strict total order -/
theorem strictOrder_of_total (env : Env) (ho : TotalOrder env.le) : StrictOrder env.lt := by
  have refl : ∀ a, env.le a a = true := fun a => by simpa using ho.total a a
  refine ⟨?_, ?_, ?_⟩
  · intro a; simp [Env.lt, refl]
  · intro a b c h1 h2
    simp only [Env.lt, Bool.not_eq_true'] at h1 h2 ⊢
    -- ¬ b ≤ a, ¬ c ≤ b ⊢ ¬ c ≤ a
    cases hca : env.le c a with
    | false => rfl
    | true =>
      have hab : env.le a b = true := by
        have := ho.total a b
        rw [h1] at this; simpa using this
      have := ho.trans c a b hca hab
      rw [h2] at this; exact absurd this (by simp)
  · intro a b h1 h2
    simp only [Env.lt, Bool.not_eq_false'] at h1 h2
    exact ho.antisymm a b h2 h1

end C18
