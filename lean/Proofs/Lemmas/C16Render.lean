/-
C16 — where ToText and ToCSV put the strings of the cells view.
-/
import Model.Tab.Render

namespace C16
open Tab.TextTab Tab.Render

/-! ### running builder calls -/

def runOps (t : Table) (ops : List Op) : Option Table := ops.foldlM Table.step t

theorem runOps_nil (t : Table) : runOps t [] = some t := rfl

theorem runOps_cons (t : Table) (op : Op) (ops : List Op) :
    runOps t (op :: ops) = (t.step op).bind (fun t' => runOps t' ops) := by
  simp [runOps, List.foldlM_cons, bind]

theorem runOps_append (t : Table) (a b : List Op) :
    runOps t (a ++ b) = (runOps t a).bind (fun t' => runOps t' b) := by
  induction a generalizing t with
  | nil => simp [runOps_nil]
  | cons op rest ih =>
    rw [List.cons_append, runOps_cons, runOps_cons]
    cases t.step op with
    | none => rfl
    | some t1 => simp only [Option.bind_some]; exact ih t1

/-- the cell `Span(1, v, opts…)` adds when the cursor is at (row, col) -/
def mkCell (row col : Nat) (v : Bytes) (opts : List Opt) : Cell :=
  opts.foldl Opt.apply
    { row := row, col := col, span := 1, value := v,
      margin := if (col == 0 || v.isEmpty) = true then [] else [0x20], align := .left }

def spansOps (l : List (Bytes × List Opt)) : List Op := l.map fun p => Op.span 1 p.1 p.2

/-- single-column cells placed left to right from `col` -/
def placed (row : Nat) : Nat → List (Bytes × List Opt) → List Cell
  | _, [] => []
  | col, p :: rest => mkCell row col p.1 p.2 :: placed row (col + 1) rest

theorem runOps_spans : ∀ (l : List (Bytes × List Opt)) (t : Table),
    ∃ t', runOps t (spansOps l) = some t' ∧ t'.cells = t.cells ++ placed t.curRow t.curCol l ∧
      t'.curRow = t.curRow ∧ t'.curCol = t.curCol + l.length := by
  intro l
  induction l with
  | nil => intro t; exact ⟨t, rfl, by simp [placed], rfl, rfl⟩
  | cons p rest ih =>
    intro t
    obtain ⟨t', h1, h2, h3, h4⟩ := ih (t.span 1 p.1 p.2)
    refine ⟨t', ?_, ?_, ?_, ?_⟩
    · simp only [spansOps, List.map_cons, runOps_cons, Table.step, Option.bind_some]
      exact h1
    · rw [h2]
      simp [Table.span, placed, mkCell]
    · rw [h3]; rfl
    · rw [h4]; simp only [Table.span, List.length_cons]; omega

/-- `Col(k)` (allowed because the cursor is not beyond k) followed by single-column cells -/
theorem runOps_col_spans (l : List (Bytes × List Opt)) (t : Table) (k : Nat) (hk : t.curCol ≤ k) :
    ∃ t', runOps t (Op.col k :: spansOps l) = some t' ∧ t'.cells = t.cells ++ placed t.curRow k l ∧
      t'.curRow = t.curRow ∧ t'.curCol = k + l.length := by
  have hc : t.col k = some { t with curCol := k } := by
    unfold Table.col
    have : ¬ k < t.curCol := by omega
    simp [this]
  obtain ⟨t', h1, h2, h3, h4⟩ := runOps_spans l { t with curCol := k }
  exact ⟨t', by rw [runOps_cons]; simp only [Table.step, hc, Option.bind_some]; exact h1, h2, h3, h4⟩

/-! ### ToText: a measurement row -/

theorem textStartCol_succ (exp : Nat) : textStartCol (exp + 1) = textStartCol exp + textGroupWidth exp := by
  unfold textStartCol textGroupWidth
  cases exp with
  | zero => simp
  | succ n => simp; omega

theorem textStartCol_mono {a b : Nat} (h : a ≤ b) : textStartCol a ≤ textStartCol b := by
  induction b with
  | zero => have : a = 0 := by omega
            subst this; exact Nat.le_refl _
  | succ n ih =>
    by_cases hb : a = n + 1
    · subst hb; exact Nat.le_refl _
    · have := ih (by omega)
      rw [textStartCol_succ]; omega

/-- the strings (with their options) ToText writes for one present cell, in order:
centre, range, footnotes, and for a compared cell delta, (p), footnotes -/
def cellStrings (wl : List Bytes) (exp : Nat) (c : DataCell) : List (Bytes × List Opt) :=
  let w1 := (c.warns.foldl warnStep (wl, []))
  let base : List (Bytes × List Opt) :=
    [(c.centerText, [.right]), (c.range, [.right, .margin pmMargin]), (joinSp w1.2, [])]
  match (if exp > 0 then c.delta else none) with
  | some d => base ++ [(d.delta, [.right]), ([0x28] ++ d.p ++ [0x29], []),
                       (joinSp (d.warns.foldl warnStep (w1.1, [])).2, [])]
  | none => base

theorem dataCellOps_eq (wl : List Bytes) (exp : Nat) (c : DataCell) :
    (dataCellOps wl exp c).2 = Op.col (textStartCol exp) :: spansOps (cellStrings wl exp c) := by
  unfold dataCellOps cellStrings warnCell spansOps
  simp only
  split <;> simp_all

theorem cellStrings_length (wl : List Bytes) (exp : Nat) (c : DataCell) :
    (cellStrings wl exp c).length ≤ textGroupWidth exp := by
  unfold cellStrings textGroupWidth
  simp only
  by_cases h : exp > 0
  · simp only [h, if_true]
    have h0 : (exp == 0) = false := by simp; omega
    cases c.delta <;> simp [h0]
  · have h0 : exp = 0 := by omega
    subst h0; simp

/-- the texttab cells of one measurement row from logical column `exp` on -/
def placedRow (r : Nat) : List Bytes → Nat → List (Option DataCell) → List Cell
  | _, _, [] => []
  | wl, exp, none :: rest => placedRow r wl (exp + 1) rest
  | wl, exp, some c :: rest =>
    placed r (textStartCol exp) (cellStrings wl exp c) ++ placedRow r (dataCellOps wl exp c).1 (exp + 1) rest

/-- ToText's calls for the cells of a row never move the cursor backwards (no panic) and put
the strings of logical column `exp` at physical columns `textStartCol exp + 0, 1, 2, …` -/
theorem dataCols_cells : ∀ (cells : List (Option DataCell)) (wl : List Bytes) (exp : Nat) (t : Table),
    t.curCol ≤ textStartCol exp →
    ∃ t', runOps t (dataColsOps wl exp cells).2 = some t' ∧
      t'.cells = t.cells ++ placedRow t.curRow wl exp cells ∧ t'.curRow = t.curRow := by
  intro cells
  induction cells with
  | nil => intro wl exp t _; exact ⟨t, rfl, by simp [placedRow], rfl⟩
  | cons oc rest ih =>
    intro wl exp t hcur
    cases oc with
    | none =>
      have := ih wl (exp + 1) t (Nat.le_trans hcur (textStartCol_mono (Nat.le_succ _)))
      simpa [dataColsOps, placedRow] using this
    | some c =>
      obtain ⟨t1, h1, h2, h3, h4⟩ := runOps_col_spans (cellStrings wl exp c) t (textStartCol exp) hcur
      have hcur1 : t1.curCol ≤ textStartCol (exp + 1) := by
        rw [h4, textStartCol_succ]
        have := cellStrings_length wl exp c
        omega
      obtain ⟨t2, g1, g2, g3⟩ := ih (dataCellOps wl exp c).1 (exp + 1) t1 hcur1
      refine ⟨t2, ?_, ?_, ?_⟩
      · simp only [dataColsOps]
        rw [runOps_append, dataCellOps_eq, h1]
        exact g1
      · rw [g2, h2, h3]; simp [placedRow]
      · rw [g3, h3]

theorem placedRow_mem (r : Nat) : ∀ (cells : List (Option DataCell)) (wl : List Bytes) (exp i : Nat) (c : DataCell),
    cells[i]? = some (some c) →
    ∃ wl', ∀ x ∈ placed r (textStartCol (exp + i)) (cellStrings wl' (exp + i) c), x ∈ placedRow r wl exp cells := by
  intro cells
  induction cells with
  | nil => intro wl exp i c h; simp at h
  | cons oc rest ih =>
    intro wl exp i c h
    cases i with
    | zero =>
      simp only [List.getElem?_cons_zero, Option.some.injEq] at h
      subst h
      exact ⟨wl, fun x hx => by simp only [placedRow, Nat.add_zero, List.mem_append] at hx ⊢; exact Or.inl hx⟩
    | succ i =>
      have h' : rest[i]? = some (some c) := by simpa using h
      cases oc with
      | none =>
        obtain ⟨wl', hw⟩ := ih wl (exp + 1) i c h'
        refine ⟨wl', fun x hx => ?_⟩
        rw [show exp + (i + 1) = exp + 1 + i by omega] at hx
        simpa [placedRow] using hw x hx
      | some c0 =>
        obtain ⟨wl', hw⟩ := ih (dataCellOps wl exp c0).1 (exp + 1) i c h'
        refine ⟨wl', fun x hx => ?_⟩
        rw [show exp + (i + 1) = exp + 1 + i by omega] at hx
        simp only [placedRow, List.mem_append]
        exact Or.inr (hw x hx)

theorem placed_center_range (r k : Nat) (wl : List Bytes) (e : Nat) (c : DataCell) :
    mkCell r k c.centerText [.right] ∈ placed r k (cellStrings wl e c) ∧
    mkCell r (k + 1) c.range [.right, .margin pmMargin] ∈ placed r k (cellStrings wl e c) := by
  unfold cellStrings
  simp only
  split <;> simp [placed]

theorem placed_delta (r k : Nat) (wl : List Bytes) (e : Nat) (c : DataCell) (d : Delta)
    (he : e > 0) (hd : c.delta = some d) :
    mkCell r (k + 3) d.delta [.right] ∈ placed r k (cellStrings wl e c) ∧
    mkCell r (k + 4) ([0x28] ++ d.p ++ [0x29]) [] ∈ placed r k (cellStrings wl e c) := by
  unfold cellStrings
  simp only [he, if_true, hd]
  simp [placed]

/-! ### ToCSV: a measurement row -/

theorem csvStartCol_succ (exp : Nat) : csvStartCol (exp + 1) = csvStartCol exp + csvGroupWidth exp := by
  unfold csvStartCol csvGroupWidth
  cases exp with
  | zero => simp
  | succ n => simp; omega

theorem csvStartCol_mono {a b : Nat} (h : a ≤ b) : csvStartCol a ≤ csvStartCol b := by
  induction b with
  | zero => have : a = 0 := by omega
            subst this; exact Nat.le_refl _
  | succ n ih =>
    by_cases hb : a = n + 1
    · subst hb; exact Nat.le_refl _
    · have := ih (by omega)
      rw [csvStartCol_succ]; omega

theorem clearTo_length (row : List Bytes) (col : Nat) (h : row.length ≤ col) : (clearTo row col).length = col := by
  simp [clearTo]; omega

theorem getD_append_left (a b : List Bytes) (j : Nat) (h : j < a.length) : (a ++ b).getD j [] = a.getD j [] := by
  simp [List.getD_eq_getElem?_getD, List.getElem?_append_left h]

theorem getD_append_right (a b : List Bytes) (j : Nat) : (a ++ b).getD (a.length + j) [] = b.getD j [] := by
  simp [List.getD_eq_getElem?_getD, List.getElem?_append_right]

/-- what a present cell contributes to the CSV record -/
def csvStrings (exp : Nat) (c : DataCell) : List Bytes :=
  [c.centerCsv, c.range] ++ match (if exp > 0 then c.delta else none) with
    | some d => [d.delta, d.p]
    | none => []

/-- ToCSV puts the strings of logical column `exp` of a row at fields `csvStartCol exp + 0, 1, …`
and never overwrites a field written earlier -/
theorem csvDataCols_fields (rowNo : Nat) : ∀ (cells : List (Option DataCell)) (row w : List Bytes) (exp : Nat),
    row.length ≤ csvStartCol exp →
    (∀ j, j < row.length → (csvDataCols rowNo row w exp cells).1.getD j [] = row.getD j []) ∧
    ∀ i c, cells[i]? = some (some c) → ∀ j, j < (csvStrings (exp + i) c).length →
      (csvDataCols rowNo row w exp cells).1.getD (csvStartCol (exp + i) + j) [] = (csvStrings (exp + i) c).getD j [] := by
  intro cells
  induction cells with
  | nil => intro row w exp _; exact ⟨fun _ _ => rfl, fun i c h => by simp at h⟩
  | cons oc rest ih =>
    intro row w exp hlen
    cases oc with
    | none =>
      have := ih row w (exp + 1) (Nat.le_trans hlen (csvStartCol_mono (Nat.le_succ _)))
      refine ⟨by simpa [csvDataCols] using this.1, ?_⟩
      intro i c hi j hj
      cases i with
      | zero => simp at hi
      | succ i =>
        have h2 := this.2 i c (by simpa using hi) j (by rw [show exp + 1 + i = exp + (i + 1) by omega]; exact hj)
        rw [show exp + 1 + i = exp + (i + 1) by omega] at h2
        simpa [csvDataCols] using h2
    | some c0 =>
      -- the record after this cell
      have hl1 := clearTo_length row (csvStartCol exp) hlen
      obtain ⟨row3, w3, hdef, hrow3⟩ : ∃ row3 w3,
          csvDataCols rowNo row w exp (some c0 :: rest) = csvDataCols rowNo row3 w3 (exp + 1) rest ∧
          row3 = clearTo row (csvStartCol exp) ++ csvStrings exp c0 := by
        unfold csvStrings
        simp only [csvDataCols]
        split
        · rename_i d hd
          exact ⟨_, _, rfl, by simp [hd]⟩
        · rename_i hd
          exact ⟨_, _, rfl, by simp [hd]⟩
      have hl3 : row3.length ≤ csvStartCol (exp + 1) := by
        rw [hrow3, List.length_append, hl1, csvStartCol_succ]
        unfold csvStrings csvGroupWidth
        by_cases h : exp > 0
        · have h0 : (exp == 0) = false := by simp; omega
          simp only [h, if_true, h0]
          cases c0.delta <;> simp
        · have h0 : exp = 0 := by omega
          subst h0; simp
      have hih := ih row3 w3 (exp + 1) hl3
      rw [hdef]
      have hpre : ∀ j, j < row.length → row3.getD j [] = row.getD j [] := by
        intro j hj
        rw [hrow3, getD_append_left _ _ _ (by rw [hl1]; omega)]
        unfold clearTo
        exact getD_append_left _ _ _ hj
      refine ⟨?_, ?_⟩
      · intro j hj
        rw [hih.1 j (by rw [hrow3, List.length_append, hl1]; omega), hpre j hj]
      · intro i c hi j hj
        cases i with
        | zero =>
          simp only [List.getElem?_cons_zero, Option.some.injEq] at hi
          subst hi
          simp only [Nat.add_zero] at hj ⊢
          rw [hih.1 _ (by rw [hrow3, List.length_append, hl1]; omega), hrow3]
          have := getD_append_right (clearTo row (csvStartCol exp)) (csvStrings exp c0) j
          rw [hl1] at this
          exact this
        | succ i =>
          have h2 := hih.2 i c (by simpa using hi) j (by rw [show exp + 1 + i = exp + (i + 1) by omega]; exact hj)
          rw [show exp + 1 + i = exp + (i + 1) by omega] at h2
          exact h2

end C16

namespace C16
open Tab.TextTab Tab.Render

/-! ### the summary (geomean) row -/

/-- the string ToText/ToCSV show as the summary delta of a non-baseline column -/
def ratioStr (s : SumCell) : Bytes := if s.hasRatio then s.ratio else [0x3F]
def ratioOpts (s : SumCell) : List Opt := if s.hasRatio then [.right] else []

/-- the texttab cells ToText adds for the summary of logical column `exp` -/
def sumPlaced (r : Nat) (wl : List Bytes) (exp : Nat) (s : SumCell) : List Cell :=
  (if s.hasSummary then [mkCell r (textStartCol exp) s.sumText [.right]] else []) ++
  (if exp > 0 then [mkCell r (textStartCol exp + 3) (ratioStr s) (ratioOpts s)] else []) ++
  [mkCell r (textStartCol (exp + 1) - 1) (joinSp (s.warns.foldl warnStep (wl, [])).2) []]

theorem run_opt_block (b : Bool) (k : Nat) (v : Bytes) (opts : List Opt) (t : Table) (hk : t.curCol ≤ k) :
    ∃ t', runOps t (if b then [Op.col k, Op.span 1 v opts] else []) = some t' ∧
      t'.cells = t.cells ++ (if b then [mkCell t.curRow k v opts] else []) ∧
      t'.curRow = t.curRow ∧ t'.curCol = (if b then k + 1 else t.curCol) := by
  cases b with
  | false => exact ⟨t, rfl, by simp, rfl, rfl⟩
  | true =>
    obtain ⟨t', h1, h2, h3, h4⟩ := runOps_col_spans [(v, opts)] t k hk
    exact ⟨t', by simpa [spansOps] using h1, by simpa [placed] using h2, h3, by simpa using h4⟩

theorem sumCellOps_eq (wl : List Bytes) (exp : Nat) (s : SumCell) :
    (sumCellOps wl exp s).2 =
      (if s.hasSummary then [Op.col (textStartCol exp), Op.span 1 s.sumText [.right]] else []) ++
      ((if decide (exp > 0) then [Op.col (textStartCol exp + 3), Op.span 1 (ratioStr s) (ratioOpts s)] else []) ++
       (if true then [Op.col (textStartCol (exp + 1) - 1),
          Op.span 1 (joinSp (s.warns.foldl warnStep (wl, [])).2) []] else [])) := by
  unfold sumCellOps warnCell ratioStr ratioOpts
  by_cases h : exp > 0 <;> cases s.hasRatio <;> simp [h]

theorem sumCell_cells (wl : List Bytes) (exp : Nat) (s : SumCell) (t : Table) (hk : t.curCol ≤ textStartCol exp) :
    ∃ t', runOps t (sumCellOps wl exp s).2 = some t' ∧ t'.cells = t.cells ++ sumPlaced t.curRow wl exp s ∧
      t'.curRow = t.curRow ∧ t'.curCol = textStartCol (exp + 1) := by
  obtain ⟨t1, a1, a2, a3, a4⟩ := run_opt_block s.hasSummary (textStartCol exp) s.sumText [.right] t hk
  have hc1 : t1.curCol ≤ textStartCol exp + 1 := by rw [a4]; split <;> omega
  obtain ⟨t2, b1, b2, b3, b4⟩ := run_opt_block (decide (exp > 0)) (textStartCol exp + 3) (ratioStr s) (ratioOpts s) t1 (by omega)
  have hgw := textStartCol_succ exp
  have hc2 : t2.curCol ≤ textStartCol (exp + 1) - 1 := by
    rw [b4, hgw]
    unfold textGroupWidth
    by_cases h : exp > 0
    · have h0 : (exp == 0) = false := by simp; omega
      simp [h, h0]
    · have h0 : exp = 0 := by omega
      subst h0; simp; omega
  obtain ⟨t3, c1, c2, c3, c4⟩ := run_opt_block true (textStartCol (exp + 1) - 1)
    (joinSp (s.warns.foldl warnStep (wl, [])).2) [] t2 hc2
  refine ⟨t3, ?_, ?_, ?_, ?_⟩
  · rw [sumCellOps_eq, runOps_append, a1, Option.bind_some, runOps_append, b1, Option.bind_some]
    exact c1
  · rw [c2, b2, a2, b3, a3]
    unfold sumPlaced
    by_cases h : exp > 0 <;> simp [h]
  · rw [c3, b3, a3]
  · rw [c4]
    simp only [if_true]
    have : 1 ≤ textStartCol (exp + 1) := by unfold textStartCol; split <;> omega
    omega

def sumPlacedRow (r : Nat) : List Bytes → Nat → List (Option SumCell) → List Cell
  | _, _, [] => []
  | wl, exp, none :: rest => sumPlacedRow r wl (exp + 1) rest
  | wl, exp, some s :: rest => sumPlaced r wl exp s ++ sumPlacedRow r (sumCellOps wl exp s).1 (exp + 1) rest

theorem sumCols_cells : ∀ (cells : List (Option SumCell)) (wl : List Bytes) (exp : Nat) (t : Table),
    t.curCol ≤ textStartCol exp →
    ∃ t', runOps t (sumColsOps wl exp cells).2 = some t' ∧
      t'.cells = t.cells ++ sumPlacedRow t.curRow wl exp cells ∧ t'.curRow = t.curRow := by
  intro cells
  induction cells with
  | nil => intro wl exp t _; exact ⟨t, rfl, by simp [sumPlacedRow], rfl⟩
  | cons oc rest ih =>
    intro wl exp t hcur
    cases oc with
    | none =>
      have := ih wl (exp + 1) t (Nat.le_trans hcur (textStartCol_mono (Nat.le_succ _)))
      simpa [sumColsOps, sumPlacedRow] using this
    | some s =>
      obtain ⟨t1, h1, h2, h3, h4⟩ := sumCell_cells wl exp s t hcur
      obtain ⟨t2, g1, g2, g3⟩ := ih (sumCellOps wl exp s).1 (exp + 1) t1 (by rw [h4]; exact Nat.le_refl _)
      refine ⟨t2, ?_, ?_, ?_⟩
      · simp only [sumColsOps]; rw [runOps_append, h1]; exact g1
      · rw [g2, h2, h3]; simp [sumPlacedRow]
      · rw [g3, h3]

theorem sumPlacedRow_mem (r : Nat) : ∀ (cells : List (Option SumCell)) (wl : List Bytes) (exp i : Nat) (s : SumCell),
    cells[i]? = some (some s) →
    ∃ wl', ∀ x ∈ sumPlaced r wl' (exp + i) s, x ∈ sumPlacedRow r wl exp cells := by
  intro cells
  induction cells with
  | nil => intro wl exp i s h; simp at h
  | cons oc rest ih =>
    intro wl exp i s h
    cases i with
    | zero =>
      simp only [List.getElem?_cons_zero, Option.some.injEq] at h
      subst h
      exact ⟨wl, fun x hx => by simp only [sumPlacedRow, Nat.add_zero, List.mem_append] at hx ⊢; exact Or.inl hx⟩
    | succ i =>
      have h' : rest[i]? = some (some s) := by simpa using h
      cases oc with
      | none =>
        obtain ⟨wl', hw⟩ := ih wl (exp + 1) i s h'
        refine ⟨wl', fun x hx => ?_⟩
        rw [show exp + (i + 1) = exp + 1 + i by omega] at hx
        simpa [sumPlacedRow] using hw x hx
      | some s0 =>
        obtain ⟨wl', hw⟩ := ih (sumCellOps wl exp s0).1 (exp + 1) i s h'
        refine ⟨wl', fun x hx => ?_⟩
        rw [show exp + (i + 1) = exp + 1 + i by omega] at hx
        simp only [sumPlacedRow, List.mem_append]
        exact Or.inr (hw x hx)

/-! #### ToCSV -/

/-- what ToCSV appends for the summary of logical column `exp` once the record has been padded to
the column's first field: the geomean (or a blank that keeps the position), and for a
non-baseline column a blank CI field and the delta / "?" under "vs base" -/
def sumTail (exp : Nat) (s : SumCell) : List Bytes :=
  if exp > 0 then [if s.hasSummary then s.sumCsv else [], [], ratioStr s]
  else if s.hasSummary then [s.sumCsv] else []

def csvSumCell (exp : Nat) (row : List Bytes) (s : SumCell) : List Bytes :=
  let row1 := clearTo row (csvStartCol exp)
  let row2 := if s.hasSummary then row1 ++ [s.sumCsv] else row1
  if exp > 0 then clearTo row2 (csvStartCol exp + 2) ++ [if s.hasRatio then s.ratio else [0x3F]] else row2

theorem csvSumCols_cons (rowNo : Nat) (row w : List Bytes) (exp : Nat) (s : SumCell) (rest : List (Option SumCell)) :
    (csvSumCols rowNo row w exp (some s :: rest)).1 =
      (csvSumCols rowNo (csvSumCell exp row s)
        (w ++ csvWarn (clearTo row (csvStartCol exp)).length rowNo s.warns) (exp + 1) rest).1 := by
  simp [csvSumCols, csvSumCell]

theorem csvSumCell_eq (exp : Nat) (row : List Bytes) (s : SumCell) (h : row.length ≤ csvStartCol exp) :
    csvSumCell exp row s = clearTo row (csvStartCol exp) ++ sumTail exp s := by
  have hl := clearTo_length row (csvStartCol exp) h
  unfold csvSumCell sumTail ratioStr
  by_cases he : exp > 0
  · simp only [he, if_true]
    cases hs : s.hasSummary
    · simp only [Bool.false_eq_true, if_false]
      simp only [clearTo] at hl ⊢
      rw [hl]
      simp [List.replicate_succ]
    · simp only [if_true]
      simp only [clearTo] at hl ⊢
      rw [List.length_append, hl]
      simp [List.replicate_succ]
  · simp only [he, if_false]
    cases s.hasSummary <;> simp

theorem getD_clearTo_gap (row : List Bytes) (col j : Nat) (h : row.length ≤ j) : (clearTo row col).getD j [] = [] := by
  unfold clearTo
  simp only [List.getD_eq_getElem?_getD, List.getElem?_append_right h, List.getElem?_replicate]
  split <;> simp

theorem sumTail_length (exp : Nat) (s : SumCell) : (sumTail exp s).length ≤ csvGroupWidth exp := by
  unfold sumTail csvGroupWidth
  by_cases he : exp > 0
  · have h0 : (exp == 0) = false := by simp; omega
    simp [he, h0]
  · have h0 : exp = 0 := by omega
    subst h0
    cases s.hasSummary <;> simp

/-- ToCSV's summary record: earlier fields are never overwritten, skipped positions are blank,
and the summary of logical column `exp + i` sits at `csvStartCol (exp + i) + j` as `sumTail` says
(`[]` where `sumTail` has no entry) -/
theorem csvSumCols_fields (rowNo : Nat) : ∀ (cells : List (Option SumCell)) (row w : List Bytes) (exp : Nat),
    row.length ≤ csvStartCol exp →
    (∀ j, j < row.length → (csvSumCols rowNo row w exp cells).1.getD j [] = row.getD j []) ∧
    (∀ j, row.length ≤ j → j < csvStartCol exp → (csvSumCols rowNo row w exp cells).1.getD j [] = []) ∧
    ∀ i s, cells[i]? = some (some s) → ∀ j, j < csvGroupWidth (exp + i) →
      (csvSumCols rowNo row w exp cells).1.getD (csvStartCol (exp + i) + j) [] = (sumTail (exp + i) s).getD j [] := by
  intro cells
  induction cells with
  | nil =>
    intro row w exp _
    refine ⟨fun _ _ => rfl, ?_, fun i s h => by simp at h⟩
    intro j hj _
    simp only [csvSumCols, List.getD_eq_getElem?_getD, List.getElem?_eq_none hj, Option.getD_none]
  | cons oc rest ih =>
    intro row w exp hlen
    cases oc with
    | none =>
      have hle : csvStartCol exp ≤ csvStartCol (exp + 1) := csvStartCol_mono (Nat.le_succ exp)
      have := ih row w (exp + 1) (Nat.le_trans hlen hle)
      refine ⟨by simpa [csvSumCols] using this.1, ?_, ?_⟩
      · intro j h1 h2
        have := this.2.1 j h1 (by omega)
        simpa [csvSumCols] using this
      · intro i s hi j hj
        cases i with
        | zero => simp at hi
        | succ i =>
          have h2 := this.2.2 i s (by simpa using hi) j (by rw [show exp + 1 + i = exp + (i + 1) by omega]; exact hj)
          rw [show exp + 1 + i = exp + (i + 1) by omega] at h2
          simpa [csvSumCols] using h2
    | some s0 =>
      have hl1 := clearTo_length row (csvStartCol exp) hlen
      have heq := csvSumCell_eq exp row s0 hlen
      have hl3 : (csvSumCell exp row s0).length ≤ csvStartCol (exp + 1) := by
        rw [heq, List.length_append, hl1, csvStartCol_succ]
        have := sumTail_length exp s0
        omega
      have hl3' : (csvSumCell exp row s0).length = csvStartCol exp + (sumTail exp s0).length := by
        rw [heq, List.length_append, hl1]
      have hih := ih (csvSumCell exp row s0)
        (w ++ csvWarn (clearTo row (csvStartCol exp)).length rowNo s0.warns) (exp + 1) hl3
      rw [csvSumCols_cons]
      refine ⟨?_, ?_, ?_⟩
      · intro j hj
        rw [hih.1 j (by omega), heq, getD_append_left _ _ _ (by omega)]
        unfold clearTo
        exact getD_append_left _ _ _ hj
      · intro j h1 h2
        rw [hih.1 j (by omega), heq, getD_append_left _ _ _ (by omega)]
        exact getD_clearTo_gap row _ j h1
      · intro i s hi j hj
        cases i with
        | zero =>
          simp only [List.getElem?_cons_zero, Option.some.injEq] at hi
          subst hi
          simp only [Nat.add_zero] at hj ⊢
          by_cases hjt : j < (sumTail exp s0).length
          · rw [hih.1 _ (by omega), heq]
            have := getD_append_right (clearTo row (csvStartCol exp)) (sumTail exp s0) j
            rw [hl1] at this
            exact this
          · rw [hih.2.1 _ (by omega) (by rw [csvStartCol_succ]; omega)]
            simp only [List.getD_eq_getElem?_getD, List.getElem?_eq_none (Nat.le_of_not_lt hjt), Option.getD_none]
        | succ i =>
          have h2 := hih.2.2 i s (by simpa using hi) j (by rw [show exp + 1 + i = exp + (i + 1) by omega]; exact hj)
          rw [show exp + 1 + i = exp + (i + 1) by omega] at h2
          exact h2

end C16
