/-
C03 helper lemmas: byte facts, digit strings, the two integer fast paths.
-/
import Model.Num.Atof

namespace C03
open Num Spec.NumText

/-- a decidable predicate holds for every byte if it holds for the 256 values (kernel-checked) -/
theorem byte_forall {P : UInt8 → Prop} (h : ∀ n : Fin 256, P (UInt8.ofNat n.val)) (c : UInt8) : P c := by
  have := h ⟨c.toNat, c.toNat_lt⟩
  simpa using this

/-- `ch - '0' >= 10` (byte arithmetic) is exactly "not a decimal digit"; and for a digit the
difference is its value -/
theorem byte_digit (ch : UInt8) :
    (decide (ch - 48 ≥ 10) = !isDec ch) ∧ (isDec ch = true → (ch - 48).toNat = digVal ch) ∧
    (decide (ch - 48 > 9) = !isDec ch) ∧ (isDec ch = true → digVal ch ≤ 9) := by
  revert ch; apply byte_forall; decide +kernel

/-- value of a digit string continuing from accumulator `n` -/
def valFrom (n : Nat) (x : Bytes) : Nat := x.foldl (fun a c => a * 10 + digVal c) n

theorem valOf_eq (x : Bytes) : valOf 10 x = valFrom 0 x := rfl

theorem valFrom_cons (n : Nat) (c : UInt8) (x : Bytes) : valFrom n (c :: x) = valFrom (n * 10 + digVal c) x := rfl

theorem valFrom_mono (x : Bytes) : ∀ n m, n ≤ m → valFrom n x ≤ valFrom m x := by
  induction x with
  | nil => intro n m h; exact h
  | cons c x ih => intro n m h; rw [valFrom_cons, valFrom_cons]; apply ih; omega

theorem valFrom_ge (x : Bytes) : ∀ n, n ≤ valFrom n x := by
  induction x with
  | nil => intro n; exact Nat.le_refl _
  | cons c x ih => intro n; rw [valFrom_cons]; exact Nat.le_trans (by omega) (ih _)

theorem valFrom_lt_pow (x : Bytes) (hx : x.all isDec = true) :
    ∀ n k, n < 10 ^ k → valFrom n x < 10 ^ (k + x.length) := by
  induction x with
  | nil => intro n k h; simpa [valFrom] using h
  | cons c x ih =>
    intro n k h
    rw [List.all_cons, Bool.and_eq_true] at hx
    have hd := (byte_digit c).2.2.2 hx.1
    rw [valFrom_cons]
    have : n * 10 + digVal c < 10 ^ (k + 1) := by rw [Nat.pow_succ]; omega
    have := ih hx.2 _ _ this
    simpa [List.length_cons, Nat.add_assoc, Nat.add_comm 1] using this

theorem wrap64_id (i : Int) (h1 : -(2 ^ 63 : Int) ≤ i) (h2 : i < 2 ^ 63) : wrap64 i = i := by
  unfold wrap64
  rw [Int.emod_eq_of_lt (by omega) (by omega)]; omega

/-! ### reader.go atof -/

/-- The digit loop, characterised: it succeeds only on digit strings, the `int64` accumulator
never wraps, and the result is the exact value of the digits. -/
theorem atofLoop_spec (x : Bytes) : ∀ (n : Nat) (r : Int), (n : Int) ≤ maxInt64 →
    atofLoop x n = some r →
    x.all isDec = true ∧ r = (valFrom n x : Nat) ∧ r ≤ maxInt64 := by
  induction x with
  | nil =>
    intro n r hn h
    simp only [atofLoop, Option.some.injEq] at h
    subst h; simp [valFrom, hn]
  | cons c x ih =>
    intro n r hn h
    have hb := byte_digit c
    unfold atofLoop at h
    simp only [] at h
    split at h
    · cases h
    · rename_i hd
      split at h
      · cases h
      · rename_i hg
        have hdec : isDec c = true := by
          have := hb.1; simp [hd] at this; exact this
        have hv := hb.2.1 hdec
        have h9 := hb.2.2.2 hdec
        have hbound : (n : Int) * 10 + ((c - 48).toNat : Int) ≤ maxInt64 := by
          unfold atofGuard maxInt64 at hg; unfold maxInt64; omega
        rw [wrap64_id _ (by unfold maxInt64 at hbound; omega) (by unfold maxInt64 at hbound; omega)] at h
        have := ih (n * 10 + (c - 48).toNat) r (by push_cast; exact hbound) (by push_cast; exact h)
        refine ⟨by simp [hdec, this.1], ?_, this.2.2⟩
        rw [valFrom_cons, ← hv]; exact this.2.1

end C03
