/-
C16 — one step of the width loop makes its cell fit and never narrows a column; hence after the
whole pass every cell fits, whatever the order of the cells and of the columns.
-/
import Proofs.Lemmas.C16Width
import Mathlib.Tactic.Set

namespace C16
open Tab.TextTab

/-- what the cell needs: the column's margin plus the value -/
def need (lm : List Nat) (c : Cell) : Int := (runeCount c.value : Int) + (lm.getD c.col 0 : Nat)

/-- the cell fits under the widths `ws` -/
def Fits (lm : List Nat) (ws : List Int) (c : Cell) : Prop :=
  need lm c ≤ sumRange ws c.col c.span

instance (lm : List Nat) (ws : List Int) (c : Cell) : Decidable (Fits lm ws c) := by
  unfold Fits; infer_instance

variable (shrink : Nat → Bool) (sortCols : List Int → List Nat → List Nat)

theorem cellStep_length (grow : Bool) (lm : List Nat) (ws : List Int) (c : Cell) :
    (cellStep grow shrink sortCols lm ws c).length = ws.length := by
  unfold cellStep
  simp only
  split
  · simp
  · split
    · rfl
    · exact distribute_length _ _ _

theorem cellStep_ge (grow : Bool) (lm : List Nat) (ws : List Int) (c : Cell) (i : Nat) :
    ws.getD i 0 ≤ (cellStep grow shrink sortCols lm ws c).getD i 0 := by
  unfold cellStep
  simp only
  split
  · rw [getD_set]
    split
    · rename_i h; rw [← h.1]; exact Int.le_max_left _ _
    · exact Int.le_refl _
  · split
    · exact Int.le_refl _
    · exact distribute_ge _ _ _ _

/-- the step establishes the fit of its own cell (repaired code: `grow = true`) -/
theorem cellStep_fits (hperm : ∀ ws l, (sortCols ws l).Perm l)
    (lm : List Nat) (ws : List Int) (c : Cell)
    (hspan : 1 ≤ c.span) (hlen : c.col + c.span ≤ ws.length) :
    Fits lm (cellStep true shrink sortCols lm ws c) c := by
  unfold Fits need cellStep
  simp only
  by_cases h1 : c.span = 1
  · simp only [h1, beq_self_eq_true, if_true, sumRange]
    rw [getD_set]
    have : c.col < ws.length := by omega
    simp only [this, and_self, if_true]
    have := Int.le_max_right (ws.getD c.col 0) ((runeCount c.value : Int) + (lm.getD c.col 0 : Nat))
    omega
  · have h1' : (c.span == 1) = false := by simpa using h1
    simp only [h1', Bool.false_eq_true, if_false]
    split
    · assumption
    · -- the cell does not fit yet
      generalize hw : ((runeCount c.value : Int) + (lm.getD c.col 0 : Nat)) = w
      by_cases he : (splitShrink shrink ws c.col c.span w).2.isEmpty = true
      · -- every column is a shrink column: they are all taken after all
        simp only [he, Bool.and_self, if_true]
        have hnil : (splitShrink shrink ws c.col c.span w).2 = [] := by simpa using he
        have hs := split_sum shrink ws ws c.span c.col w (fun _ _ _ _ => rfl)
        rw [hnil] at hs
        simp only [List.map_nil, List.sum_nil] at hs
        rw [addBack_fst]
        set l := (addBack ws c.col c.span (splitShrink shrink ws c.col c.span w).1).2 with hl
        have hp := hperm ws l
        have hnd : (sortCols ws l).Nodup := hp.nodup_iff.mpr (addBack_nodup _ _ _ _)
        have hne : sortCols ws l ≠ [] := by
          intro h0
          rw [h0] at hp
          exact addBack_ne_nil ws c.span c.col _ hspan hp.symm.eq_nil
        have hlt : ∀ x ∈ sortCols ws l, x < ws.length := by
          intro x hx
          have := addBack_mem ws _ _ _ _ (hp.mem_iff.mp hx)
          omega
        have ht := distribute_total (sortCols ws l) ws
          ((splitShrink shrink ws c.col c.span w).1 + sumRange ws c.col c.span) hne hnd hlt
        rw [perm_sum_map _ hp] at ht
        rw [addBack_sum ws _ c.span c.col (splitShrink shrink ws c.col c.span w).1, ← hl]
        omega
      · have he' : (splitShrink shrink ws c.col c.span w).2.isEmpty = false := by simpa using he
        simp only [he', Bool.false_and, Bool.false_eq_true, if_false]
        set l := (splitShrink shrink ws c.col c.span w).2 with hl
        have hp := hperm ws l
        have hnd : (sortCols ws l).Nodup := hp.nodup_iff.mpr (split_nodup _ _ _ _ _)
        have hne : sortCols ws l ≠ [] := by
          intro h0
          rw [h0] at hp
          have := hp.symm.eq_nil
          rw [this] at he'
          simp at he'
        have hlt : ∀ x ∈ sortCols ws l, x < ws.length := by
          intro x hx
          have := split_mem shrink ws _ _ _ _ (hp.mem_iff.mp hx)
          omega
        have ht := distribute_total (sortCols ws l) ws (splitShrink shrink ws c.col c.span w).1 hne hnd hlt
        rw [perm_sum_map _ hp] at ht
        have hs := split_sum shrink ws
          (distribute ws (splitShrink shrink ws c.col c.span w).1 (sortCols ws l)) c.span c.col w
          (fun i _ _ h3 => distribute_unchanged _ _ _ _ (fun hm => h3 (hp.mem_iff.mp hm)))
        rw [← hl] at hs
        omega

theorem fits_mono (lm : List Nat) (ws ws' : List Int) (c : Cell)
    (h : ∀ i, ws.getD i 0 ≤ ws'.getD i 0) (hf : Fits lm ws c) : Fits lm ws' c := by
  unfold Fits at *
  exact Int.le_trans hf (sumRange_mono ws ws' h _ _)

theorem foldl_cellStep_length (grow : Bool) (lm : List Nat) (cells : List Cell) :
    ∀ ws, (cells.foldl (cellStep grow shrink sortCols lm) ws).length = ws.length := by
  induction cells with
  | nil => intro ws; rfl
  | cons c rest ih => intro ws; simp only [List.foldl_cons]; rw [ih, cellStep_length]

theorem foldl_cellStep_ge (grow : Bool) (lm : List Nat) (cells : List Cell) :
    ∀ ws i, ws.getD i 0 ≤ (cells.foldl (cellStep grow shrink sortCols lm) ws).getD i 0 := by
  induction cells with
  | nil => intro ws i; exact Int.le_refl _
  | cons c rest ih =>
    intro ws i
    simp only [List.foldl_cons]
    exact Int.le_trans (cellStep_ge shrink sortCols grow lm ws c i) (ih _ i)

theorem foldl_cellStep_fits (hperm : ∀ ws l, (sortCols ws l).Perm l) (lm : List Nat)
    (cells : List Cell) : ∀ (ws : List Int) (c : Cell), c ∈ cells → 1 ≤ c.span →
      c.col + c.span ≤ ws.length →
      Fits lm (cells.foldl (cellStep true shrink sortCols lm) ws) c := by
  induction cells with
  | nil => intro ws c h; simp at h
  | cons d rest ih =>
    intro ws c hc hspan hlen
    simp only [List.foldl_cons]
    rcases List.mem_cons.mp hc with h | h
    · subst h
      exact fits_mono lm _ _ c (foldl_cellStep_ge shrink sortCols true lm rest _)
        (cellStep_fits shrink sortCols hperm lm ws c hspan hlen)
    · exact ih _ c h hspan (by rw [cellStep_length]; exact hlen)

/-! ### margins -/

theorem foldl_marginStep_length (cells : List Cell) :
    ∀ lm, (cells.foldl marginStep lm).length = lm.length := by
  induction cells with
  | nil => intro lm; rfl
  | cons c rest ih => intro lm; simp only [List.foldl_cons]; rw [ih]; simp [marginStep]

theorem foldl_marginStep_ge (cells : List Cell) :
    ∀ lm i, lm.getD i 0 ≤ (cells.foldl marginStep lm).getD i 0 := by
  induction cells with
  | nil => intro lm i; exact Nat.le_refl _
  | cons c rest ih =>
    intro lm i
    simp only [List.foldl_cons]
    refine Nat.le_trans ?_ (ih _ i)
    unfold marginStep
    rw [getD_set_nat]
    split
    · rename_i h; rw [← h.1]; exact Nat.le_max_right _ _
    · exact Nat.le_refl _

/-- the column's margin is at least as wide as the margin of every cell of the column -/
theorem lmargins_ge (cells : List Cell) : ∀ (lm : List Nat) (c : Cell), c ∈ cells → c.col < lm.length →
    runeCount c.margin ≤ (cells.foldl marginStep lm).getD c.col 0 := by
  induction cells with
  | nil => intro lm c h; simp at h
  | cons d rest ih =>
    intro lm c hc hlen
    simp only [List.foldl_cons]
    rcases List.mem_cons.mp hc with h | h
    · subst h
      refine Nat.le_trans ?_ (foldl_marginStep_ge rest _ _)
      unfold marginStep
      rw [getD_set_nat]
      simp only [hlen, and_self, if_true]
      exact Nat.le_max_left _ _
    · exact ih _ c h (by simp [marginStep]; exact hlen)

end C16
