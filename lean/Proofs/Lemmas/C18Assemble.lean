/-
C18 helper: assembling a table from its contributions; ordering of the tables; the date check;
the final glue.
-/
import Proofs.Lemmas.C18HP

namespace C18
open Series

/-- `tableOut` as a function of the raw benchmark list and the contribution list -/
def assemble (env : Env) (pol : Policy) (unit : Bytes) (benchesRaw : List Bytes) (cs : List Contrib) : TableOut :=
  let acc := cs.foldl (step env pol) {}
  let benches := sortSet env benchesRaw
  let series := sortSet env (cs.map (·.ser))
  { unit := unit, benches := benches, series := series,
    hp := series.map (fun s => (s, alookup s acc.hp)),
    points := benches.flatMap fun bn => series.filterMap fun s =>
      (alookup (bn, s) acc.cells).map fun cc =>
        { bench := bn, ser := s, date := cc.date, num := sortBits cc.num, den := cc.den.map sortBits } }

theorem tableOut_eq_assemble (env : Env) (pol : Policy) (it : Iter) (b : Builder) (t : TKey) :
    tableOut env pol it b t =
      assemble env pol (uString t) ((it.trials (trialsOf b t)).map (·.2.1)) (contribs env it b t) := rfl

theorem assemble_congr (env : Env) (ho : TotalOrder env.le) (pol : Policy) (unit : Bytes) {br1 br2 : List Bytes}
    {cs1 cs2 : List Contrib} (hb : sortSet env br1 = sortSet env br2)
    (hp : (cs1.map canonC).Perm (cs2.map canonC)) (hd : CDet pol cs1) :
    assemble env pol unit br1 cs1 = assemble env pol unit br2 cs2 := by
  have hso := strictOrder_of_total env ho
  have hs : sortSet env (cs1.map (·.ser)) = sortSet env (cs2.map (·.ser)) := by
    apply sortSet_ext env ho
    intro a
    have h := (hp.map (·.ser)).mem_iff (a := a)
    rw [List.map_map, List.map_map] at h
    exact h
  have hcells : ∀ bn s,
      ((alookup (bn, s) (cs1.foldl (step env pol) {}).cells).map fun cc =>
        ({ bench := bn, ser := s, date := cc.date, num := sortBits cc.num, den := cc.den.map sortBits } : Point)) =
      ((alookup (bn, s) (cs2.foldl (step env pol) {}).cells).map fun cc =>
        ({ bench := bn, ser := s, date := cc.date, num := sortBits cc.num, den := cc.den.map sortBits } : Point)) := by
    intro bn s
    have h := cell_congr env hso pol hp hd (bn, s)
    have h' := congrArg (Option.map fun cc : Cmp =>
      ({ bench := bn, ser := s, date := cc.date, num := cc.num, den := cc.den } : Point)) h
    rw [Option.map_map, Option.map_map] at h'
    exact h'
  have hhp : ∀ s, alookup s (cs1.foldl (step env pol) {}).hp = alookup s (cs2.foldl (step env pol) {}).hp :=
    fun s => hp_congr env pol hp hd s
  unfold assemble
  simp only [hb, hs]
  have f1 : (fun s => (s, alookup s (cs1.foldl (step env pol) {}).hp)) =
      (fun s => (s, alookup s (cs2.foldl (step env pol) {}).hp)) := by funext s; rw [hhp s]
  have f2 : (fun bn => (sortSet env (cs2.map (·.ser))).filterMap fun s =>
      (alookup (bn, s) (cs1.foldl (step env pol) {}).cells).map fun cc =>
        ({ bench := bn, ser := s, date := cc.date, num := sortBits cc.num, den := cc.den.map sortBits } : Point)) =
      (fun bn => (sortSet env (cs2.map (·.ser))).filterMap fun s =>
      (alookup (bn, s) (cs2.foldl (step env pol) {}).cells).map fun cc =>
        ({ bench := bn, ser := s, date := cc.date, num := sortBits cc.num, den := cc.den.map sortBits } : Point)) := by
    funext bn; congr 1; funext s; exact hcells bn s
  rw [f1, f2]

/-- one table: independent of insertion and iteration orders -/
theorem tableOut_congr (env : Env) (ho : TotalOrder env.le) (o : Opts) (pol : Policy) {evs1 evs2 : List Ev}
    (hp : evs1.Perm evs2) (hw : WFp env o pol evs1) (it1 it2 : Iter) (hv1 : it1.Valid) (hv2 : it2.Valid) (t : TKey) :
    tableOut env pol it1 (build o evs1) t = tableOut env pol it2 (build o evs2) t := by
  rw [tableOut_eq_assemble, tableOut_eq_assemble]
  apply assemble_congr env ho pol
  · apply sortSet_ext env ho
    intro a
    have key : ∀ (evs : List Ev) (it : Iter), it.Valid →
        (a ∈ (it.trials (trialsOf (build o evs) t)).map (·.2.1) ↔ ∃ e ∈ evs, e.tkey = t ∧ e.bench = a) := by
      intro evs it hv
      simp only [List.mem_map]
      constructor
      · rintro ⟨k, hk, rfl⟩
        obtain ⟨hk1, hk2⟩ := List.mem_filter.mp ((hv.trials _).mem_iff.mp hk)
        obtain ⟨e, he, rfl⟩ := (trials_mem o evs k).mp hk1
        simp only [decide_eq_true_eq] at hk2
        exact ⟨e, he, hk2, rfl⟩
      · rintro ⟨e, he, ht, rfl⟩
        refine ⟨e.trial, ?_, rfl⟩
        apply (hv.trials _).mem_iff.mpr
        exact List.mem_filter.mpr ⟨(trials_mem o evs e.trial).mpr ⟨e, he, rfl⟩, by simp only [decide_eq_true_eq]; exact ht⟩
    rw [key evs1 it1 hv1, key evs2 it2 hv2]
    constructor
    · rintro ⟨e, he, h⟩; exact ⟨e, hp.mem_iff.mp he, h⟩
    · rintro ⟨e, he, h⟩; exact ⟨e, hp.mem_iff.mpr he, h⟩
  · exact contribs_canon_perm env o pol hp hw it1 it2 hv1 hv2 t
  · exact cdet_of_wf env o pol evs1 hw it1 hv1 t

/-! ### the order of the tables -/

/-- `!tableLess env b a`, spelt out -/
theorem tableLe_iff (env : Env) (ho : TotalOrder env.le) (a b : TKey) :
    (!tableLess env b a) = true ↔
      env.le a.1 b.1 = true ∧ (a.1 = b.1 → env.le (joinVals a.2) (joinVals b.2) = true) := by
  have refl : ∀ x, env.le x x = true := fun x => by simpa using ho.total x x
  unfold tableLess Env.lt
  by_cases h1 : b.1 = a.1
  · have h1' : a.1 = b.1 := h1.symm
    by_cases h2 : b.2 = a.2
    · simp [h1, h2, refl]
    · simp [h1, h2, refl]
  · have h1' : ¬ a.1 = b.1 := fun e => h1 e.symm
    simp [h1, h1']

theorem tableLe_trans (env : Env) (ho : TotalOrder env.le) (a b c : TKey)
    (h1 : (!tableLess env b a) = true) (h2 : (!tableLess env c b) = true) : (!tableLess env c a) = true := by
  rw [tableLe_iff env ho] at h1 h2 ⊢
  refine ⟨ho.trans _ _ _ h1.1 h2.1, ?_⟩
  intro e
  have hab : a.1 = b.1 := ho.antisymm _ _ h1.1 (by rw [e]; exact h2.1)
  have hbc : b.1 = c.1 := hab.symm.trans e
  exact ho.trans _ _ _ (h1.2 hab) (h2.2 hbc)

theorem tableLe_total (env : Env) (ho : TotalOrder env.le) (a b : TKey) :
    ((!tableLess env b a) || (!tableLess env a b)) = true := by
  rw [Bool.or_eq_true, tableLe_iff env ho, tableLe_iff env ho]
  by_cases e : a.1 = b.1
  · have refl : ∀ x, env.le x x = true := fun x => by simpa using ho.total x x
    have := ho.total (joinVals a.2) (joinVals b.2)
    rw [Bool.or_eq_true] at this
    rcases this with h | h
    · left; exact ⟨by rw [e]; exact refl _, fun _ => h⟩
    · right; exact ⟨by rw [e]; exact refl _, fun _ => h⟩
  · have := ho.total a.1 b.1
    rw [Bool.or_eq_true] at this
    rcases this with h | h
    · left; exact ⟨h, fun e' => absurd e' e⟩
    · right; exact ⟨h, fun e' => absurd e'.symm e⟩

theorem uString_eq_of (a b : TKey) (h1 : a.1 = b.1) (h2 : joinVals a.2 = joinVals b.2) : uString a = uString b := by
  unfold uString; rw [h1, h2]

theorem mem_tableKeys (o : Opts) (evs : List Ev) (t : TKey) :
    t ∈ tableKeys (build o evs) ↔ ∃ e ∈ evs, e.tkey = t := by
  unfold tableKeys
  rw [mem_dedup, List.mem_map]
  constructor
  · rintro ⟨k, hk, rfl⟩
    obtain ⟨e, he, rfl⟩ := (trials_mem o evs k).mp hk
    exact ⟨e, he, rfl⟩
  · rintro ⟨e, he, rfl⟩
    exact ⟨e.trial, (trials_mem o evs e.trial).mpr ⟨e, he, rfl⟩, rfl⟩

theorem sortTableKeys_congr (env : Env) (ho : TotalOrder env.le) (o : Opts) (pol : Policy) {evs1 evs2 : List Ev}
    (hp : evs1.Perm evs2) (hw : WFp env o pol evs1) (it1 it2 : Iter) (hv1 : it1.Valid) (hv2 : it2.Valid) :
    sortTableKeys env it1 (build o evs1) = sortTableKeys env it2 (build o evs2) := by
  unfold sortTableKeys
  have hk : (tableKeys (build o evs1)).Perm (tableKeys (build o evs2)) := by
    apply (List.perm_ext_iff_of_nodup (nodup_dedup _) (nodup_dedup _)).mpr
    intro t
    show t ∈ tableKeys (build o evs1) ↔ t ∈ tableKeys (build o evs2)
    rw [mem_tableKeys, mem_tableKeys]
    constructor
    · rintro ⟨e, he, h⟩; exact ⟨e, hp.mem_iff.mp he, h⟩
    · rintro ⟨e, he, h⟩; exact ⟨e, hp.mem_iff.mpr he, h⟩
  have hperm : (it1.tables (tableKeys (build o evs1))).Perm (it2.tables (tableKeys (build o evs2))) :=
    (hv1.tables _).trans (hk.trans (hv2.tables _).symm)
  have p' := (List.mergeSort_perm (it1.tables (tableKeys (build o evs1))) (fun x y => !tableLess env y x)).trans
    (hperm.trans (List.mergeSort_perm (it2.tables (tableKeys (build o evs2))) (fun x y => !tableLess env y x)).symm)
  refine List.Perm.eq_of_pairwise ?_ (List.pairwise_mergeSort (tableLe_trans env ho) (tableLe_total env ho) _)
    (List.pairwise_mergeSort (tableLe_trans env ho) (tableLe_total env ho) _) p'
  intro a b ha hb h1 h2
  rw [tableLe_iff env ho] at h1 h2
  have e1 : a.1 = b.1 := ho.antisymm _ _ h1.1 h2.1
  have e2 : joinVals a.2 = joinVals b.2 := ho.antisymm _ _ (h1.2 e1) (h2.2 e1.symm)
  have ha' : a ∈ tableKeys (build o evs1) := (hv1.tables _).mem_iff.mp (List.mem_mergeSort.mp ha)
  have hb' : b ∈ tableKeys (build o evs1) :=
    hk.mem_iff.mpr ((hv2.tables _).mem_iff.mp (List.mem_mergeSort.mp hb))
  obtain ⟨ea, hea, rfl⟩ := (mem_tableKeys o evs1 a).mp ha'
  obtain ⟨eb, heb, rfl⟩ := (mem_tableKeys o evs1 b).mp hb'
  exact hw.w5 ea hea eb heb (uString_eq_of _ _ e1 e2)

/-! ### the date check -/

theorem hto_norm_eq (env : Env) (o : Opts) (pol : Policy) {evs1 evs2 : List Ev} (hp : evs1.Perm evs2)
    (hw : WFp env o pol evs1) (e : Ev) (he : e ∈ evs1) (hn : e.isNum o = true) :
    env.norm ((alookup e.nh (build o evs1).hto).getD []) = env.norm ((alookup e.nh (build o evs2).hto).getD []) := by
  have hp1 := (test_present_iff o evs1 (e.trial, e.nh)).mpr ⟨e, he, hn, rfl⟩
  have hp2 := (test_present_iff o evs2 (e.trial, e.nh)).mpr ⟨e, hp.mem_iff.mp he, hn, rfl⟩
  obtain ⟨s1, hs1⟩ := Option.isSome_iff_exists.mp (hto_present o evs1 (e.trial, e.nh) hp1)
  obtain ⟨s2, hs2⟩ := Option.isSome_iff_exists.mp (hto_present o evs2 (e.trial, e.nh) hp2)
  obtain ⟨e1, he1, hn1, hh1, hs1'⟩ := hto_sound o evs1 e.nh s1 hs1
  obtain ⟨e2, he2, hn2, hh2, hs2'⟩ := hto_sound o evs2 e.nh s2 hs2
  simp only [hs1, hs2, Option.getD_some]
  rw [← hs1', ← hs2']
  exact hw.w1n e1 he1 e2 (hp.mem_iff.mpr he2) hn1 hn2 (hh1.trans hh2.symm)

theorem datesOk_congr (env : Env) (o : Opts) (pol : Policy) {evs1 evs2 : List Ev} (hp : evs1.Perm evs2)
    (hw : WFp env o pol evs1) : datesOk env (build o evs1) = datesOk env (build o evs2) := by
  unfold datesOk
  congr 1
  · apply Bool.eq_iff_iff.mpr
    simp only [List.all_eq_true]
    constructor
    · intro h k hk
      obtain ⟨e, he, rfl⟩ := (trials_mem o evs2 k).mp hk
      exact h _ ((trials_mem o evs1 _).mpr ⟨e, hp.mem_iff.mpr he, rfl⟩)
    · intro h k hk
      obtain ⟨e, he, rfl⟩ := (trials_mem o evs1 k).mp hk
      exact h _ ((trials_mem o evs2 _).mpr ⟨e, hp.mem_iff.mp he, rfl⟩)
  · apply Bool.eq_iff_iff.mpr
    simp only [List.all_eq_true]
    constructor
    · intro h x hx
      have hl := (mem_tests_iff o evs2 x).mp hx
      obtain ⟨e, he, hn, hkey⟩ := (test_present_iff o evs2 x.1).mp (by simp [hl])
      have he1 := hp.mem_iff.mpr he
      obtain ⟨v, hv⟩ := Option.isSome_iff_exists.mp ((test_present_iff o evs1 x.1).mpr ⟨e, he1, hn, hkey⟩)
      have := h (x.1, v) (mem_of_alookup hv)
      rw [hkey] at this ⊢
      rw [← hto_norm_eq env o pol hp hw e he1 hn]
      exact this
    · intro h x hx
      have hl := (mem_tests_iff o evs1 x).mp hx
      obtain ⟨e, he, hn, hkey⟩ := (test_present_iff o evs1 x.1).mp (by simp [hl])
      obtain ⟨v, hv⟩ := Option.isSome_iff_exists.mp
        ((test_present_iff o evs2 x.1).mpr ⟨e, hp.mem_iff.mp he, hn, hkey⟩)
      have := h (x.1, v) (mem_of_alookup hv)
      rw [hkey] at this ⊢
      rw [hto_norm_eq env o pol hp hw e he hn]
      exact this

end C18
