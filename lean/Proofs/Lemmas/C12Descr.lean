/-
C12 helper lemmas: the exact (ℚ) instance of the descriptive-statistics loops.
-/
import Model.Stats.Descr
import Mathlib.Tactic.Ring
import Mathlib.Tactic.Linarith
import Mathlib.Tactic.FieldSimp
import Mathlib.Algebra.Order.Field.Rat
import Mathlib.Algebra.Order.Field.Basic

namespace C12
open Stats Stats.Descr

/-! ### the ℚ instance unfolds to ordinary arithmetic -/

@[simp] theorem add_rat (a b : ℚ) : Arith.add a b = a + b := rfl
@[simp] theorem sub_rat (a b : ℚ) : Arith.sub a b = a - b := rfl
@[simp] theorem mul_rat (a b : ℚ) : Arith.mul a b = a * b := rfl
@[simp] theorem div_rat (a b : ℚ) : Arith.div a b = a / b := rfl
@[simp] theorem neg_rat (a : ℚ) : Arith.neg a = -a := rfl
@[simp] theorem ofNat_rat (n : ℕ) : (Arith.ofNat n : ℚ) = (n : ℚ) := rfl
@[simp] theorem ofFrac_rat (n d : ℕ) : (Arith.ofFrac n d : ℚ) = (n : ℚ) / (d : ℚ) := rfl
@[simp] theorem lt_rat (a b : ℚ) : (Arith.lt a b = true) ↔ a < b := by
  show decide (a < b) = true ↔ _; simp
@[simp] theorem le_rat (a b : ℚ) : (Arith.le a b = true) ↔ a ≤ b := by
  show decide (a ≤ b) = true ↔ _; simp
@[simp] theorem eq_rat (a b : ℚ) : (Arith.eq a b = true) ↔ a = b := by
  show decide (a = b) = true ↔ _; simp
@[simp] theorem isInf_rat (a : ℚ) : Arith.isInf a = false := rfl

/-- Σ of a list of rationals -/
def lsum : List ℚ → ℚ
  | [] => 0
  | x :: xs => x + lsum xs

/-- the loop invariant of `Mean`: if `m·i` is the sum of the `i` values consumed so far, the
loop ends with (that sum + Σ rest)/(i + |rest|). -/
theorem meanLoop_spec (xs : List ℚ) : ∀ (m : ℚ) (i : ℕ), 0 < i + xs.length →
    meanLoop m i xs = (m * i + lsum xs) / ((i + xs.length : ℕ) : ℚ) := by
  induction xs with
  | nil =>
    intro m i h
    have hi : (i : ℚ) ≠ 0 := by
      have : 0 < i := by simpa using h
      exact_mod_cast this.ne'
    simp [meanLoop, lsum]
    field_simp
  | cons x xs ih =>
    intro m i _
    have hi : ((i : ℚ) + 1) ≠ 0 := by positivity
    simp only [meanLoop, add_rat, sub_rat, div_rat, ofNat_rat, lsum, List.length_cons]
    rw [ih _ _ (by omega)]
    have e : (i + 1 + xs.length : ℕ) = (i + (xs.length + 1) : ℕ) := by omega
    rw [e]
    congr 1
    push_cast
    field_simp
    ring


/-! ### Welford -/

def lsumsq (xs : List ℚ) : ℚ := lsum (xs.map fun x => x * x)

@[simp] theorem lsumsq_nil : lsumsq [] = 0 := rfl
@[simp] theorem lsumsq_cons (x : ℚ) (xs : List ℚ) : lsumsq (x :: xs) = x * x + lsumsq xs := rfl

/-- one Welford step keeps `mean·n = S1` and `M2·n = n·S2 − S1²` -/
theorem welford_step (mean M2 S1 S2 x : ℚ) (n : ℕ)
    (h1 : mean * n = S1) (h2 : M2 * n = n * S2 - S1 ^ 2) (h0 : n = 0 → M2 = 0 ∧ S2 = 0) :
    let delta := x - mean
    let mean' := mean + delta / ((n + 1 : ℕ) : ℚ)
    let M2' := M2 + delta * (x - mean')
    mean' * ((n + 1 : ℕ) : ℚ) = S1 + x ∧
    M2' * ((n + 1 : ℕ) : ℚ) = ((n + 1 : ℕ) : ℚ) * (S2 + x * x) - (S1 + x) ^ 2 := by
  intro delta mean' M2'
  have hn1 : ((n : ℚ) + 1) ≠ 0 := by positivity
  constructor
  · simp only [mean', delta]; push_cast; field_simp; rw [← h1]; ring
  · rcases Nat.eq_zero_or_pos n with hz | hp
    · obtain ⟨hM, hS⟩ := h0 hz
      subst hz
      simp at h1
      simp only [M2', mean', delta]
      subst hM hS h1
      simp
      ring
    · have hn : (n : ℚ) ≠ 0 := by exact_mod_cast hp.ne'
      have hS2 : S2 = (M2 * n + S1 ^ 2) / n := by field_simp; linarith
      simp only [M2', mean', delta]
      rw [hS2, ← h1]
      push_cast
      field_simp
      ring

theorem varLoop_spec (xs : List ℚ) : ∀ (mean M2 S1 S2 : ℚ) (n : ℕ),
    mean * n = S1 → M2 * n = n * S2 - S1 ^ 2 → (n = 0 → M2 = 0 ∧ S2 = 0) →
    (varLoop mean M2 n xs).2 * ((n + xs.length : ℕ) : ℚ)
      = ((n + xs.length : ℕ) : ℚ) * (S2 + lsumsq xs) - (S1 + lsum xs) ^ 2 := by
  induction xs with
  | nil => intro mean M2 S1 S2 n _ h2 _; simpa [varLoop, lsum] using h2
  | cons x xs ih =>
    intro mean M2 S1 S2 n h1 h2 h0
    obtain ⟨a, b⟩ := welford_step mean M2 S1 S2 x n h1 h2 h0
    simp only [varLoop, add_rat, sub_rat, div_rat, mul_rat, ofNat_rat, List.length_cons, lsum,
      lsumsq_cons]
    have := ih _ _ (S1 + x) (S2 + x * x) (n + 1) a b (by omega)
    have e : (n + 1 + xs.length : ℕ) = (n + (xs.length + 1) : ℕ) := by omega
    rw [e] at this
    rw [this]; ring

/-- Σ(x − c)² = Σx² − 2cΣx + n c² -/
theorem lsum_sq_dev (c : ℚ) (xs : List ℚ) :
    lsum (xs.map fun x => (x - c) * (x - c)) = lsumsq xs - 2 * c * lsum xs + xs.length * c ^ 2 := by
  induction xs with
  | nil => simp [lsum]
  | cons x xs ih => simp only [List.map_cons, lsum, ih, lsumsq_cons, List.length_cons]; push_cast; ring

end C12
