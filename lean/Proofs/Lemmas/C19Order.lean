/-
C19 helper lemmas: `blt` (Go string `<` / SQLite BINARY collation on `List UInt8`) is a strict total
order with the empty string as least element; packaged as a Mathlib `LinearOrder`.
-/
import Model.Storage.Query
import Mathlib.Order.Defs.LinearOrder

namespace C19
open Storage.Query

theorem u8_lt_irrefl (a : UInt8) : ¬ a < a := by
  rw [UInt8.lt_iff_toNat_lt]; omega

theorem u8_tri (a b : UInt8) : a < b ∨ a = b ∨ b < a := by
  rcases Nat.lt_trichotomy a.toNat b.toNat with h | h | h
  · exact Or.inl (UInt8.lt_iff_toNat_lt.mpr h)
  · exact Or.inr (Or.inl (UInt8.toNat_inj.mp h))
  · exact Or.inr (Or.inr (UInt8.lt_iff_toNat_lt.mpr h))

theorem u8_lt_trans {a b c : UInt8} (h1 : a < b) (h2 : b < c) : a < c := by
  rw [UInt8.lt_iff_toNat_lt] at *; omega

theorem u8_lt_asymm {a b : UInt8} (h1 : a < b) : ¬ b < a := by
  rw [UInt8.lt_iff_toNat_lt] at *; omega

theorem blt_nil_right (a : Bytes) : blt a [] = false := by
  cases a <;> simp [blt]

theorem blt_irrefl (a : Bytes) : blt a a = false := by
  induction a with
  | nil => simp [blt]
  | cons x xs ih => simp [blt, ih]

theorem blt_cons (a b : UInt8) (as bs : Bytes) :
    blt (a :: as) (b :: bs) = true ↔ a < b ∨ (a = b ∧ blt as bs = true) := by
  simp only [blt]
  rcases u8_tri a b with h | h | h
  · simp [h]
  · subst h; simp
  · have := u8_lt_asymm h
    have hne : a ≠ b := fun e => by subst e; exact u8_lt_irrefl _ h
    simp [h, this, hne]

theorem blt_trans : ∀ (a b c : Bytes), blt a b = true → blt b c = true → blt a c = true := by
  intro a
  induction a with
  | nil =>
    intro b c h1 h2
    cases b with
    | nil => simp [blt] at h1
    | cons y ys => cases c with
      | nil => simp [blt] at h2
      | cons z zs => simp [blt]
  | cons x xs ih =>
    intro b c h1 h2
    cases b with
    | nil => simp [blt] at h1
    | cons y ys => cases c with
      | nil => simp [blt] at h2
      | cons z zs =>
        rw [blt_cons] at h1 h2 ⊢
        rcases h1 with h1 | ⟨rfl, h1⟩
        · rcases h2 with h2 | ⟨rfl, h2⟩
          · exact Or.inl (u8_lt_trans h1 h2)
          · exact Or.inl h1
        · rcases h2 with h2 | ⟨rfl, h2⟩
          · exact Or.inl h2
          · exact Or.inr ⟨rfl, ih _ _ h1 h2⟩

theorem blt_total : ∀ (a b : Bytes), blt a b = true ∨ a = b ∨ blt b a = true := by
  intro a
  induction a with
  | nil => intro b; cases b <;> simp [blt]
  | cons x xs ih =>
    intro b
    cases b with
    | nil => simp [blt]
    | cons y ys =>
      rw [blt_cons, blt_cons]
      rcases u8_tri x y with h | h | h
      · exact Or.inl (Or.inl h)
      · subst h
        rcases ih ys with h | h | h
        · exact Or.inl (Or.inr ⟨rfl, h⟩)
        · subst h; exact Or.inr (Or.inl rfl)
        · exact Or.inr (Or.inr (Or.inr ⟨rfl, h⟩))
      · exact Or.inr (Or.inr (Or.inl h))

theorem blt_asymm (a b : Bytes) (h : blt a b = true) : blt b a = false := by
  cases hb : blt b a with
  | false => rfl
  | true => have := blt_trans a b a h hb; rw [blt_irrefl] at this; cases this

/-- The bytewise order as a Mathlib linear order (a `def`, not an instance: core already has a
lexicographic `<` on lists). -/
@[reducible] def bytesOrder : LinearOrder Bytes where
  le a b := blt b a = false
  lt a b := blt a b = true
  le_refl a := blt_irrefl a
  le_trans a b c h1 h2 := by
    show blt c a = false
    cases hca : blt c a with
    | false => rfl
    | true =>
      rcases blt_total a b with h | h | h
      · have := blt_trans c a b hca h; rw [h2] at this; cases this
      · subst h; rw [h2] at hca; cases hca
      · rw [h1] at h; cases h
  lt_iff_le_not_ge a b := by
    show blt a b = true ↔ blt b a = false ∧ ¬ blt a b = false
    constructor
    · intro h; exact ⟨blt_asymm a b h, by simp [h]⟩
    · intro ⟨_, h⟩; simpa using h
  le_antisymm a b h1 h2 := by
    rcases blt_total a b with h | h | h
    · rw [h2] at h; cases h
    · exact h
    · rw [h1] at h; cases h
  le_total a b := by
    show blt b a = false ∨ blt a b = false
    cases h : blt b a with
    | false => exact Or.inl rfl
    | true => exact Or.inr (blt_asymm b a h)
  toDecidableLE := fun a b => inferInstanceAs (Decidable (blt b a = false))
  toDecidableLT := fun a b => inferInstanceAs (Decidable (blt a b = true))
  toDecidableEq := inferInstance
  min a b := if blt b a = false then a else b
  max a b := if blt b a = false then b else a
  min_def _ _ := rfl
  max_def _ _ := rfl
  compare a b := if blt a b = true then .lt else if a = b then .eq else .gt
  compare_eq_compareOfLessAndEq _ _ := rfl

end C19
