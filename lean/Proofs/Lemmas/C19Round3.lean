/-
C19 helper lemmas: what the Printer writes for a stream of results, the Reader reads back.
Part 3: the Reader's loop over the printed lines.
-/
import Model.Storage.Fmt
import Proofs.Lemmas.C19Round2

namespace C19
open Storage.Query Storage.Fmt

/-- no permanent labels in force (a Reader without AddLabels never has any, see below) -/
def PInv (rd : Reader) : Prop := rd.perm.getD [] = []

theorem step_kv (hp : Bool) (rd : Reader) (line k v : Bytes) (rest : List Bytes)
    (hparse : parseKeyValueLine line = some (k, v)) (hperm : PInv rd) :
    Reader.nextGo hp rd (line :: rest) =
      Reader.nextGo hp { rd with lineNum := rd.lineNum + 1,
                                 labels := if v.isEmpty then rd.labels.erase k else rd.labels.set k v } rest := by
  unfold PInv at hperm
  rw [Reader.nextGo]
  simp only [hparse, hperm, Labels.has, List.any_nil, Bool.false_eq_true, if_false]
  split <;> rfl

theorem unset_lines (hp : Bool) (ks : Labels) (rd : Reader) (rest : List Bytes)
    (hk : ∀ kv ∈ ks, validKey kv.1) (hperm : PInv rd) :
    ∃ rd', Reader.nextGo hp rd (ks.map (fun kv => unsetLine kv.1) ++ rest) = Reader.nextGo hp rd' rest ∧
      rd'.labels = eraseAll rd.labels ks ∧ rd'.perm = rd.perm := by
  induction ks generalizing rd with
  | nil => exact ⟨rd, rfl, rfl, rfl⟩
  | cons kv ks ih =>
    have hparse := kv_unset_roundtrip kv.1 (hk kv (by simp))
    simp only [List.map_cons, List.cons_append]
    rw [step_kv hp rd (unsetLine kv.1) kv.1 [] _ hparse hperm]
    obtain ⟨rd', h1, h2, h3⟩ := ih { rd with lineNum := rd.lineNum + 1, labels := rd.labels.erase kv.1 }
      (fun x hx => hk x (by simp [hx])) hperm
    exact ⟨rd', h1, by rw [h2]; rfl, h3⟩

theorem set_lines (hp : Bool) (kvs : Labels) (rd : Reader) (rest : List Bytes)
    (hk : ∀ kv ∈ kvs, validKey kv.1) (hv : ∀ kv ∈ kvs, GoodValue kv.2) (hperm : PInv rd) :
    ∃ rd', Reader.nextGo hp rd (kvs.map (fun kv => setLine kv.1 kv.2) ++ rest) = Reader.nextGo hp rd' rest ∧
      rd'.labels = setAll rd.labels kvs ∧ rd'.perm = rd.perm := by
  induction kvs generalizing rd with
  | nil => exact ⟨rd, rfl, rfl, rfl⟩
  | cons kv kvs ih =>
    have hg := hv kv (by simp)
    have hparse := kv_line_roundtrip kv.1 kv.2 (hk kv (by simp)) hg.first
    have hne : kv.2.isEmpty = false := by
      have := goodValue_ne _ hg
      cases h : kv.2 with
      | nil => exact absurd h this
      | cons _ _ => rfl
    simp only [List.map_cons, List.cons_append]
    rw [step_kv hp rd (setLine kv.1 kv.2) kv.1 kv.2 _ hparse hperm]
    simp only [hne, Bool.false_eq_true, if_false]
    obtain ⟨rd', h1, h2, h3⟩ := ih { rd with lineNum := rd.lineNum + 1, labels := rd.labels.set kv.1 kv.2 }
      (fun x hx => hk x (by simp [hx])) (fun x hx => hv x (by simp [hx])) hperm
    exact ⟨rd', h1, by rw [h2]; rfl, h3⟩

theorem benchPrefix_eq : benchPrefix = [66, 101, 110, 99, 104, 109, 97, 114, 107] := by decide +kernel

/-- a benchmark line starts with 'B', so it is not a configuration line -/
theorem bench_not_kv (line name : Bytes) (h : parseBenchmarkLine line = some name) :
    parseKeyValueLine line = none ∧ line ≠ [] := by
  unfold parseBenchmarkLine at h
  simp only at h
  split at h
  · cases h
  · split at h
    · rename_i hpre
      rw [benchPrefix_eq] at hpre
      cases line with
      | nil => simp [Bytes.hasPrefix] at hpre
      | cons c t =>
        rw [List.takeWhile_cons] at hpre
        split at hpre
        · simp only [Bytes.hasPrefix, Bool.and_eq_true, beq_iff_eq] at hpre
          have hc : c = 66 := hpre.1
          subst hc
          refine ⟨?_, by simp⟩
          unfold parseKeyValueLine
          have : kvScan 0 (66 :: t) = none := by
            rw [kvScan]; simp [isAsciiLower]
          rw [this]
        · simp [Bytes.hasPrefix] at hpre
    · cases h

theorem content_line (hp : Bool) (rd : Reader) (content name : Bytes) (rest : List Bytes)
    (hb : parseBenchmarkLine content = some name) (hperm : PInv rd) :
    ∃ res rd', Reader.nextGo hp rd (content :: rest) = some (res, rd', rest) ∧
      res.labels = rd.labels ∧ res.content = content ∧ rd'.labels = rd.labels ∧
      PInv rd' := by
  obtain ⟨hkv, hne⟩ := bench_not_kv content name hb
  have hemp : content.isEmpty = false := by cases content <;> simp_all
  rw [Reader.nextGo]
  simp only [hkv, hb, hemp, Bool.false_eq_true, if_false]
  cases hp
  · simp only [Bool.not_false, if_true, Reader.newResult]
    split <;> exact ⟨_, _, rfl, rfl, rfl, rfl, rfl⟩
  · simp only [Bool.not_true, Bool.false_eq_true, if_false, Reader.newResult]
    split <;> exact ⟨_, _, rfl, rfl, rfl, rfl, hperm⟩

/-- **one result**: from a Reader holding the previous labels, the lines the Printer wrote for `r`
yield a result with the labels and the content line of `r`, and leave the Reader holding `r`'s
labels -/
theorem read_block (hp : Bool) (prev : Labels) (r : Result) (rd : Reader) (rest : List Bytes)
    (hprev : GoodLabels prev) (hr : CleanResult r) (hl : rd.labels = prev) (hperm : PInv rd) :
    ∃ res rd', Reader.nextGo hp rd (blockLines prev r ++ rest) = some (res, rd', rest) ∧
      res.labels = r.labels ∧ res.content = r.content ∧ rd'.labels = r.labels ∧ PInv rd' := by
  unfold blockLines
  simp only [List.append_assoc]
  obtain ⟨rd1, e1, l1, p1⟩ := unset_lines hp (removed prev r) rd
    ((changed prev r).map (fun kv => setLine kv.1 kv.2) ++ ([r.content] ++ rest))
    (fun kv hkv => hprev.keys kv ((mem_removed _ _ _).mp hkv).1) hperm
  have hperm1 : PInv rd1 := by unfold PInv; rw [p1]; exact hperm
  obtain ⟨rd2, e2, l2, p2⟩ := set_lines hp (changed prev r) rd1 ([r.content] ++ rest)
    (fun kv hkv => hr.labels.keys kv ((mem_changed _ _ _).mp hkv).1)
    (fun kv hkv => hr.labels.vals kv ((mem_changed _ _ _).mp hkv).1) hperm1
  have hperm2 : PInv rd2 := by unfold PInv; rw [p2]; exact hperm1
  obtain ⟨name, hname⟩ := hr.bench
  obtain ⟨res, rd3, e3, a, b, c, d⟩ := content_line hp rd2 r.content name rest hname hperm2
  have hlab : rd2.labels = r.labels := by
    rw [l2, l1, hl]
    exact apply_diff prev r hprev.sorted hr.labels.sorted
      (fun x hx => goodValue_ne _ (hprev.vals x hx)) (fun x hx => goodValue_ne _ (hr.labels.vals x hx))
  refine ⟨res, rd3, ?_, a.trans hlab, b, c.trans hlab, d⟩
  rw [e1, e2]
  exact e3

theorem allLines_length (rs : List Result) (prev : Labels) : rs.length ≤ (allLines prev rs).length := by
  induction rs generalizing prev with
  | nil => simp [allLines]
  | cons r rs ih =>
    simp only [allLines, List.length_append, List.length_cons, blockLines, List.length_map, List.length_nil]
    have := ih r.labels
    omega

/-- **the whole stream** -/
theorem read_all_lines (rs : List Result) (prev : Labels) (rd : Reader) (fuel : Nat)
    (hprev : GoodLabels prev) (hr : ∀ r ∈ rs, CleanResult r) (hl : rd.labels = prev)
    (hperm : PInv rd) (hfuel : rs.length < fuel) :
    (Reader.allGo fuel rd (allLines prev rs)).map (fun r => (r.labels, r.content)) =
      rs.map (fun r => (r.labels, r.content)) := by
  induction rs generalizing prev rd fuel with
  | nil =>
    cases fuel with
    | zero => simp at hfuel
    | succ n => simp [allLines, Reader.allGo, Reader.next, Reader.nextGo]
  | cons r rs ih =>
    cases fuel with
    | zero => simp at hfuel
    | succ n =>
      obtain ⟨res, rd', e, a, b, c, d⟩ := read_block rd.perm.isSome prev r rd (allLines r.labels rs)
        hprev (hr r (by simp)) hl hperm
      rw [Reader.allGo]
      simp only [allLines, Reader.next, e, List.map_cons, a, b]
      congr 1
      exact ih r.labels rd' n (hr r (by simp)).labels (fun x hx => hr x (by simp [hx])) c d
        (by simp only [List.length_cons] at hfuel; omega)


/-! ### a stored record: the first result printed in full, then bare lines -/

theorem read_bare_lines (ts : List Bytes) (rd : Reader) (fuel : Nat)
    (hb : ∀ t ∈ ts, ∃ name, parseBenchmarkLine t = some name) (hperm : PInv rd)
    (hfuel : ts.length < fuel) :
    (Reader.allGo fuel rd ts).map (fun r => (r.labels, r.content)) = ts.map fun t => (rd.labels, t) := by
  induction ts generalizing rd fuel with
  | nil =>
    cases fuel with
    | zero => simp at hfuel
    | succ n => simp [Reader.allGo, Reader.next, Reader.nextGo]
  | cons t ts ih =>
    cases fuel with
    | zero => simp at hfuel
    | succ n =>
      obtain ⟨name, hname⟩ := hb t (by simp)
      obtain ⟨res, rd', e, a, b, c, d⟩ := content_line rd.perm.isSome rd t name ts hname hperm
      rw [Reader.allGo]
      simp only [Reader.next, e, List.map_cons, a, b]
      congr 1
      rw [ih rd' n (fun x hx => hb x (by simp [hx])) d (by simp only [List.length_cons] at hfuel; omega), c]

/-- a line that may follow in a stored record -/
structure CleanLine (t : Bytes) : Prop where
  bench : ∃ name, parseBenchmarkLine t = some name
  noNl : ∀ c ∈ t, c ≠ nl
  noCr : t.getLast? ≠ some cr

/-- **a stored record reads back as its results**: the content `InsertRecord` stores for a run
(first result printed by a fresh Printer, then the bare lines of the others) is decoded by a fresh
Reader into one result per line, all carrying the labels of the first -/
theorem read_stored (h : Result) (ts : List Bytes) (hh : CleanResult h) (hts : ∀ t ∈ ts, CleanLine t) :
    (readAll ((printResult [] h).1 ++ ts.flatMap fun t => t ++ [nl])).map (fun r => (r.labels, r.content)) =
      (h.labels, h.content) :: ts.map fun t => (h.labels, t) := by
  have hgood : GoodLabels [] := ⟨by simp [StrictSorted], by simp, by simp⟩
  have hb := blockLines_ok [] h hgood hh
  have hscan : scanLines ((printResult [] h).1 ++ ts.flatMap fun t => t ++ [nl]) = blockLines [] h ++ ts := by
    rw [(printResult_lines [] h).1]
    have : (ts.flatMap fun t => t ++ [nl]) = terminated ts := rfl
    rw [this, ← terminated_append, scanLines_terminated]
    · rw [List.map_append, hb.2]
      congr 1
      conv => rhs; rw [← List.map_id ts]
      exact List.map_congr_left (fun t ht => dropCR_id t (hts t ht).noCr)
    · intro l hl
      rcases List.mem_append.mp hl with hl | hl
      · exact hb.1 l hl
      · exact (hts l hl).noNl
  unfold readAll Reader.all
  rw [hscan]
  obtain ⟨res, rd', e, a, b, c, d⟩ := read_block (Reader.perm {}).isSome [] h {} ts hgood hh rfl rfl
  rw [Reader.allGo]
  simp only [Reader.next, e, List.map_cons, a, b]
  congr 1
  rw [read_bare_lines ts rd' _ (fun t ht => (hts t ht).bench) d (by simp [blockLines]; omega), c]

end C19
