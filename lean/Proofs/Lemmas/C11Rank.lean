/-
C11: the rank loop of `MannWhitneyUTest` computes the pair-counting statistic.
-/
import Model.Stats.UStat
import Model.Spec.UExact
import Mathlib.Order.Defs.LinearOrder
import Mathlib.Order.Basic
import Mathlib.Tactic.Ring
import Mathlib.Tactic.Linarith
import Mathlib.Data.List.Perm.Basic
import Mathlib.Data.List.Dedup

namespace C11
open Stats.UStat Spec.UExact

set_option linter.unusedSectionVars false

variable {α : Type} [LinearOrder α]

/-! ### `sortF` sorts and permutes -/

theorem insertSorted_perm (a : α) (l : List α) : (insertSorted a l).Perm (a :: l) := by
  induction l with
  | nil => exact List.Perm.refl _
  | cons b l ih =>
    unfold insertSorted
    split
    · exact (List.Perm.cons b ih).trans (List.Perm.swap a b l)
    · exact List.Perm.refl _

theorem sortF_cons (a : α) (l : List α) : sortF (a :: l) = insertSorted a (sortF l) := rfl

theorem sortF_perm (l : List α) : (sortF l).Perm l := by
  induction l with
  | nil => exact List.Perm.refl _
  | cons a l ih =>
    rw [sortF_cons]
    exact (insertSorted_perm a _).trans (List.Perm.cons a ih)

theorem insertSorted_sorted (a : α) (l : List α) (h : l.Pairwise (· ≤ ·)) :
    (insertSorted a l).Pairwise (· ≤ ·) := by
  induction l with
  | nil => simp [insertSorted]
  | cons b l ih =>
    rw [List.pairwise_cons] at h
    unfold insertSorted
    split
    · rename_i hba
      rw [List.pairwise_cons]
      refine ⟨?_, ih h.2⟩
      intro x hx
      have := (insertSorted_perm a l).mem_iff.mp hx
      rcases List.mem_cons.mp this with rfl | hx'
      · exact le_of_lt hba
      · exact h.1 x hx'
    · rename_i hba
      have hab : a ≤ b := not_lt.mp hba
      rw [List.pairwise_cons, List.pairwise_cons]
      refine ⟨?_, h⟩
      intro x hx
      rcases List.mem_cons.mp hx with rfl | hx'
      · exact hab
      · exact le_trans hab (h.1 x hx')

theorem sortF_sorted (l : List α) : (sortF l).Pairwise (· ≤ ·) := by
  induction l with
  | nil => simp [sortF]
  | cons a l ih => rw [sortF_cons]; exact insertSorted_sorted a _ ih

theorem sortF_length (l : List α) : (sortF l).length = l.length := (sortF_perm l).length_eq

/-! ### `twoUPairs` algebra -/

theorem twoUPairs_nil_left (ys : List α) : twoUPairs ([] : List α) ys = 0 := rfl

theorem twoUPairs_cons_left (a : α) (xs ys : List α) :
    twoUPairs (a :: xs) ys = (ys.map fun b => pairW a b).sum + twoUPairs xs ys := by
  simp [twoUPairs]

theorem twoUPairs_nil_right (xs : List α) : twoUPairs xs ([] : List α) = 0 := by
  induction xs with
  | nil => rfl
  | cons a xs ih => rw [twoUPairs_cons_left, ih]; simp

theorem twoUPairs_append_left (xs xs' ys : List α) :
    twoUPairs (xs ++ xs') ys = twoUPairs xs ys + twoUPairs xs' ys := by
  simp [twoUPairs, List.map_append, List.sum_append]

theorem twoUPairs_append_right (xs ys ys' : List α) :
    twoUPairs xs (ys ++ ys') = twoUPairs xs ys + twoUPairs xs ys' := by
  induction xs with
  | nil => rfl
  | cons a xs ih =>
    rw [twoUPairs_cons_left, twoUPairs_cons_left, twoUPairs_cons_left, ih]
    simp only [List.map_append, List.sum_append]
    omega

theorem twoUPairs_perm_left {xs xs' : List α} (h : xs.Perm xs') (ys : List α) :
    twoUPairs xs ys = twoUPairs xs' ys := by
  unfold twoUPairs
  exact (h.map _).sum_nat

theorem twoUPairs_perm_right (xs : List α) {ys ys' : List α} (h : ys.Perm ys') :
    twoUPairs xs ys = twoUPairs xs ys' := by
  induction xs with
  | nil => rfl
  | cons a xs ih =>
    rw [twoUPairs_cons_left, twoUPairs_cons_left, ih, (h.map _).sum_nat]

theorem twoUPairs_const (k : Nat) (xs ys : List α)
    (h : ∀ a ∈ xs, ∀ b ∈ ys, pairW a b = k) :
    twoUPairs xs ys = k * xs.length * ys.length := by
  induction xs with
  | nil => simp [twoUPairs_nil_left]
  | cons a xs ih =>
    rw [twoUPairs_cons_left, ih (fun a' ha' => h a' (List.mem_cons_of_mem _ ha'))]
    have hrow : (ys.map fun b => pairW a b).sum = k * ys.length := by
      have ha := h a (List.mem_cons_self)
      clear ih h
      induction ys with
      | nil => simp
      | cons b ys ihy =>
        simp only [List.map_cons, List.sum_cons, List.length_cons]
        rw [ihy (fun b' hb' => ha b' (List.mem_cons_of_mem _ hb')), ha b List.mem_cons_self]
        ring
    rw [hrow, List.length_cons]
    ring

/-! ### labelled lists -/

def trues (L : List (α × Bool)) : List α := (L.filter (fun p => p.2)).map (fun p => p.1)
def falses (L : List (α × Bool)) : List α := (L.filter (fun p => !p.2)).map (fun p => p.1)

@[simp] theorem trues_nil : trues ([] : List (α × Bool)) = [] := rfl
@[simp] theorem falses_nil : falses ([] : List (α × Bool)) = [] := rfl
@[simp] theorem trues_cons_true (a : α) (L : List (α × Bool)) : trues ((a, true) :: L) = a :: trues L := by
  simp [trues]
@[simp] theorem trues_cons_false (a : α) (L : List (α × Bool)) : trues ((a, false) :: L) = trues L := by
  simp [trues]
@[simp] theorem falses_cons_true (a : α) (L : List (α × Bool)) : falses ((a, true) :: L) = falses L := by
  simp [falses]
@[simp] theorem falses_cons_false (a : α) (L : List (α × Bool)) : falses ((a, false) :: L) = a :: falses L := by
  simp [falses]
theorem trues_append (L L' : List (α × Bool)) : trues (L ++ L') = trues L ++ trues L' := by
  simp [trues]
theorem falses_append (L L' : List (α × Bool)) : falses (L ++ L') = falses L ++ falses L' := by
  simp [falses]

theorem mem_trues {a : α} {L : List (α × Bool)} (h : a ∈ trues L) : ∃ p ∈ L, p.1 = a := by
  simp only [trues, List.mem_map, List.mem_filter] at h
  obtain ⟨p, ⟨hp, _⟩, rfl⟩ := h
  exact ⟨p, hp, rfl⟩

theorem mem_falses {a : α} {L : List (α × Bool)} (h : a ∈ falses L) : ∃ p ∈ L, p.1 = a := by
  simp only [falses, List.mem_map, List.mem_filter] at h
  obtain ⟨p, ⟨hp, _⟩, rfl⟩ := h
  exact ⟨p, hp, rfl⟩

theorem trues_falses_length (L : List (α × Bool)) :
    (trues L).length + (falses L).length = L.length := by
  induction L with
  | nil => rfl
  | cons p L ih =>
    obtain ⟨a, l⟩ := p
    cases l <;> simp <;> omega

/-! ### `labeledMerge` -/

theorem trues_map_false (ys : List α) : trues (ys.map fun y => (y, false)) = [] := by
  induction ys with
  | nil => rfl
  | cons y ys ih => simp [ih]

theorem falses_map_false (ys : List α) : falses (ys.map fun y => (y, false)) = ys := by
  induction ys with
  | nil => rfl
  | cons y ys ih => simp [ih]

theorem trues_map_true (xs : List α) : trues (xs.map fun x => (x, true)) = xs := by
  induction xs with
  | nil => rfl
  | cons y ys ih => simp [ih]

theorem falses_map_true (xs : List α) : falses (xs.map fun x => (x, true)) = [] := by
  induction xs with
  | nil => rfl
  | cons y ys ih => simp [ih]

theorem labeledMerge_trues_falses (xs ys : List α) :
    trues (labeledMerge xs ys) = xs ∧ falses (labeledMerge xs ys) = ys := by
  fun_induction labeledMerge xs ys with
  | case1 ys => exact ⟨trues_map_false ys, falses_map_false ys⟩
  | case2 x xs => exact ⟨trues_map_true (x :: xs), falses_map_true (x :: xs)⟩
  | case3 x xs y ys h ih => simp [ih.1, ih.2]
  | case4 x xs y ys h ih => simp [ih.1, ih.2]

theorem labeledMerge_mem {p : α × Bool} {xs ys : List α} (h : p ∈ labeledMerge xs ys) :
    p.1 ∈ xs ∨ p.1 ∈ ys := by
  obtain ⟨a, l⟩ := p
  have hl := trues_falses_length (labeledMerge xs ys)
  cases l
  · right
    have : a ∈ falses (labeledMerge xs ys) := by
      simp only [falses, List.mem_map, List.mem_filter]
      exact ⟨(a, false), ⟨h, rfl⟩, rfl⟩
    rwa [(labeledMerge_trues_falses xs ys).2] at this
  · left
    have : a ∈ trues (labeledMerge xs ys) := by
      simp only [trues, List.mem_map, List.mem_filter]
      exact ⟨(a, true), ⟨h, rfl⟩, rfl⟩
    rwa [(labeledMerge_trues_falses xs ys).1] at this

theorem labeledMerge_sorted (xs ys : List α) (hx : xs.Pairwise (· ≤ ·)) (hy : ys.Pairwise (· ≤ ·)) :
    (labeledMerge xs ys).Pairwise (fun p q => p.1 ≤ q.1) := by
  fun_induction labeledMerge xs ys with
  | case1 ys => exact List.Pairwise.map _ (fun _ _ h => h) hy
  | case2 x xs => exact List.Pairwise.map _ (fun _ _ h => h) hx
  | case3 x xs y ys h ih =>
    rw [List.pairwise_cons]
    refine ⟨?_, ih (List.pairwise_cons.mp hx).2 hy⟩
    intro p hp
    rcases labeledMerge_mem hp with hp | hp
    · exact (List.pairwise_cons.mp hx).1 _ hp
    · rcases List.mem_cons.mp hp with hp | hp
      · rw [hp]; exact le_of_lt h
      · exact le_trans (le_of_lt h) ((List.pairwise_cons.mp hy).1 _ hp)
  | case4 x xs y ys h ih =>
    have hyx : y ≤ x := not_lt.mp h
    rw [List.pairwise_cons]
    refine ⟨?_, ih hx (List.pairwise_cons.mp hy).2⟩
    intro p hp
    rcases labeledMerge_mem hp with hp | hp
    · rcases List.mem_cons.mp hp with hp | hp
      · rw [hp]; exact hyx
      · exact le_trans hyx ((List.pairwise_cons.mp hx).1 _ hp)
    · exact (List.pairwise_cons.mp hy).1 _ hp

/-! ### `takeRun` -/

theorem takeRun_spec (v : α) (L : List (α × Bool))
    (hs : L.Pairwise (fun p q => p.1 ≤ q.1)) (hv : ∀ p ∈ L, v ≤ p.1) :
    ∃ run, L = run ++ (takeRun v L).2.2 ∧ (∀ p ∈ run, p.1 = v) ∧
      (∀ p ∈ (takeRun v L).2.2, v < p.1) ∧ run.length = (takeRun v L).1 ∧
      (trues run).length = (takeRun v L).2.1 := by
  induction L with
  | nil => exact ⟨[], by simp [takeRun]⟩
  | cons p L ih =>
    obtain ⟨w, l⟩ := p
    rw [List.pairwise_cons] at hs
    by_cases hw : w = v
    · obtain ⟨run, h1, h2, h3, h4, h5⟩ := ih hs.2 (fun p hp => hv p (List.mem_cons_of_mem _ hp))
      refine ⟨(w, l) :: run, ?_, ?_, ?_, ?_, ?_⟩
      · simp only [takeRun, if_pos hw, List.cons_append]
        rw [← h1]
      · intro p hp
        rcases List.mem_cons.mp hp with rfl | hp
        · exact hw
        · exact h2 p hp
      · simpa only [takeRun, if_pos hw] using h3
      · simp only [takeRun, if_pos hw, List.length_cons, h4]
      · cases l <;> simp [takeRun, if_pos hw, h5]
    · have hvw : v < w := lt_of_le_of_ne (hv (w, l) List.mem_cons_self) (Ne.symm hw)
      refine ⟨[], ?_, ?_, ?_, ?_, ?_⟩
      · simp [takeRun, if_neg hw]
      · intro p hp; cases hp
      · simp only [takeRun, if_neg hw]
        intro p hp
        rcases List.mem_cons.mp hp with rfl | hp
        · exact hvw
        · exact lt_of_lt_of_le hvw (hs.1 p hp)
      · simp [takeRun, if_neg hw]
      · simp [takeRun, if_neg hw]

/-! ### pair counts of a run followed by larger values -/

theorem pairW_self (a : α) : pairW a a = 1 := by simp [pairW]
theorem pairW_lt {a b : α} (h : a < b) : pairW a b = 0 := by
  simp [pairW, not_lt_of_gt h, ne_of_lt h]
theorem pairW_gt {a b : α} (h : b < a) : pairW a b = 2 := by
  simp [pairW, h]

theorem pc2_run_rest (v : α) (run rest : List (α × Bool))
    (hrun : ∀ p ∈ run, p.1 = v) (hrest : ∀ p ∈ rest, v < p.1) :
    twoUPairs (trues (run ++ rest)) (falses (run ++ rest))
      = twoUPairs (trues rest) (falses rest) + (trues run).length * (falses run).length
        + 2 * (trues rest).length * (falses run).length := by
  rw [trues_append, falses_append, twoUPairs_append_left, twoUPairs_append_right,
    twoUPairs_append_right]
  have e1 : twoUPairs (trues run) (falses run) = 1 * (trues run).length * (falses run).length := by
    apply twoUPairs_const
    intro a ha b hb
    obtain ⟨p, hp, rfl⟩ := mem_trues ha
    obtain ⟨q, hq, rfl⟩ := mem_falses hb
    rw [hrun p hp, hrun q hq]; exact pairW_self v
  have e2 : twoUPairs (trues run) (falses rest) = 0 * (trues run).length * (falses rest).length := by
    apply twoUPairs_const
    intro a ha b hb
    obtain ⟨p, hp, rfl⟩ := mem_trues ha
    obtain ⟨q, hq, rfl⟩ := mem_falses hb
    rw [hrun p hp]; exact pairW_lt (hrest q hq)
  have e3 : twoUPairs (trues rest) (falses run) = 2 * (trues rest).length * (falses run).length := by
    apply twoUPairs_const
    intro a ha b hb
    obtain ⟨p, hp, rfl⟩ := mem_trues ha
    obtain ⟨q, hq, rfl⟩ := mem_falses hb
    rw [hrun q hq]; exact pairW_gt (hrest p hp)
  rw [e1, e2, e3]
  ring

/-! ### the loop invariant -/

theorem rankLoop_twoR1 (fuel : Nat) : ∀ (i : Nat) (L : List (α × Bool)) (s : RankState),
    L.Pairwise (fun p q => p.1 ≤ q.1) → L.length ≤ fuel →
    (rankLoop fuel i L s).twoR1
      = s.twoR1 + twoUPairs (trues L) (falses L)
        + (trues L).length * ((trues L).length + 1) + 2 * i * (trues L).length := by
  induction fuel with
  | zero =>
    intro i L s _ hl
    have : L = [] := List.length_eq_zero_iff.mp (Nat.le_zero.mp hl)
    subst this
    simp [rankLoop, twoUPairs_nil_left]
  | succ fuel ih =>
    intro i L s hs hl
    match L, hs, hl with
    | [], _, _ => simp [rankLoop, twoUPairs_nil_left]
    | (v, l) :: rest, hs, hl =>
      have hv : ∀ p ∈ (v, l) :: rest, v ≤ p.1 := by
        intro p hp
        rcases List.mem_cons.mp hp with rfl | hp
        · exact le_refl _
        · exact (List.pairwise_cons.mp hs).1 p hp
      obtain ⟨run, hL, hrun, hrest, hlen, hc⟩ := takeRun_spec v ((v, l) :: rest) hs hv
      simp only [rankLoop]
      generalize takeRun v ((v, l) :: rest) = r at hL hrest hlen hc ⊢
      obtain ⟨r1, c, rest'⟩ := r
      simp only at hL hrest hlen hc ⊢
      have hrun_ne : run ≠ [] := by
        rintro rfl
        have : (v, l) ∈ rest' := by
          have := hL ▸ (List.mem_cons_self : (v, l) ∈ (v, l) :: rest)
          simpa using this
        exact lt_irrefl v (hrest _ this)
      have hr1 : 1 ≤ r1 := by
        rw [← hlen]; exact List.length_pos_iff.mpr hrun_ne
      have hs' : rest'.Pairwise (fun p q => p.1 ≤ q.1) := by
        rw [hL] at hs
        exact (List.pairwise_append.mp hs).2.1
      have hl' : rest'.length ≤ fuel := by
        have : ((v, l) :: rest).length = run.length + rest'.length := by
          rw [hL, List.length_append]
        rw [hlen] at this
        omega
      rw [ih _ _ _ hs' hl']
      have hpc := pc2_run_rest v run rest' hrun hrest
      rw [← hL] at hpc
      have hsplit := trues_falses_length run
      have htr : trues ((v, l) :: rest) = trues run ++ trues rest' := by
        rw [hL, trues_append]
      rw [hpc, htr, List.length_append, hc]
      rw [hc, hlen] at hsplit
      have hr : r1 = c + (falses run).length := hsplit.symm
      generalize (falses run).length = d at hr
      subst hr
      generalize twoUPairs (trues rest') (falses rest') = P
      generalize (trues rest').length = m
      have e : (if c ≠ 0 then s.twoR1 + (i + (c + d) + (i + 1)) * c else s.twoR1)
          = s.twoR1 + (i + (c + d) + (i + 1)) * c := by
        split
        · rfl
        · rename_i h; simp only [ne_eq, not_not] at h; subst h; simp
      rw [e]
      ring

/-! ### GOAL 1 -/

theorem ranks_twoR1 (xs ys : List α) (hx : xs.Pairwise (· ≤ ·)) (hy : ys.Pairwise (· ≤ ·)) :
    (ranks (labeledMerge xs ys)).twoR1 = twoUPairs xs ys + xs.length * (xs.length + 1) := by
  unfold ranks
  rw [rankLoop_twoR1 _ 0 _ _ (labeledMerge_sorted xs ys hx hy) (le_refl _),
    (labeledMerge_trues_falses xs ys).1, (labeledMerge_trues_falses xs ys).2]
  simp

theorem u_is_pair_count (x1 x2 : List α) :
    Stats.UStat.twoU1 x1 x2 = ((Spec.UExact.twoUPairs x1 x2 : Nat) : Int) := by
  unfold twoU1
  rw [ranks_twoR1 _ _ (sortF_sorted x1) (sortF_sorted x2), sortF_length,
    twoUPairs_perm_left (sortF_perm x1), twoUPairs_perm_right _ (sortF_perm x2)]
  push_cast
  ring

/-! ### GOAL 2: the tie vector -/

/-- multiplicities of the distinct values of `M`, in order of (last) occurrence -/
def tv (M : List α) : List Nat := tieVectorOf M.dedup M

theorem dedup_run (v : α) (A B : List α) (hA : ∀ a ∈ A, a = v) (hne : A ≠ [])
    (hB : ∀ b ∈ B, v < b) : (A ++ B).dedup = v :: B.dedup := by
  induction A with
  | nil => exact absurd rfl hne
  | cons a A ih =>
    have hav : a = v := hA a List.mem_cons_self
    subst hav
    by_cases hA' : A = []
    · subst hA'
      have : a ∉ B := fun h => lt_irrefl a (hB a h)
      simpa using List.dedup_cons_of_notMem this
    · have hmem : a ∈ A ++ B := by
        obtain ⟨a', A', rfl⟩ := List.exists_cons_of_ne_nil hA'
        have : a' = a := hA a' (List.mem_cons_of_mem _ List.mem_cons_self)
        subst this
        exact List.mem_append_left _ List.mem_cons_self
      rw [List.cons_append, List.dedup_cons_of_mem hmem]
      exact ih (fun x hx => hA x (List.mem_cons_of_mem _ hx)) hA'

theorem tv_run (v : α) (A B : List α) (hA : ∀ a ∈ A, a = v) (hne : A ≠ [])
    (hB : ∀ b ∈ B, v < b) : tv (A ++ B) = A.length :: tv B := by
  unfold tv tieVectorOf
  rw [dedup_run v A B hA hne hB, List.map_cons]
  congr 1
  · rw [List.filter_append]
    have h1 : A.filter (fun x => decide (x = v)) = A :=
      List.filter_eq_self.mpr (fun a ha => by simp [hA a ha])
    have h2 : B.filter (fun x => decide (x = v)) = [] :=
      List.filter_eq_nil_iff.mpr (fun b hb => by simp [ne_of_gt (hB b hb)])
    rw [h1, h2, List.append_nil]
  · apply List.map_congr_left
    intro a ha
    have haB : a ∈ B := List.mem_dedup.mp ha
    have hva : v < a := hB a haB
    rw [List.filter_append]
    have h1 : A.filter (fun x => decide (x = a)) = [] :=
      List.filter_eq_nil_iff.mpr (fun b hb => by simp [hA b hb, ne_of_lt hva])
    rw [h1, List.nil_append]

/-- one iteration of the outer loop on a sorted non-empty list -/
theorem takeRun_head_spec (v : α) (l : Bool) (rest : List (α × Bool))
    (hs : ((v, l) :: rest).Pairwise (fun p q => p.1 ≤ q.1)) :
    ∃ run rest', takeRun v ((v, l) :: rest) = (run.length, (trues run).length, rest') ∧
      (v, l) :: rest = run ++ rest' ∧ (∀ p ∈ run, p.1 = v) ∧ (∀ p ∈ rest', v < p.1) ∧
      run ≠ [] ∧ rest'.Pairwise (fun p q => p.1 ≤ q.1) ∧ rest'.length ≤ rest.length := by
  have hv : ∀ p ∈ (v, l) :: rest, v ≤ p.1 := by
    intro p hp
    rcases List.mem_cons.mp hp with rfl | hp
    · exact le_refl _
    · exact (List.pairwise_cons.mp hs).1 p hp
  obtain ⟨run, hL, hrun, hrest, hlen, hc⟩ := takeRun_spec v ((v, l) :: rest) hs hv
  generalize takeRun v ((v, l) :: rest) = r at hL hrest hlen hc ⊢
  obtain ⟨r1, c, rest'⟩ := r
  simp only at hL hrest hlen hc ⊢
  have hrun_ne : run ≠ [] := by
    rintro rfl
    have : (v, l) ∈ rest' := by
      have := hL ▸ (List.mem_cons_self : (v, l) ∈ (v, l) :: rest)
      simpa using this
    exact lt_irrefl v (hrest _ this)
  refine ⟨run, rest', by rw [hlen, hc], hL, hrun, hrest, hrun_ne, ?_, ?_⟩
  · rw [hL] at hs
    exact (List.pairwise_append.mp hs).2.1
  · have h1 : ((v, l) :: rest).length = run.length + rest'.length := by
      rw [hL, List.length_append]
    have h2 : 1 ≤ run.length := List.length_pos_iff.mpr hrun_ne
    simp only [List.length_cons] at h1
    omega

theorem rankLoop_T (fuel : Nat) : ∀ (i : Nat) (L : List (α × Bool)) (s : RankState),
    L.Pairwise (fun p q => p.1 ≤ q.1) → L.length ≤ fuel →
    (rankLoop fuel i L s).T = s.T ++ tv (L.map fun p => p.1) := by
  induction fuel with
  | zero =>
    intro i L s _ hl
    have : L = [] := List.length_eq_zero_iff.mp (Nat.le_zero.mp hl)
    subst this
    simp [rankLoop, tv, tieVectorOf]
  | succ fuel ih =>
    intro i L s hs hl
    match L, hs, hl with
    | [], _, _ => simp [rankLoop, tv, tieVectorOf]
    | (v, l) :: rest, hs, hl =>
      obtain ⟨run, rest', htr, hL, hrun, hrest, hne, hs', hl'⟩ := takeRun_head_spec v l rest hs
      simp only [rankLoop, htr]
      rw [ih _ _ _ hs' (by simp only [List.length_cons] at hl; omega)]
      have h1 : 1 ≤ run.length := List.length_pos_iff.mpr hne
      have e : i + run.length - (i + 1) + 1 = run.length := by omega
      rw [hL, List.map_append, tv_run v (run.map fun p => p.1) (rest'.map fun p => p.1)
        (by intro a ha; obtain ⟨p, hp, rfl⟩ := List.mem_map.mp ha; exact hrun p hp)
        (by simpa using hne)
        (by intro a ha; obtain ⟨p, hp, rfl⟩ := List.mem_map.mp ha; exact hrest p hp)]
      simp [e]

theorem labeledMerge_values_perm (xs ys : List α) :
    ((labeledMerge xs ys).map fun p => p.1).Perm (xs ++ ys) := by
  fun_induction labeledMerge xs ys with
  | case1 ys => simp [Function.comp_def]
  | case2 x xs => simp [Function.comp_def]
  | case3 x xs y ys h ih => simpa using ih
  | case4 x xs y ys h ih =>
    simp only [List.map_cons]
    exact (List.Perm.cons y ih).trans List.perm_middle.symm

theorem merged_values (x1 x2 : List α) :
    ((labeledMerge (sortF x1) (sortF x2)).map fun p => p.1) = sortF (x1 ++ x2) := by
  apply List.Perm.eq_of_pairwise (le := (· ≤ ·)) (fun a b _ _ hab hba => le_antisymm hab hba)
  · have := labeledMerge_sorted _ _ (sortF_sorted x1) (sortF_sorted x2)
    exact List.pairwise_map.mpr this
  · exact sortF_sorted _
  · exact (labeledMerge_values_perm _ _).trans
      (((sortF_perm x1).append (sortF_perm x2)).trans (sortF_perm (x1 ++ x2)).symm)

theorem tieVectorOf_perm (ds : List α) {M M' : List α} (h : M.Perm M') :
    tieVectorOf ds M = tieVectorOf ds M' := by
  unfold tieVectorOf
  apply List.map_congr_left
  intro a _
  exact (h.filter _).length_eq

theorem tie_vector_is_run_lengths (x1 x2 : List α) :
    Stats.UStat.tieVector x1 x2
      = Spec.UExact.tieVectorOf ((Stats.UStat.sortF (x1 ++ x2)).dedup) (x1 ++ x2) := by
  unfold tieVector ranks
  rw [rankLoop_T _ 0 _ _ (labeledMerge_sorted _ _ (sortF_sorted x1) (sortF_sorted x2)) (le_refl _),
    merged_values]
  simp only [List.nil_append, tv]
  exact tieVectorOf_perm _ (sortF_perm _)

/-- `hasTies` is set exactly when some emitted run length exceeds 1 (no sortedness needed) -/
theorem rankLoop_hasTies (fuel : Nat) : ∀ (i : Nat) (L : List (α × Bool)) (s : RankState),
    ∃ T', (rankLoop fuel i L s).T = s.T ++ T' ∧
      (rankLoop fuel i L s).hasTies = (s.hasTies || T'.any fun t => decide (t > 1)) := by
  induction fuel with
  | zero => intro i L s; exact ⟨[], by simp [rankLoop]⟩
  | succ fuel ih =>
    intro i L s
    match L with
    | [] => exact ⟨[], by simp [rankLoop]⟩
    | (v, l) :: rest =>
      simp only [rankLoop]
      generalize takeRun v ((v, l) :: rest) = r
      obtain ⟨T', h1, h2⟩ := ih (i + r.1) r.2.2
        { twoR1 := if r.2.1 ≠ 0 then s.twoR1 + (i + r.1 + (i + 1)) * r.2.1 else s.twoR1
          T := s.T ++ [i + r.1 - (i + 1) + 1]
          hasTies := s.hasTies || decide (i + r.1 > i + 1) }
      refine ⟨(i + r.1 - (i + 1) + 1) :: T', ?_, ?_⟩
      · rw [h1]; simp
      · rw [h2]
        simp only [List.any_cons, Bool.or_assoc]
        congr 2
        simp only [decide_eq_decide]
        omega

theorem ranks_hasTies_iff (L : List (α × Bool)) :
    (ranks L).hasTies = true ↔ ∃ t ∈ (ranks L).T, t > 1 := by
  unfold ranks
  obtain ⟨T', h1, h2⟩ := rankLoop_hasTies L.length 0 L { twoR1 := 0, T := [], hasTies := false }
  rw [h1, h2]
  simp

end C11
