/-
C03 — truncating runs of the decimal slow path, part 2: following the TRUE value through
buffer-limited shifts.

Each truncating shift replaces the decimal by a floor on the grid 10^(dp' − 800), so the decimal
drifts below the true value — possibly by several units of the 800th digit after several shifts.
What is preserved exactly is the ORDER against every point that is itself on all those grids:
the dyadic points I·2^q with I ≤ 2^55 and q not below −1075 (in the frame of the input), which
include every float64, every midpoint between neighbours, and the powers of two the scaling loops
compare with.  Such a point has at most ~770 significant digits next to a decimal of comparable
size, so it is never cut by the buffer.
-/
import Proofs.Lemmas.C03TrShift
import Proofs.Lemmas.C03DecFB

namespace C03
open Num Spec.NumText F64

/-- a step loses less than half of the value, and moves the point by at most the factor -/
theorem step_lower (a a' : Dc) (f : ℚ) (h : StepRes a a' f) : dval a * f / 2 ≤ dval a' := by
  obtain ⟨lo, _, _⟩ := dval_bounds a' h.wf h.ne
  have hlt := h.lt
  have : (10 : ℚ) ^ (a'.dp - 800) ≤ (10 : ℚ) ^ (a'.dp - 1) := zpow_le_zpow_right₀ (by norm_num) (by omega)
  linarith

/-- the dyadic points whose order against the true value is followed, in the frame reached after
a total shift by `K` bits -/
def Bnd (K : Int) (z : ℚ) : Prop :=
  ∃ (I : ℕ) (q : Int), z = (I : ℚ) * (2 : ℚ) ^ q ∧ ((I ≤ 2 ^ 55 ∧ K - 1075 ≤ q) ∨ (I = 1 ∧ K - 1140 ≤ q))

theorem bnd_shift (K k : Int) (z : ℚ) (h : Bnd (K + k) z) : Bnd K (z / (2 : ℚ) ^ k) := by
  obtain ⟨I, q, hz, hc⟩ := h
  refine ⟨I, q - k, ?_, ?_⟩
  · rw [hz, zpow_sub₀ (by norm_num : (2 : ℚ) ≠ 0), mul_div_assoc]
  · rcases hc with ⟨h1, h2⟩ | ⟨h1, h2⟩
    · exact Or.inl ⟨h1, by omega⟩
    · exact Or.inr ⟨h1, by omega⟩

theorem grid_numbers : 2 ^ 55 * 5 ^ 1119 < 10 ^ 800 ∧ 5 ^ 1140 < 10 ^ 800 := by decide +kernel

/-- a followed point just above a decimal lies on the decimal's 800-digit grid -/
theorem bnd_grid (a : Dc) (hwf : WF a) (hne : a.d ≠ []) (K : Int) (z : ℚ) (hb : Bnd K z) (hlt : dval a < z)
    (hdp : a.dp ≤ 800) (hmag : 0 ≤ K ∨ 1 / (2 : ℚ) ^ 1065 ≤ dval a) :
    ∃ j : ℤ, z = (j : ℚ) * (10 : ℚ) ^ (a.dp - 800) := by
  obtain ⟨I, q, hz, hc⟩ := hb
  obtain ⟨lo, _, hpos⟩ := dval_bounds a hwf hne
  by_cases hq : 0 ≤ q
  · refine ⟨(I : ℤ) * 2 ^ q.toNat * 10 ^ (800 - a.dp).toNat, ?_⟩
    have e1 : (2 : ℚ) ^ q = (2 : ℚ) ^ q.toNat := by
      conv => lhs; rw [show q = (q.toNat : Int) by omega]
      rw [zpow_natCast]
    have e2 : (10 : ℚ) ^ (a.dp - 800) = 1 / (10 : ℚ) ^ (800 - a.dp).toNat := by
      conv => lhs; rw [show a.dp - 800 = -((800 - a.dp).toNat : Int) by omega]
      rw [zpow_neg, zpow_natCast, one_div]
    rw [hz, e1, e2]
    push_cast
    field_simp
  · -- z = I / 2^m
    obtain ⟨m, hm⟩ : ∃ m : Nat, q = -(m : Int) := ⟨(-q).toNat, by omega⟩
    have ez : z = (I : ℚ) / (2 : ℚ) ^ m := by
      rw [hz, hm, zpow_neg, zpow_natCast, div_eq_mul_inv]
    have hp2 : (0 : ℚ) < (2 : ℚ) ^ m := by positivity
    -- the bound on m and the resulting contradiction are the same for both families
    have key : ∀ (Imax M : Nat), I ≤ Imax → m ≤ M → Imax * 5 ^ M < 10 ^ 800 → a.dp + m ≤ 800 := by
      intro Imax M hI hmM hnum
      apply Classical.byContradiction
      intro hbig
      have h1 : (10 : ℚ) ^ ((800 : Int) - m) ≤ (10 : ℚ) ^ (a.dp - 1) := zpow_le_zpow_right₀ (by norm_num) (by omega)
      have h2 : (10 : ℚ) ^ ((800 : Int) - m) < (I : ℚ) / (2 : ℚ) ^ m := by rw [← ez]; linarith
      have e800 : (10 : ℚ) ^ ((800 : Int) - m) = (10 : ℚ) ^ 800 / (10 : ℚ) ^ m := by
        rw [zpow_sub₀ (by norm_num : (10 : ℚ) ≠ 0), zpow_natCast]; norm_num
      rw [e800, div_lt_div_iff₀ (by positivity) hp2] at h2
      have e10 : (10 : ℚ) ^ m = (2 : ℚ) ^ m * (5 : ℚ) ^ m := by rw [← mul_pow]; norm_num
      rw [e10] at h2
      have h3 : (10 : ℚ) ^ 800 < (I : ℚ) * (5 : ℚ) ^ m := by
        have : (10 : ℚ) ^ 800 * (2 : ℚ) ^ m < ((I : ℚ) * (5 : ℚ) ^ m) * (2 : ℚ) ^ m := by linarith
        exact lt_of_mul_lt_mul_right this hp2.le
      have h4 : (10 : Nat) ^ 800 < I * 5 ^ m := by exact_mod_cast h3
      have h5 : I * 5 ^ m ≤ Imax * 5 ^ M := Nat.mul_le_mul hI (Nat.pow_le_pow_right (by decide) hmM)
      omega
    have mbound : ∀ (Imax e : Nat), I ≤ Imax → Imax = 2 ^ e → 1 / (2 : ℚ) ^ 1065 ≤ dval a → m < 1065 + e := by
      intro Imax e hI he hx
      have h2 : 1 / (2 : ℚ) ^ 1065 < (I : ℚ) / (2 : ℚ) ^ m := by rw [← ez]; linarith
      rw [div_lt_div_iff₀ (by positivity) hp2] at h2
      have hIq : (I : ℚ) ≤ (2 : ℚ) ^ e := by
        have : (I : ℚ) ≤ ((2 ^ e : Nat) : ℚ) := by exact_mod_cast (he ▸ hI)
        push_cast at this; exact this
      have h3 : (2 : ℚ) ^ m < (2 : ℚ) ^ (e + 1065) := by
        rw [pow_add]
        have hP : (0 : ℚ) < (2 : ℚ) ^ 1065 := by positivity
        have : (I : ℚ) * (2 : ℚ) ^ 1065 ≤ (2 : ℚ) ^ e * (2 : ℚ) ^ 1065 := mul_le_mul_of_nonneg_right hIq hP.le
        rw [one_mul] at h2
        exact lt_of_lt_of_le h2 this
      have h4 : (2 : Nat) ^ m < 2 ^ (e + 1065) := by exact_mod_cast h3
      have := (Nat.pow_lt_pow_iff_right (by decide : 1 < 2)).mp h4
      omega
    have hsum : a.dp + m ≤ 800 := by
      rcases hc with ⟨hI, hq1⟩ | ⟨hI, hq1⟩
      · have hm1119 : m ≤ 1119 := by
          rcases hmag with h | h
          · omega
          · have := mbound (2 ^ 55) 55 hI rfl h; omega
        exact key (2 ^ 55) 1119 hI hm1119 grid_numbers.1
      · have hm1140 : m ≤ 1140 := by
          rcases hmag with h | h
          · omega
          · have := mbound 1 0 (by omega) rfl h; omega
        exact key 1 1140 (by omega) hm1140 (by rw [Nat.one_mul]; exact grid_numbers.2)
    refine ⟨(I : ℤ) * 5 ^ m * 10 ^ (800 - a.dp - m).toNat, ?_⟩
    have e2 : (10 : ℚ) ^ (a.dp - 800) = 1 / ((10 : ℚ) ^ (800 - a.dp - m).toNat * (10 : ℚ) ^ m) := by
      conv => lhs; rw [show a.dp - 800 = -(((800 - a.dp - m).toNat + m : Nat) : Int) by omega]
      rw [zpow_neg, zpow_natCast, one_div, pow_add]
    have e10 : (10 : ℚ) ^ m = (2 : ℚ) ^ m * (5 : ℚ) ^ m := by rw [← mul_pow]; norm_num
    rw [ez, e2, e10]
    push_cast
    field_simp

end C03

namespace C03
open Num Spec.NumText F64

/-- the decimal `a` follows the true value `V` (frame `K`): it never exceeds it, equals it exactly
as long as nothing was truncated, is strictly below once something was, and no followed point
separates the two -/
structure Follows (a : Dc) (V : ℚ) (K : Int) : Prop where
  le : dval a ≤ V
  exact : a.trunc = false → dval a = V
  strict : a.trunc = true → dval a < V
  nob : ∀ z, Bnd K z → z ≤ V → z ≤ dval a

theorem Follows.lt_of_lt {a : Dc} {V : ℚ} {K : Int} (h : Follows a V K) (z : ℚ) (hb : Bnd K z) (hlt : dval a < z) : V < z := by
  apply Classical.byContradiction
  intro hn
  have := h.nob z hb (by linarith)
  linarith

/-- a well-formed decimal is a multiple of its 800-digit grid unit -/
theorem dval_grid (a : Dc) (hwf : WF a) : ∃ i : ℤ, dval a = (i : ℚ) * (10 : ℚ) ^ (a.dp - 800) := by
  refine ⟨(valOf 10 a.d : ℤ) * 10 ^ (800 - a.d.length), ?_⟩
  unfold dval
  have hl := hwf.len
  have hb : bufLen = 800 := rfl
  have : a.dp - (a.d.length : Int) = ((800 - a.d.length : Nat) : Int) + (a.dp - 800) := by omega
  rw [this, zpow_add₀ (by norm_num : (10 : ℚ) ≠ 0), zpow_natCast]
  push_cast
  ring

/-- **one buffer-limited shift keeps following the true value** -/
theorem follows_step (a a' : Dc) (V : ℚ) (K k : Int) (f : ℚ) (hf : f = (2 : ℚ) ^ k) (h : Follows a V K)
    (hs : StepRes a a' f) (hdp : a'.dp ≤ 800) (hmag : 0 ≤ K + k ∨ 1 / (2 : ℚ) ^ 1065 ≤ dval a') :
    Follows a' (V * f) (K + k) := by
  have hfpos : (0 : ℚ) < f := by rw [hf]; exact zpow_pos (by norm_num) _
  have hle : dval a * f ≤ V * f := mul_le_mul_of_nonneg_right h.le hfpos.le
  refine ⟨le_trans hs.le hle, ?_, ?_, ?_⟩
  · intro ht
    have heq : dval a' = dval a * f := by
      apply Classical.byContradiction
      intro hne
      rw [hs.inexact hne] at ht; cases ht
    have hta : a.trunc = false := by rw [← hs.exact heq]; exact ht
    rw [heq, h.exact hta]
  · intro ht
    by_cases heq : dval a' = dval a * f
    · have hta : a.trunc = true := by rw [← hs.exact heq]; exact ht
      rw [heq]
      exact mul_lt_mul_of_pos_right (h.strict hta) hfpos
    · have : dval a' < dval a * f := lt_of_le_of_ne hs.le heq
      linarith
  · intro z hb hzV
    apply Classical.byContradiction
    intro hn
    have hlt : dval a' < z := by linarith
    obtain ⟨j, hj⟩ := bnd_grid a' hs.wf hs.ne (K + k) z hb hlt hdp hmag
    obtain ⟨i, hi⟩ := dval_grid a' hs.wf
    have hzf : z / f ≤ V := by rw [div_le_iff₀ hfpos]; exact hzV
    have hbk : Bnd K (z / f) := by rw [hf]; exact bnd_shift K k z hb
    have hzx : z / f ≤ dval a := h.nob _ hbk hzf
    rw [div_le_iff₀ hfpos] at hzx
    have hlt2 := hs.lt
    have hu : (0 : ℚ) < (10 : ℚ) ^ (a'.dp - 800) := zpow_pos (by norm_num) _
    generalize (10 : ℚ) ^ (a'.dp - 800) = u at *
    rw [hi] at hlt hlt2
    rw [hj] at hzx hlt
    have h1 : (j : ℚ) * u < ((i : ℚ) + 1) * u := by linarith
    have h2 : (j : ℚ) < (i : ℚ) + 1 := lt_of_mul_lt_mul_right h1 hu.le
    have h3 : (i : ℚ) * u < (j : ℚ) * u := hlt
    have h4 : (i : ℚ) < (j : ℚ) := lt_of_mul_lt_mul_right h3 hu.le
    have h5 : j < i + 1 := by exact_mod_cast h2
    have h6 : i < j := by exact_mod_cast h4
    omega

/-- the point moves by at most 19 places in a step of at most 60 bits -/
theorem step_dp (a a' : Dc) (f : ℚ) (hwf : WF a) (hne : a.d ≠ []) (hs : StepRes a a' f) (hf : f ≤ (10 : ℚ) ^ (19 : Int)) :
    a'.dp ≤ a.dp + 19 := by
  obtain ⟨lo, _, _⟩ := dval_bounds a' hs.wf hs.ne
  obtain ⟨_, hi, hpos⟩ := dval_bounds a hwf hne
  have h1 : dval a * f < (10 : ℚ) ^ a.dp * (10 : ℚ) ^ (19 : Int) := by
    have hp : (0 : ℚ) < (10 : ℚ) ^ a.dp := zpow_pos (by norm_num) _
    by_cases hf0 : 0 < f
    · calc dval a * f < (10 : ℚ) ^ a.dp * f := mul_lt_mul_of_pos_right hi hf0
        _ ≤ _ := mul_le_mul_of_nonneg_left hf hp.le
    · have : dval a * f ≤ 0 := mul_nonpos_of_nonneg_of_nonpos hpos.le (by linarith)
      have : (0 : ℚ) < (10 : ℚ) ^ a.dp * (10 : ℚ) ^ (19 : Int) := by positivity
      linarith
  rw [← zpow_add₀ (by norm_num : (10 : ℚ) ≠ 0)] at h1
  have h2 : (10 : ℚ) ^ (a'.dp - 1) < (10 : ℚ) ^ (a.dp + 19) := lt_of_le_of_lt (le_trans lo hs.le) h1
  have := (zpow_lt_zpow_iff_right₀ (by norm_num : (1 : ℚ) < 10)).mp h2
  omega

end C03
