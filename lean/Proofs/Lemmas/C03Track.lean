/-
C03 — truncating runs of the decimal slow path, part 2: following the TRUE value through
buffer-limited shifts.

Each truncating shift replaces the decimal by a floor on the grid 10^(dp' − 800), so the decimal
drifts below the true value — possibly by several units of the 800th digit after several shifts.
What is preserved exactly is the ORDER against every point that is itself on all those grids:
the dyadic points I·2^q with I ≤ 2^55 and q not below −1075 (in the frame of the input), which
include every float64, every midpoint between neighbours, and the powers of two the scaling loops
compare with.  Such a point has at most ~770 significant digits next to a decimal of comparable
size, so it is never cut by the buffer.
-/
import Proofs.Lemmas.C03TrShift
import Proofs.Lemmas.C03DecFB

namespace C03
open Num Spec.NumText F64

/-- a step loses less than half of the value, and moves the point by at most the factor -/
theorem step_lower (a a' : Dc) (f : ℚ) (h : StepRes a a' f) : dval a * f / 2 ≤ dval a' := by
  obtain ⟨lo, _, _⟩ := dval_bounds a' h.wf h.ne
  have hlt := h.lt
  have : (10 : ℚ) ^ (a'.dp - 800) ≤ (10 : ℚ) ^ (a'.dp - 1) := zpow_le_zpow_right₀ (by norm_num) (by omega)
  linarith

/-- the dyadic points whose order against the true value is followed, in the frame reached after
a total shift by `K` bits -/
def Bnd (K : Int) (z : ℚ) : Prop :=
  ∃ (I : ℕ) (q : Int), z = (I : ℚ) * (2 : ℚ) ^ q ∧ ((I ≤ 2 ^ 55 ∧ K - 1075 ≤ q) ∨ (I = 1 ∧ K - 1140 ≤ q))

theorem bnd_shift (K k : Int) (z : ℚ) (h : Bnd (K + k) z) : Bnd K (z / (2 : ℚ) ^ k) := by
  obtain ⟨I, q, hz, hc⟩ := h
  refine ⟨I, q - k, ?_, ?_⟩
  · rw [hz, zpow_sub₀ (by norm_num : (2 : ℚ) ≠ 0), mul_div_assoc]
  · rcases hc with ⟨h1, h2⟩ | ⟨h1, h2⟩
    · exact Or.inl ⟨h1, by omega⟩
    · exact Or.inr ⟨h1, by omega⟩

theorem grid_numbers : 2 ^ 55 * 5 ^ 1119 < 10 ^ 800 ∧ 5 ^ 1140 < 10 ^ 800 := by decide +kernel

/-- a followed point just above a decimal lies on the decimal's 800-digit grid -/
theorem bnd_grid (a : Dc) (hwf : WF a) (hne : a.d ≠ []) (K : Int) (z : ℚ) (hb : Bnd K z) (hlt : dval a < z)
    (hdp : a.dp ≤ 800) (hmag : 0 ≤ K ∨ 1 / (2 : ℚ) ^ 1065 ≤ dval a) :
    ∃ j : ℤ, z = (j : ℚ) * (10 : ℚ) ^ (a.dp - 800) := by
  obtain ⟨I, q, hz, hc⟩ := hb
  obtain ⟨lo, _, hpos⟩ := dval_bounds a hwf hne
  by_cases hq : 0 ≤ q
  · refine ⟨(I : ℤ) * 2 ^ q.toNat * 10 ^ (800 - a.dp).toNat, ?_⟩
    have e1 : (2 : ℚ) ^ q = (2 : ℚ) ^ q.toNat := by
      conv => lhs; rw [show q = (q.toNat : Int) by omega]
      rw [zpow_natCast]
    have e2 : (10 : ℚ) ^ (a.dp - 800) = 1 / (10 : ℚ) ^ (800 - a.dp).toNat := by
      conv => lhs; rw [show a.dp - 800 = -((800 - a.dp).toNat : Int) by omega]
      rw [zpow_neg, zpow_natCast, one_div]
    rw [hz, e1, e2]
    push_cast
    field_simp
  · -- z = I / 2^m
    obtain ⟨m, hm⟩ : ∃ m : Nat, q = -(m : Int) := ⟨(-q).toNat, by omega⟩
    have ez : z = (I : ℚ) / (2 : ℚ) ^ m := by
      rw [hz, hm, zpow_neg, zpow_natCast, div_eq_mul_inv]
    have hp2 : (0 : ℚ) < (2 : ℚ) ^ m := by positivity
    -- the bound on m and the resulting contradiction are the same for both families
    have key : ∀ (Imax M : Nat), I ≤ Imax → m ≤ M → Imax * 5 ^ M < 10 ^ 800 → a.dp + m ≤ 800 := by
      intro Imax M hI hmM hnum
      apply Classical.byContradiction
      intro hbig
      have h1 : (10 : ℚ) ^ ((800 : Int) - m) ≤ (10 : ℚ) ^ (a.dp - 1) := zpow_le_zpow_right₀ (by norm_num) (by omega)
      have h2 : (10 : ℚ) ^ ((800 : Int) - m) < (I : ℚ) / (2 : ℚ) ^ m := by rw [← ez]; linarith
      have e800 : (10 : ℚ) ^ ((800 : Int) - m) = (10 : ℚ) ^ 800 / (10 : ℚ) ^ m := by
        rw [zpow_sub₀ (by norm_num : (10 : ℚ) ≠ 0), zpow_natCast]; norm_num
      rw [e800, div_lt_div_iff₀ (by positivity) hp2] at h2
      have e10 : (10 : ℚ) ^ m = (2 : ℚ) ^ m * (5 : ℚ) ^ m := by rw [← mul_pow]; norm_num
      rw [e10] at h2
      have h3 : (10 : ℚ) ^ 800 < (I : ℚ) * (5 : ℚ) ^ m := by
        have : (10 : ℚ) ^ 800 * (2 : ℚ) ^ m < ((I : ℚ) * (5 : ℚ) ^ m) * (2 : ℚ) ^ m := by linarith
        exact lt_of_mul_lt_mul_right this hp2.le
      have h4 : (10 : Nat) ^ 800 < I * 5 ^ m := by exact_mod_cast h3
      have h5 : I * 5 ^ m ≤ Imax * 5 ^ M := Nat.mul_le_mul hI (Nat.pow_le_pow_right (by decide) hmM)
      omega
    have mbound : ∀ (Imax e : Nat), I ≤ Imax → Imax = 2 ^ e → 1 / (2 : ℚ) ^ 1065 ≤ dval a → m < 1065 + e := by
      intro Imax e hI he hx
      have h2 : 1 / (2 : ℚ) ^ 1065 < (I : ℚ) / (2 : ℚ) ^ m := by rw [← ez]; linarith
      rw [div_lt_div_iff₀ (by positivity) hp2] at h2
      have hIq : (I : ℚ) ≤ (2 : ℚ) ^ e := by
        have : (I : ℚ) ≤ ((2 ^ e : Nat) : ℚ) := by exact_mod_cast (he ▸ hI)
        push_cast at this; exact this
      have h3 : (2 : ℚ) ^ m < (2 : ℚ) ^ (e + 1065) := by
        rw [pow_add]
        have hP : (0 : ℚ) < (2 : ℚ) ^ 1065 := by positivity
        have : (I : ℚ) * (2 : ℚ) ^ 1065 ≤ (2 : ℚ) ^ e * (2 : ℚ) ^ 1065 := mul_le_mul_of_nonneg_right hIq hP.le
        rw [one_mul] at h2
        exact lt_of_lt_of_le h2 this
      have h4 : (2 : Nat) ^ m < 2 ^ (e + 1065) := by exact_mod_cast h3
      have := (Nat.pow_lt_pow_iff_right (by decide : 1 < 2)).mp h4
      omega
    have hsum : a.dp + m ≤ 800 := by
      rcases hc with ⟨hI, hq1⟩ | ⟨hI, hq1⟩
      · have hm1119 : m ≤ 1119 := by
          rcases hmag with h | h
          · omega
          · have := mbound (2 ^ 55) 55 hI rfl h; omega
        exact key (2 ^ 55) 1119 hI hm1119 grid_numbers.1
      · have hm1140 : m ≤ 1140 := by
          rcases hmag with h | h
          · omega
          · have := mbound 1 0 (by omega) rfl h; omega
        exact key 1 1140 (by omega) hm1140 (by rw [Nat.one_mul]; exact grid_numbers.2)
    refine ⟨(I : ℤ) * 5 ^ m * 10 ^ (800 - a.dp - m).toNat, ?_⟩
    have e2 : (10 : ℚ) ^ (a.dp - 800) = 1 / ((10 : ℚ) ^ (800 - a.dp - m).toNat * (10 : ℚ) ^ m) := by
      conv => lhs; rw [show a.dp - 800 = -(((800 - a.dp - m).toNat + m : Nat) : Int) by omega]
      rw [zpow_neg, zpow_natCast, one_div, pow_add]
    have e10 : (10 : ℚ) ^ m = (2 : ℚ) ^ m * (5 : ℚ) ^ m := by rw [← mul_pow]; norm_num
    rw [ez, e2, e10]
    push_cast
    field_simp

end C03

namespace C03
open Num Spec.NumText F64

/-- the decimal `a` follows the true value `V` (frame `K`): it never exceeds it, equals it exactly
as long as nothing was truncated, is strictly below once something was, and no followed point
separates the two -/
structure Follows (a : Dc) (V : ℚ) (K : Int) : Prop where
  le : dval a ≤ V
  exact : a.trunc = false → dval a = V
  strict : a.trunc = true → dval a < V
  nob : ∀ z, Bnd K z → z ≤ V → z ≤ dval a

theorem Follows.lt_of_lt {a : Dc} {V : ℚ} {K : Int} (h : Follows a V K) (z : ℚ) (hb : Bnd K z) (hlt : dval a < z) : V < z := by
  apply Classical.byContradiction
  intro hn
  have := h.nob z hb (by linarith)
  linarith

/-- a well-formed decimal is a multiple of its 800-digit grid unit -/
theorem dval_grid (a : Dc) (hwf : WF a) : ∃ i : ℤ, dval a = (i : ℚ) * (10 : ℚ) ^ (a.dp - 800) := by
  refine ⟨(valOf 10 a.d : ℤ) * 10 ^ (800 - a.d.length), ?_⟩
  unfold dval
  have hl := hwf.len
  have hb : bufLen = 800 := rfl
  have : a.dp - (a.d.length : Int) = ((800 - a.d.length : Nat) : Int) + (a.dp - 800) := by omega
  rw [this, zpow_add₀ (by norm_num : (10 : ℚ) ≠ 0), zpow_natCast]
  push_cast
  ring

/-- **one buffer-limited shift keeps following the true value** -/
theorem follows_step (a a' : Dc) (V : ℚ) (K k : Int) (f : ℚ) (hf : f = (2 : ℚ) ^ k) (h : Follows a V K)
    (hs : StepRes a a' f) (hdp : a'.dp ≤ 800) (hmag : 0 ≤ K + k ∨ 1 / (2 : ℚ) ^ 1065 ≤ dval a') :
    Follows a' (V * f) (K + k) := by
  have hfpos : (0 : ℚ) < f := by rw [hf]; exact zpow_pos (by norm_num) _
  have hle : dval a * f ≤ V * f := mul_le_mul_of_nonneg_right h.le hfpos.le
  refine ⟨le_trans hs.le hle, ?_, ?_, ?_⟩
  · intro ht
    have heq : dval a' = dval a * f := by
      apply Classical.byContradiction
      intro hne
      rw [hs.inexact hne] at ht; cases ht
    have hta : a.trunc = false := by rw [← hs.exact heq]; exact ht
    rw [heq, h.exact hta]
  · intro ht
    by_cases heq : dval a' = dval a * f
    · have hta : a.trunc = true := by rw [← hs.exact heq]; exact ht
      rw [heq]
      exact mul_lt_mul_of_pos_right (h.strict hta) hfpos
    · have : dval a' < dval a * f := lt_of_le_of_ne hs.le heq
      linarith
  · intro z hb hzV
    apply Classical.byContradiction
    intro hn
    have hlt : dval a' < z := by linarith
    obtain ⟨j, hj⟩ := bnd_grid a' hs.wf hs.ne (K + k) z hb hlt hdp hmag
    obtain ⟨i, hi⟩ := dval_grid a' hs.wf
    have hzf : z / f ≤ V := by rw [div_le_iff₀ hfpos]; exact hzV
    have hbk : Bnd K (z / f) := by rw [hf]; exact bnd_shift K k z hb
    have hzx : z / f ≤ dval a := h.nob _ hbk hzf
    rw [div_le_iff₀ hfpos] at hzx
    have hlt2 := hs.lt
    have hu : (0 : ℚ) < (10 : ℚ) ^ (a'.dp - 800) := zpow_pos (by norm_num) _
    generalize (10 : ℚ) ^ (a'.dp - 800) = u at *
    rw [hi] at hlt hlt2
    rw [hj] at hzx hlt
    have h1 : (j : ℚ) * u < ((i : ℚ) + 1) * u := by linarith
    have h2 : (j : ℚ) < (i : ℚ) + 1 := lt_of_mul_lt_mul_right h1 hu.le
    have h3 : (i : ℚ) * u < (j : ℚ) * u := hlt
    have h4 : (i : ℚ) < (j : ℚ) := lt_of_mul_lt_mul_right h3 hu.le
    have h5 : j < i + 1 := by exact_mod_cast h2
    have h6 : i < j := by exact_mod_cast h4
    omega

/-- the point moves by at most 19 places in a step of at most 60 bits -/
theorem step_dp (a a' : Dc) (f : ℚ) (hwf : WF a) (hne : a.d ≠ []) (hs : StepRes a a' f) (hf : f ≤ (10 : ℚ) ^ (19 : Int)) :
    a'.dp ≤ a.dp + 19 := by
  obtain ⟨lo, _, _⟩ := dval_bounds a' hs.wf hs.ne
  obtain ⟨_, hi, hpos⟩ := dval_bounds a hwf hne
  have h1 : dval a * f < (10 : ℚ) ^ a.dp * (10 : ℚ) ^ (19 : Int) := by
    have hp : (0 : ℚ) < (10 : ℚ) ^ a.dp := zpow_pos (by norm_num) _
    by_cases hf0 : 0 < f
    · calc dval a * f < (10 : ℚ) ^ a.dp * f := mul_lt_mul_of_pos_right hi hf0
        _ ≤ _ := mul_le_mul_of_nonneg_left hf hp.le
    · have : dval a * f ≤ 0 := mul_nonpos_of_nonneg_of_nonpos hpos.le (by linarith)
      have : (0 : ℚ) < (10 : ℚ) ^ a.dp * (10 : ℚ) ^ (19 : Int) := by positivity
      linarith
  rw [← zpow_add₀ (by norm_num : (10 : ℚ) ≠ 0)] at h1
  have h2 : (10 : ℚ) ^ (a'.dp - 1) < (10 : ℚ) ^ (a.dp + 19) := lt_of_le_of_lt (le_trans lo hs.le) h1
  have := (zpow_lt_zpow_iff_right₀ (by norm_num : (1 : ℚ) < 10)).mp h2
  omega

end C03

namespace C03
open Num Spec.NumText F64

theorem pow60_le (k : Nat) (hk : k ≤ 60) : (2 : ℚ) ^ k ≤ (10 : ℚ) ^ (19 : Int) := by
  have : (2 : ℚ) ^ k ≤ (2 : ℚ) ^ 60 := pow_le_pow_right₀ (by norm_num) hk
  have : (2 : ℚ) ^ 60 ≤ (10 : ℚ) ^ (19 : Int) := by norm_num
  linarith

/-- one `leftShift` along the true value -/
theorem one_left (a : Dc) (k : Nat) (hk1 : 1 ≤ k) (hk : k ≤ 60) (hwf : WF a) (hne : a.d ≠ []) (V : ℚ) (K : Int)
    (h : Follows a V K) (hdp : a.dp ≤ 780) (hmag : 0 ≤ K ∨ 1 / (2 : ℚ) ^ 1064 ≤ dval a) :
    Follows (leftShift a k) (V * (2 : ℚ) ^ k) (K + k) ∧ StepRes a (leftShift a k) ((2 : ℚ) ^ k) := by
  have hs := leftShift_floor a k hk1 hk hwf hne
  refine ⟨?_, hs⟩
  have hd := step_dp a _ _ hwf hne hs (pow60_le k hk)
  apply follows_step a _ V K k _ (by rw [zpow_natCast]) h hs (by omega)
  rcases hmag with h0 | hx
  · exact Or.inl (by omega)
  · right
    have hl := step_lower a _ _ hs
    obtain ⟨_, _, hpos⟩ := dval_bounds a hwf hne
    have h2 : (2 : ℚ) ≤ (2 : ℚ) ^ k := by
      calc (2 : ℚ) = 2 ^ 1 := by norm_num
        _ ≤ 2 ^ k := pow_le_pow_right₀ (by norm_num) hk1
    have h3 : dval a ≤ dval a * (2 : ℚ) ^ k / 2 := by nlinarith
    have h4 : 1 / (2 : ℚ) ^ 1065 ≤ 1 / (2 : ℚ) ^ 1064 :=
      one_div_le_one_div_of_le (by positivity) (pow_le_pow_right₀ (by norm_num) (by decide))
    linarith

/-- one `rightShift` along the true value -/
theorem one_right (a : Dc) (k : Nat) (hk1 : 1 ≤ k) (hk : k ≤ 60) (hwf : WF a) (hne : a.d ≠ []) (V : ℚ) (K : Int)
    (h : Follows a V K) (hdp : a.dp ≤ 780) (hmag : 0 ≤ K - k ∨ 1 / (2 : ℚ) ^ 1064 ≤ dval a * (1 / (2 : ℚ) ^ k)) :
    Follows (rightShift a k) (V * (1 / (2 : ℚ) ^ k)) (K - k) ∧ StepRes a (rightShift a k) (1 / (2 : ℚ) ^ k) := by
  have hs := rightShift_floor a k hk1 hk hwf hne
  refine ⟨?_, hs⟩
  have hf1 : 1 / (2 : ℚ) ^ k ≤ (10 : ℚ) ^ (19 : Int) := by
    have : 1 / (2 : ℚ) ^ k ≤ 1 := by
      rw [div_le_one (by positivity)]; exact one_le_pow₀ (by norm_num)
    have : (1 : ℚ) ≤ (10 : ℚ) ^ (19 : Int) := by norm_num
    linarith
  have hd := step_dp a _ _ hwf hne hs hf1
  have hK : K - (k : Int) = K + (-(k : Int)) := by ring
  rw [hK]
  apply follows_step a _ V K (-(k : Int)) _ (two_zpow_nat k).symm h hs (by omega)
  rcases hmag with h0 | hx
  · exact Or.inl (by omega)
  · right
    have hl := step_lower a _ _ hs
    have h4 : 1 / (2 : ℚ) ^ 1065 = 1 / (2 : ℚ) ^ 1064 / 2 := by rw [pow_succ]; field_simp
    rw [h4]
    linarith

/-- what `Shift` by at most 120 bits gives along the true value -/
structure ShiftOut (a r : Dc) (V : ℚ) (K k : Int) : Prop where
  fol : Follows r (V * (2 : ℚ) ^ k) (K + k)
  wf : WF r
  ne : r.d ≠ []
  trimmed : Trimmed r
  neg : r.neg = a.neg
  lo : dval a * (2 : ℚ) ^ k / 4 ≤ dval r
  hi : dval r ≤ dval a * (2 : ℚ) ^ k
  tr : a.trunc = true → r.trunc = true
  lo1 : -60 ≤ k → k ≤ 60 → dval a * (2 : ℚ) ^ k / 2 ≤ dval r

theorem shiftOut_of (a r : Dc) (V : ℚ) (K k : Int) (f : ℚ) (hf : (2 : ℚ) ^ k = f)
    (c1 : Follows r (V * f) (K + k)) (c2 : WF r) (c3 : r.d ≠ []) (c4 : Trimmed r) (c5 : r.neg = a.neg)
    (c6 : dval a * f / 4 ≤ dval r) (c7 : dval r ≤ dval a * f) (c8 : a.trunc = true → r.trunc = true)
    (c9 : -60 ≤ k → k ≤ 60 → dval a * f / 2 ≤ dval r) :
    ShiftOut a r V K k := by
  subst hf
  exact ⟨c1, c2, c3, c4, c5, c6, c7, c8, c9⟩

theorem step_tr {a a' : Dc} {f : ℚ} (s : StepRes a a' f) (ht : a.trunc = true) : a'.trunc = true := by
  by_cases e : dval a' = dval a * f
  · rw [s.exact e]; exact ht
  · exact s.inexact e

/-- **`a.Shift(k)` along the true value**, |k| ≤ 120 (every call in `floatBits` on inputs in range) -/
theorem shift_follows (a : Dc) (k : Int) (hk : k ≠ 0) (hk1 : -120 ≤ k) (hk2 : k ≤ 120) (hwf : WF a) (hne : a.d ≠ [])
    (V : ℚ) (K : Int) (h : Follows a V K) (hdp : a.dp ≤ 700)
    (hmag : (0 ≤ K ∧ 0 ≤ K + k) ∨ (1 / (2 : ℚ) ^ 1062 ≤ dval a ∧ 1 / (2 : ℚ) ^ 1062 ≤ dval a * (2 : ℚ) ^ k)) :
    ShiftOut a (a.shift k) V K k := by
  have hemp : a.d.isEmpty = false := by
    cases h : a.d with
    | nil => exact absurd h hne
    | cons _ _ => rfl
  obtain ⟨_, _, hpos⟩ := dval_bounds a hwf hne
  have hm : maxShift = 60 := rfl
  have q62 : 1 / (2 : ℚ) ^ 1064 = 1 / (2 : ℚ) ^ 1062 / 4 := by
    rw [show (1064 : Nat) = 1062 + 2 from rfl, pow_add]; field_simp; norm_num
  unfold Dc.shift
  simp only [hemp, Bool.false_eq_true, if_false]
  by_cases hposk : k > 0
  · rw [if_pos hposk]
    obtain ⟨n, hn⟩ : ∃ n : Nat, k = (n : Int) := ⟨k.toNat, by omega⟩
    subst hn
    simp only [Int.toNat_natCast]
    have hxa : 0 ≤ K ∨ 1 / (2 : ℚ) ^ 1064 ≤ dval a := by
      rcases hmag with h0 | hx
      · exact Or.inl h0.1
      · right; rw [q62]; linarith [hx.1]
    show ShiftOut a (shiftLeftBy (98 + 2) a n) V K n
    by_cases hbig : n > maxShift
    · have e1 : shiftLeftBy (98 + 2) a n = leftShift (leftShift a maxShift) (n - maxShift) := by
        conv => lhs; unfold shiftLeftBy
        rw [if_pos hbig]
        unfold shiftLeftBy
        rw [if_neg (by omega)]
      rw [e1, hm]
      obtain ⟨f1, s1⟩ := one_left a 60 (by decide) (by decide) hwf hne V K h (by omega) hxa
      have hd1 := step_dp a _ _ hwf hne s1 (pow60_le 60 (by decide))
      have hl1 := step_lower a _ _ s1
      have hx1 : 0 ≤ K + (60 : Nat) ∨ 1 / (2 : ℚ) ^ 1064 ≤ dval (leftShift a 60) := by
        rcases hxa with h0 | hx
        · exact Or.inl (by omega)
        · right
          have : dval a ≤ dval a * (2 : ℚ) ^ 60 / 2 := by nlinarith
          linarith
      obtain ⟨f2, s2⟩ := one_left (leftShift a 60) (n - 60) (by omega) (by omega) s1.wf s1.ne _ _ f1 (by omega) hx1
      have hl2 := step_lower _ _ _ s2
      have epow : (2 : ℚ) ^ n = (2 : ℚ) ^ 60 * (2 : ℚ) ^ (n - 60) := by rw [← pow_add]; congr 1; omega
      have hp2 : (0 : ℚ) < (2 : ℚ) ^ (n - 60) := by positivity
      refine shiftOut_of a _ V K n ((2 : ℚ) ^ n) (zpow_natCast _ _) ?_ s2.wf s2.ne s2.trimmed (by rw [s2.neg, s1.neg]) ?_ ?_
        (fun ht => step_tr s2 (step_tr s1 ht)) (fun _ h60 => by exfalso; omega)
      · have e : V * (2 : ℚ) ^ 60 * (2 : ℚ) ^ (n - 60) = V * (2 : ℚ) ^ n := by rw [epow]; ring
        have eK : K + ((60 : Nat) : Int) + ((n - 60 : Nat) : Int) = K + (n : Int) := by omega
        rw [e, eK] at f2; exact f2
      · rw [epow]
        have := mul_le_mul_of_nonneg_right hl1 hp2.le
        linarith
      · rw [epow]
        have := mul_le_mul_of_nonneg_right s1.le hp2.le
        have := s2.le
        linarith
    · have e1 : shiftLeftBy (98 + 2) a n = leftShift a n := by
        conv => lhs; unfold shiftLeftBy
        rw [if_neg hbig]
      rw [e1]
      obtain ⟨f1, s1⟩ := one_left a n (by omega) (by omega) hwf hne V K h (by omega) hxa
      have hl1 := step_lower a _ _ s1
      have hpp : (0 : ℚ) ≤ dval a * (2 : ℚ) ^ n := by positivity
      exact shiftOut_of a _ V K n ((2 : ℚ) ^ n) (zpow_natCast _ _) f1 s1.wf s1.ne s1.trimmed s1.neg (by linarith) s1.le
        (fun ht => step_tr s1 ht) (fun _ _ => hl1)
  · have hneg : k < 0 := by omega
    rw [if_neg hposk, if_pos hneg]
    obtain ⟨n, hn⟩ : ∃ n : Nat, k = -(n : Int) := ⟨(-k).toNat, by omega⟩
    subst hn
    simp only [neg_neg, Int.toNat_natCast]
    show ShiftOut a (shiftRightBy (98 + 2) a n) V K (-(n : Int))
    have hfin : 0 ≤ K - (n : Int) ∨ 1 / (2 : ℚ) ^ 1064 ≤ dval a * (1 / (2 : ℚ) ^ n) / 4 := by
      rcases hmag with h0 | hx
      · exact Or.inl (by omega)
      · right
        have := hx.2
        rw [two_zpow_nat] at this
        rw [q62]; linarith
    have hKn : K + -(n : Int) = K - n := by ring
    have hpn : (0 : ℚ) < (2 : ℚ) ^ n := by positivity
    by_cases hbig : n > maxShift
    · have e1 : shiftRightBy (98 + 2) a n = rightShift (rightShift a maxShift) (n - maxShift) := by
        conv => lhs; unfold shiftRightBy
        rw [if_pos hbig]
        unfold shiftRightBy
        rw [if_neg (by omega)]
      rw [e1, hm]
      have epow : (2 : ℚ) ^ n = (2 : ℚ) ^ 60 * (2 : ℚ) ^ (n - 60) := by rw [← pow_add]; congr 1; omega
      have ediv : (1 : ℚ) / (2 : ℚ) ^ n = 1 / (2 : ℚ) ^ 60 * (1 / (2 : ℚ) ^ (n - 60)) := by
        rw [epow]; field_simp
      have hp2 : (0 : ℚ) < 1 / (2 : ℚ) ^ (n - 60) := by positivity
      have hle2 : 1 / (2 : ℚ) ^ (n - 60) ≤ 1 := by
        rw [div_le_one (by positivity)]; exact one_le_pow₀ (by norm_num)
      have hx0 : 0 ≤ K - (60 : Nat) ∨ 1 / (2 : ℚ) ^ 1064 ≤ dval a * (1 / (2 : ℚ) ^ 60) := by
        rcases hfin with h0 | hx
        · exact Or.inl (by omega)
        · right
          rw [ediv] at hx
          have hq : (0 : ℚ) ≤ dval a * (1 / (2 : ℚ) ^ 60) := by positivity
          have : dval a * (1 / (2 : ℚ) ^ 60 * (1 / (2 : ℚ) ^ (n - 60))) ≤ dval a * (1 / (2 : ℚ) ^ 60) := by
            rw [← mul_assoc]; exact mul_le_of_le_one_right hq hle2
          linarith
      obtain ⟨f1, s1⟩ := one_right a 60 (by decide) (by decide) hwf hne V K h (by omega) hx0
      have hf60 : 1 / (2 : ℚ) ^ 60 ≤ (10 : ℚ) ^ (19 : Int) := by norm_num
      have hd1 := step_dp a _ _ hwf hne s1 hf60
      have hl1 := step_lower a _ _ s1
      have hx1 : 0 ≤ K - (60 : Nat) - ((n - 60 : Nat) : Int) ∨
          1 / (2 : ℚ) ^ 1064 ≤ dval (rightShift a 60) * (1 / (2 : ℚ) ^ (n - 60)) := by
        rcases hfin with h0 | hx
        · exact Or.inl (by omega)
        · right
          rw [ediv] at hx
          have := mul_le_mul_of_nonneg_right hl1 hp2.le
          have e : dval a * (1 / (2 : ℚ) ^ 60 * (1 / (2 : ℚ) ^ (n - 60))) / 4
              = dval a * (1 / (2 : ℚ) ^ 60) / 2 * (1 / (2 : ℚ) ^ (n - 60)) / 2 := by ring
          have hq : (0 : ℚ) ≤ dval a * (1 / (2 : ℚ) ^ 60) / 2 * (1 / (2 : ℚ) ^ (n - 60)) := by positivity
          linarith
      obtain ⟨f2, s2⟩ := one_right (rightShift a 60) (n - 60) (by omega) (by omega) s1.wf s1.ne _ _ f1 (by omega) hx1
      have hl2 := step_lower _ _ _ s2
      refine shiftOut_of a _ V K (-(n : Int)) (1 / (2 : ℚ) ^ n) (two_zpow_nat n) ?_ s2.wf s2.ne s2.trimmed (by rw [s2.neg, s1.neg]) ?_ ?_
        (fun ht => step_tr s2 (step_tr s1 ht)) (fun h60 _ => by exfalso; omega)
      · have e : V * (1 / (2 : ℚ) ^ 60) * (1 / (2 : ℚ) ^ (n - 60)) = V * (1 / (2 : ℚ) ^ n) := by rw [ediv]; ring
        have eK : K - ((60 : Nat) : Int) - ((n - 60 : Nat) : Int) = K + -(n : Int) := by omega
        rw [e, eK] at f2; exact f2
      · rw [ediv]
        have := mul_le_mul_of_nonneg_right hl1 hp2.le
        have e : dval a * (1 / (2 : ℚ) ^ 60 * (1 / (2 : ℚ) ^ (n - 60))) / 4
            = dval a * (1 / (2 : ℚ) ^ 60) / 2 * (1 / (2 : ℚ) ^ (n - 60)) / 2 := by ring
        linarith
      · rw [ediv]
        have := mul_le_mul_of_nonneg_right s1.le hp2.le
        have := s2.le
        have e : dval a * (1 / (2 : ℚ) ^ 60 * (1 / (2 : ℚ) ^ (n - 60)))
            = dval a * (1 / (2 : ℚ) ^ 60) * (1 / (2 : ℚ) ^ (n - 60)) := by ring
        linarith
    · have e1 : shiftRightBy (98 + 2) a n = rightShift a n := by
        conv => lhs; unfold shiftRightBy
        rw [if_neg hbig]
      rw [e1]
      have hx0 : 0 ≤ K - (n : Int) ∨ 1 / (2 : ℚ) ^ 1064 ≤ dval a * (1 / (2 : ℚ) ^ n) := by
        rcases hfin with h0 | hx
        · exact Or.inl h0
        · right
          have hq : (0 : ℚ) ≤ dval a * (1 / (2 : ℚ) ^ n) := by positivity
          linarith
      obtain ⟨f1, s1⟩ := one_right a n (by omega) (by omega) hwf hne V K h (by omega) hx0
      have hl1 := step_lower a _ _ s1
      have hpp : (0 : ℚ) ≤ dval a * (1 / (2 : ℚ) ^ n) := by positivity
      refine shiftOut_of a _ V K (-(n : Int)) (1 / (2 : ℚ) ^ n) (two_zpow_nat n) ?_ s1.wf s1.ne s1.trimmed s1.neg (by linarith) s1.le
        (fun ht => step_tr s1 ht) (fun _ _ => hl1)
      rw [hKn]; exact f1

end C03

namespace C03
open Num Spec.NumText F64

/-- a decimal that is the floor of `V` on its own 800-digit grid follows `V` (frame 0): what
`decimal.set` produces when the text has more than 800 significant digits -/
theorem follows_of_floor (d : Dc) (hwf : WF d) (hne : d.d ≠ []) (V : ℚ) (hle : dval d ≤ V)
    (hlt : V < dval d + (10 : ℚ) ^ (d.dp - 800)) (hex : d.trunc = false → dval d = V)
    (hst : d.trunc = true → dval d < V) (hdp : d.dp ≤ 800) : Follows d V 0 := by
  refine ⟨hle, hex, hst, ?_⟩
  intro z hb hzV
  apply Classical.byContradiction
  intro hn
  have hlt2 : dval d < z := by linarith
  obtain ⟨j, hj⟩ := bnd_grid d hwf hne 0 z hb hlt2 hdp (Or.inl (le_refl _))
  obtain ⟨i, hi⟩ := dval_grid d hwf
  have hu : (0 : ℚ) < (10 : ℚ) ^ (d.dp - 800) := zpow_pos (by norm_num) _
  generalize (10 : ℚ) ^ (d.dp - 800) = u at *
  rw [hi] at hlt hlt2
  rw [hj] at hzV hlt2
  have h1 : (j : ℚ) * u < ((i : ℚ) + 1) * u := by linarith
  have h2 : (j : ℚ) < (i : ℚ) + 1 := lt_of_mul_lt_mul_right h1 hu.le
  have h4 : (i : ℚ) < (j : ℚ) := lt_of_mul_lt_mul_right hlt2 hu.le
  have h5 : j < i + 1 := by exact_mod_cast h2
  have h6 : i < j := by exact_mod_cast h4
  omega

/-- … and such a `V` is still below 10^dp -/
theorem floor_hi (d : Dc) (hwf : WF d) (hne : d.d ≠ []) (V : ℚ) (hlt : V < dval d + (10 : ℚ) ^ (d.dp - 800)) :
    V < (10 : ℚ) ^ d.dp := by
  obtain ⟨i, hi⟩ := dval_grid d hwf
  obtain ⟨_, hhi, _⟩ := dval_bounds d hwf hne
  have hu : (0 : ℚ) < (10 : ℚ) ^ (d.dp - 800) := zpow_pos (by norm_num) _
  have e : (10 : ℚ) ^ d.dp = (10 : ℚ) ^ (800 : ℕ) * (10 : ℚ) ^ (d.dp - 800) := by
    rw [← zpow_natCast, ← zpow_add₀ (by norm_num : (10 : ℚ) ≠ 0)]; congr 1; push_cast; ring
  rw [e] at hhi ⊢
  generalize (10 : ℚ) ^ (d.dp - 800) = u at *
  rw [hi] at hhi hlt
  have h1 : (i : ℚ) < (10 : ℚ) ^ (800 : ℕ) := lt_of_mul_lt_mul_right hhi hu.le
  have h2 : (i : ℚ) < ((10 ^ 800 : ℕ) : ℚ) := by push_cast; exact h1
  have h3 : i < ((10 ^ 800 : ℕ) : ℤ) := by exact_mod_cast h2
  have h4 : (i : ℚ) + 1 ≤ (10 : ℚ) ^ (800 : ℕ) := by
    have : i + 1 ≤ ((10 ^ 800 : ℕ) : ℤ) := by omega
    have : ((i + 1 : ℤ) : ℚ) ≤ (((10 ^ 800 : ℕ) : ℤ) : ℚ) := by exact_mod_cast this
    push_cast at this; exact this
  have h5 : ((i : ℚ) + 1) * u ≤ (10 : ℚ) ^ (800 : ℕ) * u := mul_le_mul_of_nonneg_right h4 hu.le
  linarith

end C03
