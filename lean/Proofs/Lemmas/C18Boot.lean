/-
Helper lemmas for C18 (bootstrap): percentile and median of a sorted list over ℚ.
-/
import Model.Series.Bootstrap
import Mathlib.Data.Rat.Floor
import Mathlib.Tactic.Linarith

namespace C18
open Series.Boot

/-! ### the rational instance, unfolded -/

@[simp] theorem rat_add (a b : Rat) : rat.add a b = a + b := rfl
@[simp] theorem rat_sub (a b : Rat) : rat.sub a b = a - b := rfl
@[simp] theorem rat_mul (a b : Rat) : rat.mul a b = a * b := rfl
@[simp] theorem rat_div (a b : Rat) : rat.div a b = a / b := rfl
@[simp] theorem rat_ofNat (n : Nat) : rat.ofNat n = (n : Rat) := rfl
@[simp] theorem rat_trunc (q : Rat) : rat.trunc q = q.floor.toNat := rfl
@[simp] theorem rat_lt (a b : Rat) : rat.lt a b = decide (a < b) := rfl
@[simp] theorem rat_eq (a b : Rat) : rat.eq a b = decide (a = b) := rfl
@[simp] theorem rat_isNaN (a : Rat) : rat.isNaN a = false := rfl
@[simp] theorem rat_nan : rat.nan = 0 := rfl

/-- element `j` of the list (0 beyond the end) -/
abbrev g (a : List Rat) (j : Nat) : Rat := a.getD j 0

/-- a sorted list, as a monotone index function -/
def Mono (a : List Rat) : Prop := ∀ i j, i ≤ j → j < a.length → g a i ≤ g a j

theorem mono_of_pairwise {a : List Rat} (h : a.Pairwise (· ≤ ·)) : Mono a := by
  intro i j hij hj
  rcases Nat.lt_or_eq_of_le hij with hlt | heq
  · have hi : i < a.length := by omega
    have := (List.pairwise_iff_getElem.mp h) i j hi hj hlt
    simpa [g, List.getD_eq_getElem?_getD, List.getElem?_eq_getElem hi, List.getElem?_eq_getElem hj] using this
  · subst heq; exact le_refl _

theorem floor_toNat_le {f : Rat} (hf : 0 ≤ f) : ((f.floor.toNat : Nat) : Rat) ≤ f := by
  have h0 : (0 : Int) ≤ f.floor := Rat.le_floor_iff.mpr (by simpa using hf)
  have h1 : ((f.floor : Int) : Rat) ≤ f := Rat.le_floor_iff.mp (le_refl _)
  have h2 : ((f.floor.toNat : Nat) : Int) = f.floor := Int.toNat_of_nonneg h0
  have h3 : ((f.floor.toNat : Nat) : Rat) = ((f.floor : Int) : Rat) :=
    calc ((f.floor.toNat : Nat) : Rat) = (((f.floor.toNat : Nat) : Int) : Rat) := (Int.cast_natCast _).symm
      _ = ((f.floor : Int) : Rat) := by rw [h2]
  rw [h3]; exact h1

theorem lt_floor_toNat_succ {f : Rat} (hf : 0 ≤ f) : f < ((f.floor.toNat : Nat) : Rat) + 1 := by
  have h0 : (0 : Int) ≤ f.floor := Rat.le_floor_iff.mpr (by simpa using hf)
  have h2 : ((f.floor.toNat : Nat) : Int) = f.floor := Int.toNat_of_nonneg h0
  have h3 : ((f.floor.toNat : Nat) : Rat) = ((f.floor : Int) : Rat) :=
    calc ((f.floor.toNat : Nat) : Rat) = (((f.floor.toNat : Nat) : Int) : Rat) := (Int.cast_natCast _).symm
      _ = ((f.floor : Int) : Rat) := by rw [h2]
  rw [h3]
  by_contra hc
  have hc' : ((f.floor + 1 : Int) : Rat) ≤ f := by push_cast; linarith
  have := Rat.le_floor_iff.mpr hc'
  omega

/-- the general branch of `percentile`: with i = ⌊n·p⌋ and x = n·p − i the result is `a[i]`, or
the interpolation between `a[i]` and `a[i+1]` when x > 0 and i+1 < n -/
theorem percentile_general {a : List Rat} {p : Rat} (hne : a ≠ []) (hp0 : p ≠ 0) (hp1 : p ≠ 1) :
    percentile rat a p =
      if 0 < (a.length : Rat) * p - ((((a.length : Rat) * p).floor.toNat : Nat) : Rat) ∧
          ((a.length : Rat) * p).floor.toNat + 1 < a.length then
        g a ((a.length : Rat) * p).floor.toNat *
            (1 - ((a.length : Rat) * p - ((((a.length : Rat) * p).floor.toNat : Nat) : Rat))) +
          g a (((a.length : Rat) * p).floor.toNat + 1) *
            ((a.length : Rat) * p - ((((a.length : Rat) * p).floor.toNat : Nat) : Rat))
      else g a ((a.length : Rat) * p).floor.toNat := by
  cases a with
  | nil => exact absurd rfl hne
  | cons a0 r =>
    simp only [percentile, rat_eq, rat_ofNat, Nat.cast_zero, Nat.cast_one, decide_eq_true_eq, hp0, hp1, if_false,
      rat_mul, rat_trunc, rat_sub, rat_lt, rat_nan, rat_add, Bool.and_eq_true, decide_eq_true_eq, g]
    simp

theorem percentile_zero {a : List Rat} (hne : a ≠ []) : percentile rat a 0 = g a 0 := by
  cases a with
  | nil => exact absurd rfl hne
  | cons a0 r => simp [percentile, g]

theorem percentile_one {a : List Rat} (hne : a ≠ []) : percentile rat a 1 = g a (a.length - 1) := by
  cases a with
  | nil => exact absurd rfl hne
  | cons a0 r => simp [percentile, g]

/-- bounds on `percentile` for 0 < p < 1 on a sorted list -/
theorem percentile_bounds {a : List Rat} {p : Rat} (hm : Mono a) (hne : a ≠ []) (hp0 : 0 < p) (hp1 : p < 1) :
    let f := (a.length : Rat) * p
    let i := f.floor.toNat
    i < a.length ∧ g a i ≤ percentile rat a p ∧
      (percentile rat a p = g a i ∨
        (i + 1 < a.length ∧ 0 < f - (i : Rat) ∧
          percentile rat a p = g a i * (1 - (f - (i : Rat))) + g a (i + 1) * (f - (i : Rat)))) := by
  intro f i
  have hn : 0 < a.length := List.length_pos_iff.mpr hne
  have hnq : (0 : Rat) < (a.length : Rat) := by exact_mod_cast hn
  have hf0 : 0 ≤ f := le_of_lt (mul_pos hnq hp0)
  have hfn : f < (a.length : Rat) := by
    have : (a.length : Rat) * p < (a.length : Rat) * 1 := mul_lt_mul_of_pos_left hp1 hnq
    simpa using this
  have hi1 : (i : Rat) ≤ f := floor_toNat_le hf0
  have hi2 : f < (i : Rat) + 1 := lt_floor_toNat_succ hf0
  have hilt : i < a.length := by
    have : (i : Rat) < (a.length : Rat) := lt_of_le_of_lt hi1 hfn
    exact_mod_cast this
  rw [percentile_general hne (ne_of_gt hp0) (ne_of_lt hp1)]
  refine ⟨hilt, ?_, ?_⟩
  · show g a i ≤ if 0 < f - (i : Rat) ∧ i + 1 < a.length then _ else _
    split
    · rename_i h
      have hle : g a i ≤ g a (i + 1) := hm i (i + 1) (Nat.le_succ _) h.2
      have hx1 : f - (i : Rat) < 1 := by linarith
      nlinarith [h.1]
    · exact le_refl _
  · show (if 0 < f - (i : Rat) ∧ i + 1 < a.length then _ else _) = g a i ∨ _
    split
    · rename_i h
      exact Or.inr ⟨h.2, h.1, rfl⟩
    · exact Or.inl rfl

/-- the median lies between the two middle positions -/
theorem median_bounds {a : List Rat} (hm : Mono a) (hne : a ≠ []) :
    g a ((a.length - 1) / 2) ≤ median rat a ∧ median rat a ≤ g a (a.length / 2) := by
  have hn : 0 < a.length := List.length_pos_iff.mpr hne
  unfold median
  by_cases hodd : a.length % 2 = 1
  · simp only [hodd, if_true, rat_nan]
    have : (a.length - 1) / 2 = a.length / 2 := by omega
    rw [this]
    exact ⟨le_refl _, le_refl _⟩
  · simp only [hodd, if_false, rat_nan, rat_div, rat_add, rat_ofNat]
    have h1 : (a.length - 1) / 2 = a.length / 2 - 1 := by omega
    have hle : g a (a.length / 2 - 1) ≤ g a (a.length / 2) := hm _ _ (Nat.sub_le _ _) (by omega)
    rw [h1]
    show g a (a.length / 2 - 1) ≤ (g a (a.length / 2) + g a (a.length / 2 - 1)) / ((2 : Nat) : Rat) ∧
      (g a (a.length / 2) + g a (a.length / 2 - 1)) / ((2 : Nat) : Rat) ≤ g a (a.length / 2)
    constructor
    · rw [le_div_iff₀ (by norm_num)]; push_cast; linarith
    · rw [div_le_iff₀ (by norm_num)]; push_cast; linarith

/-- for even length the median is the mean of the two middle elements -/
theorem median_even {a : List Rat} (he : a.length % 2 = 0) :
    median rat a = (g a (a.length / 2) + g a (a.length / 2 - 1)) / 2 := by
  unfold median
  have : ¬ a.length % 2 = 1 := by omega
  simp only [this, if_false, rat_nan, rat_div, rat_add, rat_ofNat]
  norm_num

end C18
