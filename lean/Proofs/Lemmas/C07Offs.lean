/-
C07 helper lemmas: the offsets stored in parse trees and fields (reported by the semantic
rejections of NewFilter / makeProjection) lie inside the text.
-/
import Proofs.Lemmas.C07Parse

namespace C07
open Proc.Tok Proc.ParseFilter

/-- an offset inside a text of `cx.n` bytes -/
def InR (cx : Ctx) (o : Int) : Prop := 0 ≤ o ∧ o ≤ (cx.n : Int)

theorem inR_offOf (cx : Ctx) {q : Bytes} (h : q.length ≤ cx.n) : InR cx (offOf cx q) := by
  simp only [InR, offOf]; omega

theorem tok_off_inR (cx : Ctx) (m : Bool) (q : Bytes) (e : ErrSt) (h : q.length ≤ cx.n) :
    InR cx (next cx m q e).tok.off := by
  have ht := next_ok cx m q e
  rw [ht.off]
  exact inR_offOf cx (by have := ht.cur_le; omega)

/-- every leaf offset of the tree is inside the text -/
inductive OffsIn (cx : Ctx) : Filter → Prop
  | nil : OffsIn cx .nil
  | lit (k v : Bytes) (off : Int) : InR cx off → OffsIn cx (.lit k v off)
  | re (k v : Bytes) (off : Int) : InR cx off → OffsIn cx (.re k v off)
  | op (o : Op) (es : List Filter) : (∀ x, x ∈ es → OffsIn cx x) → OffsIn cx (.op o es)

theorem offsIn_finish (cx : Ctx) (o : Op) (terms : List Filter) (h : ∀ x, x ∈ terms → OffsIn cx x) :
    OffsIn cx (finish o terms) := by
  unfold finish
  split
  · exact h _ (by simp)
  · exact OffsIn.op o terms h

theorem offsIn_mkMatch (cx : Ctx) (off : Int) (key : Bytes) (val : Tok) (h : InR cx off) :
    OffsIn cx (mkMatch off key val) := by
  unfold mkMatch
  split
  · exact OffsIn.re _ _ _ h
  · exact OffsIn.lit _ _ _ h

theorem offsIn_append {cx : Ctx} {terms : List Filter} {t : Filter} (h : ∀ x, x ∈ terms → OffsIn cx x)
    (ht : OffsIn cx t) : ∀ x, x ∈ terms ++ [t] → OffsIn cx x := by
  intro x hx
  rcases List.mem_append.mp hx with hx | hx
  · exact h x hx
  · simp at hx; rw [hx]; exact ht

theorem listLoop_offs (cx : Ctx) (off : Int) (key : Bytes) (hoff : InR cx off) :
    ∀ (f : Nat) (terms : List Filter) (q : Bytes) (e : ErrSt), (∀ x, x ∈ terms → OffsIn cx x) →
      OffsIn cx (listLoop cx off key f terms q e).f := by
  intro f
  induction f with
  | zero => intro terms q e _; simp only [listLoop, perr]; exact OffsIn.nil
  | succ f ih =>
    intro terms q e ht
    simp only [listLoop]
    split
    · simp only [perr]; exact OffsIn.nil
    · have ht' := offsIn_append ht (offsIn_mkMatch cx off key (next cx true q e).tok hoff)
      split
      · exact OffsIn.op _ _ ht'
      · split
        · exact ih _ _ _ ht'
        · simp only [perr]; exact OffsIn.nil

theorem parser_offs (cx : Ctx) : ∀ (f : Nat),
    (∀ q e, q.length ≤ cx.n → OffsIn cx (exprF cx f q e).f) ∧
    (∀ terms q e, q.length ≤ cx.n → (∀ x, x ∈ terms → OffsIn cx x) → OffsIn cx (exprLoop cx f terms q e).f) ∧
    (∀ q e, q.length ≤ cx.n → OffsIn cx (andExprF cx f q e).f) ∧
    (∀ terms q e, q.length ≤ cx.n → (∀ x, x ∈ terms → OffsIn cx x) → OffsIn cx (andLoop cx f terms q e).f) ∧
    (∀ q e, q.length ≤ cx.n → OffsIn cx (matchF cx f q e).f) := by
  intro f
  induction f with
  | zero =>
    refine ⟨?_, ?_, ?_, ?_, ?_⟩
    · intro q e _; simp only [exprF, perr]; exact OffsIn.nil
    · intro t q e _ _; simp only [exprLoop, perr]; exact OffsIn.nil
    · intro q e _; simp only [andExprF, perr]; exact OffsIn.nil
    · intro t q e _ _; simp only [andLoop, perr]; exact OffsIn.nil
    · intro q e _; simp only [matchF, perr]; exact OffsIn.nil
  | succ f ih =>
    obtain ⟨ihE, ihEL, ihA, ihAL, ihM⟩ := ih
    refine ⟨?_, ?_, ?_, ?_, ?_⟩
    · intro q e hq
      simp only [exprF]
      exact ihEL [] q e hq (by intro x hx; simp at hx)
    · intro terms q e hq ht
      simp only [exprLoop]
      have ha := (parser_ok cx f).2.2.1 q e
      have ho := next_ok cx false (andExprF cx f q e).rest (andExprF cx f q e).err
      have h1 := ha.rest_le; have h2 := ho.cur_le; have h3 := ho.rest_le
      have ht' := offsIn_append ht (ihA q e hq)
      split
      · exact ihEL _ _ _ (by omega) ht'
      · exact offsIn_finish cx _ _ ht'
    · intro q e hq
      simp only [andExprF]
      have hm := ((parser_ok cx f).2.2.2.2 q e).1.rest_le
      refine ihAL _ _ _ (by omega) ?_
      intro x hx; simp at hx; rw [hx]; exact ihM q e hq
    · intro terms q e hq ht
      simp only [andLoop]
      have ho := next_ok cx false q e
      have h2 := ho.cur_le; have h3 := ho.rest_le
      split
      · exact ihAL _ _ _ (by omega) ht
      · split
        · have hm := ((parser_ok cx f).2.2.2.2 (next cx false q e).cur (next cx false q e).err).1.rest_le
          exact ihAL _ _ _ (by omega) (offsIn_append ht (ihM _ _ (by omega)))
        · split
          · exact offsIn_finish cx _ _ ht
          · simp only [perr]; exact OffsIn.nil
    · intro q e hq
      simp only [matchF]
      have ht := next_ok cx false q e
      have h2 := ht.cur_le; have h3 := ht.rest_le
      have hoff := tok_off_inR cx false q e hq
      split
      · split
        · simp only [perr]; exact OffsIn.nil
        · exact ihE _ _ (by omega)
      · split
        · refine OffsIn.op _ _ ?_
          intro x hx; simp at hx; rw [hx]; exact ihM _ _ (by omega)
        · split
          · refine OffsIn.op _ _ ?_
            intro x hx; simp at hx
          · split
            · split
              · simp only [perr]; exact OffsIn.nil
              · split
                · exact offsIn_mkMatch cx _ _ _ hoff
                · split
                  · exact listLoop_offs cx _ _ hoff _ _ _ _ (by intro x hx; simp at hx)
                  · simp only [perr]; exact OffsIn.nil
            · simp only [perr]; exact OffsIn.nil

theorem checkList_some {es : List Filter} {err : Err} (h : checkFilter.checkList es = some err) :
    ∃ x, x ∈ es ∧ checkFilter x = some err := by
  induction es with
  | nil => simp [checkFilter.checkList] at h
  | cons g gs ih =>
    simp only [checkFilter.checkList] at h
    cases hg : checkFilter g with
    | some y =>
      rw [hg] at h; simp only at h
      exact ⟨g, by simp, by rw [hg, h]⟩
    | none =>
      rw [hg] at h; simp only at h
      obtain ⟨x, hx, hc⟩ := ih h
      exact ⟨x, by simp [hx], hc⟩

theorem checkKey_off {key : Bytes} {off : Int} {err : Err} (h : checkFilter.checkKey key off = some err) :
    err.off = off := by
  unfold checkFilter.checkKey at h
  split at h
  · simp at h
  · split at h
    · simp at h; rw [← h]
    · split at h
      · simp at h; rw [← h]
      · simp at h

/-- the offset of a semantic error of `NewFilter` is one of the tree's leaf offsets -/
theorem checkFilter_inR (cx : Ctx) {t : Filter} (ht : OffsIn cx t) {err : Err} (h : checkFilter t = some err) :
    InR cx err.off := by
  induction ht with
  | nil => simp [checkFilter] at h
  | lit k v off ho => simp only [checkFilter] at h; rw [checkKey_off h]; exact ho
  | re k v off ho => simp only [checkFilter] at h; rw [checkKey_off h]; exact ho
  | op o es _ ih =>
    simp only [checkFilter] at h
    obtain ⟨x, hx, hc⟩ := checkList_some h
    exact ih x hx hc

/-! ### projection fields -/

section proj
open Proc.ParseProj

/-- `KeyOff` is inside the text; so is `OrderOff` unless the order is the default `first`
(without `@`, `OrderOff = KeyOff + len(key)` may lie beyond the text when a quoted key holds
invalid UTF-8 — it is never reported, because `first` is never rejected) -/
def FieldOK (cx : Ctx) (f : Field) : Prop := InR cx f.keyOff ∧ (f.order = oFirst ∨ InR cx f.orderOff)

theorem inR_zero (cx : Ctx) : InR cx 0 := by simp [InR]

theorem fixedLoop_fields (cx : Ctx) : ∀ (n : Nat) (f : Field) (q : Bytes) (e : ErrSt),
    (fixedLoop cx n f q e).f.keyOff = f.keyOff ∧ (fixedLoop cx n f q e).f.orderOff = f.orderOff ∧
    (fixedLoop cx n f q e).f.order = f.order := by
  intro n
  induction n with
  | zero => intro f q e; simp [fixedLoop]
  | succ n ih =>
    intro f q e
    simp only [fixedLoop]
    split
    · have := ih { f with fixed := f.fixed ++ [(next cx false q e).tok.tok] } (next cx false q e).rest (next cx false q e).err
      simpa using this
    · split
      · split <;> simp
      · simp

theorem parseField_fieldOK (cx : Ctx) (q : Bytes) (e : ErrSt) (hq : q.length ≤ cx.n) :
    FieldOK cx (parseField cx q e).f := by
  have hk := next_ok cx false q e
  have h1 := hk.cur_le; have h2 := hk.rest_le
  have hkoff := tok_off_inR cx false q e hq
  simp only [parseField]
  split
  · exact ⟨inR_zero cx, Or.inr (inR_zero cx)⟩
  · have hs := next_ok cx false (next cx false q e).rest (next cx false q e).err
    have h3 := hs.cur_le; have h4 := hs.rest_le
    split
    · exact ⟨hkoff, Or.inl rfl⟩
    · have hooff := tok_off_inR cx false
        (next cx false (next cx false q e).rest (next cx false q e).err).rest
        (next cx false (next cx false q e).rest (next cx false q e).err).err (by omega)
      split
      · exact ⟨hkoff, Or.inr hooff⟩
      · split
        · have := fixedLoop_fields cx
            ((next cx false (next cx false (next cx false q e).rest (next cx false q e).err).rest
              (next cx false (next cx false q e).rest (next cx false q e).err).err).rest.length + 1)
            { key := (next cx false q e).tok.tok, order := oFixed, fixed := [], keyOff := (next cx false q e).tok.off,
              orderOff := (next cx false (next cx false (next cx false q e).rest (next cx false q e).err).rest
                (next cx false (next cx false q e).rest (next cx false q e).err).err).tok.off }
            (next cx false (next cx false (next cx false q e).rest (next cx false q e).err).rest
              (next cx false (next cx false q e).rest (next cx false q e).err).err).rest
            (next cx false (next cx false (next cx false q e).rest (next cx false q e).err).rest
              (next cx false (next cx false q e).rest (next cx false q e).err).err).err
          simp only [FieldOK]
          rw [this.1, this.2.1]
          exact ⟨hkoff, Or.inr hooff⟩
        · exact ⟨hkoff, Or.inr hooff⟩

theorem projLoop_fieldsOK (cx : Ctx) : ∀ (n : Nat) (fs : List Field) (q : Bytes) (e : ErrSt), q.length ≤ cx.n →
    (∀ f, f ∈ fs → FieldOK cx f) → ∀ f, f ∈ (projLoop cx n fs q e).1 → FieldOK cx f := by
  intro n
  induction n with
  | zero => intro fs q e _ h; simpa [projLoop] using h
  | succ n ih =>
    intro fs q e hq h
    simp only [projLoop]
    have ht := next_ok cx false q e
    have h1 := ht.cur_le; have h2 := ht.rest_le
    split
    · exact h
    · split
      · have hp := (parseField_ok cx (next cx false q e).rest (next cx false q e).err).1.rest_le
        refine ih _ _ _ (by omega) ?_
        intro f hf
        rcases List.mem_append.mp hf with hf | hf
        · exact h f hf
        · simp at hf; rw [hf]; exact parseField_fieldOK cx _ _ (by omega)
      · have hp := (parseField_ok cx (next cx false q e).cur (next cx false q e).err).1.rest_le
        refine ih _ _ _ (by omega) ?_
        intro f hf
        rcases List.mem_append.mp hf with hf | hf
        · exact h f hf
        · simp at hf; rw [hf]; exact parseField_fieldOK cx _ _ (by omega)

theorem checkField_inR (cx : Ctx) {f : Field} (hf : FieldOK cx f) {err : Err} (h : checkField f = some err) :
    InR cx err.off := by
  have d1 : (oFixed == oFirst) = false := by decide
  unfold checkField at h
  simp only at h
  split at h
  · -- literal name "fixed"
    rename_i hc
    simp only [Bool.and_eq_true, beq_iff_eq] at hc
    simp at h; rw [← h]
    rcases hf.2 with ho | ho
    · rw [hc.1] at ho; exact absurd ho (by decide)
    · exact ho
  · split at h
    · rename_i hok
      simp at h; rw [← h]
      rcases hf.2 with ho | ho
      · simp [ho] at hok
      · exact ho
    · split at h
      · split at h
        · rename_i hfx
          simp at h; rw [← h]
          rcases hf.2 with ho | ho
          · have : f.order = oFixed := by simpa using hfx
            rw [this] at ho; exact absurd ho (by decide)
          · exact ho
        · simp at h
      · split at h
        · simp at h
        · split at h
          · simp at h; rw [← h]; exact hf.1
          · split at h
            · simp at h; rw [← h]; exact hf.1
            · simp at h

theorem checkFields_some {fs : List Field} {err : Err} (h : checkFields fs = some err) :
    ∃ f, f ∈ fs ∧ checkField f = some err := by
  induction fs with
  | nil => simp [checkFields] at h
  | cons g gs ih =>
    simp only [checkFields] at h
    cases hg : checkField g with
    | some y =>
      rw [hg] at h; simp only at h
      exact ⟨g, by simp, by rw [hg, h]⟩
    | none =>
      rw [hg] at h; simp only at h
      obtain ⟨x, hx, hc⟩ := ih h
      exact ⟨x, by simp [hx], hc⟩

end proj

end C07
