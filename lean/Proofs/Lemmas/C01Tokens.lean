/-
C01 helper lemmas, part 4: single lines. From the well-formedness clauses of
`Spec/RoundTrip.lean` to what the reader makes of a `key: value` line, a `key:` line, a
benchmark line and a unit-metadata line (`CfgGood`, `BenchGood`, `UnitGood` of C01History).
-/
import Proofs.Lemmas.C01History

namespace C01
open Fmt Spec.RoundTrip

/-! ### `utf8.DecodeRune` never looks past an ASCII byte -/

theorem not_le_of_ascii (d lo : UInt8) (hd : d < 0x80) (hlo : 0x80 ≤ lo) : ¬ lo ≤ d := by
  rw [UInt8.lt_iff_toNat_lt] at hd
  rw [UInt8.le_iff_toNat_le] at hlo ⊢
  have : (0x80 : UInt8).toNat = 128 := rfl
  omega

theorem isCont_ascii (d : UInt8) (hd : d < 0x80) : isCont d = false := by
  unfold isCont
  have := not_le_of_ascii d 0x80 hd (by decide)
  simp [this]

theorem decodeRune_cut (d : UInt8) (hd : d < 0x80) (rest : Bytes) :
    ∀ xs : Bytes, xs ≠ [] → decodeRune (xs ++ d :: rest) = decodeRune xs := by
  intro xs hx
  have h1 := isCont_ascii d hd
  have h3 : ∀ p0 : UInt8, ¬ ((if p0 = 0xE0 then (0xA0 : UInt8) else 0x80) ≤ d) := by
    intro p0; split <;> exact not_le_of_ascii d _ hd (by decide)
  have h4 : ∀ p0 : UInt8, ¬ ((if p0 = 0xF0 then (0x90 : UInt8) else 0x80) ≤ d) := by
    intro p0; split <;> exact not_le_of_ascii d _ hd (by decide)
  rcases xs with _ | ⟨p0, _ | ⟨a, _ | ⟨b, _ | ⟨c, more⟩⟩⟩⟩
  · exact absurd rfl hx
  · rcases rest with _ | ⟨r1, _ | ⟨r2, rest'⟩⟩ <;>
      simp [decodeRune, h1, h3, h4]
  · rcases rest with _ | ⟨r1, rest'⟩ <;>
      simp [decodeRune, h1, h3, h4]
  · simp [decodeRune, h1, h3, h4]
  · simp [decodeRune]

/-- the same rune is decoded whatever follows the ASCII byte -/
theorem decodeRune_cut2 (d : UInt8) (hd : d < 0x80) (c : UInt8) (t r1 r2 : Bytes) :
    decodeRune (c :: (t ++ d :: r1)) = decodeRune (c :: (t ++ d :: r2)) := by
  have e1 := decodeRune_cut d hd r1 (c :: t) (by simp)
  have e2 := decodeRune_cut d hd r2 (c :: t) (by simp)
  simp only [List.cons_append] at e1 e2
  rw [e1, e2]

/-! ### keys -/

theorem consKey_found {c : UInt8} {s : KVScan} {k v : Bytes} (h : s.consKey c = .found (c :: k) v) :
    s = .found k v := by
  cases s <;> simp_all [KVScan.consKey]

theorem kvScan_key (uc : UC) (more : Bytes) :
    ∀ (key : Bytes) (s : Bool) (k : Nat), kvScan uc s k (key ++ [58]) = .found key [] →
      kvScan uc s k (key ++ 58 :: more) = .found key more := by
  intro key
  induction key with
  | nil =>
    intro s k h
    cases k with
    | succ k' => simp [kvScan, KVScan.consKey] at h
    | zero =>
      cases s <;> simp_all [kvScan, decodeRune, UC.lower, UC.space, UC.upper]
  | cons c key ih =>
    intro s k h
    cases k with
    | succ k' =>
      simp only [List.cons_append, kvScan] at h ⊢
      rw [ih s k' (consKey_found h)]; rfl
    | zero =>
      have hd := decodeRune_cut2 58 (by decide) c key [] more
      simp only [List.cons_append, kvScan] at h ⊢
      rw [← hd]
      split at h
      · exact absurd h (by simp)
      · split at h
        · exact absurd h (by simp)
        · split at h
          · simp at h
          · rename_i h1 h2 h3
            simp only [h1, h2, h3, ↓reduceIte]
            rw [ih false _ (consKey_found h)]; rfl

theorem keyOK_scan {uc : UC} {k : Bytes} (h : keyOK uc k = true) :
    kvScan uc true 0 (k ++ [58]) = .found k [] := by
  unfold keyOK at h
  simp only [Bool.and_eq_true, beq_iff_eq] at h
  exact h.2

theorem keyOK_noSpace {uc : UC} {k : Bytes} (h : keyOK uc k = true) : noAsciiSpace k = true := by
  unfold keyOK at h
  simp only [Bool.and_eq_true] at h
  exact h.1

/-- a key starts with a byte that is neither `B` nor `U` -/
theorem keyOK_head {uc : UC} {k : Bytes} (h : keyOK uc k = true) :
    ∃ c t, k = c :: t ∧ c ≠ 66 ∧ c ≠ 85 := by
  have hs := keyOK_scan h
  cases k with
  | nil => simp [kvScan, decodeRune, UC.lower] at hs
  | cons c t =>
    refine ⟨c, t, rfl, ?_, ?_⟩
    · intro hc; subst hc
      simp [kvScan, decodeRune, UC.lower] at hs
    · intro hc; subst hc
      simp [kvScan, decodeRune, UC.lower] at hs

theorem parse_kvLine {uc : UC} {k v : Bytes} (hk : keyOK uc k = true) (hv : valueOKnoCR v = true) :
    parseKeyValueLine uc (kvLine k v) = some (k, v) := by
  have hs := kvScan_key uc (32 :: v) k true 0 (keyOK_scan hk)
  obtain ⟨c, t, hkc, _, _⟩ := keyOK_head hk
  unfold parseKeyValueLine kvLine
  have e : k ++ [58, 32] ++ v = k ++ 58 :: 32 :: v := by simp
  rw [e, hs]
  unfold valueOKnoCR at hv
  simp only [Bool.and_eq_true, Bool.not_eq_true'] at hv
  subst hkc
  cases v with
  | nil => simp at hv
  | cons x xs =>
    have hx : isBlank x = false := by simpa using hv.2
    have h32 : isBlank 32 = true := by decide
    simp [List.dropWhile, hx, h32]

theorem parse_delLine {uc : UC} {k : Bytes} (hk : keyOK uc k = true) :
    parseKeyValueLine uc (delLine k) = some (k, []) := by
  obtain ⟨c, t, hkc, _, _⟩ := keyOK_head hk
  unfold parseKeyValueLine delLine
  rw [keyOK_scan hk]
  subst hkc
  simp

theorem hasPrefix_bench_false (c : UInt8) (t : Bytes) (hc : c ≠ 66) :
    Bytes.hasPrefix (c :: t) benchmarkPrefix = false := by
  have : (c == 66) = false := by simpa using hc
  simp [Bytes.hasPrefix, benchmarkPrefix, this]

theorem kvGood_of_ok (O : Oracles) {k v : Bytes} (hk : keyOK O.uc k = true)
    (hv : valueOKnoCR v = true) : KvGood O k v := by
  intro st
  obtain ⟨c, t, hkc, h66, h85⟩ := keyOK_head hk
  have hp := parse_kvLine hk hv
  have hline : kvLine k v = c :: (t ++ [58, 32] ++ v) := by subst hkc; simp [kvLine]
  have h85' : (c == 85) = false := by simpa using h85
  unfold scanLine
  rw [hp, hline, hasPrefix_bench_false c _ h66]
  simp [h85', next]

theorem delFile_of_ok (O : Oracles) {k : Bytes} (hk : keyOK O.uc k = true) : DelFile O k := by
  intro st
  obtain ⟨c, t, hkc, h66, h85⟩ := keyOK_head hk
  have hp := parse_delLine hk
  have hline : delLine k = c :: (t ++ [58]) := by subst hkc; simp [delLine]
  have h85' : (c == 85) = false := by simpa using h85
  unfold scanLine
  rw [hp, hline, hasPrefix_bench_false c _ h66]
  simp [h85', next]

theorem delOk_of_internal (O : Oracles) {k : Bytes} (hk : internalKeyOK O k = true) :
    DelFile O k ∨ DelInert O k := by
  unfold internalKeyOK at hk
  simp only [Bool.and_eq_true, Bool.or_eq_true, Bool.not_eq_true'] at hk
  rcases hk.2 with h | h
  · exact Or.inl (delFile_of_ok O h)
  · right
    intro st
    have h1 : isUnitLine O.uc (k ++ [58]) = none := by
      cases hh : isUnitLine O.uc (k ++ [58]) <;> simp_all
    have h2 : parseKeyValueLine O.uc (k ++ [58]) = none := by
      cases hh : parseKeyValueLine O.uc (k ++ [58]) <;> simp_all
    unfold scanLine delLine
    simp only [h.1.1, Bool.false_eq_true, ↓reduceIte, h1, h2, ite_self, next]

theorem cfgGood_of_ok (O : Oracles) {c : Cfg} (h : cfgOKnoCR O c = true) : CfgGood O c := by
  unfold cfgOKnoCR at h
  unfold CfgGood
  by_cases hf : c.file = true
  · simp only [hf, ↓reduceIte, Bool.and_eq_true] at h ⊢
    refine ⟨kvGood_of_ok O h.1 h.2, ?_, delFile_of_ok O h.1⟩
    intro hv
    have := h.2
    rw [hv] at this
    simp [valueOKnoCR] at this
  · have hf' : c.file = false := by simpa using hf
    simp only [hf', Bool.false_eq_true, ↓reduceIte] at h ⊢
    exact delOk_of_internal O h

/-! ### fields -/

theorem takeField_succ (uc : UC) (k : Nat) (c : UInt8) (rest : Bytes) :
    takeField uc (k + 1) (c :: rest) = (c :: (takeField uc k rest).1, (takeField uc k rest).2) := by
  simp only [takeField]

theorem takeField_ascii (uc : UC) (c : UInt8) (rest : Bytes) (hc : c < 0x80) :
    takeField uc 0 (c :: rest) =
      if asciiSpace c then ([], rest) else (c :: (takeField uc 0 rest).1, (takeField uc 0 rest).2) := by
  simp only [takeField, hc, ↓reduceIte]

theorem takeField_multi (uc : UC) (c : UInt8) (rest : Bytes) (hc : ¬ c < 0x80) :
    takeField uc 0 (c :: rest) =
      if uc.space (decodeRune (c :: rest)).1 then ([], rest.drop ((decodeRune (c :: rest)).2 - 1))
      else (c :: (takeField uc ((decodeRune (c :: rest)).2 - 1) rest).1,
            (takeField uc ((decodeRune (c :: rest)).2 - 1) rest).2) := by
  simp only [takeField, hc, ↓reduceIte]

theorem pair_eq {α β : Type} {p : α × β} {a : α} {b : β} (h1 : p.1 = a) (h2 : p.2 = b) : p = (a, b) := by
  cases p; simp_all

/-- a field followed by a blank is split off whole, whatever comes after the blank; and at the
end of the line likewise -/
theorem takeField_token (uc : UC) (rest : Bytes) :
    ∀ (t : Bytes) (k : Nat), takeField uc k (t ++ [32]) = (t, []) →
      takeField uc k (t ++ 32 :: rest) = (t, rest) ∧ takeField uc k t = (t, []) := by
  intro t
  induction t with
  | nil =>
    intro k h
    cases k with
    | zero => simp [takeField, asciiSpace, asciiSpaceMask]
    | succ k' => simp [takeField] at h
  | cons c t ih =>
    intro k h
    cases k with
    | succ k' =>
      simp only [List.cons_append, takeField_succ, Prod.mk.injEq, List.cons.injEq, true_and] at h ⊢
      obtain ⟨g1, g2⟩ := ih k' (pair_eq h.1 h.2)
      rw [g1, g2]; simp
    | zero =>
      by_cases hc : c < 0x80
      · simp only [List.cons_append, takeField_ascii uc c _ hc] at h ⊢
        by_cases hs : asciiSpace c = true
        · simp [hs] at h
        · simp only [hs, Bool.false_eq_true, ↓reduceIte, Prod.mk.injEq, List.cons.injEq, true_and] at h ⊢
          obtain ⟨g1, g2⟩ := ih 0 (pair_eq h.1 h.2)
          rw [g1, g2]; simp
      · have e1 := decodeRune_cut 32 (by decide) [] (c :: t) (by simp)
        have e2 := decodeRune_cut 32 (by decide) rest (c :: t) (by simp)
        simp only [List.cons_append] at e1 e2
        simp only [List.cons_append, takeField_multi uc c _ hc, e1, e2] at h ⊢
        by_cases hs : uc.space (decodeRune (c :: t)).1 = true
        · simp [hs] at h
        · simp only [hs, Bool.false_eq_true, ↓reduceIte, Prod.mk.injEq, List.cons.injEq, true_and] at h ⊢
          obtain ⟨g1, g2⟩ := ih _ (pair_eq h.1 h.2)
          rw [g1, g2]; simp

theorem tokenOK_split {uc : UC} {t : Bytes} (h : tokenOK uc t = true) :
    noAsciiSpace t = true ∧ takeField uc 0 (t ++ [32]) = (t, []) := by
  unfold tokenOK at h
  simpa using h

theorem skipSpaces_nil (uc : UC) (k : Nat) : skipSpaces uc k [] = [] := by
  cases k <;> rfl

theorem splitField_token (uc : UC) {t : Bytes} (h : tokenOK uc t = true) (rest : Bytes) :
    splitField uc (t ++ 32 :: rest) = (t, skipSpaces uc 0 rest) ∧ splitField uc t = (t, []) := by
  obtain ⟨g1, g2⟩ := takeField_token uc rest t 0 (tokenOK_split h).2
  unfold splitField
  rw [g1, g2]
  simp [skipSpaces_nil]

/-- nothing is stripped in front of a non-empty field -/
theorem skipSpaces_token (uc : UC) {t : Bytes} (h : tokenOK uc t = true) (hne : t ≠ []) (more : Bytes)
    (hm : more = [] ∨ ∃ r, more = 32 :: r) : skipSpaces uc 0 (t ++ more) = t ++ more := by
  obtain ⟨hns, htf⟩ := tokenOK_split h
  cases t with
  | nil => exact absurd rfl hne
  | cons c t =>
    by_cases hc : c < 0x80
    · have hsp : asciiSpace c = false := by
        simp only [noAsciiSpace, List.all_cons, Bool.and_eq_true, Bool.not_eq_true'] at hns
        exact hns.1
      simp [skipSpaces, hc, hsp]
    · have e1 := decodeRune_cut 32 (by decide) [] (c :: t) (by simp)
      simp only [List.cons_append] at e1
      have hsp : uc.space (decodeRune (c :: t)).1 = false := by
        simp only [List.cons_append, takeField_multi uc c _ hc, e1] at htf
        by_cases hs : uc.space (decodeRune (c :: t)).1 = true
        · simp [hs] at htf
        · simpa using hs
      have e2 : decodeRune (c :: (t ++ more)) = decodeRune (c :: t) := by
        rcases hm with hm | ⟨r, hm⟩
        · subst hm; simp
        · subst hm
          have := decodeRune_cut 32 (by decide) r (c :: t) (by simp)
          simpa using this
      simp only [List.cons_append, skipSpaces, hc, ↓reduceIte, e2, hsp, Bool.false_eq_true]

/-- fields separated by one blank each -/
def joinSp : List Bytes → Bytes
  | [] => []
  | [t] => t
  | t :: t2 :: ts => t ++ 32 :: joinSp (t2 :: ts)

theorem joinSp_cons (t : Bytes) (ts : List Bytes) :
    ∃ more, joinSp (t :: ts) = t ++ more ∧ (more = [] ∨ ∃ r, more = 32 :: r) := by
  cases ts with
  | nil => exact ⟨[], by simp [joinSp], Or.inl rfl⟩
  | cons t2 ts => exact ⟨32 :: joinSp (t2 :: ts), rfl, Or.inr ⟨_, rfl⟩⟩

theorem fieldsN_nil (uc : UC) (n : Nat) : fieldsN uc n [] = [] := by
  cases n <;> simp [fieldsN, splitField, takeField, skipSpaces]

theorem fieldsN_joinSp (uc : UC) :
    ∀ (ts : List Bytes) (fuel : Nat), (∀ t ∈ ts, t ≠ [] ∧ tokenOK uc t = true) → ts.length < fuel →
      fieldsN uc fuel (joinSp ts) = ts := by
  intro ts
  induction ts with
  | nil => intro fuel _ _; exact fieldsN_nil uc fuel
  | cons t ts ih =>
    intro fuel hok hlen
    cases fuel with
    | zero => simp at hlen
    | succ f =>
      obtain ⟨hne, htok⟩ := hok t List.mem_cons_self
      have hok' : ∀ t' ∈ ts, t' ≠ [] ∧ tokenOK uc t' = true := fun t' h => hok t' (List.mem_cons_of_mem _ h)
      have hne' : t.isEmpty = false := by cases t <;> simp_all
      cases ts with
      | nil =>
        simp only [joinSp, fieldsN, (splitField_token uc htok []).2, hne', Bool.false_eq_true, ↓reduceIte,
          fieldsN_nil]
      | cons t2 ts' =>
        obtain ⟨more, hj, hm⟩ := joinSp_cons t2 ts'
        have hskip : skipSpaces uc 0 (joinSp (t2 :: ts')) = joinSp (t2 :: ts') := by
          rw [hj]
          exact skipSpaces_token uc (hok' t2 List.mem_cons_self).2 (hok' t2 List.mem_cons_self).1 more hm
        simp only [joinSp, fieldsN, (splitField_token uc htok _).1, hne', Bool.false_eq_true, ↓reduceIte, hskip]
        rw [ih f hok' (by simp only [List.length_cons] at hlen ⊢; omega)]

theorem joinSp_length : ∀ (ts : List Bytes), (∀ t ∈ ts, t ≠ []) → ts.length ≤ (joinSp ts).length := by
  intro ts
  induction ts with
  | nil => intro _; simp [joinSp]
  | cons t ts ih =>
    intro h
    have hne := h t List.mem_cons_self
    have hpos : 0 < t.length := by cases t <;> simp_all
    cases ts with
    | nil => simp [joinSp]; omega
    | cons t2 ts' =>
      have := ih (fun t' h' => h t' (List.mem_cons_of_mem _ h'))
      simp only [joinSp, List.length_cons, List.length_append] at this ⊢
      omega

theorem fields_joinSp (uc : UC) (ts : List Bytes) (hok : ∀ t ∈ ts, t ≠ [] ∧ tokenOK uc t = true) :
    fields uc (joinSp ts) = ts := by
  unfold fields
  exact fieldsN_joinSp uc ts _ hok (by
    have := joinSp_length ts (fun t h => (hok t h).1)
    omega)


/-! ### `%d` prints one field -/

theorem asciiSpace_high (b : UInt8) (h : 33 ≤ b.toNat) : asciiSpace b = false := by
  unfold asciiSpace asciiSpaceMask
  have : 0x100003E00 >>> b.toNat = 0 := by
    rw [Nat.shiftRight_eq_div_pow]
    apply Nat.div_eq_of_lt
    calc 0x100003E00 < 2 ^ 33 := by decide
      _ ≤ 2 ^ b.toNat := Nat.pow_le_pow_right (by decide) h
  simp [this]

theorem tokenOK_ascii (uc : UC) : ∀ t : Bytes, (∀ c ∈ t, c < 0x80 ∧ asciiSpace c = false) →
    tokenOK uc t = true := by
  intro t h
  have h1 : noAsciiSpace t = true := by
    simp only [noAsciiSpace, List.all_eq_true, Bool.not_eq_true']
    exact fun c hc => (h c hc).2
  have h2 : takeField uc 0 (t ++ [32]) = (t, []) := by
    induction t with
    | nil => simp [takeField, asciiSpace, asciiSpaceMask]
    | cons c t ih =>
      obtain ⟨hc, hs⟩ := h c List.mem_cons_self
      have := ih (fun c' h' => h c' (List.mem_cons_of_mem _ h')) (by
        simp only [noAsciiSpace, List.all_eq_true, Bool.not_eq_true']
        exact fun c' hc' => (h c' (List.mem_cons_of_mem _ hc')).2)
      simp only [List.cons_append, takeField_ascii uc c _ hc, hs, Bool.false_eq_true, ↓reduceIte, this]
  simp [tokenOK, h1, h2]

theorem decimal_bytes (n : Nat) : decimalDigits n ≠ [] ∧ ∀ b ∈ decimalDigits n, 48 ≤ b.toNat ∧ b.toNat ≤ 57 := by
  unfold decimalDigits
  refine ⟨by simp [Nat.toDigits_ne_nil], ?_⟩
  intro b hb
  simp only [List.mem_map] at hb
  obtain ⟨ch, hch, e⟩ := hb
  have hd := Nat.isDigit_of_mem_toDigits (by decide) (by decide) hch
  simp only [Char.isDigit, Bool.and_eq_true, decide_eq_true_eq] at hd
  have h1 : 48 ≤ ch.toNat := by
    have := hd.1
    rw [ge_iff_le, UInt32.le_iff_toNat_le] at this
    exact this
  have h2 : ch.toNat ≤ 57 := by
    have := hd.2
    rw [UInt32.le_iff_toNat_le] at this
    exact this
  subst e
  have : (UInt8.ofNat ch.toNat).toNat = ch.toNat := by
    simp only [UInt8.toNat_ofNat']
    omega
  omega

theorem fmtInt_token (uc : UC) (n : Int) : fmtInt n ≠ [] ∧ tokenOK uc (fmtInt n) = true := by
  have key : ∀ m : Nat, ∀ c ∈ decimalDigits m, c < 0x80 ∧ asciiSpace c = false := by
    intro m c hc
    have := (decimal_bytes m).2 c hc
    refine ⟨?_, asciiSpace_high c (by omega)⟩
    rw [UInt8.lt_iff_toNat_lt]
    have : (0x80 : UInt8).toNat = 128 := rfl
    omega
  unfold fmtInt
  split
  · refine ⟨by simp, tokenOK_ascii uc _ ?_⟩
    intro c hc
    simp only [List.mem_cons] at hc
    rcases hc with hc | hc
    · subst hc; exact ⟨by decide, by decide⟩
    · exact key _ c hc
  · exact ⟨(decimal_bytes _).1, tokenOK_ascii uc _ (key _)⟩

/-! ### the benchmark line -/

/-- What the round trip needs from number printing and parsing for ONE value (the abstract pair
`fmtNum`/`atof`): printing then parsing gives the number back (NaNs are identified), and the
printed number is one non-empty field. -/
def NumGood (O : Oracles) (P : WParams) (x : UInt64) : Prop :=
  (∃ y, O.atof (P.fmtNum x) = .ok y ∧ normNum y = normNum x) ∧
    P.fmtNum x ≠ [] ∧ tokenOK O.uc (P.fmtNum x) = true

/-- the same for an iteration count (`%d`/`Atoi`) -/
def IntGood (O : Oracles) (n : Int) : Prop := O.atoi (fmtInt n) = .ok n

/-- … for the numbers of a result -/
def ResNumOK (O : Oracles) (P : WParams) (r : Res) : Prop :=
  IntGood O r.iters ∧ ∀ v ∈ r.values, NumGood O P v.written.1

/-- … for the numbers that occur in a history (decidable for executable `O`, `P`) -/
def NumOKFor (O : Oracles) (P : WParams) (h : List Rec) : Prop :=
  ∀ r, Rec.result r ∈ h → ResNumOK O P r

/-- … for all numbers -/
structure NumOK (O : Oracles) (P : WParams) : Prop where
  atoi : ∀ n, O.atoi (fmtInt n) = .ok n
  atof : ∀ x, ∃ y, O.atof (P.fmtNum x) = .ok y ∧ normNum y = normNum x
  numTok : ∀ x, P.fmtNum x ≠ [] ∧ tokenOK O.uc (P.fmtNum x) = true

theorem NumOK.for {O : Oracles} {P : WParams} (h : NumOK O P) (hist : List Rec) : NumOKFor O P hist :=
  fun r _ => ⟨h.atoi r.iters, fun v _ => ⟨h.atof _, h.numTok _⟩⟩

/-- the fields of the measurements -/
def valToks (P : WParams) (vs : List Val) : List Bytes :=
  vs.flatMap (fun v => [P.fmtNum v.written.1, v.written.2])

theorem benchLine_eq (P : WParams) (r : Res) :
    benchLine P r = benchmarkPrefix ++ (r.name ++ 32 :: joinSp (fmtInt r.iters :: valToks P r.values)) := by
  have key : ∀ (vs : List Val) (t : Bytes),
      t ++ vs.flatMap (fun v => 32 :: (P.fmtNum v.written.1 ++ 32 :: v.written.2)) =
        joinSp (t :: valToks P vs) := by
    intro vs
    induction vs with
    | nil => intro t; simp [valToks, joinSp]
    | cons v vs ih =>
      intro t
      have := ih v.written.2
      simp only [valToks] at this
      simp only [List.flatMap_cons, valToks, List.cons_append, List.nil_append, joinSp, List.append_assoc]
      rw [this]
  have hg : (fun v : Val => [32] ++ P.fmtNum v.written.1 ++ [32] ++ v.written.2) =
      (fun v => 32 :: (P.fmtNum v.written.1 ++ 32 :: v.written.2)) := by
    funext v; simp
  unfold benchLine
  rw [hg, ← key]
  simp

theorem written_eq (v : Val) : written v = (normNum v.written.1, v.written.2) := by
  unfold written Val.written
  split <;> rfl

theorem parseValues_tokens (O : Oracles) (P : WParams) :
    ∀ (vs : List Val) (acc : List Val), (∀ v ∈ vs, NumGood O P v.written.1) →
      (acc ≠ [] ∨ vs ≠ []) → (∀ v ∈ vs, v.written.2 ≠ []) →
      ∃ vals, parseValues O (valToks P vs) acc = .ok (acc.reverse ++ vals) ∧
        vals.map written = vs.map written := by
  intro vs
  induction vs with
  | nil =>
    intro acc _ hne _
    have : acc.isEmpty = false := by
      rcases hne with h | h
      · cases acc <;> simp_all
      · exact absurd rfl h
    exact ⟨[], by simp [valToks, parseValues, this], rfl⟩
  | cons v vs ih =>
    intro acc hnum _ hu
    obtain ⟨y, hy, hny⟩ := (hnum v List.mem_cons_self).1
    have hune := hu v List.mem_cons_self
    let v' : Val :=
      if (O.tidy y v.written.2).2 == v.written.2
        then { value := y, unit := v.written.2, origValue := 0, origUnit := [] }
        else { value := (O.tidy y v.written.2).1, unit := (O.tidy y v.written.2).2, origValue := y,
               origUnit := v.written.2 }
    obtain ⟨vals, hp, hv⟩ := ih (v' :: acc) (fun v'' h => hnum v'' (List.mem_cons_of_mem _ h))
      (Or.inl (by simp)) (fun v'' h => hu v'' (List.mem_cons_of_mem _ h))
    refine ⟨v' :: vals, ?_, ?_⟩
    · simp only [valToks, List.flatMap_cons, List.cons_append, List.nil_append, parseValues, hy]
      simp only [valToks] at hp
      rw [hp]
      simp
    · simp only [List.map_cons, hv, List.cons.injEq, and_true]
      rw [written_eq v, ← hny]
      have hue : v.written.2.isEmpty = false := by
        cases h : v.written.2 <;> simp_all
      simp only [v']
      split
      · simp [written]
      · simp [written, hue]

theorem benchGood_of_ok (O : Oracles) (P : WParams) (r : Res) (hnum : ResNumOK O P r)
    (hname : tokenOK O.uc r.name = true) (hvals : r.values ≠ [])
    (hunits : ∀ v ∈ r.values, v.written.2 ≠ [] ∧ tokenOK O.uc v.written.2 = true) : BenchGood O P r := by
  obtain ⟨vals, hp, hv⟩ := parseValues_tokens O P r.values [] hnum.2 (Or.inr hvals) (fun v h => (hunits v h).1)
  refine ⟨vals, ?_, hv⟩
  have htoks : ∀ t ∈ fmtInt r.iters :: valToks P r.values, t ≠ [] ∧ tokenOK O.uc t = true := by
    intro t ht
    simp only [List.mem_cons, valToks, List.mem_flatMap, List.not_mem_nil, or_false] at ht
    rcases ht with ht | ⟨v, hv', ht⟩
    · subst ht; exact fmtInt_token O.uc r.iters
    · rcases ht with ht | ht
      · subst ht; exact (hnum.2 v hv').2
      · subst ht; exact hunits v hv'
  obtain ⟨more, hj, hm⟩ := joinSp_cons (fmtInt r.iters) (valToks P r.values)
  have hskip : skipSpaces O.uc 0 (joinSp (fmtInt r.iters :: valToks P r.values)) =
      joinSp (fmtInt r.iters :: valToks P r.values) := by
    rw [hj]
    exact skipSpaces_token O.uc (fmtInt_token O.uc r.iters).2 (fmtInt_token O.uc r.iters).1 more hm
  have hne : (joinSp (fmtInt r.iters :: valToks P r.values)).isEmpty = false := by
    rw [hj]
    have := (fmtInt_token O.uc r.iters).1
    cases h : fmtInt r.iters <;> simp_all
  have hdrop : (benchLine P r).drop 9 = r.name ++ 32 :: joinSp (fmtInt r.iters :: valToks P r.values) := by
    rw [benchLine_eq]
    simp [benchmarkPrefix]
  have hat : O.atoi (fmtInt r.iters) = .ok r.iters := hnum.1
  unfold parseBenchmarkLine
  simp only [hdrop, (splitField_token O.uc hname _).1, hskip, hne, Bool.false_and, Bool.false_eq_true,
    ↓reduceIte, fields_joinSp O.uc _ htoks, hat, hp, List.reverse_nil, List.nil_append]

/-! ### the unit-metadata line -/

theorem span_loop_key (value : Bytes) : ∀ (key acc : Bytes), Bytes.hasByte key 61 = false →
    List.span.loop (fun c => !(c == 61)) (key ++ 61 :: value) acc = (acc.reverse ++ key, 61 :: value) := by
  intro key
  induction key with
  | nil => intro acc _; simp [List.span.loop]
  | cons c cs ih =>
    intro acc h
    simp only [Bytes.hasByte, List.any_cons, Bool.or_eq_false_iff] at h
    have hc : (c == 61) = false := h.1
    simp only [List.cons_append, List.span.loop, hc, Bool.not_false]
    rw [ih (c :: acc) (by simpa [Bytes.hasByte] using h.2)]
    simp

theorem span_key (key value : Bytes) (h : Bytes.hasByte key 61 = false) :
    (key ++ 61 :: value).span (fun c => !(c == 61)) = (key, 61 :: value) := by
  unfold List.span
  rw [span_loop_key value key [] h]
  simp

theorem tokenOK_unitPrefix (uc : UC) : tokenOK uc unitPrefix = true := by
  simp [tokenOK, noAsciiSpace, unitPrefix, takeField, asciiSpace, asciiSpaceMask]

theorem unitGood_of_ok (O : Oracles) (u : UnitMeta) (h : unitOK O u = true) : UnitGood O u := by
  unfold unitOK at h
  simp only [Bool.and_eq_true, Bool.not_eq_true', beq_iff_eq] at h
  obtain ⟨⟨⟨⟨⟨hone, hotok⟩, hkne⟩, hk61⟩, hkvtok⟩, htidy⟩ := h
  have hkv : u.key ++ [61] ++ u.value = u.key ++ 61 :: u.value := by simp
  rw [hkv] at hkvtok
  have hone' : u.origUnit ≠ [] := by cases hh : u.origUnit <;> simp_all
  intro st hfresh
  have hline : unitLine u = unitPrefix ++ 32 :: joinSp [u.origUnit, u.key ++ 61 :: u.value] := by
    simp [unitLine, joinSp]
  have htoks : ∀ t ∈ [u.origUnit, u.key ++ 61 :: u.value], t ≠ [] ∧ tokenOK O.uc t = true := by
    intro t ht
    simp only [List.mem_cons, List.not_mem_nil, or_false] at ht
    rcases ht with ht | ht
    · subst ht; exact ⟨hone', hotok⟩
    · subst ht; exact ⟨by simp, hkvtok⟩
  obtain ⟨more, hj, hm⟩ := joinSp_cons u.origUnit [u.key ++ 61 :: u.value]
  have hskip : skipSpaces O.uc 0 (joinSp [u.origUnit, u.key ++ 61 :: u.value]) =
      joinSp [u.origUnit, u.key ++ 61 :: u.value] := by
    rw [hj]; exact skipSpaces_token O.uc hotok hone' more hm
  have hunit : isUnitLine O.uc (unitLine u) = some (joinSp [u.origUnit, u.key ++ 61 :: u.value]) := by
    unfold isUnitLine
    rw [hline, (splitField_token O.uc (tokenOK_unitPrefix O.uc) _).1, hskip]
    simp
  have hpre : Bytes.hasPrefix (unitLine u) benchmarkPrefix = false := by
    simp [hline, unitPrefix, benchmarkPrefix, Bytes.hasPrefix]
  have hhead : ((unitLine u).head? == some 85) = true := by
    simp [hline, unitPrefix]
  have hspan := span_key u.key u.value hk61
  have hke : u.key.isEmpty = false := hkne
  have hf := fields_joinSp O.uc _ htoks
  unfold scanLine
  simp only [hpre, Bool.false_eq_true, ↓reduceIte, hhead, hunit, parseUnitLine, hf, ← htidy, unitFields,
    unitField, hspan, List.isEmpty_cons, hke, Bool.or_self, hfresh, List.drop_succ_cons,
    List.drop_zero, List.append_nil, next]

end C01
