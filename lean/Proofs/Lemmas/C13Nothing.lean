/-
C13 helper lemmas for AssumeNothing: the float64 position computed by moremath's
`Sample.Quantile(0.5)` (kernel-evaluated table for n = 1..70), the median as an exact value in
an ordered field, order statistics of a sorted list.
-/
import Mathlib.Algebra.Order.Field.Basic
import Mathlib.Tactic.Linarith
import Mathlib.Tactic.FieldSimp
import Mathlib.Tactic.NormNum
import Mathlib.Tactic.Ring
import Proofs.Lemmas.C13Exact
import Model.Math.Nothing

namespace C13
open Math

set_option exponentiation.threshold 2000

theorem getD_of_lt {α : Type} (xs : List α) (d : α) (i : Nat) (h : i < xs.length) : xs.getD i d = xs[i] := by
  simp [List.getD_eq_getElem?_getD, List.getElem?_eq_getElem h]

/-- exact value of a non-negative finite float64 in a field -/
def fracOf (K : Type) [Field K] (f : F64.Bits) : K :=
  ((F64.toRatParts f).2.1 : K) / ((F64.toRatParts f).2.2 : K)

/-- exact arithmetic: comparisons are those of the order and `a + frac·(b − a)` is computed
without rounding. (float64 is NOT an instance: there the interpolation rounds, and overflows
for |b − a| > MaxFloat64 — see notes/C13.md.) -/
class LawfulInterp (K : Type) [Field K] [LinearOrder K] [Val K] : Prop extends LawfulVal K where
  interp_eq : ∀ (a b : K) (f : F64.Bits), Val.interp a b f = a + fracOf K f * (b - a)

section
variable {K : Type} [Field K] [LinearOrder K] [IsStrictOrderedRing K]

omit [LinearOrder K] [IsStrictOrderedRing K] in
theorem fracOf_zero : fracOf K F64.posZero = 0 := by
  have h : F64.toRatParts F64.posZero = (false, 0, 2 ^ 1074) := by decide +kernel
  simp [fracOf, h]

theorem fracOf_half : fracOf K half = 1 / 2 := by
  have h : F64.toRatParts half = (false, 2 ^ 52, 2 ^ 53) := by decide +kernel
  simp only [fracOf, h]
  have : ((2 ^ 53 : Nat) : K) = 2 * ((2 ^ 52 : Nat) : K) := by push_cast; ring
  rw [this]
  have h52 : ((2 ^ 52 : Nat) : K) ≠ 0 := by
    have : (0 : K) < ((2 ^ 52 : Nat) : K) := by exact_mod_cast (by norm_num : (0 : Nat) < 2 ^ 52)
    exact ne_of_gt this
  field_simp
end

/-- the position `1/3.0 + 0.5*(N + 1/3.0)` evaluated in float64 and split by `math.Modf` is
exactly ((N+1)/2, 0) for odd N and (N/2, 0.5) for even N, for every N from 1 to 70
(kernel evaluation of the float64 model; no rounding error survives). -/
theorem median_index_table :
    (List.range 70).all (fun i =>
      Nothing.modf (Nothing.quantilePos (i + 1)) ==
        ((i + 2) / 2, if (i + 1) % 2 == 1 then F64.posZero else half)) = true := by
  decide +kernel

theorem median_index (n : Nat) (h1 : 1 ≤ n) (h70 : n ≤ 70) :
    Nothing.modf (Nothing.quantilePos n) = ((n + 1) / 2, if n % 2 = 1 then F64.posZero else half) := by
  have h := List.all_eq_true.mp median_index_table (n - 1) (List.mem_range.mpr (by omega))
  have e : n - 1 + 1 = n := by omega
  have e2 : n - 1 + 2 = n + 1 := by omega
  rw [e, e2] at h
  have := eq_of_beq h
  rw [this]
  by_cases hn : n % 2 = 1 <;> simp [hn]

section
variable {K : Type} [Field K] [LinearOrder K] [IsStrictOrderedRing K]

/-- the sample median: the middle value, or the midpoint of the two middle values -/
def medianSpec (xs : List K) : K :=
  if xs.length % 2 = 1 then xs.getD (xs.length / 2) 0
  else (xs.getD (xs.length / 2 - 1) 0 + xs.getD (xs.length / 2) 0) / 2

omit [IsStrictOrderedRing K] in
theorem sorted_getD_le (xs : List K) (h : xs.Pairwise (· ≤ ·)) (i j : Nat) (hij : i ≤ j) (hj : j < xs.length) :
    xs.getD i 0 ≤ xs.getD j 0 := by
  have hi : i < xs.length := by omega
  rw [getD_of_lt _ _ _ hi, getD_of_lt _ _ _ hj]
  rcases Nat.lt_or_eq_of_le hij with hlt | heq
  · exact (List.pairwise_iff_getElem.mp h) i j hi hj hlt
  · subst heq; exact le_refl _

theorem median_bounds (xs : List K) (h : xs.Pairwise (· ≤ ·)) (h1 : 1 ≤ xs.length) :
    xs.getD ((xs.length - 1) / 2) 0 ≤ medianSpec xs ∧ medianSpec xs ≤ xs.getD (xs.length / 2) 0 := by
  unfold medianSpec
  by_cases hodd : xs.length % 2 = 1
  · have e : (xs.length - 1) / 2 = xs.length / 2 := by omega
    simp [hodd, e]
  · have e : (xs.length - 1) / 2 = xs.length / 2 - 1 := by omega
    have hle := sorted_getD_le xs h (xs.length / 2 - 1) (xs.length / 2) (by omega) (by omega)
    simp only [hodd, if_false, e]
    constructor <;> linarith

variable [Val K] [LawfulInterp K]

theorem quantileHalf_eq (xs : List K) (h1 : 1 ≤ xs.length) (h70 : xs.length ≤ 70) :
    Nothing.quantileHalf xs = some (medianSpec xs) := by
  cases xs with
  | nil => simp at h1
  | cons x0 tl =>
    unfold Nothing.quantileHalf
    simp only [median_index _ h1 h70]
    have hk0 : ((x0 :: tl).length + 1) / 2 ≠ 0 := by simp
    simp only [beq_iff_eq, hk0, if_false]
    by_cases hone : ((x0 :: tl).length + 1) / 2 ≥ (x0 :: tl).length
    · have hl : tl.length = 0 := by simp at hone; omega
      have : tl = [] := List.eq_nil_of_length_eq_zero hl
      subst this
      simp [medianSpec]
    · simp only [hone, if_false]
      have hk : ((x0 :: tl).length + 1) / 2 < (x0 :: tl).length := by omega
      have hk' : ((x0 :: tl).length + 1) / 2 - 1 < (x0 :: tl).length := by omega
      rw [List.getElem?_eq_getElem hk, List.getElem?_eq_getElem hk']
      simp only [LawfulInterp.interp_eq]
      unfold medianSpec
      by_cases hodd : (x0 :: tl).length % 2 = 1
      · have e : ((x0 :: tl).length + 1) / 2 - 1 = (x0 :: tl).length / 2 := by omega
        simp only [hodd, if_true, fracOf_zero, zero_mul, add_zero]
        rw [getD_of_lt _ _ _ (by omega)]
        simp only [e]
      · have e1 : ((x0 :: tl).length + 1) / 2 = (x0 :: tl).length / 2 := by omega
        simp only [hodd, if_false, fracOf_half]
        rw [getD_of_lt _ _ _ (by omega : (x0 :: tl).length / 2 - 1 < _),
            getD_of_lt _ _ _ (by omega : (x0 :: tl).length / 2 < _)]
        simp only [e1]
        congr 1
        ring
end

/-- order on interval ends -/
def Ext.le {α : Type} [LE α] : Ext α → Ext α → Prop
  | .negInf, _ => True
  | .fin _, .posInf => True
  | .fin a, .fin b => a ≤ b
  | .posInf, .posInf => True
  | _, _ => False

end C13
