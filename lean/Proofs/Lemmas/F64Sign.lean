/-
Signs: `neg`, `abs`, the signed rational value `sval`, and the comparison functions `lt`/`le`/`eq`
as the order of `sval` on non-NaN patterns (±0 equal, ±Inf continued as ±2^1024).
-/
import Proofs.Lemmas.F64Exact

namespace F64

/-! ### `neg` and `abs` on the pattern -/

theorem signBit_eq_decide (b : Bits) : signBit b = decide (2 ^ 63 ≤ b.toNat) := by
  have h := signBit_false_iff b
  cases hs : signBit b
  · have := h.mp hs; simp; omega
  · have : ¬ b.toNat < 2 ^ 63 := fun h' => by rw [h.mpr h'] at hs; cases hs
    simp; omega

theorem signBit_true_iff (b : Bits) : signBit b = true ↔ 2 ^ 63 ≤ b.toNat := by
  rw [signBit_eq_decide]; simp

theorem neg_toNat (b : Bits) :
    (neg b).toNat = if b.toNat < 2 ^ 63 then b.toNat + 2 ^ 63 else b.toNat - 2 ^ 63 := by
  unfold neg
  rw [UInt64.toNat_xor]
  have hc : (0x8000000000000000 : UInt64).toNat = 2 ^ 63 := by decide
  rw [hc]
  have hlt := b.toNat_lt
  have h1 : (b.toNat ^^^ 2 ^ 63) % 2 ^ 63 = b.toNat % 2 ^ 63 := by
    rw [Nat.xor_mod_two_pow, Nat.mod_self, Nat.xor_zero]
  have h2 : (b.toNat ^^^ 2 ^ 63) / 2 ^ 63 = b.toNat / 2 ^ 63 ^^^ 1 := by
    rw [Nat.xor_div_two_pow, Nat.div_self (by decide)]
  have h3 := Nat.div_add_mod (b.toNat ^^^ 2 ^ 63) (2 ^ 63)
  rw [h1, h2] at h3
  split
  · rename_i h
    have : b.toNat / 2 ^ 63 = 0 := by omega
    rw [this, Nat.zero_xor] at h3; omega
  · rename_i h
    have : b.toNat / 2 ^ 63 = 1 := by omega
    rw [this, Nat.xor_self] at h3; omega

theorem abs_toNat (b : Bits) : (abs b).toNat = b.toNat % 2 ^ 63 := by
  unfold abs
  rw [UInt64.toNat_and]
  have : (0x7FFFFFFFFFFFFFFF : UInt64).toNat = 2 ^ 63 - 1 := by decide
  rw [this, Nat.and_two_pow_sub_one_eq_mod]

theorem expField_neg (b : Bits) : expField (neg b) = expField b := by
  have := b.toNat_lt
  rw [expField_eq, expField_eq, neg_toNat]; split <;> omega
theorem fracField_neg (b : Bits) : fracField (neg b) = fracField b := by
  have := b.toNat_lt
  rw [fracField_eq, fracField_eq, neg_toNat]; split <;> omega
theorem signBit_neg (b : Bits) : signBit (neg b) = !signBit b := by
  have := b.toNat_lt
  rw [signBit_eq_decide, signBit_eq_decide, neg_toNat]
  by_cases h : b.toNat < 2 ^ 63
  · have h1 : ¬ 2 ^ 63 ≤ b.toNat := by omega
    have h2 : 2 ^ 63 ≤ b.toNat + 2 ^ 63 := by omega
    rw [if_pos h, decide_eq_true h2, decide_eq_false h1]; rfl
  · have h1 : 2 ^ 63 ≤ b.toNat := by omega
    have h2 : ¬ 2 ^ 63 ≤ b.toNat - 2 ^ 63 := by omega
    rw [if_neg h, decide_eq_true h1, decide_eq_false h2]; rfl

theorem expField_abs (b : Bits) : expField (abs b) = expField b := by
  have := b.toNat_lt
  rw [expField_eq, expField_eq, abs_toNat]; omega
theorem fracField_abs (b : Bits) : fracField (abs b) = fracField b := by
  have := b.toNat_lt
  rw [fracField_eq, fracField_eq, abs_toNat]; omega
theorem signBit_abs (b : Bits) : signBit (abs b) = false := by
  rw [signBit_false_iff, abs_toNat]; exact Nat.mod_lt _ (by decide)

theorem magOf_neg (b : Bits) : magOf (neg b) = magOf b := by
  unfold magOf; rw [expField_neg, fracField_neg]
theorem magOf_abs (b : Bits) : magOf (abs b) = magOf b := by
  unfold magOf; rw [expField_abs, fracField_abs]
theorem abs_toNat_eq_magOf (b : Bits) : (abs b).toNat = magOf b := by
  have h := toNat_decomp_full (abs b)
  rw [signBit_abs, magOf_abs] at h
  simpa using h

theorem mant_neg (b : Bits) : mant (neg b) = mant b := by rw [mant_eq, mant_eq, expField_neg, fracField_neg]
theorem expo_neg (b : Bits) : expo (neg b) = expo b := by rw [expo_eq, expo_eq, expField_neg]
theorem mant_abs (b : Bits) : mant (abs b) = mant b := by rw [mant_eq, mant_eq, expField_abs, fracField_abs]
theorem expo_abs (b : Bits) : expo (abs b) = expo b := by rw [expo_eq, expo_eq, expField_abs]
theorem val_neg (b : Bits) : val (neg b) = val b := by unfold val; rw [mant_neg, expo_neg]
theorem val_abs (b : Bits) : val (abs b) = val b := by unfold val; rw [mant_abs, expo_abs]

/-- a pattern is determined by its sign bit and magnitude -/
theorem eq_of_sign_mag (a b : Bits) (hs : signBit a = signBit b) (hm : magOf a = magOf b) : a = b := by
  rw [← UInt64.toNat_inj, toNat_decomp_full a, toNat_decomp_full b, hs, hm]

theorem neg_neg (b : Bits) : neg (neg b) = b :=
  eq_of_sign_mag _ _ (by rw [signBit_neg, signBit_neg]; simp) (by rw [magOf_neg, magOf_neg])
theorem abs_neg (b : Bits) : abs (neg b) = abs b :=
  eq_of_sign_mag _ _ (by rw [signBit_abs, signBit_abs]) (by rw [magOf_abs, magOf_abs, magOf_neg])
theorem abs_abs (b : Bits) : abs (abs b) = abs b :=
  eq_of_sign_mag _ _ (by rw [signBit_abs, signBit_abs]) (by rw [magOf_abs])
theorem abs_of_signBit_false (b : Bits) (h : signBit b = false) : abs b = b :=
  eq_of_sign_mag _ _ (by rw [signBit_abs, h]) (magOf_abs b)
theorem neg_abs_of_signBit_true (b : Bits) (h : signBit b = true) : neg (abs b) = b :=
  eq_of_sign_mag _ _ (by rw [signBit_neg, signBit_abs, h]; rfl) (by rw [magOf_neg, magOf_abs])

/-! ### classification by the magnitude -/

theorem magOf_lt (b : Bits) : magOf b < 2 ^ 63 := by
  have := fracField_lt b; have := expField_lt b; unfold magOf; omega

theorem isZero_iff (b : Bits) : isZero b = true ↔ magOf b = 0 := by
  have := fracField_lt b
  unfold isZero magOf
  simp only [Bool.and_eq_true, beq_iff_eq]; omega
theorem isInf_iff (b : Bits) : isInf b = true ↔ magOf b = 0x7FF0000000000000 := by
  have := fracField_lt b
  unfold isInf magOf
  simp only [Bool.and_eq_true, beq_iff_eq]; omega
theorem isNaN_iff (b : Bits) : isNaN b = true ↔ 0x7FF0000000000000 < magOf b := by
  have := fracField_lt b; have := expField_lt b
  unfold isNaN magOf
  simp only [Bool.and_eq_true, beq_iff_eq, bne_iff_ne, ne_eq]; omega
theorem isFinite_iff (b : Bits) : isFinite b = true ↔ magOf b < 0x7FF0000000000000 := by
  have := fracField_lt b; have := expField_lt b
  unfold isFinite magOf
  simp only [bne_iff_ne, ne_eq]; omega
theorem isNaN_false_iff (b : Bits) : isNaN b = false ↔ magOf b ≤ 0x7FF0000000000000 := by
  rw [← Bool.not_eq_true, isNaN_iff]; omega
theorem isZero_false_iff (b : Bits) : isZero b = false ↔ 0 < magOf b := by
  rw [← Bool.not_eq_true, isZero_iff]; omega
theorem isInf_false_iff (b : Bits) : isInf b = false ↔ magOf b ≠ 0x7FF0000000000000 := by
  rw [← Bool.not_eq_true, isInf_iff]

theorem isNaN_neg (b : Bits) : isNaN (neg b) = isNaN b := by unfold isNaN; rw [expField_neg, fracField_neg]
theorem isInf_neg (b : Bits) : isInf (neg b) = isInf b := by unfold isInf; rw [expField_neg, fracField_neg]
theorem isZero_neg (b : Bits) : isZero (neg b) = isZero b := by unfold isZero; rw [expField_neg, fracField_neg]
theorem isFinite_neg (b : Bits) : isFinite (neg b) = isFinite b := by unfold isFinite; rw [expField_neg]
theorem isNaN_abs (b : Bits) : isNaN (abs b) = isNaN b := by unfold isNaN; rw [expField_abs, fracField_abs]
theorem isInf_abs (b : Bits) : isInf (abs b) = isInf b := by unfold isInf; rw [expField_abs, fracField_abs]
theorem isZero_abs (b : Bits) : isZero (abs b) = isZero b := by unfold isZero; rw [expField_abs, fracField_abs]
theorem isFinite_abs (b : Bits) : isFinite (abs b) = isFinite b := by unfold isFinite; rw [expField_abs]

/-- finite non-zero of either sign ⇒ the absolute value is `PosFin` -/
theorem posFin_abs (b : Bits) (hf : isFinite b = true) (hz : isZero b = false) : PosFin (abs b) := by
  unfold PosFin
  rw [abs_toNat_eq_magOf]
  exact ⟨(isZero_false_iff b).mp hz, (isFinite_iff b).mp hf⟩

theorem PosFin.isFinite {b : Bits} (h : PosFin b) : isFinite b = true := by
  rw [isFinite_iff, magOf_posFin h]; exact h.2

/-! ### the magnitude value is strictly monotone in the magnitude bits -/

theorem val_lt_of_magOf_lt (a b : Bits) (h : magOf a < magOf b) : val a < val b := by
  have a3 := fracField_lt a
  have b3 := fracField_lt b
  unfold magOf at h
  rcases Nat.lt_trichotomy (expField a) (expField b) with hlt | heq | hgt
  · have hbn : expField b ≠ 0 := by omega
    have lo := (val_bounds b).1 hbn
    have hi := (val_bounds a).2 a3
    have : (2 : ℚ) ^ (if expField a = 0 then (-1074 : Int) else (expField a : Int) - 1074)
        ≤ (2 : ℚ) ^ ((expField b : Int) - 1075) := by
      apply zpow_le_zpow_right₀ (by norm_num)
      split <;> omega
    have := mul_le_mul_of_nonneg_left this (two_zpow_pos 52).le
    linarith
  · have hf : fracField a < fracField b := by omega
    unfold val mant expo
    rw [heq]
    apply mul_lt_mul_of_pos_right _ (two_zpow_pos _)
    have : (fracField a : ℚ) < (fracField b : ℚ) := by exact_mod_cast hf
    split <;> push_cast <;> linarith
  · exfalso
    have := Nat.mul_le_mul_right (2 ^ 52) (Nat.succ_le_of_lt hgt)
    omega

theorem val_eq_of_magOf_eq (a b : Bits) (h : magOf a = magOf b) : val a = val b := by
  have a3 := fracField_lt a
  have b3 := fracField_lt b
  unfold magOf at h
  have h1 : expField a = expField b := by omega
  have h2 : fracField a = fracField b := by omega
  unfold val; rw [mant_eq, mant_eq, expo_eq, expo_eq, h1, h2]

theorem val_lt_iff (a b : Bits) : val a < val b ↔ magOf a < magOf b := by
  constructor
  · intro h
    by_contra hn
    rcases Nat.lt_or_eq_of_le (Nat.le_of_not_lt hn) with h' | h'
    · have := val_lt_of_magOf_lt b a h'; linarith
    · have := val_eq_of_magOf_eq b a h'; linarith
  · exact val_lt_of_magOf_lt a b

theorem val_le_iff (a b : Bits) : val a ≤ val b ↔ magOf a ≤ magOf b := by
  rw [← not_lt, val_lt_iff, Nat.not_lt]

theorem val_eq_iff (a b : Bits) : val a = val b ↔ magOf a = magOf b := by
  rw [le_antisymm_iff, val_le_iff, val_le_iff]; omega

theorem val_nonneg (b : Bits) : 0 ≤ val b :=
  mul_nonneg (by exact_mod_cast Nat.zero_le _) (two_zpow_pos _).le

theorem val_eq_zero_iff (b : Bits) : val b = 0 ↔ magOf b = 0 := by
  have h0 : val (0 : Bits) = 0 := by
    have : mant (0 : Bits) = 0 := by decide
    unfold val; rw [this]; simp
  have m0 : magOf (0 : Bits) = 0 := by decide
  rw [← h0, val_eq_iff, m0]

/-! ### the signed value and the comparison functions -/

/-- signed value: `(-1)^sign · mant · 2^expo` (±0 ↦ 0; ±Inf is continued as ±2^1024) -/
def sval (b : Bits) : ℚ := if signBit b then -val b else val b

theorem sval_neg (b : Bits) : sval (neg b) = -sval b := by
  unfold sval; rw [signBit_neg, val_neg]; cases signBit b <;> simp

theorem sval_abs (b : Bits) : sval (abs b) = |sval b| := by
  unfold sval; rw [signBit_abs, val_abs]
  have := val_nonneg b
  cases signBit b
  · simp only [Bool.false_eq_true, if_false]; rw [abs_of_nonneg this]
  · simp only [Bool.false_eq_true, if_false, if_true]; rw [_root_.abs_neg, abs_of_nonneg this]

theorem sval_of_posFin {b : Bits} (h : PosFin b) : sval b = val b := by
  unfold sval; rw [h.signBit]; simp

theorem sval_eq_zero_iff (b : Bits) : sval b = 0 ↔ isZero b = true := by
  rw [isZero_iff, ← val_eq_zero_iff]
  unfold sval; split <;> simp

/-- **lt_iff_sval** — on non-NaN patterns `F64.lt` is the strict order of the signed values. -/
theorem lt_iff_sval (a b : Bits) (ha : isNaN a = false) (hb : isNaN b = false) :
    lt a b = true ↔ sval a < sval b := by
  have va := val_nonneg a
  have vb := val_nonneg b
  have da := toNat_decomp_full a
  have db := toNat_decomp_full b
  have la := magOf_lt a
  have lb := magOf_lt b
  unfold lt
  simp only [ha, hb, Bool.or_self, Bool.false_eq_true, if_false]
  by_cases hz : (isZero a && isZero b) = true
  · simp only [hz, if_true]
    rw [Bool.and_eq_true] at hz
    have h1 := (sval_eq_zero_iff a).mpr hz.1
    have h2 := (sval_eq_zero_iff b).mpr hz.2
    rw [h1, h2]; simp
  · simp only [hz]
    have hz' : ¬ (val a = 0 ∧ val b = 0) := by
      rw [val_eq_zero_iff, val_eq_zero_iff, ← isZero_iff, ← isZero_iff]
      simpa using hz
    unfold sval
    cases hsa : signBit a <;> cases hsb : signBit b <;> simp only [hsa, hsb, if_true, if_false,
        Bool.false_eq_true] at da db ⊢
    · rw [val_lt_iff, decide_eq_true_eq, UInt64.lt_iff_toNat_lt]; omega
    · constructor
      · intro h; cases h
      · intro h; linarith
    · constructor
      · intro _
        rcases lt_or_eq_of_le va with h | h
        · linarith
        · rcases lt_or_eq_of_le vb with h' | h'
          · linarith
          · exact absurd ⟨h.symm, h'.symm⟩ hz'
      · intro _; trivial
    · rw [neg_lt_neg_iff, val_lt_iff, decide_eq_true_eq, UInt64.lt_iff_toNat_lt]; omega

/-- **eq_iff_sval** — `F64.eq` is equality of the signed values (so +0 = −0). -/
theorem eq_iff_sval (a b : Bits) (ha : isNaN a = false) (hb : isNaN b = false) :
    eq a b = true ↔ sval a = sval b := by
  have va := val_nonneg a
  have vb := val_nonneg b
  have da := toNat_decomp_full a
  have db := toNat_decomp_full b
  have la := magOf_lt a
  have lb := magOf_lt b
  unfold eq
  simp only [ha, hb, Bool.or_self, Bool.false_eq_true, if_false]
  by_cases hz : (isZero a && isZero b) = true
  · simp only [hz, if_true]
    rw [Bool.and_eq_true] at hz
    rw [(sval_eq_zero_iff a).mpr hz.1, (sval_eq_zero_iff b).mpr hz.2]; simp
  · simp only [hz, if_false, Bool.false_eq_true]
    have hz' : ¬ (val a = 0 ∧ val b = 0) := by
      rw [val_eq_zero_iff, val_eq_zero_iff, ← isZero_iff, ← isZero_iff]
      simpa using hz
    rw [beq_iff_eq, ← UInt64.toNat_inj]
    unfold sval
    cases hsa : signBit a <;> cases hsb : signBit b <;> simp only [hsa, hsb, if_true, if_false,
        Bool.false_eq_true] at da db ⊢
    · rw [val_eq_iff]; omega
    · constructor
      · intro h; omega
      · intro h; exfalso; apply hz'; constructor <;> linarith
    · constructor
      · intro h; omega
      · intro h; exfalso; apply hz'; constructor <;> linarith
    · rw [neg_inj, val_eq_iff]; omega

/-- **le_iff_sval** -/
theorem le_iff_sval (a b : Bits) (ha : isNaN a = false) (hb : isNaN b = false) :
    le a b = true ↔ sval a ≤ sval b := by
  unfold le
  rw [Bool.or_eq_true, lt_iff_sval a b ha hb, eq_iff_sval a b ha hb, le_iff_lt_or_eq]

/-! strict total order on non-NaN values (modulo `eq`, i.e. ±0 identified) -/

theorem lt_irrefl' (a : Bits) : lt a a = false := by
  by_cases ha : isNaN a = true
  · unfold lt; simp [ha]
  · have ha' : isNaN a = false := by simpa using ha
    rw [← Bool.not_eq_true, lt_iff_sval a a ha' ha']; exact lt_irrefl _

theorem lt_trans' (a b c : Bits) (ha : isNaN a = false) (hb : isNaN b = false) (hc : isNaN c = false)
    (h1 : lt a b = true) (h2 : lt b c = true) : lt a c = true := by
  rw [lt_iff_sval _ _ ha hb] at h1; rw [lt_iff_sval _ _ hb hc] at h2
  rw [lt_iff_sval _ _ ha hc]; exact _root_.lt_trans h1 h2

theorem lt_asymm' (a b : Bits) (h : lt a b = true) : lt b a = false := by
  by_cases ha : isNaN a = true
  · unfold lt at h; simp [ha] at h
  by_cases hb : isNaN b = true
  · unfold lt at h; simp [hb] at h
  have ha' : isNaN a = false := by simpa using ha
  have hb' : isNaN b = false := by simpa using hb
  rw [lt_iff_sval _ _ ha' hb'] at h
  rw [← Bool.not_eq_true, lt_iff_sval _ _ hb' ha']; exact not_lt.mpr h.le

theorem lt_trichotomy' (a b : Bits) (ha : isNaN a = false) (hb : isNaN b = false) :
    lt a b = true ∨ eq a b = true ∨ lt b a = true := by
  rw [lt_iff_sval _ _ ha hb, eq_iff_sval _ _ ha hb, lt_iff_sval _ _ hb ha]
  exact lt_trichotomy _ _

theorem eq_refl' (a : Bits) (ha : isNaN a = false) : eq a a = true := by
  rw [eq_iff_sval _ _ ha ha]

theorem eq_congr_lt (a a' b : Bits) (ha : isNaN a = false) (ha' : isNaN a' = false)
    (hb : isNaN b = false) (h : eq a a' = true) : lt a b = lt a' b := by
  rw [eq_iff_sval _ _ ha ha'] at h
  rw [Bool.eq_iff_iff, lt_iff_sval _ _ ha hb, lt_iff_sval _ _ ha' hb, h]

/-- `lt` against negation: a < b ↔ −b < −a -/
theorem lt_neg_neg (a b : Bits) : lt (neg b) (neg a) = lt a b := by
  by_cases ha : isNaN a = true
  · unfold lt; simp [ha, isNaN_neg]
  by_cases hb : isNaN b = true
  · unfold lt; simp [hb, isNaN_neg]
  have ha' : isNaN a = false := by simpa using ha
  have hb' : isNaN b = false := by simpa using hb
  rw [Bool.eq_iff_iff, lt_iff_sval _ _ (by rw [isNaN_neg]; exact hb') (by rw [isNaN_neg]; exact ha'),
    lt_iff_sval _ _ ha' hb', sval_neg, sval_neg, neg_lt_neg_iff]

/-- instances: −0 < +0 is false; −1.0 < 5e-324 -/
example : lt negZero posZero = false := by decide
example : eq negZero posZero = true := (eq_iff_sval _ _ (by decide) (by decide)).mpr (by
  rw [(sval_eq_zero_iff negZero).mpr (by decide), (sval_eq_zero_iff posZero).mpr (by decide)])

end F64
