/-
C07 helper lemmas: UTF-8 facts about the models of utf8.DecodeRune / utf8.AppendRune.
-/
import Proofs.Lemmas.C07Bare

namespace C07
open Proc.Tok

theorem ofNat_toNat' (b : UInt8) : UInt8.ofNat b.toNat = b := by simp

/-- two-byte sequences -/
theorem dec2 (b0 b1 : UInt8) (h0 : 0xC2 ≤ b0.toNat ∧ b0.toNat ≤ 0xDF) (h1 : 0x80 ≤ b1.toNat ∧ b1.toNat ≤ 0xBF) :
    encodeRune (b0.toNat % 32 * 64 + b1.toNat % 64) = [b0, b1] ∧
    validRune (b0.toNat % 32 * 64 + b1.toNat % 64) = true ∧ 0x80 ≤ b0.toNat % 32 * 64 + b1.toNat % 64 := by
  have hv1 : 0x80 ≤ b0.toNat % 32 * 64 + b1.toNat % 64 := by omega
  have hv2 : b0.toNat % 32 * 64 + b1.toNat % 64 < 0x800 := by omega
  refine ⟨?_, ?_, hv1⟩
  · have e1 : ¬ (b0.toNat % 32 * 64 + b1.toNat % 64 < 0x80) := by omega
    simp only [encodeRune, e1, hv2, if_true, if_false]
    have a0 : 0xC0 + (b0.toNat % 32 * 64 + b1.toNat % 64) / 64 = b0.toNat := by omega
    have a1 : 0x80 + (b0.toNat % 32 * 64 + b1.toNat % 64) % 64 = b1.toNat := by omega
    rw [a0, a1]; simp
  · simp [validRune]; omega

theorem dec3 (b0 b1 b2 : UInt8) (h0 : 0xE0 ≤ b0.toNat ∧ b0.toNat ≤ 0xEF)
    (h1 : 0x80 ≤ b1.toNat ∧ b1.toNat ≤ 0xBF) (hE0 : b0.toNat ≠ 0xE0 ∨ 0xA0 ≤ b1.toNat)
    (hED : b0.toNat ≠ 0xED ∨ b1.toNat ≤ 0x9F) (h2 : 0x80 ≤ b2.toNat ∧ b2.toNat ≤ 0xBF) :
    encodeRune (b0.toNat % 16 * 4096 + b1.toNat % 64 * 64 + b2.toNat % 64) = [b0, b1, b2] ∧
    validRune (b0.toNat % 16 * 4096 + b1.toNat % 64 * 64 + b2.toNat % 64) = true := by
  have hv1 : 0x800 ≤ b0.toNat % 16 * 4096 + b1.toNat % 64 * 64 + b2.toNat % 64 := by
    omega
  have hv2 : b0.toNat % 16 * 4096 + b1.toNat % 64 * 64 + b2.toNat % 64 < 0x10000 := by omega
  have hv3 : b0.toNat % 16 * 4096 + b1.toNat % 64 * 64 + b2.toNat % 64 < 0xD800 ∨
      0xDFFF < b0.toNat % 16 * 4096 + b1.toNat % 64 * 64 + b2.toNat % 64 := by
    omega
  have hvalid : validRune (b0.toNat % 16 * 4096 + b1.toNat % 64 * 64 + b2.toNat % 64) = true := by
    simp [validRune]; omega
  refine ⟨?_, hvalid⟩
  have e1 : ¬ (b0.toNat % 16 * 4096 + b1.toNat % 64 * 64 + b2.toNat % 64 < 0x80) := by omega
  have e2 : ¬ (b0.toNat % 16 * 4096 + b1.toNat % 64 * 64 + b2.toNat % 64 < 0x800) := by omega
  simp only [encodeRune, e1, e2, hvalid, hv2, if_true, if_false, Bool.not_true, Bool.false_eq_true]
  have a0 : 0xE0 + (b0.toNat % 16 * 4096 + b1.toNat % 64 * 64 + b2.toNat % 64) / 4096 = b0.toNat := by omega
  have a1 : 0x80 + (b0.toNat % 16 * 4096 + b1.toNat % 64 * 64 + b2.toNat % 64) / 64 % 64 = b1.toNat := by omega
  have a2 : 0x80 + (b0.toNat % 16 * 4096 + b1.toNat % 64 * 64 + b2.toNat % 64) % 64 = b2.toNat := by omega
  rw [a0, a1, a2]; simp

theorem dec4 (b0 b1 b2 b3 : UInt8) (h0 : 0xF0 ≤ b0.toNat ∧ b0.toNat ≤ 0xF4)
    (h1 : 0x80 ≤ b1.toNat ∧ b1.toNat ≤ 0xBF) (hF0 : b0.toNat ≠ 0xF0 ∨ 0x90 ≤ b1.toNat)
    (hF4 : b0.toNat ≠ 0xF4 ∨ b1.toNat ≤ 0x8F)
    (h2 : 0x80 ≤ b2.toNat ∧ b2.toNat ≤ 0xBF) (h3 : 0x80 ≤ b3.toNat ∧ b3.toNat ≤ 0xBF) :
    encodeRune (b0.toNat % 8 * 262144 + b1.toNat % 64 * 4096 + b2.toNat % 64 * 64 + b3.toNat % 64) = [b0, b1, b2, b3] ∧
    validRune (b0.toNat % 8 * 262144 + b1.toNat % 64 * 4096 + b2.toNat % 64 * 64 + b3.toNat % 64) = true := by
  have hv1 : 0x10000 ≤ b0.toNat % 8 * 262144 + b1.toNat % 64 * 4096 + b2.toNat % 64 * 64 + b3.toNat % 64 := by
    omega
  have hv2 : b0.toNat % 8 * 262144 + b1.toNat % 64 * 4096 + b2.toNat % 64 * 64 + b3.toNat % 64 ≤ 0x10FFFF := by
    omega
  have hvalid : validRune (b0.toNat % 8 * 262144 + b1.toNat % 64 * 4096 + b2.toNat % 64 * 64 + b3.toNat % 64) = true := by
    simp [validRune]; omega
  refine ⟨?_, hvalid⟩
  have e1 : ¬ (b0.toNat % 8 * 262144 + b1.toNat % 64 * 4096 + b2.toNat % 64 * 64 + b3.toNat % 64 < 0x80) := by omega
  have e2 : ¬ (b0.toNat % 8 * 262144 + b1.toNat % 64 * 4096 + b2.toNat % 64 * 64 + b3.toNat % 64 < 0x800) := by omega
  have e3 : ¬ (b0.toNat % 8 * 262144 + b1.toNat % 64 * 4096 + b2.toNat % 64 * 64 + b3.toNat % 64 < 0x10000) := by omega
  simp only [encodeRune, e1, e2, e3, hvalid, if_true, if_false, Bool.not_true, Bool.false_eq_true]
  have a0 : 0xF0 + (b0.toNat % 8 * 262144 + b1.toNat % 64 * 4096 + b2.toNat % 64 * 64 + b3.toNat % 64) / 262144 = b0.toNat := by omega
  have a1 : 0x80 + (b0.toNat % 8 * 262144 + b1.toNat % 64 * 4096 + b2.toNat % 64 * 64 + b3.toNat % 64) / 4096 % 64 = b1.toNat := by omega
  have a2 : 0x80 + (b0.toNat % 8 * 262144 + b1.toNat % 64 * 4096 + b2.toNat % 64 * 64 + b3.toNat % 64) / 64 % 64 = b2.toNat := by omega
  have a3 : 0x80 + (b0.toNat % 8 * 262144 + b1.toNat % 64 * 4096 + b2.toNat % 64 * 64 + b3.toNat % 64) % 64 = b3.toNat := by omega
  rw [a0, a1, a2, a3]; simp

/-! evaluation of `decodeRune` on well-formed sequences, whatever follows -/

theorem decodeRune_two (c b1 : UInt8) (t : Bytes) (h0 : 0xC2 ≤ c.toNat ∧ c.toNat ≤ 0xDF)
    (h1 : 0x80 ≤ b1.toNat ∧ b1.toNat ≤ 0xBF) :
    decodeRune (c :: b1 :: t) = (c.toNat % 32 * 64 + b1.toNat % 64, 2) := by
  have e0 : ¬ c < 0x80 := by simp [UInt8.lt_iff_toNat_lt]; omega
  have e2 : (decide (0xC2 ≤ c) && decide (c ≤ 0xDF)) = true := by simp [UInt8.le_iff_toNat_le]; omega
  have e1 : isCont b1 = true := by simp [isCont, UInt8.le_iff_toNat_le]; omega
  simp [decodeRune, e0, e2, e1]

theorem lo3_le {c b1 : UInt8} (h : c.toNat ≠ 0xE0 ∨ 0xA0 ≤ b1.toNat) (h' : 0x80 ≤ b1.toNat) : lo3 c ≤ b1 := by
  have hb : (lo3 c).toNat ≤ b1.toNat := by
    unfold lo3
    by_cases he : c = 0xE0
    · subst he
      have h2 : 0xA0 ≤ b1.toNat := by
        rcases h with h | h
        · exact absurd (by decide) h
        · exact h
      simp; exact h2
    · simp [he]; exact h'
  exact UInt8.le_iff_toNat_le.mpr hb

theorem le_hi3 {c b1 : UInt8} (h : c.toNat ≠ 0xED ∨ b1.toNat ≤ 0x9F) (h' : b1.toNat ≤ 0xBF) : b1 ≤ hi3 c := by
  have hb : b1.toNat ≤ (hi3 c).toNat := by
    unfold hi3
    by_cases he : c = 0xED
    · subst he
      have h2 : b1.toNat ≤ 0x9F := by
        rcases h with h | h
        · exact absurd (by decide) h
        · exact h
      simp; exact h2
    · simp [he]; exact h'
  exact UInt8.le_iff_toNat_le.mpr hb

theorem lo4_le {c b1 : UInt8} (h : c.toNat ≠ 0xF0 ∨ 0x90 ≤ b1.toNat) (h' : 0x80 ≤ b1.toNat) : lo4 c ≤ b1 := by
  have hb : (lo4 c).toNat ≤ b1.toNat := by
    unfold lo4
    by_cases he : c = 0xF0
    · subst he
      have h2 : 0x90 ≤ b1.toNat := by
        rcases h with h | h
        · exact absurd (by decide) h
        · exact h
      simp; exact h2
    · simp [he]; exact h'
  exact UInt8.le_iff_toNat_le.mpr hb

theorem le_hi4 {c b1 : UInt8} (h : c.toNat ≠ 0xF4 ∨ b1.toNat ≤ 0x8F) (h' : b1.toNat ≤ 0xBF) : b1 ≤ hi4 c := by
  have hb : b1.toNat ≤ (hi4 c).toNat := by
    unfold hi4
    by_cases he : c = 0xF4
    · subst he
      have h2 : b1.toNat ≤ 0x8F := by
        rcases h with h | h
        · exact absurd (by decide) h
        · exact h
      simp; exact h2
    · simp [he]; exact h'
  exact UInt8.le_iff_toNat_le.mpr hb

theorem decodeRune_three (c b1 b2 : UInt8) (t : Bytes) (h0 : 0xE0 ≤ c.toNat ∧ c.toNat ≤ 0xEF)
    (h1 : 0x80 ≤ b1.toNat ∧ b1.toNat ≤ 0xBF) (hE0 : c.toNat ≠ 0xE0 ∨ 0xA0 ≤ b1.toNat)
    (hED : c.toNat ≠ 0xED ∨ b1.toNat ≤ 0x9F) (h2 : 0x80 ≤ b2.toNat ∧ b2.toNat ≤ 0xBF) :
    decodeRune (c :: b1 :: b2 :: t) = (c.toNat % 16 * 4096 + b1.toNat % 64 * 64 + b2.toNat % 64, 3) := by
  have e0 : ¬ c < 0x80 := by simp [UInt8.lt_iff_toNat_lt]; omega
  have e2 : (decide (0xC2 ≤ c) && decide (c ≤ 0xDF)) = false := by simp [UInt8.le_iff_toNat_le]; intro; omega
  have e3 : (decide (0xE0 ≤ c) && decide (c ≤ 0xEF)) = true := by simp [UInt8.le_iff_toNat_le]; omega
  have e1 : isCont b2 = true := by simp [isCont, UInt8.le_iff_toNat_le]; omega
  have e4 := lo3_le hE0 h1.1
  have e5 := le_hi3 hED h1.2
  simp [decodeRune, e0, e2, e3, e1, e4, e5]

theorem decodeRune_four (c b1 b2 b3 : UInt8) (t : Bytes) (h0 : 0xF0 ≤ c.toNat ∧ c.toNat ≤ 0xF4)
    (h1 : 0x80 ≤ b1.toNat ∧ b1.toNat ≤ 0xBF) (hF0 : c.toNat ≠ 0xF0 ∨ 0x90 ≤ b1.toNat)
    (hF4 : c.toNat ≠ 0xF4 ∨ b1.toNat ≤ 0x8F) (h2 : 0x80 ≤ b2.toNat ∧ b2.toNat ≤ 0xBF)
    (h3 : 0x80 ≤ b3.toNat ∧ b3.toNat ≤ 0xBF) :
    decodeRune (c :: b1 :: b2 :: b3 :: t) =
      (c.toNat % 8 * 262144 + b1.toNat % 64 * 4096 + b2.toNat % 64 * 64 + b3.toNat % 64, 4) := by
  have e0 : ¬ c < 0x80 := by simp [UInt8.lt_iff_toNat_lt]; omega
  have e2 : (decide (0xC2 ≤ c) && decide (c ≤ 0xDF)) = false := by simp [UInt8.le_iff_toNat_le]; intro; omega
  have e3 : (decide (0xE0 ≤ c) && decide (c ≤ 0xEF)) = false := by simp [UInt8.le_iff_toNat_le]; intro; omega
  have e4 : (decide (0xF0 ≤ c) && decide (c ≤ 0xF4)) = true := by simp [UInt8.le_iff_toNat_le]; omega
  have e1 : isCont b2 = true := by simp [isCont, UInt8.le_iff_toNat_le]; omega
  have e1' : isCont b3 = true := by simp [isCont, UInt8.le_iff_toNat_le]; omega
  have e5 := lo4_le hF0 h1.1
  have e6 := le_hi4 hF4 h1.2
  simp [decodeRune, e0, e2, e3, e4, e1, e1', e5, e6]

/-- a decode is *good* unless it is the error result (RuneError, width 1) -/
def GoodDec (r w : Nat) : Prop := ¬ (w = 1 ∧ r = runeError)

/-- re-encoding a good decode gives back the original bytes; decoded runes are valid; the decode
only looked at those bytes; they are all ≥ 0x80 for a non-ASCII lead byte -/
theorem decode_facts (c : UInt8) (t : Bytes) (r w : Nat) (h : decodeRune (c :: t) = (r, w)) (hg : GoodDec r w) :
    encodeRune r = (c :: t).take w ∧ validRune r = true ∧
    (∀ tail, decodeRune ((c :: t).take w ++ tail) = (r, w)) ∧
    (¬ c < 0x80 → 0x80 ≤ r ∧ ∀ b ∈ (c :: t).take w, 0x80 ≤ b.toNat) ∧ ((c :: t).take w).length = w := by
  have hd := decode_dec c t
  rw [h] at hd
  simp only at hd
  cases hd with
  | ascii _ h1 =>
    have hc : c < 0x80 := by simp [UInt8.lt_iff_toNat_lt]; omega
    refine ⟨?_, ?_, ?_, ?_, ?_⟩
    · simp [encodeRune, h1]
    · simp [validRune]; omega
    · intro tail; simpa using decodeRune_lo c tail hc
    · intro h'; exact absurd hc h'
    · simp
  | bad _ _ => exact absurd ⟨rfl, rfl⟩ hg
  | two b1 t' h0 h1 =>
    have := dec2 c b1 h0 h1
    refine ⟨by simpa using this.1, this.2.1, ?_, ?_, by simp⟩
    · intro tail; simpa using decodeRune_two c b1 tail h0 h1
    · intro _; refine ⟨this.2.2, ?_⟩
      intro b hb; simp at hb; rcases hb with rfl | rfl <;> omega
  | three b1 b2 t' h0 h1 hE0 hED h2 =>
    have := dec3 c b1 b2 h0 h1 hE0 hED h2
    refine ⟨by simpa using this.1, this.2, ?_, ?_, by simp⟩
    · intro tail; simpa using decodeRune_three c b1 b2 tail h0 h1 hE0 hED h2
    · intro _; refine ⟨by omega, ?_⟩
      intro b hb; simp at hb; rcases hb with rfl | rfl | rfl <;> omega
  | four b1 b2 b3 t' h0 h1 hF0 hF4 h2 h3 =>
    have := dec4 c b1 b2 b3 h0 h1 hF0 hF4 h2 h3
    refine ⟨by simpa using this.1, this.2, ?_, ?_, by simp⟩
    · intro tail; simpa using decodeRune_four c b1 b2 b3 tail h0 h1 hF0 hF4 h2 h3
    · intro _; refine ⟨by omega, ?_⟩
      intro b hb; simp at hb; rcases hb with rfl | rfl | rfl | rfl <;> omega

end C07
