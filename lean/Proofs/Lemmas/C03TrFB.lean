/-
C03 — truncating runs of the decimal slow path, part 4: `floatBits` along the true value.
-/
import Proofs.Lemmas.C03Track
import Proofs.Lemmas.C03TrRound

namespace C03
open Num Spec.NumText F64

/-- `d` follows the input value `V0` once the binary exponent `e` has been split off -/
def Fol (V0 : ℚ) (d : Dc) (e : Int) : Prop := Follows d (V0 * (2 : ℚ) ^ (-e)) (-e)

theorem fol_shift (V0 : ℚ) (d : Dc) (e k : Int) (h : ShiftOut d (d.shift k) (V0 * (2 : ℚ) ^ (-e)) (-e) k) :
    Fol V0 (d.shift k) (e - k) := by
  have hf := h.fol
  unfold Fol
  have e1 : V0 * (2 : ℚ) ^ (-e) * (2 : ℚ) ^ k = V0 * (2 : ℚ) ^ (-(e - k)) := by
    rw [mul_assoc, ← zpow_add₀ (by norm_num : (2 : ℚ) ≠ 0)]; congr 2; ring
  have e2 : -e + k = -(e - k) := by ring
  rw [e1, e2] at hf; exact hf

theorem dp_le_of_dval_le (a b : Dc) (hwa : WF a) (hna : a.d ≠ []) (hwb : WF b) (hnb : b.d ≠ [])
    (h : dval b ≤ dval a) : b.dp ≤ a.dp := by
  obtain ⟨lo, _, _⟩ := dval_bounds b hwb hnb
  obtain ⟨_, hi, _⟩ := dval_bounds a hwa hna
  have h2 : (10 : ℚ) ^ (b.dp - 1) < (10 : ℚ) ^ a.dp := by linarith
  have := (zpow_lt_zpow_iff_right₀ (by norm_num : (1 : ℚ) < 10)).mp h2
  omega

/-- first loop along the true value -/
theorem fbDown_track (V0 : ℚ) : ∀ (fuel : Nat) (d : Dc) (e : Int) (B : Nat), WF d → d.d ≠ [] → Fol V0 d e →
    dval d < (2 : ℚ) ^ B → B ≤ fuel → d.dp ≤ 700 →
    Fol V0 (fbDown fuel d e).1 (fbDown fuel d e).2 ∧ WF (fbDown fuel d e).1 ∧
    (fbDown fuel d e).1.d ≠ [] ∧ (fbDown fuel d e).1.dp ≤ 0 ∧ (fbDown fuel d e).1.neg = d.neg ∧
    (fbDown fuel d e = (d, e) ∨ 1 / (2 : ℚ) ^ 29 ≤ dval (fbDown fuel d e).1) ∧
    (d.trunc = true → (fbDown fuel d e).1.trunc = true) ∧ e ≤ (fbDown fuel d e).2 := by
  intro fuel
  induction fuel with
  | zero =>
    intro d e B hwf hne hfol hB hBf _
    have : B = 0 := by omega
    subst this
    obtain ⟨lo, _, _⟩ := dval_bounds d hwf hne
    have hdp : d.dp ≤ 0 := by
      apply Classical.byContradiction; intro h
      have : (1 : ℚ) ≤ (10 : ℚ) ^ (d.dp - 1) := one_le_zpow₀ (by norm_num) (by omega)
      simp at hB; linarith
    exact ⟨hfol, hwf, hne, hdp, rfl, Or.inl rfl, fun h => h, le_refl _⟩
  | succ fuel ih =>
    intro d e B hwf hne hfol hB hBf hdp700
    obtain ⟨lo, hi, hpos⟩ := dval_bounds d hwf hne
    unfold fbDown
    by_cases hdp : d.dp > 0
    · rw [if_pos hdp]
      have hn : (if d.dp ≥ 9 then 27 else powtab.getD d.dp.toNat 27) = pstep d.dp := rfl
      simp only [hn]
      obtain ⟨n1, n27, _, _⟩ := pstep_facts d.dp (by omega)
      generalize pstep d.dp = n at *
      have hge1 : (1 : ℚ) ≤ dval d := by
        have : (1 : ℚ) ≤ (10 : ℚ) ^ (d.dp - 1) := one_le_zpow₀ (by norm_num) (by omega)
        linarith
      have h2n : (2 : ℚ) ^ (-(n : Int)) = 1 / (2 : ℚ) ^ n := two_zpow_nat n
      have hpn : (0 : ℚ) < (2 : ℚ) ^ n := by positivity
      have hn2 : (2 : ℚ) ≤ (2 : ℚ) ^ n := by
        calc (2 : ℚ) = 2 ^ 1 := by norm_num
          _ ≤ 2 ^ n := pow_le_pow_right₀ (by norm_num) n1
      have hn27 : (2 : ℚ) ^ n ≤ (2 : ℚ) ^ 27 := pow_le_pow_right₀ (by norm_num) n27
      have hq27 : 1 / (2 : ℚ) ^ 27 ≤ dval d * (2 : ℚ) ^ (-(n : Int)) := by
        rw [h2n, mul_one_div, div_le_div_iff₀ (by positivity) hpn]
        nlinarith
      have h1062 : 1 / (2 : ℚ) ^ 1062 ≤ 1 / (2 : ℚ) ^ 27 :=
        one_div_le_one_div_of_le (by positivity) (pow_le_pow_right₀ (by norm_num) (by decide))
      have h1062' : 1 / (2 : ℚ) ^ 1062 ≤ 1 := by
        rw [div_le_one (by positivity)]; exact one_le_pow₀ (by norm_num)
      have hso := shift_follows d (-(n : Int)) (by omega) (by omega) (by omega) hwf hne _ _ hfol hdp700
        (Or.inr ⟨by linarith, by linarith⟩)
      have hfol1 := fol_shift V0 d e _ hso
      have he1 : e - -(n : Int) = e + n := by ring
      rw [he1] at hfol1
      have hB1 : 1 ≤ B := by
        rcases Nat.eq_zero_or_pos B with h | h
        · subst h; simp at hB; linarith
        · exact h
      have hx1le : dval (d.shift (-(n : Int))) ≤ dval d / 2 := by
        have := hso.hi
        rw [h2n, mul_one_div] at this
        have : dval d / (2 : ℚ) ^ n ≤ dval d / 2 := div_le_div_of_nonneg_left hpos.le (by norm_num) hn2
        linarith
      have hlt1 : dval (d.shift (-(n : Int))) < (2 : ℚ) ^ (B - 1) := by
        have : (2 : ℚ) ^ B = (2 : ℚ) ^ (B - 1) * 2 := by
          rw [← pow_succ]; congr 1; omega
        linarith
      have hdp1 : (d.shift (-(n : Int))).dp ≤ 700 := by
        have := dp_le_of_dval_le d _ hwf hne hso.wf hso.ne (by linarith)
        omega
      obtain ⟨a1, a2, a3, a4, a5, a6, a7, a8⟩ := ih (d.shift (-(n : Int))) (e + n) (B - 1) hso.wf hso.ne hfol1 hlt1 (by omega) hdp1
      refine ⟨a1, a2, a3, a4, by rw [a5, hso.neg], Or.inr ?_, fun h => a7 (hso.tr h), by omega⟩
      have hlo29 : 1 / (2 : ℚ) ^ 29 ≤ dval (d.shift (-(n : Int))) := by
        have := hso.lo
        have e29 : 1 / (2 : ℚ) ^ 29 = 1 / (2 : ℚ) ^ 27 / 4 := by norm_num
        rw [e29]; linarith
      rcases a6 with h | h
      · rw [h]; exact hlo29
      · exact h
    · rw [if_neg hdp]
      exact ⟨hfol, hwf, hne, (by show d.dp ≤ 0; omega), rfl, Or.inl rfl, fun h => h, le_refl _⟩

theorem bnd_pow2 (K q : Int) (h : K - 1140 ≤ q) : Bnd K ((2 : ℚ) ^ q) :=
  ⟨1, q, by simp, Or.inr ⟨rfl, h⟩⟩

/-- second loop along the true value: the decimal ends in [1/2, 1), the true value below 1 -/
theorem fbUp_track (V0 : ℚ) (hV0 : 1 / (2 : ℚ) ^ 1100 ≤ V0) : ∀ (fuel : Nat) (d : Dc) (e : Int) (B : Nat), WF d → d.d ≠ [] →
    Fol V0 d e → d.dp ≤ 0 → 1 / (2 : ℚ) ^ B ≤ V0 * (2 : ℚ) ^ (-e) → B ≤ fuel → -e ≤ 1130 →
    (0 ≤ -e ∨ 1 / (2 : ℚ) ^ 40 ≤ dval d) →
    Fol V0 (fbUp fuel d e).1 (fbUp fuel d e).2 ∧ WF (fbUp fuel d e).1 ∧
    (fbUp fuel d e).1.d ≠ [] ∧ (fbUp fuel d e).1.neg = d.neg ∧
    1 / 2 ≤ dval (fbUp fuel d e).1 ∧ dval (fbUp fuel d e).1 < 1 ∧ -(fbUp fuel d e).2 ≤ 1130 ∧
    (d.trunc = true → (fbUp fuel d e).1.trunc = true) := by
  intro fuel
  induction fuel with
  | zero =>
    intro d e B hwf hne hfol hdp hB hBf hK _
    exfalso
    have : B = 0 := by omega
    subst this
    obtain ⟨_, hi, _⟩ := dval_bounds d hwf hne
    have h10 : (10 : ℚ) ^ d.dp ≤ 1 := zpow_le_one_of_nonpos₀ (by norm_num) hdp
    have hV1 : V0 * (2 : ℚ) ^ (-e) < 1 := by
      have hb : Bnd (-e) ((2 : ℚ) ^ (0 : Int)) := bnd_pow2 _ _ (by omega)
      have := hfol.lt_of_lt _ hb (by simp; linarith)
      simpa using this
    have e0 : (1 : ℚ) / (2 : ℚ) ^ 0 = 1 := by norm_num
    rw [e0] at hB; linarith
  | succ fuel ih =>
    intro d e B hwf hne hfol hdp hB hBf hK hmag
    obtain ⟨lo, hi, hpos⟩ := dval_bounds d hwf hne
    have hlt1 : dval d < 1 := by
      have : (10 : ℚ) ^ d.dp ≤ 1 := zpow_le_one_of_nonpos₀ (by norm_num) hdp
      linarith
    unfold fbUp
    by_cases hc : (d.dp < 0 || (d.dp == 0 && d.d.headD 0 < 53)) = true
    · rw [if_pos hc]
      have hn : (if -d.dp ≥ 9 then 27 else powtab.getD (-d.dp).toNat 27) = pstep (-d.dp) := rfl
      simp only [hn]
      obtain ⟨n1, n27, np, n0⟩ := pstep_facts (-d.dp) (by omega)
      have hsmall : dval d * (2 : ℚ) ^ pstep (-d.dp) < 1 ∧ dval d < 1 / 2 := by
        by_cases hneg : d.dp < 0
        · have h2 := np (by omega)
          have h10 : dval d < 1 / (10 : ℚ) ^ (-d.dp).toNat := by
            have : (10 : ℚ) ^ d.dp = 1 / (10 : ℚ) ^ (-d.dp).toNat := by
              have : d.dp = -((-d.dp).toNat : Int) := by omega
              conv => lhs; rw [this]
              rw [zpow_neg, zpow_natCast, one_div]
            linarith
          have hq : ((2 ^ pstep (-d.dp) : Nat) : ℚ) ≤ ((10 ^ (-d.dp).toNat : Nat) : ℚ) := by exact_mod_cast h2
          push_cast at hq
          have hp10 : (0 : ℚ) < (10 : ℚ) ^ (-d.dp).toNat := by positivity
          constructor
          · calc dval d * (2 : ℚ) ^ pstep (-d.dp) < 1 / (10 : ℚ) ^ (-d.dp).toNat * (2 : ℚ) ^ pstep (-d.dp) :=
                mul_lt_mul_of_pos_right h10 (by positivity)
              _ ≤ 1 / (10 : ℚ) ^ (-d.dp).toNat * (10 : ℚ) ^ (-d.dp).toNat := mul_le_mul_of_nonneg_left hq (by positivity)
              _ = 1 := by field_simp
          · have : (10 : ℚ) ^ (1 : Nat) ≤ (10 : ℚ) ^ (-d.dp).toNat := pow_le_pow_right₀ (by norm_num) (by omega)
            have : 1 / (10 : ℚ) ^ (-d.dp).toNat ≤ 1 / 10 := by
              rw [div_le_div_iff₀ hp10 (by norm_num)]; linarith
            linarith
        · have hdp0 : d.dp = 0 := by omega
          have hh : d.d.headD 0 < 53 := by
            simp only [Bool.or_eq_true, decide_eq_true_eq, Bool.and_eq_true, beq_iff_eq] at hc
            rcases hc with h | h
            · exact absurd h hneg
            · exact h.2
          have := (half_by_head d hwf hne hdp0).1 hh
          have hn1 : pstep (-d.dp) = 1 := n0 (by omega)
          rw [hn1]
          constructor <;> linarith
      generalize pstep (-d.dp) = n at *
      have hpn : (0 : ℚ) < (2 : ℚ) ^ n := by positivity
      have hn2 : (2 : ℚ) ≤ (2 : ℚ) ^ n := by
        calc (2 : ℚ) = 2 ^ 1 := by norm_num
          _ ≤ 2 ^ n := pow_le_pow_right₀ (by norm_num) n1
      -- the true value is below one half as well
      have hVhalf : V0 * (2 : ℚ) ^ (-e) < 1 / 2 := by
        have hb : Bnd (-e) ((2 : ℚ) ^ (-1 : Int)) := bnd_pow2 _ _ (by omega)
        have e12 : (2 : ℚ) ^ (-1 : Int) = 1 / 2 := by norm_num
        rw [e12] at hb
        exact hfol.lt_of_lt _ hb hsmall.2
      -- hence the total shift so far is below 1099
      have hK2 : -e ≤ 1098 := by
        apply Classical.byContradiction; intro hbig
        have h1 : (2 : ℚ) ^ ((1099 : ℕ) : ℤ) ≤ (2 : ℚ) ^ (-e) := zpow_le_zpow_right₀ (by norm_num) (by push_cast; omega)
        rw [zpow_natCast] at h1
        have hV0pos : (0 : ℚ) < V0 := lt_of_lt_of_le (by positivity) hV0
        have h2 : 1 / (2 : ℚ) ^ 1100 * (2 : ℚ) ^ 1099 ≤ V0 * (2 : ℚ) ^ (-e) :=
          mul_le_mul hV0 h1 (by positivity) hV0pos.le
        have h3 : 1 / (2 : ℚ) ^ 1100 * (2 : ℚ) ^ 1099 = 1 / 2 := by
          rw [show (1100 : Nat) = 1099 + 1 from rfl, pow_succ]; field_simp
        linarith
      have hxn : dval d ≤ dval d * (2 : ℚ) ^ (n : Int) := by
        rw [zpow_natCast]; nlinarith
      have hso := shift_follows d (n : Int) (by omega) (by omega) (by omega) hwf hne _ _ hfol (by omega)
        (by
          rcases hmag with h0 | hx
          · exact Or.inl ⟨h0, by omega⟩
          · right
            have h1062 : 1 / (2 : ℚ) ^ 1062 ≤ 1 / (2 : ℚ) ^ 40 :=
              one_div_le_one_div_of_le (by positivity) (pow_le_pow_right₀ (by norm_num) (by decide))
            exact ⟨by linarith, by linarith⟩)
      have hfol1 := fol_shift V0 d e _ hso
      have hhi := hso.hi
      have hlo1 := hso.lo1 (by omega) (by omega)
      rw [zpow_natCast] at hhi hlo1 hxn
      have hdp1 : (d.shift (n : Int)).dp ≤ 0 := by
        apply Classical.byContradiction; intro h
        obtain ⟨lo1, _, _⟩ := dval_bounds _ hso.wf hso.ne
        have : (1 : ℚ) ≤ (10 : ℚ) ^ ((d.shift (n : Int)).dp - 1) := one_le_zpow₀ (by norm_num) (by omega)
        linarith [hsmall.1]
      have hB2 : 1 ≤ B := by
        rcases Nat.eq_zero_or_pos B with h | h
        · subst h
          have e0 : (1 : ℚ) / (2 : ℚ) ^ 0 = 1 := by norm_num
          rw [e0] at hB; linarith
        · exact h
      have hB1 : 1 / (2 : ℚ) ^ (B - 1) ≤ V0 * (2 : ℚ) ^ (-(e - n)) := by
        have e1 : V0 * (2 : ℚ) ^ (-(e - n)) = V0 * (2 : ℚ) ^ (-e) * (2 : ℚ) ^ n := by
          rw [mul_assoc, ← zpow_natCast, ← zpow_add₀ (by norm_num : (2 : ℚ) ≠ 0)]; congr 2; ring
        rw [e1]
        have : (2 : ℚ) ^ B = (2 : ℚ) ^ (B - 1) * 2 := by rw [← pow_succ]; congr 1; omega
        have hp : (0 : ℚ) < (2 : ℚ) ^ (B - 1) := by positivity
        have hVpos : (0 : ℚ) < V0 * (2 : ℚ) ^ (-e) := lt_of_lt_of_le (by positivity) hB
        rw [div_le_iff₀ hp]
        rw [this, div_le_iff₀ (by positivity)] at hB
        nlinarith
      have hmag1 : 0 ≤ -(e - n) ∨ 1 / (2 : ℚ) ^ 40 ≤ dval (d.shift (n : Int)) := by
        rcases hmag with h0 | hx
        · exact Or.inl (by omega)
        · right
          have : dval d ≤ dval d * (2 : ℚ) ^ n / 2 := by nlinarith
          linarith
      obtain ⟨a1, a2, a3, a4, a5, a6, a7, a8⟩ := ih (d.shift (n : Int)) (e - n) (B - 1) hso.wf hso.ne hfol1 hdp1 hB1 (by omega) (by omega) hmag1
      exact ⟨a1, a2, a3, by rw [a4, hso.neg], a5, a6, a7, fun h => a8 (hso.tr h)⟩
    · rw [if_neg hc]
      have hdp0 : d.dp = 0 := by
        simp only [Bool.or_eq_true, decide_eq_true_eq, Bool.and_eq_true, beq_iff_eq, not_or] at hc
        omega
      have hh : ¬ d.d.headD 0 < 53 := by
        simp only [Bool.or_eq_true, decide_eq_true_eq, Bool.and_eq_true, beq_iff_eq, not_or, not_and] at hc
        exact hc.2 hdp0
      exact ⟨hfol, hwf, hne, rfl, (half_by_head d hwf hne hdp0).2 hh, hlt1, hK, fun h => h⟩

end C03

namespace C03
open Num Spec.NumText F64

theorem bnd_half (K : Int) (I : Nat) (hI : I ≤ 2 ^ 55) (hK : K ≤ 1074) : Bnd K ((I : ℚ) / 2) :=
  ⟨I, -1, by rw [zpow_neg, zpow_one, div_eq_mul_inv], Or.inl ⟨hI, by omega⟩⟩

/-- **`RoundedInteger` of a decimal that follows `W`** (possibly truncated) is the round-half-even
of `W` itself: no half-integer separates the two -/
theorem roundedInteger_follow (d3 : Dc) (hwf : WF d3) (htrim : Trimmed d3) (hdp : d3.dp ≤ 19)
    (W : ℚ) (K3 : Int) (hK : K3 ≤ 1074) (hf : Follows d3 W K3) (hWlt : W < (2 : ℚ) ^ 53)
    (wn wd : Nat) (hwd : 0 < wd) (hW : (wn : ℚ) / wd = W) :
    roundedInteger { d := d3.d, dp := d3.dp, trunc := d3.trunc } = rne wn wd := by
  have hfr3 := dval_frac d3
  have hwdq : (0 : ℚ) < wd := by exact_mod_cast hwd
  cases htr : d3.trunc with
  | false =>
    have hmant := roundedInteger_frac { d := d3.d, dp := d3.dp, trunc := false } hwf.dig htrim hdp rfl
    simp only [] at hmant
    rw [hmant]
    have hD3pos := decFrac_snd_pos (valOf 10 d3.d) (d3.dp - d3.d.length)
    generalize (decFrac (valOf 10 d3.d) (d3.dp - d3.d.length)).1 = N3 at *
    generalize (decFrac (valOf 10 d3.d) (d3.dp - d3.d.length)).2 = D3 at *
    apply rne_congr _ _ _ _ hD3pos hwd
    have hx : (N3 : ℚ) / D3 = (wn : ℚ) / wd := by rw [hfr3, hW]; exact hf.exact htr
    have hp1 : (D3 : ℚ) ≠ 0 := by exact_mod_cast hD3pos.ne'
    rw [div_eq_div_iff hp1 hwdq.ne'] at hx
    exact_mod_cast hx
  | true =>
    have hmant := roundedInteger_rhu { d := d3.d, dp := d3.dp, trunc := true } hwf.dig hdp rfl
    simp only [] at hmant
    rw [hmant]
    have hD3pos := decFrac_snd_pos (valOf 10 d3.d) (d3.dp - d3.d.length)
    generalize (decFrac (valOf 10 d3.d) (d3.dp - d3.d.length)).1 = N3 at *
    generalize (decFrac (valOf 10 d3.d) (d3.dp - d3.d.length)).2 = D3 at *
    obtain ⟨r1, r2⟩ := rhu_bounds N3 D3 hD3pos
    generalize rhu N3 D3 = t at *
    have hD3q : (0 : ℚ) < D3 := by exact_mod_cast hD3pos
    have hstrict := hf.strict htr
    -- t − 1/2 ≤ x < t + 1/2
    have q1 : (t : ℚ) - 1 / 2 ≤ dval d3 := by
      rw [← hfr3, le_div_iff₀ hD3q]
      have : ((2 * t * D3 : Nat) : ℚ) ≤ ((2 * N3 + D3 : Nat) : ℚ) := by exact_mod_cast r1
      push_cast at this; linarith
    have q2 : dval d3 < ((2 * t + 1 : Nat) : ℚ) / 2 := by
      rw [← hfr3, div_lt_iff₀ hD3q]
      have : ((2 * N3 + D3 : Nat) : ℚ) < ((2 * (t + 1) * D3 : Nat) : ℚ) := by exact_mod_cast r2
      push_cast at this ⊢; linarith
    have ht53 : t ≤ 2 ^ 53 := by
      have : (t : ℚ) < (2 : ℚ) ^ 53 + 1 := by linarith
      have h' : (t : ℚ) < ((2 ^ 53 + 1 : Nat) : ℚ) := by
        rw [Nat.cast_add, Nat.cast_pow]; exact_mod_cast this
      have := (Nat.cast_lt (α := ℚ)).mp h'
      omega
    have hb := bnd_half K3 (2 * t + 1) (by omega) hK
    have q3 : W < ((2 * t + 1 : Nat) : ℚ) / 2 := hf.lt_of_lt _ hb q2
    symm
    apply rne_of_strict wn wd t hwd
    · have : (t : ℚ) - 1 / 2 < (wn : ℚ) / wd := by rw [hW]; linarith
      rw [lt_div_iff₀ hwdq] at this
      have : ((2 * t * wd : Nat) : ℚ) < ((2 * wn + wd : Nat) : ℚ) := by push_cast; linarith
      exact_mod_cast this
    · rw [← hW, div_lt_iff₀ hwdq] at q3
      have : ((2 * wn : Nat) : ℚ) < (((2 * t + 1) * wd : Nat) : ℚ) := by push_cast at q3 ⊢; linarith
      exact_mod_cast this

end C03

namespace C03
open Num Spec.NumText F64

theorem pow_small_le (m : Nat) (hm : m ≤ 1062) : 1 / (2 : ℚ) ^ 1062 ≤ 1 / (2 : ℚ) ^ m :=
  one_div_le_one_div_of_le (by positivity) (pow_le_pow_right₀ (by norm_num) hm)

/-- **from a decimal in [1/2, 1) that follows the input value to the correctly rounded float**,
truncated or not -/
theorem fbFinish_track (neg0 : Bool) (d : Dc) (e : Int) (V0 : ℚ) (n0 dd0 : Nat) (hn0 : 0 < n0) (hdd0 : 0 < dd0)
    (hV : (n0 : ℚ) / dd0 = V0) (hwf : WF d) (hne : d.d ≠ []) (hfol : Fol V0 d e)
    (h1 : 1 / 2 ≤ dval d) (h2 : dval d < 1) (hK : -e ≤ 1130) :
    (fbFinish neg0 d e).toExcept = evalFrac neg0 n0 dd0 := by
  unfold fbFinish
  simp only []
  have hV0pos : (0 : ℚ) < V0 := by rw [← hV]; positivity
  -- denormal shift
  have hden : ∃ (d2 : Dc) (exp2 : Int),
      (if e - 1 < -1023 + 1 then (d.shift (-(-1023 + 1 - (e - 1))), (-1023 : Int) + 1) else (d, e - 1)) = (d2, exp2) ∧
      Fol V0 d2 (exp2 + 1) ∧ WF d2 ∧ d2.d ≠ [] ∧ dval d2 < 1 ∧ 1 / (2 : ℚ) ^ 112 ≤ dval d2 ∧ -1022 ≤ exp2 ∧
      (1 / 2 ≤ dval d2 ∨ exp2 = -1022) ∧ -(exp2 + 1) ≤ 1130 ∧ d2.dp ≤ 0 := by
    obtain ⟨_, hi, _⟩ := dval_bounds d hwf hne
    have hdp0 : d.dp ≤ 0 := by
      apply Classical.byContradiction; intro h
      obtain ⟨lo, _, _⟩ := dval_bounds d hwf hne
      have : (1 : ℚ) ≤ (10 : ℚ) ^ (d.dp - 1) := one_le_zpow₀ (by norm_num) (by omega)
      linarith
    by_cases hs : e - 1 < -1023 + 1
    · have hk109 : (2 : ℚ) ^ (-((109 : ℕ) : ℤ)) ≤ (2 : ℚ) ^ (-(-1023 + 1 - (e - 1))) :=
        zpow_le_zpow_right₀ (by norm_num) (by push_cast; omega)
      rw [two_zpow_nat] at hk109
      have hk1 : (2 : ℚ) ^ (-(-1023 + 1 - (e - 1))) ≤ 1 := zpow_le_one_of_nonpos₀ (by norm_num) (by omega)
      have hkpos : (0 : ℚ) < (2 : ℚ) ^ (-(-1023 + 1 - (e - 1))) := zpow_pos (by norm_num) _
      have hxk : 1 / (2 : ℚ) ^ 110 ≤ dval d * (2 : ℚ) ^ (-(-1023 + 1 - (e - 1))) := by
        have : (1 / 2 : ℚ) * (1 / (2 : ℚ) ^ 109) ≤ dval d * (2 : ℚ) ^ (-(-1023 + 1 - (e - 1))) :=
          mul_le_mul h1 hk109 (by positivity) (by linarith)
        have e110 : (1 : ℚ) / (2 : ℚ) ^ 110 = 1 / 2 * (1 / (2 : ℚ) ^ 109) := by norm_num
        rw [e110]; exact this
      have hso := shift_follows d (-(-1023 + 1 - (e - 1))) (by omega) (by omega) (by omega) hwf hne _ _ hfol (by omega)
        (Or.inr ⟨by have := pow_small_le 1 (by decide); norm_num at this ⊢; linarith,
                 by have := pow_small_le 110 (by decide); linarith⟩)
      have hfol2 := fol_shift V0 d e _ hso
      have he2 : e - -(-1023 + 1 - (e - 1)) = (-1023 : Int) + 1 + 1 := by ring
      rw [he2] at hfol2
      have hlo := hso.lo
      have hhi := hso.hi
      have hx2 : dval (d.shift (-(-1023 + 1 - (e - 1)))) < 1 := by nlinarith
      refine ⟨_, _, by rw [if_pos hs], hfol2, hso.wf, hso.ne, hx2, ?_, by omega, Or.inr rfl, by omega, ?_⟩
      · have e112 : (1 : ℚ) / (2 : ℚ) ^ 112 = 1 / (2 : ℚ) ^ 110 / 4 := by norm_num
        rw [e112]; linarith
      · apply Classical.byContradiction; intro h
        obtain ⟨lo, _, _⟩ := dval_bounds _ hso.wf hso.ne
        have : (1 : ℚ) ≤ (10 : ℚ) ^ ((d.shift (-(-1023 + 1 - (e - 1)))).dp - 1) := one_le_zpow₀ (by norm_num) (by omega)
        linarith
    · have he : e - 1 + 1 = e := by ring
      refine ⟨d, e - 1, by rw [if_neg hs], by rw [he]; exact hfol, hwf, hne, h2, ?_, by omega, Or.inl h1, by omega, hdp0⟩
      have : (1 : ℚ) / (2 : ℚ) ^ 112 ≤ 1 / 2 := by norm_num
      linarith
  obtain ⟨d2, exp2, hpair, hfol2, wf2, ne2, lt2, lo2, hlo2, hh, hK2, hdp2⟩ := hden
  rw [hpair]
  simp only []
  have hddq : (0 : ℚ) < dd0 := by exact_mod_cast hdd0
  -- the true value in the frame of d2
  have hV2 : V0 = V0 * (2 : ℚ) ^ (-(exp2 + 1)) * (2 : ℚ) ^ (exp2 + 1) := by
    rw [mul_assoc, ← zpow_add₀ (by norm_num : (2 : ℚ) ≠ 0)]; simp
  have hle2 : dval d2 ≤ V0 * (2 : ℚ) ^ (-(exp2 + 1)) := hfol2.le
  by_cases hov1 : exp2 - -1023 ≥ 2 ^ 11 - 1
  · -- overflow before rounding
    rw [if_pos hov1]
    have hhalf : 1 / 2 ≤ dval d2 := by rcases hh with h | h; exact h; omega
    unfold FbRes.toExcept evalFrac
    simp only [if_true]
    have hge : (overflowThreshold : ℚ) ≤ (n0 : ℚ) / dd0 := by
      rw [hV, hV2]
      have hT : (overflowThreshold : ℚ) ≤ (2 : ℚ) ^ ((1024 : ℕ) : ℤ) := by
        rw [zpow_natCast]
        have : overflowThreshold ≤ 2 ^ 1024 := by have := threshold_add; omega
        exact_mod_cast this
      have h2p : (2 : ℚ) ^ (((1024 : ℕ) : ℤ) + 1) ≤ (2 : ℚ) ^ (exp2 + 1) :=
        zpow_le_zpow_right₀ (by norm_num) (by push_cast; omega)
      rw [zpow_add_one₀ (by norm_num : (2 : ℚ) ≠ 0)] at h2p
      generalize (2 : ℚ) ^ ((1024 : ℕ) : ℤ) = P at *
      generalize (2 : ℚ) ^ (exp2 + 1) = Z at *
      generalize V0 * (2 : ℚ) ^ (-(exp2 + 1)) = V2 at *
      have hPpos : (0 : ℚ) ≤ P := by linarith [show (0 : ℚ) ≤ (overflowThreshold : ℚ) from Nat.cast_nonneg _]
      have : (1 / 2 : ℚ) * (P * 2) ≤ V2 * Z := mul_le_mul (by linarith) h2p (by positivity) (by linarith)
      linarith
    rw [le_div_iff₀ hddq] at hge
    have : overflowThreshold * dd0 ≤ n0 := by exact_mod_cast hge
    rw [if_pos this]
  · rw [if_neg hov1]
    have hexp2 : exp2 ≤ 1023 := by omega
    -- the 53-bit shift
    have e53 : (2 : ℚ) ^ (53 : Int) = (2 : ℚ) ^ 53 := by norm_num
    have hso := shift_follows d2 53 (by decide) (by decide) (by decide) wf2 ne2 _ _ hfol2 (by omega)
      (Or.inr ⟨by have := pow_small_le 112 (by decide); linarith,
               by rw [e53]
                  have := pow_small_le 112 (by decide)
                  have : dval d2 ≤ dval d2 * (2 : ℚ) ^ 53 := by
                    have : (1 : ℚ) ≤ (2 : ℚ) ^ 53 := one_le_pow₀ (by norm_num)
                    nlinarith
                  linarith⟩)
    have hfol3 := hso.fol
    have hK3 : -(exp2 + 1) + 53 = 52 - exp2 := by ring
    have hW3e : V0 * (2 : ℚ) ^ (-(exp2 + 1)) * (2 : ℚ) ^ (53 : Int) = V0 * (2 : ℚ) ^ (52 - exp2) := by
      rw [mul_assoc, ← zpow_add₀ (by norm_num : (2 : ℚ) ≠ 0)]; congr 2
    rw [hK3, hW3e] at hfol3
    have s2 := hso.wf
    have s3 := hso.ne
    have s4 := hso.trimmed
    have hhi3 := hso.hi
    rw [e53] at hhi3
    generalize hd3 : d2.shift 53 = d3 at *
    have hx3 : dval d3 < (2 : ℚ) ^ 53 := by
      have hp : (0 : ℚ) < (2 : ℚ) ^ 53 := by positivity
      nlinarith
    obtain ⟨lo3, _, pos3⟩ := dval_bounds d3 s2 s3
    have hdp3 : d3.dp ≤ 19 := by
      apply Classical.byContradiction; intro h
      have : (10 : ℚ) ^ (19 : Int) ≤ (10 : ℚ) ^ (d3.dp - 1) := zpow_le_zpow_right₀ (by norm_num) (by omega)
      have : (2 : ℚ) ^ 53 < (10 : ℚ) ^ (19 : Int) := by norm_num
      linarith
    -- the true scaled value is below 2^53 too
    have hW3 : V0 * (2 : ℚ) ^ (52 - exp2) < (2 : ℚ) ^ 53 := by
      have hb : Bnd (52 - exp2) ((2 : ℚ) ^ (53 : Int)) := bnd_pow2 _ _ (by omega)
      have := hfol3.lt_of_lt _ hb (by rw [e53]; exact hx3)
      rw [e53] at this; exact this
    have hsq := scaled_ratio n0 dd0 (52 - exp2)
    rw [hV] at hsq
    have hmant := roundedInteger_follow d3 s2 s4 hdp3 _ (52 - exp2) (by omega) hfol3 hW3
      (scaled n0 dd0 (52 - exp2)).1 (scaled n0 dd0 (52 - exp2)).2 (scaled_snd_pos n0 _ hdd0) hsq
    generalize hm : roundedInteger { d := d3.d, dp := d3.dp, trunc := d3.trunc } = mant at *
    have hrne : rne (scaled n0 dd0 (52 - exp2)).1 (scaled n0 dd0 (52 - exp2)).2 = mant := hmant.symm
    have hWge : 1 / 2 ≤ dval d2 → (2 : ℚ) ^ 52 ≤ V0 * (2 : ℚ) ^ (52 - exp2) := by
      intro hhalf
      rw [← hW3e, e53]
      have : (2 : ℚ) ^ 53 = 2 * (2 : ℚ) ^ 52 := by rw [pow_succ]; ring
      have hp : (0 : ℚ) < (2 : ℚ) ^ 52 := by positivity
      nlinarith
    have hshift : shiftOf n0 dd0 = 52 - exp2 := by
      apply shiftOf_uniqueQ n0 dd0 hn0 hdd0 (52 - exp2) (by omega)
      · rw [hV]; exact hW3
      · intro hlt
        rw [hV]
        have hhalf : 1 / 2 ≤ dval d2 := by rcases hh with h | h; exact h; omega
        exact hWge hhalf
    have hmag : magBits n0 dd0 = (exp2 + 1022).toNat * 2 ^ 52 + mant := by
      unfold magBits; rw [hshift, hrne]; congr 2; omega
    have hsdq : (0 : ℚ) < ((scaled n0 dd0 (52 - exp2)).2 : ℚ) := by exact_mod_cast scaled_snd_pos n0 _ hdd0
    have hmle : mant ≤ 2 ^ 53 := by
      rw [← hrne]
      apply rne_le_of_le_mul _ _ _ (scaled_snd_pos n0 _ hdd0)
      have : ((scaled n0 dd0 (52 - exp2)).1 : ℚ) / (scaled n0 dd0 (52 - exp2)).2 < (2 : ℚ) ^ 53 := by rw [hsq]; exact hW3
      rw [div_lt_iff₀ hsdq] at this
      have : ((scaled n0 dd0 (52 - exp2)).1 : ℚ) ≤ ((2 ^ 53 * (scaled n0 dd0 (52 - exp2)).2 : Nat) : ℚ) := by push_cast; linarith
      exact_mod_cast this
    have hmge : 1 / 2 ≤ dval d2 → 2 ^ 52 ≤ mant := by
      intro hhalf
      rw [← hrne]
      apply le_rne_of_mul_le _ _ _ (scaled_snd_pos n0 _ hdd0)
      have : (2 : ℚ) ^ 52 ≤ ((scaled n0 dd0 (52 - exp2)).1 : ℚ) / (scaled n0 dd0 (52 - exp2)).2 := by rw [hsq]; exact hWge hhalf
      rw [le_div_iff₀ hsdq] at this
      have : ((2 ^ 52 * (scaled n0 dd0 (52 - exp2)).2 : Nat) : ℚ) ≤ ((scaled n0 dd0 (52 - exp2)).1 : ℚ) := by push_cast; linarith
      exact_mod_cast this
    have hmlo : 2 ^ 52 ≤ mant ∨ exp2 = -1022 := by
      rcases hh with h | h
      · exact Or.inl (hmge h)
      · exact Or.inr h
    rw [evalFrac_of_inf neg0 n0 dd0 hdd0, roundMag_eq n0 dd0 hn0 hdd0, hmag]
    have hinf : posInf = UInt64.ofNat 0x7FF0000000000000 := by decide
    have hne_inf : ∀ B : Nat, B < 0x7FF0000000000000 → UInt64.ofNat B ≠ posInf := by
      intro B hB h
      rw [hinf] at h
      have := congrArg UInt64.toNat h
      rw [UInt64.toNat_ofNat', UInt64.toNat_ofNat', Nat.mod_eq_of_lt (by omega), Nat.mod_eq_of_lt (by decide)] at this
      omega
    unfold FbRes.toExcept
    by_cases h53 : mant = 2 ^ 53
    · have e1 : (mant == 2 ^ 53) = true := by rw [h53]; exact beq_self_eq_true _
      simp only [e1, if_true]
      have hs : mant >>> 1 = 2 ^ 52 := by rw [h53, Nat.shiftRight_eq_div_pow]; rfl
      by_cases hov2 : exp2 + 1 - -1023 ≥ 2 ^ 11 - 1
      · simp only [hov2, decide_true, if_true]
        have : (exp2 + 1022).toNat * 2 ^ 52 + mant ≥ 0x7FF0000000000000 := by rw [h53]; omega
        simp only [this, if_true]
      · simp only [hov2, decide_false, Bool.false_eq_true, if_false]
        have hlt : ¬ ((exp2 + 1022).toNat * 2 ^ 52 + mant ≥ 0x7FF0000000000000) := by rw [h53]; omega
        rw [if_neg hlt, if_neg (hne_inf _ (by omega)), hs]
        have hb : ((2 : Nat) ^ 52 &&& 2 ^ 52 == 0) = false := by decide
        simp only [hb, Bool.false_eq_true, if_false]
        rw [fbAssemble_eq neg0 (2 ^ 52) (exp2 + 1) (by decide) (by omega) (by omega)]
        congr 3
        rw [h53]; omega
    · have e1 : (mant == 2 ^ 53) = false := beq_false_of_ne h53
      simp only [e1, Bool.false_eq_true, if_false]
      have hm53 : mant < 2 ^ 53 := by omega
      rw [and_bit52 mant hm53]
      by_cases h52 : mant < 2 ^ 52
      · have hexp : exp2 = -1022 := by rcases hmlo with h | h; omega; exact h
        subst hexp
        simp only [h52, decide_true, if_true]
        have z1 : ((-1022 : Int) + 1022).toNat = 0 := rfl
        have z2 : ((-1023 : Int) + 1023).toNat = 0 := rfl
        rw [z1, Nat.zero_mul, Nat.zero_add]
        have hlt : ¬ (mant ≥ 0x7FF0000000000000) := by omega
        rw [if_neg hlt, if_neg (hne_inf _ (by omega))]
        rw [fbAssemble_eq neg0 mant (-1023) hm53 (by omega) (by omega), z2, Nat.zero_mul, Nat.add_zero,
          Nat.mod_eq_of_lt h52]
      · simp only [h52, decide_false, Bool.false_eq_true, if_false]
        have hlt : ¬ ((exp2 + 1022).toNat * 2 ^ 52 + mant ≥ 0x7FF0000000000000) := by omega
        rw [if_neg hlt, if_neg (hne_inf _ (by omega))]
        rw [fbAssemble_eq neg0 mant exp2 hm53 (by omega) (by omega)]
        congr 3
        omega

end C03

namespace C03
open Num Spec.NumText F64

/-- **floatBits along a true value**: if the decimal handed to `floatBits` follows `V0` (it IS `V0`
unless `set` already had to drop digits) then the result is the correctly rounded `V0` with the
range rule — whether or not the 800-digit buffer overflows on the way. -/
theorem floatBits_follows (d0 : Dc) (hwf : WF d0) (hne : d0.d ≠ []) (V0 : ℚ) (n0 dd0 : Nat) (hn0 : 0 < n0) (hdd0 : 0 < dd0)
    (hV : (n0 : ℚ) / dd0 = V0) (hle0 : dval d0 ≤ V0) (hfol : d0.dp ≤ 310 → Follows d0 V0 0)
    (hhi : V0 < (10 : ℚ) ^ d0.dp) :
    (floatBits d0).toExcept = evalFrac d0.neg n0 dd0 := by
  rw [floatBits_eq]
  have hemp : d0.d.isEmpty = false := by
    cases h : d0.d with
    | nil => exact absurd h hne
    | cons _ _ => rfl
  rw [if_neg (by rw [hemp]; simp)]
  obtain ⟨lo, hi, hpos⟩ := dval_bounds d0 hwf hne
  have hddq : (0 : ℚ) < dd0 := by exact_mod_cast hdd0
  obtain ⟨bb1, bb2, bb3⟩ := big_bounds
  by_cases hbig : d0.dp > 310
  · rw [if_pos hbig]
    unfold FbRes.toExcept evalFrac
    simp only [if_true]
    have hge : (overflowThreshold : ℚ) ≤ (n0 : ℚ) / dd0 := by
      rw [hV]
      have h1 : (10 : ℚ) ^ ((309 : ℕ) : ℤ) ≤ (10 : ℚ) ^ (d0.dp - 1) := zpow_le_zpow_right₀ (by norm_num) (by push_cast; omega)
      rw [zpow_natCast] at h1
      have h2 : (overflowThreshold : ℚ) ≤ ((10 ^ 309 : Nat) : ℚ) := by exact_mod_cast Nat.le_of_lt bb3
      push_cast at h2
      linarith
    rw [le_div_iff₀ hddq] at hge
    have : overflowThreshold * dd0 ≤ n0 := by exact_mod_cast hge
    rw [if_pos this]
  · rw [if_neg hbig]
    by_cases hsmall : d0.dp < -330
    · rw [if_pos hsmall]
      unfold FbRes.toExcept evalFrac
      simp only [Bool.false_eq_true, if_false]
      have hlt : (n0 : ℚ) / dd0 < 1 / (10 : ℚ) ^ (331 : ℕ) := by
        rw [hV]
        have h1 : (10 : ℚ) ^ d0.dp ≤ (10 : ℚ) ^ (-((331 : ℕ) : ℤ)) := zpow_le_zpow_right₀ (by norm_num) (by push_cast; omega)
        rw [zpow_neg, zpow_natCast, ← one_div] at h1
        linarith
      rw [div_lt_div_iff₀ hddq (by positivity)] at hlt
      have hnat : n0 * 10 ^ 331 < dd0 := by
        have : ((n0 * 10 ^ 331 : Nat) : ℚ) < ((1 * dd0 : Nat) : ℚ) := by push_cast; linarith
        have := (Nat.cast_lt (α := ℚ)).mp this
        omega
      have h330 : n0 * 10 ^ 330 ≤ dd0 := by
        have : n0 * 10 ^ 330 ≤ n0 * 10 ^ 331 := Nat.mul_le_mul_left _ (Nat.pow_le_pow_right (by decide) (by decide))
        omega
      have hnd : n0 < dd0 := by
        have : n0 * 1 ≤ n0 * 10 ^ 331 := Nat.mul_le_mul_left _ (Nat.pow_pos (by decide))
        omega
      have hT : dd0 ≤ overflowThreshold * dd0 := Nat.le_mul_of_pos_left _ hT_pos
      rw [if_neg (by omega), roundMag_tiny n0 dd0 hdd0 h330, signed_zero]
      rw [fbAssemble_eq d0.neg 0 (-1023) (by decide) (by omega) (by omega)]
      have z2 : ((-1023 : Int) + 1023).toNat = 0 := rfl
      rw [z2]; simp only [Nat.zero_mod, Nat.zero_mul, Nat.add_zero]
      show Except.ok (signed d0.neg 0) = _
      rw [signed_zero]
    · rw [if_neg hsmall]
      have hfol := hfol (by omega)
      have hB : dval d0 < (2 : ℚ) ^ 1030 := by
        have h1 : (10 : ℚ) ^ d0.dp ≤ (10 : ℚ) ^ ((310 : ℕ) : ℤ) := zpow_le_zpow_right₀ (by norm_num) (by push_cast; omega)
        rw [zpow_natCast] at h1
        have h2 : ((10 ^ 310 : Nat) : ℚ) < ((2 ^ 1030 : Nat) : ℚ) := by exact_mod_cast bb1
        push_cast at h2
        exact lt_of_lt_of_le hi (le_trans h1 (le_of_lt h2))
      have hL : 1 / (2 : ℚ) ^ 1100 ≤ dval d0 := by
        have h1 : (10 : ℚ) ^ (-((331 : ℕ) : ℤ)) ≤ (10 : ℚ) ^ (d0.dp - 1) := zpow_le_zpow_right₀ (by norm_num) (by push_cast; omega)
        rw [zpow_neg, zpow_natCast, ← one_div] at h1
        have h2 : ((10 ^ 331 : Nat) : ℚ) ≤ ((2 ^ 1100 : Nat) : ℚ) := by exact_mod_cast bb2
        push_cast at h2
        have : 1 / (2 : ℚ) ^ 1100 ≤ 1 / (10 : ℚ) ^ 331 := one_div_le_one_div_of_le (by positivity) h2
        exact le_trans this (le_trans h1 lo)
      have hV0 : 1 / (2 : ℚ) ^ 1100 ≤ V0 := le_trans hL hle0
      have hfol0 : Fol V0 d0 0 := by
        unfold Fol
        simpa using hfol
      obtain ⟨a1, a2, a3, a4, a5, a6, _, a8⟩ := fbDown_track V0 2000 d0 0 1030 hwf hne hfol0 hB (by decide) (by omega)
      generalize hfd : fbDown 2000 d0 0 = fd at *
      have hle29 : (1 : ℚ) / (2 : ℚ) ^ 1100 ≤ 1 / (2 : ℚ) ^ 29 :=
        one_div_le_one_div_of_le (by positivity) (pow_le_pow_right₀ (by norm_num) (by decide))
      have hle40 : (1 : ℚ) / (2 : ℚ) ^ 40 ≤ 1 / (2 : ℚ) ^ 29 :=
        one_div_le_one_div_of_le (by positivity) (pow_le_pow_right₀ (by norm_num) (by decide))
      have hBu : 1 / (2 : ℚ) ^ 1100 ≤ V0 * (2 : ℚ) ^ (-fd.2) := by
        rcases a6 with h | h
        · rw [h]; simpa using hV0
        · have := a1.le; linarith
      have hmagu : 0 ≤ -fd.2 ∨ 1 / (2 : ℚ) ^ 40 ≤ dval fd.1 := by
        rcases a6 with h | h
        · left; rw [h]; simp
        · right; linarith
      obtain ⟨b1, b2, b3, b4, b5, b6, b7, _⟩ := fbUp_track V0 hV0 2000 fd.1 fd.2 1100 a2 a3 a1 a4 hBu (by decide) (by omega) hmagu
      generalize hfu : fbUp 2000 fd.1 fd.2 = fu at *
      exact fbFinish_track _ fu.1 fu.2 V0 n0 dd0 hn0 hdd0 hV b2 b3 b1 b5 b6 b7

end C03
