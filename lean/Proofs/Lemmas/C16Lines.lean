/-
C16 — from the pieces the emission loop writes to the LINES of the output: no blank is ever
immediately followed by a newline.
-/
import Proofs.Lemmas.C16Emit

namespace C16
open Tab.TextTab

/-- no blank (0x20) directly in front of a newline (0x0A): no line of `b` ends in a blank
(the last line of `emit`'s output is terminated by a newline too) -/
def noBlankNL : Bytes → Bool
  | a :: b :: rest => !(a == 0x20 && b == 0x0A) && noBlankNL (b :: rest)
  | _ => true

theorem noBlankNL_append : ∀ (x y : Bytes), noBlankNL x = true → noBlankNL y = true →
    ¬ (x.getLast? = some 0x20 ∧ y.head? = some 0x0A) → noBlankNL (x ++ y) = true := by
  intro x
  induction x with
  | nil => intro y _ hy _; simpa using hy
  | cons a xs ih =>
    intro y hx hy hj
    cases xs with
    | nil =>
      cases y with
      | nil => simp [noBlankNL]
      | cons b ys =>
        simp only [List.cons_append, List.nil_append, noBlankNL, Bool.and_eq_true, Bool.not_eq_true']
        refine ⟨?_, hy⟩
        simp only [List.getLast?_singleton, List.head?_cons, Option.some.injEq] at hj
        by_cases h1 : a = 0x20
        · by_cases h2 : b = 0x0A
          · exact absurd ⟨h1, h2⟩ hj
          · simp [h2]
        · simp [h1]
    | cons b xs' =>
      simp only [List.cons_append, noBlankNL, Bool.and_eq_true] at hx ⊢
      refine ⟨hx.1, ?_⟩
      have := ih y hx.2 hy (by
        intro h
        apply hj
        refine ⟨?_, h.2⟩
        rw [List.getLast?_cons_cons]
        exact h.1)
      simpa using this

theorem noBlankNL_of_no_nl : ∀ (x : Bytes), (0x0A : UInt8) ∉ x → noBlankNL x = true := by
  intro x
  induction x with
  | nil => intro _; rfl
  | cons a xs ih =>
    intro h
    cases xs with
    | nil => rfl
    | cons b xs' =>
      simp only [noBlankNL, Bool.and_eq_true, Bool.not_eq_true']
      have hb : b ≠ 0x0A := by
        intro hb; apply h; rw [hb]; simp
      refine ⟨by simp [hb], ih (fun hm => h (List.mem_cons_of_mem _ hm))⟩

theorem noBlankNL_newlines (n : Nat) : noBlankNL (List.replicate n [(0x0A : UInt8)]).flatten = true := by
  induction n with
  | zero => rfl
  | succ n ih =>
    rw [List.replicate_succ, List.flatten_cons]
    cases hn : (List.replicate n [(0x0A : UInt8)]).flatten with
    | nil => rfl
    | cons b rest =>
      rw [hn] at ih
      simp only [List.cons_append, List.nil_append, noBlankNL, Bool.and_eq_true, Bool.not_eq_true']
      exact ⟨by simp, ih⟩

theorem spaces_no_nl (n : Nat) : (0x0A : UInt8) ∉ spaces n := by
  unfold spaces
  intro h
  have := List.eq_of_mem_replicate h
  exact absurd this (by decide)

theorem head?_newlines (n : Nat) (x : Bytes) :
    ((List.replicate n [(0x0A : UInt8)]).flatten ++ x).head? = some 0x0A ∨
    (List.replicate n [(0x0A : UInt8)]).flatten ++ x = x := by
  cases n with
  | zero => right; simp
  | succ n => left; simp [List.replicate_succ]

/-- invariant of the output written so far: no blank before a newline, and not ending in a blank -/
def OutOK (b : Bytes) : Prop := noBlankNL b = true ∧ b.getLast? ≠ some 0x20

theorem getLast?_append_ne_nil' {α : Type} (l l' : List α) (h : l' ≠ []) :
    (l ++ l').getLast? = l'.getLast? := by
  rw [List.getLast?_append]
  cases l' with
  | nil => exact absurd rfl h
  | cons a as => simp [List.getLast?_eq_some_getLast]

theorem outOK_append (b x : Bytes) (hb : OutOK b) (hx : (0x0A : UInt8) ∉ x) (hne : x ≠ [])
    (hl : x.getLast? ≠ some 0x20) : OutOK (b ++ x) := by
  refine ⟨noBlankNL_append b x hb.1 (noBlankNL_of_no_nl x hx) ?_, ?_⟩
  · intro h
    exact hb.2 h.1
  · rw [getLast?_append_ne_nil' _ _ hne]; exact hl

theorem outOK_newlines (b : Bytes) (n : Nat) (hb : OutOK b) :
    OutOK (b ++ (List.replicate n [(0x0A : UInt8)]).flatten) := by
  cases n with
  | zero => simpa using hb
  | succ n =>
    refine ⟨noBlankNL_append _ _ hb.1 (noBlankNL_newlines _) (fun h => hb.2 h.1), ?_⟩
    have hne : (List.replicate (n + 1) [(0x0A : UInt8)]).flatten ≠ [] := by simp [List.replicate_succ]
    rw [getLast?_append_ne_nil' _ _ hne]
    have : (List.replicate (n + 1) [(0x0A : UInt8)]).flatten = List.replicate (n + 1) 0x0A := by
      simp [List.flatten_replicate_singleton]
    rw [this, List.getLast?_replicate]
    simp

/-- text of a cell: margin then value -/
def cellText (c : Cell) : Bytes := c.margin ++ c.value

/-- the cells the loop prints are single-line and do not end in a blank of their own -/
def CleanCell (c : Cell) : Prop :=
  (0x0A : UInt8) ∉ c.margin ∧ (0x0A : UInt8) ∉ c.value ∧ (cellText c).getLast? ≠ some 0x20

theorem emit_fold_outOK (offs : List Int) (lm : List Nat) : ∀ (cells : List Cell) (st : EmitSt),
    EmitOK offs lm st cells → (∀ c ∈ cells, skipped c = false → CleanCell c) →
    OutOK st.out.flatten → OutOK (cells.foldl (emitCell offs lm) st).out.flatten := by
  intro cells
  induction cells with
  | nil => intro st _ _ h; exact h
  | cons c rest ih =>
    intro st hok hclean hst
    simp only [List.foldl_cons]
    obtain ⟨hc, hrest⟩ := hok
    apply ih _ hrest (fun d hd => hclean d (List.mem_cons_of_mem _ hd))
    unfold emitCell
    by_cases hsk : skipped c = true
    · simp only [hsk, if_true]; exact hst
    · have hsk' : skipped c = false := by simpa using hsk
      simp only [hsk', Bool.false_eq_true, if_false]
      have hcok := hc hsk'
      have hcl := hclean c (List.mem_cons_self ..) hsk'
      obtain ⟨_, k, hp, _, hek, _, _, _, _⟩ := hcok
      rw [hp]
      simp only [List.flatten_append, List.flatten_cons, List.flatten_nil, List.append_nil]
      rw [List.append_assoc]
      have h1 := outOK_newlines st.out.flatten (c.row - st.row) hst
      -- the pieces of the cell
      have hne : c.margin ++ c.value ≠ [] := by
        intro h
        have h1 : c.margin = [] := (List.append_eq_nil_iff.mp h).1
        have h2 : c.value = [] := (List.append_eq_nil_iff.mp h).2
        have : skipped c = true := by simp [skipped, h1, h2, isBlank, allSpaceAux]
        rw [this] at hsk'; cases hsk'
      rw [← List.append_assoc]
      apply outOK_append _ _ h1
      · simp only [List.mem_append, not_or]
        exact ⟨spaces_no_nl _, ⟨spaces_no_nl _, hcl.1⟩, spaces_no_nl _, hcl.2.1⟩
      · intro h
        simp only [List.append_eq_nil_iff] at h
        exact hne (by rw [h.2.1.2, h.2.2.2]; rfl)
      · by_cases hv : c.value = []
        · have hk := hek hv
          subst hk
          have hm : c.margin ≠ [] := by intro h; exact hne (by simp [h, hv])
          simp only [hv, spaces, List.replicate_zero, List.append_nil]
          rw [← List.append_assoc, getLast?_append_ne_nil' _ _ hm]
          have := hcl.2.2
          simpa [cellText, hv] using this
        · rw [← List.append_assoc, ← List.append_assoc, getLast?_append_ne_nil' _ _ hv]
          have := hcl.2.2
          unfold cellText at this
          rw [getLast?_append_ne_nil' _ _ hv] at this
          exact this

end C16
