/-
C03 — the mirrored decimal slow path, part 5: `decimal.floatBits`.
-/
import Proofs.Lemmas.C03DecShift
import Proofs.Lemmas.C03Total

namespace C03
open Num Spec.NumText F64

/-! ### the value of a well-formed decimal lies in [10^(dp-1), 10^dp) -/

theorem dval_bounds (a : Dc) (hwf : WF a) (hne : a.d ≠ []) :
    (10 : ℚ) ^ (a.dp - 1) ≤ dval a ∧ dval a < (10 : ℚ) ^ a.dp ∧ 0 < dval a := by
  have hlo := wf_lo a hwf hne
  have hhi := valOf_lt a.d hwf.dig
  have hnd : 1 ≤ a.d.length := List.length_pos_iff.mpr hne
  have hloq : (10 : ℚ) ^ ((a.d.length : Int) - 1) ≤ (valOf 10 a.d : ℚ) := by
    have : ((10 ^ (a.d.length - 1) : Nat) : ℚ) ≤ (valOf 10 a.d : ℚ) := by exact_mod_cast hlo
    have e : ((a.d.length : Int) - 1) = ((a.d.length - 1 : Nat) : Int) := by omega
    rw [e, zpow_natCast]; exact_mod_cast this
  have hhiq : (valOf 10 a.d : ℚ) < (10 : ℚ) ^ (a.d.length : Int) := by
    rw [zpow_natCast]; exact_mod_cast hhi
  have hp : (0 : ℚ) < (10 : ℚ) ^ (a.dp - a.d.length) := zpow_pos (by norm_num) _
  unfold dval
  refine ⟨?_, ?_, ?_⟩
  · have : (10 : ℚ) ^ (a.dp - 1) = (10 : ℚ) ^ ((a.d.length : Int) - 1) * (10 : ℚ) ^ (a.dp - a.d.length) := by
      rw [← zpow_add₀ (by norm_num : (10 : ℚ) ≠ 0)]; congr 1; omega
    rw [this]; exact mul_le_mul_of_nonneg_right hloq hp.le
  · have : (10 : ℚ) ^ a.dp = (10 : ℚ) ^ (a.d.length : Int) * (10 : ℚ) ^ (a.dp - a.d.length) := by
      rw [← zpow_add₀ (by norm_num : (10 : ℚ) ≠ 0)]; congr 1; omega
    rw [this]; exact mul_lt_mul_of_pos_right hhiq hp
  · apply mul_pos _ hp
    have : (0 : ℚ) < (10 : ℚ) ^ ((a.d.length : Int) - 1) := zpow_pos (by norm_num) _
    linarith

/-- the fraction of a decimal's value -/
theorem dval_frac (a : Dc) :
    (((decFrac (valOf 10 a.d) (a.dp - a.d.length)).1 : Nat) : ℚ) / ((decFrac (valOf 10 a.d) (a.dp - a.d.length)).2 : Nat) = dval a :=
  decFrac_ratio _ _

/-! ### truncation is sticky through every stage -/

theorem shift_trunc_mono (a : Dc) (k : Int) (h : a.trunc = true) : (a.shift k).trunc = true := by
  unfold Dc.shift
  split
  · exact h
  · split
    · exact shiftLeftBy_trunc_mono _ _ _ h
    · split
      · exact shiftRightBy_trunc_mono _ _ _ h
      · exact h

theorem fbDown_trunc_mono : ∀ (fuel : Nat) (d : Dc) (e : Int), d.trunc = true → (fbDown fuel d e).1.trunc = true := by
  intro fuel
  induction fuel with
  | zero => intro d e h; exact h
  | succ fuel ih =>
    intro d e h
    unfold fbDown
    split
    · exact ih _ _ (shift_trunc_mono d _ h)
    · exact h

theorem fbUp_trunc_mono : ∀ (fuel : Nat) (d : Dc) (e : Int), d.trunc = true → (fbUp fuel d e).1.trunc = true := by
  intro fuel
  induction fuel with
  | zero => intro d e h; exact h
  | succ fuel ih =>
    intro d e h
    unfold fbUp
    split
    · exact ih _ _ (shift_trunc_mono d _ h)
    · exact h

/-! ### the scaling loops -/

/-- the shift count chosen from `powtab` -/
def pstep (i : Int) : Nat := if i ≥ 9 then 27 else powtab.getD i.toNat 27

theorem pstep_facts (i : Int) (hi : 0 ≤ i) :
    1 ≤ pstep i ∧ pstep i ≤ 27 ∧ (1 ≤ i → 2 ^ pstep i ≤ 10 ^ i.toNat) ∧ (i = 0 → pstep i = 1) := by
  unfold pstep
  by_cases h9 : i ≥ 9
  · simp only [h9, if_true]
    refine ⟨by decide, by decide, fun _ => ?_, fun h => by omega⟩
    calc 2 ^ 27 ≤ 10 ^ 9 := by decide
      _ ≤ 10 ^ i.toNat := Nat.pow_le_pow_right (by decide) (by omega)
  · simp only [h9, if_false]
    have : i.toNat < 9 := by omega
    have hcases : ∀ j, j < 9 → 1 ≤ powtab.getD j 27 ∧ powtab.getD j 27 ≤ 27 ∧ (1 ≤ j → 2 ^ powtab.getD j 27 ≤ 10 ^ j) ∧
        (j = 0 → powtab.getD j 27 = 1) := by decide
    obtain ⟨a, b, c, d⟩ := hcases i.toNat this
    exact ⟨a, b, fun h => c (by omega), fun h => d (by omega)⟩

theorem two_zpow_nat (n : Nat) : (2 : ℚ) ^ (-(n : Int)) = 1 / (2 : ℚ) ^ n := by
  rw [zpow_neg, zpow_natCast, one_div]

/-- first loop: while `dp > 0` shift right; value·2^exp is invariant -/
theorem fbDown_spec : ∀ (fuel : Nat) (d : Dc) (e : Int) (B : Nat) (L : ℚ), WF d → d.d ≠ [] → d.trunc = false →
    (fbDown fuel d e).1.trunc = false → dval d < (2 : ℚ) ^ B → B ≤ fuel → L ≤ dval d → L ≤ 1 / (2 : ℚ) ^ 27 →
    dval (fbDown fuel d e).1 * (2 : ℚ) ^ ((fbDown fuel d e).2 - e) = dval d ∧ WF (fbDown fuel d e).1 ∧
    (fbDown fuel d e).1.d ≠ [] ∧ (fbDown fuel d e).1.dp ≤ 0 ∧ (fbDown fuel d e).1.neg = d.neg ∧
    L ≤ dval (fbDown fuel d e).1 ∧ dval (fbDown fuel d e).1 ≤ dval d := by
  intro fuel
  induction fuel with
  | zero =>
    intro d e B L hwf hne ht _ hB hBf hL _
    have : B = 0 := by omega
    subst this
    obtain ⟨lo, _, _⟩ := dval_bounds d hwf hne
    have hdp : d.dp ≤ 0 := by
      apply Classical.byContradiction; intro h
      have : (1 : ℚ) ≤ (10 : ℚ) ^ (d.dp - 1) := one_le_zpow₀ (by norm_num) (by omega)
      simp at hB; linarith
    simp only [fbDown, sub_self, zpow_zero, _root_.mul_one]
    exact ⟨trivial, hwf, hne, hdp, trivial, hL, le_refl _⟩
  | succ fuel ih =>
    intro d e B L hwf hne ht htf hB hBf hL hL27
    obtain ⟨lo, hi, hpos⟩ := dval_bounds d hwf hne
    unfold fbDown at htf ⊢
    by_cases hdp : d.dp > 0
    · rw [if_pos hdp] at htf ⊢
      have hn : (if d.dp ≥ 9 then 27 else powtab.getD d.dp.toNat 27) = pstep d.dp := rfl
      simp only [hn] at htf ⊢
      obtain ⟨n1, n27, _, _⟩ := pstep_facts d.dp (by omega)
      generalize pstep d.dp = n at *
      have ht1 : (d.shift (-(n : Int))).trunc = false := bool_false_of_mono (fbDown_trunc_mono fuel _ _) htf
      obtain ⟨s1, s2, s3, _, s5⟩ := shift_exact d (-(n : Int)) (by omega) (by omega) (by omega) hwf hne ht ht1
      have hge1 : (1 : ℚ) ≤ dval d := by
        have : (1 : ℚ) ≤ (10 : ℚ) ^ (d.dp - 1) := one_le_zpow₀ (by norm_num) (by omega)
        linarith
      have hB1 : 1 ≤ B := by
        rcases Nat.eq_zero_or_pos B with h | h
        · subst h; simp at hB; linarith
        · exact h
      have h2n : (2 : ℚ) ^ (-(n : Int)) = 1 / (2 : ℚ) ^ n := two_zpow_nat n
      have hpn : (0 : ℚ) < (2 : ℚ) ^ n := by positivity
      have hn2 : (2 : ℚ) ≤ (2 : ℚ) ^ n := by
        calc (2 : ℚ) = 2 ^ 1 := by norm_num
          _ ≤ 2 ^ n := pow_le_pow_right₀ (by norm_num) n1
      have hn27 : (2 : ℚ) ^ n ≤ (2 : ℚ) ^ 27 := pow_le_pow_right₀ (by norm_num) n27
      have hlt1 : dval (d.shift (-(n : Int))) < (2 : ℚ) ^ (B - 1) := by
        rw [s1, h2n, mul_one_div, div_lt_iff₀ hpn]
        have : (2 : ℚ) ^ B = (2 : ℚ) ^ (B - 1) * 2 := by
          rw [← pow_succ]; congr 1; omega
        have hp : (0 : ℚ) < (2 : ℚ) ^ (B - 1) := by positivity
        nlinarith
      have hL1 : L ≤ dval (d.shift (-(n : Int))) := by
        rw [s1, h2n, mul_one_div, le_div_iff₀ hpn]
        have : L * (2 : ℚ) ^ n ≤ 1 / (2 : ℚ) ^ 27 * (2 : ℚ) ^ 27 := by
          by_cases hLn : 0 ≤ L
          · exact mul_le_mul hL27 hn27 (by positivity) (by positivity)
          · have : L * (2 : ℚ) ^ n ≤ 0 := mul_nonpos_of_nonpos_of_nonneg (by linarith) hpn.le
            have : (0 : ℚ) ≤ 1 / (2 : ℚ) ^ 27 * (2 : ℚ) ^ 27 := by positivity
            linarith
        have h1 : (1 : ℚ) / (2 : ℚ) ^ 27 * (2 : ℚ) ^ 27 = 1 := by norm_num
        linarith
      obtain ⟨a1, a2, a3, a4, a5, a6, a7⟩ := ih (d.shift (-(n : Int))) (e + n) (B - 1) L s2 s3 ht1 htf hlt1 (by omega) hL1 hL27
      refine ⟨?_, a2, a3, a4, by rw [a5, s5], a6, ?_⟩
      · have : (fbDown fuel (d.shift (-(n : Int))) (e + n)).2 - e = ((fbDown fuel (d.shift (-(n : Int))) (e + n)).2 - (e + n)) + n := by omega
        rw [this, zpow_add₀ (by norm_num : (2 : ℚ) ≠ 0), ← mul_assoc, a1, s1, zpow_natCast, h2n]
        field_simp
      · have : dval (d.shift (-(n : Int))) ≤ dval d := by
          rw [s1, h2n, mul_one_div, div_le_iff₀ hpn]
          nlinarith
        linarith
    · rw [if_neg hdp]
      simp only [sub_self, zpow_zero, _root_.mul_one]
      exact ⟨trivial, hwf, hne, by omega, trivial, hL, le_refl _⟩

/-- with `dp = 0` the first digit decides whether the value reaches one half -/
theorem half_by_head (a : Dc) (hwf : WF a) (hne : a.d ≠ []) (hdp : a.dp = 0) :
    (a.d.headD 0 < 53 → dval a < 1 / 2) ∧ (¬ a.d.headD 0 < 53 → 1 / 2 ≤ dval a) := by
  cases hd : a.d with
  | nil => exact absurd hd hne
  | cons c cs =>
    have hdig := hwf.dig
    rw [hd, List.all_cons, Bool.and_eq_true] at hdig
    obtain ⟨f1, _, _, f4⟩ := round_byte_facts c hdig.1
    have hv := valOf_lt cs hdig.2
    have hP : (0 : ℚ) < (10 : ℚ) ^ cs.length := by positivity
    have hval : dval a = ((digVal c * 10 ^ cs.length + valOf 10 cs : Nat) : ℚ) / ((10 : ℚ) ^ cs.length * 10) := by
      unfold dval
      rw [hdp, hd, valOf_cons10, List.length_cons]
      have : (0 : Int) - ((cs.length + 1 : Nat) : Int) = -((cs.length + 1 : Nat) : Int) := by omega
      rw [this, zpow_neg, zpow_natCast, pow_succ, div_eq_mul_inv]
    simp only [List.headD_cons]
    constructor
    · intro h
      have h4 : digVal c ≤ 4 := by
        have : ¬ 5 ≤ digVal c := fun h5 => by
          have := f1.mpr h5
          exact absurd h (UInt8.not_lt.mpr this)
        omega
      rw [hval, div_lt_iff₀ (by positivity)]
      have hn : digVal c * 10 ^ cs.length + valOf 10 cs < 5 * 10 ^ cs.length := by
        have := Nat.mul_le_mul_right (10 ^ cs.length) h4
        omega
      have : ((digVal c * 10 ^ cs.length + valOf 10 cs : Nat) : ℚ) < ((5 * 10 ^ cs.length : Nat) : ℚ) := by exact_mod_cast hn
      push_cast at this ⊢
      linarith
    · intro h
      have h5 : 5 ≤ digVal c := f1.mp (UInt8.not_lt.mp h)
      rw [hval, le_div_iff₀ (by positivity)]
      have hn : 5 * 10 ^ cs.length ≤ digVal c * 10 ^ cs.length + valOf 10 cs := by
        have := Nat.mul_le_mul_right (10 ^ cs.length) h5
        omega
      have : ((5 * 10 ^ cs.length : Nat) : ℚ) ≤ ((digVal c * 10 ^ cs.length + valOf 10 cs : Nat) : ℚ) := by exact_mod_cast hn
      push_cast at this ⊢
      linarith

/-- second loop: while the value is below one half shift left; value·2^exp is invariant and the
value ends in [1/2, 1) -/
theorem fbUp_spec : ∀ (fuel : Nat) (d : Dc) (e : Int) (B : Nat), WF d → d.d ≠ [] → d.trunc = false →
    (fbUp fuel d e).1.trunc = false → d.dp ≤ 0 → 1 / (2 : ℚ) ^ B ≤ dval d → B ≤ fuel →
    dval (fbUp fuel d e).1 * (2 : ℚ) ^ ((fbUp fuel d e).2 - e) = dval d ∧ WF (fbUp fuel d e).1 ∧
    (fbUp fuel d e).1.d ≠ [] ∧ (fbUp fuel d e).1.neg = d.neg ∧
    1 / 2 ≤ dval (fbUp fuel d e).1 ∧ dval (fbUp fuel d e).1 < 1 := by
  intro fuel
  induction fuel with
  | zero =>
    intro d e B hwf hne _ _ hdp hB hBf
    exfalso
    have : B = 0 := by omega
    subst this
    obtain ⟨_, hi, _⟩ := dval_bounds d hwf hne
    have : (10 : ℚ) ^ d.dp ≤ 1 := zpow_le_one_of_nonpos₀ (by norm_num) hdp
    simp at hB; linarith
  | succ fuel ih =>
    intro d e B hwf hne ht htf hdp hB hBf
    obtain ⟨lo, hi, hpos⟩ := dval_bounds d hwf hne
    have hlt1 : dval d < 1 := by
      have : (10 : ℚ) ^ d.dp ≤ 1 := zpow_le_one_of_nonpos₀ (by norm_num) hdp
      linarith
    unfold fbUp at htf ⊢
    by_cases hc : (d.dp < 0 || (d.dp == 0 && d.d.headD 0 < 53)) = true
    · rw [if_pos hc] at htf ⊢
      have hn : (if -d.dp ≥ 9 then 27 else powtab.getD (-d.dp).toNat 27) = pstep (-d.dp) := rfl
      simp only [hn] at htf ⊢
      obtain ⟨n1, n27, np, n0⟩ := pstep_facts (-d.dp) (by omega)
      -- the value is below one half, and below 2^-n after scaling by the table entry
      have hsmall : dval d * (2 : ℚ) ^ pstep (-d.dp) < 1 ∧ dval d < 1 / 2 := by
        by_cases hneg : d.dp < 0
        · have h2 := np (by omega)
          have h10 : dval d < 1 / (10 : ℚ) ^ (-d.dp).toNat := by
            have : (10 : ℚ) ^ d.dp = 1 / (10 : ℚ) ^ (-d.dp).toNat := by
              have : d.dp = -((-d.dp).toNat : Int) := by omega
              conv => lhs; rw [this]
              rw [zpow_neg, zpow_natCast, one_div]
            linarith
          have hq : ((2 ^ pstep (-d.dp) : Nat) : ℚ) ≤ ((10 ^ (-d.dp).toNat : Nat) : ℚ) := by exact_mod_cast h2
          push_cast at hq
          have hp10 : (0 : ℚ) < (10 : ℚ) ^ (-d.dp).toNat := by positivity
          constructor
          · calc dval d * (2 : ℚ) ^ pstep (-d.dp) < 1 / (10 : ℚ) ^ (-d.dp).toNat * (2 : ℚ) ^ pstep (-d.dp) :=
                mul_lt_mul_of_pos_right h10 (by positivity)
              _ ≤ 1 / (10 : ℚ) ^ (-d.dp).toNat * (10 : ℚ) ^ (-d.dp).toNat := mul_le_mul_of_nonneg_left hq (by positivity)
              _ = 1 := by field_simp
          · have : (10 : ℚ) ^ (1 : Nat) ≤ (10 : ℚ) ^ (-d.dp).toNat := pow_le_pow_right₀ (by norm_num) (by omega)
            have : 1 / (10 : ℚ) ^ (-d.dp).toNat ≤ 1 / 10 := by
              rw [div_le_div_iff₀ hp10 (by norm_num)]; linarith
            linarith
        · have hdp0 : d.dp = 0 := by omega
          have hh : d.d.headD 0 < 53 := by
            simp only [Bool.or_eq_true, decide_eq_true_eq, Bool.and_eq_true, beq_iff_eq] at hc
            rcases hc with h | h
            · exact absurd h hneg
            · exact h.2
          have := (half_by_head d hwf hne hdp0).1 hh
          have hn1 : pstep (-d.dp) = 1 := n0 (by omega)
          rw [hn1]
          constructor <;> linarith
      generalize pstep (-d.dp) = n at *
      have ht1 : (d.shift (n : Int)).trunc = false := bool_false_of_mono (fbUp_trunc_mono fuel _ _) htf
      obtain ⟨s1, s2, s3, _, s5⟩ := shift_exact d (n : Int) (by omega) (by omega) (by omega) hwf hne ht ht1
      rw [zpow_natCast] at s1
      have hdp1 : (d.shift (n : Int)).dp ≤ 0 := by
        apply Classical.byContradiction; intro h
        obtain ⟨lo1, _, _⟩ := dval_bounds _ s2 s3
        have : (1 : ℚ) ≤ (10 : ℚ) ^ ((d.shift (n : Int)).dp - 1) := one_le_zpow₀ (by norm_num) (by omega)
        rw [s1] at lo1; linarith [hsmall.1]
      have hB2 : 1 ≤ B := by
        rcases Nat.eq_zero_or_pos B with h | h
        · subst h; simp at hB; linarith [hsmall.2]
        · exact h
      have hn2 : (2 : ℚ) ≤ (2 : ℚ) ^ n := by
        calc (2 : ℚ) = 2 ^ 1 := by norm_num
          _ ≤ 2 ^ n := pow_le_pow_right₀ (by norm_num) n1
      have hB1 : 1 / (2 : ℚ) ^ (B - 1) ≤ dval (d.shift (n : Int)) := by
        rw [s1]
        have : (2 : ℚ) ^ B = (2 : ℚ) ^ (B - 1) * 2 := by rw [← pow_succ]; congr 1; omega
        have hp : (0 : ℚ) < (2 : ℚ) ^ (B - 1) := by positivity
        rw [div_le_iff₀ hp]
        rw [this, div_le_iff₀ (by positivity)] at hB
        nlinarith
      obtain ⟨a1, a2, a3, a4, a5, a6⟩ := ih (d.shift (n : Int)) (e - n) (B - 1) s2 s3 ht1 htf hdp1 hB1 (by omega)
      refine ⟨?_, a2, a3, by rw [a4, s5], a5, a6⟩
      have : (fbUp fuel (d.shift (n : Int)) (e - n)).2 - e = ((fbUp fuel (d.shift (n : Int)) (e - n)).2 - (e - n)) + (-(n : Int)) := by omega
      rw [this, zpow_add₀ (by norm_num : (2 : ℚ) ≠ 0), ← mul_assoc, a1, s1, two_zpow_nat]
      field_simp
    · rw [if_neg hc]
      simp only [sub_self, zpow_zero, _root_.mul_one]
      have hdp0 : d.dp = 0 := by
        simp only [Bool.or_eq_true, decide_eq_true_eq, Bool.and_eq_true, beq_iff_eq, not_or] at hc
        omega
      have hh : ¬ d.d.headD 0 < 53 := by
        simp only [Bool.or_eq_true, decide_eq_true_eq, Bool.and_eq_true, beq_iff_eq, not_or, not_and] at hc
        exact hc.2 hdp0
      exact ⟨trivial, hwf, hne, trivial, (half_by_head d hwf hne hdp0).2 hh, hlt1⟩

/-! ### RoundedInteger for any position of the point -/

theorem rne_one (x : Nat) : rne x 1 = x := by
  have := rne_exact x 1 (by decide)
  simpa using this

/-- `RoundedInteger` = round-half-even of the decimal's value, written with the value's own
fraction (also when the point lies left of the digits: the value is below 1/10, the result 0) -/
theorem roundedInteger_frac (a : Dec) (hd : a.d.all isDec = true) (htrim : a.d.getLast? ≠ some 48)
    (h19 : a.dp ≤ 19) (ht : a.trunc = false) :
    roundedInteger a = rne (decFrac (valOf 10 a.d) (a.dp - a.d.length)).1 (decFrac (valOf 10 a.d) (a.dp - a.d.length)).2 := by
  by_cases h0 : 0 ≤ a.dp
  · rw [roundedInteger_rne a hd htrim h0 h19 ht]
    unfold decFrac
    by_cases hle : a.d.length ≤ a.dp.toNat
    · have : a.dp - (a.d.length : Int) ≥ 0 := by omega
      rw [if_pos hle, if_pos this, rne_one]
      congr 2; omega
    · have : ¬ (a.dp - (a.d.length : Int) ≥ 0) := by omega
      rw [if_neg hle, if_neg this]
      congr 2; omega
  · -- the point is left of the digits
    have hneg : a.dp < 0 := by omega
    have hri : roundedInteger a = 0 := by
      unfold roundedInteger
      have h20 : ¬ a.dp > 20 := by omega
      have hk : a.dp.toNat = 0 := by omega
      have hsr : shouldRoundUp a a.dp = false := by
        unfold shouldRoundUp
        have : (decide (a.dp < 0) || decide (a.dp ≥ (a.d.length : Int))) = true := by simp [hneg]
        simp only [this, if_true]
      simp only [h20, if_false, hk, List.take_zero, riDigits, Nat.zero_sub, riPad, hsr, Bool.false_eq_true]
    rw [hri]
    unfold decFrac
    have : ¬ (a.dp - (a.d.length : Int) ≥ 0) := by omega
    rw [if_neg this]
    have hv := valOf_lt a.d hd
    symm
    apply Nat.le_zero.mp
    apply rne_le_of_lt_half _ _ 0 (Nat.pow_pos (by decide))
    have hle : 10 ^ (a.d.length + 1) ≤ 10 ^ (-(a.dp - (a.d.length : Int))).toNat :=
      Nat.pow_le_pow_right (by decide) (by omega)
    rw [Nat.pow_succ] at hle
    omega

/-! ### from the normalised decimal to the bits -/

/-- `floatBits` after the two scaling loops -/
def fbFinish (neg0 : Bool) (d : Dc) (exp : Int) : FbRes :=
  let bias : Int := -1023
  let exp := exp - 1
  let (d, exp) := if exp < bias + 1 then (d.shift (-((bias + 1 - exp))), bias + 1) else (d, exp)
  if exp - bias ≥ 2 ^ 11 - 1 then ⟨fbAssemble neg0 0 (2 ^ 11 - 1 + bias), true, d.trunc⟩
  else
    let d := d.shift 53
    let mant := roundedInteger { d := d.d, dp := d.dp, trunc := d.trunc }
    let (mant, exp, ovf) :=
      if mant == 2 ^ 53 then
        (mant >>> 1, exp + 1, decide (exp + 1 - bias ≥ 2 ^ 11 - 1))
      else (mant, exp, false)
    if ovf then ⟨fbAssemble neg0 0 (2 ^ 11 - 1 + bias), true, d.trunc⟩
    else
      let exp := if mant &&& 2 ^ 52 == 0 then bias else exp
      ⟨fbAssemble neg0 mant exp, false, d.trunc⟩

theorem floatBits_eq (d0 : Dc) :
    floatBits d0 =
      if d0.d.isEmpty then ⟨fbAssemble d0.neg 0 (-1023), false, d0.trunc⟩
      else if d0.dp > 310 then ⟨fbAssemble d0.neg 0 (2 ^ 11 - 1 + -1023), true, d0.trunc⟩
      else if d0.dp < -330 then ⟨fbAssemble d0.neg 0 (-1023), false, d0.trunc⟩
      else fbFinish d0.neg (fbUp 2000 (fbDown 2000 d0 0).1 (fbDown 2000 d0 0).2).1
             (fbUp 2000 (fbDown 2000 d0 0).1 (fbDown 2000 d0 0).2).2 := by
  unfold floatBits fbFinish
  rfl

theorem rne_congr (n d n' d' : Nat) (hd : 0 < d) (hd' : 0 < d') (h : n * d' = n' * d) : rne n d = rne n' d' := by
  have a := rne_mono_rat n d n' d' hd hd' (by omega)
  have b := rne_mono_rat n' d' n d hd' hd (by omega)
  omega

theorem and_bit52 (m : Nat) (hm : m < 2 ^ 53) : (m &&& 2 ^ 52 == 0) = decide (m < 2 ^ 52) := by
  by_cases hlt : m < 2 ^ 52
  · have hb : m.testBit 52 = false := Nat.testBit_lt_two_pow hlt
    have : m &&& 2 ^ 52 = 0 := by
      apply Nat.eq_of_testBit_eq
      intro i
      rw [Nat.testBit_and, Nat.testBit_two_pow, Nat.zero_testBit]
      by_cases h : 52 = i
      · subst h; simp [hb]
      · simp [h]
    rw [this, decide_eq_true hlt]; rfl
  · have hb : m.testBit 52 = true := by
      apply Nat.testBit_of_two_pow_le_and_two_pow_add_one_gt <;> omega
    have : m &&& 2 ^ 52 ≠ 0 := by
      intro h0
      have := congrArg (fun x => x.testBit 52) h0
      simp only [Nat.testBit_and, Nat.testBit_two_pow, hb, Nat.zero_testBit] at this
      simp at this
    rw [decide_eq_false hlt]; exact beq_false_of_ne this

/-- the bits `floatBits` assembles, for an exponent in range -/
theorem fbAssemble_eq (neg : Bool) (mant : Nat) (exp : Int) (hm : mant < 2 ^ 53) (he1 : -1023 ≤ exp) (he2 : exp ≤ 1024) :
    fbAssemble neg mant exp = signed neg (UInt64.ofNat (mant % 2 ^ 52 + (exp + 1023).toNat * 2 ^ 52)) := by
  unfold fbAssemble
  simp only []
  rw [assemble]
  have hE : ((exp - -1023) % 2048).toNat = (exp + 1023).toNat := by omega
  rw [hE]
  have hml := Nat.mod_lt mant (show 0 < 2 ^ 52 by decide)
  have hb : mant % 2 ^ 52 + (exp + 1023).toNat * 2 ^ 52 < 2 ^ 63 := by omega
  exact signed_ofNat neg _ hb

/-- the result in the reader's vocabulary -/
def _root_.Num.FbRes.toExcept (r : FbRes) : Except NumErr Bits := if r.ovf then .error .range else .ok r.bits

theorem evalFrac_of_inf (neg : Bool) (n d : Nat) (hd : 0 < d) :
    evalFrac neg n d = if roundMag n d = posInf then .error .range else .ok (signed neg (roundMag n d)) := by
  have := roundMag_inf_iff n d hd
  unfold evalFrac
  by_cases h : roundMag n d = posInf
  · rw [if_pos h, if_pos (this.mp h)]
  · rw [if_neg h, if_neg (fun h' => h (this.mpr h'))]

/-- **from a decimal in [1/2, 1) with its binary exponent to the correctly rounded float** -/
theorem fbFinish_correct (neg0 : Bool) (d : Dc) (e : Int) (n0 dd0 : Nat) (hn0 : 0 < n0) (hdd0 : 0 < dd0)
    (hwf : WF d) (hne : d.d ≠ []) (ht : d.trunc = false) (htf : (fbFinish neg0 d e).trunc = false)
    (hval : (n0 : ℚ) / dd0 = dval d * (2 : ℚ) ^ e) (h1 : 1 / 2 ≤ dval d) (h2 : dval d < 1)
    (he1 : -3000 ≤ e) (he2 : e ≤ 3000) :
    (fbFinish neg0 d e).toExcept = evalFrac neg0 n0 dd0 := by
  unfold fbFinish at htf ⊢
  simp only [] at htf ⊢
  -- denormal shift
  have hden : ∃ (d2 : Dc) (exp2 : Int),
      (if e - 1 < -1023 + 1 then (d.shift (-(-1023 + 1 - (e - 1))), (-1023 : Int) + 1) else (d, e - 1)) = (d2, exp2) ∧
      (d2.trunc = false → dval d2 * (2 : ℚ) ^ (exp2 + 1) = dval d * (2 : ℚ) ^ e ∧ WF d2 ∧ d2.d ≠ [] ∧
        dval d2 < 1 ∧ 0 < dval d2 ∧ -1022 ≤ exp2 ∧ exp2 ≤ 3000 ∧ (1 / 2 ≤ dval d2 ∨ exp2 = -1022)) ∧
      (d.trunc = true → d2.trunc = true) := by
    by_cases hs : e - 1 < -1023 + 1
    · refine ⟨_, _, by rw [if_pos hs], fun ht2 => ?_, fun h => shift_trunc_mono d _ h⟩
      obtain ⟨s1, s2, s3, _, _⟩ := shift_exact d (-(-1023 + 1 - (e - 1))) (by omega) (by omega) (by omega) hwf hne ht ht2
      obtain ⟨_, _, p3⟩ := dval_bounds _ s2 s3
      refine ⟨?_, s2, s3, ?_, p3, by omega, by omega, Or.inr rfl⟩
      · rw [s1, mul_assoc, ← zpow_add₀ (by norm_num : (2 : ℚ) ≠ 0)]
        congr 2; omega
      · rw [s1]
        have : (2 : ℚ) ^ (-(-1023 + 1 - (e - 1))) ≤ 1 := zpow_le_one_of_nonpos₀ (by norm_num) (by omega)
        have hp : (0 : ℚ) < dval d := by linarith
        nlinarith
    · refine ⟨d, e - 1, by rw [if_neg hs], fun _ => ⟨?_, hwf, hne, h2, by linarith, by omega, by omega, Or.inl h1⟩, fun h => h⟩
      congr 2; omega
  obtain ⟨d2, exp2, hpair, hd2, _⟩ := hden
  rw [hpair] at htf ⊢
  simp only [] at htf ⊢
  by_cases hov1 : exp2 - -1023 ≥ 2 ^ 11 - 1
  · -- overflow before rounding
    rw [if_pos hov1] at htf ⊢
    have htd2 : d2.trunc = false := htf
    obtain ⟨v, _, _, _, _, _, _, hh⟩ := hd2 htd2
    have hhalf : 1 / 2 ≤ dval d2 := by rcases hh with h | h; exact h; omega
    unfold FbRes.toExcept evalFrac
    simp only [if_true]
    have hge : (overflowThreshold : ℚ) ≤ (n0 : ℚ) / dd0 := by
      rw [hval, ← v]
      have hT : (overflowThreshold : ℚ) ≤ (2 : ℚ) ^ ((1024 : ℕ) : ℤ) := by
        rw [zpow_natCast]
        have : overflowThreshold ≤ 2 ^ 1024 := by have := threshold_add; omega
        exact_mod_cast this
      have h2p : (2 : ℚ) ^ (((1024 : ℕ) : ℤ) + 1) ≤ (2 : ℚ) ^ (exp2 + 1) :=
        zpow_le_zpow_right₀ (by norm_num) (by push_cast; omega)
      rw [zpow_add_one₀ (by norm_num : (2 : ℚ) ≠ 0)] at h2p
      generalize (2 : ℚ) ^ ((1024 : ℕ) : ℤ) = P at *
      generalize (2 : ℚ) ^ (exp2 + 1) = Z at *
      have hPpos : (0 : ℚ) ≤ P := by linarith [show (0 : ℚ) ≤ (overflowThreshold : ℚ) from Nat.cast_nonneg _]
      have : (1 / 2 : ℚ) * (P * 2) ≤ dval d2 * Z := mul_le_mul hhalf h2p (by positivity) (by linarith)
      linarith
    have hddq : (0 : ℚ) < dd0 := by exact_mod_cast hdd0
    rw [le_div_iff₀ hddq] at hge
    have : overflowThreshold * dd0 ≤ n0 := by exact_mod_cast hge
    rw [if_pos this]
  · rw [if_neg hov1] at htf ⊢
    have hexp2 : exp2 ≤ 1023 := by omega
    -- the 53-bit shift
    have htd3 : (d2.shift 53).trunc = false := by
      by_cases hA : (roundedInteger { d := (d2.shift 53).d, dp := (d2.shift 53).dp, trunc := (d2.shift 53).trunc } == 2 ^ 53) = true
      · simp only [hA, if_true] at htf
        split at htf <;> exact htf
      · simp only [hA, Bool.false_eq_true, if_false] at htf
        exact htf
    have htd2 : d2.trunc = false := bool_false_of_mono (shift_trunc_mono d2 53) htd3
    obtain ⟨v, wf2, ne2, lt2, pos2, hlo2, _, hh⟩ := hd2 htd2
    obtain ⟨s1, s2, s3, s4, _⟩ := shift_exact d2 53 (by decide) (by decide) (by decide) wf2 ne2 htd2 htd3
    generalize hd3 : d2.shift 53 = d3 at *
    have hW3 : dval d3 < (2 : ℚ) ^ 53 := by
      rw [s1]; have : (0 : ℚ) < (2 : ℚ) ^ (53 : Int) := two_zpow_pos _
      have e53 : (2 : ℚ) ^ (53 : Int) = (2 : ℚ) ^ 53 := by norm_num
      rw [e53] at this ⊢; nlinarith
    obtain ⟨lo3, _, pos3⟩ := dval_bounds d3 s2 s3
    have hdp3 : d3.dp ≤ 19 := by
      apply Classical.byContradiction; intro h
      have : (10 : ℚ) ^ (19 : Int) ≤ (10 : ℚ) ^ (d3.dp - 1) := zpow_le_zpow_right₀ (by norm_num) (by omega)
      have : (2 : ℚ) ^ 53 < (10 : ℚ) ^ (19 : Int) := by norm_num
      linarith
    have hmant := roundedInteger_frac { d := d3.d, dp := d3.dp, trunc := d3.trunc } s2.dig s4 hdp3 htd3
    simp only [] at hmant
    have hfr3 := dval_frac d3
    generalize hN3 : (decFrac (valOf 10 d3.d) (d3.dp - d3.d.length)).1 = N3 at *
    generalize hD3 : (decFrac (valOf 10 d3.d) (d3.dp - d3.d.length)).2 = D3 at *
    have hD3pos : 0 < D3 := by rw [← hD3]; exact decFrac_snd_pos _ _
    generalize hm : roundedInteger { d := d3.d, dp := d3.dp, trunc := d3.trunc } = mant at *
    -- roundMag of the original value
    have hx : (n0 : ℚ) / dd0 * (2 : ℚ) ^ (52 - exp2) = dval d3 := by
      rw [hval, ← v, s1, mul_assoc, ← zpow_add₀ (by norm_num : (2 : ℚ) ≠ 0)]
      congr 2
      omega
    have hshift : shiftOf n0 dd0 = 52 - exp2 := by
      apply shiftOf_uniqueQ n0 dd0 hn0 hdd0 (52 - exp2) (by omega)
      · rw [hx]; exact hW3
      · intro hlt
        rw [hx, s1]
        have hhalf : 1 / 2 ≤ dval d2 := by rcases hh with h | h; exact h; omega
        have e53 : (2 : ℚ) ^ (53 : Int) = (2 : ℚ) ^ 53 := by norm_num
        rw [e53]
        have : (2 : ℚ) ^ 53 = 2 * (2 : ℚ) ^ 52 := by rw [pow_succ]; ring
        nlinarith
    have hrne : rne (scaled n0 dd0 (52 - exp2)).1 (scaled n0 dd0 (52 - exp2)).2 = mant := by
      rw [hmant]
      apply rne_congr _ _ _ _ (scaled_snd_pos n0 _ hdd0) hD3pos
      have hsq := scaled_ratio n0 dd0 (52 - exp2)
      rw [hx, ← hfr3] at hsq
      have hp1 : ((scaled n0 dd0 (52 - exp2)).2 : ℚ) ≠ 0 := by exact_mod_cast (scaled_snd_pos n0 _ hdd0).ne'
      have hp2 : (D3 : ℚ) ≠ 0 := by exact_mod_cast hD3pos.ne'
      rw [div_eq_div_iff hp1 hp2] at hsq
      exact_mod_cast hsq
    have hmag : magBits n0 dd0 = (exp2 + 1022).toNat * 2 ^ 52 + mant := by
      unfold magBits; rw [hshift, hrne]; congr 2; omega
    -- bounds of the rounded mantissa
    have hmle : mant ≤ 2 ^ 53 := by
      rw [hmant]
      apply rne_le_of_le_mul _ _ _ hD3pos
      have : (N3 : ℚ) / D3 < (2 : ℚ) ^ 53 := by rw [hfr3]; exact hW3
      have hD3q : (0 : ℚ) < D3 := by exact_mod_cast hD3pos
      rw [div_lt_iff₀ hD3q] at this
      have : (N3 : ℚ) ≤ ((2 ^ 53 * D3 : Nat) : ℚ) := by push_cast; linarith
      exact_mod_cast this
    have hmge : 1 / 2 ≤ dval d2 → 2 ^ 52 ≤ mant := by
      intro hhalf
      rw [hmant]
      apply le_rne_of_mul_le _ _ _ hD3pos
      have : (2 : ℚ) ^ 52 ≤ (N3 : ℚ) / D3 := by
        rw [hfr3, s1]
        have e53 : (2 : ℚ) ^ (53 : Int) = (2 : ℚ) ^ 53 := by norm_num
        rw [e53]
        have : (2 : ℚ) ^ 53 = 2 * (2 : ℚ) ^ 52 := by rw [pow_succ]; ring
        nlinarith
      have hD3q : (0 : ℚ) < D3 := by exact_mod_cast hD3pos
      rw [le_div_iff₀ hD3q] at this
      have : ((2 ^ 52 * D3 : Nat) : ℚ) ≤ (N3 : ℚ) := by push_cast; linarith
      exact_mod_cast this
    have hmlo : 2 ^ 52 ≤ mant ∨ exp2 = -1022 := by
      rcases hh with h | h
      · exact Or.inl (hmge h)
      · exact Or.inr h
    rw [evalFrac_of_inf neg0 n0 dd0 hdd0, roundMag_eq n0 dd0 hn0 hdd0, hmag]
    have hinf : posInf = UInt64.ofNat 0x7FF0000000000000 := by decide
    have hne_inf : ∀ B : Nat, B < 0x7FF0000000000000 → UInt64.ofNat B ≠ posInf := by
      intro B hB h
      rw [hinf] at h
      have := congrArg UInt64.toNat h
      rw [UInt64.toNat_ofNat', UInt64.toNat_ofNat', Nat.mod_eq_of_lt (by omega), Nat.mod_eq_of_lt (by decide)] at this
      omega
    unfold FbRes.toExcept
    by_cases h53 : mant = 2 ^ 53
    · -- rounding carried into the exponent
      have e1 : (mant == 2 ^ 53) = true := by rw [h53]; exact beq_self_eq_true _
      simp only [e1, if_true]
      have hs : mant >>> 1 = 2 ^ 52 := by rw [h53, Nat.shiftRight_eq_div_pow]; rfl
      by_cases hov2 : exp2 + 1 - -1023 ≥ 2 ^ 11 - 1
      · simp only [hov2, decide_true, if_true]
        have : (exp2 + 1022).toNat * 2 ^ 52 + mant ≥ 0x7FF0000000000000 := by rw [h53]; omega
        simp only [this, if_true]
      · simp only [hov2, decide_false, Bool.false_eq_true, if_false]
        have hlt : ¬ ((exp2 + 1022).toNat * 2 ^ 52 + mant ≥ 0x7FF0000000000000) := by rw [h53]; omega
        rw [if_neg hlt, if_neg (hne_inf _ (by omega)), hs]
        have hb : ((2 : Nat) ^ 52 &&& 2 ^ 52 == 0) = false := by decide
        simp only [hb, Bool.false_eq_true, if_false]
        rw [fbAssemble_eq neg0 (2 ^ 52) (exp2 + 1) (by decide) (by omega) (by omega)]
        congr 3
        rw [h53]; omega
    · have e1 : (mant == 2 ^ 53) = false := beq_false_of_ne h53
      simp only [e1, Bool.false_eq_true, if_false]
      have hm53 : mant < 2 ^ 53 := by omega
      rw [and_bit52 mant hm53]
      by_cases h52 : mant < 2 ^ 52
      · have hexp : exp2 = -1022 := by rcases hmlo with h | h; omega; exact h
        subst hexp
        simp only [h52, decide_true, if_true]
        have z1 : ((-1022 : Int) + 1022).toNat = 0 := rfl
        have z2 : ((-1023 : Int) + 1023).toNat = 0 := rfl
        rw [z1, Nat.zero_mul, Nat.zero_add]
        have hlt : ¬ (mant ≥ 0x7FF0000000000000) := by omega
        rw [if_neg hlt, if_neg (hne_inf _ (by omega))]
        rw [fbAssemble_eq neg0 mant (-1023) hm53 (by omega) (by omega), z2, Nat.zero_mul, Nat.add_zero,
          Nat.mod_eq_of_lt h52]
      · simp only [h52, decide_false, Bool.false_eq_true, if_false]
        have hlt : ¬ ((exp2 + 1022).toNat * 2 ^ 52 + mant ≥ 0x7FF0000000000000) := by omega
        rw [if_neg hlt, if_neg (hne_inf _ (by omega))]
        rw [fbAssemble_eq neg0 mant exp2 hm53 (by omega) (by omega)]
        congr 3
        omega

theorem fbFinish_trunc_mono (neg0 : Bool) (d : Dc) (e : Int) (h : d.trunc = true) : (fbFinish neg0 d e).trunc = true := by
  unfold fbFinish
  simp only []
  have h2 : (if e - 1 < -1023 + 1 then (d.shift (-(-1023 + 1 - (e - 1))), (-1023 : Int) + 1) else (d, e - 1)).1.trunc = true := by
    split
    · exact shift_trunc_mono d _ h
    · exact h
  generalize (if e - 1 < -1023 + 1 then (d.shift (-(-1023 + 1 - (e - 1))), (-1023 : Int) + 1) else (d, e - 1)) = p at *
  obtain ⟨d2, exp2⟩ := p
  simp only [] at h2 ⊢
  have h3 := shift_trunc_mono d2 53 h2
  split
  · exact h2
  · split <;> split <;> exact h3

theorem zpow_big (x : Int) (h : 3000 < x) : (2 : ℚ) ^ 1030 * 2 ≤ (2 : ℚ) ^ x := by
  have h1 : (2 : ℚ) ^ (((1030 : ℕ) : ℤ) + 1) ≤ (2 : ℚ) ^ x := zpow_le_zpow_right₀ (by norm_num) (by push_cast; omega)
  rw [zpow_add_one₀ (by norm_num : (2 : ℚ) ≠ 0), zpow_natCast] at h1
  exact h1

theorem zpow_small (x : Int) (h : x < -3000) : (2 : ℚ) ^ x ≤ 1 / (2 : ℚ) ^ 1100 := by
  have h1 : (2 : ℚ) ^ x ≤ (2 : ℚ) ^ (-((1100 : ℕ) : ℤ)) := zpow_le_zpow_right₀ (by norm_num) (by push_cast; omega)
  rw [zpow_neg, zpow_natCast, ← one_div] at h1
  exact h1

theorem big_bounds : (10 : Nat) ^ 310 < 2 ^ 1030 ∧ (10 : Nat) ^ 331 ≤ 2 ^ 1100 ∧ overflowThreshold < 10 ^ 309 := by
  decide +kernel

/-- **floatBits_correct** — `decimal.floatBits` (scaling loops with `powtab`, denormal shift,
53-bit shift, `RoundedInteger`, rounding carry, denormal exponent, overflow, assembly) returns the
correctly rounded float64 of the decimal's exact value — the specification's `evalFrac`: one
`roundMag` with the range rule — for every well-formed decimal, provided no step of the run had
to drop a non-zero digit from the 800-digit buffer (`trunc` still false at the end). -/
theorem floatBits_correct (d0 : Dc) (hwf : WF d0) (ht0 : d0.trunc = false) (hfin : (floatBits d0).trunc = false) :
    (floatBits d0).toExcept =
      if d0.d = [] then .ok (F64.zero d0.neg)
      else evalFrac d0.neg (decFrac (valOf 10 d0.d) (d0.dp - d0.d.length)).1 (decFrac (valOf 10 d0.d) (d0.dp - d0.d.length)).2 := by
  rw [floatBits_eq] at hfin ⊢
  by_cases hemp : d0.d = []
  · have : d0.d.isEmpty = true := by rw [hemp]; rfl
    rw [if_pos this, if_pos hemp]
    unfold FbRes.toExcept
    simp only [Bool.false_eq_true, if_false]
    rw [fbAssemble_eq d0.neg 0 (-1023) (by decide) (by omega) (by omega)]
    have z2 : ((-1023 : Int) + 1023).toNat = 0 := rfl
    rw [z2]; simp only [Nat.zero_mod, Nat.zero_mul, Nat.add_zero]
    show Except.ok (signed d0.neg 0) = _
    rw [signed_zero]
  · have hne : d0.d.isEmpty = false := by
      cases h : d0.d with
      | nil => exact absurd h hemp
      | cons _ _ => rfl
    rw [if_neg (by rw [hne]; simp), if_neg hemp] at *
    obtain ⟨lo, hi, hpos⟩ := dval_bounds d0 hwf hemp
    have hfr := dval_frac d0
    have hdd := decFrac_snd_pos (valOf 10 d0.d) (d0.dp - d0.d.length)
    generalize (decFrac (valOf 10 d0.d) (d0.dp - d0.d.length)).1 = n0 at *
    generalize (decFrac (valOf 10 d0.d) (d0.dp - d0.d.length)).2 = dd0 at *
    have hddq : (0 : ℚ) < dd0 := by exact_mod_cast hdd
    have hn0 : 0 < n0 := by
      rcases Nat.eq_zero_or_pos n0 with h | h
      · rw [h] at hfr; simp at hfr; linarith
      · exact h
    obtain ⟨bb1, bb2, bb3⟩ := big_bounds
    by_cases hbig : d0.dp > 310
    · rw [if_pos hbig]
      unfold FbRes.toExcept evalFrac
      simp only [if_true]
      have hge : (overflowThreshold : ℚ) ≤ (n0 : ℚ) / dd0 := by
        rw [hfr]
        have h1 : (10 : ℚ) ^ ((309 : ℕ) : ℤ) ≤ (10 : ℚ) ^ (d0.dp - 1) := zpow_le_zpow_right₀ (by norm_num) (by push_cast; omega)
        rw [zpow_natCast] at h1
        have h2 : (overflowThreshold : ℚ) ≤ ((10 ^ 309 : Nat) : ℚ) := by exact_mod_cast Nat.le_of_lt bb3
        push_cast at h2
        linarith
      rw [le_div_iff₀ hddq] at hge
      have : overflowThreshold * dd0 ≤ n0 := by exact_mod_cast hge
      rw [if_pos this]
    · rw [if_neg hbig] at hfin ⊢
      by_cases hsmall : d0.dp < -330
      · rw [if_pos hsmall]
        unfold FbRes.toExcept evalFrac
        simp only [Bool.false_eq_true, if_false]
        have hlt : (n0 : ℚ) / dd0 < 1 / (10 : ℚ) ^ (331 : ℕ) := by
          rw [hfr]
          have h1 : (10 : ℚ) ^ d0.dp ≤ (10 : ℚ) ^ (-((331 : ℕ) : ℤ)) := zpow_le_zpow_right₀ (by norm_num) (by push_cast; omega)
          rw [zpow_neg, zpow_natCast, ← one_div] at h1
          linarith
        rw [div_lt_div_iff₀ hddq (by positivity)] at hlt
        have hnat : n0 * 10 ^ 331 < dd0 := by
          have : ((n0 * 10 ^ 331 : Nat) : ℚ) < ((1 * dd0 : Nat) : ℚ) := by push_cast; linarith
          have := (Nat.cast_lt (α := ℚ)).mp this
          omega
        have h330 : n0 * 10 ^ 330 ≤ dd0 := by
          have : n0 * 10 ^ 330 ≤ n0 * 10 ^ 331 := Nat.mul_le_mul_left _ (Nat.pow_le_pow_right (by decide) (by decide))
          omega
        have hnd : n0 < dd0 := by
          have : n0 * 1 ≤ n0 * 10 ^ 331 := Nat.mul_le_mul_left _ (Nat.pow_pos (by decide))
          omega
        have hT : dd0 ≤ overflowThreshold * dd0 := Nat.le_mul_of_pos_left _ hT_pos
        rw [if_neg (by omega), roundMag_tiny n0 dd0 hdd h330, signed_zero]
        rw [fbAssemble_eq d0.neg 0 (-1023) (by decide) (by omega) (by omega)]
        have z2 : ((-1023 : Int) + 1023).toNat = 0 := rfl
        rw [z2]; simp only [Nat.zero_mod, Nat.zero_mul, Nat.add_zero]
        show Except.ok (signed d0.neg 0) = _
        rw [signed_zero]
      · rw [if_neg hsmall] at hfin ⊢
        -- the two scaling loops
        have htu : (fbUp 2000 (fbDown 2000 d0 0).1 (fbDown 2000 d0 0).2).1.trunc = false :=
          bool_false_of_mono (fbFinish_trunc_mono d0.neg _ _) hfin
        have htd : (fbDown 2000 d0 0).1.trunc = false := bool_false_of_mono (fbUp_trunc_mono 2000 _ _) htu
        have hB : dval d0 < (2 : ℚ) ^ 1030 := by
          have h1 : (10 : ℚ) ^ d0.dp ≤ (10 : ℚ) ^ ((310 : ℕ) : ℤ) := zpow_le_zpow_right₀ (by norm_num) (by push_cast; omega)
          rw [zpow_natCast] at h1
          have h2 : ((10 ^ 310 : Nat) : ℚ) < ((2 ^ 1030 : Nat) : ℚ) := by exact_mod_cast bb1
          push_cast at h2
          exact lt_of_lt_of_le hi (le_trans h1 (le_of_lt h2))
        have hL : 1 / (2 : ℚ) ^ 1100 ≤ dval d0 := by
          have h1 : (10 : ℚ) ^ (-((331 : ℕ) : ℤ)) ≤ (10 : ℚ) ^ (d0.dp - 1) := zpow_le_zpow_right₀ (by norm_num) (by push_cast; omega)
          rw [zpow_neg, zpow_natCast, ← one_div] at h1
          have h2 : ((10 ^ 331 : Nat) : ℚ) ≤ ((2 ^ 1100 : Nat) : ℚ) := by exact_mod_cast bb2
          push_cast at h2
          have : 1 / (2 : ℚ) ^ 1100 ≤ 1 / (10 : ℚ) ^ 331 := one_div_le_one_div_of_le (by positivity) h2
          exact le_trans this (le_trans h1 lo)
        have hL27 : 1 / (2 : ℚ) ^ 1100 ≤ 1 / (2 : ℚ) ^ 27 := by
          have : (2 : ℚ) ^ 27 ≤ (2 : ℚ) ^ 1100 := pow_le_pow_right₀ (by norm_num) (by decide)
          exact one_div_le_one_div_of_le (by positivity) this
        obtain ⟨a1, a2, a3, a4, a5, a6, a7⟩ := fbDown_spec 2000 d0 0 1030 (1 / (2 : ℚ) ^ 1100) hwf hemp ht0 htd hB (by decide) hL hL27
        generalize hfd : fbDown 2000 d0 0 = fd at *
        obtain ⟨b1, b2, b3, b4, b5, b6⟩ := fbUp_spec 2000 fd.1 fd.2 1100 a2 a3 htd htu a4 a6 (by decide)
        generalize hfu : fbUp 2000 fd.1 fd.2 = fu at *
        have hV : (n0 : ℚ) / dd0 = dval fu.1 * (2 : ℚ) ^ fu.2 := by
          rw [hfr, ← a1, ← b1, mul_assoc, ← zpow_add₀ (by norm_num : (2 : ℚ) ≠ 0)]
          congr 2; omega
        -- the binary exponent is moderate
        have hpw : (2 : ℚ) ^ fu.2 = dval d0 / dval fu.1 := by
          rw [← hfr, hV]; field_simp
        have hpf : (0 : ℚ) < dval fu.1 := by linarith
        have k1 := zpow_big fu.2
        have k2 := zpow_small fu.2
        have hm1 := mul_le_mul_of_nonneg_left b5 hpos.le
        have hm2 := mul_lt_mul_of_pos_left b6 hpos
        generalize (2 : ℚ) ^ 1030 = P at *
        generalize (1 : ℚ) / (2 : ℚ) ^ 1100 = Q at *
        clear hL27 bb1 bb2 bb3
        have hW2 : (2 : ℚ) ^ fu.2 ≤ 2 * dval d0 := by
          rw [hpw, div_le_iff₀ hpf]; linarith
        have hW1 : dval d0 < (2 : ℚ) ^ fu.2 := by
          rw [hpw, lt_div_iff₀ hpf]; linarith
        have he2 : fu.2 ≤ 3000 := by
          apply Classical.byContradiction; intro h
          have := k1 (by omega)
          linarith
        have he1 : -3000 ≤ fu.2 := by
          apply Classical.byContradiction; intro h
          have := k2 (by omega)
          linarith
        exact fbFinish_correct _ fu.1 fu.2 n0 dd0 hn0 hdd b2 b3 htu hfin hV b5 b6 he1 he2

end C03
