/-
The C07 parser model on every well-formed expression of the literal fragment: mutual induction
over the surface syntax (term / items of a juxtaposition / juxtaposition / alternatives), with the
fuel thresholds of C07's `parser_fuel` as the invariant.
-/
import Proofs.Lemmas.C06Parse
namespace C06
open Proc.Tok Proc.ParseFilter C07 Proc.FilterText
open Spec.FilterSem (denote denoteAll denoteAny termHolds)

theorem sepOR_length : sepOR.length = 4 := by decide
theorem sepAND_length : sepAND.length = 5 := by decide

theorem Word.length_pos {cx : Ctx} {m : Bool} {k : UInt8} {txt val : Bytes} (h : Word cx m k txt val) :
    1 ≤ txt.length := by
  cases h <;> simp

theorem render_length_pos (cx : Ctx) (s : S) (hok : okS cx s) : 1 ≤ (render s).length := by
  cases s with
  | paren alts => rw [render]; simp
  | neg m => rw [render]; simp
  | star => rw [render]; simp
  | term kt kv v => rw [render]; simp; omega
  | list kt kv vs => rw [render]; simp; omega

theorem delim_renderT (cx : Ctx) (items : List (Bool × S)) (x : Bytes) (hx : Delim cx x) :
    Delim cx (renderT items ++ x) := by
  cases items with
  | nil => simpa [renderT] using hx
  | cons p r =>
    obtain ⟨b, s⟩ := p
    rw [renderT]
    cases b
    · simp only [Bool.false_eq_true, if_false, List.cons_append, List.nil_append]; exact delim_space cx _
    · simp only [if_true, sepAND, List.cons_append]; exact delim_space cx _

theorem exprLoop_stop (cx : Ctx) (f : Nat) (terms : List Filter) (q : Bytes) (e e' : ErrSt) (t : Filter) (cur : Bytes)
    (ha : andExprF cx f q e = ⟨t, cur, e'⟩) (hc : cur = [] ∨ ∃ r, cur = cRP :: r) :
    exprLoop cx (f + 1) terms q e = ⟨finish .or (terms ++ [t]), cur, e'⟩ := by
  rw [exprLoop, ha]
  rcases hc with rfl | ⟨r, rfl⟩
  · simp only [next_nil]
    simp (config := { decide := true }) only [mkTok, if_false]
  · simp only [next_op cx false cRP r e' (by decide)]
    simp (config := { decide := true }) only [mkTok, if_false]

theorem exprLoop_or (cx : Ctx) (f : Nat) (terms : List Filter) (q : Bytes) (e e' : ErrSt) (t : Filter) (r : Bytes)
    (ha : andExprF cx f q e = ⟨t, wOR ++ 0x20 :: r, e'⟩) :
    exprLoop cx (f + 1) terms q e = exprLoop cx f (terms ++ [t]) (0x20 :: r) e' := by
  rw [exprLoop, ha]
  simp only [next_OR cx false _ (delim_space cx r) e']
  simp (config := { decide := true }) only [mkTok, if_true]


theorem length_renderT_cons (b : Bool) (s : S) (r : List (Bool × S)) :
    (renderT ((b, s) :: r)).length = (if b then 5 else 1) + ((render s).length + (renderT r).length) := by
  rw [renderT]; cases b <;> simp [sepAND_length] <;> omega

mutual
/-- a term -/
theorem parseM (cx : Ctx) : ∀ (s : S), okS cx s → ∀ (f : Nat) (tail : Bytes) (e : ErrSt),
    5 * (render s ++ tail).length < f → Delim cx tail →
    ∃ t, matchF cx f (render s ++ tail) e = ⟨t, tail, e⟩ ∧ GoodT t (fun re res i => sem re res i s)
  | .star, _, f, tail, e, hf, _ => by
    match f, hf with
    | f + 1, _ =>
      refine ⟨.op .and [], ?_, GoodT.star.congr (by intros; simp [sem])⟩
      rw [render, List.cons_append, List.nil_append, matchF, next_op cx false cStar tail e (by decide)]
      simp (config := { decide := true }) only [mkTok, if_true, if_false]
  | .term kt kv v, hok, f, tail, e, hf, hd => by
    rw [okS] at hok
    obtain ⟨⟨k1, hk⟩, hv⟩ := hok
    match f, hf with
    | f + 1, _ =>
      rw [render, List.append_assoc, List.cons_append]
      exact ⟨_, matchF_term cx f hk v hv tail hd e, (GoodT.leaf kv v _).congr (by intros; simp [sem])⟩
  | .list kt kv vs, hok, f, tail, e, hf, hd => by
    rw [okS] at hok
    obtain ⟨⟨k1, hk⟩, hne, hw⟩ := hok
    match f, hf with
    | f + 1, _ =>
      have hshape : render (.list kt kv vs) ++ tail = kt ++ cColon :: cLP :: (renderVs vs ++ cRP :: tail) := by
        rw [render]; simp
      rw [hshape]
      exact ⟨_, matchF_list cx f hk vs hne hw tail e, (GoodT.leaves kv _ vs).congr (by intros; simp [sem])⟩
  | .neg m, hok, f, tail, e, hf, hd => by
    rw [okS] at hok
    match f, hf with
    | f + 1, hf =>
      have hlen : (render (.neg m) ++ tail).length = (render m ++ tail).length + 1 := by
        rw [render]; simp
      obtain ⟨t, ht, hg⟩ := parseM cx m hok f tail e (by rw [hlen] at hf; omega) hd
      refine ⟨.op .not [t], ?_, hg.not.congr (by intros; simp [sem])⟩
      rw [render, List.cons_append, matchF, next_op cx false cDash _ e (by decide)]
      simp (config := { decide := true }) only [mkTok, if_true, if_false]
      rw [ht]
  | .paren alts, hok, f, tail, e, hf, hd => by
    rw [okS] at hok
    obtain ⟨hne, hoke⟩ := hok
    have hshape : render (.paren alts) ++ tail = cLP :: (renderE alts ++ cRP :: tail) := by
      rw [render]; simp
    have hlen : (render (.paren alts) ++ tail).length = (renderE alts ++ cRP :: tail).length + 1 := by
      rw [hshape]; simp
    match f, hf with
    | f + 2, hf =>
      obtain ⟨t, ht, hg⟩ := parseE cx alts hne hoke f [] (cRP :: tail) e (fun _ _ _ => false)
        (by rw [hlen] at hf; omega) (Or.inr ⟨tail, rfl⟩) GoodAny.nil
      refine ⟨t, ?_, hg.congr (by intros; simp [sem])⟩
      rw [hshape, matchF, next_op cx false cLP _ e (by decide)]
      simp (config := { decide := true }) only [mkTok, if_true, if_false]
      simp only [exprF, ht]
      simp only [next_op cx false cRP tail e (by decide)]
      simp (config := { decide := true }) only [mkTok, if_true, if_false]
/-- the items of a juxtaposition after the first -/
theorem parseT (cx : Ctx) : ∀ (items : List (Bool × S)), okT cx items →
    ∀ (f : Nat) (terms : List Filter) (tail cur : Bytes) (e : ErrSt) (b : Meaning),
    5 * (renderT items ++ tail).length + 1 < f → ETail tail cur → GoodAll terms b →
    ∃ t, andLoop cx f terms (renderT items ++ tail) e = ⟨t, cur, e⟩ ∧
      GoodT t (fun re res i => b re res i && semT re res i items)
  | [], _, f, terms, tail, cur, e, b, hf, ht, hg => by
    match f, hf with
    | f + 1, _ =>
      refine ⟨_, ?_, hg.finish.congr (by intros; simp [semT])⟩
      rw [renderT, List.nil_append]
      exact andLoop_end cx f terms ht e
  | (bb, s) :: r, hok, f, terms, tail, cur, e, b, hf, ht, hg => by
    rw [okT] at hok
    obtain ⟨hs, hr⟩ := hok
    have hpos := render_length_pos cx s hs
    have hshape : renderT ((bb, s) :: r) ++ tail =
        (if bb then sepAND else [0x20]) ++ (render s ++ (renderT r ++ tail)) := by
      rw [renderT]; simp
    have hlen : (renderT ((bb, s) :: r) ++ tail).length =
        (if bb then 5 else 1) + ((render s).length + ((renderT r).length + tail.length)) := by
      rw [List.length_append, length_renderT_cons]; omega
    have hd : Delim cx (renderT r ++ tail) := delim_renderT cx r tail (ht.delim cx)
    cases bb with
    | false =>
      simp only [Bool.false_eq_true, if_false] at hshape hlen
      match f, hf with
      | f + 1, hf =>
        obtain ⟨t, hm, hgt⟩ := parseM cx s hs f (renderT r ++ tail) e
          (by simp only [List.length_append]; omega) hd
        obtain ⟨t2, hl, hg2⟩ := parseT cx r hr f (terms ++ [t]) tail cur e _
          (by simp only [List.length_append]; omega) ht (hg.snoc hgt)
        refine ⟨t2, ?_, hg2.congr (by intros; simp [semT, Bool.and_assoc])⟩
        rw [hshape, List.cons_append, List.nil_append, andLoop_sp cx s hs, hm]
        exact hl
    | true =>
      simp only [if_true] at hshape hlen
      match f, hf with
      | f + 2, hf =>
        obtain ⟨t, hm, hgt⟩ := parseM cx s hs f (renderT r ++ tail) e
          (by simp only [List.length_append]; omega) hd
        obtain ⟨t2, hl, hg2⟩ := parseT cx r hr f (terms ++ [t]) tail cur e _
          (by simp only [List.length_append]; omega) ht (hg.snoc hgt)
        refine ⟨t2, ?_, hg2.congr (by intros; simp [semT, Bool.and_assoc])⟩
        rw [hshape, andLoop_AND cx s hs, hm]
        exact hl
/-- a juxtaposition -/
theorem parseA (cx : Ctx) : ∀ (a : List (Bool × S)), a ≠ [] → okT cx a →
    ∀ (f : Nat) (tail cur : Bytes) (e : ErrSt),
    5 * (renderA a ++ tail).length + 2 < f → ETail tail cur →
    ∃ t, andExprF cx f (renderA a ++ tail) e = ⟨t, cur, e⟩ ∧ GoodT t (fun re res i => semT re res i a)
  | [], h, _, _, _, _, _, _, _ => absurd rfl h
  | (bb, s) :: r, _, hok, f, tail, cur, e, hf, ht => by
    rw [okT] at hok
    obtain ⟨hs, hr⟩ := hok
    have hpos := render_length_pos cx s hs
    have hshape : renderA ((bb, s) :: r) ++ tail = render s ++ (renderT r ++ tail) := by
      rw [renderA]; simp
    have hd : Delim cx (renderT r ++ tail) := delim_renderT cx r tail (ht.delim cx)
    match f, hf with
    | f + 1, hf =>
      rw [hshape] at hf
      obtain ⟨t, hm, hgt⟩ := parseM cx s hs f (renderT r ++ tail) e (by omega) hd
      obtain ⟨t2, hl, hg2⟩ := parseT cx r hr f [t] tail cur e _
        (by simp only [List.length_append] at hf ⊢; omega) ht (GoodAll.nil.snoc hgt)
      refine ⟨t2, ?_, hg2.congr (by intros; simp [semT])⟩
      rw [hshape, andExprF, hm]
      exact hl
/-- alternatives -/
theorem parseE (cx : Ctx) : ∀ (alts : List (List (Bool × S))), alts ≠ [] → okE cx alts →
    ∀ (f : Nat) (terms : List Filter) (tail : Bytes) (e : ErrSt) (b : Meaning),
    5 * (renderE alts ++ tail).length + 3 < f → (tail = [] ∨ ∃ r, tail = cRP :: r) → GoodAny terms b →
    ∃ t, exprLoop cx f terms (renderE alts ++ tail) e = ⟨t, tail, e⟩ ∧
      GoodT t (fun re res i => b re res i || semE re res i alts)
  | [], h, _, _, _, _, _, _, _, _, _ => absurd rfl h
  | [a], _, hok, f, terms, tail, e, b, hf, htl, hg => by
    rw [okE] at hok
    obtain ⟨hane, hoka, _⟩ := hok
    have ht : ETail tail tail := by
      rcases htl with rfl | ⟨r, rfl⟩
      · exact ETail.nil
      · exact ETail.rp r
    match f, hf with
    | f + 1, hf =>
      rw [renderE] at hf ⊢
      obtain ⟨t, ha, hgt⟩ := parseA cx a hane hoka f tail tail e (by omega) ht
      refine ⟨_, exprLoop_stop cx f terms _ e e t tail ha htl, (hg.snoc hgt).finish.congr (by intros; simp [semE])⟩
  | a :: a2 :: r, _, hok, f, terms, tail, e, b, hf, htl, hg => by
    rw [okE] at hok
    obtain ⟨hane, hoka, hokr⟩ := hok
    have hshape : renderE (a :: a2 :: r) ++ tail =
        renderA a ++ (0x20 :: (wOR ++ 0x20 :: (renderE (a2 :: r) ++ tail))) := by
      rw [renderE]; simp [sepOR]
    have hlen : (renderE (a :: a2 :: r) ++ tail).length =
        (renderA a).length + 4 + (renderE (a2 :: r) ++ tail).length := by
      rw [hshape]; simp [wOR]; omega
    match f, hf with
    | f + 4, hf =>
      rw [hshape]
      obtain ⟨t, ha, hgt⟩ := parseA cx a hane hoka (f + 3) _ _ e
        (by rw [hlen] at hf; simp only [List.length_append, List.length_cons] at hf ⊢; simp [wOR]; omega)
        (ETail.or (renderE (a2 :: r) ++ tail))
      obtain ⟨t2, hl, hg2⟩ := parseE cx (a2 :: r) (by simp) hokr (f + 3) (terms ++ [t]) tail e _
        (by rw [hlen] at hf; omega) htl (hg.snoc hgt)
      refine ⟨t2, ?_, hg2.congr (by intros; simp [semE, Bool.or_assoc])⟩
      rw [exprLoop_or cx (f + 3) terms _ e e t _ ha, exprLoop_space]
      exact hl
end


theorem endCheck_nil (cx : Ctx) : endCheck cx [] none = none := by
  simp only [endCheck, next_nil]
  simp (config := { decide := true }) only [mkTok, if_false]

/-- `parse.ParseFilter` on the text of a well-formed expression -/
theorem parseFilter_render (cx : Ctx) (E : List (List (Bool × S))) (hne : E ≠ []) (hok : okE cx E) :
    ∃ t, parseFilter cx (renderE E) = .ok t ∧ GoodT t (fun re res i => semE re res i E) := by
  obtain ⟨t, ht, hg⟩ := parseE cx E hne hok (5 * (renderE E).length + 5) [] [] none (fun _ _ _ => false)
    (by rw [List.append_nil]; omega) (Or.inl rfl) GoodAny.nil
  refine ⟨t, ?_, hg.congr (fun re res i => Bool.false_or _)⟩
  rw [List.append_nil] at ht
  have hE : exprF cx (fuelFor (renderE E)) (renderE E) none = ⟨t, [], none⟩ := by
    have hfuel : fuelFor (renderE E) = (5 * (renderE E).length + 5) + 1 := rfl
    rw [hfuel, exprF]; exact ht
  unfold parseFilter
  simp only [hE, endCheck_nil]

/-- … in the evaluator's vocabulary -/
theorem filterOfText_render (cx : Ctx) (E : List (List (Bool × S))) (hne : E ≠ []) (hok : okE cx E) :
    ∃ t, filterOfText cx (renderE E) = .ok t ∧ ∀ re res i, denote re res i t = semE re res i E := by
  obtain ⟨t, ht, t', htt, hd⟩ := parseFilter_render cx E hne hok
  refine ⟨t', ?_, hd⟩
  unfold filterOfText
  rw [ht]
  simp only [htt]

end C06
