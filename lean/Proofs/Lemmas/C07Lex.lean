/-
C07 helper lemmas: the token stream of a text (deterministic lexer with the parser's mode
machine), parenthesis balance on token kinds.
-/
import Proofs.Lemmas.C07Bare

namespace C07
open Proc.Tok

/-! ### positions that tokenize alike -/

/-- `q'` behaves like `q` for every tokenizer call (in practice: `q` minus leading white space) -/
def Same (cx : Ctx) (q q' : Bytes) : Prop := ∀ m e, next cx m q' e = next cx m q e

theorem Same.refl (cx : Ctx) (q : Bytes) : Same cx q q := fun _ _ => rfl
theorem Same.trans {cx : Ctx} {a b c : Bytes} (h1 : Same cx a b) (h2 : Same cx b c) : Same cx a c :=
  fun m e => (h2 m e).trans (h1 m e)
theorem Same.symm {cx : Ctx} {a b : Bytes} (h : Same cx a b) : Same cx b a := fun m e => (h m e).symm

theorem ErrOK.none_of_none {cx : Ctx} {q : Bytes} {e e' : ErrSt} (h : ErrOK cx q e e') (h' : e' = none) : e = none := by
  rcases h with h | ⟨h, _⟩
  · rw [← h]; exact h'
  · exact h

/-- an error-free `next` leaves the caller's tokenizer at a position that tokenizes like the
original one (it only skipped white space) -/
theorem nextF_cur_same (cx : Ctx) (m : Bool) : ∀ (f : Nat) (q : Bytes),
    (nextF cx m f q none).err = none → Same cx q (nextF cx m f q none).cur := by
  intro f
  induction f with
  | zero => intro q _; simp only [nextF, mkTok]; exact Same.refl cx q
  | succ f ih =>
    intro q h
    match q with
    | [] => simp only [nextF, mkTok]; exact Same.refl cx _
    | c :: r =>
      simp only [nextF] at h ⊢
      split
      · simp only [mkTok]; exact Same.refl cx _
      · rename_i hop
        split
        · rename_i hsp
          rw [if_neg hop, if_pos hsp] at h
          have hle := isSpaceLen_le cx (c :: r)
          have hlen : ((c :: r).drop (isSpaceLen cx (c :: r))).length < (c :: r).length := by
            rw [List.length_drop]; simp at hle ⊢; omega
          refine Same.trans ?_ (ih _ h)
          intro m' e'
          show next cx m' ((c :: r).drop (isSpaceLen cx (c :: r))) e' = next cx m' (c :: r) e'
          have : next cx m' (c :: r) e' = nextF cx m' (c :: r).length ((c :: r).drop (isSpaceLen cx (c :: r))) e' := by
            simp only [next, nextF, List.length_cons, if_neg hop, if_pos hsp]
          rw [this, nextF_fuel cx m' _ _ e' hlen]
        · rename_i hsp
          rw [if_neg hop, if_neg hsp] at h
          split
          · rename_i hre
            rw [if_pos hre] at h
            simp only [regexpTok] at h ⊢
            split
            · rename_i hs; rw [hs] at h; simp [tokError, mkTok, recErr] at h
            · rename_i x rest hs
              rw [hs] at h
              simp only at h ⊢
              split
              · rename_i hc; rw [if_pos hc] at h; simp [tokError, mkTok, recErr] at h
              · rename_i hc
                rw [if_neg hc] at h
                split
                · simp only [mkTok]; exact Same.refl cx _
                · rename_i hf; rw [if_neg hf] at h; simp [tokError, mkTok, recErr] at h
          · rename_i hre
            rw [if_neg hre] at h
            split
            · rename_i hq
              rw [if_pos hq] at h
              simp only [quotedWord] at h ⊢
              split
              · rename_i hs; rw [hs] at h; simp [tokError, mkTok, recErr] at h
              · rename_i body rest hs
                rw [hs] at h
                simp only at h ⊢
                split
                · rename_i hu; rw [hu] at h; simp [tokError, mkTok, recErr] at h
                · simp only [mkTok]; exact Same.refl cx _
            · simp only [bareWord]
              (repeat' split) <;> (simp only [mkTok]; exact Same.refl cx _)

theorem next_cur_same (cx : Ctx) (m : Bool) (q : Bytes) (h : (next cx m q none).err = none) :
    Same cx q (next cx m q none).cur := nextF_cur_same cx m _ q h

/-! ### the mode machine and the token stream -/

/-- lexer state: key mode, just after `:`, inside a parenthesised value list -/
inductive St | K | V | L
  deriving DecidableEq, Repr

/-- `allowRegexp` in each state -/
def St.mode : St → Bool
  | .K => false
  | .V => true
  | .L => true

/-- state transition of the filter syntax on a token kind -/
def stepF : St → UInt8 → St
  | .K, k => if k == cColon then .V else .K
  | .V, k => if k == cLP then .L else .K
  | .L, k => if k == cRP then .K else .L

/-- projections are tokenized in key mode throughout -/
def stepP : St → UInt8 → St := fun _ _ => .K

/-- `Lex cx δ st q ks st' q'`: starting at `q` in state `st`, the tokenizer (in the mode of the
current state, error tracker empty) yields error-free tokens of kinds `ks` and arrives in state
`st'` at a position that tokenizes like `q'`.  The relation is deterministic (`lex_det`). -/
inductive Lex (cx : Ctx) (δ : St → UInt8 → St) : St → Bytes → List UInt8 → St → Bytes → Prop
  | nil {st : St} {q q' : Bytes} : Same cx q q' → Lex cx δ st q [] st q'
  | cons {st st' : St} {q q' : Bytes} {ks : List UInt8} :
      (next cx st.mode q none).err = none → (next cx st.mode q none).tok.kind ≠ 0 →
      Lex cx δ (δ st (next cx st.mode q none).tok.kind) (next cx st.mode q none).rest ks st' q' →
      Lex cx δ st q ((next cx st.mode q none).tok.kind :: ks) st' q'

theorem Lex.same_left {cx : Ctx} {δ : St → UInt8 → St} {st st' : St} {q q0 q' : Bytes} {ks : List UInt8}
    (hs : Same cx q q0) (h : Lex cx δ st q0 ks st' q') : Lex cx δ st q ks st' q' := by
  cases h with
  | nil h0 => exact Lex.nil (hs.trans h0)
  | cons he hk ht =>
    rw [hs st.mode none] at he hk ht ⊢
    exact Lex.cons he hk ht

theorem Lex.same_right {cx : Ctx} {δ : St → UInt8 → St} {st st' : St} {q q1 q' : Bytes} {ks : List UInt8}
    (h : Lex cx δ st q ks st' q1) (hs : Same cx q1 q') : Lex cx δ st q ks st' q' := by
  induction h with
  | nil h0 => exact Lex.nil (h0.trans hs)
  | cons he hk _ ih => exact Lex.cons he hk (ih hs)

theorem Lex.append {cx : Ctx} {δ : St → UInt8 → St} {st st1 st2 : St} {q q1 q2 : Bytes} {ks1 ks2 : List UInt8}
    (h1 : Lex cx δ st q ks1 st1 q1) (h2 : Lex cx δ st1 q1 ks2 st2 q2) : Lex cx δ st q (ks1 ++ ks2) st2 q2 := by
  induction h1 with
  | nil h0 => exact Lex.same_left h0 h2
  | cons he hk _ ih => exact Lex.cons he hk (ih h2)

/-- one error-free token -/
theorem Lex.single {cx : Ctx} {δ : St → UInt8 → St} (st : St) (q : Bytes)
    (he : (next cx st.mode q none).err = none) (hk : (next cx st.mode q none).tok.kind ≠ 0) :
    Lex cx δ st q [(next cx st.mode q none).tok.kind] (δ st (next cx st.mode q none).tok.kind)
      (next cx st.mode q none).rest :=
  Lex.cons he hk (Lex.nil (Same.refl cx _))

/-- an error-free peek: no token consumed, the caller continues at `cur` -/
theorem Lex.peek {cx : Ctx} {δ : St → UInt8 → St} (st : St) (m : Bool) (q : Bytes)
    (he : (next cx m q none).err = none) : Lex cx δ st q [] st (next cx m q none).cur :=
  Lex.nil (next_cur_same cx m q he)

/-- end of the token stream: the next token (key mode) is EOF and no error is pending -/
def AtEnd (cx : Ctx) (q : Bytes) : Prop :=
  (next cx false q none).tok.kind = 0 ∧ (next cx false q none).err = none

/-- determinism: an error-free token stream that reaches the end of the text in state `K` cannot
coexist with a stream from the same start that reaches a position where the next token is in error -/
theorem lex_det {cx : Ctx} {δ : St → UInt8 → St} {st st1 : St} {q p qend : Bytes} {ks1 ks2 : List UInt8}
    (h1 : Lex cx δ st q ks1 st1 p) (herr : (next cx st1.mode p none).err ≠ none)
    (h2 : Lex cx δ st q ks2 .K qend) (hend : AtEnd cx qend) : False := by
  induction h1 generalizing ks2 with
  | nil h0 =>
    cases h2 with
    | nil h0' =>
      apply herr
      have := hend.2
      rw [h0' false none] at this
      rw [h0 St.K.mode none]
      exact this
    | cons he hk ht =>
      apply herr
      rw [h0 _ none]; exact he
  | cons he hk _ ih =>
    cases h2 with
    | nil h0' =>
      have := hend.1
      rw [h0' false none] at this
      exact hk this
    | cons he' hk' ht' => exact ih herr ht'

/-! ### parenthesis balance on token kinds -/

/-- depth after reading the kinds from depth `d`; `none` if a `)` has no partner -/
def walk : List UInt8 → Nat → Option Nat
  | [], d => some d
  | k :: ks, d =>
    if k == cLP then walk ks (d + 1)
    else if k == cRP then (match d with | 0 => none | d + 1 => walk ks d)
    else walk ks d

/-- balanced: never closes more than it opened, ends at depth 0 -/
def Balanced (ks : List UInt8) : Prop := walk ks 0 = some 0

/-- a self-contained balanced segment -/
def Seg (ks : List UInt8) : Prop := ∀ d, walk ks d = some d
/-- a segment that closes exactly one parenthesis opened before it -/
def Closes (ks : List UInt8) : Prop := ∀ d, walk ks (d + 1) = some d

theorem walk_append (a b : List UInt8) : ∀ d, walk (a ++ b) d = (walk a d).bind (walk b) := by
  induction a with
  | nil => intro d; rfl
  | cons k a ih =>
    intro d
    simp only [List.cons_append, walk]
    split
    · exact ih _
    · split
      · cases d with
        | zero => rfl
        | succ d => exact ih _
      · exact ih _

theorem Seg.nil : Seg [] := fun _ => rfl
theorem Seg.append {a b : List UInt8} (ha : Seg a) (hb : Seg b) : Seg (a ++ b) := by
  intro d; rw [walk_append, ha d]; exact hb d
theorem Seg.single {k : UInt8} (h1 : k ≠ cLP) (h2 : k ≠ cRP) : Seg [k] := by
  intro d; simp [walk, h1, h2]
theorem Seg.cons {k : UInt8} {a : List UInt8} (h1 : k ≠ cLP) (h2 : k ≠ cRP) (ha : Seg a) : Seg (k :: a) :=
  Seg.append (Seg.single h1 h2) ha
theorem Closes.rp : Closes [cRP] := by
  intro d
  have : (cRP == cLP) = false := by decide
  simp [walk, this]
theorem Closes.cons {k : UInt8} {a : List UInt8} (h1 : k ≠ cLP) (h2 : k ≠ cRP) (ha : Closes a) : Closes (k :: a) := by
  intro d; simp only [walk]; simp [h1, h2]; exact ha d
theorem Closes.prepend {a b : List UInt8} (ha : Seg a) (hb : Closes b) : Closes (a ++ b) := by
  intro d; rw [walk_append, ha (d + 1)]; exact hb d
theorem Seg.open_ {a : List UInt8} (ha : Closes a) : Seg (cLP :: a) := by
  intro d; simp only [walk]; simp; exact ha d
theorem Seg.paren {a : List UInt8} (ha : Seg a) : Seg (cLP :: (a ++ [cRP])) :=
  Seg.open_ (Closes.prepend ha Closes.rp)
theorem Seg.balanced {a : List UInt8} (ha : Seg a) : Balanced a := ha 0

end C07
