/-
C17 helper lemmas: first-appearance bookkeeping of addMetrics (invariant: every metric's key
components are in the lists), tables follow unit order, geomean row bookkeeping.
-/
import Model.Legacy.Collection
import Model.Spec.Legacy

namespace C17
open Legacy F64

theorem contains_iff (l : List Str) (s : Str) : l.contains s = true ↔ s ∈ l := by
  simp

theorem addString_of_mem (l : List Str) (s : Str) (h : s ∈ l) : addString l s = l := by
  unfold addString; simp [h]

theorem mem_addString_self (l : List Str) (s : Str) : s ∈ addString l s := by
  unfold addString
  by_cases h : s ∈ l <;> simp [h]

theorem mem_addString_of_mem (l : List Str) (s x : Str) (h : x ∈ l) : x ∈ addString l s := by
  unfold addString
  by_cases hs : s ∈ l <;> simp [hs, h]

/-- every metric's unit, group and config are in the collection's lists -/
def Inv (c : Coll) : Prop :=
  ∀ km ∈ c.metrics, km.1.unit ∈ c.units ∧ km.1.group ∈ c.groups ∧ km.1.config ∈ c.configs

theorem inv_empty : Inv ({} : Coll) := by
  intro km h; simp at h

theorem findMetric_some (ms : List (Key × Metrics)) (k : Key) (m : Metrics)
    (h : findMetric ms k = some m) : (k, m) ∈ ms := by
  unfold findMetric at h
  cases hf : ms.find? (fun p => p.1 == k) with
  | none => simp [hf] at h
  | some p =>
    simp [hf] at h
    have h1 := List.find?_some hf
    have h2 := List.mem_of_find?_eq_some hf
    simp at h1
    obtain ⟨pk, pm⟩ := p
    simp at h1 h
    subst h1; subst h
    exact h2

theorem addValue_lists (c : Coll) (key : Key) (val : Bits) (hinv : Inv c) :
    (addValue c key val).units = addString c.units key.unit ∧
    (addValue c key val).groups = addString c.groups key.group ∧
    (addValue c key val).configs = addString c.configs key.config ∧
    Inv (addValue c key val) := by
  unfold addValue
  cases h : findMetric c.metrics key with
  | some m =>
    have hmem := findMetric_some _ _ _ h
    obtain ⟨hu, hg, hc⟩ := hinv _ hmem
    simp only at hu hg hc
    simp only [addString_of_mem _ _ hu, addString_of_mem _ _ hg, addString_of_mem _ _ hc, true_and]
    intro km hkm
    simp only [List.mem_map] at hkm
    obtain ⟨⟨k0, m0⟩, h0, rfl⟩ := hkm
    have := hinv _ h0
    by_cases hk : (k0 == key) = true <;> simp [hk] <;> exact this
  | none =>
    simp only [true_and]
    intro km hkm
    simp only [List.mem_append, List.mem_singleton] at hkm
    rcases hkm with hkm | rfl
    · obtain ⟨a, b, d⟩ := hinv _ hkm
      exact ⟨mem_addString_of_mem _ _ _ a, mem_addString_of_mem _ _ _ b, mem_addString_of_mem _ _ _ d⟩
    · exact ⟨mem_addString_self _ _, mem_addString_self _ _, mem_addString_self _ _⟩

theorem addValues_lists (c : Coll) (kvs : List (Key × Bits)) (hinv : Inv c) :
    let c' := kvs.foldl (fun c kv => addValue c kv.1 kv.2) c
    c'.units = (kvs.map (·.1.unit)).foldl addString c.units ∧
    c'.groups = (kvs.map (·.1.group)).foldl addString c.groups ∧
    c'.configs = (kvs.map (·.1.config)).foldl addString c.configs ∧
    Inv c' := by
  induction kvs generalizing c with
  | nil => exact ⟨rfl, rfl, rfl, hinv⟩
  | cons kv kvs ih =>
    obtain ⟨hu, hg, hc, hi⟩ := addValue_lists c kv.1 kv.2 hinv
    have := ih (addValue c kv.1 kv.2) hi
    simp only [List.foldl_cons, List.map_cons] at this ⊢
    rw [hu, hg, hc] at this
    exact this

/-! ### the per-group benchmark lists (`Collection.Benchmarks[group]`) -/

theorem lookup_map_set (bm : List (Str × List Str)) (g g' : Str) (bs : List Str) :
    (bm.map (fun (kv : Str × List Str) => if kv.1 == g then (kv.1, bs) else (kv.1, kv.2))).lookup g'
      = if g' = g then (bm.lookup g).map (fun _ => bs) else bm.lookup g' := by
  induction bm with
  | nil => by_cases h : g' = g <;> simp [h]
  | cons kv bm ih =>
    obtain ⟨k, v⟩ := kv
    by_cases hk : k = g
    · subst hk
      by_cases h : g' = k
      · subst h; simp [List.lookup]
      · have : (g' == k) = false := by simpa using h
        simp only [List.map_cons, beq_self_eq_true, if_true, List.lookup, this, h, if_false] at ih ⊢
        exact ih
    · have hkb : (k == g) = false := by simpa using hk
      by_cases h : g' = g
      · subst h
        have : (g' == k) = false := by simpa using (fun e : g' = k => hk e.symm)
        simp only [List.map_cons, hkb, Bool.false_eq_true, if_false, List.lookup, this, if_true] at ih ⊢
        exact ih
      · by_cases h2 : g' = k
        · subst h2; simp [List.lookup, hkb, h]
        · have : (g' == k) = false := by simpa using h2
          simp only [List.map_cons, hkb, Bool.false_eq_true, if_false, List.lookup, this, h] at ih ⊢
          exact ih

theorem lookup_append_single (bm : List (Str × List Str)) (g g' : Str) (bs : List Str) :
    (bm ++ [(g, bs)]).lookup g' = match bm.lookup g' with
      | some v => some v
      | none => if g' = g then some bs else none := by
  induction bm with
  | nil =>
    by_cases h : g' = g
    · subst h; simp [List.lookup]
    · have : (g' == g) = false := by simpa using h
      simp [List.lookup, this, h]
  | cons kv bm ih =>
    obtain ⟨k, v⟩ := kv
    by_cases h : g' = k
    · subst h; simp [List.lookup]
    · have : (g' == k) = false := by simpa using h
      simp only [List.cons_append, List.lookup, this]
      exact ih

theorem benchOf_setBench (bm : List (Str × List Str)) (g g' : Str) (bs : List Str) :
    benchOf (setBench bm g bs) g' = if g' = g then bs else benchOf bm g' := by
  unfold benchOf setBench
  cases hl : bm.lookup g with
  | some v =>
    simp only [Option.isSome_some, if_true]
    have := lookup_map_set bm g g' bs
    rw [show (fun (x : Str × List Str) => match x with | (k, v) => if (k == g) = true then (k, bs) else (k, v))
          = (fun (kv : Str × List Str) => if kv.1 == g then (kv.1, bs) else (kv.1, kv.2)) from by
            funext ⟨k, v⟩; rfl]
    rw [this, hl]
    by_cases h : g' = g <;> simp [h]
  | none =>
    simp only [Option.isSome_none, Bool.false_eq_true, if_false]
    rw [lookup_append_single]
    by_cases h : g' = g
    · subst h; simp [hl]
    · simp only [h, if_false]
      cases bm.lookup g' <;> rfl

/-- every metric's benchmark is listed under its group -/
def InvB (c : Coll) : Prop := ∀ km ∈ c.metrics, km.1.bench ∈ benchOf c.benchmarks km.1.group

theorem invB_empty : InvB ({} : Coll) := by
  intro km h; simp at h

theorem addValue_bench (c : Coll) (key : Key) (val : Bits) (hinv : InvB c) :
    (∀ g, benchOf (addValue c key val).benchmarks g =
        if g = key.group then addString (benchOf c.benchmarks g) key.bench else benchOf c.benchmarks g) ∧
    InvB (addValue c key val) := by
  unfold addValue
  cases h : findMetric c.metrics key with
  | some m =>
    have hmem := findMetric_some _ _ _ h
    have hb := hinv _ hmem
    simp only at hb
    constructor
    · intro g
      by_cases hg : g = key.group
      · subst hg; simp [addString_of_mem _ _ hb]
      · simp [hg]
    · intro km hkm
      simp only [List.mem_map] at hkm
      obtain ⟨⟨k0, m0⟩, h0, rfl⟩ := hkm
      have := hinv _ h0
      by_cases hk : (k0 == key) = true <;> simp [hk] <;> exact this
  | none =>
    constructor
    · intro g
      simp only [benchOf_setBench]
      by_cases hg : g = key.group
      · subst hg; simp
      · simp [hg]
    · intro km hkm
      simp only [List.mem_append, List.mem_singleton] at hkm
      simp only [benchOf_setBench]
      rcases hkm with hkm | rfl
      · have := hinv _ hkm
        by_cases hg : km.1.group = key.group
        · simp only [hg, if_true]
          rw [← hg]; exact mem_addString_of_mem _ _ _ this
        · simp only [hg, if_false]; exact this
      · simp [mem_addString_self]

theorem addValues_bench (c : Coll) (kvs : List (Key × Bits)) (hinv : InvB c) (g : Str) :
    let c' := kvs.foldl (fun c kv => addValue c kv.1 kv.2) c
    benchOf c'.benchmarks g =
      ((kvs.filter (fun kv => decide (kv.1.group = g))).map (·.1.bench)).foldl addString (benchOf c.benchmarks g) ∧
    InvB c' := by
  induction kvs generalizing c with
  | nil => exact ⟨rfl, hinv⟩
  | cons kv kvs ih =>
    obtain ⟨hb, hi⟩ := addValue_bench c kv.1 kv.2 hinv
    have := ih (addValue c kv.1 kv.2) hi
    simp only [List.foldl_cons] at this ⊢
    refine ⟨?_, this.2⟩
    rw [this.1, hb g]
    by_cases hg : kv.1.group = g
    · subst hg
      simp [List.filter_cons]
    · have hg' : ¬ g = kv.1.group := fun e => hg e.symm
      simp [List.filter_cons, hg, hg']

/-! ### which units display as the metric "speed" -/

theorem metricSuffix_values_long : ∀ p ∈ metricSuffix, 5 ≤ p.2.length := by decide +kernel

theorem lookup_none_of_ne (u : Str) (h1 : u ≠ str "ns/op") (h2 : u ≠ str "ns/GC") (h3 : u ≠ str "B/op")
    (h4 : u ≠ str "MB/s") : metricSuffix.lookup u = none := by
  unfold metricSuffix
  have e1 : (u == str "ns/op") = false := by simpa using h1
  have e2 : (u == str "ns/GC") = false := by simpa using h2
  have e3 : (u == str "B/op") = false := by simpa using h3
  have e4 : (u == str "MB/s") = false := by simpa using h4
  simp only [List.lookup, e1, e2, e3, e4]

theorem speed_length : speed.length = 5 := by decide +kernel

theorem metricOf_speed_iff (u : Str) : metricOf u = speed ↔ (u = str "MB/s" ∨ u = str "speed") := by
  by_cases h1 : u = str "ns/op"
  · subst h1; decide +kernel
  by_cases h2 : u = str "ns/GC"
  · subst h2; decide +kernel
  by_cases h3 : u = str "B/op"
  · subst h3; decide +kernel
  by_cases h4 : u = str "MB/s"
  · subst h4; decide +kernel
  have hl := lookup_none_of_ne u h1 h2 h3 h4
  unfold metricOf
  rw [hl]
  simp only [h4, false_or]
  split
  · rename_i s suff hf
    have hmem := List.mem_of_find?_eq_some hf
    have hlen := metricSuffix_values_long _ hmem
    simp only at hlen
    constructor
    · intro h
      have := congrArg List.length h
      have hd : (str "-").length = 1 := by decide +kernel
      rw [speed_length] at this
      simp only [List.length_append, hd] at this
      omega
    · intro h
      -- u = "speed" has no "-unit" suffix: the find? cannot succeed
      subst h
      exfalso
      have : metricSuffix.find? (fun x => match x with | (s, _) => hasSuffix (str "speed") (str "-" ++ s)) = none := by
        decide +kernel
      rw [this] at hf; cases hf
  · exact Iff.rfl

/-! ### tables follow unit order -/

theorem buildTable_unit (T : TestFn) (G : GeoFn) (c : Coll) (a : Bits) (u : Str) (t : Table)
    (h : buildTable T G c a u = some t) : t.unit = u := by
  unfold buildTable at h
  simp only at h
  split at h
  · cases h
  · injection h with h; rw [← h]

theorem filterMap_units_sublist (T : TestFn) (G : GeoFn) (c : Coll) (a : Bits) (us : List Str) :
    List.Sublist ((us.filterMap fun u => buildTable T G c a u).map (·.unit)) us := by
  induction us with
  | nil => simp
  | cons u us ih =>
    simp only [List.filterMap_cons]
    cases h : buildTable T G c a u with
    | none => exact List.Sublist.cons _ ih
    | some t =>
      simp only [List.map_cons]
      rw [buildTable_unit T G c a u t h]
      exact List.Sublist.cons_cons _ ih

theorem tables_units_sublist (T : TestFn) (G : GeoFn) (c : Coll) (a : Bits) :
    List.Sublist ((c.units.filterMap fun u => buildTable T G c a u).map (·.unit)) c.units :=
  filterMap_units_sublist T G c a c.units

/-! ### geomean -/

theorem geoMeansOf_nonzero (c : Coll) (unit : Str) :
    ∀ cfg, ∀ x ∈ geoMeansOf c unit cfg, eq x posZero = false := by
  intro cfg x hx
  unfold geoMeansOf at hx
  simp only [List.mem_flatMap, List.mem_filterMap] at hx
  obtain ⟨g, _, b, _, h⟩ := hx
  split at h
  · rename_i m _
    by_cases hz : eq m.mean posZero = true
    · simp [hz] at h
    · simp [hz] at h
      rw [← h]; simpa using hz
  · simp at h

/-- the cell the geomean row shows for one config -/
def geoCell (G : GeoFn) (c : Coll) (unit cfg : Str) : Metrics :=
  if (geoMeansOf c unit cfg).isEmpty then ({} : Metrics)
  else { unit := unit, mean := G (geoMeansOf c unit cfg) }

theorem geoStep_metrics (G : GeoFn) (c : Coll) (unit : Str) (acc : GeoAcc) (cfg : Str) :
    (geoStep G c unit acc cfg).metrics = acc.metrics ++ [geoCell G c unit cfg] := by
  unfold geoStep geoCell
  by_cases h : (geoMeansOf c unit cfg).isEmpty = true <;> simp [h]

theorem geoStep_maxCount (G : GeoFn) (c : Coll) (unit : Str) (acc : GeoAcc) (cfg : Str) :
    (geoStep G c unit acc cfg).maxCount = max acc.maxCount (geoMeansOf c unit cfg).length := by
  unfold geoStep
  by_cases h : (geoMeansOf c unit cfg).isEmpty = true
  · simp only [h, if_true]
    by_cases h2 : (geoMeansOf c unit cfg).length > acc.maxCount <;> simp [h2] <;> omega
  · simp only [h]
    by_cases h2 : (geoMeansOf c unit cfg).length > acc.maxCount <;> simp [h2] <;> omega

theorem geoFold_metrics (G : GeoFn) (c : Coll) (unit : Str) (cfgs : List Str) (acc : GeoAcc) :
    (cfgs.foldl (geoStep G c unit) acc).metrics = acc.metrics ++ cfgs.map (geoCell G c unit) := by
  induction cfgs generalizing acc with
  | nil => simp
  | cons cfg cfgs ih => simp [List.foldl_cons, ih, geoStep_metrics]

theorem geoFold_maxCount (G : GeoFn) (c : Coll) (unit : Str) (cfgs : List Str) (acc : GeoAcc) :
    1 < (cfgs.foldl (geoStep G c unit) acc).maxCount ↔
      1 < acc.maxCount ∨ ∃ cfg ∈ cfgs, 1 < (geoMeansOf c unit cfg).length := by
  induction cfgs generalizing acc with
  | nil => simp
  | cons cfg cfgs ih =>
    simp only [List.foldl_cons, ih, geoStep_maxCount, List.mem_cons, exists_eq_or_imp]
    constructor
    · rintro (h | h)
      · rcases Nat.lt_or_ge 1 acc.maxCount with h1 | h1
        · exact Or.inl h1
        · right; left; omega
      · right; right; exact h
    · rintro (h | h | h)
      · left; omega
      · left; omega
      · right; exact h

theorem addGeomean_isSome (G : GeoFn) (c : Coll) (unit : Str) (delta : Bool) :
    (addGeomean G c unit delta).isSome ↔ ∃ cfg ∈ c.configs, 1 < (geoMeansOf c unit cfg).length := by
  have key := geoFold_maxCount G c unit c.configs { delta := delta }
  simp only [Nat.not_lt_zero, false_or] at key
  rw [← key]
  unfold addGeomean
  simp only
  by_cases h : (c.configs.foldl (geoStep G c unit) { delta := delta }).maxCount ≤ 1
  · simp [h]
  · simp only [h, if_false]
    constructor
    · intro _; omega
    · intro _; split <;> rfl

theorem addGeomean_metrics (G : GeoFn) (c : Coll) (unit : Str) (delta : Bool) :
    ∀ r, addGeomean G c unit delta = some r →
      r.bench = geoRowName ∧
      r.metrics = c.configs.map (fun cfg =>
        if (geoMeansOf c unit cfg).isEmpty then ({} : Metrics)
        else { unit := unit, mean := G (geoMeansOf c unit cfg) }) := by
  intro r h
  have hm := geoFold_metrics G c unit c.configs { delta := delta }
  simp only [List.nil_append] at hm
  unfold addGeomean at h
  simp only at h
  split at h
  · cases h
  · split at h
    · injection h with h; rw [← h]; exact ⟨rfl, hm⟩
    · injection h with h; rw [← h]; exact ⟨rfl, hm⟩

end C17
