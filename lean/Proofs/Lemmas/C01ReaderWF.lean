/-
C01 helper lemmas, part 7: the converse of C01Tokens — what the reader splits off is well
formed. Fields returned by `takeField` are `tokenOK`, keys accepted by `kvScan` are `keyOK`.
The decoding fact behind it (`decodeRune_char`): a multi-byte decode either fails with width 1
or consumes only continuation-range bytes and depends on nothing else.
-/
import Proofs.Lemmas.C01Clean

namespace C01
open Fmt Spec.RoundTrip

/-- continuation-range byte -/
def contRange (b : UInt8) : Prop := 0x80 ≤ b ∧ b ≤ 0xBF

theorem isCont_range {b : UInt8} (h : isCont b = true) : contRange b := by
  simpa [isCont, contRange] using h

theorem range_of_le {lo hi b : UInt8} (h1 : lo ≤ b) (h2 : b ≤ hi) (hlo : 0x80 ≤ lo) (hhi : hi ≤ 0xBF) :
    contRange b := by
  rw [UInt8.le_iff_toNat_le] at h1 h2 hlo hhi
  constructor <;> rw [UInt8.le_iff_toNat_le] <;> omega

/-- a multi-byte decode either fails with `(RuneError, 1)` or succeeds with width 2–4, consuming
only continuation-range bytes, and then depends on nothing but those bytes -/
theorem decodeRune_char (c : UInt8) (hc : ¬ c < 0x80) (rest : Bytes) :
    decodeRune (c :: rest) = (runeError, 1) ∨
    ∃ r n, decodeRune (c :: rest) = (r, n) ∧ 2 ≤ n ∧ n - 1 ≤ rest.length ∧
      (∀ b ∈ rest.take (n - 1), contRange b) ∧
      (∀ rest', rest'.take (n - 1) = rest.take (n - 1) → decodeRune (c :: rest') = (r, n)) := by
  by_cases h1 : c < 0xC2
  · left; simp [decodeRune, hc, h1]
  by_cases h2 : c < 0xE0
  · rcases rest with _ | ⟨b1, t⟩
    · left; simp [decodeRune, hc, h1, h2]
    · by_cases hb : isCont b1 = true
      · right
        refine ⟨(c.toNat &&& 31) <<< 6 ||| b1.toNat &&& 63, 2, by simp [decodeRune, hc, h1, h2, hb], by omega, by simp, ?_, ?_⟩
        · intro b hb'; simp at hb'; subst hb'; exact isCont_range hb
        · intro rest' hr
          rcases rest' with _ | ⟨b1', t'⟩
          · simp at hr
          · simp at hr; subst hr; simp [decodeRune, hc, h1, h2, hb]
      · left; simp [decodeRune, hc, h1, h2, hb]
  by_cases h3 : c < 0xF0
  · rcases rest with _ | ⟨b1, _ | ⟨b2, t⟩⟩
    · left; simp [decodeRune, hc, h1, h2, h3]
    · left; simp [decodeRune, hc, h1, h2, h3]
    · by_cases hb : ((if c = 0xE0 then (0xA0 : UInt8) else 0x80) ≤ b1 ∧ b1 ≤ (if c = 0xED then (0x9F : UInt8) else 0xBF)) ∧ isCont b2 = true
      · right
        refine ⟨(c.toNat &&& 15) <<< 12 ||| (b1.toNat &&& 63) <<< 6 ||| b2.toNat &&& 63, 3, by simp [decodeRune, hc, h1, h2, h3, hb], by omega, by simp, ?_, ?_⟩
        · intro b hb'
          simp at hb'
          rcases hb' with hb' | hb'
          · subst hb'
            exact range_of_le hb.1.1 hb.1.2 (by split <;> decide) (by split <;> decide)
          · subst hb'; exact isCont_range hb.2
        · intro rest' hr
          rcases rest' with _ | ⟨b1', _ | ⟨b2', t'⟩⟩
          · simp at hr
          · simp at hr
          · simp at hr; obtain ⟨e1, e2⟩ := hr; subst e1 e2; simp [decodeRune, hc, h1, h2, h3, hb]
      · left; simp [decodeRune, hc, h1, h2, h3, hb]
  by_cases h4 : c < 0xF5
  · rcases rest with _ | ⟨b1, _ | ⟨b2, _ | ⟨b3, t⟩⟩⟩
    · left; simp [decodeRune, hc, h1, h2, h3, h4]
    · left; simp [decodeRune, hc, h1, h2, h3, h4]
    · left; simp [decodeRune, hc, h1, h2, h3, h4]
    · by_cases hb : (((if c = 0xF0 then (0x90 : UInt8) else 0x80) ≤ b1 ∧ b1 ≤ (if c = 0xF4 then (0x8F : UInt8) else 0xBF)) ∧ isCont b2 = true) ∧ isCont b3 = true
      · right
        refine ⟨(c.toNat &&& 7) <<< 18 ||| (b1.toNat &&& 63) <<< 12 ||| (b2.toNat &&& 63) <<< 6 ||| b3.toNat &&& 63, 4, by simp [decodeRune, hc, h1, h2, h3, h4, hb], by omega, by simp, ?_, ?_⟩
        · intro b hb'
          simp at hb'
          rcases hb' with hb' | hb' | hb'
          · subst hb'
            exact range_of_le hb.1.1.1 hb.1.1.2 (by split <;> decide) (by split <;> decide)
          · subst hb'; exact isCont_range hb.1.2
          · subst hb'; exact isCont_range hb.2
        · intro rest' hr
          rcases rest' with _ | ⟨b1', _ | ⟨b2', _ | ⟨b3', t'⟩⟩⟩
          · simp at hr
          · simp at hr
          · simp at hr
          · simp at hr; obtain ⟨e1, e2, e3⟩ := hr; subst e1 e2 e3; simp [decodeRune, hc, h1, h2, h3, h4, hb]
      · left; simp [decodeRune, hc, h1, h2, h3, h4, hb]
  · left; simp [decodeRune, hc, h1, h2, h3, h4]

theorem contRange_not_ascii {b : UInt8} (h : contRange b) : ¬ b < 0x80 := by
  intro hb
  have h1 := h.1
  rw [UInt8.le_iff_toNat_le] at h1
  rw [UInt8.lt_iff_toNat_lt] at hb
  have : (0x80 : UInt8).toNat = 128 := rfl
  omega

theorem asciiSpace_of_not_ascii {b : UInt8} (h : ¬ b < 0x80) : asciiSpace b = false := by
  apply asciiSpace_high
  rw [UInt8.lt_iff_toNat_lt] at h
  have : (0x80 : UInt8).toNat = 128 := rfl
  omega

theorem not_contRange_ascii {d : UInt8} (h : d < 0x80) : ¬ contRange d :=
  fun hc => contRange_not_ascii hc h

/-- decoding at `c` gives the same answer when what follows the first `n-1` bytes is replaced by
a single byte outside the continuation range -/
theorem decodeRune_stable (c : UInt8) (f more : Bytes) (d : UInt8) (hd : ¬ contRange d)
    (hn : (decodeRune (c :: (f ++ more))).2 - 1 ≤ f.length) :
    decodeRune (c :: (f ++ [d])) = decodeRune (c :: (f ++ more)) := by
  by_cases hc : c < 0x80
  · simp [decodeRune, hc]
  rcases decodeRune_char c hc (f ++ more) with ho | ⟨r, n, ho, hn2, _, _, htr⟩
  · -- the original fails: so does the test string
    rcases decodeRune_char c hc (f ++ [d]) with ht | ⟨r', n', ht, hn2', _, hcr', htr'⟩
    · rw [ho, ht]
    · exfalso
      have hle : n' - 1 ≤ f.length := by
        by_cases hle : n' - 1 ≤ f.length
        · exact hle
        · exfalso
          have : (f ++ [d]).take (n' - 1) = f ++ [d] := List.take_of_length_le (by simp; omega)
          rw [this] at hcr'
          exact hd (hcr' d (by simp))
      have := htr' (f ++ more) (by
        rw [List.take_append_of_le_length hle, List.take_append_of_le_length hle])
      rw [ho] at this
      simp only [Prod.mk.injEq] at this
      omega
  · rw [ho] at hn
    simp only at hn
    rw [ho]
    exact htr (f ++ [d]) (by
      rw [List.take_append_of_le_length hn, List.take_append_of_le_length hn])

theorem asciiSpace_table : ∀ n : Nat, n < 128 →
    ((asciiSpaceMask >>> n) &&& 1 != 0) = (n == 9 || n == 10 || n == 11 || n == 12 || n == 13 || n == 32) := by
  decide

theorem asciiSpace_eq_space (uc : UC) (c : UInt8) (hc : c < 0x80) : asciiSpace c = uc.space c.toNat := by
  have hn : c.toNat < 128 := by
    rw [UInt8.lt_iff_toNat_lt] at hc; exact hc
  unfold asciiSpace UC.space
  rw [asciiSpace_table c.toNat hn]
  simp [hn]

/-! ### fields the reader splits off -/

theorem take_succ_cons_all {c : UInt8} {x : Bytes} {k : Nat} (h : ∀ b ∈ (c :: x).take (k + 1), contRange b) :
    contRange c ∧ ∀ b ∈ x.take k, contRange b := by
  simp only [List.take_succ_cons, List.mem_cons] at h
  exact ⟨h c (Or.inl rfl), fun b hb => h b (Or.inr hb)⟩

theorem noAsciiSpace_cons {c : UInt8} {f : Bytes} (hc : asciiSpace c = false) (hf : noAsciiSpace f = true) :
    noAsciiSpace (c :: f) = true := by
  simp only [noAsciiSpace, List.all_cons, hc, Bool.not_false, Bool.true_and] at hf ⊢
  exact hf

theorem takeField_conv (uc : UC) : ∀ (x : Bytes) (k : Nat) (f rest : Bytes),
    (∀ b ∈ x.take k, contRange b) → k ≤ x.length → takeField uc k x = (f, rest) →
      noAsciiSpace f = true ∧ k ≤ f.length ∧ takeField uc k (f ++ [32]) = (f, []) ∧ ∃ more, x = f ++ more := by
  intro x
  induction x with
  | nil =>
    intro k f rest _ hk h
    have hk0 : k = 0 := by simpa using hk
    subst hk0
    simp only [takeField, Prod.mk.injEq] at h
    obtain ⟨h1, _⟩ := h
    subst h1
    exact ⟨rfl, Nat.le_refl _, by simp [takeField, asciiSpace, asciiSpaceMask], [], rfl⟩
  | cons c x ih =>
    intro k f rest hcr hk h
    cases k with
    | succ k' =>
      obtain ⟨hcc, hcr'⟩ := take_succ_cons_all hcr
      rw [takeField_succ] at h
      simp only [Prod.mk.injEq] at h
      obtain ⟨h1, h2⟩ := h
      obtain ⟨g1, g2, g3, more, g4⟩ := ih k' (takeField uc k' x).1 rest hcr'
        (by simp only [List.length_cons] at hk; omega) (pair_eq rfl h2)
      subst h1
      refine ⟨noAsciiSpace_cons (asciiSpace_of_not_ascii (contRange_not_ascii hcc)) g1,
        by simp only [List.length_cons]; omega, ?_, more, by rw [List.cons_append, ← g4]⟩
      rw [List.cons_append, takeField_succ, g3]
    | zero =>
      by_cases hc : c < 0x80
      · rw [takeField_ascii uc c x hc] at h
        by_cases hs : asciiSpace c = true
        · simp only [hs, ↓reduceIte, Prod.mk.injEq] at h
          obtain ⟨h1, _⟩ := h
          subst h1
          exact ⟨rfl, Nat.le_refl _, by simp [takeField, asciiSpace, asciiSpaceMask], c :: x, rfl⟩
        · have hs' : asciiSpace c = false := by simpa using hs
          simp only [hs', Bool.false_eq_true, ↓reduceIte, Prod.mk.injEq] at h
          obtain ⟨h1, h2⟩ := h
          obtain ⟨g1, _, g3, more, g4⟩ := ih 0 (takeField uc 0 x).1 rest (by simp) (Nat.zero_le _)
            (pair_eq rfl h2)
          subst h1
          refine ⟨noAsciiSpace_cons hs' g1, Nat.zero_le _, ?_, more, by rw [List.cons_append, ← g4]⟩
          rw [List.cons_append, takeField_ascii uc c _ hc, g3]
          simp [hs']
      · rw [takeField_multi uc c x hc] at h
        by_cases hs : uc.space (decodeRune (c :: x)).1 = true
        · simp only [hs, ↓reduceIte, Prod.mk.injEq] at h
          obtain ⟨h1, _⟩ := h
          subst h1
          exact ⟨rfl, Nat.le_refl _, by simp [takeField, asciiSpace, asciiSpaceMask], c :: x, rfl⟩
        · have hs' : uc.space (decodeRune (c :: x)).1 = false := by simpa using hs
          simp only [hs', Bool.false_eq_true, ↓reduceIte, Prod.mk.injEq] at h
          obtain ⟨h1, h2⟩ := h
          -- the bytes skipped after the rune exist and are continuation bytes
          have hskip : (∀ b ∈ x.take ((decodeRune (c :: x)).2 - 1), contRange b) ∧
              (decodeRune (c :: x)).2 - 1 ≤ x.length := by
            rcases decodeRune_char c hc x with ho | ⟨r, n, ho, _, hl, hcr2, _⟩
            · rw [ho]; simp
            · rw [ho]; exact ⟨hcr2, hl⟩
          obtain ⟨g1, g2, g3, more, g4⟩ := ih _ (takeField uc ((decodeRune (c :: x)).2 - 1) x).1 rest
            hskip.1 hskip.2 (pair_eq rfl h2)
          subst h1
          have hst := decodeRune_stable c (takeField uc ((decodeRune (c :: x)).2 - 1) x).1 more 32
            (not_contRange_ascii (by decide)) (by rw [← g4]; exact g2)
          rw [← g4] at hst
          refine ⟨noAsciiSpace_cons (asciiSpace_of_not_ascii hc) g1, Nat.zero_le _, ?_, more,
            by rw [List.cons_append, ← g4]⟩
          rw [List.cons_append, takeField_multi uc c _ hc, hst]
          simp only [hs', Bool.false_eq_true, ↓reduceIte, g3]

/-- **fields are tokens**: what `splitField` returns as the field satisfies `tokenOK` -/
theorem splitField_tokenOK (uc : UC) (x : Bytes) : tokenOK uc (splitField uc x).1 = true := by
  have h := takeField_conv uc x 0 (takeField uc 0 x).1 (takeField uc 0 x).2 (by simp) (Nat.zero_le _) rfl
  unfold splitField tokenOK
  simp [h.1, h.2.2.1]

theorem fieldsN_tokens (uc : UC) : ∀ (n : Nat) (x : Bytes), ∀ f ∈ fieldsN uc n x, f ≠ [] ∧ tokenOK uc f = true := by
  intro n
  induction n with
  | zero => intro x f hf; simp [fieldsN] at hf
  | succ n ih =>
    intro x f hf
    simp only [fieldsN] at hf
    split at hf
    · simp at hf
    · rename_i hne
      simp only [List.mem_cons] at hf
      rcases hf with hf | hf
      · subst hf
        exact ⟨by intro e; rw [e] at hne; simp at hne, splitField_tokenOK uc x⟩
      · exact ih _ f hf

theorem fields_tokens (uc : UC) (x : Bytes) : ∀ f ∈ fields uc x, f ≠ [] ∧ tokenOK uc f = true :=
  fieldsN_tokens uc _ x


/-! ### keys the reader accepts -/

theorem kvScan_zero (uc : UC) (s : Bool) (c : UInt8) (rest : Bytes) :
    kvScan uc s 0 (c :: rest) =
      if s && !uc.lower (decodeRune (c :: rest)).1 then .reject
      else if uc.space (decodeRune (c :: rest)).1 || uc.upper (decodeRune (c :: rest)).1 then .reject
      else if !s && (decodeRune (c :: rest)).1 == 58 then .found [] rest
      else (kvScan uc false ((decodeRune (c :: rest)).2 - 1) rest).consKey c := by
  simp only [kvScan]

theorem consKey_found_inv {c : UInt8} {s : KVScan} {key val : Bytes} (h : s.consKey c = .found key val) :
    ∃ k1, key = c :: k1 ∧ s = .found k1 val := by
  cases s <;> simp_all [KVScan.consKey]

theorem kvScan_conv (uc : UC) : ∀ (x : Bytes) (s : Bool) (k : Nat) (key val : Bytes),
    (∀ b ∈ x.take k, contRange b) → k ≤ x.length → kvScan uc s k x = .found key val →
      noAsciiSpace key = true ∧ k ≤ key.length ∧ kvScan uc s k (key ++ [58]) = .found key [] ∧
      (∃ more, x = key ++ more) ∧ ∀ b ∈ val, b ∈ x := by
  intro x
  induction x with
  | nil => intro s k key val _ _ h; simp [kvScan] at h
  | cons c x ih =>
    intro s k key val hcr hk h
    cases k with
    | succ k' =>
      obtain ⟨hcc, hcr'⟩ := take_succ_cons_all hcr
      simp only [kvScan] at h
      obtain ⟨k1, hkey, h'⟩ := consKey_found_inv h
      obtain ⟨g1, g2, g3, ⟨more, g4⟩, g5⟩ := ih s k' k1 val hcr'
        (by simp only [List.length_cons] at hk; omega) h'
      subst hkey
      refine ⟨noAsciiSpace_cons (asciiSpace_of_not_ascii (contRange_not_ascii hcc)) g1,
        by simp only [List.length_cons]; omega, ?_, ⟨more, by rw [List.cons_append, ← g4]⟩,
        fun b hb => List.mem_cons_of_mem _ (g5 b hb)⟩
      simp only [List.cons_append, kvScan, g3, KVScan.consKey]
    | zero =>
      rw [kvScan_zero] at h
      split at h
      · exact absurd h (by simp)
      · rename_i c1
        split at h
        · exact absurd h (by simp)
        · rename_i c2
          split at h
          · rename_i c3
            simp only [KVScan.found.injEq] at h
            obtain ⟨hk1, hv1⟩ := h
            subst hk1 hv1
            have hs : s = false := by
              cases s <;> simp_all
            subst hs
            refine ⟨rfl, Nat.le_refl _, ?_, ⟨c :: x, rfl⟩, fun b hb => List.mem_cons_of_mem _ hb⟩
            simp [kvScan, decodeRune, UC.space, UC.upper, KVScan.consKey]
          · rename_i c3
            obtain ⟨k1, hkey, h'⟩ := consKey_found_inv h
            have hskip : (∀ b ∈ x.take ((decodeRune (c :: x)).2 - 1), contRange b) ∧
                (decodeRune (c :: x)).2 - 1 ≤ x.length := by
              by_cases hc : c < 0x80
              · simp [decodeRune, hc]
              · rcases decodeRune_char c hc x with ho | ⟨r, n, ho, _, hl, hcr2, _⟩
                · rw [ho]; simp
                · rw [ho]; exact ⟨hcr2, hl⟩
            obtain ⟨g1, g2, g3, ⟨more, g4⟩, g5⟩ := ih false _ k1 val hskip.1 hskip.2 h'
            have hst := decodeRune_stable c k1 more 58 (not_contRange_ascii (by decide))
              (by rw [← g4]; exact g2)
            rw [← g4] at hst
            have hsp : asciiSpace c = false := by
              by_cases hc : c < 0x80
              · rw [asciiSpace_eq_space uc c hc]
                have : (decodeRune (c :: x)).1 = c.toNat := by simp [decodeRune, hc]
                rw [this] at c2
                simp only [Bool.or_eq_true, not_or, Bool.not_eq_true] at c2
                exact c2.1
              · exact asciiSpace_of_not_ascii hc
            subst hkey
            refine ⟨noAsciiSpace_cons hsp g1, Nat.zero_le _, ?_, ⟨more, by rw [List.cons_append, ← g4]⟩,
              fun b hb => List.mem_cons_of_mem _ (g5 b hb)⟩
            rw [List.cons_append, kvScan_zero, hst]
            simp only [c1, c2, c3, Bool.false_eq_true, ↓reduceIte, g3, KVScan.consKey]

/-- what `parseKeyValueLine` accepts: the key is `keyOK`, the value consists of bytes of the
line and does not start with a blank or tab -/
theorem parseKeyValueLine_conv (uc : UC) (line k v : Bytes) (h : parseKeyValueLine uc line = some (k, v)) :
    keyOK uc k = true ∧ (∀ b ∈ v, b ∈ line) ∧ (v.head?.map isBlank).getD false = false := by
  unfold parseKeyValueLine at h
  split at h
  · rename_i key val hscan
    obtain ⟨g1, _, g3, _, g5⟩ := kvScan_conv uc line true 0 key val (by simp) (Nat.zero_le _) hscan
    split at h
    · exact absurd h (by simp)
    · split at h
      · simp only [Option.some.injEq, Prod.mk.injEq] at h
        obtain ⟨hk, hv⟩ := h
        subst hk hv
        exact ⟨by simp [keyOK, g1, g3], by simp, rfl⟩
      · rename_i c cs
        split at h
        · simp only [Option.some.injEq, Prod.mk.injEq] at h
          obtain ⟨hk, hv⟩ := h
          subst hk hv
          refine ⟨by simp [keyOK, g1, g3], fun b hb => g5 b ((List.dropWhile_sublist _).subset hb), ?_⟩
          have := List.head?_dropWhile_not isBlank (c :: cs)
          cases hh : ((c :: cs).dropWhile isBlank).head? with
          | none => rfl
          | some y => rw [hh] at this; simpa using this
        · exact absurd h (by simp)
  · exact absurd h (by simp)


/-! ### benchmark lines the reader accepts -/

theorem valOK_new (uc : UC) (val tv : UInt64) (unit tu : Bytes) (hne : unit ≠ []) (htok : tokenOK uc unit = true) :
    valOK uc (if tu == unit then ({ value := val, unit := unit, origValue := 0, origUnit := [] } : Val)
      else { value := tv, unit := tu, origValue := val, origUnit := unit }) = true := by
  have hue : unit.isEmpty = false := by cases unit <;> simp_all
  split <;> simp [valOK, hue, htok]

theorem parseValues_conv (O : Oracles) : ∀ (n : Nat) (fs : List Bytes) (acc vals : List Val), fs.length ≤ n →
    (∀ f ∈ fs, f ≠ [] ∧ tokenOK O.uc f = true) → (∀ v ∈ acc, valOK O.uc v = true) →
    parseValues O fs acc = .ok vals → vals ≠ [] ∧ ∀ v ∈ vals, valOK O.uc v = true := by
  intro n
  induction n with
  | zero =>
    intro fs acc vals hl _ hacc h
    have : fs = [] := by cases fs <;> simp_all
    subst this
    simp only [parseValues] at h
    split at h
    · exact absurd h (by simp)
    · rename_i hne
      simp only [Except.ok.injEq] at h
      subst h
      exact ⟨by intro e; simp at e; rw [e] at hne; simp at hne, fun v hv => hacc v (by simpa using hv)⟩
  | succ n ih =>
    intro fs acc vals hl hfs hacc h
    cases fs with
    | nil => exact ih [] acc vals (by simp) hfs hacc h
    | cons f fs =>
      simp only [parseValues] at h
      split at h
      · exact absurd h (by simp)
      · rename_i val _
        split at h
        · exact absurd h (by simp)
        · rename_i unit fs'
          have hu := hfs unit (by simp)
          refine ih fs' _ vals (by simp only [List.length_cons] at hl; omega)
            (fun f' hf' => hfs f' (by simp [hf'])) ?_ h
          intro v hv
          simp only [List.mem_cons] at hv
          rcases hv with hv | hv
          · subst hv; exact valOK_new O.uc _ _ _ _ hu.1 hu.2
          · exact hacc v hv

theorem parseBenchmarkLine_conv (O : Oracles) (line name : Bytes) (iters : Int) (vals : List Val)
    (h : parseBenchmarkLine O line = .ok name iters vals) :
    tokenOK O.uc name = true ∧ vals ≠ [] ∧ ∀ v ∈ vals, valOK O.uc v = true := by
  unfold parseBenchmarkLine at h
  simp only at h
  split at h
  · exact absurd h (by simp)
  · split at h
    · exact absurd h (by simp)
    · rename_i f fs hf
      split at h
      · exact absurd h (by simp)
      · split at h
        · exact absurd h (by simp)
        · rename_i vals' hpv
          simp only [BenchOut.ok.injEq] at h
          obtain ⟨h1, _, h3⟩ := h
          subst h1 h3
          have hall := fields_tokens O.uc (splitField O.uc (List.drop 9 line)).2
          rw [hf] at hall
          have := parseValues_conv O fs.length fs [] vals' (Nat.le_refl _)
            (fun f' hf' => hall f' (List.mem_cons_of_mem _ hf')) (by simp) hpv
          exact ⟨splitField_tokenOK O.uc _, this⟩

/-! ### unit-metadata lines the reader accepts -/

theorem span_loop_spec (p : UInt8 → Bool) : ∀ (l acc : Bytes),
    ∃ a, (List.span.loop p l acc).1 = acc.reverse ++ a ∧ l = a ++ (List.span.loop p l acc).2 ∧
      (∀ x ∈ a, p x = true) ∧ ∀ c, (List.span.loop p l acc).2.head? = some c → p c = false := by
  intro l
  induction l with
  | nil => intro acc; exact ⟨[], by simp [List.span.loop]⟩
  | cons x xs ih =>
    intro acc
    by_cases hx : p x = true
    · obtain ⟨a, h1, h2, h3, h4⟩ := ih (x :: acc)
      refine ⟨x :: a, ?_, ?_, ?_, ?_⟩
      · simp only [List.span.loop, hx]; rw [h1]; simp
      · simp only [List.span.loop, hx]; rw [List.cons_append, ← h2]
      · intro y hy
        simp only [List.mem_cons] at hy
        rcases hy with hy | hy
        · subst hy; exact hx
        · exact h3 y hy
      · simp only [List.span.loop, hx]; exact h4
    · have hx' : p x = false := by simpa using hx
      refine ⟨[], by simp [List.span.loop, hx'], by simp [List.span.loop, hx'], by simp, ?_⟩
      intro c hc
      simp only [List.span.loop, hx', List.head?_cons, Option.some.injEq] at hc
      subst hc; exact hx'

theorem span_spec (p : UInt8 → Bool) (l : Bytes) :
    l = (l.span p).1 ++ (l.span p).2 ∧ (∀ x ∈ (l.span p).1, p x = true) ∧
      ∀ c, (l.span p).2.head? = some c → p c = false := by
  obtain ⟨a, h1, h2, h3, h4⟩ := span_loop_spec p l []
  unfold List.span
  simp only [List.reverse_nil, List.nil_append] at h1
  rw [h1]
  exact ⟨h2, h3, h4⟩

theorem unitField_ok (O : Oracles) (fn : Bytes) (n : Nat) (unit : Bytes) (units : UnitMap) (f : Bytes)
    (hu : unit ≠ [] ∧ tokenOK O.uc unit = true) (hf : tokenOK O.uc f = true) :
    ∀ r ∈ (unitField fn n unit (O.tidy 0x3FF0000000000000 unit).2 units f).2, recOKnoCR O r = true := by
  intro r hr
  obtain ⟨hsp1, hsp2, hsp3⟩ := span_spec (fun c => !(c == 61)) f
  unfold unitField at hr
  generalize hab : f.span (fun c => !(c == 61)) = ab at hsp1 hsp2 hsp3 hr
  obtain ⟨ka, kb⟩ := ab
  simp only at hsp1 hsp2 hsp3 hr
  split at hr
  · simp only [List.mem_singleton] at hr; subst hr; rfl
  · rename_i hcond
    simp only [Bool.or_eq_true, not_or, Bool.not_eq_true] at hcond
    split at hr
    · split at hr
      · simp at hr
      · simp only [List.mem_singleton] at hr; subst hr; rfl
    · simp only [List.mem_singleton] at hr
      subst hr
      -- the field is key ++ '=' ++ value
      have hafter : ∃ value, kb = 61 :: value := by
        cases hh : kb with
        | nil => rw [hh] at hcond; simp at hcond
        | cons c cs =>
          have := hsp3 c (by rw [hh]; rfl)
          simp only [Bool.not_eq_false', beq_iff_eq] at this
          subst this; exact ⟨cs, rfl⟩
      obtain ⟨value, hval⟩ := hafter
      subst hval
      have hkey61 : Bytes.hasByte ka 61 = false := by
        simp only [Bytes.hasByte, List.any_eq_false]
        intro x hx
        have := hsp2 x hx
        simpa using this
      have hue : unit.isEmpty = false := by cases hh : unit <;> simp_all
      have hfeq : ka ++ [61] ++ value = f := by rw [hsp1]; simp
      simp only [recOKnoCR, unitOK, hue, hu.2, hcond.2, hkey61, List.drop_succ_cons, List.drop_zero,
        hfeq, hf, Bool.not_false, Bool.and_self, beq_self_eq_true]

theorem unitFields_ok (O : Oracles) (fn : Bytes) (n : Nat) (unit : Bytes)
    (hu : unit ≠ [] ∧ tokenOK O.uc unit = true) : ∀ (fs : List Bytes) (units : UnitMap),
    (∀ f ∈ fs, tokenOK O.uc f = true) →
    ∀ r ∈ (unitFields fn n unit (O.tidy 0x3FF0000000000000 unit).2 units fs).2, recOKnoCR O r = true := by
  intro fs
  induction fs with
  | nil => intro units _ r hr; simp [unitFields] at hr
  | cons f fs ih =>
    intro units hfs r hr
    simp only [unitFields, List.mem_append] at hr
    rcases hr with hr | hr
    · exact unitField_ok O fn n unit units f hu (hfs f List.mem_cons_self) r hr
    · exact ih _ (fun f' hf' => hfs f' (List.mem_cons_of_mem _ hf')) r hr

theorem parseUnitLine_ok (O : Oracles) (fn : Bytes) (n : Nat) (units : UnitMap) (line : Bytes) :
    ∀ r ∈ (parseUnitLine O fn n units line).2, recOKnoCR O r = true := by
  intro r hr
  unfold parseUnitLine at hr
  have hall := fields_tokens O.uc line
  split at hr
  · simp only [List.mem_singleton] at hr; subst hr; rfl
  · rename_i unit fs hf
    rw [hf] at hall
    exact unitFields_ok O fn n unit (hall unit List.mem_cons_self) fs units
      (fun f' hf' => (hall f' (List.mem_cons_of_mem _ hf')).2) r hr


/-! ### the configuration the reader holds -/

/-- every entry of the reader's configuration came from an accepted `key: value` line -/
def SGood (uc : UC) (s : Store) : Prop :=
  ∀ k v f, s.toMap k = some (v, f) → f = true ∧ keyOK uc k = true ∧ valueOKnoCR v = true

theorem nodup_distinct : ∀ ks : List Bytes, ks.Nodup → distinct ks = true := by
  intro ks
  induction ks with
  | nil => intro _; rfl
  | cons k ks ih =>
    intro h
    simp only [List.nodup_cons] at h
    simp [distinct, h.1, ih h.2]

theorem cfgGet_of_mem' {config : List Cfg} (hnd : (config.map Cfg.key).Nodup) {c : Cfg} (hc : c ∈ config) :
    cfgGet config c.key = some (c.value, c.file) := by
  induction config with
  | nil => simp at hc
  | cons x xs ih =>
    simp only [List.map_cons, List.nodup_cons] at hnd
    rw [cfgGet_cons]
    simp only [List.mem_cons] at hc
    rcases hc with hc | hc
    · subst hc; simp
    · have hne : x.key ≠ c.key := by
        intro e
        apply hnd.1
        rw [e]
        exact List.mem_map.2 ⟨c, hc, rfl⟩
      simp only [hne, ↓reduceIte]
      exact ih hnd.2 hc

theorem live_cfgOK (O : Oracles) {s : Store} (hi : s.Inv) (hg : SGood O.uc s) :
    distinct (s.live.map Cfg.key) = true ∧ ∀ c ∈ s.live, cfgOKnoCR O c = true := by
  have hnd := Store.live_keys_nodup hi
  refine ⟨nodup_distinct _ hnd, fun c hc => ?_⟩
  have h1 := cfgGet_of_mem' hnd hc
  rw [Store.cfgGet_live hi] at h1
  obtain ⟨hf, hk, hv⟩ := hg _ _ _ h1
  simp [cfgOKnoCR, hf, hk, hv]

theorem noLF_of_subset {v line : Bytes} (h : ∀ b ∈ v, b ∈ line) (hl : Bytes.hasByte line 10 = false) :
    Bytes.hasByte v 10 = false := by
  simp only [Bytes.hasByte, List.any_eq_false, beq_iff_eq] at hl ⊢
  exact fun b hb => hl b (h b hb)

/-- one line: the store invariants are kept and every record delivered is well formed -/
theorem scanLine_wf (O : Oracles) (st : RState) (l : Bytes) (hi : st.store.Inv) (hg : SGood O.uc st.store)
    (hl : Bytes.hasByte l 10 = false) :
    (scanLine O st l).1.store.Inv ∧ SGood O.uc (scanLine O st l).1.store ∧
    ∀ r ∈ (scanLine O st l).2, recOKnoCR O r = true := by
  unfold scanLine
  simp only
  split
  · split
    · rename_i name iters vals hp
      refine ⟨hi, hg, fun r hr => ?_⟩
      simp only [List.mem_singleton] at hr
      subst hr
      obtain ⟨h1, h2, h3⟩ := parseBenchmarkLine_conv O l name iters vals hp
      obtain ⟨g1, g2⟩ := live_cfgOK O hi hg
      have hve : vals.isEmpty = false := by cases vals <;> simp_all
      simp only [recOKnoCR, resOKnoCR, g1, hve, h1, Bool.not_false, Bool.and_true, Bool.true_and,
        Bool.and_eq_true, List.all_eq_true]
      exact ⟨g2, h3⟩
    · exact ⟨hi, hg, fun r hr => by simp at hr⟩
    · refine ⟨hi, hg, fun r hr => ?_⟩
      simp only [List.mem_singleton] at hr; subst hr; rfl
  · split
    · refine ⟨hi, hg, fun r hr => ?_⟩
      exact parseUnitLine_ok O _ _ _ _ r hr
    · split
      · rename_i key val hp
        obtain ⟨hk, hsub, hhead⟩ := parseKeyValueLine_conv O.uc l key val hp
        refine ⟨(Store.set_spec hi key val true).1, ?_, fun r hr => by simp at hr⟩
        intro k v f hm
        simp only at hm
        rw [toMap_set hi] at hm
        by_cases hkk : k = key
        · subst hkk
          by_cases hv : val = []
          · simp [hv] at hm
          · simp only [↓reduceIte, hv, Option.some.injEq, Prod.mk.injEq] at hm
            obtain ⟨hv1, hf1⟩ := hm
            subst hv1
            have hne : val.isEmpty = false := by cases val <;> simp_all
            refine ⟨hf1.symm, hk, ?_⟩
            simp [valueOKnoCR, hne, noLF_of_subset hsub hl, hhead]
        · simp only [hkk, ↓reduceIte] at hm
          exact hg k v f hm
      · exact ⟨hi, hg, fun r hr => by simp at hr⟩

/-! ### unit metadata is delivered once per setting -/

/-- `ps` are settings made on the way from `u` to `u'`: new, pairwise different, kept -/
structure UStep (u u' : UnitMap) (ps : List (Bytes × Bytes)) : Prop where
  nodup : ps.Nodup
  fresh : ∀ p ∈ ps, u.get p.1 p.2 = none
  mono : ∀ a b, (u.get a b).isSome → (u'.get a b).isSome
  kept : ∀ p ∈ ps, (u'.get p.1 p.2).isSome

theorem ustep_refl (u : UnitMap) : UStep u u [] :=
  ⟨List.nodup_nil, fun _ h => by simp at h, fun _ _ h => h, fun _ h => by simp at h⟩

theorem ustep_trans {u u1 u2 : UnitMap} {p1 p2 : List (Bytes × Bytes)} (h1 : UStep u u1 p1)
    (h2 : UStep u1 u2 p2) : UStep u u2 (p1 ++ p2) := by
  refine ⟨?_, ?_, fun a b h => h2.mono a b (h1.mono a b h), ?_⟩
  · rw [List.nodup_append]
    refine ⟨h1.nodup, h2.nodup, fun a ha b hb hab => ?_⟩
    subst hab
    have := h1.kept a ha
    rw [h2.fresh a hb] at this
    simp at this
  · intro p hp
    simp only [List.mem_append] at hp
    rcases hp with hp | hp
    · exact h1.fresh p hp
    · cases hh : u.get p.1 p.2 with
      | none => rfl
      | some x =>
        have := h1.mono p.1 p.2 (by simp [hh])
        rw [h2.fresh p hp] at this
        simp at this
  · intro p hp
    simp only [List.mem_append] at hp
    rcases hp with hp | hp
    · exact h2.mono _ _ (h1.kept p hp)
    · exact h2.kept p hp

theorem ustep_insert (u : UnitMap) (md : UnitMeta) (h : u.get md.unit md.key = none) :
    UStep u (u.insert md) [(md.unit, md.key)] := by
  refine ⟨by simp, fun p hp => by simp at hp; subst hp; exact h, fun a b hab => ?_, fun p hp => ?_⟩
  · rw [unitMap_get_insert]
    cases hh : u.get a b with
    | none => rw [hh] at hab; simp at hab
    | some x => simp
  · simp only [List.mem_singleton] at hp
    subst hp
    rw [unitMap_get_insert, h]
    simp

theorem unitKeys_append (a b : List Rec) : unitKeys (a ++ b) = unitKeys a ++ unitKeys b := by
  simp [unitKeys, List.filterMap_append]

theorem unitField_ustep (fn : Bytes) (n : Nat) (unit tidy : Bytes) (units : UnitMap) (f : Bytes) :
    UStep units (unitField fn n unit tidy units f).1 (unitKeys (unitField fn n unit tidy units f).2) := by
  unfold unitField
  simp only
  split
  · simpa [unitKeys] using ustep_refl units
  · split
    · split
      · simpa [unitKeys] using ustep_refl units
      · simpa [unitKeys] using ustep_refl units
    · rename_i hnone
      simpa [unitKeys] using ustep_insert units
        ⟨tidy, (f.span (fun c => !(c == 61))).1, unit, ((f.span (fun c => !(c == 61))).2).drop 1, fn, n⟩ hnone

theorem unitFields_ustep (fn : Bytes) (n : Nat) (unit tidy : Bytes) : ∀ (fs : List Bytes) (units : UnitMap),
    UStep units (unitFields fn n unit tidy units fs).1 (unitKeys (unitFields fn n unit tidy units fs).2) := by
  intro fs
  induction fs with
  | nil => intro units; simpa [unitFields, unitKeys] using ustep_refl units
  | cons f fs ih =>
    intro units
    simp only [unitFields, unitKeys_append]
    exact ustep_trans (unitField_ustep fn n unit tidy units f) (ih _)

theorem scanLine_ustep (O : Oracles) (st : RState) (l : Bytes) :
    UStep st.units (scanLine O st l).1.units (unitKeys (scanLine O st l).2) := by
  unfold scanLine
  simp only
  split
  · split <;> simpa [unitKeys] using ustep_refl st.units
  · split
    · unfold parseUnitLine
      split
      · simpa [unitKeys] using ustep_refl st.units
      · exact unitFields_ustep _ _ _ _ _ _
    · split <;> simpa [unitKeys] using ustep_refl st.units

theorem readLines_ustep (O : Oracles) : ∀ (ls : List Bytes) (st : RState),
    UStep st.units (finalState O st ls).units (unitKeys (readLines O st ls)) := by
  intro ls
  induction ls with
  | nil => intro st; simpa [readLines, finalState, unitKeys] using ustep_refl st.units
  | cons l ls ih =>
    intro st
    simp only [readLines, finalState, unitKeys_append]
    exact ustep_trans (scanLine_ustep O st l) (ih _)

theorem nodup_distinctPairs : ∀ ps : List (Bytes × Bytes), ps.Nodup → distinctPairs ps = true := by
  intro ps
  induction ps with
  | nil => intro _; rfl
  | cons p ps ih =>
    intro h
    simp only [List.nodup_cons] at h
    simp [distinctPairs, h.1, ih h.2]

/-! ### the whole stream -/

theorem readLines_wf (O : Oracles) : ∀ (ls : List Bytes) (st : RState), st.store.Inv → SGood O.uc st.store →
    (∀ l ∈ ls, Bytes.hasByte l 10 = false) → ∀ r ∈ readLines O st ls, recOKnoCR O r = true := by
  intro ls
  induction ls with
  | nil => intro st _ _ _ r hr; simp [readLines] at hr
  | cons l ls ih =>
    intro st hi hg hl r hr
    obtain ⟨h1, h2, h3⟩ := scanLine_wf O st l hi hg (hl l List.mem_cons_self)
    simp only [readLines, List.mem_append] at hr
    rcases hr with hr | hr
    · exact h3 r hr
    · exact ih _ h1 h2 (fun l' hl' => hl l' (List.mem_cons_of_mem _ hl')) r hr

theorem dropCR_noLF {l : Bytes} (h : Bytes.hasByte l 10 = false) : Bytes.hasByte (dropCR l) 10 = false := by
  unfold dropCR
  split
  · simp only [Bytes.hasByte, List.any_eq_false, beq_iff_eq] at h ⊢
    exact fun b hb => h b (List.dropLast_subset _ hb)
  · exact h

theorem splitLinesAux_noLF : ∀ (rest cur : Bytes), Bytes.hasByte cur 10 = false →
    ∀ l ∈ splitLinesAux cur rest, Bytes.hasByte l 10 = false := by
  intro rest
  induction rest with
  | nil =>
    intro cur hc l hl
    simp only [splitLinesAux] at hl
    split at hl
    · simp at hl
    · simp only [List.mem_singleton] at hl
      subst hl
      exact dropCR_noLF (by simpa [Bytes.hasByte] using hc)
  | cons c rest ih =>
    intro cur hc l hl
    simp only [splitLinesAux] at hl
    split at hl
    · simp only [List.mem_cons] at hl
      rcases hl with hl | hl
      · subst hl; exact dropCR_noLF (by simpa [Bytes.hasByte] using hc)
      · exact ih [] rfl l hl
    · rename_i hne
      refine ih (c :: cur) ?_ l hl
      simp only [Bytes.hasByte, List.any_cons, Bool.or_eq_false_iff]
      exact ⟨by simpa using hne, hc⟩

theorem sgood_reset (uc : UC) (s : Store) : SGood uc s.reset := by
  intro k v f h
  rw [toMap_reset'] at h
  simp at h

/-- **reader_results_WF**: whatever the text, the stream the model reader delivers satisfies
every clause of `WF` except (possibly) the CR clause. -/
theorem reader_results_WF (O : Oracles) (fn text : Bytes) : WFnoCR O (readAll O fn text) = true := by
  unfold readAll
  have hst : (RState.zero.reset fn []).store = Store.empty.reset := rfl
  have hrecs := readLines_wf O (splitLines text) (RState.zero.reset fn [])
    (by rw [hst]; exact Store.inv_reset _) (by rw [hst]; exact sgood_reset _ _)
    (splitLinesAux_noLF text [] rfl)
  have hu := readLines_ustep O (splitLines text) (RState.zero.reset fn [])
  simp only [WFnoCR, Bool.and_eq_true, List.all_eq_true]
  exact ⟨hrecs, nodup_distinctPairs _ hu.nodup⟩


/-! ### iteration counts the reader delivers come from its `Atoi` -/

def ItersFrom (O : Oracles) : Rec → Prop
  | .result res => ∃ f, O.atoi f = .ok res.iters
  | _ => True

theorem parseBenchmarkLine_iters (O : Oracles) (line name : Bytes) (iters : Int) (vals : List Val)
    (h : parseBenchmarkLine O line = .ok name iters vals) : ∃ f, O.atoi f = .ok iters := by
  unfold parseBenchmarkLine at h
  simp only at h
  split at h
  · exact absurd h (by simp)
  · split at h
    · exact absurd h (by simp)
    · rename_i f fs hf
      split at h
      · exact absurd h (by simp)
      · rename_i it hat
        split at h
        · exact absurd h (by simp)
        · simp only [BenchOut.ok.injEq] at h
          exact ⟨f, by rw [hat, h.2.1]⟩

theorem unitRecs_noResult (fn : Bytes) (n : Nat) (unit tidy : Bytes) : ∀ (fs : List Bytes) (units : UnitMap),
    ∀ r ∈ (unitFields fn n unit tidy units fs).2, ∀ res, r ≠ .result res := by
  intro fs
  induction fs with
  | nil => intro units r hr; simp [unitFields] at hr
  | cons f fs ih =>
    intro units r hr res
    simp only [unitFields, List.mem_append] at hr
    rcases hr with hr | hr
    · unfold unitField at hr
      simp only at hr
      split at hr
      · simp only [List.mem_singleton] at hr; subst hr; simp
      · split at hr
        · split at hr
          · simp at hr
          · simp only [List.mem_singleton] at hr; subst hr; simp
        · simp only [List.mem_singleton] at hr; subst hr; simp
    · exact ih _ r hr res

theorem scanLine_iters (O : Oracles) (st : RState) (l : Bytes) : ∀ r ∈ (scanLine O st l).2, ItersFrom O r := by
  intro r hr
  unfold scanLine at hr
  simp only at hr
  split at hr
  · split at hr
    · rename_i name iters vals hp
      simp only [List.mem_singleton] at hr
      subst hr
      exact parseBenchmarkLine_iters O l name iters vals hp
    · simp at hr
    · simp only [List.mem_singleton] at hr; subst hr; trivial
  · split at hr
    · cases r with
      | result res =>
        exfalso
        unfold parseUnitLine at hr
        split at hr
        · simp at hr
        · exact unitRecs_noResult _ _ _ _ _ _ _ hr res rfl
      | unit u => trivial
      | err e => trivial
    · split at hr <;> simp at hr

theorem readLines_iters (O : Oracles) : ∀ (ls : List Bytes) (st : RState), ∀ r ∈ readLines O st ls, ItersFrom O r := by
  intro ls
  induction ls with
  | nil => intro st r hr; simp [readLines] at hr
  | cons l ls ih =>
    intro st r hr
    simp only [readLines, List.mem_append] at hr
    rcases hr with hr | hr
    · exact scanLine_iters O st l r hr
    · exact ih _ r hr

end C01
