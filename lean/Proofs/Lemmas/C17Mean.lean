/-
C17 helper lemmas: one step `m' = m + (x − m)/k` of the float mean loop stays between m and x
(in signed exact value), provided x − m does not overflow.  Built on the read-only float64
library (F64Sign / F64RoundQ / F64Arith): every operation is `roundQ` of the exact result,
`roundQ` is monotone and the identity on floats and on dyadic rationals.
-/
import Model.Legacy.Collection
import Proofs.Lemmas.F64Arith
import Mathlib.Data.Int.Log
import Mathlib.Data.Rat.Floor

namespace C17
open Legacy F64

/-- signed value of a rounded rational -/
noncomputable def sR (q : ℚ) : ℚ := sval (roundQ q)

theorem sR_mono {q1 q2 : ℚ} (h : q1 ≤ q2) : sR q1 ≤ sR q2 := roundQ_mono q1 q2 h

theorem sR_zero : sR 0 = 0 := by unfold sR; rw [roundQ_zero, sval_posZero]

theorem sR_self (x : Bits) (hf : isFinite x = true) : sR (sval x) = sval x := by
  unfold sR
  by_cases hz : isZero x = true
  · rw [sval_eq_zero_of_isZero hz, roundQ_zero, sval_posZero]
  · rw [roundQ_exact x hf (by simpa using hz)]

theorem sR_neg (q : ℚ) : sR (-q) = -sR q := by
  unfold sR
  by_cases h : q = 0
  · subst h; simp [roundQ_zero, sval_posZero]
  · rw [roundQ_neg q h, sval_neg]

theorem sR_nonneg {q : ℚ} (h : 0 ≤ q) : 0 ≤ sR q := by
  have := sR_mono h; rwa [sR_zero] at this

theorem sR_abs (q : ℚ) : |sR q| = sR |q| := by
  rcases le_total 0 q with h | h
  · rw [abs_of_nonneg h, abs_of_nonneg (sR_nonneg h)]
  · have h' : 0 ≤ -q := by linarith
    have : sR q = -sR (-q) := by rw [sR_neg]; ring
    rw [abs_of_nonpos h, this, _root_.abs_neg, abs_of_nonneg (sR_nonneg h')]

/-- exactness on powers of two in range -/
theorem sR_two_zpow (e : Int) (h1 : -1074 ≤ e) (h2 : e < 1024) : sR ((2 : ℚ) ^ e) = (2 : ℚ) ^ e := by
  have hp : (0 : ℚ) < (2 : ℚ) ^ e := zpow_pos (by norm_num) e
  exact (roundQ_dyadic ((2 : ℚ) ^ e) 1 e (by norm_num) h1 (by rw [abs_of_pos hp]; simp)
    (by rw [abs_of_pos hp]; exact zpow_lt_zpow_right₀ (by norm_num) h2)).1

/-- 2^-1075 is a tie between 0 and the smallest subnormal: it rounds to (even) zero -/
theorem sR_half_min : sR ((2 : ℚ) ^ (-1075 : Int)) = 0 := by
  have h : roundRat false 1 (2 ^ 1075) = posZero := by decide +kernel
  have e : (2 : ℚ) ^ (-1075 : Int) = ((1 : ℕ) : ℚ) / ((2 ^ 1075 : ℕ) : ℚ) := by
    rw [zpow_neg, zpow_ofNat]; push_cast; rw [one_div]
  unfold sR
  rw [e, ← roundRat_false_eq 1 (2 ^ 1075) (by positivity), h, sval_posZero]

theorem val_posInf : val posInf = (2 : ℚ) ^ (1024 : Int) := by
  unfold val
  have h1 : mant posInf = 2 ^ 52 := by decide
  have h2 : expo posInf = 972 := by decide
  rw [h1, h2]
  have : ((2 ^ 52 : ℕ) : ℚ) = (2 : ℚ) ^ (52 : Int) := by norm_num
  rw [this, ← zpow_add₀ (by norm_num : (2 : ℚ) ≠ 0)]
  norm_num

/-- finite ⇔ magnitude below 2^1024 -/
theorem isFinite_iff_sval (b : Bits) : isFinite b = true ↔ |sval b| < (2 : ℚ) ^ (1024 : Int) := by
  rw [abs_sval, ← val_posInf, val_lt_iff, isFinite_iff]
  have : magOf posInf = 0x7FF0000000000000 := by decide
  rw [this]

/-- **shrink** — the crux: for δ > 0 whose rounding does not overflow and k ≥ 2,
`0 ≤ R(R(δ)/k) ≤ δ` in exact value, and also `≤ R(δ)`. -/
theorem shrink (δ : ℚ) (hδ : 0 < δ) (hfin : sR δ < (2 : ℚ) ^ (1024 : Int)) (k : ℚ) (hk : 2 ≤ k) :
    0 ≤ sR (sR δ / k) ∧ sR (sR δ / k) ≤ δ := by
  have hD : 0 ≤ sR δ := sR_nonneg hδ.le
  have hk0 : (0 : ℚ) < k := by linarith
  have hdiv : sR δ / k ≤ sR δ / 2 := div_le_div_of_nonneg_left hD (by norm_num) hk
  refine ⟨sR_nonneg (div_nonneg hD hk0.le), ?_⟩
  have two_ne : (2 : ℚ) ≠ 0 := by norm_num
  by_cases hA : δ < (2 : ℚ) ^ (-1074 : Int)
  · -- below the smallest subnormal
    have h1 : sR δ ≤ (2 : ℚ) ^ (-1074 : Int) := by
      have := sR_mono hA.le
      rwa [sR_two_zpow (-1074) (by norm_num) (by norm_num)] at this
    have h2 : sR δ / 2 ≤ (2 : ℚ) ^ (-1075 : Int) := by
      have : (2 : ℚ) ^ (-1074 : Int) = (2 : ℚ) ^ (-1075 : Int) * 2 := by
        rw [← zpow_add_one₀ two_ne]; norm_num
      rw [this] at h1; linarith
    have := sR_mono (le_trans hdiv h2)
    rw [sR_half_min] at this
    linarith
  · have hA' : (2 : ℚ) ^ (-1074 : Int) ≤ δ := not_lt.mp hA
    by_cases hB : (2 : ℚ) ^ (1023 : Int) ≤ δ
    · have h2 : sR δ / 2 ≤ (2 : ℚ) ^ (1023 : Int) := by
        have : (2 : ℚ) ^ (1024 : Int) = (2 : ℚ) ^ (1023 : Int) * 2 := by
          rw [← zpow_add_one₀ two_ne]; norm_num
        rw [this] at hfin; linarith
      have := sR_mono (le_trans hdiv h2)
      rw [sR_two_zpow 1023 (by norm_num) (by norm_num)] at this
      linarith
    · have hB' : δ < (2 : ℚ) ^ (1023 : Int) := not_le.mp hB
      have hlo : ((2 : ℕ) : ℚ) ^ Int.log 2 δ ≤ δ := Int.zpow_log_le_self (by norm_num) hδ
      have hhi : δ < ((2 : ℕ) : ℚ) ^ (Int.log 2 δ + 1) := Int.lt_zpow_succ_log_self (by norm_num) δ
      rw [Nat.cast_ofNat] at hlo hhi
      generalize Int.log 2 δ = e at hlo hhi
      have he1 : e < 1023 := (zpow_lt_zpow_iff_right₀ (by norm_num : (1 : ℚ) < 2)).mp (lt_of_le_of_lt hlo hB')
      have he2 : -1074 < e + 1 :=
        (zpow_lt_zpow_iff_right₀ (by norm_num : (1 : ℚ) < 2)).mp (lt_of_le_of_lt hA' hhi)
      have h1 : sR δ ≤ (2 : ℚ) ^ (e + 1) := by
        have := sR_mono hhi.le
        rwa [sR_two_zpow (e + 1) (by omega) (by omega)] at this
      have h2 : sR δ / 2 ≤ (2 : ℚ) ^ e := by
        rw [zpow_add_one₀ two_ne] at h1; linarith
      have := sR_mono (le_trans hdiv h2)
      rw [sR_two_zpow e (by omega) (by omega)] at this
      linarith

theorem shrink_le_self (δ : ℚ) (hδ : 0 < δ) (x : Bits) (hx : isFinite x = true) (hxs : sval x = sR δ)
    (k : ℚ) (hk : 1 ≤ k) : sR (sR δ / k) ≤ sR δ := by
  have hD : 0 ≤ sR δ := sR_nonneg hδ.le
  have : sR δ / k ≤ sR δ := div_le_self hD hk
  have h := sR_mono this
  rwa [← hxs, sR_self x hx, hxs] at h

/-! ### one step of the loop -/

theorem isZero_false_of_sval {K : Bits} {k : ℚ} (h : sval K = k) (hk : k ≠ 0) : isZero K = false := by
  cases hz : isZero K
  · rfl
  · exact absurd (h ▸ sval_eq_zero_of_isZero hz) hk

/-- **step_between** — `m' = m + (x − m)/K` lies between m and x and is finite, when m, x are finite,
K is the float of k ≥ 2 and x − m does not overflow. -/
theorem step_between (m x K : Bits) (k : ℚ) (hm : isFinite m = true) (hx : isFinite x = true)
    (hK : isFinite K = true) (hKs : sval K = k) (hk : 2 ≤ k) (hd : isFinite (sub x m) = true) :
    isFinite (add m (div (sub x m) K)) = true ∧
    min (sval m) (sval x) ≤ sval (add m (div (sub x m) K)) ∧
    sval (add m (div (sub x m) K)) ≤ max (sval m) (sval x) := by
  have zK : isZero K = false := isZero_false_of_sval hKs (by linarith)
  have hsd : sval (sub x m) = sR (sval x - sval m) := sval_sub x m hx hm
  have hst : sval (div (sub x m) K) = sR (sval (sub x m) / k) := by
    rw [sval_div _ _ hd hK zK, hKs]; rfl
  have hdfin := (isFinite_iff_sval _).mp hd
  -- the quotient is no larger than the difference, hence finite
  have habs_t : |sval (div (sub x m) K)| ≤ |sval (sub x m)| := by
    rw [hst, sR_abs, abs_div, abs_of_pos (by linarith : (0 : ℚ) < k)]
    have h1 : |sval (sub x m)| / k ≤ |sval (sub x m)| := div_le_self (abs_nonneg _) (by linarith)
    have := sR_mono h1
    have habs : sR |sval (sub x m)| = |sval (sub x m)| := by
      rw [← sR_abs, sR_self _ hd]
    rwa [habs] at this
  have htfin : isFinite (div (sub x m) K) = true :=
    (isFinite_iff_sval _).mpr (lt_of_le_of_lt habs_t hdfin)
  have hsm' : sval (add m (div (sub x m) K)) = sR (sval m + sval (div (sub x m) K)) :=
    sval_add m _ hm htfin
  have key : min (sval m) (sval x) ≤ sval (add m (div (sub x m) K)) ∧
      sval (add m (div (sub x m) K)) ≤ max (sval m) (sval x) := by
    rw [hsm', hst, hsd]
    rcases lt_trichotomy (sval x - sval m) 0 with hneg | hzero | hpos
    · -- x below m
      set δ := sval m - sval x with hδ
      have hδpos : 0 < δ := by linarith
      have e1 : sval x - sval m = -δ := by rw [hδ]; ring
      have hfin' : sR δ < (2 : ℚ) ^ (1024 : Int) := by
        rw [hsd, e1, sR_neg, _root_.abs_neg] at hdfin
        exact lt_of_le_of_lt (le_abs_self _) hdfin
      obtain ⟨u0, u1⟩ := shrink δ hδpos hfin' k hk
      rw [e1, sR_neg, neg_div, sR_neg]
      have lo : sval x ≤ sval m + -sR (sR δ / k) := by linarith
      have hi : sval m + -sR (sR δ / k) ≤ sval m := by linarith
      have l1 := sR_mono lo
      have l2 := sR_mono hi
      rw [sR_self x hx] at l1
      rw [sR_self m hm] at l2
      exact ⟨le_trans (min_le_right _ _) l1, le_trans l2 (le_max_left _ _)⟩
    · rw [hzero, sR_zero, zero_div, sR_zero, add_zero, sR_self m hm]
      exact ⟨min_le_left _ _, le_max_left _ _⟩
    · set δ := sval x - sval m with hδ
      have hfin' : sR δ < (2 : ℚ) ^ (1024 : Int) := by
        rw [hsd] at hdfin
        exact lt_of_le_of_lt (le_abs_self _) hdfin
      obtain ⟨u0, u1⟩ := shrink δ hpos hfin' k hk
      have lo : sval m ≤ sval m + sR (sR δ / k) := by linarith
      have hi : sval m + sR (sR δ / k) ≤ sval x := by linarith
      have l1 := sR_mono lo
      have l2 := sR_mono hi
      rw [sR_self m hm] at l1
      rw [sR_self x hx] at l2
      exact ⟨le_trans (min_le_left _ _) l1, le_trans l2 (le_max_right _ _)⟩
  refine ⟨?_, key⟩
  rw [isFinite_iff_sval]
  have hmf := (isFinite_iff_sval _).mp hm
  have hxf := (isFinite_iff_sval _).mp hx
  rw [abs_lt] at hmf hxf ⊢
  obtain ⟨k1, k2⟩ := key
  constructor
  · rcases min_choice (sval m) (sval x) with h | h <;> rw [h] at k1 <;> linarith
  · rcases max_choice (sval m) (sval x) with h | h <;> rw [h] at k2 <;> linarith

/-- the first iteration (m = +0, k = 1) gives the first value exactly (in value) -/
theorem step_first (x K : Bits) (hx : isFinite x = true) (hK : isFinite K = true) (hKs : sval K = 1) :
    isFinite (add posZero (div (sub x posZero) K)) = true ∧
    sval (add posZero (div (sub x posZero) K)) = sval x := by
  have h0 : isFinite posZero = true := by decide
  have zK : isZero K = false := isZero_false_of_sval hKs (by norm_num)
  have hsd : sval (sub x posZero) = sval x := by
    rw [sval_sub x posZero hx h0, sval_posZero, sub_zero]; exact sR_self x hx
  have hd : isFinite (sub x posZero) = true := by
    rw [isFinite_iff_sval, hsd]; exact (isFinite_iff_sval x).mp hx
  have hst : sval (div (sub x posZero) K) = sval x := by
    rw [sval_div _ _ hd hK zK, hKs, hsd, div_one]; exact sR_self x hx
  have ht : isFinite (div (sub x posZero) K) = true := by
    rw [isFinite_iff_sval, hst]; exact (isFinite_iff_sval x).mp hx
  have hs : sval (add posZero (div (sub x posZero) K)) = sval x := by
    rw [sval_add _ _ h0 ht, sval_posZero, zero_add, hst]; exact sR_self x hx
  exact ⟨by rw [isFinite_iff_sval, hs]; exact (isFinite_iff_sval x).mp hx, hs⟩

/-- x − m cannot overflow when both lie in a range whose span hi − lo does not overflow -/
theorem sub_finite_of_span (lo hi m x : Bits) (hlo : isFinite lo = true) (hhi : isFinite hi = true)
    (hm : isFinite m = true) (hx : isFinite x = true) (hspan : isFinite (sub hi lo) = true)
    (m1 : sval lo ≤ sval m) (m2 : sval m ≤ sval hi) (x1 : sval lo ≤ sval x) (x2 : sval x ≤ sval hi) :
    isFinite (sub x m) = true := by
  rw [isFinite_iff_sval] at hspan ⊢
  rw [sval_sub hi lo hhi hlo] at hspan
  rw [sval_sub x m hx hm]
  change |sR (sval x - sval m)| < _
  change |sR (sval hi - sval lo)| < _ at hspan
  rw [sR_abs] at hspan ⊢
  have : |sval x - sval m| ≤ |sval hi - sval lo| := by
    rw [abs_le]; constructor
    · have := le_abs_self (sval hi - sval lo); linarith
    · have := le_abs_self (sval hi - sval lo); linarith
  exact lt_of_le_of_lt (sR_mono this) hspan

/-- the loop from iteration i ≥ 1 on -/
theorem meanLoop_between (lo hi : Bits) (hlo : isFinite lo = true) (hhi : isFinite hi = true)
    (hspan : isFinite (sub hi lo) = true) (xs : List Bits) (i : Nat) (m : Bits)
    (hi1 : 1 ≤ i) (hlen : i + xs.length < 2 ^ 53)
    (hm : isFinite m = true) (m1 : sval lo ≤ sval m) (m2 : sval m ≤ sval hi)
    (hxs : ∀ x ∈ xs, isFinite x = true ∧ sval lo ≤ sval x ∧ sval x ≤ sval hi) :
    isFinite (meanLoop xs i m) = true ∧ sval lo ≤ sval (meanLoop xs i m) ∧ sval (meanLoop xs i m) ≤ sval hi := by
  induction xs generalizing i m with
  | nil => exact ⟨hm, m1, m2⟩
  | cons x xs ih =>
    obtain ⟨hx, x1, x2⟩ := hxs x (List.mem_cons_self ..)
    simp only [meanLoop]
    simp only [List.length_cons] at hlen
    have hK := ofInt_exact (((i + 1 : Nat) : Int)) (by simp only [Int.natAbs_natCast]; omega)
    have hd := sub_finite_of_span lo hi m x hlo hhi hm hx hspan m1 m2 x1 x2
    have hk : (2 : ℚ) ≤ (((i + 1 : Nat) : Int) : ℚ) := by
      have : 2 ≤ i + 1 := by omega
      exact_mod_cast this
    obtain ⟨f, b1, b2⟩ := step_between m x (ofInt ((i + 1 : Nat) : Int)) _ hm hx hK.2 hK.1 hk hd
    apply ih (i + 1) _ (by omega) (by omega) f
    · rcases min_choice (sval m) (sval x) with h | h <;> rw [h] at b1 <;> linarith
    · rcases max_choice (sval m) (sval x) with h | h <;> rw [h] at b2 <;> linarith
    · intro y hy; exact hxs y (List.mem_cons_of_mem _ hy)

end C17
