/-
Helper lemmas for C09: the Go-map model `RankMap` and the fixed-order map (`fixedMap`).
-/
import Model.Proc.Sort

namespace C09
open Proc.Sort

theorem get?_set (m : RankMap) (k v : Bytes) (n : Nat) :
    RankMap.get? (RankMap.set m k n) v = if k = v then some n else RankMap.get? m v := by
  induction m with
  | nil => by_cases h : k = v <;> simp [RankMap.set, RankMap.get?, h]
  | cons e rest ih =>
    obtain ⟨k', x⟩ := e
    simp only [RankMap.get?] at ih
    by_cases hk : k' = k
    · subst hk
      by_cases h : k' = v
      · simp [RankMap.set, RankMap.get?, h]
      · have hb : (k' == v) = false := by simpa using h
        simp [RankMap.set, RankMap.get?, h, hb]
    · by_cases h : k' = v
      · subst h
        have hkv : ¬ k = k' := fun e => hk e.symm
        simp [RankMap.set, RankMap.get?, hk, hkv]
      · have hb : (k' == v) = false := by simpa using h
        simp [RankMap.set, RankMap.get?, hk, h, hb, ih]

/-- Index of the LAST occurrence of `v` in `l`. -/
def lastIdx? : List Bytes → Bytes → Option Nat
  | [], _ => none
  | s :: rest, v =>
    match lastIdx? rest v with
    | some j => some (j + 1)
    | none => if s = v then some 0 else none

theorem get?_fixedMapAux (l : List Bytes) (i : Nat) (m : RankMap) (v : Bytes) :
    RankMap.get? (fixedMapAux l i m) v =
      match lastIdx? l v with
      | some j => some (i + j)
      | none => RankMap.get? m v := by
  induction l generalizing i m with
  | nil => simp [fixedMapAux, lastIdx?]
  | cons s rest ih =>
    unfold fixedMapAux lastIdx?
    rw [ih]
    cases h : lastIdx? rest v with
    | some j => simp; omega
    | none =>
      simp only [get?_set]
      by_cases hs : s = v <;> simp [hs]

theorem get?_fixedMap (l : List Bytes) (v : Bytes) :
    RankMap.get? (fixedMap l) v = lastIdx? l v := by
  unfold fixedMap
  rw [get?_fixedMapAux]
  cases lastIdx? l v <;> simp [RankMap.get?]

theorem lastIdx?_not_mem (l : List Bytes) (v : Bytes) (hv : v ∉ l) : lastIdx? l v = none := by
  induction l with
  | nil => rfl
  | cons s rest ih =>
    simp only [List.mem_cons, not_or] at hv
    unfold lastIdx?
    rw [ih hv.2]
    have : ¬ s = v := fun e => hv.1 e.symm
    simp [this]

theorem lastIdx?_nodup (l : List Bytes) (hn : l.Nodup) (v : Bytes) (hv : v ∈ l) :
    lastIdx? l v = some (l.idxOf v) := by
  induction l with
  | nil => simp at hv
  | cons s rest ih =>
    rw [List.nodup_cons] at hn
    unfold lastIdx?
    by_cases hs : s = v
    · subst hs
      rw [lastIdx?_not_mem rest s hn.1]
      simp [List.idxOf_cons_self]
    · have hv' : v ∈ rest := by
        simp only [List.mem_cons] at hv
        rcases hv with e | e
        · exact absurd e.symm hs
        · exact e
      rw [ih hn.2 hv']
      have hb : (s == v) = false := by simpa using hs
      simp [List.idxOf_cons, hb]

end C09
