/-
C16 — cells added through the builder API come out in row-major order without overlaps, and
Format's final sort by (row, col) restores exactly that order.
-/
import Proofs.Lemmas.C16Emit

namespace C16
open Tab.TextTab

theorem foldl_apply_geom (opts : List Opt) : ∀ c : Cell,
    (opts.foldl Opt.apply c).row = c.row ∧ (opts.foldl Opt.apply c).col = c.col ∧
    (opts.foldl Opt.apply c).span = c.span := by
  induction opts with
  | nil => intro c; exact ⟨rfl, rfl, rfl⟩
  | cons o os ih =>
    intro c
    simp only [List.foldl_cons]
    have h := ih (Opt.apply c o)
    have h2 : (Opt.apply c o).row = c.row ∧ (Opt.apply c o).col = c.col ∧ (Opt.apply c o).span = c.span := by
      cases o <;> exact ⟨rfl, rfl, rfl⟩
    exact ⟨h.1.trans h2.1, h.2.1.trans h2.2.1, h.2.2.trans h2.2.2⟩

/-- builder invariant: cells in row-major order without overlaps, all of them at or before the
cursor, all inside `cols` -/
def BuildInv (t : Table) : Prop :=
  t.cells.Pairwise Before ∧
  ∀ c ∈ t.cells, (c.row < t.curRow ∨ (c.row = t.curRow ∧ c.col + c.span ≤ t.curCol)) ∧
    c.col + c.span ≤ t.cols

theorem buildInv_step (t t' : Table) (op : Op) (h : BuildInv t) (hs : t.step op = some t') :
    BuildInv t' := by
  obtain ⟨hp, hc⟩ := h
  cases op with
  | row =>
    simp only [Table.step, Option.some.injEq] at hs
    subst hs
    refine ⟨hp, ?_⟩
    intro c hcm
    simp only [Table.row] at hcm
    have := hc c hcm
    simp only [Table.row]
    have hne : t.cells.isEmpty = false := by
      cases hcs : t.cells with
      | nil => rw [hcs] at hcm; cases hcm
      | cons _ _ => rfl
    simp only [hne, Bool.false_eq_true, if_false]
    exact ⟨Or.inl (by omega), this.2⟩
  | col c' =>
    simp only [Table.step, Table.col] at hs
    split at hs
    · cases hs
    · simp only [Option.some.injEq] at hs
      subst hs
      refine ⟨hp, ?_⟩
      intro c hcm
      have := hc c hcm
      simp only
      refine ⟨?_, this.2⟩
      rcases this.1 with h1 | h1
      · exact Or.inl h1
      · exact Or.inr ⟨h1.1, by omega⟩
  | span n v opts =>
    simp only [Table.step, Option.some.injEq] at hs
    subst hs
    simp only [Table.span]
    have hg := foldl_apply_geom opts
      { row := t.curRow, col := t.curCol, span := n, value := v,
        margin := if (t.curCol == 0 || v.isEmpty) = true then [] else [0x20], align := .left }
    simp only at hg
    refine ⟨?_, ?_⟩
    · rw [List.pairwise_append]
      refine ⟨hp, by simp, ?_⟩
      intro a ha b hb
      simp only [List.mem_singleton] at hb
      subst hb
      unfold Before
      rw [hg.1, hg.2.1]
      rcases (hc a ha).1 with h1 | h1
      · exact Or.inl h1
      · exact Or.inr h1
    · intro c hcm
      simp only [List.mem_append, List.mem_singleton] at hcm
      rcases hcm with hcm | hcm
      · have := hc c hcm
        dsimp only
        refine ⟨?_, ?_⟩
        · rcases this.1 with h1 | h1
          · exact Or.inl h1
          · exact Or.inr ⟨h1.1, by omega⟩
        · split <;> omega
      · subst hcm
        dsimp only
        rw [hg.1, hg.2.1, hg.2.2]
        refine ⟨Or.inr ⟨rfl, Nat.le_refl _⟩, ?_⟩
        split <;> omega
  | setShrink c' b =>
    simp only [Table.step, Option.some.injEq] at hs
    subst hs
    exact ⟨hp, hc⟩

theorem buildInv_foldlM (ops : List Op) : ∀ (t t' : Table), BuildInv t →
    ops.foldlM Table.step t = some t' → BuildInv t' := by
  induction ops with
  | nil => intro t t' h hs; simp only [List.foldlM_nil, pure, Option.some.injEq] at hs; subst hs; exact h
  | cons op rest ih =>
    intro t t' h hs
    simp only [List.foldlM_cons, bind, Option.bind] at hs
    split at hs
    · cases hs
    · rename_i t1 h1
      exact ih t1 t' (buildInv_step t t1 op h h1) hs

theorem build_inv (ops : List Op) (t : Table) (h : build ops = some t) : BuildInv t := by
  refine buildInv_foldlM ops {} t ⟨?_, ?_⟩ h
  · simp
  · intro c hc; simp at hc

/-! ### the final sort restores the builder order -/

theorem pairwise_total {α : Type} (R : α → α → Prop) : ∀ (l : List α), l.Pairwise R →
    ∀ a ∈ l, ∀ b ∈ l, a ≠ b → R a b ∨ R b a := by
  intro l
  induction l with
  | nil => intro _ a ha; cases ha
  | cons x xs ih =>
    intro hp a ha b hb hab
    rw [List.pairwise_cons] at hp
    rcases List.mem_cons.mp ha with ha1 | ha1
    · rcases List.mem_cons.mp hb with hb1 | hb1
      · exact absurd (ha1.trans hb1.symm) hab
      · rw [ha1]; exact Or.inl (hp.1 b hb1)
    · rcases List.mem_cons.mp hb with hb1 | hb1
      · rw [hb1]; exact Or.inr (hp.1 a ha1)
      · exact ih hp.2 a ha1 b hb1 hab

theorem cellLe_trans (a b c : Cell) (h1 : cellLe a b = true) (h2 : cellLe b c = true) :
    cellLe a c = true := by
  simp only [cellLe, Bool.or_eq_true, Bool.and_eq_true, decide_eq_true_eq, beq_iff_eq] at *
  omega

theorem cellLe_total (a b : Cell) : (cellLe a b || cellLe b a) = true := by
  simp only [cellLe, Bool.or_eq_true, Bool.and_eq_true, decide_eq_true_eq, beq_iff_eq]
  omega

/-- with spans ≥ 1 the cells of a builder table have distinct (row, col), so sorting ANY
permutation of them by (row, col) gives back the builder order -/
theorem mergeSort_restores (cells ordered : List Cell) (hp : cells.Pairwise Before)
    (hspan : ∀ c ∈ cells, 1 ≤ c.span) (hperm : ordered.Perm cells) :
    ordered.mergeSort cellLe = cells := by
  have hm := List.mergeSort_perm ordered cellLe
  apply List.Perm.eq_of_pairwise (le := fun a b => cellLe a b = true)
  · intro a b ha hb hab hba
    have ha' : a ∈ cells := hperm.subset (hm.subset ha)
    by_cases heq : a = b
    · exact heq
    · exfalso
      simp only [cellLe, Bool.or_eq_true, Bool.and_eq_true, decide_eq_true_eq, beq_iff_eq] at hab hba
      have hsa := hspan a ha'
      have hsb := hspan b hb
      rcases pairwise_total Before cells hp a ha' b hb heq with h | h <;> unfold Before at h <;> omega
  · exact List.pairwise_mergeSort cellLe_trans cellLe_total ordered
  · refine hp.imp ?_
    intro a b h
    unfold Before at h
    simp only [cellLe, Bool.or_eq_true, Bool.and_eq_true, decide_eq_true_eq, beq_iff_eq]
    omega
  · exact hm.trans hperm

end C16
