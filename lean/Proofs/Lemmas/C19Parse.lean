/-
C19 helper lemmas: the front end's parseQueryString keeps a word quoted by addToQuery intact.
-/
import Model.Analysis.Parse
import Model.Analysis.Quote
import Proofs.Lemmas.C19Split

namespace C19
open Storage.Query Analysis.Quote Analysis.Parse

theorem tokGo_nil (b : Bool) (cur : Bytes) : tokGo b cur [] = ([], cur) := by
  cases b <;> simp [tokGo]

theorem tokGo_true_cons (cur : Bytes) (c : UInt8) (rest : Bytes) :
    tokGo true cur (c :: rest) =
      if c == cQuote then tokGo false (cur ++ [c]) rest
      else if c == cBackslash then
        (match rest with
        | [] => ([], cur ++ [c])
        | d :: rest' => tokGo true (cur ++ [c, d]) rest')
      else tokGo true (cur ++ [c]) rest := by
  rw [tokGo.eq_def]; rfl

theorem tokGo_false_cons (cur : Bytes) (c : UInt8) (rest : Bytes) :
    tokGo false cur (c :: rest) =
      if c == cQuote then tokGo true (cur ++ [c]) rest
      else if c == cSpace || c == cTab then ((cur :: (tokGo false [] rest).1), (tokGo false [] rest).2)
      else if c == cBackslash then
        (match rest with
        | [] => ([], cur ++ [c])
        | d :: rest' => tokGo false (cur ++ [c, d]) rest')
      else tokGo false (cur ++ [c]) rest := by
  rw [tokGo.eq_def]; rfl

/-- inside quotes the escaped text is skipped as a whole -/
theorem tokGo_quoted (s cur rest : Bytes) :
    tokGo true cur (s.flatMap enc ++ rest) = tokGo true (cur ++ s.flatMap enc) rest := by
  induction s generalizing cur with
  | nil => simp
  | cons c s ih =>
    rw [List.flatMap_cons, List.append_assoc]
    by_cases hb : c = cBackslash
    · subst hb
      simp only [enc, beq_self_eq_true, if_true, List.cons_append, List.nil_append]
      rw [tokGo_true_cons]
      simp only [show (cBackslash == cQuote) = false from by decide, Bool.false_eq_true, if_false,
        beq_self_eq_true, if_true]
      rw [ih]; simp
    · by_cases hq : c = cQuote
      · subst hq
        simp only [enc, show (cQuote == cBackslash) = false from by decide, Bool.false_eq_true,
          if_false, beq_self_eq_true, if_true, List.cons_append, List.nil_append]
        rw [tokGo_true_cons]
        simp only [show (cBackslash == cQuote) = false from by decide, Bool.false_eq_true, if_false,
          beq_self_eq_true, if_true]
        rw [ih]; simp
      · have hb' : (c == cBackslash) = false := by simpa using hb
        have hq' : (c == cQuote) = false := by simpa using hq
        simp only [enc, hb', hq', Bool.false_eq_true, if_false, List.cons_append, List.nil_append]
        rw [tokGo_true_cons]
        simp only [hb', hq', Bool.false_eq_true, if_false]
        rw [ih]; simp

theorem tokGo_plain (s cur rest : Bytes) (h : needsQuote s = false) :
    tokGo false cur (s ++ rest) = tokGo false (cur ++ s) rest := by
  induction s generalizing cur with
  | nil => simp
  | cons c s ih =>
    simp only [needsQuote, List.any_cons, Bool.or_eq_false_iff] at h
    obtain ⟨⟨⟨⟨h1, h2⟩, h3⟩, h4⟩, hs⟩ := h
    rw [List.cons_append, tokGo_false_cons]
    simp only [h1, h2, h3, h4, Bool.false_eq_true, if_false, Bool.or_self]
    rw [ih _ (by simpa [needsQuote] using hs)]; simp

/-- the scan passes over a word quoted by the query builder without ending the part -/
theorem tokGo_quote (s cur rest : Bytes) :
    tokGo false cur (quote s ++ rest) = tokGo false (cur ++ quote s) rest := by
  unfold quote
  by_cases h : needsQuote s = true
  · simp only [h, if_true]
    rw [escape_eq]
    simp only [List.cons_append, List.nil_append, List.append_assoc]
    rw [tokGo_false_cons]
    simp only [beq_self_eq_true, if_true]
    rw [tokGo_quoted, tokGo_true_cons]
    simp
  · have h' : needsQuote s = false := by simpa using h
    simp only [h', Bool.false_eq_true, if_false]
    exact tokGo_plain s cur rest h'

/-- so the quoted word followed by a blank is exactly one part -/
theorem tokGo_quote_blank (s rest : Bytes) :
    tokGo false [] (quote s ++ cSpace :: rest) =
      (quote s :: (tokGo false [] rest).1, (tokGo false [] rest).2) := by
  rw [tokGo_quote, tokGo_false_cons]
  simp [show (cSpace == cQuote) = false from by decide]


/-! ### the parts hold only bytes of the input -/

theorem tokGo_bytes (n : Nat) : ∀ (q : Bytes), q.length = n → ∀ (b : Bool) (cur : Bytes),
    (∀ t ∈ (tokGo b cur q).1, ∀ c ∈ t, c ∈ cur ∨ c ∈ q) ∧ (∀ c ∈ (tokGo b cur q).2, c ∈ cur ∨ c ∈ q) := by
  induction n using Nat.strongRecOn with
  | _ n ih =>
    intro q hn b cur
    cases q with
    | nil => rw [tokGo_nil]; simp
    | cons c r =>
      simp only [List.length_cons] at hn
      have ih1 := fun b cur => ih r.length (by omega) r rfl b cur
      have lift : ∀ (cur' : Bytes) (b' : Bool), (∀ x ∈ cur', x ∈ cur ∨ x = c) →
          (∀ t ∈ (tokGo b' cur' r).1, ∀ x ∈ t, x ∈ cur ∨ x ∈ c :: r) ∧
          (∀ x ∈ (tokGo b' cur' r).2, x ∈ cur ∨ x ∈ c :: r) := by
        intro cur' b' hc
        have := ih1 b' cur'
        refine ⟨fun t ht x hx => ?_, fun x hx => ?_⟩
        · rcases this.1 t ht x hx with h | h
          · rcases hc x h with h | h
            · exact Or.inl h
            · exact Or.inr (by simp [h])
          · exact Or.inr (by simp [h])
        · rcases this.2 x hx with h | h
          · rcases hc x h with h | h
            · exact Or.inl h
            · exact Or.inr (by simp [h])
          · exact Or.inr (by simp [h])
      have snoc : ∀ x ∈ cur ++ [c], x ∈ cur ∨ x = c := by
        intro x hx; simpa using hx
      have skip : (match r with
            | [] => (([] : List Bytes), cur ++ [c])
            | d :: rest' => tokGo b (cur ++ [c, d]) rest') = (match r with
            | [] => (([] : List Bytes), cur ++ [c])
            | d :: rest' => tokGo b (cur ++ [c, d]) rest') → True := fun _ => trivial
      have hskip : ∀ b' : Bool,
          (∀ t ∈ (match r with
            | [] => (([] : List Bytes), cur ++ [c])
            | d :: rest' => tokGo b' (cur ++ [c, d]) rest').1, ∀ x ∈ t, x ∈ cur ∨ x ∈ c :: r) ∧
          (∀ x ∈ (match r with
            | [] => (([] : List Bytes), cur ++ [c])
            | d :: rest' => tokGo b' (cur ++ [c, d]) rest').2, x ∈ cur ∨ x ∈ c :: r) := by
        intro b'
        cases r with
        | nil =>
          refine ⟨by simp, fun x hx => ?_⟩
          rcases snoc x hx with h | h
          · exact Or.inl h
          · exact Or.inr (by simp [h])
        | cons d r' =>
          have := ih r'.length (by simp only [List.length_cons] at hn; omega) r' rfl b' (cur ++ [c, d])
          refine ⟨fun t ht x hx => ?_, fun x hx => ?_⟩
          · rcases this.1 t ht x hx with h | h
            · simp only [List.mem_append, List.mem_cons, List.not_mem_nil, or_false] at h
              rcases h with h | h | h
              · exact Or.inl h
              · exact Or.inr (by simp [h])
              · exact Or.inr (by simp [h])
            · exact Or.inr (by simp [h])
          · rcases this.2 x hx with h | h
            · simp only [List.mem_append, List.mem_cons, List.not_mem_nil, or_false] at h
              rcases h with h | h | h
              · exact Or.inl h
              · exact Or.inr (by simp [h])
              · exact Or.inr (by simp [h])
            · exact Or.inr (by simp [h])
      cases b with
      | true =>
        rw [tokGo_true_cons]
        split
        · exact lift _ _ snoc
        · split
          · exact hskip true
          · exact lift _ _ snoc
      | false =>
        rw [tokGo_false_cons]
        split
        · exact lift _ _ snoc
        · split
          · have := ih1 false []
            refine ⟨fun t ht x hx => ?_, fun x hx => ?_⟩
            · rcases List.mem_cons.mp ht with rfl | ht
              · exact Or.inl hx
              · rcases this.1 t ht x hx with h | h
                · cases h
                · exact Or.inr (by simp [h])
            · rcases this.2 x hx with h | h
              · cases h
              · exact Or.inr (by simp [h])
          · split
            · exact hskip false
            · exact lift _ _ snoc

/-! ### without a `|` part the prefix plays no role -/

theorem fold_nobar (toks : List Bytes) (hb : ∀ t ∈ toks, t ≠ wBar) (s : St) :
    (toks.foldl step s).pref = s.pref ∧
    (toks.foldl step s).parts = (toks.foldl step { s with pref := [] }).parts ∧
    (toks.foldl step s).queries = (toks.foldl step { s with pref := [] }).queries := by
  induction toks generalizing s with
  | nil => simp
  | cons t ts ih =>
    have ht : (t == wBar) = false := by simpa using hb t (by simp)
    simp only [List.foldl_cons]
    have h1 := ih (fun x hx => hb x (by simp [hx])) (step s t)
    have h2 := ih (fun x hx => hb x (by simp [hx])) (step { s with pref := [] } t)
    have hs : (step s t).pref = s.pref ∧ (step s t).parts = (step { s with pref := [] } t).parts ∧
        (step s t).queries = (step { s with pref := [] } t).queries ∧
        (step { s with pref := [] } t).pref = [] := by
      unfold step
      simp only [ht, Bool.false_and, Bool.false_eq_true, if_false]
      split <;> simp
    have e : ({ step s t with pref := [] } : St) = step { s with pref := [] } t := by
      unfold step
      simp only [ht, Bool.false_and, Bool.false_eq_true, if_false]
      split <;> rfl
    rw [e] at h1
    exact ⟨h1.1.trans hs.1, h1.2.1, h1.2.2⟩

theorem quote_ne_word (add w : Bytes) (hw : needsQuote w = false) (h : quote add = w) : add = w := by
  unfold quote at h
  split at h
  · rename_i hn
    exfalso
    have : cQuote ∈ w := by rw [← h]; simp
    have : needsQuote w = true := by
      unfold needsQuote
      exact List.any_eq_true.mpr ⟨cQuote, this, by simp⟩
    rw [hw] at this; cases this
  · exact h

theorem quote_ne_nil (add : Bytes) (h : add ≠ []) : quote add ≠ [] := by
  unfold quote; split
  · simp
  · exact h

/-- **the builder's word through the front end's splitter** (old query without `|`): the storage
queries sent are the groups of the old query, each preceded by the quoted word -/
theorem sent_addToQuery (q add : Bytes) (ha : add ≠ []) (h1 : add ≠ wBar) (h2 : add ≠ wVs)
    (hq : ∀ c ∈ q, c ≠ cBar) :
    sentQueries (addToQuery q add) = (parseQueryString q).2.map fun g => quote add ++ cSpace :: g := by
  have hany : q.any (· == cBar) = false := by
    rw [List.any_eq_false]; intro c hc; simpa using hq c hc
  have hA1 : (quote add == wBar) = false := by
    have : quote add ≠ wBar := fun e => h1 (quote_ne_word add wBar (by decide) e)
    simpa using this
  have hA2 : (quote add == wVs) = false := by
    have : quote add ≠ wVs := fun e => h2 (quote_ne_word add wVs (by decide) e)
    simpa using this
  have hAne := quote_ne_nil add ha
  -- the parts of the built query
  have htok : tokGo false [] (addToQuery q add) =
      (quote add :: wBar :: (tokGo false [] q).1, (tokGo false [] q).2) := by
    unfold addToQuery
    simp only [hany, Bool.false_eq_true, if_false]
    have e : quote add ++ [cSpace, cBar, cSpace] ++ q = quote add ++ cSpace :: ([cBar] ++ cSpace :: q) := by simp
    rw [e, tokGo_quote_blank, tokGo_plain [cBar] [] _ (by decide), tokGo_false_cons]
    simp [show (cSpace == cQuote) = false from by decide, wBar, cBar]
  -- no part of the old query is "|"
  have hnob : ∀ t ∈ (tokGo false [] q).1, t ≠ wBar := by
    intro t ht e
    have := (tokGo_bytes q.length q rfl false []).1 t ht cBar (by rw [e]; simp [wBar, cBar])
    rcases this with h | h
    · cases h
    · exact hq cBar h rfl
  have s1 : step {} (quote add) = { pref := [], parts := [quote add], queries := [] } := by
    unfold step; simp [hA1, hA2]
  have s2 : step { pref := [], parts := [quote add], queries := [] } wBar =
      { pref := quote add, parts := [], queries := [] } := by
    unfold step; simp [joinSp]
  have hf := fold_nobar (tokGo false [] q).1 hnob { pref := quote add, parts := [], queries := [] }
  have hemp : (quote add).isEmpty = false := by cases hq' : quote add <;> simp_all
  unfold sentQueries parseQueryString
  rw [htok]
  simp only [List.foldl_cons, s1, s2]
  generalize List.foldl step { pref := quote add, parts := [], queries := [] } (tokGo false [] q).1 = F at hf ⊢
  obtain ⟨hp, hpa, hqu⟩ := hf
  simp only [hp, hpa, hqu, hemp, Bool.false_eq_true, if_false]

end C19
