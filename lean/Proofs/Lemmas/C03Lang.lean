/-
C03 helper lemmas: the language accepted by `underscoreOK` + `readFloat` is the language of the
specification's recogniser, and the values agree.

Part 1: digit classes; `underscoreOK`'s state machine = the specification's underscore rule.
-/
import Proofs.Lemmas.C03ReadFloat
import Proofs.Lemmas.C03Uint

namespace C03
open Num Spec.NumText

/-- the specification's digit class for a literal -/
def digS (hex : Bool) : UInt8 → Bool := if hex then isHexDig else isDec

theorem lang_byte_facts (c : UInt8) :
    (((48 ≤ c && c ≤ 57) || (false && 97 ≤ lower c && lower c ≤ 102)) = isDec c) ∧
    (((48 ≤ c && c ≤ 57) || (true && 97 ≤ lower c && lower c ≤ 102)) = isHexDig c) ∧
    (isDec c = true → isHexDig c = true) ∧
    (isHexDig c = true → c ≠ 95 ∧ c ≠ 46 ∧ c ≠ 43 ∧ c ≠ 45 ∧ lower c ≠ 112 ∧ lowerc c ≠ 112) ∧
    (isDec c = true → lower c ≠ 101 ∧ lowerc c ≠ 101) ∧
    ((lower c == 101) = (lowerc c == 101)) ∧ ((lower c == 112) = (lowerc c == 112)) ∧
    ((lower c == 120) = (lowerc c == 120)) := by
  revert c; apply byte_forall; decide +kernel

/-- the digit test written in `underscoreLoop` (and in `mantLoop`) is the specification's class -/
theorem digM_eq (hex : Bool) (c : UInt8) :
    ((48 ≤ c && c ≤ 57) || (hex && 97 ≤ lower c && lower c ≤ 102)) = digS hex c := by
  cases hex
  · exact (lang_byte_facts c).1
  · exact (lang_byte_facts c).2.1

def headDigG (dig : UInt8 → Bool) : Bytes → Bool
  | [] => false
  | c :: _ => dig c

def headDig (hex : Bool) : Bytes → Bool := headDigG (digS hex)

theorem uOK_nil (dig : UInt8 → Bool) (prev : Bool) : underscoresOK dig prev [] = true := by
  unfold underscoresOK; rfl

theorem uOK_us (dig : UInt8 → Bool) (prev : Bool) (cs : Bytes) :
    underscoresOK dig prev (95 :: cs) =
      (prev && headDigG dig cs && underscoresOK dig false cs) := by
  conv => lhs; unfold underscoresOK
  simp only [beq_self_eq_true, if_true]
  cases cs <;> rfl

theorem uOK_other (dig : UInt8 → Bool) (prev : Bool) (c : UInt8) (cs : Bytes) (h : c ≠ 95) :
    underscoresOK dig prev (c :: cs) = underscoresOK dig (dig c) cs := by
  conv => lhs; unfold underscoresOK
  have e95 : (c == 95) = false := by simpa using h
  simp [e95]

theorem saw_facts : (Saw.under == Saw.digit) = false ∧ (Saw.other == Saw.digit) = false ∧
    (Saw.start == Saw.digit) = false ∧ (Saw.digit == Saw.digit) = true ∧ (Saw.under == Saw.under) = true ∧
    (Saw.other == Saw.under) = false ∧ (Saw.start == Saw.under) = false ∧ (Saw.digit == Saw.under) = false := by
  decide

theorem headDig_cons (hex : Bool) (c : UInt8) (cs : Bytes) : headDig hex (c :: cs) = digS hex c := rfl
theorem headDig_nil (hex : Bool) : headDig hex [] = false := rfl
theorem headDigG_eq (hex : Bool) (cs : Bytes) : headDigG (digS hex) cs = headDig hex cs := rfl

/-- **`underscoreLoop` = the specification's underscore rule.** In state `under` the next byte
must be a digit; otherwise the rule is `underscoresOK` with "previous byte was a digit" =
`saw == digit`. -/
theorem underscoreLoop_eq (hex : Bool) (s : Bytes) : ∀ saw : Saw,
    underscoreLoop hex s saw =
      ((if saw == .under then headDig hex s else true) && underscoresOK (digS hex) (saw == .digit) s) := by
  induction s with
  | nil => intro saw; cases saw <;> simp [underscoreLoop, headDig_nil, uOK_nil]
  | cons c cs ih =>
    intro saw
    unfold underscoreLoop
    rw [digM_eq]
    by_cases hd : digS hex c = true
    · have h95 : c ≠ 95 := by
        cases hex
        · exact ((lang_byte_facts c).2.2.2.1 ((lang_byte_facts c).2.2.1 hd)).1
        · exact ((lang_byte_facts c).2.2.2.1 hd).1
      simp only [hd, if_true, ih, headDig_cons, uOK_other _ _ c cs h95]
      cases saw <;> simp
    · simp only [Bool.not_eq_true] at hd
      simp only [hd, Bool.false_eq_true, if_false]
      by_cases h95 : c = 95
      · subst h95
        obtain ⟨f1, f2, f3, f4, f5, f6, f7, f8⟩ := saw_facts
        simp only [beq_self_eq_true, if_true, uOK_us, headDigG_eq, headDig_cons, hd]
        cases saw <;> simp [ih, f1, f2, f3, f4, f5, f6, f7, f8]
      · have e95 : (c == 95) = false := by simpa using h95
        obtain ⟨f1, f2, f3, f4, f5, f6, f7, f8⟩ := saw_facts
        simp only [e95, Bool.false_eq_true, if_false, uOK_other _ _ c cs h95, headDig_cons, hd]
        cases saw <;> simp [ih, f1, f2, f3, f4, f5, f6, f7, f8]

/-! ### Part 2: one step of the mantissa loop; underscores commute with the loops -/

inductive Step where
  | next (st : MS)
  | fail
  | stop

/-- what `mantLoop` does with one byte other than `_` -/
def mstep (hex : Bool) (c : UInt8) (st : MS) : Step :=
  let base : Nat := if hex then 16 else 10
  let maxMantDigits : Nat := if hex then 16 else 19
  if c == 46 then
    if st.sawdot then .fail
    else .next { st with sawdot := true, dp := st.nd }
  else if 48 ≤ c && c ≤ 57 then
    if c == 48 && st.nd == 0 then
      .next { st with sawdigits := true, dp := st.dp - 1 }
    else if st.ndMant < maxMantDigits then
      .next { st with sawdigits := true, nd := st.nd + 1,
                      mant := ((st.mant * base) % 2 ^ 64 + (c - 48).toNat) % 2 ^ 64,
                      ndMant := st.ndMant + 1 }
    else if c != 48 then
      .next { st with sawdigits := true, nd := st.nd + 1, trunc := true }
    else .next { st with sawdigits := true, nd := st.nd + 1 }
  else if hex && 97 ≤ lower c && lower c ≤ 102 then
    if st.ndMant < maxMantDigits then
      .next { st with sawdigits := true, nd := st.nd + 1,
                      mant := ((st.mant * 16) % 2 ^ 64 + (lower c - 97 + 10).toNat) % 2 ^ 64,
                      ndMant := st.ndMant + 1 }
    else .next { st with sawdigits := true, nd := st.nd + 1, trunc := true }
  else .stop

theorem mantLoop_us (hex : Bool) (cs : Bytes) (st : MS) : mantLoop hex (95 :: cs) st = mantLoop hex cs st := by
  conv => lhs; unfold mantLoop
  simp

def runStep (hex : Bool) (c : UInt8) (cs : Bytes) (st : MS) : Step → Option (MS × Bytes)
  | .next st' => mantLoop hex cs st'
  | .fail => none
  | .stop => some (st, c :: cs)

theorem mantLoop_cons (hex : Bool) (c : UInt8) (cs : Bytes) (st : MS) (h : c ≠ 95) :
    mantLoop hex (c :: cs) st = runStep hex c cs st (mstep hex c st) := by
  have e95 : (c == 95) = false := by simpa using h
  conv => lhs; unfold mantLoop
  unfold mstep
  simp only [e95, Bool.false_eq_true, if_false, apply_ite (runStep hex c cs st)]
  rfl

theorem digS_ne (hex : Bool) (c : UInt8) (h : digS hex c = true) :
    c ≠ 95 ∧ c ≠ 46 ∧ c ≠ 43 ∧ c ≠ 45 := by
  have hx : isHexDig c = true := by
    cases hex
    · exact (lang_byte_facts c).2.2.1 h
    · exact h
  obtain ⟨a, b, c', d, _⟩ := (lang_byte_facts c).2.2.2.1 hx
  exact ⟨a, b, c', d⟩

theorem mstep_dig (hex : Bool) (c : UInt8) (st : MS) (h : digS hex c = true) :
    ∃ st', mstep hex c st = .next st' ∧ st'.sawdot = st.sawdot ∧ st'.sawdigits = true := by
  have h46 : (c == 46) = false := by simpa using (digS_ne hex c h).2.1
  have hd := digM_eq hex c
  rw [h] at hd
  unfold mstep
  simp only [h46, Bool.false_eq_true, if_false]
  by_cases h1 : (48 ≤ c && c ≤ 57) = true
  · simp only [h1, if_true]
    repeat' split
    all_goals (refine ⟨_, rfl, ?_, ?_⟩ <;> rfl)
  · simp only [Bool.not_eq_true] at h1
    rw [h1, Bool.false_or] at hd
    simp only [h1, Bool.false_eq_true, if_false, hd, if_true]
    repeat' split
    all_goals (refine ⟨_, rfl, ?_, ?_⟩ <;> rfl)

theorem mstep_stop (hex : Bool) (c : UInt8) (st : MS) (h : digS hex c = false) (h46 : c ≠ 46) :
    mstep hex c st = .stop := by
  have e46 : (c == 46) = false := by simpa using h46
  have hd := digM_eq hex c
  rw [h, Bool.or_eq_false_iff] at hd
  unfold mstep
  simp only [e46, Bool.false_eq_true, if_false, hd.1, hd.2]

theorem mstep_dot (hex : Bool) (st : MS) :
    mstep hex 46 st = if st.sawdot then .fail else .next { st with sawdot := true, dp := st.nd } := by
  unfold mstep; simp

theorem strip_us (cs : Bytes) : strip (95 :: cs) = strip cs := by simp [strip]
theorem strip_cons (c : UInt8) (cs : Bytes) (h : c ≠ 95) : strip (c :: cs) = c :: strip cs := by
  simp [strip, h]

/-- underscores are invisible to the mantissa loop -/
theorem mantLoop_strip (hex : Bool) (t : Bytes) : ∀ st,
    mantLoop hex (strip t) st = (mantLoop hex t st).map (fun p => (p.1, strip p.2)) := by
  induction t with
  | nil => intro st; simp [strip, mantLoop]
  | cons c cs ih =>
    intro st
    by_cases h : c = 95
    · subst h; rw [strip_us, mantLoop_us, ih]
    · rw [strip_cons c cs h, mantLoop_cons hex c _ st h, mantLoop_cons hex c cs st h]
      cases mstep hex c st with
      | next st' => simp only [runStep]; exact ih st'
      | fail => rfl
      | stop => simp [runStep, strip_cons c cs h]

/-- … and to the exponent digit loop -/
theorem expLoop_strip (t : Bytes) : ∀ e, expLoop (strip t) e = ((expLoop t e).1, strip (expLoop t e).2) := by
  induction t with
  | nil => intro e; simp [strip, expLoop]
  | cons c cs ih =>
    intro e
    by_cases h : c = 95
    · subst h; rw [strip_us]; conv => rhs; unfold expLoop
      simp [ih]
    · have e95 : (c == 95) = false := by simpa using h
      rw [strip_cons c cs h]
      conv => lhs; unfold expLoop
      conv => rhs; unfold expLoop
      simp only [e95, Bool.false_eq_true, if_false]
      split
      · exact ih _
      · simp [strip_cons c cs h]

/-! ### Part 3: the mantissa loop on an underscore-free text, in `takeWhile`/`dropWhile` terms -/

theorem dropWhile_head {p : UInt8 → Bool} : ∀ (t : Bytes) (c : UInt8) (r : Bytes),
    t.dropWhile p = c :: r → p c = false := by
  intro t
  induction t with
  | nil => intro c r h; simp at h
  | cons a t ih =>
    intro c r h
    rw [List.dropWhile_cons] at h
    split at h
    · exact ih c r h
    · injection h with h1 _; subst h1; simpa using ‹¬p a = true›

theorem takeWhile_all {p : UInt8 → Bool} (t : Bytes) : (t.takeWhile p).all p = true := by
  induction t with
  | nil => rfl
  | cons a t ih =>
    rw [List.takeWhile_cons]
    split
    · rename_i h; simp [h, ih]
    · rfl

theorem mem_dropWhile {p : UInt8 → Bool} (t : Bytes) (c : UInt8) (h : c ∈ t.dropWhile p) : c ∈ t := by
  have := List.takeWhile_append_dropWhile (p := p) (l := t)
  rw [← this]; exact List.mem_append_right _ h

/-- a block of digits is consumed whole -/
theorem mantLoop_block (hex : Bool) (ds : Bytes) (hds : ds.all (digS hex) = true) : ∀ st : MS,
    ∃ st2 : MS, st2.sawdot = st.sawdot ∧ st2.sawdigits = (st.sawdigits || !ds.isEmpty) ∧
      ∀ r, mantLoop hex (ds ++ r) st = mantLoop hex r st2 := by
  induction ds with
  | nil => intro st; exact ⟨st, rfl, by simp, fun r => rfl⟩
  | cons c ds ih =>
    intro st
    rw [List.all_cons, Bool.and_eq_true] at hds
    obtain ⟨st', h1, h2, h3⟩ := mstep_dig hex c st hds.1
    obtain ⟨st2, g1, g2, g3⟩ := ih hds.2 st'
    refine ⟨st2, by rw [g1, h2], by rw [g2, h3]; simp, fun r => ?_⟩
    rw [List.cons_append, mantLoop_cons hex c _ st (digS_ne hex c hds.1).1, h1]
    exact g3 r

/-- the loop stops (without failing) at the end of the text and at any byte that is neither a
digit, a point nor an underscore -/
theorem mantLoop_stop (hex : Bool) (r : Bytes) (st : MS)
    (h : r = [] ∨ ∃ c r', r = c :: r' ∧ c ≠ 95 ∧ c ≠ 46 ∧ digS hex c = false) :
    mantLoop hex r st = some (st, r) := by
  rcases h with h | ⟨c, r', h, h95, h46, hd⟩
  · subst h; rfl
  · subst h; rw [mantLoop_cons hex c r' st h95, mstep_stop hex c st hd h46]; rfl

/-- no point in the text: integer part, then stop -/
theorem mantLoop_shape_nodot (hex : Bool) (u : Bytes) (hu : ∀ c ∈ u, c ≠ 95)
    (hr1 : ∀ r', u.dropWhile (digS hex) ≠ 46 :: r') :
    ∃ st : MS, mantLoop hex u {} = some (st, u.dropWhile (digS hex)) ∧ st.sawdot = false ∧
      st.sawdigits = !(u.takeWhile (digS hex)).isEmpty := by
  obtain ⟨st2, g1, g2, g3⟩ := mantLoop_block hex _ (takeWhile_all (p := digS hex) u) {}
  refine ⟨st2, ?_, g1, by rw [g2]; rfl⟩
  have := g3 (u.dropWhile (digS hex))
  rw [List.takeWhile_append_dropWhile] at this
  rw [this]
  apply mantLoop_stop
  cases hd : u.dropWhile (digS hex) with
  | nil => exact Or.inl rfl
  | cons c r' =>
    right
    refine ⟨c, r', rfl, hu c (mem_dropWhile u c (by rw [hd]; simp)), ?_, dropWhile_head u c r' hd⟩
    intro h46; subst h46; exact hr1 r' hd

/-- a point: integer part, point, fraction part, then stop — or fail on a second point -/
theorem mantLoop_shape_dot (hex : Bool) (u r' : Bytes) (hu : ∀ c ∈ u, c ≠ 95)
    (hr1 : u.dropWhile (digS hex) = 46 :: r') :
    (∀ r'', r'.dropWhile (digS hex) = 46 :: r'' → mantLoop hex u {} = none) ∧
    ((∀ r'', r'.dropWhile (digS hex) ≠ 46 :: r'') →
      ∃ st : MS, mantLoop hex u {} = some (st, r'.dropWhile (digS hex)) ∧ st.sawdot = true ∧
        st.sawdigits = !((u.takeWhile (digS hex)).isEmpty && (r'.takeWhile (digS hex)).isEmpty)) := by
  obtain ⟨st2, g1, g2, g3⟩ := mantLoop_block hex _ (takeWhile_all (p := digS hex) u) {}
  have e1 := g3 (u.dropWhile (digS hex))
  rw [List.takeWhile_append_dropWhile, hr1, mantLoop_cons hex 46 r' st2 (by decide), mstep_dot] at e1
  have hsd : st2.sawdot = false := g1
  simp only [hsd, Bool.false_eq_true, if_false, runStep] at e1
  obtain ⟨st3, k1, k2, k3⟩ := mantLoop_block hex _ (takeWhile_all (p := digS hex) r')
    { st2 with sawdot := true, dp := st2.nd }
  have e2 := k3 (r'.dropWhile (digS hex))
  rw [List.takeWhile_append_dropWhile] at e2
  have hmem : ∀ c ∈ r', c ∈ u := fun c hc => mem_dropWhile u c (by rw [hr1]; exact List.mem_cons_of_mem _ hc)
  constructor
  · intro r'' h2
    rw [e1, e2, h2, mantLoop_cons hex 46 r'' st3 (by decide), mstep_dot]
    have : st3.sawdot = true := k1
    simp [this, runStep]
  · intro h2
    refine ⟨st3, ?_, k1, ?_⟩
    · rw [e1, e2]
      apply mantLoop_stop
      cases hd : r'.dropWhile (digS hex) with
      | nil => exact Or.inl rfl
      | cons c r'' =>
        right
        refine ⟨c, r'', rfl, hu c (hmem c (mem_dropWhile r' c (by rw [hd]; simp))), ?_, dropWhile_head r' c r'' hd⟩
        intro h46; subst h46; exact h2 r'' hd
    · rw [k2]; simp only [g2]
      cases (u.takeWhile (digS hex)).isEmpty <;> cases (r'.takeWhile (digS hex)).isEmpty <;> rfl

/-! ### Part 4: the reference evaluation `refMant` on the same shapes -/

def valFromB (base : Nat) (M : Nat) (ds : Bytes) : Nat := ds.foldl (fun a c => a * base + digVal c) M

theorem valOf_eq_valFromB (base : Nat) (ds : Bytes) : valOf base ds = valFromB base 0 ds := rfl

theorem valOf_append (base : Nat) (a b : Bytes) : valOf base (a ++ b) = valFromB base (valOf base a) b := by
  unfold valOf valFromB; rw [List.foldl_append]

theorem refDig_eq (hex : Bool) (c : UInt8) : (isDec c || (hex && isHexDig c)) = digS hex c := by
  cases hex
  · simp [digS]
  · have := (lang_byte_facts c).2.2.1
    simp only [digS, Bool.true_and, if_true]
    cases h : isDec c
    · simp
    · simp [this h]

theorem refMant_us (hex : Bool) (cs : Bytes) (M F : Nat) (dot : Bool) :
    refMant hex (95 :: cs) M F dot = refMant hex cs M F dot := by
  conv => lhs; unfold refMant
  simp

theorem refMant_dot (hex : Bool) (cs : Bytes) (M F : Nat) (dot : Bool) :
    refMant hex (46 :: cs) M F dot = refMant hex cs M F true := by
  conv => lhs; unfold refMant
  simp

theorem refMant_dig (hex : Bool) (c : UInt8) (cs : Bytes) (M F : Nat) (dot : Bool) (h : digS hex c = true) :
    refMant hex (c :: cs) M F dot =
      refMant hex cs (M * baseOf hex + digVal c) (if dot then F + 1 else F) dot := by
  obtain ⟨h95, h46, _, _⟩ := digS_ne hex c h
  have e95 : (c == 95) = false := by simpa using h95
  have e46 : (c == 46) = false := by simpa using h46
  conv => lhs; unfold refMant
  simp only [e95, e46, Bool.false_eq_true, if_false, refDig_eq, h, if_true]
  rfl

theorem refMant_stop (hex : Bool) (r : Bytes) (M F : Nat) (dot : Bool)
    (h : r = [] ∨ ∃ c r', r = c :: r' ∧ c ≠ 95 ∧ c ≠ 46 ∧ digS hex c = false) :
    refMant hex r M F dot = (M, F) := by
  rcases h with h | ⟨c, r', h, h95, h46, hd⟩
  · subst h; rfl
  · subst h
    have e95 : (c == 95) = false := by simpa using h95
    have e46 : (c == 46) = false := by simpa using h46
    conv => lhs; unfold refMant
    simp only [e95, e46, Bool.false_eq_true, if_false, refDig_eq, hd]

theorem refMant_block (hex : Bool) (ds : Bytes) (hds : ds.all (digS hex) = true) : ∀ (M F : Nat) (dot : Bool) (r : Bytes),
    refMant hex (ds ++ r) M F dot =
      refMant hex r (valFromB (baseOf hex) M ds) (if dot then F + ds.length else F) dot := by
  induction ds with
  | nil => intro M F dot r; cases dot <;> rfl
  | cons c ds ih =>
    intro M F dot r
    rw [List.all_cons, Bool.and_eq_true] at hds
    rw [List.cons_append, refMant_dig hex c _ M F dot hds.1, ih hds.2]
    cases dot
    · rfl
    · simp only [if_true, List.length_cons]
      have : F + 1 + ds.length = F + (ds.length + 1) := by omega
      rw [this]; rfl

theorem refMant_strip (hex : Bool) (t : Bytes) : ∀ (M F : Nat) (dot : Bool),
    refMant hex (strip t) M F dot = refMant hex t M F dot := by
  induction t with
  | nil => intro M F dot; rfl
  | cons c cs ih =>
    intro M F dot
    by_cases h : c = 95
    · subst h; rw [strip_us, refMant_us, ih]
    · have e95 : (c == 95) = false := by simpa using h
      rw [strip_cons c cs h]
      conv => lhs; unfold refMant
      conv => rhs; unfold refMant
      simp only [e95, Bool.false_eq_true, if_false, ih]

/-- reference value of an underscore-free text without a point -/
theorem refMant_shape_nodot (hex : Bool) (u : Bytes) (hu : ∀ c ∈ u, c ≠ 95)
    (hr1 : ∀ r', u.dropWhile (digS hex) ≠ 46 :: r') :
    refMant hex u 0 0 false = (valOf (baseOf hex) (u.takeWhile (digS hex)), 0) := by
  have := refMant_block hex _ (takeWhile_all (p := digS hex) u) 0 0 false (u.dropWhile (digS hex))
  rw [List.takeWhile_append_dropWhile] at this
  rw [this, valOf_eq_valFromB]
  apply refMant_stop
  cases hd : u.dropWhile (digS hex) with
  | nil => exact Or.inl rfl
  | cons c r' =>
    right
    refine ⟨c, r', rfl, hu c (mem_dropWhile u c (by rw [hd]; simp)), ?_, dropWhile_head u c r' hd⟩
    intro h46; subst h46; exact hr1 r' hd

/-- reference value of an underscore-free text with one point -/
theorem refMant_shape_dot (hex : Bool) (u r' : Bytes) (hu : ∀ c ∈ u, c ≠ 95)
    (hr1 : u.dropWhile (digS hex) = 46 :: r') (h2 : ∀ r'', r'.dropWhile (digS hex) ≠ 46 :: r'') :
    refMant hex u 0 0 false =
      (valOf (baseOf hex) (u.takeWhile (digS hex) ++ r'.takeWhile (digS hex)), (r'.takeWhile (digS hex)).length) := by
  have e1 := refMant_block hex _ (takeWhile_all (p := digS hex) u) 0 0 false (u.dropWhile (digS hex))
  rw [List.takeWhile_append_dropWhile, hr1, refMant_dot] at e1
  have e2 := refMant_block hex _ (takeWhile_all (p := digS hex) r')
    (valFromB (baseOf hex) 0 (u.takeWhile (digS hex))) 0 true (r'.dropWhile (digS hex))
  rw [List.takeWhile_append_dropWhile] at e2
  have hmem : ∀ c ∈ r', c ∈ u := fun c hc => mem_dropWhile u c (by rw [hr1]; exact List.mem_cons_of_mem _ hc)
  simp only [Bool.false_eq_true, if_false] at e1
  rw [e1, e2, valOf_append]
  simp only [if_true, Nat.zero_add]
  apply refMant_stop
  cases hd : r'.dropWhile (digS hex) with
  | nil => exact Or.inl rfl
  | cons c r'' =>
    right
    refine ⟨c, r'', rfl, hu c (hmem c (mem_dropWhile r' c (by rw [hd]; simp))), ?_, dropWhile_head r' c r'' hd⟩
    intro h46; subst h46; exact h2 r'' hd

/-! ### Part 5: `readFloat` after the sign and the base prefix -/

/-- `readFloat` from the mantissa on (`hex`, `neg` already decided) -/
def rfTail (hex neg : Bool) (s2 : Bytes) : RF :=
    match mantLoop hex s2 {} with
    | none => { hex }
    | some (st, rest) =>
      if !st.sawdigits then { hex }
      else
        let dp0 : Int := if !st.sawdot then st.nd else st.dp
        let dp1 : Int := if hex then dp0 * 4 else dp0
        let ndMant : Nat := if hex then st.ndMant * 4 else st.ndMant
        let expChar : UInt8 := if hex then 112 else 101
        let fin (dp : Int) (rest : Bytes) : RF :=
          if !rest.isEmpty then { hex }
          else { mant := st.mant, exp := if st.mant != 0 then dp - ndMant else 0,
                 neg, trunc := st.trunc, hex, ok := true }
        match rest with
        | c :: r1 =>
          if lower c == expChar then
            match r1 with
            | [] => { hex }
            | c1 :: r2 =>
              let esign : Int := if c1 == 45 then -1 else 1
              let r3 := if c1 == 43 || c1 == 45 then r2 else r1
              match r3 with
              | [] => { hex }
              | c2 :: _ =>
                if c2 < 48 || c2 > 57 then { hex }
                else
                  let (e, r4) := expLoop r3 0
                  fin (dp1 + (e : Int) * esign) r4
          else if hex then { hex }
          else fin dp1 rest
        | [] => if hex then { hex } else fin dp1 rest

theorem readFloat_cons (c0 : UInt8) (tl : Bytes) :
    readFloat (c0 :: tl) =
      rfTail (isHexStart (if c0 == 43 || c0 == 45 then tl else c0 :: tl)) (c0 == 45)
        (if isHexStart (if c0 == 43 || c0 == 45 then tl else c0 :: tl)
          then (if c0 == 43 || c0 == 45 then tl else c0 :: tl).drop 2
          else (if c0 == 43 || c0 == 45 then tl else c0 :: tl)) := rfl

theorem mstep_stop_inv (hex : Bool) (c : UInt8) (st : MS) (h : mstep hex c st = .stop) :
    c ≠ 46 ∧ digS hex c = false := by
  constructor
  · intro h46; subst h46; rw [mstep_dot] at h; split at h <;> cases h
  · cases hd : digS hex c
    · rfl
    · obtain ⟨st', h1, _⟩ := mstep_dig hex c st hd
      rw [h1] at h; cases h

/-- where the mantissa loop stops -/
theorem mantLoop_rest (hex : Bool) (t : Bytes) : ∀ (st st' : MS) (rest : Bytes),
    mantLoop hex t st = some (st', rest) →
    rest = [] ∨ ∃ c r, rest = c :: r ∧ c ≠ 95 ∧ c ≠ 46 ∧ digS hex c = false := by
  induction t with
  | nil => intro st st' rest h; simp [mantLoop] at h; exact Or.inl h.2
  | cons c cs ih =>
    intro st st' rest h
    by_cases h95 : c = 95
    · subst h95; rw [mantLoop_us] at h; exact ih _ _ _ h
    · rw [mantLoop_cons hex c cs st h95] at h
      cases hm : mstep hex c st with
      | next st2 => rw [hm] at h; exact ih _ _ _ h
      | fail => rw [hm] at h; cases h
      | stop =>
        rw [hm] at h
        simp only [runStep, Option.some.injEq, Prod.mk.injEq] at h
        obtain ⟨h46, hd⟩ := mstep_stop_inv hex c st hm
        exact Or.inr ⟨c, cs, h.2.symm, h95, h46, hd⟩

/-- the underscore rule holds for what the mantissa loop leaves unread -/
theorem mantLoop_uok (hex : Bool) (t : Bytes) : ∀ (prev : Bool) (st st' : MS) (rest : Bytes),
    underscoresOK (digS hex) prev t = true → mantLoop hex t st = some (st', rest) →
    ∃ prev', underscoresOK (digS hex) prev' rest = true := by
  induction t with
  | nil => intro prev st st' rest _ h; simp [mantLoop] at h; exact ⟨prev, by rw [h.2]; exact uOK_nil _ _⟩
  | cons c cs ih =>
    intro prev st st' rest hu h
    by_cases h95 : c = 95
    · subst h95
      rw [uOK_us, Bool.and_eq_true] at hu
      rw [mantLoop_us] at h
      exact ih _ _ _ _ hu.2 h
    · rw [mantLoop_cons hex c cs st h95] at h
      cases hm : mstep hex c st with
      | next st2 =>
        rw [hm] at h
        rw [uOK_other _ _ c cs h95] at hu
        exact ih _ _ _ _ hu h
      | fail => rw [hm] at h; cases h
      | stop =>
        rw [hm] at h
        simp only [runStep, Option.some.injEq, Prod.mk.injEq] at h
        exact ⟨prev, by rw [← h.2]; exact hu⟩

/-- after a byte that is not a digit, an accepted text does not continue with an underscore -/
theorem uOK_after_nondigit (dig : UInt8 → Bool) (prev : Bool) (c : UInt8) (r : Bytes)
    (h95 : c ≠ 95) (hd : dig c = false) (hu : underscoresOK dig prev (c :: r) = true) :
    underscoresOK dig false r = true ∧ (∀ r', r ≠ 95 :: r') := by
  rw [uOK_other dig prev c r h95, hd] at hu
  refine ⟨hu, fun r' h => ?_⟩
  subst h
  rw [uOK_us] at hu
  simp at hu

end C03
