/-
C03 helper lemmas: bytesconv.ParseInt(s, 10, 0) against `parseIntSpec`.
-/
import Proofs.Lemmas.C03Uint

namespace C03
open Num Spec.NumText

/-- `ParseInt` after the sign has been picked off -/
def parseIntBody (neg : Bool) (s : Bytes) : IntRes :=
  let un := parseUint s
  match un.err with
  | some .syntax => ⟨0, some .syntax⟩
  | _ =>
    let cutoff : Nat := 2 ^ 63
    if !neg && un.val ≥ cutoff then ⟨(cutoff : Int) - 1, some .range⟩
    else if neg && un.val > cutoff then ⟨-(cutoff : Int), some .range⟩
    else
      let n := wrap64 un.val
      ⟨if neg then wrap64 (-n) else n, none⟩

theorem parseInt_cons (c0 : UInt8) (tl : Bytes) :
    parseInt (c0 :: tl) = parseIntBody (c0 == 45) (if c0 == 43 || c0 == 45 then tl else c0 :: tl) := rfl

/-- `parseIntSpec` after the sign has been picked off -/
def specIntBody (neg : Bool) (ds : Bytes) : Except NumErr Int :=
  if ds.isEmpty || !ds.all isDec then .error .syntax
  else
    let v : Int := if neg then -(valOf 10 ds : Int) else (valOf 10 ds : Int)
    if v < -(2 ^ 63 : Int) || v > (2 ^ 63 : Int) - 1 then .error .range else .ok v

theorem parseIntSpec_eq (s : Bytes) : parseIntSpec s = specIntBody (splitSign s).1 (splitSign s).2 := rfl

theorem wrap64_nat (V : Nat) (h : V ≤ 18446744073709551615) :
    (V < 9223372036854775808 → wrap64 V = V) ∧
    (V ≤ 9223372036854775808 → wrap64 (-(wrap64 V)) = -(V : Int)) := by
  unfold wrap64; constructor <;> intro _ <;> omega

theorem pow63 : (2 : Nat) ^ 63 = 9223372036854775808 := by decide +kernel
theorem pow63i : (2 : Int) ^ 63 = 9223372036854775808 := by decide +kernel

theorem parseIntBody_reject (neg : Bool) (s : Bytes) (h : (parseUint s).err ≠ none) :
    (parseIntBody neg s).err ≠ none := by
  unfold parseIntBody
  simp only []
  cases he : (parseUint s).err with
  | none => exact absurd he h
  | some e =>
    cases e
    · simp
    · have hv := parseUint_range_val s he
      simp only [hv, maxU, pow63]
      cases neg <;> simp

theorem parseIntBody_spec (neg : Bool) (ds : Bytes) :
    (∀ v, specIntBody neg ds = .ok v → parseIntBody neg ds = ⟨v, none⟩) ∧
    (∀ e, specIntBody neg ds = .error e → (parseIntBody neg ds).err ≠ none) := by
  by_cases hbad : ds = [] ∨ ds.all isDec = false
  · have hs : specIntBody neg ds = .error .syntax := by
      unfold specIntBody
      rcases hbad with h | h
      · subst h; simp
      · simp [h]
    refine ⟨fun v hv => (by rw [hs] at hv; cases hv), fun e _ => ?_⟩
    exact parseIntBody_reject neg ds (parseUint_reject ds hbad)
  · simp only [not_or, Bool.not_eq_false] at hbad
    obtain ⟨hne, hall⟩ := hbad
    have hu := parseUint_digits ds hne hall
    have hemp : ds.isEmpty = false := by
      cases ds with
      | nil => exact absurd rfl hne
      | cons _ _ => rfl
    unfold specIntBody parseIntBody
    simp only [hemp, hall, Bool.not_true, Bool.or_self, Bool.false_eq_true, if_false, hu, maxU, pow63, pow63i]
    generalize valOf 10 ds = V
    by_cases hV : V ≤ 18446744073709551615
    · simp only [hV, if_true]
      have hw := wrap64_nat V hV
      cases neg
      · simp only [Bool.false_eq_true, if_false, Bool.not_false, Bool.true_and, Bool.false_and]
        by_cases h63 : V ≥ 9223372036854775808
        · simp [h63]
          intro v; rw [if_pos (by omega)]; simp
        · have : ((V : Int) < -9223372036854775808 || (V : Int) > 9223372036854775808 - 1) = false := by
            simp only [Bool.or_eq_false_iff, decide_eq_false_iff_not]; omega
          simp only [this, h63, decide_false, Bool.false_eq_true, if_false]
          rw [hw.1 (by omega)]
          simp
      · simp only [if_true, Bool.not_true, Bool.false_and, Bool.false_eq_true, if_false, Bool.true_and]
        by_cases h63 : V > 9223372036854775808
        · simp [h63]
          intro v; rw [if_pos (by omega)]; simp
        · have : (-(V : Int) < -9223372036854775808 || -(V : Int) > 9223372036854775808 - 1) = false := by
            simp only [Bool.or_eq_false_iff, decide_eq_false_iff_not]; omega
          simp only [this, h63, decide_false, Bool.false_eq_true, if_false]
          rw [hw.2 (by omega)]
          simp
    · simp only [hV, if_false]
      cases neg
      · simp
        intro v; rw [if_pos (by omega)]; simp
      · simp
        intro v; rw [if_pos (by omega)]; simp

theorem specIntBody_bounds (neg : Bool) (ds : Bytes) (v : Int) (h : specIntBody neg ds = .ok v) :
    -(2 ^ 63 : Int) ≤ v ∧ v ≤ 2 ^ 63 - 1 := by
  unfold specIntBody at h
  split at h
  · cases h
  · simp only [] at h
    generalize (if neg = true then -((valOf 10 ds : Nat) : Int) else ((valOf 10 ds : Nat) : Int)) = w at h
    split at h
    · cases h
    · rename_i hr
      injection h with h; subst h
      simp only [Bool.or_eq_true, decide_eq_true_eq, not_or] at hr
      omega

/-- the sign split of `ParseInt` and of the specification coincide -/
theorem parseInt_eq_body (s : Bytes) (hne : s ≠ []) :
    parseInt s = parseIntBody (splitSign s).1 (splitSign s).2 := by
  cases s with
  | nil => exact absurd rfl hne
  | cons c0 tl =>
    rw [parseInt_cons]
    by_cases hm : c0 = 45
    · subst hm; simp [splitSign]
    · by_cases hp : c0 = 43
      · subst hp; simp [splitSign]
      · rw [splitSign_other c0 tl hp hm]
        have e1 : (c0 == 45) = false := by simpa using hm
        have e2 : (c0 == 43) = false := by simpa using hp
        simp [e1, e2]

end C03
