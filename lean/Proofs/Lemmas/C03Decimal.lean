/-
C03 helper lemmas: decimal.go `RoundedInteger` / `shouldRoundUp` = round-half-even (`F64.rne`).
-/
import Proofs.Lemmas.C03ReadFloat
import Proofs.Lemmas.F64Round
import Mathlib.Tactic.Ring
import Model.Num.Decimal

namespace C03
open Num Spec.NumText F64

theorem pow10_19 : (10 : Nat) ^ 19 < 2 ^ 64 := by decide

/-- the digit loop of `RoundedInteger` does not wrap on at most 19 digits -/
theorem riDigits_eq (cs : Bytes) (h : cs.all isDec = true) : ∀ (n j : Nat), n < 10 ^ j → j + cs.length ≤ 19 →
    riDigits cs n = valFrom n cs := by
  induction cs with
  | nil => intro n j _ _; rfl
  | cons c cs ih =>
    intro n j hn hj
    rw [List.all_cons, Bool.and_eq_true] at h
    have hv := (byte_digit c).2.1 h.1
    have h9 := (byte_digit c).2.2.2 h.1
    simp only [List.length_cons] at hj
    have hlt : n * 10 + digVal c < 10 ^ (j + 1) := by rw [Nat.pow_succ]; omega
    have hle : 10 ^ (j + 1) ≤ 10 ^ 19 := Nat.pow_le_pow_right (by decide) (by omega)
    have h64 := pow10_19
    unfold riDigits
    rw [hv, Nat.mod_eq_of_lt (by omega), Nat.mod_eq_of_lt (by omega), valFrom_cons]
    exact ih h.2 _ (j + 1) hlt (by omega)

theorem riPad_eq : ∀ (k n : Nat), n * 10 ^ k < 2 ^ 64 → riPad k n = n * 10 ^ k := by
  intro k
  induction k with
  | zero => intro n _; simp [riPad]
  | succ k ih =>
    intro n h
    have e : n * 10 ^ (k + 1) = n * 10 * 10 ^ k := by rw [Nat.pow_succ]; ring
    rw [e] at h
    have h1 : n * 10 < 2 ^ 64 := Nat.lt_of_le_of_lt (Nat.le_mul_of_pos_right _ (Nat.pow_pos (by decide))) h
    unfold riPad
    rw [Nat.mod_eq_of_lt h1, ih _ h, e]

theorem valOf_append10 (a b : Bytes) : valOf 10 (a ++ b) = valOf 10 a * 10 ^ b.length + valOf 10 b := by
  have gen : ∀ (b : Bytes) (n : Nat), valFrom n b = n * 10 ^ b.length + valFrom 0 b := by
    intro b
    induction b with
    | nil => intro n; simp [valFrom]
    | cons c b ih =>
      intro n
      rw [valFrom_cons, valFrom_cons, ih, ih (0 * 10 + digVal c), List.length_cons, Nat.pow_succ]
      ring
  unfold valOf
  rw [List.foldl_append]
  exact gen b _

theorem valOf_lt (b : Bytes) (h : b.all isDec = true) : valOf 10 b < 10 ^ b.length := by
  have := valFrom_lt_pow b h 0 0 (by decide)
  simpa [valOf_eq] using this

theorem valOf_cons10 (c : UInt8) (b : Bytes) : valOf 10 (c :: b) = digVal c * 10 ^ b.length + valOf 10 b := by
  have := valOf_append10 [c] b
  simpa [valOf] using this

/-- a digit string that does not end in `0` has a positive value -/
theorem valOf_pos_of_last (b : Bytes) (h : b.all isDec = true) (hne : b ≠ []) (hl : b.getLast? ≠ some 48) :
    0 < valOf 10 b := by
  induction b with
  | nil => exact absurd rfl hne
  | cons c b ih =>
    rw [valOf_cons10]
    rw [List.all_cons, Bool.and_eq_true] at h
    cases b with
    | nil =>
      simp at hl
      have h0 := ((mant_byte_facts c).2.1 h.1).2.2.2.2
      have : digVal c ≠ 0 := fun hz => hl (by simpa using h0.mpr hz)
      simp; omega
    | cons c2 b2 =>
      have := ih h.2 (by simp) (by simpa using hl)
      omega

/-- parity of a digit string is the parity of its last digit -/
theorem valOf_parity (a : Bytes) (c : UInt8) : valOf 10 (a ++ [c]) % 2 = digVal c % 2 := by
  rw [valOf_append10]
  simp [valOf]
  omega

theorem round_byte_facts (c : UInt8) : isDec c = true →
    ((c ≥ 53) ↔ 5 ≤ digVal c) ∧ ((c == 53) = true ↔ digVal c = 5) ∧
    (((c - 48) % 2 != 0) = true ↔ digVal c % 2 = 1) ∧ digVal c ≤ 9 := by
  revert c; apply byte_forall; decide +kernel

theorem getD_append_len (hi : Bytes) (c : UInt8) (rest : Bytes) : (hi ++ c :: rest).getD hi.length 48 = c := by
  induction hi with
  | nil => rfl
  | cons a hi ih => simpa using ih

/-- the digit before the point, when there is one -/
theorem prevDigit (hi : Bytes) (c : UInt8) (rest : Bytes) (hpos : 0 < hi.length) :
    ∃ hi' c1, hi = hi' ++ [c1] ∧ (hi ++ c :: rest).getD (hi.length - 1) 48 = c1 := by
  have hne : hi ≠ [] := by intro h; subst h; simp at hpos
  obtain ⟨hi', c1, e⟩ : ∃ hi' c1, hi = hi' ++ [c1] :=
    ⟨hi.dropLast, hi.getLast hne, (List.dropLast_concat_getLast hne).symm⟩
  refine ⟨hi', c1, e, ?_⟩
  subst e
  simp only [List.length_append, List.length_singleton, Nat.add_sub_cancel, List.append_assoc,
    List.singleton_append]
  exact getD_append_len hi' c1 (c :: rest)

/-- **the rounding step, digits split at the point**: integer part `hi`, fraction `c :: rest` -/
theorem ri_split (hi : Bytes) (c : UInt8) (rest : Bytes) (hhi : hi.all isDec = true) (hc : isDec c = true)
    (hrest : rest.all isDec = true) (htrim : (c :: rest).getLast? ≠ some 48) (hlen : hi.length ≤ 19) :
    roundedInteger { d := hi ++ c :: rest, dp := hi.length, trunc := false } =
      rne (valOf 10 (hi ++ c :: rest)) (10 ^ (rest.length + 1)) := by
  obtain ⟨f1, f2, f3, f4⟩ := round_byte_facts c hc
  have h64 := pow10_19
  unfold roundedInteger
  have hdp : ¬ ((hi.length : Int) > 20) := by omega
  simp only [hdp, if_false, Int.toNat_natCast, List.take_left', List.length_append, List.length_cons]
  have hpad : hi.length - (hi.length + (rest.length + 1)) = 0 := by omega
  rw [hpad]
  simp only [riPad]
  rw [riDigits_eq hi hhi 0 0 (by decide) (by omega), ← valOf_eq]
  -- parity of the integer part = parity of its last digit
  have hpar : valOf 10 hi % 2 = 1 ↔
      (decide (hi.length > 0) && ((hi ++ c :: rest).getD (hi.length - 1) 48 - 48) % 2 != 0) = true := by
    by_cases hpos : 0 < hi.length
    · obtain ⟨hi', c1, e1, e2⟩ := prevDigit hi c rest hpos
      have hc1 : isDec c1 = true := by
        rw [e1, List.all_append] at hhi
        simp only [Bool.and_eq_true, List.all_cons, List.all_nil, Bool.and_true] at hhi
        exact hhi.2
      obtain ⟨_, _, g3, _⟩ := round_byte_facts c1 hc1
      rw [e2]
      conv => lhs; rw [e1, valOf_parity]
      simp only [hpos, decide_true, Bool.true_and]
      exact g3.symm
    · have : hi = [] := by
        cases hi with
        | nil => rfl
        | cons _ _ => simp at hpos
      subst this
      simp [valOf]
  -- the exact value
  have hq := valOf_lt hi hhi
  have hqle : 10 ^ hi.length ≤ 10 ^ 19 := Nat.pow_le_pow_right (by decide) hlen
  have hr := valOf_lt rest hrest
  have hvpos : rest ≠ [] → 0 < valOf 10 rest := by
    intro hne
    apply valOf_pos_of_last rest hrest hne
    cases rest with
    | nil => exact absurd rfl hne
    | cons a b => simpa using htrim
  rw [valOf_append10, valOf_cons10, List.length_cons, rne_def]
  generalize hP : 10 ^ rest.length = P at *
  have hPpos : 0 < P := by rw [← hP]; exact Nat.pow_pos (by decide)
  have hD : 10 ^ (rest.length + 1) = 10 * P := by rw [Nat.pow_succ, hP]; ring
  rw [hD]
  generalize valOf 10 hi = q at *
  generalize hvr : valOf 10 rest = vr at *
  generalize hX : digVal c * P = X
  have hXle : X ≤ 9 * P := by rw [← hX]; exact Nat.mul_le_mul_right _ f4
  have hdm : (q * (10 * P) + (X + vr)) / (10 * P) = q ∧ (q * (10 * P) + (X + vr)) % (10 * P) = X + vr := by
    rw [Nat.div_mod_unique (by omega)]
    constructor
    · ring
    · omega
  rw [hdm.1, hdm.2]
  have hwrap : (q + 1) % 2 ^ 64 = q + 1 := Nat.mod_eq_of_lt (by omega)
  rw [hwrap]
  -- shouldRoundUp
  unfold shouldRoundUp
  have hc2 : (decide ((hi.length : Int) < 0) ||
      decide ((hi.length : Int) ≥ ((hi.length + (rest.length + 1) : Nat) : Int))) = false := by
    simp only [Bool.or_eq_false_iff, decide_eq_false_iff_not]; omega
  simp only [Int.toNat_natCast, getD_append_len, List.length_append, List.length_cons, hc2,
    Bool.false_eq_true, if_false]
  by_cases h53 : (c == 53) = true
  · have hd5 := f2.mp h53
    have hX5 : X = 5 * P := by rw [← hX, hd5]
    by_cases hr0 : rest = []
    · -- exactly one fraction digit, a 5: round to even
      subst hr0
      have hP1 : P = 1 := by rw [← hP]; rfl
      have hv0 : vr = 0 := by rw [← hvr]; rfl
      subst hP1; subst hv0
      have hk : (hi.length + 1 == hi.length + (0 + 1)) = true := by simp
      simp only [h53, List.length_nil, hk, Bool.and_self, if_true]
      by_cases hodd : q % 2 = 1
      · rw [if_pos (hpar.mp hodd), if_pos (Or.inr ⟨by omega, hodd⟩)]
      · have : ¬ ((decide (hi.length > 0) && ((hi ++ [c]).getD (hi.length - 1) 48 - 48) % 2 != 0) = true) :=
          fun h => hodd (hpar.mpr h)
        rw [if_neg this, if_neg (by omega)]
    · have hvp := hvpos hr0
      have hlen1 : 0 < rest.length := List.length_pos_iff.mpr hr0
      have hk : (hi.length + 1 == hi.length + (rest.length + 1)) = false := by
        simp only [beq_eq_false_iff_ne, ne_eq]; omega
      have hge : c ≥ 53 := f1.mpr (by omega)
      simp only [h53, hk, Bool.and_false, Bool.false_eq_true, if_false, hge, decide_true, if_true]
      rw [if_pos (Or.inl (by omega))]
  · have h53' : (c == 53) = false := by simpa using h53
    simp only [h53', Bool.false_and, Bool.false_eq_true, if_false]
    have hne5 : digVal c ≠ 5 := fun h => h53 (f2.mpr h)
    by_cases hge : c ≥ 53
    · have h6 : 6 ≤ digVal c := by have := f1.mp hge; omega
      have hX6 : 6 * P ≤ X := by rw [← hX]; exact Nat.mul_le_mul_right _ h6
      simp only [hge, decide_true, if_true]
      rw [if_pos (Or.inl (by omega))]
    · have h4 : digVal c ≤ 4 := by
        have : ¬ 5 ≤ digVal c := fun h => hge (f1.mpr h)
        omega
      have hX4 : X ≤ 4 * P := by rw [← hX]; exact Nat.mul_le_mul_right _ h4
      simp only [hge, decide_false, Bool.false_eq_true, if_false]
      rw [if_neg (by omega)]

/-- **decimal.RoundedInteger = round-half-even of the decimal's exact value** (trimmed digits, no
truncation, 0 ≤ dp ≤ 19 so that the integer part fits `uint64`): for value 0.d₁…dₙ·10^dp the
result is the exact integer when there is no fraction, else `F64.rne` of digits / 10^(n − dp) —
the same round-half-even that `F64.roundMag` is built on. -/
theorem roundedInteger_rne (a : Dec) (hd : a.d.all isDec = true) (htrim : a.d.getLast? ≠ some 48)
    (h0 : 0 ≤ a.dp) (h19 : a.dp ≤ 19) (ht : a.trunc = false) :
    roundedInteger a =
      if a.d.length ≤ a.dp.toNat then valOf 10 a.d * 10 ^ (a.dp.toNat - a.d.length)
      else rne (valOf 10 a.d) (10 ^ (a.d.length - a.dp.toNat)) := by
  obtain ⟨ds, dp, tr⟩ := a
  simp only at hd htrim h0 h19 ht ⊢
  subst ht
  obtain ⟨k, rfl⟩ := Int.eq_ofNat_of_zero_le h0
  have hk : k ≤ 19 := by omega
  simp only [Int.toNat_natCast]
  have h64 := pow10_19
  by_cases hle : ds.length ≤ k
  · rw [if_pos hle]
    unfold roundedInteger
    have hdp : ¬ ((k : Int) > 20) := by omega
    simp only [hdp, if_false, Int.toNat_natCast, List.take_of_length_le hle]
    rw [riDigits_eq ds hd 0 0 (by decide) (by omega), ← valOf_eq]
    have hv := valOf_lt ds hd
    have hb : valOf 10 ds * 10 ^ (k - ds.length) < 2 ^ 64 := by
      have h1 : valOf 10 ds * 10 ^ (k - ds.length) < 10 ^ ds.length * 10 ^ (k - ds.length) :=
        Nat.mul_lt_mul_of_pos_right hv (Nat.pow_pos (by decide))
      have h2 : 10 ^ ds.length * 10 ^ (k - ds.length) = 10 ^ k := by rw [← Nat.pow_add]; congr 1; omega
      have h3 : 10 ^ k ≤ 10 ^ 19 := Nat.pow_le_pow_right (by decide) hk
      omega
    rw [riPad_eq _ _ hb]
    have hsr : shouldRoundUp { d := ds, dp := (k : Int), trunc := false } (k : Int) = false := by
      unfold shouldRoundUp
      have : (decide ((k : Int) < 0) || decide ((k : Int) ≥ (ds.length : Int))) = true := by
        simp only [Bool.or_eq_true, decide_eq_true_eq]; right; omega
      simp only [this, if_true]
    simp only [hsr, Bool.false_eq_true, if_false]
  · rw [if_neg hle]
    have hlt : k < ds.length := by omega
    have hsplit : ds = ds.take k ++ ds.drop k := (List.take_append_drop k ds).symm
    have hlen : (ds.take k).length = k := by rw [List.length_take]; omega
    cases hdrop : ds.drop k with
    | nil =>
      have : (ds.drop k).length = ds.length - k := List.length_drop
      rw [hdrop] at this; simp at this; omega
    | cons c rest =>
      rw [hdrop] at hsplit
      have hall : (ds.take k).all isDec = true ∧ isDec c = true ∧ rest.all isDec = true := by
        rw [hsplit, List.all_append, List.all_cons] at hd
        simp only [Bool.and_eq_true] at hd
        exact ⟨hd.1, hd.2.1, hd.2.2⟩
      have htrim' : (c :: rest).getLast? ≠ some 48 := by
        rw [hsplit, List.getLast?_append] at htrim
        cases hgl : (c :: rest).getLast? with
        | none => simp at hgl
        | some x => rw [hgl] at htrim; simpa using htrim
      have hL : ds.length - k = rest.length + 1 := by
        have : (ds.drop k).length = ds.length - k := List.length_drop
        rw [hdrop] at this; simp at this; omega
      have := ri_split (ds.take k) c rest hall.1 hall.2.1 hall.2.2 htrim' (by omega)
      rw [hlen, ← hsplit] at this
      rw [this, hL]

end C03
