/-
C19 helper lemmas: the storage invariant — every stored record stands for a run of results: its
content is the run as `InsertRecord` writes it and its label rows are the labels of the run's first
result. Ties the index (RecordLabels) to what a query returns (Records.Content read back).
-/
import Model.Storage.Fmt
import Proofs.Lemmas.C19Wf
import Proofs.Lemmas.C19Coalesce

namespace C19
open Storage.Query Storage.Fmt

/-- the label rows `InsertRecord` queues for a new record -/
def rowsFor (id : Bytes) (rid : Nat) (h : Result) : List LabelRow :=
  (h.labels ++ h.nameL).map fun kv => ⟨id, rid, kv.1, kv.2⟩

/-- record `rec` of upload `id` stands for the run `h :: t` -/
def Stands (P : Result → Prop) (id : Bytes) (labels : List LabelRow) (rec : RecordRow)
    (h : Result) (t : List Result) : Prop :=
  P h ∧ (∀ r ∈ t, P r ∧ h.sameLabels r = true) ∧ rec.content = groupContent (h :: t) ∧
  labels.filter (fun l => l.rid == rec.rid) = rowsFor id rec.rid h

structure SInv (P : Result → Prop) (u : Upload) : Prop where
  uinv : UInv u
  recs : ∀ rec ∈ u.records, ∃ h t, Stands P u.id u.labels rec h t
  open_ : ∀ h, u.lastResult = some h →
    ∃ recs row t, u.records = recs ++ [row] ∧ Stands P u.id u.labels row h t

theorem queue_last (l : Labels) (u : Upload) :
    (queue u l).lastResult = u.lastResult ∨ (queue u l).lastResult = none := by
  unfold queue
  induction l generalizing u with
  | nil => exact Or.inl rfl
  | cons kv rest ih =>
    simp only [List.foldl_cons]
    rcases ih (u.insertLabel kv.1 kv.2) with h | h
    · by_cases hu : u.labelArgs ≥ 990
      · exact Or.inr (h.trans (insertLabel_flush u kv.1 kv.2 hu).2)
      · exact Or.inl (h.trans (insertLabel_noflush u kv.1 kv.2 (by omega)).2)
    · exact Or.inr h

theorem insertNew_last (u : Upload) (r : Result) :
    (u.insertNew r).lastResult = some r ∨ (u.insertNew r).lastResult = none := by
  rw [(insertNew_state u r).1]
  exact queue_last _ (newStart u r)

theorem uinv_label_rid (u : Upload) (hu : UInv u) (l : LabelRow) (hl : l ∈ u.labels) :
    l.rid < u.recordid := by
  have := (hu.labUp l hl).2
  exact (hu.recUp _ this).2

theorem uinv_rec_rid (u : Upload) (hu : UInv u) (rec : RecordRow) (hr : rec ∈ u.records) :
    rec.rid < u.recordid :=
  (hu.recUp (pr rec) (List.mem_map.mpr ⟨rec, hr, rfl⟩)).2

theorem filter_rowsFor_self (id : Bytes) (rid : Nat) (h : Result) :
    (rowsFor id rid h).filter (fun l => l.rid == rid) = rowsFor id rid h := by
  apply List.filter_eq_self.mpr
  intro l hl
  obtain ⟨kv, _, rfl⟩ := List.mem_map.mp hl
  simp

theorem filter_rowsFor_other (id : Bytes) (rid rid2 : Nat) (h : Result) (hne : rid ≠ rid2) :
    (rowsFor id rid h).filter (fun l => l.rid == rid2) = [] := by
  apply List.filter_eq_nil_iff.mpr
  intro l hl
  obtain ⟨kv, _, rfl⟩ := List.mem_map.mp hl
  simpa using hne

theorem groupContent_snoc (h : Result) (t : List Result) (r : Result) :
    groupContent (h :: (t ++ [r])) = groupContent (h :: t) ++ (r.content ++ [nl]) := by
  simp [groupContent, List.append_assoc]

theorem insertNew_inv (u : Upload) (r : Result) (hu : UInv u) (hr : (uploadKey, u.id) ∈ r.labels) :
    UInv (u.insertNew r) := by
  have hu' : UInv { u with lastResult := none } := ⟨hu.recUp, hu.recNodup, hu.labUp, hu.upLabel⟩
  have := insertRecord_inv { u with lastResult := none } r hu' hr
  have e : Upload.insertRecord { u with lastResult := none } r = u.insertNew r := by
    unfold Upload.insertRecord; rfl
  rwa [e] at this

theorem insertNew_sinv (P : Result → Prop) (u : Upload) (r : Result) (hu : SInv P u) (hP : P r)
    (hr : (uploadKey, u.id) ∈ r.labels) : SInv P (u.insertNew r) := by
  have huinv := insertNew_inv u r hu.uinv hr
  obtain ⟨hid, hrid, hrec, hlab⟩ := insertNew_spec u r
  have hlab' : (u.insertNew r).labels = u.labels ++ rowsFor u.id u.recordid r := hlab
  have hold : ∀ rec ∈ u.records, ∀ h t, Stands P u.id u.labels rec h t →
      Stands P (u.insertNew r).id (u.insertNew r).labels rec h t := by
    intro rec hrec' h t ⟨a, b, c, d⟩
    refine ⟨a, b, c, ?_⟩
    rw [hid, hlab', List.filter_append, d,
      filter_rowsFor_other _ _ _ _ (Nat.ne_of_gt (uinv_rec_rid u hu.uinv rec hrec')), List.append_nil]
  have hfresh : Stands P (u.insertNew r).id (u.insertNew r).labels
      ⟨u.id, u.recordid, (printResult [] r).1⟩ r [] := by
    refine ⟨hP, by simp, by simp [groupContent], ?_⟩
    rw [hid, hlab', List.filter_append, filter_rowsFor_self]
    have : u.labels.filter (fun l => l.rid == u.recordid) = [] := by
      apply List.filter_eq_nil_iff.mpr
      intro l hl
      have := uinv_label_rid u hu.uinv l hl
      simp only [beq_iff_eq]; omega
    rw [this, List.nil_append]
  refine ⟨huinv, ?_, ?_⟩
  · intro rec hrec'
    rw [hrec] at hrec'
    rcases List.mem_append.mp hrec' with h | h
    · obtain ⟨h0, t0, hs⟩ := hu.recs rec h
      exact ⟨h0, t0, hold rec h h0 t0 hs⟩
    · simp only [List.mem_singleton] at h
      subst h
      exact ⟨r, [], hfresh⟩
  · intro h hl
    rcases insertNew_last u r with hl2 | hl2
    · rw [hl2] at hl
      cases hl
      exact ⟨u.records, _, [], hrec, hfresh⟩
    · rw [hl2] at hl; cases hl

/-- `InsertRecord` keeps the storage invariant -/
theorem insertRecord_sinv (P : Result → Prop) (u : Upload) (r : Result) (hu : SInv P u) (hP : P r)
    (hr : (uploadKey, u.id) ∈ r.labels) : SInv P (u.insertRecord r) := by
  have hnew := insertNew_sinv P u r hu hP hr
  cases hlast : u.lastResult with
  | none =>
    have e : u.insertRecord r = u.insertNew r := by unfold Upload.insertRecord; simp [hlast]
    rw [e]; exact hnew
  | some last =>
    by_cases hsame : last.sameLabels r = true
    · -- appended to the open record
      have e : u.insertRecord r = { u with records := appendToLast u.records (r.content ++ [nl]) } := by
        unfold Upload.insertRecord; simp [hlast, hsame]
      have huinv := insertRecord_inv u r hu.uinv hr
      rw [e] at huinv ⊢
      obtain ⟨recs, row, t, hrecs, a, b, c, d⟩ := hu.open_ last hlast
      have happ : appendToLast u.records (r.content ++ [nl]) =
          recs ++ [{ row with content := row.content ++ (r.content ++ [nl]) }] := by
        rw [hrecs, appendToLast_snoc]
      have hrow : Stands P u.id u.labels { row with content := row.content ++ (r.content ++ [nl]) }
          last (t ++ [r]) := by
        refine ⟨a, ?_, ?_, d⟩
        · intro x hx
          rcases List.mem_append.mp hx with hx | hx
          · exact b x hx
          · simp only [List.mem_singleton] at hx; subst hx; exact ⟨hP, hsame⟩
        · rw [groupContent_snoc, ← c]
      refine ⟨huinv, ?_, ?_⟩
      · intro rec hrec'
        simp only [happ] at hrec'
        rcases List.mem_append.mp hrec' with h | h
        · exact hu.recs rec (by rw [hrecs]; exact List.mem_append_left _ h)
        · simp only [List.mem_singleton] at h
          subst h
          exact ⟨last, t ++ [r], hrow⟩
      · intro h hl
        simp only [hlast, Option.some.injEq] at hl
        subst hl
        exact ⟨recs, _, t ++ [r], happ, hrow⟩
    · have e : u.insertRecord r = u.insertNew r := by unfold Upload.insertRecord; simp [hlast, hsame]
      rw [e]; exact hnew

theorem foldl_insertRecord_sinv (P : Result → Prop) (rs : List Result) (u : Upload) (hu : SInv P u)
    (hP : ∀ r ∈ rs, P r) (hr : ∀ r ∈ rs, (uploadKey, u.id) ∈ r.labels) :
    SInv P (rs.foldl Upload.insertRecord u) := by
  induction rs generalizing u with
  | nil => exact hu
  | cons r rest ih =>
    simp only [List.foldl_cons]
    have hid := insertRecord_id u r
    exact ih _ (insertRecord_sinv P u r hu (hP r (by simp)) (hr r (by simp)))
      (fun x hx => hP x (by simp [hx])) (fun x hx => by rw [hid]; exact hr x (by simp [hx]))


/-! ### files, uploads, database states -/

/-- the results the server reads from the files of one upload request all satisfy `P` -/
def UploadP (P : Result → Prop) (id user : Bytes) (files : List FileIn) : Prop :=
  ∀ (i : Nat) (f : FileIn), f ∈ files →
    ∀ r ∈ (Reader.addLabels {} (metaLabels id i user f.name)).all f.content, P r

theorem indexFiles_sinv (P : Result → Prop) (user : Bytes) (files : List FileIn) (i : Nat)
    (u u' : Upload) (hu : SInv P u) (hP : UploadP P u.id user files)
    (h : indexFiles u user i files = some u') : SInv P u' ∧ u'.id = u.id := by
  induction files generalizing u i with
  | nil => simp [indexFiles] at h; subst h; exact ⟨hu, rfl⟩
  | cons f fs ih =>
    unfold indexFiles at h
    cases hf : indexFile u i user f with
    | none => simp [hf] at h
    | some u1 =>
      simp only [hf] at h
      unfold indexFile at hf
      simp only at hf
      split at hf
      · cases hf
      split at hf
      · cases hf
      · simp only [Option.some.injEq] at hf
        have hres : ∀ r ∈ (Reader.addLabels {} (metaLabels u.id i user f.name)).all f.content,
            (uploadKey, u.id) ∈ r.labels := by
          unfold Reader.all
          exact allGo_upload u.id _ _
            (addLabels_inv u.id _ (metaLabels_upload u.id i user f.name)) (scanLines f.content)
        have h1 := foldl_insertRecord_sinv P _ u hu (hP i f (by simp)) hres
        have hid := (foldl_insertRecord_inv _ u hu.uinv hres).2
        rw [hf] at h1 hid
        have h2 := ih (i + 1) u1 h1 (by
          intro j g hg; rw [hid]; exact hP j g (by simp [hg])) h
        exact ⟨h2.1, h2.2.trans hid⟩

/-- every record of the database stands for a run; its label rows are the labels of the run's head -/
def DBStands (P : Result → Prop) (db : DB) : Prop :=
  ∀ rec ∈ db.records, ∃ h t, P h ∧ (∀ r ∈ t, P r ∧ h.sameLabels r = true) ∧
    rec.content = groupContent (h :: t) ∧
    db.labels.filter (fun l => l.rkey == rec.rkey) = rowsFor rec.upload rec.rid h

theorem sinv_init (P : Result → Prop) (id : Bytes) : SInv P { id := id } :=
  ⟨uinv_init id, by simp, by simp⟩

/-- `processUpload` keeps `Inv` and the storage invariant, provided the results read from the files
satisfy `P` -/
theorem processUpload_stands (P : Result → Prop) (db : DB) (hinv : Inv db) (hst : DBStands P db)
    (day user : Bytes) (files : List FileIn)
    (hP : UploadP P (day ++ [46] ++ natToDec (nextSeq db day)) user files) :
    DBStands P (processUpload db day user files).1 := by
  unfold processUpload
  simp only
  split
  · exact hst
  · rename_i hany
    have hfresh : (day ++ [46] ++ natToDec (nextSeq db day)) ∉ db.uploads.map (·.id) := by
      intro hm
      obtain ⟨x, hx, he⟩ := List.mem_map.mp hm
      exact hany (List.any_eq_true.mpr ⟨x, hx, by simp [he]⟩)
    split
    · exact hst
    · rename_i u hu
      split
      · exact hst
      · have hs := indexFiles_sinv P user files 0 _ u (sinv_init P _) hP hu
        have hid : u.id = day ++ [46] ++ natToDec (nextSeq db day) := hs.2
        have hnewid : u.id ∉ db.uploads.map (·.id) := by rw [hid]; exact hfresh
        -- old label rows belong to old uploads, new ones to the new upload
        have oldLab : ∀ l ∈ db.labels, l.upload ≠ u.id := by
          intro l hl e
          obtain ⟨r, hr, hk⟩ := List.mem_map.mp (hinv.wf.fk l hl)
          simp only [RecordRow.rkey, LabelRow.rkey, Prod.mk.injEq] at hk
          exact hnewid (by rw [← e, ← hk.1]; exact hinv.recUp r hr)
        have newLab : ∀ l ∈ u.labels, l.upload = u.id := fun l hl => (hs.1.uinv.labUp l hl).1
        intro rec hrec
        simp only at hrec ⊢
        rcases List.mem_append.mp hrec with hrec | hrec
        · obtain ⟨h, t, a, b, c, d⟩ := hst rec hrec
          refine ⟨h, t, a, b, c, ?_⟩
          rw [List.filter_append, d]
          have : u.labels.filter (fun l => l.rkey == rec.rkey) = [] := by
            apply List.filter_eq_nil_iff.mpr
            intro l hl hk
            simp only [LabelRow.rkey, RecordRow.rkey, beq_iff_eq, Prod.mk.injEq] at hk
            exact hnewid (by rw [← newLab l hl, hk.1]; exact hinv.recUp rec hrec)
          rw [this, List.append_nil]
        · obtain ⟨h, t, a, b, c, d⟩ := hs.1.recs rec hrec
          have hup : rec.upload = u.id :=
            (hs.1.uinv.recUp (pr rec) (List.mem_map.mpr ⟨rec, hrec, rfl⟩)).1
          refine ⟨h, t, a, b, c, ?_⟩
          rw [List.filter_append]
          have h1 : db.labels.filter (fun l => l.rkey == rec.rkey) = [] := by
            apply List.filter_eq_nil_iff.mpr
            intro l hl hk
            simp only [LabelRow.rkey, RecordRow.rkey, beq_iff_eq, Prod.mk.injEq] at hk
            exact oldLab l hl (hk.1.trans hup)
          have h2 : u.labels.filter (fun l => l.rkey == rec.rkey) =
              u.labels.filter (fun l => l.rid == rec.rid) := by
            apply List.filter_congr
            intro l hl
            simp only [LabelRow.rkey, RecordRow.rkey, newLab l hl, hup]
            by_cases hr : l.rid = rec.rid <;> simp [hr]
          rw [h1, h2, d, hup, List.nil_append]

end C19
