/-
C18 helper: the (benchmark, series) cells produced by the rearrangement loop, in canonical form,
depend only on the multiset of canonical contributions (under `CDet`): both duplicate policies.
-/
import Proofs.Lemmas.C18Canon

namespace C18
open Series

/-- a comparison with its samples as sorted multisets -/
def canonCmp (cc : Cmp) : Cmp := { num := sortBits cc.num, den := cc.den.map sortBits, date := cc.date }

theorem sortBits_self_perm (l : List Bits) : (sortBits l).Perm l := List.mergeSort_perm _ _

theorem sortBits_idem (l : List Bits) : sortBits (sortBits l) = sortBits l :=
  sortBits_perm (sortBits_self_perm l)

theorem filter_key_map_canon (cs : List Contrib) (sk : Bytes × Bytes) :
    (cs.map canonC).filter (fun c => c.key = sk) = (cs.filter (fun c => c.key = sk)).map canonC := by
  rw [List.filter_map]; rfl

/-! ### replace -/

theorem replace_fold_canon (env : Env) (F : List Contrib) (o : Option Cmp) :
    (F.foldl (stepCell env .replace) o).map canonCmp =
      (F.map canonC).foldl (stepCell env .replace) (o.map canonCmp) := by
  induction F generalizing o with
  | nil => rfl
  | cons c F ih =>
    simp only [List.foldl_cons, List.map_cons]
    rw [ih]
    congr 1
    cases o with
    | none => rfl
    | some cc =>
      simp only [stepCell, Option.map_some]
      by_cases hd : env.lt cc.date c.date = true
      · have : env.lt (canonCmp cc).date (canonC c).date = true := hd
        simp only [hd, this, if_true]; rfl
      · have hd' : env.lt cc.date c.date = false := by simpa using hd
        have : env.lt (canonCmp cc).date (canonC c).date = false := hd'
        simp only [hd', this]; rfl

/-! ### combine -/

/-- the combined denominator of a list of contributions -/
def denJoin (F : List Contrib) : Option (List Bits) :=
  if F.all (fun c => c.den.isNone) then none else some (F.flatMap fun c => c.den.getD [])

theorem combineDen_fold (ds : List (Option (List Bits))) (z : Option (List Bits)) :
    ds.foldl combineDen z =
      (if z.isNone && ds.all (·.isNone) then none else some (z.getD [] ++ ds.flatMap (·.getD []))) := by
  induction ds generalizing z with
  | nil => cases z <;> simp
  | cons d ds ih =>
    simp only [List.foldl_cons]
    rw [ih]
    cases z with
    | none => cases d <;> simp [combineDen]
    | some a => cases d <;> simp [combineDen]

/-- full description of the combine fold over the contributions of one cell -/
theorem combine_fold_full (env : Env) (ho : StrictOrder env.lt) (c0 : Contrib) (F : List Contrib) :
    ∃ r, (c0 :: F).foldl (stepCell env .combine) none = some r ∧
      r.num = (c0 :: F).flatMap (·.num) ∧ r.den = denJoin (c0 :: F) ∧
      r.date ∈ (c0 :: F).map (·.date) ∧ ∀ d ∈ (c0 :: F).map (·.date), env.lt r.date d = false := by
  -- generalise: fold from an accumulated comparison z that already satisfies the description
  have key : ∀ (F : List Contrib) (P : List Contrib) (z : Cmp), P ≠ [] →
      z.num = P.flatMap (·.num) → z.den = denJoin P → z.date ∈ P.map (·.date) →
      (∀ d ∈ P.map (·.date), env.lt z.date d = false) →
      ∃ r, F.foldl (stepCell env .combine) (some z) = some r ∧
        r.num = (P ++ F).flatMap (·.num) ∧ r.den = denJoin (P ++ F) ∧
        r.date ∈ (P ++ F).map (·.date) ∧ ∀ d ∈ (P ++ F).map (·.date), env.lt r.date d = false := by
    intro F
    induction F with
    | nil => intro P z _ h1 h2 h3 h4; exact ⟨z, rfl, by simpa using h1, by simpa using h2, by simpa using h3, by simpa using h4⟩
    | cons x F ih =>
      intro P z hP h1 h2 h3 h4
      simp only [List.foldl_cons, stepCell]
      have hPx : P ++ x :: F = (P ++ [x]) ++ F := by simp
      rw [hPx]
      apply ih (P ++ [x]) _ (by simp)
      · simp [h1]
      · -- denominators
        show combineDen z.den x.den = denJoin (P ++ [x])
        rw [h2]
        unfold denJoin
        cases hx : x.den with
        | none =>
          by_cases hall : P.all (fun c => c.den.isNone) = true
          · simp [combineDen, hall, hx]
          · have hall' : P.all (fun c => c.den.isNone) = false := by simpa using hall
            simp [combineDen, hall', hx]
        | some b =>
          by_cases hall : P.all (fun c => c.den.isNone) = true
          · have hnil : (P.flatMap fun c => c.den.getD []) = [] := by
              rw [List.flatMap_eq_nil_iff]
              intro c hc
              have := (List.all_eq_true.mp hall) c hc
              cases hd : c.den with
              | none => rfl
              | some v => rw [hd] at this; simp at this
            simp [combineDen, hall, hx, hnil]
          · have hall' : P.all (fun c => c.den.isNone) = false := by simpa using hall
            simp [combineDen, hall', hx]
      · -- the date is one of the dates
        by_cases hd : env.lt z.date x.date = true
        · simp [hd]
        · have hd' : env.lt z.date x.date = false := by simpa using hd
          simp only [hd', Bool.false_eq_true, if_false, List.map_append, List.mem_append]
          exact Or.inl h3
      · intro d hdm
        simp only [List.map_append, List.mem_append, List.map_cons, List.map_nil, List.mem_singleton] at hdm
        by_cases hd : env.lt z.date x.date = true
        · simp only [hd, if_true]
          rcases hdm with hdm | rfl
          · -- x.date > z.date ≥ d
            have hz := h4 d hdm
            cases hxd : env.lt x.date d with
            | false => rfl
            | true =>
              have := ho.trans _ _ _ hd hxd
              rw [hz] at this; exact absurd this (by simp)
          · exact ho.irrefl _
        · have hd' : env.lt z.date x.date = false := by simpa using hd
          simp only [hd', Bool.false_eq_true, if_false]
          rcases hdm with hdm | rfl
          · exact h4 d hdm
          · exact hd'
  have := key F [c0] { num := c0.num, den := c0.den, date := c0.date } (by simp) (by simp)
    (by
      unfold denJoin
      cases hd : c0.den <;> simp [hd])
    (by simp) (by intro d hd; simp at hd; subst hd; exact ho.irrefl _)
  simpa [stepCell] using this

theorem flatMap_num_canon (F : List Contrib) :
    ((F.map canonC).flatMap (·.num)).Perm (F.flatMap (·.num)) := by
  rw [List.flatMap_map]
  exact perm_flatMap_left F fun c _ => sortBits_self_perm c.num

theorem denJoin_canon (F : List Contrib) :
    (denJoin (F.map canonC)).map sortBits = (denJoin F).map sortBits := by
  unfold denJoin
  have hall : (F.map canonC).all (fun c => c.den.isNone) = F.all (fun c => c.den.isNone) := by
    rw [List.all_map]
    congr 1
    funext c
    show (c.den.map sortBits).isNone = c.den.isNone
    cases c.den <;> rfl
  rw [hall]
  split
  · rfl
  · simp only [Option.map_some, Option.some.injEq]
    apply sortBits_perm
    rw [List.flatMap_map]
    apply perm_flatMap_left
    intro c _
    show ((c.den.map sortBits).getD []).Perm (c.den.getD [])
    cases c.den with
    | none => exact List.Perm.refl _
    | some v => exact sortBits_self_perm v

theorem denJoin_perm {F1 F2 : List Contrib} (p : F1.Perm F2) :
    (denJoin F1).map sortBits = (denJoin F2).map sortBits := by
  unfold denJoin
  have hall : F1.all (fun c => c.den.isNone) = F2.all (fun c => c.den.isNone) := by
    apply Bool.eq_iff_iff.mpr
    simp only [List.all_eq_true]
    exact ⟨fun h c hc => h c (p.mem_iff.mpr hc), fun h c hc => h c (p.mem_iff.mp hc)⟩
  rw [hall]
  split
  · rfl
  · simp only [Option.map_some, Option.some.injEq]
    exact sortBits_perm (p.flatMap_right _)

/-- both policies: the canonical cell depends only on the canonical contributions, as a multiset -/
theorem cell_congr (env : Env) (ho : StrictOrder env.lt) (pol : Policy) {cs1 cs2 : List Contrib}
    (hp : (cs1.map canonC).Perm (cs2.map canonC)) (hd : CDet pol cs1) (sk : Bytes × Bytes) :
    (alookup sk (cs1.foldl (step env pol) {}).cells).map canonCmp =
    (alookup sk (cs2.foldl (step env pol) {}).cells).map canonCmp := by
  rw [cells_lookup_foldl, cells_lookup_foldl]
  have hF : ((cs1.filter (fun c => c.key = sk)).map canonC).Perm ((cs2.filter (fun c => c.key = sk)).map canonC) := by
    rw [← filter_key_map_canon, ← filter_key_map_canon]; exact hp.filter _
  have hmem1 : ∀ x ∈ cs1.filter (fun c => c.key = sk), x ∈ cs1 ∧ x.key = sk := by
    intro x hx
    have := List.mem_filter.mp hx
    exact ⟨this.1, by simpa using this.2⟩
  generalize cs1.filter (fun c => c.key = sk) = F1 at hF hmem1
  generalize cs2.filter (fun c => c.key = sk) = F2 at hF
  have hdates : (F1.map (·.date)).Perm (F2.map (·.date)) := by
    have h := hF.map (·.date)
    rw [List.map_map, List.map_map] at h
    exact h
  show (F1.foldl (stepCell env pol) none).map canonCmp = (F2.foldl (stepCell env pol) none).map canonCmp
  cases pol with
  | replace =>
    rw [replace_fold_canon, replace_fold_canon]
    apply replace_fold_perm env ho hF
    intro x hx y hy hxy
    obtain ⟨x', hx', rfl⟩ := List.mem_map.mp hx
    obtain ⟨y', hy', rfl⟩ := List.mem_map.mp hy
    have h1 := hmem1 x' hx'
    have h2 := hmem1 y' hy'
    rw [hd.dates rfl x' h1.1 y' h2.1 (h1.2.trans h2.2.symm) hxy]
  | combine =>
    cases F1 with
    | nil =>
      have : F2 = [] := by
        have := hF.length_eq
        simp at this
        exact List.length_eq_zero_iff.mp this.symm
      rw [this]
    | cons c1 F1 =>
      cases F2 with
      | nil => exact absurd hF.length_eq (by simp)
      | cons c2 F2 =>
        obtain ⟨r1, e1, n1, d1, m1, x1⟩ := combine_fold_full env ho c1 F1
        obtain ⟨r2, e2, n2, d2, m2, x2⟩ := combine_fold_full env ho c2 F2
        rw [e1, e2]
        simp only [Option.map_some, Option.some.injEq]
        have hnum : sortBits r1.num = sortBits r2.num := by
          rw [n1, n2]
          exact (sortBits_perm (flatMap_num_canon (c1 :: F1)).symm).trans
            ((sortBits_perm (hF.flatMap_right _)).trans (sortBits_perm (flatMap_num_canon (c2 :: F2))))
        have hden : r1.den.map sortBits = r2.den.map sortBits := by
          rw [d1, d2, ← denJoin_canon (c1 :: F1), ← denJoin_canon (c2 :: F2)]
          exact denJoin_perm hF
        have hdate : r1.date = r2.date :=
          ho.total _ _ (x1 _ (hdates.mem_iff.mpr m2)) (x2 _ (hdates.mem_iff.mp m1))
        show Cmp.mk _ _ _ = Cmp.mk _ _ _
        simp only [Cmp.mk.injEq]
        exact ⟨hnum, hden, hdate⟩

end C18
