/-
C13: finite float64 values (with the canonical zero) form a linear order under `F64.lt`/`F64.eq`,
compatible with the exact rational value; the value arithmetic `Math.Val F64.Bits` restricted to
them is lawful, so the summary theorems speak about float64 samples.
-/
import Proofs.Lemmas.C13F64
import Proofs.Lemmas.C13Exact
import Mathlib.Order.Basic
import Mathlib.Data.List.Count

namespace C13
open F64 Math

/-- a finite float64 that is not −0 (the value +0 stands for both zeros) -/
def Canon (b : Bits) : Prop := isFinite b = true ∧ b ≠ negZero

instance (b : Bits) : Decidable (Canon b) := by unfold Canon; infer_instance

/-- finite float64 values (a structure rather than a subtype of `UInt64`, whose own order on the bit
patterns must not be picked up) -/
structure FinF where
  val : Bits
  canon : Canon val

theorem FinF.ext' {a b : FinF} (h : a.val = b.val) : a = b := by
  cases a; cases b; cases h; rfl

theorem FinF.val_injective : Function.Injective FinF.val := fun _ _ h => FinF.ext' h

theorem sval_inj {a b : Bits} (ha : Canon a) (hb : Canon b) (h : sval a = sval b) : a = b :=
  key_inj a b ha.2 hb.2
    ((eq_iff_key a b (isFinite_not_nan a ha.1) (isFinite_not_nan b hb.1)).mp
      ((eq_iff_sval a b ha.1 hb.1).mpr h))

/-- the order of the exact values -/
instance : LinearOrder FinF :=
  LinearOrder.lift' (fun x : FinF => sval x.1) (fun x y h => FinF.ext' (sval_inj x.2 y.2 h))

theorem finF_lt_iff (a b : FinF) : a < b ↔ sval a.1 < sval b.1 := Iff.rfl
theorem finF_le_iff (a b : FinF) : a ≤ b ↔ sval a.1 ≤ sval b.1 := Iff.rfl

/-- the float64 value arithmetic on finite values; a non-finite (or −0) interpolation result is
replaced by its first operand so that the operation stays inside the type — `interp` is not used by
the theorems instantiated here (sorting, AssumeExact) -/
instance : Val FinF where
  lt a b := F64.lt a.1 b.1
  eq a b := F64.eq a.1 b.1
  interp a b f :=
    if h : Canon (Val.interp a.1 b.1 f) then ⟨Val.interp a.1 b.1 f, h⟩ else a
  before a b := Val.before a.1 b.1

/-- **float64 comparisons are lawful**: on finite values `F64.lt` is the strict order and `F64.eq`
the equality of a linear order — the order of the exact rational values. -/
instance : LawfulVal FinF where
  lt_iff a b := lt_iff_sval a.1 b.1 a.2.1 b.2.1
  eq_iff a b := (eq_iff_sval a.1 b.1 a.2.1 b.2.1).trans
    ⟨fun h => FinF.ext' (sval_inj a.2 b.2 h), fun h => by rw [h]⟩
  before_irrefl a := by
    show (F64.signBit a.1 && !F64.signBit a.1) = false
    cases F64.signBit a.1 <;> rfl

/-! ### transfer from `List FinF` to the underlying `List F64.Bits` -/

theorem modeScan_val (l : List FinF) : ∀ (v : FinF) (c : Nat) (mv : FinF) (mc : Nat),
    Exact.modeScan (α := Bits) v.1 c mv.1 mc (l.map FinF.val) =
      ((Exact.modeScan v c mv mc l).1.1, (Exact.modeScan v c mv mc l).2) := by
  induction l with
  | nil => intro v c mv mc; rfl
  | cons x xs ih =>
    intro v c mv mc
    simp only [List.map_cons, Exact.modeScan]
    have e : (Val.eq (α := Bits) x.1 v.1) = Val.eq x v := rfl
    rw [e]
    by_cases h : Val.eq x v = true
    · simp only [h, if_true]
      by_cases h2 : c + 1 > mc
      · simp only [h2, if_true]; exact ih v (c + 1) v (c + 1)
      · simp only [h2, if_false]; exact ih v (c + 1) mv mc
    · simp only [h, if_false]; exact ih x 1 mv mc

theorem sortVals_val (l : List FinF) : sortVals (α := Bits) (l.map FinF.val) = (sortVals l).map FinF.val := by
  unfold sortVals
  exact (List.map_mergeSort (f := FinF.val) (r := sortLe) (s := sortLe) (fun _ _ _ _ => rfl)).symm

theorem lift_vals (vals : List Bits) (hc : ∀ v ∈ vals, Canon v) : ∃ l : List FinF, l.map FinF.val = vals := by
  induction vals with
  | nil => exact ⟨[], rfl⟩
  | cons v vs ih =>
    obtain ⟨l, hl⟩ := ih (fun x hx => hc x (List.mem_cons_of_mem _ hx))
    exact ⟨⟨v, hc v (by simp)⟩ :: l, by simp [hl]⟩

theorem summary_val (l : List FinF) (t : Thresholds) (r : Summary FinF)
    (h : Exact.summary (⟨l, t⟩ : Sample FinF) = some r) :
    ∃ r', Exact.summary (⟨l.map FinF.val, t⟩ : Sample Bits) = some r' ∧
      r'.center = r.center.val ∧
      (∀ a, r.lo = .fin a → r'.lo = .fin a.val) ∧ (∀ a, r.hi = .fin a → r'.hi = .fin a.val) ∧
      r'.confidence = r.confidence ∧ (r'.warnings = [] ↔ r.warnings = []) := by
  cases l with
  | nil => simp [Exact.summary] at h
  | cons v0 rest =>
    simp only [Exact.summary, Option.some.injEq] at h
    subst h
    simp only [Exact.summary, List.map_cons, modeScan_val, List.getLastD_map, List.length_cons, List.length_map]
    refine ⟨_, rfl, rfl, ?_, ?_, rfl, ?_⟩
    · intro a ha; cases ha; rfl
    · intro a ha; cases ha; rfl
    · by_cases hw : ((Exact.modeScan v0 1 v0 1 rest).2 != rest.length + 1) = true <;> simp [hw]

end C13
