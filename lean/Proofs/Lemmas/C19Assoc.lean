/-
C19 helper lemmas: `Labels` (association lists kept sorted by key) behave as finite maps.
-/
import Model.Storage.Fmt
import Proofs.Lemmas.C19Order
import Proofs.Lemmas.C19Wf

namespace C19
open Storage.Query Storage.Fmt

/-- keys strictly increasing in the bytewise order -/
def StrictSorted (l : Labels) : Prop := l.Pairwise fun a b => blt a.1 b.1 = true

theorem get_cons (x : Bytes × Bytes) (l : Labels) (k : Bytes) :
    Labels.get (x :: l) k = if x.1 == k then x.2 else Labels.get l k := by
  unfold Labels.get
  simp only [List.find?_cons]
  cases h : (x.1 == k) <;> simp

theorem get_nil (k : Bytes) : Labels.get [] k = [] := rfl

theorem get_not_key (l : Labels) (k : Bytes) (h : ∀ x ∈ l, x.1 ≠ k) : Labels.get l k = [] := by
  induction l with
  | nil => rfl
  | cons x rest ih =>
    rw [get_cons]
    have : (x.1 == k) = false := by simpa using h x (by simp)
    simp only [this, Bool.false_eq_true, if_false]
    exact ih (fun y hy => h y (by simp [hy]))

theorem get_mem (l : Labels) (k : Bytes) (h : Labels.get l k ≠ []) : (k, Labels.get l k) ∈ l := by
  induction l with
  | nil => exact absurd rfl h
  | cons x rest ih =>
    rw [get_cons] at h ⊢
    by_cases hx : x.1 = k
    · simp only [hx, beq_self_eq_true, if_true] at h ⊢
      rw [← hx]; simp
    · have : (x.1 == k) = false := by simpa using hx
      simp only [this, Bool.false_eq_true, if_false] at h ⊢
      exact List.mem_cons_of_mem _ (ih h)

theorem blt_ne (a b : Bytes) (h : blt a b = true) : a ≠ b := by
  intro e; subst e; rw [blt_irrefl] at h; cases h

theorem get_of_mem (l : Labels) (hs : StrictSorted l) (k v : Bytes) (h : (k, v) ∈ l) :
    Labels.get l k = v := by
  induction l with
  | nil => cases h
  | cons x rest ih =>
    unfold StrictSorted at hs
    rw [List.pairwise_cons] at hs
    rw [get_cons]
    rcases List.mem_cons.mp h with rfl | h
    · simp
    · have : x.1 ≠ k := blt_ne _ _ (hs.1 _ h)
      have : (x.1 == k) = false := by simpa using this
      simp only [this, Bool.false_eq_true, if_false]
      exact ih hs.2 h

theorem get_set_self (l : Labels) (k v : Bytes) : Labels.get (Labels.set l k v) k = v := by
  induction l with
  | nil => simp [Labels.set, get_cons]
  | cons x rest ih =>
    obtain ⟨k', v'⟩ := x
    unfold Labels.set
    split
    · simp [get_cons]
    · rename_i hne
      split
      · simp [get_cons]
      · rw [get_cons]; simp only [hne, if_false]; exact ih

theorem get_set_other (l : Labels) (k v k2 : Bytes) (h : k2 ≠ k) :
    Labels.get (Labels.set l k v) k2 = Labels.get l k2 := by
  have hk : (k == k2) = false := by simpa using (fun e => h e.symm)
  induction l with
  | nil => simp [Labels.set, get_cons, hk, get_nil]
  | cons x rest ih =>
    obtain ⟨k', v'⟩ := x
    unfold Labels.set
    split
    · rename_i he
      have he : k' = k := by simpa using he
      subst he
      simp [get_cons, hk]
    · split
      · simp [get_cons, hk]
      · rw [get_cons, get_cons, ih]

theorem get_erase_self (l : Labels) (k : Bytes) : Labels.get (Labels.erase l k) k = [] := by
  apply get_not_key
  intro x hx
  have := (List.mem_filter.mp hx).2
  simpa using this

theorem get_erase_other (l : Labels) (k k2 : Bytes) (h : k2 ≠ k) :
    Labels.get (Labels.erase l k) k2 = Labels.get l k2 := by
  induction l with
  | nil => rfl
  | cons x rest ih =>
    unfold Labels.erase at *
    rw [List.filter_cons]
    split
    · rw [get_cons, get_cons, ih]
    · rename_i hx
      have hx : x.1 = k := by simpa using hx
      rw [get_cons]
      have : (x.1 == k2) = false := by rw [hx]; simpa using (fun e => h e.symm)
      simp only [this, Bool.false_eq_true, if_false]
      exact ih

theorem sorted_erase (l : Labels) (k : Bytes) (h : StrictSorted l) : StrictSorted (Labels.erase l k) :=
  List.Pairwise.filter _ h

theorem sorted_set (l : Labels) (k v : Bytes) (h : StrictSorted l) : StrictSorted (Labels.set l k v) := by
  induction l with
  | nil => simp [Labels.set, StrictSorted]
  | cons x rest ih =>
    obtain ⟨k', v'⟩ := x
    unfold StrictSorted at h
    rw [List.pairwise_cons] at h
    unfold Labels.set
    split
    · rename_i he
      have he : k' = k := by simpa using he
      subst he
      unfold StrictSorted
      rw [List.pairwise_cons]
      exact ⟨h.1, h.2⟩
    · rename_i hne
      split
      · rename_i hlt
        unfold StrictSorted
        rw [List.pairwise_cons]
        refine ⟨?_, List.pairwise_cons.mpr h⟩
        intro y hy
        rcases List.mem_cons.mp hy with rfl | hy
        · exact hlt
        · exact blt_trans _ _ _ hlt (h.1 y hy)
      · rename_i hnlt
        have hgt : blt k' k = true := by
          rcases blt_total k' k with h1 | h1 | h1
          · exact h1
          · exact absurd (by simpa using h1) hne
          · exact absurd h1 hnlt
        unfold StrictSorted
        rw [List.pairwise_cons]
        refine ⟨?_, ih h.2⟩
        intro y hy
        rcases mem_set_cases _ _ _ _ hy with rfl | hy
        · exact hgt
        · exact h.1 y hy

/-- two sorted label lists without empty values that answer every lookup alike are equal -/
theorem labels_ext (l1 l2 : Labels) (h1 : StrictSorted l1) (h2 : StrictSorted l2)
    (n1 : ∀ x ∈ l1, x.2 ≠ []) (n2 : ∀ x ∈ l2, x.2 ≠ [])
    (hget : ∀ k, Labels.get l1 k = Labels.get l2 k) : l1 = l2 := by
  induction l1 generalizing l2 with
  | nil =>
    cases l2 with
    | nil => rfl
    | cons y t2 =>
      have := hget y.1
      rw [get_nil, get_cons] at this
      simp only [beq_self_eq_true, if_true] at this
      exact absurd this.symm (n2 y (by simp))
  | cons x t1 ih =>
    cases l2 with
    | nil =>
      have := hget x.1
      rw [get_nil, get_cons] at this
      simp only [beq_self_eq_true, if_true] at this
      exact absurd this (n1 x (by simp))
    | cons y t2 =>
      unfold StrictSorted at h1 h2
      rw [List.pairwise_cons] at h1 h2
      have small : ∀ (l : Labels) (k : Bytes), (∀ z ∈ l, blt k z.1 = true) → Labels.get l k = [] :=
        fun l k hz => get_not_key l k (fun z hz' e => blt_ne _ _ (hz z hz') e.symm)
      have hk : x.1 = y.1 := by
        rcases blt_total x.1 y.1 with h | h | h
        · exfalso
          have := hget x.1
          rw [get_cons] at this
          simp only [beq_self_eq_true, if_true] at this
          rw [small (y :: t2) x.1 (by
            intro z hz
            rcases List.mem_cons.mp hz with rfl | hz
            · exact h
            · exact blt_trans _ _ _ h (h2.1 z hz))] at this
          exact n1 x (by simp) this
        · exact h
        · exfalso
          have := hget y.1
          rw [get_cons (x := y)] at this
          simp only [beq_self_eq_true, if_true] at this
          rw [small (x :: t1) y.1 (by
            intro z hz
            rcases List.mem_cons.mp hz with rfl | hz
            · exact h
            · exact blt_trans _ _ _ h (h1.1 z hz))] at this
          exact n2 y (by simp) this.symm
      have hv : x.2 = y.2 := by
        have := hget x.1
        rw [get_cons, get_cons] at this
        simpa [hk] using this
      have hxy : x = y := Prod.ext hk hv
      subst hxy
      congr 1
      apply ih t2 h1.2 h2.2 (fun z hz => n1 z (by simp [hz])) (fun z hz => n2 z (by simp [hz]))
      intro k
      by_cases hkx : x.1 = k
      · subst hkx
        rw [small t1 x.1 h1.1, small t2 x.1 h2.1]
      · have := hget k
        rw [get_cons, get_cons] at this
        have hb : (x.1 == k) = false := by simpa using hkx
        simpa [hb] using this

end C19
