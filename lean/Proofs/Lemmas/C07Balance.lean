/-
C07 helper lemmas: an error-free run of the filter parser consumes a balanced segment of the
deterministic token stream (induction over the recursive descent).
-/
import Proofs.Lemmas.C07Lex

namespace C07
open Proc.Tok Proc.ParseFilter

theorem next_e_none {cx : Ctx} {m : Bool} {q : Bytes} {e : ErrSt} (h : (next cx m q e).err = none) : e = none :=
  (next_ok cx m q e).err.none_of_none h

theorem perr_ne_none (cx : Ctx) (cur : Bytes) (m : Msg) (e : ErrSt) : (perr cx cur m e).err ≠ none := by
  have := recErr_isSome cx cur m e
  simp only [perr]
  intro h; rw [h] at this; simp at this

theorem kind_ne_zero {k c : UInt8} (h : (k == c) = true) (hc : c ≠ 0) : k ≠ 0 := by
  have : k = c := by simpa using h
  rw [this]; exact hc

/-! tokens in each state of the filter mode machine -/

theorem lexK {cx : Ctx} (q : Bytes) (he : (next cx false q none).err = none)
    (hk0 : (next cx false q none).tok.kind ≠ 0) (hc : (next cx false q none).tok.kind ≠ cColon) :
    Lex cx stepF .K q [(next cx false q none).tok.kind] .K (next cx false q none).rest := by
  have := Lex.single (cx := cx) (δ := stepF) .K q he hk0
  have hs : stepF .K (next cx St.K.mode q none).tok.kind = .K := by
    show (if (next cx false q none).tok.kind == cColon then St.V else St.K) = St.K
    simp [hc]
  rw [hs] at this; exact this

theorem lexK_colon {cx : Ctx} (q : Bytes) (he : (next cx false q none).err = none)
    (hc : (next cx false q none).tok.kind = cColon) :
    Lex cx stepF .K q [(next cx false q none).tok.kind] .V (next cx false q none).rest := by
  have hk0 : (next cx false q none).tok.kind ≠ 0 := by rw [hc]; decide
  have := Lex.single (cx := cx) (δ := stepF) .K q he hk0
  have hs : stepF .K (next cx St.K.mode q none).tok.kind = .V := by
    show (if (next cx false q none).tok.kind == cColon then St.V else St.K) = St.V
    simp [hc]
  rw [hs] at this; exact this

theorem lexV {cx : Ctx} (q : Bytes) (he : (next cx true q none).err = none)
    (hk0 : (next cx true q none).tok.kind ≠ 0) (hc : (next cx true q none).tok.kind ≠ cLP) :
    Lex cx stepF .V q [(next cx true q none).tok.kind] .K (next cx true q none).rest := by
  have := Lex.single (cx := cx) (δ := stepF) .V q he hk0
  have hs : stepF .V (next cx St.V.mode q none).tok.kind = .K := by
    show (if (next cx true q none).tok.kind == cLP then St.L else St.K) = St.K
    simp [hc]
  rw [hs] at this; exact this

theorem lexV_lp {cx : Ctx} (q : Bytes) (he : (next cx true q none).err = none)
    (hc : (next cx true q none).tok.kind = cLP) :
    Lex cx stepF .V q [(next cx true q none).tok.kind] .L (next cx true q none).rest := by
  have hk0 : (next cx true q none).tok.kind ≠ 0 := by rw [hc]; decide
  have := Lex.single (cx := cx) (δ := stepF) .V q he hk0
  have hs : stepF .V (next cx St.V.mode q none).tok.kind = .L := by
    show (if (next cx true q none).tok.kind == cLP then St.L else St.K) = St.L
    simp [hc]
  rw [hs] at this; exact this

theorem lexL {cx : Ctx} (q : Bytes) (he : (next cx true q none).err = none)
    (hk0 : (next cx true q none).tok.kind ≠ 0) (hc : (next cx true q none).tok.kind ≠ cRP) :
    Lex cx stepF .L q [(next cx true q none).tok.kind] .L (next cx true q none).rest := by
  have := Lex.single (cx := cx) (δ := stepF) .L q he hk0
  have hs : stepF .L (next cx St.L.mode q none).tok.kind = .L := by
    show (if (next cx true q none).tok.kind == cRP then St.K else St.L) = St.L
    simp [hc]
  rw [hs] at this; exact this

theorem lexL_rp {cx : Ctx} (q : Bytes) (he : (next cx true q none).err = none)
    (hc : (next cx true q none).tok.kind = cRP) :
    Lex cx stepF .L q [(next cx true q none).tok.kind] .K (next cx true q none).rest := by
  have hk0 : (next cx true q none).tok.kind ≠ 0 := by rw [hc]; decide
  have := Lex.single (cx := cx) (δ := stepF) .L q he hk0
  have hs : stepF .L (next cx St.L.mode q none).tok.kind = .K := by
    show (if (next cx true q none).tok.kind == cRP then St.K else St.L) = St.K
    simp [hc]
  rw [hs] at this; exact this

theorem isValue_facts {k : UInt8} (h : isValue k = true) : k ≠ 0 ∧ k ≠ cLP ∧ k ≠ cRP ∧ k ≠ cColon := by
  simp only [isValue, Bool.or_eq_true, beq_iff_eq] at h
  rcases h with (h | h) | h <;> rw [h] <;> decide

theorem isWord_facts {k : UInt8} (h : isWord k = true) : k ≠ 0 ∧ k ≠ cLP ∧ k ≠ cRP ∧ k ≠ cColon := by
  simp only [isWord, Bool.or_eq_true, beq_iff_eq] at h
  rcases h with h | h <;> rw [h] <;> decide

/-- the parenthesised value list: from state `L` to the closing parenthesis -/
theorem listLoop_lex (cx : Ctx) (off : Int) (key : Bytes) : ∀ (f : Nat) (terms : List Filter) (q : Bytes),
    (listLoop cx off key f terms q none).err = none →
    ∃ ks, Lex cx stepF .L q ks .K (listLoop cx off key f terms q none).rest ∧ Closes ks := by
  intro f
  induction f with
  | zero => intro terms q h; exact absurd h (perr_ne_none _ _ _ _)
  | succ f ih =>
    intro terms q h
    simp only [listLoop] at h ⊢
    split
    · rename_i hc; rw [if_pos hc] at h; exact absurd h (perr_ne_none _ _ _ _)
    · rename_i hc
      rw [if_neg hc] at h
      have hval : isValue (next cx true q none).tok.kind = true := by simpa using hc
      have hvf := isValue_facts hval
      split
      · rename_i hrp
        rw [if_pos hrp] at h
        simp only at h ⊢
        have hve : (next cx true q none).err = none := next_e_none h
        rw [hve] at h hrp ⊢
        have hrp' : (next cx true (next cx true q none).rest none).tok.kind = cRP := by simpa using hrp
        refine ⟨_, (lexL q hve hvf.1 hvf.2.2.1).append (lexL_rp _ h hrp'), ?_⟩
        rw [hrp']
        exact Closes.cons hvf.2.1 hvf.2.2.1 Closes.rp
      · rename_i hrp
        rw [if_neg hrp] at h
        split
        · rename_i hor
          rw [if_pos hor] at h
          have hse := (listLoop_ok cx off key f _ _ _).err.none_of_none h
          have hve : (next cx true q none).err = none := next_e_none hse
          rw [hve] at h hse hor hrp ⊢
          rw [hse] at h ⊢
          have hor' : (next cx true (next cx true q none).rest none).tok.kind = kO := by simpa using hor
          obtain ⟨kl, hl, hcl⟩ := ih _ _ h
          have hk0 : (next cx true (next cx true q none).rest none).tok.kind ≠ 0 := by rw [hor']; decide
          have hnrp : (next cx true (next cx true q none).rest none).tok.kind ≠ cRP := by rw [hor']; decide
          refine ⟨_, ((lexL q hve hvf.1 hvf.2.2.1).append (lexL _ hse hk0 hnrp)).append hl, ?_⟩
          rw [hor']
          exact Closes.cons hvf.2.1 hvf.2.2.1 (Closes.cons (by decide) (by decide) hcl)
        · rename_i hor
          rw [if_neg hor] at h
          exact absurd h (perr_ne_none _ _ _ _)

theorem ne_of_bne {a b : UInt8} (h : ¬ (a != b) = true) : a = b := by simpa using h

/-- every function of the filter parser, when it finishes without a recorded error, has consumed
a balanced segment of the token stream (state `K` before and after) -/
theorem parser_lex (cx : Ctx) : ∀ (f : Nat),
    (∀ q, (exprF cx f q none).err = none →
      ∃ ks, Lex cx stepF .K q ks .K (exprF cx f q none).rest ∧ Seg ks) ∧
    (∀ terms q, (exprLoop cx f terms q none).err = none →
      ∃ ks, Lex cx stepF .K q ks .K (exprLoop cx f terms q none).rest ∧ Seg ks) ∧
    (∀ q, (andExprF cx f q none).err = none →
      ∃ ks, Lex cx stepF .K q ks .K (andExprF cx f q none).rest ∧ Seg ks) ∧
    (∀ terms q, (andLoop cx f terms q none).err = none →
      ∃ ks, Lex cx stepF .K q ks .K (andLoop cx f terms q none).rest ∧ Seg ks) ∧
    (∀ q, (matchF cx f q none).err = none →
      ∃ ks, Lex cx stepF .K q ks .K (matchF cx f q none).rest ∧ Seg ks) := by
  intro f
  induction f with
  | zero =>
    refine ⟨?_, ?_, ?_, ?_, ?_⟩
    · intro q h; exact absurd h (perr_ne_none _ _ _ _)
    · intro t q h; exact absurd h (perr_ne_none _ _ _ _)
    · intro q h; exact absurd h (perr_ne_none _ _ _ _)
    · intro t q h; exact absurd h (perr_ne_none _ _ _ _)
    · intro q h; exact absurd h (perr_ne_none _ _ _ _)
  | succ f ih =>
    obtain ⟨ihE, ihEL, ihA, ihAL, ihM⟩ := ih
    refine ⟨?_, ?_, ?_, ?_, ?_⟩
    · -- expr
      intro q h
      simp only [exprF] at h ⊢
      exact ihEL [] q h
    · -- the OR loop
      intro terms q h
      simp only [exprLoop] at h ⊢
      split
      · rename_i hk
        rw [if_pos hk] at h
        have hoe := ((parser_ok cx f).2.1 _ _ _).err.none_of_none h
        have hae : (andExprF cx f q none).err = none := next_e_none hoe
        rw [hae] at h hoe hk ⊢
        rw [hoe] at h ⊢
        obtain ⟨ka, hla, hsa⟩ := ihA q hae
        obtain ⟨kr, hlr, hsr⟩ := ihEL _ _ h
        have hkO : (next cx false (andExprF cx f q none).rest none).tok.kind = kO := by simpa using hk
        have ht := lexK (andExprF cx f q none).rest hoe (by rw [hkO]; decide) (by rw [hkO]; decide)
        refine ⟨_, (hla.append ht).append hlr, ?_⟩
        rw [hkO]
        exact (hsa.append (Seg.single (by decide) (by decide))).append hsr
      · rename_i hk
        rw [if_neg hk] at h
        simp only at h ⊢
        have hae : (andExprF cx f q none).err = none := next_e_none h
        rw [hae] at h ⊢
        obtain ⟨ka, hla, hsa⟩ := ihA q hae
        refine ⟨ka ++ [], hla.append (Lex.peek .K false _ h), ?_⟩
        simpa using hsa
    · -- andExpr
      intro q h
      simp only [andExprF] at h ⊢
      have hme := ((parser_ok cx f).2.2.2.1 _ _ _).err.none_of_none h
      rw [hme] at h ⊢
      obtain ⟨km, hlm, hsm⟩ := ihM q hme
      obtain ⟨kr, hlr, hsr⟩ := ihAL _ _ h
      exact ⟨_, hlm.append hlr, hsm.append hsr⟩
    · -- the AND loop
      intro terms q h
      simp only [andLoop] at h ⊢
      split
      · rename_i hk
        rw [if_pos hk] at h
        have hoe := ((parser_ok cx f).2.2.2.1 _ _ _).err.none_of_none h
        rw [hoe] at h ⊢
        have hkA : (next cx false q none).tok.kind = kA := by simpa using hk
        obtain ⟨kr, hlr, hsr⟩ := ihAL _ _ h
        have ht := lexK q hoe (by rw [hkA]; decide) (by rw [hkA]; decide)
        refine ⟨_, ht.append hlr, ?_⟩
        rw [hkA]
        exact Seg.cons (by decide) (by decide) hsr
      · rename_i hk
        rw [if_neg hk] at h
        split
        · rename_i hk2
          rw [if_pos hk2] at h
          have hme := ((parser_ok cx f).2.2.2.1 _ _ _).err.none_of_none h
          have hoe : (next cx false q none).err = none := ((parser_ok cx f).2.2.2.2 _ _).1.err.none_of_none hme
          rw [hoe] at h hme ⊢
          rw [hme] at h ⊢
          obtain ⟨km, hlm, hsm⟩ := ihM _ hme
          obtain ⟨kr, hlr, hsr⟩ := ihAL _ _ h
          refine ⟨[] ++ km ++ kr, ((Lex.peek .K false q hoe).append hlm).append hlr, ?_⟩
          simpa using hsm.append hsr
        · rename_i hk2
          rw [if_neg hk2] at h
          split
          · rename_i hk3
            rw [if_pos hk3] at h
            simp only at h ⊢
            exact ⟨[], Lex.peek .K false q h, Seg.nil⟩
          · rename_i hk3
            rw [if_neg hk3] at h
            exact absurd h (perr_ne_none _ _ _ _)
    · -- match
      intro q h
      simp only [matchF] at h ⊢
      split
      · -- "(" expr ")"
        rename_i hk
        rw [if_pos hk] at h
        have hkLP : (next cx false q none).tok.kind = cLP := by simpa using hk
        split
        · rename_i hk2
          rw [if_pos hk2] at h
          exact absurd h (perr_ne_none _ _ _ _)
        · rename_i hk2
          rw [if_neg hk2] at h
          simp only at h ⊢
          have hxe := next_e_none h
          have hte : (next cx false q none).err = none := ((parser_ok cx f).1 _ _).err.none_of_none hxe
          rw [hte] at h hxe hk2 ⊢
          rw [hxe] at h hk2 ⊢
          have hkRP := ne_of_bne hk2
          obtain ⟨kx, hlx, hsx⟩ := ihE _ hxe
          have t1 := lexK q hte (by rw [hkLP]; decide) (by rw [hkLP]; decide)
          have t2 := lexK (exprF cx f (next cx false q none).rest none).rest h (by rw [hkRP]; decide) (by rw [hkRP]; decide)
          refine ⟨_, (t1.append hlx).append t2, ?_⟩
          rw [hkLP, hkRP]
          have := Seg.paren hsx
          simpa using this
      · rename_i hk
        rw [if_neg hk] at h
        split
        · -- "-" match
          rename_i hk2
          rw [if_pos hk2] at h
          simp only at h ⊢
          have hkD : (next cx false q none).tok.kind = cDash := by simpa using hk2
          have hte : (next cx false q none).err = none := ((parser_ok cx f).2.2.2.2 _ _).1.err.none_of_none h
          rw [hte] at h ⊢
          obtain ⟨km, hlm, hsm⟩ := ihM _ h
          have t1 := lexK q hte (by rw [hkD]; decide) (by rw [hkD]; decide)
          refine ⟨_, t1.append hlm, ?_⟩
          rw [hkD]
          exact Seg.cons (by decide) (by decide) hsm
        · rename_i hk2
          rw [if_neg hk2] at h
          split
          · -- "*"
            rename_i hk3
            rw [if_pos hk3] at h
            simp only at h ⊢
            have hkS : (next cx false q none).tok.kind = cStar := by simpa using hk3
            have t1 := lexK q h (by rw [hkS]; decide) (by rw [hkS]; decide)
            refine ⟨_, t1, ?_⟩
            rw [hkS]
            exact Seg.single (by decide) (by decide)
          · rename_i hk3
            rw [if_neg hk3] at h
            split
            · -- key ":" …
              rename_i hw
              rw [if_pos hw] at h
              have hwf := isWord_facts hw
              split
              · rename_i hc
                rw [if_pos hc] at h
                exact absurd h (perr_ne_none _ _ _ _)
              · rename_i hc
                rw [if_neg hc] at h
                split
                · -- single value
                  rename_i hv
                  rw [if_pos hv] at h
                  simp only at h ⊢
                  have hoe := next_e_none h
                  have hte : (next cx false q none).err = none := next_e_none hoe
                  rw [hte] at h hoe hc hv ⊢
                  rw [hoe] at h hv ⊢
                  have hcol := ne_of_bne hc
                  have hvf := isValue_facts hv
                  have t1 := lexK q hte hwf.1 hwf.2.2.2
                  have t2 := lexK_colon (next cx false q none).rest hoe hcol
                  have t3 := lexV (next cx false (next cx false q none).rest none).rest h hvf.1 hvf.2.1
                  refine ⟨_, (t1.append t2).append t3, ?_⟩
                  rw [hcol]
                  exact Seg.cons hwf.2.1 hwf.2.2.1 (Seg.cons (by decide) (by decide) (Seg.single hvf.2.1 hvf.2.2.1))
                · rename_i hv
                  rw [if_neg hv] at h
                  split
                  · -- "(" value list
                    rename_i hlp
                    rw [if_pos hlp] at h
                    have hve := (listLoop_ok cx _ _ _ _ _ _).err.none_of_none h
                    have hoe := next_e_none hve
                    have hte : (next cx false q none).err = none := next_e_none hoe
                    rw [hte] at h hve hoe hc hlp ⊢
                    rw [hoe] at h hve hlp ⊢
                    rw [hve] at h ⊢
                    have hcol := ne_of_bne hc
                    have hlp' : (next cx true (next cx false (next cx false q none).rest none).rest none).tok.kind = cLP := by
                      simpa using hlp
                    obtain ⟨kl, hll, hcl⟩ := listLoop_lex cx _ _ _ _ _ h
                    have t1 := lexK q hte hwf.1 hwf.2.2.2
                    have t2 := lexK_colon (next cx false q none).rest hoe hcol
                    have t3 := lexV_lp (next cx false (next cx false q none).rest none).rest hve hlp'
                    refine ⟨_, ((t1.append t2).append t3).append hll, ?_⟩
                    rw [hcol, hlp']
                    have := Seg.cons hwf.2.1 hwf.2.2.1 (Seg.cons (k := cColon) (by decide) (by decide) (Seg.open_ hcl))
                    simpa using this
                  · rename_i hlp
                    rw [if_neg hlp] at h
                    exact absurd h (perr_ne_none _ _ _ _)
            · rename_i hw
              rw [if_neg hw] at h
              exact absurd h (perr_ne_none _ _ _ _)

/-! ### projection parser -/

section proj
open Proc.ParseProj

theorem pisWord_facts {k : UInt8} (h : Proc.ParseProj.isWord k = true) : k ≠ 0 ∧ k ≠ cLP ∧ k ≠ cRP := by
  simp only [Proc.ParseProj.isWord, Bool.or_eq_true, beq_iff_eq] at h
  rcases h with h | h <;> rw [h] <;> decide

theorem lexP {cx : Ctx} (q : Bytes) (he : (next cx false q none).err = none)
    (hk0 : (next cx false q none).tok.kind ≠ 0) :
    Lex cx stepP .K q [(next cx false q none).tok.kind] .K (next cx false q none).rest :=
  Lex.single (cx := cx) (δ := stepP) .K q he hk0

theorem fixedLoop_lex (cx : Ctx) : ∀ (n : Nat) (f : Field) (q : Bytes),
    (fixedLoop cx n f q none).err = none →
    ∃ ks, Lex cx stepP .K q ks .K (fixedLoop cx n f q none).rest ∧ Closes ks := by
  intro n
  induction n with
  | zero =>
    intro f q h
    have := recErr_isSome cx q .fuel none
    simp only [fixedLoop] at h; rw [h] at this; simp at this
  | succ n ih =>
    intro f q h
    simp only [fixedLoop] at h ⊢
    split
    · rename_i hw
      rw [if_pos hw] at h
      have hte := (fixedLoop_ok cx n _ _ _).err.none_of_none h
      rw [hte] at h ⊢
      have hwf := pisWord_facts hw
      obtain ⟨kl, hl, hcl⟩ := ih _ _ h
      exact ⟨_, (lexP q hte hwf.1).append hl, Closes.cons hwf.2.1 hwf.2.2 hcl⟩
    · rename_i hw
      rw [if_neg hw] at h
      split
      · rename_i hrp
        rw [if_pos hrp] at h
        have hrp' : (next cx false q none).tok.kind = cRP := by simpa using hrp
        split
        · rename_i hem
          rw [if_pos hem] at h
          have := recErr_isSome cx (next cx false q none).cur .nothingToMatch (next cx false q none).err
          simp only at h; rw [h] at this; simp at this
        · rename_i hem
          rw [if_neg hem] at h
          simp only at h ⊢
          refine ⟨_, lexP q h (by rw [hrp']; decide), ?_⟩
          rw [hrp']; exact Closes.rp
      · rename_i hrp
        rw [if_neg hrp] at h
        have := recErr_isSome cx (next cx false q none).cur .missingParenProj (next cx false q none).err
        simp only at h; rw [h] at this; simp at this

theorem parseField_lex (cx : Ctx) (q : Bytes) (h : (parseField cx q none).err = none) :
    ∃ ks, Lex cx stepP .K q ks .K (parseField cx q none).rest ∧ Seg ks := by
  simp only [parseField] at h ⊢
  split
  · rename_i hw
    rw [if_pos hw] at h
    have := recErr_isSome cx (next cx false q none).cur .expectedKey (next cx false q none).err
    simp only at h; rw [h] at this; simp at this
  · rename_i hw
    rw [if_neg hw] at h
    have hw' : Proc.ParseProj.isWord (next cx false q none).tok.kind = true := by simpa using hw
    have hwf := pisWord_facts hw'
    split
    · -- no sort order
      rename_i hat
      rw [if_pos hat] at h
      simp only at h ⊢
      have hke : (next cx false q none).err = none := next_e_none h
      rw [hke] at h ⊢
      refine ⟨[(next cx false q none).tok.kind] ++ [], (lexP q hke hwf.1).append (Lex.peek .K false _ h), ?_⟩
      simpa using Seg.single hwf.2.1 hwf.2.2
    · rename_i hat
      rw [if_neg hat] at h
      have hat' := ne_of_bne hat
      split
      · -- named order
        rename_i how
        rw [if_pos how] at h
        simp only at h ⊢
        have hse := next_e_none h
        have hke : (next cx false q none).err = none := next_e_none hse
        rw [hke] at h hse hat' how ⊢
        rw [hse] at h how ⊢
        have hof := pisWord_facts how
        have t1 := lexP q hke hwf.1
        have t2 := lexP (next cx false q none).rest hse (by rw [hat']; decide)
        have t3 := lexP (next cx false (next cx false q none).rest none).rest h hof.1
        refine ⟨_, (t1.append t2).append t3, ?_⟩
        rw [hat']
        exact Seg.cons hwf.2.1 hwf.2.2 (Seg.cons (by decide) (by decide) (Seg.single hof.2.1 hof.2.2))
      · rename_i how
        rw [if_neg how] at h
        split
        · -- fixed list
          rename_i hlp
          rw [if_pos hlp] at h
          have hoe := (fixedLoop_ok cx _ _ _ _).err.none_of_none h
          have hse := next_e_none hoe
          have hke : (next cx false q none).err = none := next_e_none hse
          rw [hke] at h hoe hse hat' hlp ⊢
          rw [hse] at h hoe hlp ⊢
          rw [hoe] at h ⊢
          have hlp' : (next cx false (next cx false (next cx false q none).rest none).rest none).tok.kind = cLP := by
            simpa using hlp
          obtain ⟨kl, hl, hcl⟩ := fixedLoop_lex cx _ _ _ h
          have t1 := lexP q hke hwf.1
          have t2 := lexP (next cx false q none).rest hse (by rw [hat']; decide)
          have t3 := lexP (next cx false (next cx false q none).rest none).rest hoe (by rw [hlp']; decide)
          refine ⟨_, ((t1.append t2).append t3).append hl, ?_⟩
          rw [hat', hlp']
          have := Seg.cons hwf.2.1 hwf.2.2 (Seg.cons (k := cAt) (by decide) (by decide) (Seg.open_ hcl))
          simpa using this
        · rename_i hlp
          rw [if_neg hlp] at h
          have := recErr_isSome cx
            (next cx false (next cx false (next cx false q none).rest (next cx false q none).err).rest
              (next cx false (next cx false q none).rest (next cx false q none).err).err).cur .expectedOrder
            (next cx false (next cx false (next cx false q none).rest (next cx false q none).err).rest
              (next cx false (next cx false q none).rest (next cx false q none).err).err).err
          simp only at h; rw [h] at this; simp at this

theorem projLoop_lex (cx : Ctx) : ∀ (n : Nat) (fs : List Field) (q : Bytes),
    (projLoop cx n fs q none).2.2 = none →
    ∃ ks, Lex cx stepP .K q ks .K (projLoop cx n fs q none).2.1 ∧ Seg ks := by
  intro n
  induction n with
  | zero =>
    intro fs q h
    have := recErr_isSome cx q .fuel none
    simp only [projLoop] at h; rw [h] at this; simp at this
  | succ n ih =>
    intro fs q h
    simp only [projLoop] at h ⊢
    split
    · rename_i hk
      rw [if_pos hk] at h
      simp only at h ⊢
      exact ⟨[], Lex.peek .K false q h, Seg.nil⟩
    · rename_i hk
      rw [if_neg hk] at h
      have hk0 : (next cx false q none).tok.kind ≠ 0 := by simpa using hk
      split
      · rename_i hcm
        rw [if_pos hcm] at h
        have hre := (projLoop_ok cx n _ _ _).2.none_of_none h
        have hte : (next cx false q none).err = none := (parseField_ok cx _ _).1.err.none_of_none hre
        rw [hte] at h hre ⊢
        rw [hre] at h ⊢
        have hcomma : (next cx false q none).tok.kind = cComma := by
          simp only [Bool.and_eq_true, beq_iff_eq] at hcm; exact hcm.1
        obtain ⟨kf, hlf, hsf⟩ := parseField_lex cx _ hre
        obtain ⟨kr, hlr, hsr⟩ := ih _ _ h
        refine ⟨_, ((lexP q hte hk0).append hlf).append hlr, ?_⟩
        rw [hcomma]
        exact (Seg.cons (by decide) (by decide) hsf).append hsr
      · rename_i hcm
        rw [if_neg hcm] at h
        have hre := (projLoop_ok cx n _ _ _).2.none_of_none h
        have hte : (next cx false q none).err = none := (parseField_ok cx _ _).1.err.none_of_none hre
        rw [hte] at h hre ⊢
        rw [hre] at h ⊢
        obtain ⟨kf, hlf, hsf⟩ := parseField_lex cx _ hre
        obtain ⟨kr, hlr, hsr⟩ := ih _ _ h
        refine ⟨[] ++ kf ++ kr, ((Lex.peek .K false q hte).append hlf).append hlr, ?_⟩
        simpa using hsf.append hsr

end proj

end C07
