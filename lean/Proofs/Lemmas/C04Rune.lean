/-
C04 helper lemmas about utf8.DecodeRune (model Utf8.decodeRune): classes of valid encodings,
inversion, and locality (bytes beyond the first non-continuation byte do not matter).
-/
import Model.Base.Utf8
namespace C04

def nonCont (c : UInt8) : Prop := c.toNat < 0x80 ∨ 0xC0 ≤ c.toNat

def Cls2 (b b1 : UInt8) : Prop := 0xC2 ≤ b.toNat ∧ b.toNat < 0xE0 ∧ 0x80 ≤ b1.toNat ∧ b1.toNat ≤ 0xBF
def Cls3 (b b1 b2 : UInt8) : Prop := 0xE0 ≤ b.toNat ∧ b.toNat < 0xF0 ∧
  (if b.toNat == 0xE0 then 0xA0 else 0x80) ≤ b1.toNat ∧ b1.toNat ≤ (if b.toNat == 0xED then 0x9F else 0xBF) ∧
  0x80 ≤ b2.toNat ∧ b2.toNat ≤ 0xBF
def Cls4 (b b1 b2 b3 : UInt8) : Prop := 0xF0 ≤ b.toNat ∧ b.toNat < 0xF5 ∧
  (if b.toNat == 0xF0 then 0x90 else 0x80) ≤ b1.toNat ∧ b1.toNat ≤ (if b.toNat == 0xF4 then 0x8F else 0xBF) ∧
  0x80 ≤ b2.toNat ∧ b2.toNat ≤ 0xBF ∧ 0x80 ≤ b3.toNat ∧ b3.toNat ≤ 0xBF

theorem dec1 (b : UInt8) (bs : Bytes) (h : b.toNat < 0x80) : Utf8.decodeRune (b :: bs) = (b.toNat, 1) := by
  unfold Utf8.decodeRune; simp [h]

theorem dec2 (b b1 : UInt8) (bs : Bytes) (h : Cls2 b b1) :
    Utf8.decodeRune (b :: b1 :: bs) = ((b.toNat &&& 0x1F) <<< 6 ||| (b1.toNat &&& 0x3F), 2) := by
  obtain ⟨h1, h2, h3, h4⟩ := h
  unfold Utf8.decodeRune
  have a1 : ¬ b.toNat < 0x80 := by omega
  have a2 : ¬ b.toNat < 0xC2 := by omega
  simp [a1, a2, h2, h3, h4]

theorem dec3 (b b1 b2 : UInt8) (bs : Bytes) (h : Cls3 b b1 b2) :
    Utf8.decodeRune (b :: b1 :: b2 :: bs) =
      ((b.toNat &&& 0x0F) <<< 12 ||| (b1.toNat &&& 0x3F) <<< 6 ||| (b2.toNat &&& 0x3F), 3) := by
  obtain ⟨h1, h2, h3, h4, h5, h6⟩ := h
  unfold Utf8.decodeRune
  have a1 : ¬ b.toNat < 0x80 := by omega
  have a2 : ¬ b.toNat < 0xC2 := by omega
  have a3 : ¬ b.toNat < 0xE0 := by omega
  simp only [a1, a2, a3, h2, if_true, if_false]
  simp only [h3, h4, h5, h6, and_self, if_true]

theorem dec4 (b b1 b2 b3 : UInt8) (bs : Bytes) (h : Cls4 b b1 b2 b3) :
    Utf8.decodeRune (b :: b1 :: b2 :: b3 :: bs) =
      ((b.toNat &&& 0x07) <<< 18 ||| (b1.toNat &&& 0x3F) <<< 12 ||| (b2.toNat &&& 0x3F) <<< 6 ||| (b3.toNat &&& 0x3F), 4) := by
  obtain ⟨h1, h2, h3, h4, h5, h6, h7, h8⟩ := h
  unfold Utf8.decodeRune
  have a1 : ¬ b.toNat < 0x80 := by omega
  have a2 : ¬ b.toNat < 0xC2 := by omega
  have a3 : ¬ b.toNat < 0xE0 := by omega
  have a4 : ¬ b.toNat < 0xF0 := by omega
  simp only [a1, a2, a3, a4, h2, if_true, if_false]
  simp only [h3, h4, h5, h6, h7, h8, and_self, if_true]

theorem decodeRune_inv (b : UInt8) (bs : Bytes) (h : (Utf8.decodeRune (b :: bs)).1 ≠ 0xFFFD) :
    b.toNat < 0x80 ∨ (∃ b1 t, bs = b1 :: t ∧ Cls2 b b1) ∨ (∃ b1 b2 t, bs = b1 :: b2 :: t ∧ Cls3 b b1 b2) ∨
    (∃ b1 b2 b3 t, bs = b1 :: b2 :: b3 :: t ∧ Cls4 b b1 b2 b3) := by
  unfold Utf8.decodeRune at h
  simp only [] at h
  split at h
  · left; assumption
  split at h
  · exact absurd rfl h
  split at h
  · right; left
    split at h
    · split at h
      · rename_i b1 t hr; exact ⟨b1, t, rfl, by unfold Cls2; omega⟩
      · exact absurd rfl h
    · exact absurd rfl h
  split at h
  · right; right; left
    split at h
    · rename_i b1 b2 t
      by_cases hc : (if (b.toNat == 0xE0) = true then 0xA0 else 0x80) ≤ b1.toNat ∧
          b1.toNat ≤ (if (b.toNat == 0xED) = true then 0x9F else 0xBF) ∧ 0x80 ≤ b2.toNat ∧ b2.toNat ≤ 0xBF
      · exact ⟨b1, b2, t, rfl, by unfold Cls3; exact ⟨by omega, by omega, hc⟩⟩
      · rw [if_neg hc] at h; exact absurd rfl h
    · exact absurd rfl h
  split at h
  · right; right; right
    split at h
    · rename_i b1 b2 b3 t
      by_cases hc : (if (b.toNat == 0xF0) = true then 0x90 else 0x80) ≤ b1.toNat ∧
          b1.toNat ≤ (if (b.toNat == 0xF4) = true then 0x8F else 0xBF) ∧ 0x80 ≤ b2.toNat ∧ b2.toNat ≤ 0xBF ∧
          0x80 ≤ b3.toNat ∧ b3.toNat ≤ 0xBF
      · exact ⟨b1, b2, b3, t, rfl, by unfold Cls4; exact ⟨by omega, by omega, hc⟩⟩
      · rw [if_neg hc] at h; exact absurd rfl h
    · exact absurd rfl h
  · exact absurd rfl h

theorem decodeRune_valid_head (b : UInt8) (bs : Bytes) (h : (Utf8.decodeRune (b :: bs)).1 ≠ 0xFFFD) :
    nonCont b := by
  unfold nonCont
  rcases decodeRune_inv b bs h with h | ⟨_, _, _, h⟩ | ⟨_, _, _, _, h⟩ | ⟨_, _, _, _, _, h⟩
  · left; exact h
  · right; unfold Cls2 at h; omega
  · right; unfold Cls3 at h; omega
  · right; unfold Cls4 at h; omega

/-- a valid encoding decodes the same whatever follows it -/
theorem decodeRune_valid_ext (b : UInt8) (bs tail : Bytes) (h : (Utf8.decodeRune (b :: bs)).1 ≠ 0xFFFD) :
    Utf8.decodeRune ((b :: bs).take (Utf8.decodeRune (b :: bs)).2 ++ tail) = Utf8.decodeRune (b :: bs) := by
  rcases decodeRune_inv b bs h with hc | ⟨b1, t, rfl, hc⟩ | ⟨b1, b2, t, rfl, hc⟩ | ⟨b1, b2, b3, t, rfl, hc⟩
  · rw [dec1 b bs hc]; simp [dec1 b _ hc]
  · rw [dec2 b b1 t hc]; simp [dec2 b b1 _ hc]
  · rw [dec3 b b1 b2 t hc]; simp [dec3 b b1 b2 _ hc]
  · rw [dec4 b b1 b2 b3 t hc]; simp [dec4 b b1 b2 b3 _ hc]

theorem decodeRune_trunc0 (b c : UInt8) (t : Bytes) (hc : nonCont c) :
    Utf8.decodeRune (b :: c :: t) = Utf8.decodeRune [b] := by
  unfold nonCont at hc
  unfold Utf8.decodeRune
  simp only []
  repeat' (split <;> (try simp_all))
  all_goals omega

theorem decodeRune_trunc1 (b p1 c : UInt8) (t : Bytes) (hc : nonCont c) :
    Utf8.decodeRune (b :: p1 :: c :: t) = Utf8.decodeRune [b, p1] := by
  unfold nonCont at hc
  unfold Utf8.decodeRune
  simp only []
  repeat' (split <;> (try simp_all))
  all_goals omega

theorem decodeRune_trunc2 (b p1 p2 c : UInt8) (t : Bytes) (hc : nonCont c) :
    Utf8.decodeRune (b :: p1 :: p2 :: c :: t) = Utf8.decodeRune [b, p1, p2] := by
  unfold nonCont at hc
  unfold Utf8.decodeRune
  simp only []
  repeat' (split <;> (try simp_all))
  all_goals omega

def okTail (t : Bytes) : Prop := t = [] ∨ ∃ c t', t = c :: t' ∧ nonCont c

/-- what lies beyond the first non-continuation byte (or the end) does not influence decoding -/
theorem decodeRune_local (b : UInt8) (p x : Bytes) (hx : okTail x) :
    Utf8.decodeRune (b :: (p ++ x)) = Utf8.decodeRune (b :: p) := by
  rcases hx with rfl | ⟨c, t, rfl, hc⟩
  · simp
  · rcases p with _ | ⟨p1, _ | ⟨p2, _ | ⟨p3, p⟩⟩⟩
    · exact decodeRune_trunc0 b c t hc
    · exact decodeRune_trunc1 b p1 c t hc
    · exact decodeRune_trunc2 b p1 p2 c t hc
    · rfl

theorem decodeRune_local' (q x : Bytes) (hq : q ≠ []) (hx : okTail x) :
    Utf8.decodeRune (q ++ x) = Utf8.decodeRune q := by
  cases q with
  | nil => exact absurd rfl hq
  | cons b p => exact decodeRune_local b p x hx

end C04
