/-
C19 helper lemmas: parseQueryString at the level of parts, and what the storage server receives for
a query made by addToQuery from an arbitrary old query.
-/
import Proofs.Lemmas.C19Parse2

namespace C19
open Storage.Query Analysis.Quote Analysis.Parse

/-- the state of parseQueryString with prefix and queries kept as lists of parts -/
structure PSt where
  prefP : List Bytes := []
  parts : List Bytes := []
  queries : List (List Bytes) := []

def PSt.img (s : PSt) : St := ⟨joinSp s.prefP, s.parts, s.queries.map joinSp⟩

def stepP (s : PSt) (part : Bytes) : PSt :=
  if part == wBar && (joinSp s.prefP).isEmpty then { s with prefP := s.parts, parts := [] }
  else if part == wVs then { s with queries := s.queries ++ [s.parts], parts := [] }
  else { s with parts := s.parts ++ [part] }

theorem step_img (s : PSt) (t : Bytes) : step s.img t = (stepP s t).img := by
  unfold step stepP PSt.img
  simp only
  split
  · rfl
  · split
    · simp
    · rfl

theorem fold_img (ts : List Bytes) (s : PSt) : ts.foldl step s.img = (ts.foldl stepP s).img := by
  induction ts generalizing s with
  | nil => rfl
  | cons t ts ih => simp only [List.foldl_cons, step_img, ih]

/-- the storage queries, as lists of parts: the prefix parts in front of every group -/
def sentParts (s0 : PSt) (toks : List Bytes) (last : Bytes) : List (List Bytes) :=
  let s := toks.foldl stepP s0
  let parts := if last.isEmpty then s.parts else s.parts ++ [last]
  let queries := if parts.isEmpty then s.queries else s.queries ++ [parts]
  queries.map fun g => if (joinSp s.prefP).isEmpty then g else s.prefP ++ g

/-- invariant: every part kept in the state is closed -/
def PSt.AllClosed (s : PSt) : Prop :=
  (∀ t ∈ s.prefP, Closed t) ∧ (∀ t ∈ s.parts, Closed t) ∧ (∀ g ∈ s.queries, ∀ t ∈ g, Closed t)

theorem stepP_closed (s : PSt) (t : Bytes) (hs : s.AllClosed) (ht : Closed t) : (stepP s t).AllClosed := by
  obtain ⟨h1, h2, h3⟩ := hs
  unfold stepP
  split
  · exact ⟨h2, by simp, h3⟩
  · split
    · refine ⟨h1, by simp, ?_⟩
      intro g hg
      rcases List.mem_append.mp hg with hg | hg
      · exact h3 g hg
      · simp only [List.mem_singleton] at hg; subst hg; exact h2
    · refine ⟨h1, ?_, h3⟩
      intro x hx
      rcases List.mem_append.mp hx with hx | hx
      · exact h2 x hx
      · simp only [List.mem_singleton] at hx; subst hx; exact ht

theorem fold_closed (ts : List Bytes) (s : PSt) (hs : s.AllClosed) (ht : ∀ t ∈ ts, Closed t) :
    (ts.foldl stepP s).AllClosed := by
  induction ts generalizing s with
  | nil => exact hs
  | cons t ts ih =>
    simp only [List.foldl_cons]
    exact ih _ (stepP_closed s t hs (ht t (by simp))) (fun x hx => ht x (by simp [hx]))

/-- the words of the queries of a final state, computed from the parts -/
theorem sent_words_state (s : PSt) (P : List Bytes) (c1 : ∀ t ∈ s.prefP, Closed t)
    (c3 : ∀ g ∈ s.queries, ∀ t ∈ g, Closed t) (cP : ∀ t ∈ P.dropLast, Closed t) :
    ((if P.isEmpty then s.queries.map joinSp else s.queries.map joinSp ++ [joinSp P]).map fun x =>
        splitWords (if (joinSp s.prefP).isEmpty then x else joinSp s.prefP ++ cSpace :: x)) =
    ((if P.isEmpty then s.queries else s.queries ++ [P]).map fun g =>
        if (joinSp s.prefP).isEmpty then g else s.prefP ++ g).map fun g => g.flatMap splitWords := by
  have hq : ∀ g ∈ (if P.isEmpty then s.queries else s.queries ++ [P]), ∀ t ∈ g.dropLast, Closed t := by
    intro g hg
    by_cases hp : P.isEmpty = true
    · rw [if_pos hp] at hg
      exact fun t ht => c3 g hg t (List.dropLast_subset _ ht)
    · rw [if_neg hp] at hg
      rcases List.mem_append.mp hg with hg | hg
      · exact fun t ht => c3 g hg t (List.dropLast_subset _ ht)
      · simp only [List.mem_singleton] at hg; subst hg; exact cP
  have hmap : (if P.isEmpty then s.queries.map joinSp else s.queries.map joinSp ++ [joinSp P]) =
      (if P.isEmpty then s.queries else s.queries ++ [P]).map joinSp := by
    by_cases hp : P.isEmpty = true
    · rw [if_pos hp, if_pos hp]
    · rw [if_neg hp, if_neg hp]; simp
  rw [hmap, List.map_map, List.map_map]
  apply List.map_congr_left
  intro g hg
  simp only [Function.comp]
  by_cases he : (joinSp s.prefP).isEmpty = true
  · rw [if_pos he, if_pos he]
    exact words_joinSp g (hq g hg)
  · rw [if_neg he, if_neg he, words_pref s.prefP c1, words_joinSp g (hq g hg), List.flatMap_append]

/-- `parseQueryString` started in a given state (the code starts in the empty one) -/
def sentFrom (s0 : St) (toks : List Bytes) (last : Bytes) : List Bytes :=
  let s := toks.foldl step s0
  let parts := if last.isEmpty then s.parts else s.parts ++ [last]
  let queries := if parts.isEmpty then s.queries else s.queries ++ [joinSp parts]
  queries.map fun x => if s.pref.isEmpty then x else s.pref ++ cSpace :: x

theorem sentQueries_eq (q : Bytes) :
    sentQueries q = sentFrom {} (tokGo false [] q).1 (tokGo false [] q).2 := rfl

/-- the words the storage server gets, computed from the parts -/
theorem sent_words (s0 : PSt) (toks : List Bytes) (last : Bytes) (h0 : s0.AllClosed)
    (ht : ∀ t ∈ toks, Closed t) :
    (sentFrom s0.img toks last).map splitWords =
      (sentParts s0 toks last).map fun g => g.flatMap splitWords := by
  unfold sentFrom sentParts
  simp only
  rw [fold_img]
  obtain ⟨c1, c2, c3⟩ := fold_closed toks s0 h0 ht
  generalize toks.foldl stepP s0 = s at c1 c2 c3 ⊢
  have cP : ∀ t ∈ (if last.isEmpty then s.parts else s.parts ++ [last]).dropLast, Closed t := by
    by_cases hl : last.isEmpty = true
    · rw [if_pos hl]; exact fun t ht => c2 t (List.dropLast_subset _ ht)
    · rw [if_neg hl, List.dropLast_concat]; exact c2
  have := sent_words_state s (if last.isEmpty then s.parts else s.parts ++ [last]) c1 c3 cP
  rw [List.map_map]
  exact this


/-! ### the query made by addToQuery -/

/-- the parts of the built query: the quoted word is exactly one part, in front of the old query's -/
theorem tok_addToQuery (q add : Bytes) :
    tokGo false [] (addToQuery q add) =
      (if q.any (· == cBar) then quote add :: (tokGo false [] q).1
       else quote add :: wBar :: (tokGo false [] q).1, (tokGo false [] q).2) := by
  unfold addToQuery
  by_cases hany : q.any (· == cBar) = true
  · simp only [hany, if_true]
    have e : quote add ++ [cSpace] ++ q = quote add ++ cSpace :: q := by simp
    rw [e, tokGo_quote_blank]
  · simp only [hany, Bool.false_eq_true, if_false]
    have e : quote add ++ [cSpace, cBar, cSpace] ++ q = quote add ++ cSpace :: ([cBar] ++ cSpace :: q) := by simp
    rw [e, tokGo_quote_blank, tokGo_plain [cBar] [] _ (by decide), tokGo_false_cons]
    simp [show (cSpace == cQuote) = false from by decide, wBar, cBar]

theorem sent_addToQuery_general (q add : Bytes) (ha : add ≠ []) (h1 : add ≠ wBar) (h2 : add ≠ wVs) :
    sentQueries (addToQuery q add) =
      sentFrom (PSt.img (if q.any (· == cBar) then { parts := [quote add] } else { prefP := [quote add] }))
        (tokGo false [] q).1 (tokGo false [] q).2 := by
  have hA1 : (quote add == wBar) = false := by
    have : quote add ≠ wBar := fun e => h1 (quote_ne_word add wBar (by decide) e)
    simpa using this
  have hA2 : (quote add == wVs) = false := by
    have : quote add ≠ wVs := fun e => h2 (quote_ne_word add wVs (by decide) e)
    simpa using this
  have s1 : step {} (quote add) = { pref := [], parts := [quote add], queries := [] } := by
    unfold step; simp [hA1, hA2]
  have s2 : step { pref := [], parts := [quote add], queries := [] } wBar =
      { pref := quote add, parts := [], queries := [] } := by
    unfold step; simp [joinSp]
  rw [sentQueries_eq, tok_addToQuery]
  by_cases hany : q.any (· == cBar) = true
  · simp only [hany, if_true]
    unfold sentFrom
    simp only [List.foldl_cons, s1]
    rfl
  · simp only [hany, Bool.false_eq_true, if_false]
    unfold sentFrom
    simp only [List.foldl_cons, s1, s2]
    rfl

theorem joinSp_nonempty (ps : List Bytes) (a : Bytes) (ha : a ≠ []) (hm : a ∈ ps) :
    (joinSp ps).isEmpty = false := by
  induction ps with
  | nil => cases hm
  | cons p rest ih =>
    cases rest with
    | nil =>
      simp only [List.mem_singleton] at hm
      subst hm
      cases a <;> simp_all [joinSp]
    | cons p2 r2 =>
      show (p ++ cSpace :: joinSp (p2 :: r2)).isEmpty = false
      cases p <;> simp

/-- where the added word is, while the parts of an old query containing `|` are processed -/
inductive Lands (a : Bytes) (s : PSt) : Prop
  | inParts : s.queries = [] → a ∈ s.parts → Lands a s
  | inPrefix : a ∈ s.prefP → Lands a s
  | inFirst (g : List Bytes) (gs : List (List Bytes)) : s.queries = g :: gs → a ∈ g → Lands a s

theorem stepP_lands (a : Bytes) (ha : a ≠ []) (s : PSt) (t : Bytes) (h : Lands a s) :
    Lands a (stepP s t) := by
  unfold stepP
  cases h with
  | inParts hq hp =>
    split
    · exact .inPrefix hp
    · split
      · exact .inFirst s.parts [] (by simp [hq]) hp
      · exact .inParts hq (List.mem_append_left _ hp)
  | inPrefix hp =>
    split
    · rename_i hc
      -- a prefix holding the word is textually non-empty, so it is never replaced
      simp only [Bool.and_eq_true] at hc
      rw [joinSp_nonempty s.prefP a ha hp] at hc
      exact absurd hc.2 (by simp)
    · split
      · exact .inPrefix hp
      · exact .inPrefix hp
  | inFirst g gs hq hg =>
    split
    · exact .inFirst g gs hq hg
    · split
      · exact .inFirst g (gs ++ [s.parts]) (by simp [hq]) hg
      · exact .inFirst g gs hq hg

theorem fold_lands (a : Bytes) (ha : a ≠ []) (ts : List Bytes) (s : PSt) (h : Lands a s) :
    Lands a (ts.foldl stepP s) := by
  induction ts generalizing s with
  | nil => exact h
  | cons t ts ih => simp only [List.foldl_cons]; exact ih _ (stepP_lands a ha s t h)

/-- **where the added word lands**: it is a part of the first storage query sent (and of every one
when it has become part of the prefix) -/
theorem sentParts_lands (a : Bytes) (ha : a ≠ []) (s0 : PSt) (h0 : Lands a s0)
    (toks : List Bytes) (last : Bytes) :
    ∀ g, (sentParts s0 toks last).head? = some g → a ∈ g := by
  have hl := fold_lands a ha toks s0 h0
  unfold sentParts
  simp only
  generalize toks.foldl stepP s0 = s at hl ⊢
  intro g hg
  cases hl with
  | inParts hq hp =>
    have hne : (if last.isEmpty then s.parts else s.parts ++ [last]).isEmpty = false := by
      split
      · cases hps : s.parts with
        | nil => rw [hps] at hp; cases hp
        | cons _ _ => rfl
      · simp
    simp only [hne, Bool.false_eq_true, if_false, hq, List.nil_append, List.map_cons, List.map_nil,
      List.head?_cons, Option.some.injEq] at hg
    subst hg
    have hmem : a ∈ (if last.isEmpty then s.parts else s.parts ++ [last]) := by
      split
      · exact hp
      · exact List.mem_append_left _ hp
    split
    · exact hmem
    · exact List.mem_append_right _ hmem
  | inPrefix hp =>
    have hne := joinSp_nonempty s.prefP a ha hp
    rw [List.head?_map] at hg
    cases hh : List.head? (if (if last.isEmpty then s.parts else s.parts ++ [last]).isEmpty then s.queries
        else s.queries ++ [if last.isEmpty then s.parts else s.parts ++ [last]]) with
    | none => rw [hh] at hg; cases hg
    | some g0 =>
      rw [hh] at hg
      simp only [Option.map_some, hne, Bool.false_eq_true, if_false, Option.some.injEq] at hg
      subst hg
      exact List.mem_append_left _ hp
  | inFirst g1 gs hq hg1 =>
    have hhead : List.head? (if (if last.isEmpty then s.parts else s.parts ++ [last]).isEmpty then s.queries
        else s.queries ++ [if last.isEmpty then s.parts else s.parts ++ [last]]) = some g1 := by
      rw [hq]
      by_cases hp : (if last.isEmpty then s.parts else s.parts ++ [last]).isEmpty = true
      · rw [if_pos hp]; rfl
      · rw [if_neg hp]; rfl
    rw [List.head?_map, hhead] at hg
    simp only [Option.map_some, Option.some.injEq] at hg
    subst hg
    split
    · exact hg1
    · exact List.mem_append_right _ hg1

end C19
