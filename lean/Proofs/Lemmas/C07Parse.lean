/-
C07 helper lemmas about the parser models (Model/Proc/ParseFilter.lean, ParseProj.lean).
-/
import Proofs.Lemmas.C07Tok
import Model.Proc.ParseFilter
import Model.Proc.ParseProj

namespace C07
open Proc.Tok Proc.ParseFilter

/-- well-formed parser result: the remaining input did not grow and the error tracker changed
only by recording a first error positioned inside `q` -/
structure PROK (cx : Ctx) (q : Bytes) (e : ErrSt) (r : PR) : Prop where
  rest_le : r.rest.length ≤ q.length
  err : ErrOK cx q e r.err

theorem perr_ok (cx : Ctx) {q cur : Bytes} {e e1 : ErrSt} (m : Msg) (h1 : cur.length ≤ q.length)
    (h2 : ErrOK cx q e e1) : PROK cx q e (perr cx cur m e1) :=
  ⟨by simp [perr], h2.trans (recErr_ok cx m e1 h1)⟩

theorem PROK.mono {cx : Ctx} {q q1 : Bytes} {e e1 : ErrSt} {r : PR} (h : PROK cx q1 e1 r)
    (hl : q1.length ≤ q.length) (he : ErrOK cx q e e1) : PROK cx q e r :=
  ⟨by have := h.rest_le; omega, he.trans (h.err.mono hl)⟩

theorem listLoop_ok (cx : Ctx) (off : Int) (key : Bytes) : ∀ (f : Nat) (terms : List Filter) (q : Bytes) (e : ErrSt),
    PROK cx q e (listLoop cx off key f terms q e) := by
  intro f
  induction f with
  | zero => intro terms q e; exact perr_ok cx _ (Nat.le_refl _) (ErrOK.refl _ _ _)
  | succ f ih =>
    intro terms q e
    simp only [listLoop]
    have hv := next_ok cx true q e
    split
    · exact perr_ok cx _ hv.cur_le hv.err
    · have hs := next_ok cx true (next cx true q e).rest (next cx true q e).err
      have hvr : (next cx true q e).rest.length ≤ q.length := by have := hv.cur_le; have := hv.rest_le; omega
      split
      · exact ⟨by have := hs.cur_le; have := hs.rest_le; simp; omega, hv.err.trans (hs.err.mono hvr)⟩
      · split
        · refine (ih _ _ _).mono ?_ (hv.err.trans (hs.err.mono hvr))
          have := hs.cur_le; have := hs.rest_le; omega
        · exact perr_ok cx _ (by have := hs.cur_le; omega) (hv.err.trans (hs.err.mono hvr))

/-- the five mutually recursive parser functions return well-formed results; `match` moreover
makes progress on non-empty input -/
theorem parser_ok (cx : Ctx) : ∀ (f : Nat),
    (∀ q e, PROK cx q e (exprF cx f q e)) ∧
    (∀ terms q e, PROK cx q e (exprLoop cx f terms q e)) ∧
    (∀ q e, PROK cx q e (andExprF cx f q e)) ∧
    (∀ terms q e, PROK cx q e (andLoop cx f terms q e)) ∧
    (∀ q e, PROK cx q e (matchF cx f q e) ∧ (q ≠ [] → (matchF cx f q e).rest.length < q.length)) := by
  intro f
  induction f with
  | zero =>
    refine ⟨?_, ?_, ?_, ?_, ?_⟩
    · intro q e; exact perr_ok cx _ (Nat.le_refl _) (ErrOK.refl _ _ _)
    · intro t q e; exact perr_ok cx _ (Nat.le_refl _) (ErrOK.refl _ _ _)
    · intro q e; exact perr_ok cx _ (Nat.le_refl _) (ErrOK.refl _ _ _)
    · intro t q e; exact perr_ok cx _ (Nat.le_refl _) (ErrOK.refl _ _ _)
    · intro q e
      refine ⟨perr_ok cx _ (Nat.le_refl _) (ErrOK.refl _ _ _), ?_⟩
      intro h; simp only [matchF, perr, List.length_nil]; exact List.length_pos_iff.mpr h
  | succ f ih =>
    obtain ⟨ihE, ihEL, ihA, ihAL, ihM⟩ := ih
    refine ⟨?_, ?_, ?_, ?_, ?_⟩
    · intro q e; simp only [exprF]; exact ihEL _ _ _
    · intro terms q e
      simp only [exprLoop]
      have ha := ihA q e
      have ho := next_ok cx false (andExprF cx f q e).rest (andExprF cx f q e).err
      have hoc := ho.cur_le; have hor := ho.rest_le; have har := ha.rest_le
      split
      · exact (ihEL _ _ _).mono (by omega) (ha.err.trans (ho.err.mono har))
      · exact ⟨by simp; omega, ha.err.trans (ho.err.mono har)⟩
    · intro q e
      simp only [andExprF]
      have hm := (ihM q e).1
      exact (ihAL _ _ _).mono hm.rest_le hm.err
    · intro terms q e
      simp only [andLoop]
      have ho := next_ok cx false q e
      have hoc := ho.cur_le; have hor := ho.rest_le
      split
      · exact (ihAL _ _ _).mono (by omega) ho.err
      · split
        · have hm := (ihM (next cx false q e).cur (next cx false q e).err).1
          have hmr := hm.rest_le
          exact (ihAL _ _ _).mono (by omega) (ho.err.trans ((hm.err).mono hoc))
        · split
          · exact ⟨by simp; omega, ho.err⟩
          · exact perr_ok cx _ hoc ho.err
    · intro q e
      have ht := next_ok cx false q e
      have htc := ht.cur_le; have htr := ht.rest_le
      have key : PROK cx q e (matchF cx (f + 1) q e) ∧
          ((next cx false q e).tok.kind ≠ 0 → (matchF cx (f + 1) q e).rest.length < q.length) := by
        simp only [matchF]
        split
        · -- "(" expr ")"
          have hx := ihE (next cx false q e).rest (next cx false q e).err
          have hxr := hx.rest_le
          have ho := next_ok cx false (exprF cx f (next cx false q e).rest (next cx false q e).err).rest
            (exprF cx f (next cx false q e).rest (next cx false q e).err).err
          have hoc := ho.cur_le; have hor := ho.rest_le
          have herr := ht.err.trans ((hx.err.trans (ho.err.mono hxr)).mono (by omega))
          split
          · refine ⟨perr_ok cx _ (by omega) herr, ?_⟩
            intro hk; have := ht.rest_lt hk; simp [perr]; omega
          · refine ⟨⟨by simp; omega, herr⟩, ?_⟩
            intro hk; have := ht.rest_lt hk; simp; omega
        · split
          · -- "-" match
            have hm := (ihM (next cx false q e).rest (next cx false q e).err).1
            have hmr := hm.rest_le
            refine ⟨⟨by simp; omega, ht.err.trans (hm.err.mono (by omega))⟩, ?_⟩
            intro hk; have := ht.rest_lt hk; simp; omega
          · split
            · -- "*"
              refine ⟨⟨by simp; omega, ht.err⟩, ?_⟩
              intro hk; have := ht.rest_lt hk; simp; omega
            · split
              · -- key ":" value
                have ho := next_ok cx false (next cx false q e).rest (next cx false q e).err
                have hoc := ho.cur_le; have hor := ho.rest_le
                have herr1 := ht.err.trans (ho.err.mono (by omega))
                split
                · refine ⟨perr_ok cx _ htc herr1, ?_⟩
                  intro hk; have := ht.rest_lt hk; simp [perr]; omega
                · have hv := next_ok cx true (next cx false (next cx false q e).rest (next cx false q e).err).rest
                    (next cx false (next cx false q e).rest (next cx false q e).err).err
                  have hvc := hv.cur_le; have hvr := hv.rest_le
                  have herr2 := herr1.trans (hv.err.mono (by omega))
                  split
                  · refine ⟨⟨by simp; omega, herr2⟩, ?_⟩
                    intro hk; have := ht.rest_lt hk; simp; omega
                  · split
                    · have hl := listLoop_ok cx (next cx false q e).tok.off (next cx false q e).tok.tok
                        ((next cx true (next cx false (next cx false q e).rest (next cx false q e).err).rest
                          (next cx false (next cx false q e).rest (next cx false q e).err).err).rest.length + 1) []
                        (next cx true (next cx false (next cx false q e).rest (next cx false q e).err).rest
                          (next cx false (next cx false q e).rest (next cx false q e).err).err).rest
                        (next cx true (next cx false (next cx false q e).rest (next cx false q e).err).rest
                          (next cx false (next cx false q e).rest (next cx false q e).err).err).err
                      have hlr := hl.rest_le
                      refine ⟨⟨by omega, herr2.trans (hl.err.mono (by omega))⟩, ?_⟩
                      intro hk; have := ht.rest_lt hk; omega
                    · refine ⟨perr_ok cx _ htc herr2, ?_⟩
                      intro hk; have := ht.rest_lt hk; simp [perr]; omega
              · refine ⟨perr_ok cx _ htc ht.err, ?_⟩
                intro hk; have := ht.rest_lt hk; simp [perr]; omega
      refine ⟨key.1, ?_⟩
      intro hq
      by_cases hk : (next cx false q e).tok.kind = 0
      · -- EOF token: `match` reports an error and moves to the end
        have hpos : 0 < q.length := List.length_pos_iff.mpr hq
        simp only [matchF]
        have e1 : ((next cx false q e).tok.kind == cLP) = false := by rw [hk]; decide
        have e2 : ((next cx false q e).tok.kind == cDash) = false := by rw [hk]; decide
        have e3 : ((next cx false q e).tok.kind == cStar) = false := by rw [hk]; decide
        have e4 : isWord (next cx false q e).tok.kind = false := by rw [hk]; decide
        simp [e1, e2, e3, e4, perr]; exact hpos
      · exact key.2 hk

/-- Fuel stability of the filter parser: once the fuel exceeds `5·|q| + rank`, its exact amount is
irrelevant (ranks: match 0, andLoop 1, andExpr 2, exprLoop 3, expr 4). -/
theorem parser_fuel (cx : Ctx) : ∀ (f1 : Nat),
    (∀ f2 q e, 5 * q.length + 4 < f1 → 5 * q.length + 4 < f2 → exprF cx f1 q e = exprF cx f2 q e) ∧
    (∀ f2 terms q e, 5 * q.length + 3 < f1 → 5 * q.length + 3 < f2 →
      exprLoop cx f1 terms q e = exprLoop cx f2 terms q e) ∧
    (∀ f2 q e, 5 * q.length + 2 < f1 → 5 * q.length + 2 < f2 → andExprF cx f1 q e = andExprF cx f2 q e) ∧
    (∀ f2 terms q e, 5 * q.length + 1 < f1 → 5 * q.length + 1 < f2 →
      andLoop cx f1 terms q e = andLoop cx f2 terms q e) ∧
    (∀ f2 q e, 5 * q.length < f1 → 5 * q.length < f2 → matchF cx f1 q e = matchF cx f2 q e) := by
  intro f1
  induction f1 with
  | zero => exact ⟨by intros; omega, by intros; omega, by intros; omega, by intros; omega, by intros; omega⟩
  | succ f1 ih =>
    obtain ⟨ihE, ihEL, ihA, ihAL, ihM⟩ := ih
    refine ⟨?_, ?_, ?_, ?_, ?_⟩
    · intro f2 q e h1 h2
      match f2, h2 with
      | f2 + 1, h2 =>
        simp only [exprF]; exact ihEL f2 [] q e (by omega) (by omega)
    · intro f2 terms q e h1 h2
      match f2, h2 with
      | f2 + 1, h2 =>
        simp only [exprLoop]
        rw [ihA f2 q e (by omega) (by omega)]
        have ha := (parser_ok cx f2).2.2.1 q e
        have ho := next_ok cx false (andExprF cx f2 q e).rest (andExprF cx f2 q e).err
        have hoc := ho.cur_le; have hor := ho.rest_le; have har := ha.rest_le
        split
        · rename_i hk
          have hk0 : (next cx false (andExprF cx f2 q e).rest (andExprF cx f2 q e).err).tok.kind ≠ 0 := by
            intro h0; rw [h0] at hk; exact absurd hk (by decide)
          have := ho.rest_lt hk0
          exact ihEL f2 _ _ _ (by omega) (by omega)
        · rfl
    · intro f2 q e h1 h2
      match f2, h2 with
      | f2 + 1, h2 =>
        simp only [andExprF]
        rw [ihM f2 q e (by omega) (by omega)]
        have hm := ((parser_ok cx f2).2.2.2.2 q e).1.rest_le
        exact ihAL f2 _ _ _ (by omega) (by omega)
    · intro f2 terms q e h1 h2
      match f2, h2 with
      | f2 + 1, h2 =>
        simp only [andLoop]
        have ho := next_ok cx false q e
        have hoc := ho.cur_le; have hor := ho.rest_le
        split
        · rename_i hk
          have hk0 : (next cx false q e).tok.kind ≠ 0 := by
            intro h0; rw [h0] at hk; exact absurd hk (by decide)
          have := ho.rest_lt hk0
          exact ihAL f2 _ _ _ (by omega) (by omega)
        · split
          · rename_i hk
            have hk0 : (next cx false q e).tok.kind ≠ 0 := by
              intro h0; rw [h0] at hk; exact absurd hk (by decide)
            have hlt := ho.rest_lt hk0
            have hne : (next cx false q e).cur ≠ [] := by
              intro h; rw [h] at hlt; simp at hlt
            rw [ihM f2 _ _ (by omega) (by omega)]
            have hm := ((parser_ok cx f2).2.2.2.2 (next cx false q e).cur (next cx false q e).err).2 hne
            exact ihAL f2 _ _ _ (by omega) (by omega)
          · rfl
    · intro f2 q e h1 h2
      match f2, h2 with
      | f2 + 1, h2 =>
        simp only [matchF]
        have ht := next_ok cx false q e
        have htc := ht.cur_le; have htr := ht.rest_le
        split
        · rename_i hk
          have hk0 : (next cx false q e).tok.kind ≠ 0 := by
            intro h0; rw [h0] at hk; exact absurd hk (by decide)
          have := ht.rest_lt hk0
          rw [ihE f2 _ _ (by omega) (by omega)]
        · split
          · rename_i hk
            have hk0 : (next cx false q e).tok.kind ≠ 0 := by
              intro h0; rw [h0] at hk; exact absurd hk (by decide)
            have := ht.rest_lt hk0
            rw [ihM f2 _ _ (by omega) (by omega)]
          · rfl

theorem listLoop_fuel (cx : Ctx) (off : Int) (key : Bytes) : ∀ (f1 f2 : Nat) (terms : List Filter) (q : Bytes) (e : ErrSt),
    q.length < f1 → q.length < f2 → listLoop cx off key f1 terms q e = listLoop cx off key f2 terms q e := by
  intro f1
  induction f1 with
  | zero => intros; omega
  | succ f1 ih =>
    intro f2 terms q e h1 h2
    match f2, h2 with
    | f2 + 1, h2 =>
      simp only [listLoop]
      have hv := next_ok cx true q e
      have hs := next_ok cx true (next cx true q e).rest (next cx true q e).err
      have := hv.cur_le; have := hv.rest_le; have := hs.cur_le; have := hs.rest_le
      split
      · rfl
      · split
        · rfl
        · split
          · rename_i hk
            have hk0 : (next cx true (next cx true q e).rest (next cx true q e).err).tok.kind ≠ 0 := by
              intro h0; rw [h0] at hk; exact absurd hk (by decide)
            have := hs.rest_lt hk0
            exact ih f2 _ _ _ (by omega) (by omega)
          · rfl

/-! ### projection parser -/

open Proc.ParseProj in
structure FROK (cx : Ctx) (q : Bytes) (e : ErrSt) (r : Proc.ParseProj.FR) : Prop where
  rest_le : r.rest.length ≤ q.length
  err : ErrOK cx q e r.err

open Proc.ParseProj in
theorem fixedLoop_ok (cx : Ctx) : ∀ (n : Nat) (f : Field) (q : Bytes) (e : ErrSt),
    FROK cx q e (fixedLoop cx n f q e) := by
  intro n
  induction n with
  | zero => intro f q e; exact ⟨by simp [fixedLoop], recErr_ok cx _ _ (Nat.le_refl _)⟩
  | succ n ih =>
    intro f q e
    simp only [fixedLoop]
    have ht := next_ok cx false q e
    have := ht.cur_le; have := ht.rest_le
    split
    · have h := ih { f with fixed := f.fixed ++ [(next cx false q e).tok.tok] } (next cx false q e).rest (next cx false q e).err
      exact ⟨by have := h.rest_le; omega, ht.err.trans (h.err.mono (by omega))⟩
    · split
      · split
        · exact ⟨by simp, ht.err.trans (recErr_ok cx _ _ (by omega))⟩
        · exact ⟨by simp; omega, ht.err⟩
      · exact ⟨by simp, ht.err.trans (recErr_ok cx _ _ (by omega))⟩

open Proc.ParseProj in
theorem fixedLoop_fuel (cx : Ctx) : ∀ (n1 n2 : Nat) (f : Field) (q : Bytes) (e : ErrSt),
    q.length < n1 → q.length < n2 → fixedLoop cx n1 f q e = fixedLoop cx n2 f q e := by
  intro n1
  induction n1 with
  | zero => intros; omega
  | succ n1 ih =>
    intro n2 f q e h1 h2
    match n2, h2 with
    | n2 + 1, h2 =>
      simp only [fixedLoop]
      have ht := next_ok cx false q e
      have := ht.cur_le; have := ht.rest_le
      split
      · rename_i hk
        have hk0 : (next cx false q e).tok.kind ≠ 0 := by
          intro h0; rw [h0] at hk; exact absurd hk (by decide)
        have := ht.rest_lt hk0
        exact ih n2 _ _ _ (by omega) (by omega)
      · rfl

open Proc.ParseProj in
theorem parseField_ok (cx : Ctx) (q : Bytes) (e : ErrSt) :
    FROK cx q e (parseField cx q e) ∧ (q ≠ [] → (parseField cx q e).rest.length < q.length) := by
  have hk := next_ok cx false q e
  have hkc := hk.cur_le; have hkr := hk.rest_le
  simp only [parseField]
  split
  · refine ⟨⟨by simp, hk.err.trans (recErr_ok cx _ _ hkc)⟩, ?_⟩
    intro hq; simp; exact List.length_pos_iff.mpr hq
  · rename_i hw
    have hk0 : (next cx false q e).tok.kind ≠ 0 := by
      intro h0; rw [h0] at hw; exact absurd hw (by decide)
    have hlt := hk.rest_lt hk0
    have hs := next_ok cx false (next cx false q e).rest (next cx false q e).err
    have hsc := hs.cur_le; have hsr := hs.rest_le
    have herr1 := hk.err.trans (hs.err.mono (by omega))
    split
    · exact ⟨⟨by simp; omega, herr1⟩, fun _ => by simp; omega⟩
    · have ho := next_ok cx false (next cx false (next cx false q e).rest (next cx false q e).err).rest
        (next cx false (next cx false q e).rest (next cx false q e).err).err
      have hoc := ho.cur_le; have hor := ho.rest_le
      have herr2 := herr1.trans (ho.err.mono (by omega))
      split
      · exact ⟨⟨by simp; omega, herr2⟩, fun _ => by simp; omega⟩
      · split
        · have hf := fixedLoop_ok cx
            ((next cx false (next cx false (next cx false q e).rest (next cx false q e).err).rest
              (next cx false (next cx false q e).rest (next cx false q e).err).err).rest.length + 1)
            { key := (next cx false q e).tok.tok, order := oFixed, fixed := [], keyOff := (next cx false q e).tok.off,
              orderOff := (next cx false (next cx false (next cx false q e).rest (next cx false q e).err).rest
                (next cx false (next cx false q e).rest (next cx false q e).err).err).tok.off }
            (next cx false (next cx false (next cx false q e).rest (next cx false q e).err).rest
              (next cx false (next cx false q e).rest (next cx false q e).err).err).rest
            (next cx false (next cx false (next cx false q e).rest (next cx false q e).err).rest
              (next cx false (next cx false q e).rest (next cx false q e).err).err).err
          have hfr := hf.rest_le
          exact ⟨⟨by omega, herr2.trans (hf.err.mono (by omega))⟩, fun _ => by omega⟩
        · exact ⟨⟨by simp, herr2.trans (recErr_ok cx _ _ (by omega))⟩, fun hq => by simp; exact List.length_pos_iff.mpr hq⟩

open Proc.ParseProj in
theorem projLoop_ok (cx : Ctx) : ∀ (n : Nat) (fs : List Field) (q : Bytes) (e : ErrSt),
    (projLoop cx n fs q e).2.1.length ≤ q.length ∧ ErrOK cx q e (projLoop cx n fs q e).2.2 := by
  intro n
  induction n with
  | zero => intro fs q e; exact ⟨by simp [projLoop], recErr_ok cx _ _ (Nat.le_refl _)⟩
  | succ n ih =>
    intro fs q e
    simp only [projLoop]
    have ht := next_ok cx false q e
    have htc := ht.cur_le; have htr := ht.rest_le
    split
    · exact ⟨htc, ht.err⟩
    · split
      · have hp := (parseField_ok cx (next cx false q e).rest (next cx false q e).err).1
        have hpr := hp.rest_le
        have h := ih (fs ++ [(parseField cx (next cx false q e).rest (next cx false q e).err).f])
          (parseField cx (next cx false q e).rest (next cx false q e).err).rest
          (parseField cx (next cx false q e).rest (next cx false q e).err).err
        exact ⟨by have := h.1; omega, ht.err.trans ((hp.err.trans (h.2.mono hpr)).mono (by omega))⟩
      · have hp := (parseField_ok cx (next cx false q e).cur (next cx false q e).err).1
        have hpr := hp.rest_le
        have h := ih (fs ++ [(parseField cx (next cx false q e).cur (next cx false q e).err).f])
          (parseField cx (next cx false q e).cur (next cx false q e).err).rest
          (parseField cx (next cx false q e).cur (next cx false q e).err).err
        exact ⟨by have := h.1; omega, ht.err.trans ((hp.err.trans (h.2.mono hpr)).mono htc)⟩

open Proc.ParseProj in
theorem projLoop_fuel (cx : Ctx) : ∀ (n1 n2 : Nat) (fs : List Field) (q : Bytes) (e : ErrSt),
    q.length < n1 → q.length < n2 → projLoop cx n1 fs q e = projLoop cx n2 fs q e := by
  intro n1
  induction n1 with
  | zero => intros; omega
  | succ n1 ih =>
    intro n2 fs q e h1 h2
    match n2, h2 with
    | n2 + 1, h2 =>
      simp only [projLoop]
      have ht := next_ok cx false q e
      have htc := ht.cur_le; have htr := ht.rest_le
      split
      · rfl
      · rename_i hk
        have hk0 : (next cx false q e).tok.kind ≠ 0 := by simpa using hk
        have hlt := ht.rest_lt hk0
        have hne : (next cx false q e).cur ≠ [] := by
          intro h; rw [h] at hlt; simp at hlt
        split
        · have hp := (parseField_ok cx (next cx false q e).rest (next cx false q e).err).1.rest_le
          exact ih n2 _ _ _ (by omega) (by omega)
        · have hp := (parseField_ok cx (next cx false q e).cur (next cx false q e).err).2 hne
          exact ih n2 _ _ _ (by omega) (by omega)

end C07
