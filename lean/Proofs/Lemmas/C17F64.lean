/-
C17 helper lemmas on the float64 model: an integer order key for all non-NaN patterns
(`lt a b ↔ okey a < okey b`, both signs and both zeros), hence `F64.lt` is a strict weak order
off NaN; and `val` is an order embedding of `lt` on positive finite patterns.
Uses the read-only library Proofs/Lemmas/F64Div.lean.
-/
import Model.Base.F64
import Proofs.Lemmas.F64Div
import Proofs.Lemmas.F64Exact

namespace C17
open F64

/-- order key: non-negative patterns count up, negative patterns count down; ±0 ↦ 0 -/
def okey (b : Bits) : Int := if signBit b then -((b.toNat : Int) - 2 ^ 63) else (b.toNat : Int)

theorem signBit_true_iff (b : Bits) : signBit b = true ↔ 2 ^ 63 ≤ b.toNat := by
  have h := signBit_false_iff b
  cases hs : signBit b
  · have := h.mp hs; constructor
    · intro h'; cases h'
    · intro h'; omega
  · constructor
    · intro _
      by_contra hc
      have : signBit b = false := h.mpr (by omega)
      rw [hs] at this; cases this
    · intro _; rfl

theorem isZero_iff (b : Bits) : isZero b = true ↔ (b.toNat = 0 ∨ b.toNat = 2 ^ 63) := by
  unfold isZero
  rw [Bool.and_eq_true, beq_iff_eq, beq_iff_eq, expField_eq, fracField_eq]
  have := b.toNat_lt
  omega

theorem okey_zero_iff (b : Bits) : okey b = 0 ↔ isZero b = true := by
  rw [isZero_iff]
  unfold okey
  have hlt := b.toNat_lt
  cases hs : signBit b
  · have := (signBit_false_iff b).mp hs
    simp only [Bool.false_eq_true, if_false]; omega
  · have := (signBit_true_iff b).mp hs
    simp only [if_true]; omega

/-- **lt_iff_okey** — off NaN, `F64.lt` is the order of the integer key (IEEE order with −0 = +0) -/
theorem lt_iff_okey (a b : Bits) (ha : isNaN a = false) (hb : isNaN b = false) :
    lt a b = true ↔ okey a < okey b := by
  unfold lt
  simp only [ha, hb, Bool.or_self, Bool.false_eq_true, if_false]
  by_cases hz : (isZero a && isZero b) = true
  · simp only [hz, if_true]
    rw [Bool.and_eq_true] at hz
    have h1 := (okey_zero_iff a).mpr hz.1
    have h2 := (okey_zero_iff b).mpr hz.2
    constructor
    · intro h; cases h
    · intro h; omega
  · simp only [hz, Bool.false_eq_true, if_false]
    have hza : ¬ (okey a = 0 ∧ okey b = 0) := by
      intro ⟨h1, h2⟩
      apply hz
      rw [Bool.and_eq_true]
      exact ⟨(okey_zero_iff a).mp h1, (okey_zero_iff b).mp h2⟩
    have hla := a.toNat_lt
    have hlb := b.toNat_lt
    cases hsa : signBit a <;> cases hsb : signBit b
    · have h1 := (signBit_false_iff a).mp hsa
      have h2 := (signBit_false_iff b).mp hsb
      simp only [okey, hsa, hsb, Bool.false_eq_true, if_false, decide_eq_true_eq, UInt64.lt_iff_toNat_lt]
      omega
    · have h1 := (signBit_false_iff a).mp hsa
      have h2 := (signBit_true_iff b).mp hsb
      simp only [okey, hsa, hsb, Bool.false_eq_true, if_false, if_true]
      constructor
      · intro h; cases h
      · intro h; omega
    · have h1 := (signBit_true_iff a).mp hsa
      have h2 := (signBit_false_iff b).mp hsb
      simp only [okey, hsa, hsb, Bool.false_eq_true, if_false, if_true] at hza ⊢
      constructor
      · intro _; omega
      · intro _; trivial
    · have h1 := (signBit_true_iff a).mp hsa
      have h2 := (signBit_true_iff b).mp hsb
      simp only [okey, hsa, hsb, if_true, decide_eq_true_eq, UInt64.lt_iff_toNat_lt]
      omega

/-- `F64.lt` is asymmetric and negatively transitive off NaN -/
theorem lt_asymm (a b : Bits) (ha : isNaN a = false) (hb : isNaN b = false) (h : lt a b = true) :
    lt b a = false := by
  have h1 := (lt_iff_okey a b ha hb).mp h
  cases h2 : lt b a
  · rfl
  · have := (lt_iff_okey b a hb ha).mp h2; omega

theorem lt_negtrans (a b c : Bits) (ha : isNaN a = false) (hb : isNaN b = false) (hc : isNaN c = false)
    (h1 : lt a b = false) (h2 : lt b c = false) : lt a c = false := by
  cases h3 : lt a c
  · rfl
  · have k3 := (lt_iff_okey a c ha hc).mp h3
    have k1 : ¬ okey a < okey b := fun h => by rw [(lt_iff_okey a b ha hb).mpr h] at h1; cases h1
    have k2 : ¬ okey b < okey c := fun h => by rw [(lt_iff_okey b c hb hc).mpr h] at h2; cases h2
    omega

/-- on positive finite patterns the exact value `val` is an order embedding of `F64.lt` -/
theorem lt_iff_val (a b : Bits) (ha : PosFin a) (hb : PosFin b) : lt a b = true ↔ val a < val b := by
  rw [lt_posFin a b ha hb]
  constructor
  · intro h
    -- a.toNat + 1 ≤ b.toNat; strictness through the successor pattern is avoided: use antisymmetry
    by_contra hc
    have hle : val b ≤ val a := not_lt.mp hc
    -- val is injective-monotone: if val b ≤ val a and a < b as patterns then val a ≤ val b, so equal values;
    -- equal values of positive finite floats are equal patterns (roundMag_exactQ)
    have hab : val a ≤ val b := val_mono a b hb.lt63 (Nat.le_of_lt h)
    have heq : val a = val b := le_antisymm hab hle
    have hpa : (0 : ℚ) < ((toFrac (mant a) (expo a)).2 : ℚ) := by exact_mod_cast toFrac_snd_pos _ _
    have e1 := roundMag_exactQ a ha _ _ (toFrac_snd_pos (mant a) (expo a)) (by rw [toFrac_ratio]; rfl)
    have e2 := roundMag_exactQ b hb _ _ (toFrac_snd_pos (mant a) (expo a)) (by rw [toFrac_ratio]; exact heq)
    have : a = b := e1.symm.trans e2
    rw [this] at h; omega
  · intro h
    by_contra hc
    have := val_mono b a ha.lt63 (Nat.le_of_not_lt hc)
    exact absurd h (not_lt.mpr this)

end C17
