/-
C19 helper lemmas: the listing order (`ORDER BY Day DESC, Seq DESC, UploadID DESC`).
-/
import Model.Storage.Query
import Proofs.Lemmas.C19Order
import Mathlib.Tactic.Order

namespace C19
open Storage.Query

/-- `newer` in terms of the bytewise linear order -/
theorem newer_iff (a b : UploadRow) :
    newer a b = true ↔
      (blt b.day a.day = true ∨ (a.day = b.day ∧ (b.seq < a.seq ∨ (a.seq = b.seq ∧ blt b.id a.id = true)))) := by
  simp [newer]

theorem newer_trans (a b c : UploadRow) (h1 : newer a b = true) (h2 : newer b c = true) :
    newer a c = true := by
  rw [newer_iff] at *
  letI := bytesOrder
  have t : ∀ x y z : Bytes, blt x y = true → blt y z = true → blt x z = true := blt_trans
  rcases h1 with h1 | ⟨e1, h1⟩
  · rcases h2 with h2 | ⟨e2, h2⟩
    · exact Or.inl (t _ _ _ h2 h1)
    · exact Or.inl (e2 ▸ h1)
  · rcases h2 with h2 | ⟨e2, h2⟩
    · exact Or.inl (e1 ▸ h2)
    · refine Or.inr ⟨e1.trans e2, ?_⟩
      rcases h1 with h1 | ⟨s1, h1⟩
      · rcases h2 with h2 | ⟨s2, h2⟩
        · exact Or.inl (by omega)
        · exact Or.inl (by omega)
      · rcases h2 with h2 | ⟨s2, h2⟩
        · exact Or.inl (by omega)
        · exact Or.inr ⟨s1.trans s2, t _ _ _ h2 h1⟩

theorem newer_irrefl (a : UploadRow) : newer a a = false := by
  cases h : newer a a with
  | false => rfl
  | true =>
    rw [newer_iff] at h
    rcases h with h | ⟨_, h | ⟨_, h⟩⟩
    · rw [blt_irrefl] at h; cases h
    · omega
    · rw [blt_irrefl] at h; cases h

theorem newer_asymm (a b : UploadRow) (h : newer a b = true) : newer b a = false := by
  cases h2 : newer b a with
  | false => rfl
  | true => have := newer_trans a b a h h2; rw [newer_irrefl] at this; cases this

/-- any two rows with different ids are ordered one way or the other -/
theorem newer_total (a b : UploadRow) (hid : a.id ≠ b.id) : newer a b = true ∨ newer b a = true := by
  rw [newer_iff, newer_iff]
  rcases blt_total a.day b.day with h | h | h
  · exact Or.inr (Or.inl h)
  · rcases Nat.lt_trichotomy a.seq b.seq with s | s | s
    · exact Or.inr (Or.inr ⟨h.symm, Or.inl s⟩)
    · rcases blt_total a.id b.id with i | i | i
      · exact Or.inr (Or.inr ⟨h.symm, Or.inr ⟨s.symm, i⟩⟩)
      · exact absurd i hid
      · exact Or.inl (Or.inr ⟨h, Or.inr ⟨s, i⟩⟩)
    · exact Or.inl (Or.inr ⟨h, Or.inl s⟩)
  · exact Or.inl (Or.inl h)

variable {β : Type}

theorem mem_insertNewer (u x : UploadRow × Nat) (l : List (UploadRow × Nat)) :
    x ∈ insertNewer u l ↔ x = u ∨ x ∈ l := by
  induction l with
  | nil => simp [insertNewer]
  | cons t rest ih =>
    unfold insertNewer
    split
    · simp
    · simp only [List.mem_cons, ih]
      constructor
      · rintro (h | h | h) <;> simp [h]
      · rintro (h | h | h) <;> simp [h]

theorem perm_insertNewer (u : UploadRow × Nat) (l : List (UploadRow × Nat)) :
    (insertNewer u l).Perm (u :: l) := by
  induction l with
  | nil => simp [insertNewer]
  | cons t rest ih =>
    unfold insertNewer
    split
    · exact List.Perm.refl _
    · exact (List.Perm.cons t ih).trans (List.Perm.swap u t rest)

/-- sorted: no later row is newer than an earlier one -/
def SortedNewer (l : List (UploadRow × Nat)) : Prop :=
  l.Pairwise fun a b => newer b.1 a.1 = false

theorem sorted_insertNewer (u : UploadRow × Nat) (l : List (UploadRow × Nat)) (h : SortedNewer l) :
    SortedNewer (insertNewer u l) := by
  induction l with
  | nil => simp [insertNewer, SortedNewer]
  | cons t rest ih =>
    unfold SortedNewer at h
    rw [List.pairwise_cons] at h
    unfold insertNewer
    split
    · rename_i hn
      unfold SortedNewer
      rw [List.pairwise_cons]
      refine ⟨?_, List.pairwise_cons.mpr h⟩
      intro x hx
      rcases List.mem_cons.mp hx with rfl | hx
      · exact newer_asymm _ _ hn
      · cases hx2 : newer x.1 u.1 with
        | false => rfl
        | true =>
          have := newer_trans _ _ _ hx2 hn
          rw [h.1 x hx] at this; cases this
    · rename_i hn
      have hn : newer u.1 t.1 = false := by simpa using hn
      unfold SortedNewer
      rw [List.pairwise_cons]
      refine ⟨?_, ih h.2⟩
      intro x hx
      rcases (mem_insertNewer u x rest).mp hx with rfl | hx
      · exact hn
      · exact h.1 x hx

theorem sortNewer_perm (l : List (UploadRow × Nat)) : (sortNewer l).Perm l := by
  unfold sortNewer
  induction l with
  | nil => simp
  | cons x rest ih =>
    simp only [List.foldr_cons]
    exact (perm_insertNewer _ _).trans (List.Perm.cons x ih)

theorem sortNewer_sorted (l : List (UploadRow × Nat)) : SortedNewer (sortNewer l) := by
  unfold sortNewer
  induction l with
  | nil => simp [SortedNewer]
  | cons x rest ih => simp only [List.foldr_cons]; exact sorted_insertNewer _ _ ih

end C19
