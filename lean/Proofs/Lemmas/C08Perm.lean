/-
Helper lemmas for C08 `exclusion_order_independent`: what `Parse` does to the parser state, as a
function of the expression alone, and that permuting the `Parse` calls changes the final parser
state only up to the order of `configKeys` (a set) and `fullnameKeys` (a multiset).
-/
import Proofs.Lemmas.C08Excl

namespace C08
open Proc.Sort Proc.Projection Proc.Extract

/-- The parser component of `makeProjection`. -/
def mpParser (p : Parser) (sp : Spec) : Parser :=
  if sp.order == .fixed [] then p
  else if sp.key == dotConfig then
    if isFixed sp.order then p else { p with haveConfig := true }
  else if sp.key == dotFullname then { p with haveFullname := true }
  else if sp.key == dotUnit then p
  else if sp.key == dotName || sp.key.head? == some Fmt.Name.slash then
    { p with fullnameKeys := p.fullnameKeys ++ [sp.key] }
  else if p.configKeys.contains sp.key then p
  else { p with configKeys := p.configKeys ++ [sp.key] }

/-- The projection component of `makeProjection`: it does not depend on the parser. -/
def mpProj (s : Proj) (sp : Spec) : Except ParseErr Proj :=
  if sp.order == .fixed [] then .error .unknownOrder
  else if sp.key == dotConfig then
    if isFixed sp.order then .error .fixedConfig
    else .ok { (s.addGroup dotConfig).1 with parts := (s.addGroup dotConfig).1.parts ++ [.config (s.addGroup dotConfig).2 sp.order] }
  else if sp.key == dotFullname then
    .ok { (s.addRootField dotFullname sp.order).1 with
          parts := (s.addRootField dotFullname sp.order).1.parts ++ [.fullname (s.addRootField dotFullname sp.order).2] }
  else if sp.key == dotUnit then .error .unitKey
  else if sp.key.isEmpty then .error .emptyKey
  else .ok { (s.addRootField sp.key sp.order).1 with
             parts := (s.addRootField sp.key sp.order).1.parts ++ [.key sp.key (s.addRootField sp.key sp.order).2] }

theorem makeProjection_eq (p : Parser) (s : Proj) (sp : Spec) :
    makeProjection p s sp = (mpParser p sp, mpProj s sp) := by
  unfold makeProjection mpParser mpProj
  by_cases h0 : (sp.order == .fixed []) = true
  · simp [h0]
  · simp only [h0, Bool.false_eq_true, if_false]
    by_cases h1 : (sp.key == dotConfig) = true
    · simp only [h1, if_true]
      by_cases h2 : isFixed sp.order = true
      · simp [h2]
      · simp [h2]
    · simp only [h1, Bool.false_eq_true, if_false]
      by_cases h2 : (sp.key == dotFullname) = true
      · simp [h2]
      · simp only [h2, Bool.false_eq_true, if_false]
        by_cases h3 : (sp.key == dotUnit) = true
        · simp [h3]
        · simp only [h3, Bool.false_eq_true, if_false]
          by_cases h4 : sp.key.isEmpty = true
          · simp [h4]
          · simp [h4]

/-- Whether `makeProjection` rejects a part (a function of the part alone). -/
def isErr (sp : Spec) : Bool :=
  sp.order == .fixed [] ||
  (sp.key == dotConfig && isFixed sp.order) ||
  (sp.key != dotConfig && sp.key != dotFullname && (sp.key == dotUnit || sp.key.isEmpty))

theorem mpProj_isOk (s : Proj) (sp : Spec) :
    (match mpProj s sp with | .ok _ => true | .error _ => false) = !isErr sp := by
  unfold mpProj isErr
  cases h0 : (sp.order == .fixed []) <;> cases h1 : (sp.key == dotConfig) <;>
    cases h2 : (sp.key == dotFullname) <;> cases h3 : (sp.key == dotUnit) <;>
    cases h4 : sp.key.isEmpty <;> cases h5 : isFixed sp.order <;> simp [bne, h1, h2]

theorem mpProj_err (s : Proj) (sp : Spec) (h : isErr sp = true) : ∃ e, mpProj s sp = .error e := by
  have := mpProj_isOk s sp
  cases hh : mpProj s sp with
  | ok s' => rw [hh, h] at this; simp at this
  | error e => exact ⟨e, rfl⟩

theorem mpProj_ok (s : Proj) (sp : Spec) (h : isErr sp = false) : ∃ s', mpProj s sp = .ok s' := by
  have := mpProj_isOk s sp
  cases hh : mpProj s sp with
  | ok s' => exact ⟨s', rfl⟩
  | error e => rw [hh, h] at this; simp at this

/-- The parts of an expression whose parser side effects happen: everything up to and including
the first rejected part. -/
def execSpecs : List Spec → List Spec
  | [] => []
  | sp :: rest => if isErr sp then [sp] else sp :: execSpecs rest

/-- The parser after `Parse` of an expression (whether or not it succeeds). -/
theorem parseParts_parser (specs : List Spec) (pa : Parser) (s : Proj) :
    (parseParts pa s specs).1 = (execSpecs specs).foldl mpParser pa := by
  induction specs generalizing pa s with
  | nil => rfl
  | cons sp rest ih =>
    unfold parseParts execSpecs
    rw [makeProjection_eq]
    cases he : isErr sp with
    | true =>
      obtain ⟨e, hh⟩ := mpProj_err s sp he
      simp [hh]
    | false =>
      obtain ⟨s', hh⟩ := mpProj_ok s sp he
      simp [hh, ih]

/-- The projection produced by `Parse` does not depend on the parser state (hence not on which
expressions were parsed before). -/
theorem parseParts_proj (specs : List Spec) (pa pb : Parser) (s : Proj) :
    (parseParts pa s specs).2 = (parseParts pb s specs).2 := by
  induction specs generalizing pa pb s with
  | nil => rfl
  | cons sp rest ih =>
    unfold parseParts
    rw [makeProjection_eq, makeProjection_eq]
    cases hh : mpProj s sp with
    | ok s' => simp [ih (mpParser pa sp) (mpParser pb sp) s']
    | error e => simp

theorem execSpecs_noErr (specs : List Spec) (h : ∀ sp ∈ specs, isErr sp = false) : execSpecs specs = specs := by
  induction specs with
  | nil => rfl
  | cons sp rest ih =>
    unfold execSpecs
    rw [h sp (by simp)]
    simp [ih (fun x hx => h x (by simp [hx]))]

/-- `Parse` accepts an expression iff no part is rejected. -/
theorem parseParts_result (specs : List Spec) (pa : Parser) (s : Proj) :
    (specs.any isErr = true → ∃ e, (parseParts pa s specs).2 = .error e) ∧
    (specs.any isErr = false → ∃ s', (parseParts pa s specs).2 = .ok s') := by
  induction specs generalizing pa s with
  | nil => exact ⟨by simp, fun _ => ⟨s, rfl⟩⟩
  | cons sp rest ih =>
    unfold parseParts
    rw [makeProjection_eq]
    cases he : isErr sp with
    | true =>
      obtain ⟨e, hh⟩ := mpProj_err s sp he
      exact ⟨fun _ => ⟨e, by simp [hh]⟩, by simp [he]⟩
    | false =>
      obtain ⟨s', hh⟩ := mpProj_ok s sp he
      simp only [hh, List.any_cons, he, Bool.false_or]
      exact ih (mpParser pa sp) s'

/-- The parts whose parser side effects SURVIVE a `Parse` call: all of them when the expression is
accepted, none when any part is rejected (the parser state is restored). -/
def effSpecs (specs : List Spec) : List Spec := if specs.any isErr then [] else specs

theorem effSpecs_noErr (specs : List Spec) (h : ∀ sp ∈ specs, isErr sp = false) : effSpecs specs = specs := by
  unfold effSpecs
  have : specs.any isErr = false := by
    rw [List.any_eq_false]; intro x hx; rw [h x hx]; simp
  simp [this]

/-- The parser after `Parse` of an expression. -/
theorem parse_parser (pa : Parser) (specs : List Spec) :
    (pa.parse specs).1 = (effSpecs specs).foldl mpParser pa := by
  unfold Parser.parse effSpecs
  have hp := parseParts_parser specs pa newProjection
  obtain ⟨r1, r2⟩ := parseParts_result specs pa newProjection
  cases ha : specs.any isErr with
  | true =>
    obtain ⟨e, he⟩ := r1 ha
    cases hh : parseParts pa newProjection specs with
    | mk p1 res =>
      rw [hh] at he
      simp only at he
      subst he
      simp
  | false =>
    obtain ⟨s', hs⟩ := r2 ha
    cases hh : parseParts pa newProjection specs with
    | mk p1 res =>
      rw [hh] at hs hp
      simp only at hs hp
      subst hs
      simp only [Bool.false_eq_true, if_false]
      rw [hp, execSpecs_noErr]
      intro sp hsp
      have := List.any_eq_false.mp ha sp hsp
      simpa using this

/-- **A rejected `Parse` call leaves the parser state unchanged** (and yields no projection). -/
theorem parse_rejected (pa : Parser) (specs : List Spec) (h : specs.any isErr = true) :
    (pa.parse specs).1 = pa ∧ ∃ e, (pa.parse specs).2 = .error e := by
  refine ⟨by rw [parse_parser]; simp [effSpecs, h], ?_⟩
  obtain ⟨e, he⟩ := (parseParts_result specs pa newProjection).1 h
  unfold Parser.parse
  cases hh : parseParts pa newProjection specs with
  | mk p1 res =>
    rw [hh] at he
    simp only at he
    subst he
    exact ⟨e, rfl⟩

theorem parse_proj (pa pb : Parser) (specs : List Spec) : (pa.parse specs).2 = (pb.parse specs).2 := by
  have := parseParts_proj specs pa pb newProjection
  unfold Parser.parse
  cases h1 : parseParts pa newProjection specs with
  | mk p1 r1 =>
    cases h2 : parseParts pb newProjection specs with
    | mk p2 r2 =>
      rw [h1, h2] at this
      simp only at this
      subst this
      cases r1 <;> rfl

/-- One `Parse` / `ParseWithUnit` call of a parser. -/
def parseExpr (pa : Parser) (e : Bool × List Spec) : Parser × Except ParseErr Proj :=
  if e.1 then pa.parseWithUnit e.2 else pa.parse e.2

theorem parseExpr_parser (pa : Parser) (e : Bool × List Spec) :
    (parseExpr pa e).1 = (effSpecs e.2).foldl mpParser pa := by
  unfold parseExpr
  cases e.1
  · simp only [Bool.false_eq_true, if_false]; exact parse_parser _ _
  · simp only [if_true, Parser.parseWithUnit]
    have := parse_parser pa e.2
    cases hh : pa.parse e.2 with
    | mk p1 r =>
      rw [hh] at this
      cases r <;> simpa using this

theorem parseExpr_proj (pa pb : Parser) (e : Bool × List Spec) :
    (parseExpr pa e).2 = (parseExpr pb e).2 := by
  unfold parseExpr
  have := parse_proj pa pb e.2
  cases e.1
  · simpa using this
  · simp only [if_true, Parser.parseWithUnit]
    cases h1 : pa.parse e.2 with
    | mk p1 r1 =>
      cases h2 : pb.parse e.2 with
      | mk p2 r2 =>
        rw [h1, h2] at this
        simp only at this
        subst this
        cases r1 <;> rfl

/-- The parser after a sequence of `Parse` / `ParseWithUnit` calls. -/
def parserAfter (pa : Parser) (es : List (Bool × List Spec)) : Parser :=
  es.foldl (fun pa e => (parseExpr pa e).1) pa

theorem parserAfter_eq (es : List (Bool × List Spec)) (pa : Parser) :
    parserAfter pa es = (es.flatMap fun e => effSpecs e.2).foldl mpParser pa := by
  unfold parserAfter
  induction es generalizing pa with
  | nil => rfl
  | cons e rest ih =>
    simp only [List.foldl_cons, List.flatMap_cons, List.foldl_append]
    rw [ih, parseExpr_parser]

/-! ### Observables of the parser state -/

def cfgKeyOf (sp : Spec) : Option Bytes :=
  if sp.order == .fixed [] || sp.key == dotConfig || sp.key == dotFullname || sp.key == dotUnit ||
     sp.key == dotName || sp.key.head? == some Fmt.Name.slash then none else some sp.key

def nameKeyOf (sp : Spec) : List Bytes :=
  if sp.order == .fixed [] || sp.key == dotConfig || sp.key == dotFullname || sp.key == dotUnit then []
  else if sp.key == dotName || sp.key.head? == some Fmt.Name.slash then [sp.key] else []

def hcOf (sp : Spec) : Bool := !(sp.order == .fixed []) && sp.key == dotConfig && !isFixed sp.order

def hfOf (sp : Spec) : Bool :=
  !(sp.order == .fixed []) && !(sp.key == dotConfig) && sp.key == dotFullname

theorem mpParser_obs (pa : Parser) (sp : Spec) :
    (∀ k, k ∈ (mpParser pa sp).configKeys ↔ k ∈ pa.configKeys ∨ cfgKeyOf sp = some k) ∧
    (mpParser pa sp).fullnameKeys = pa.fullnameKeys ++ nameKeyOf sp ∧
    (mpParser pa sp).haveConfig = (pa.haveConfig || hcOf sp) ∧
    (mpParser pa sp).haveFullname = (pa.haveFullname || hfOf sp) ∧
    (mpParser pa sp).fullExt = pa.fullExt := by
  unfold mpParser cfgKeyOf nameKeyOf hcOf hfOf
  cases h0 : (sp.order == .fixed [])
  case true => simp
  cases h1 : (sp.key == dotConfig)
  case true => cases h2 : isFixed sp.order <;> simp
  cases h2 : (sp.key == dotFullname)
  case true => simp
  cases h3 : (sp.key == dotUnit)
  case true => simp
  cases h4 : (sp.key == dotName)
  case true => simp
  cases h5 : (sp.key.head? == some Fmt.Name.slash)
  case true => simp
  cases h6 : pa.configKeys.contains sp.key
  case true =>
    have hm : sp.key ∈ pa.configKeys := by simpa using h6
    simp only [Bool.false_eq_true, if_false, Bool.or_self, if_true, Bool.not_false, Bool.and_false,
      Bool.or_false, List.append_nil, Option.some.injEq, Bool.and_self, and_self, and_true]
    refine ⟨fun k => ?_, trivial, by simp⟩
    constructor
    · exact Or.inl
    · rintro (h | h)
      · exact h
      · rw [← h]; exact hm
  case false =>
    simp only [Bool.false_eq_true, if_false, Bool.or_self, Bool.not_false, Bool.and_false,
      Bool.or_false, List.append_nil, Option.some.injEq, Bool.and_self, and_self, and_true,
      List.mem_append, List.mem_singleton]
    refine ⟨fun k => ?_, trivial, by simp⟩
    constructor
    · rintro (h | h)
      · exact Or.inl h
      · exact Or.inr h.symm
    · rintro (h | h)
      · exact Or.inl h
      · exact Or.inr h.symm

theorem foldl_mpParser_obs (l : List Spec) (pa : Parser) :
    (∀ k, k ∈ (l.foldl mpParser pa).configKeys ↔ k ∈ pa.configKeys ∨ ∃ sp ∈ l, cfgKeyOf sp = some k) ∧
    (l.foldl mpParser pa).fullnameKeys = pa.fullnameKeys ++ l.flatMap nameKeyOf ∧
    (l.foldl mpParser pa).haveConfig = (pa.haveConfig || l.any hcOf) ∧
    (l.foldl mpParser pa).haveFullname = (pa.haveFullname || l.any hfOf) ∧
    (l.foldl mpParser pa).fullExt = pa.fullExt := by
  induction l generalizing pa with
  | nil => simp
  | cons sp rest ih =>
    obtain ⟨a1, a2, a3, a4, a5⟩ := mpParser_obs pa sp
    obtain ⟨b1, b2, b3, b4, b5⟩ := ih (mpParser pa sp)
    simp only [List.foldl_cons]
    refine ⟨?_, ?_, ?_, ?_, ?_⟩
    · intro k
      rw [b1, a1]
      simp only [List.mem_cons, exists_eq_or_imp]
      constructor
      · rintro ((h | h) | h)
        · exact Or.inl h
        · exact Or.inr (Or.inl h)
        · exact Or.inr (Or.inr h)
      · rintro (h | h | h)
        · exact Or.inl (Or.inl h)
        · exact Or.inl (Or.inr h)
        · exact Or.inr h
    · rw [b2, a2]; simp
    · rw [b3, a3]; simp [Bool.or_assoc]
    · rw [b4, a4]; simp [Bool.or_assoc]
    · rw [b5, a5]

/-! ### Permuting the Parse calls -/

/-- What the closures of any projection of the parser read when a result is projected (all parsing
done; the full-name extractor is built from `fullnameKeys` on first use and kept). -/
def envOf (pa : Parser) : Env :=
  { configKeys := pa.configKeys, exclude := pa.fullExt.getD pa.fullnameKeys }

theorem parserAfter_obs (pa : Parser) (es : List (Bool × List Spec)) :
    (∀ k, k ∈ (parserAfter pa es).configKeys ↔
      k ∈ pa.configKeys ∨ ∃ sp ∈ es.flatMap (fun e => effSpecs e.2), cfgKeyOf sp = some k) ∧
    (parserAfter pa es).fullnameKeys = pa.fullnameKeys ++ (es.flatMap fun e => effSpecs e.2).flatMap nameKeyOf ∧
    (parserAfter pa es).haveConfig = (pa.haveConfig || (es.flatMap fun e => effSpecs e.2).any hcOf) ∧
    (parserAfter pa es).haveFullname = (pa.haveFullname || (es.flatMap fun e => effSpecs e.2).any hfOf) ∧
    (parserAfter pa es).fullExt = pa.fullExt := by
  rw [parserAfter_eq]
  exact foldl_mpParser_obs _ pa

theorem parserAfter_perm (pa : Parser) (hfresh : pa.fullExt = none) (es es' : List (Bool × List Spec))
    (hp : es.Perm es') :
    EnvEq (envOf (parserAfter pa es)) (envOf (parserAfter pa es')) ∧
    (parserAfter pa es).haveConfig = (parserAfter pa es').haveConfig ∧
    (parserAfter pa es).haveFullname = (parserAfter pa es').haveFullname := by
  obtain ⟨a1, a2, a3, a4, a5⟩ := parserAfter_obs pa es
  obtain ⟨b1, b2, b3, b4, b5⟩ := parserAfter_obs pa es'
  have hl := List.Perm.flatMap_right (fun e : Bool × List Spec => effSpecs e.2) hp
  refine ⟨⟨?_, ?_⟩, ?_, ?_⟩
  · intro k
    simp only [envOf]
    rw [Bool.eq_iff_iff, List.contains_iff_mem, List.contains_iff_mem, a1, b1]
    constructor
    · rintro (h | ⟨sp, hs, hk⟩)
      · exact Or.inl h
      · exact Or.inr ⟨sp, hl.mem_iff.mp hs, hk⟩
    · rintro (h | ⟨sp, hs, hk⟩)
      · exact Or.inl h
      · exact Or.inr ⟨sp, hl.mem_iff.mpr hs, hk⟩
  · simp only [envOf, a5, b5, hfresh, Option.getD_none, a2, b2]
    exact List.Perm.append_left _ (List.Perm.flatMap_right nameKeyOf hl)
  · rw [a3, b3, perm_any hcOf hl]
  · rw [a4, b4, perm_any hfOf hl]

/-- The projection returned by `Residue` depends on the parser only through the two flags. -/
theorem residue_proj_congr (pa pb : Parser) (h1 : pa.haveConfig = pb.haveConfig)
    (h2 : pa.haveFullname = pb.haveFullname) : (pa.residue).2 = (pb.residue).2 := by
  have hstep : ∀ (st : Parser × Proj) (sp : Spec),
      residueStep st sp = (mpParser st.1 sp, match mpProj st.2 sp with | .ok s => s | .error _ => st.2) := by
    intro st sp
    unfold residueStep
    rw [makeProjection_eq]
    cases mpProj st.2 sp <;> rfl
  have hf1 : ∀ p : Parser, (mpParser p { key := dotConfig, order := .first }).haveFullname = p.haveFullname := by
    intro p
    have := (mpParser_obs p { key := dotConfig, order := .first }).2.2.2.1
    rw [this]
    simp [hfOf]
  unfold Parser.residue
  simp only [hstep]
  cases hc : pa.haveConfig <;> cases hf : pa.haveFullname <;>
    simp [← h1, ← h2, hc, hf, hf1]

/-- Operations on one projection after all parsing. -/
inductive POp
  | project (r : Res)
  | projectValues (r : Res)

/-- Run a stream of operations under a fixed parser state; returns the final projection state and
the keys returned by every operation. -/
def runOps (h : List Bytes → UInt64) (env : Env) : Proj → List POp → Proj × List (List Nat)
  | p, [] => (p, [])
  | p, .project r :: rest =>
    let (p1, k) := p.project h env r
    let (p2, ks) := runOps h env p1 rest
    (p2, [k] :: ks)
  | p, .projectValues r :: rest =>
    let (p1, k) := p.projectValues h env r
    let (p2, ks) := runOps h env p1 rest
    (p2, k :: ks)

theorem runOps_congr (h : List Bytes → UInt64) (e e' : Env) (he : EnvEq e e') (ops : List POp) (p : Proj) :
    runOps h e p ops = runOps h e' p ops := by
  induction ops generalizing p with
  | nil => rfl
  | cons op rest ih =>
    cases op with
    | project r =>
      simp only [runOps]
      have : p.project h e r = p.project h e' r := by
        unfold Proj.project; rw [populateRow_congr e e' he p r]
      rw [this, ih]
    | projectValues r =>
      simp only [runOps]
      have : p.projectValues h e r = p.projectValues h e' r := by
        unfold Proj.projectValues; rw [populateRow_congr e e' he p r]
      rw [this, ih]

/-! ### The shared-state model (`World`) reads the parser exactly through `envOf` -/

theorem world_env_spec (w : World) (i : Nat) :
    (w.env i).2.configKeys = w.parser.configKeys ∧
    ((w.env i).2.exclude = (envOf w.parser).exclude ∨ (w.env i).2.exclude = []) ∧
    ((∃ p, w.projs[i]? = some p ∧ hasFullname p = true) → (w.env i).2.exclude = (envOf w.parser).exclude) ∧
    envOf (w.env i).1.parser = envOf w.parser ∧ (w.env i).1.projs = w.projs := by
  unfold World.env envOf
  cases hp : w.projs[i]? with
  | none => simp
  | some p =>
    cases hu : hasFullname p <;> simp [hu]

end C08
