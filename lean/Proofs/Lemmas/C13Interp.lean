/-
C13: float64 facts about the interpolation `a + frac·(b − a)` of moremath's `Quantile`:
for frac = 0 (odd sample sizes) it returns `a` bit-exactly as long as b − a is finite.
-/
import Proofs.Lemmas.C13F64Inst
import Proofs.Lemmas.C13Nothing

namespace C13
open F64 Math

set_option exponentiation.threshold 2000

theorem isInf_of_finite (x : Bits) (h : isFinite x = true) : isInf x = false := by
  unfold isFinite at h; unfold isInf
  have : (expField x == 2047) = false := by simpa using h
  rw [this]; rfl

/-- `0 * d` is a zero for finite d -/
theorem mul_zero_left (d : Bits) (hd : isFinite d = true) : F64.mul posZero d = zero (signBit d) := by
  have h1 : isNaN posZero = false := by decide
  have h2 : isInf posZero = false := by decide
  have h3 : isZero posZero = true := by decide
  have h4 : signBit posZero = false := by decide
  unfold F64.mul
  simp only [h1, isFinite_not_nan d hd, h2, isInf_of_finite d hd, h3, h4, Bool.or_self, Bool.false_eq_true,
    if_false, Bool.true_or, if_true]
  cases signBit d <;> rfl

theorem expo_ge (a : Bits) : -1074 ≤ expo a := by
  rw [expo_eq]; split <;> omega

theorem neg_pattern (a : Bits) (hs : signBit a = true) : absB a ||| negZero = a := by
  rw [← UInt64.toNat_inj, or_negZero_toNat _ (by rw [absB_toNat]; exact magOf_lt a), absB_toNat, toNat_eq a, hs]
  simp

theorem pos_pattern (a : Bits) (hs : signBit a = false) : absB a = a := by
  rw [← UInt64.toNat_inj, absB_toNat, toNat_eq a, hs]; simp

/-- `a + (±0) = a` for finite a other than −0 -/
theorem add_zero_right (a z : Bits) (ha : isFinite a = true) (hane : a ≠ negZero)
    (hz : z = posZero ∨ z = negZero) : F64.add a z = a := by
  have zn : isNaN z = false := by rcases hz with rfl | rfl <;> decide
  have zi : isInf z = false := by rcases hz with rfl | rfl <;> decide
  have zm : mant z = 0 := by rcases hz with rfl | rfl <;> decide
  have ze : expo z = -1074 := by rcases hz with rfl | rfl <;> decide
  have hge := expo_ge a
  have he : (if expo a ≤ expo z then expo a else expo z) = -1074 := by
    rw [ze]; split <;> omega
  unfold F64.add
  simp only [isFinite_not_nan a ha, zn, isInf_of_finite a ha, zi, Bool.or_self, Bool.false_eq_true, if_false, he, zm,
    Nat.zero_mul, Int.natCast_zero]
  have hsb : (if signBit z = true then -(0 : Int) else 0) = 0 := by split <;> rfl
  rw [hsb, Int.add_zero]
  set ia : Nat := mant a * 2 ^ (expo a - -1074).toNat with hia
  by_cases hm : mant a = 0
  · -- a is a zero, hence +0
    have hmag : magOf a = 0 := by
      have hme := mant_eq a; have := fracField_lt a
      unfold magOf; rw [hm] at hme; split at hme <;> omega
    have hsa : signBit a = false := by
      cases h : signBit a
      · rfl
      · exfalso; apply hane
        rw [← UInt64.toNat_inj, toNat_eq a, h, hmag]; decide
    have ha0 : a = posZero := by
      rw [← UInt64.toNat_inj, toNat_eq a, hsa, hmag]; decide
    have : ia = 0 := by rw [hia, hm]; simp
    have hsp : signBit posZero = false := by decide
    simp [this, ha0, hsp]
  · have hiapos : 0 < ia := by
      rw [hia]; exact Nat.mul_pos (Nat.pos_of_ne_zero hm) (Nat.pos_of_ne_zero (by positivity))
    have hmagpos : 0 < magOf a := by
      have hme := mant_eq a
      unfold magOf
      by_contra hc
      have h00 : expField a = 0 ∧ fracField a = 0 := by omega
      rw [h00.1, h00.2] at hme
      simp at hme
      exact hm hme
    have px := posFin_absB a hmagpos ((isFinite_iff a).mp ha)
    have hround : roundMag (toFrac ia (-1074)).1 (toFrac ia (-1074)).2 = absB a := by
      apply roundMag_exactQ (absB a) px _ _ (toFrac_snd_pos _ _)
      rw [toFrac_ratio, val_absB]
      unfold val
      rw [hia]
      push_cast
      have hk : (expo a - -1074).toNat = expo a + 1074 := by omega
      rw [mul_assoc, ← zpow_natCast (2 : ℚ), hk, ← zpow_add₀ (by norm_num : (2 : ℚ) ≠ 0)]
      congr 2
      omega
    cases hsa : signBit a
    · have hne : ¬ ((ia : Int) == 0) = true := by simp; omega
      have hlt : ¬ ((ia : Int) < 0) := by omega
      simp only [hsa, Bool.false_eq_true, if_false, hne, hlt, decide_false, Int.natAbs_natCast]
      unfold roundRat
      simp only [hround, Bool.false_eq_true, if_false]
      exact pos_pattern a hsa
    · have hne : ¬ ((-(ia : Int)) == 0) = true := by simp; omega
      have hlt : (-(ia : Int)) < 0 := by omega
      simp only [hsa, if_true, hne, if_false, hlt, decide_true, Int.natAbs_neg, Int.natAbs_natCast]
      unfold roundRat
      simp only [hround, if_true]
      exact neg_pattern a hsa

/-- **interp_zero** — `a + 0·(b − a) = a` bit-exactly whenever b − a is finite (X1 is exactly the
failure of this hypothesis) -/
theorem interp_zero (a b : Bits) (ha : isFinite a = true) (hane : a ≠ negZero)
    (hd : isFinite (F64.sub b a) = true) : Val.interp a b posZero = a := by
  show F64.add a (F64.mul posZero (F64.sub b a)) = a
  rw [mul_zero_left _ hd]
  apply add_zero_right a _ ha hane
  unfold zero; split
  · right; rfl
  · left; rfl

/-! ### shape of `assumeNothing.Summary` given the median (any value arithmetic) -/

theorem summary_shape {α : Type} [Val α] (s : Sample α) (conf : Bits) (ci : Nothing.QCI) (tab : List (Nat × Nat))
    (q : α) (hq : Nothing.quantileHalf s.values = some q)
    (hlo : ci.loOrder ≤ s.values.length) (hhi : 1 ≤ ci.hiOrder) :
    ∃ r, Nothing.summary s conf ci tab = some r ∧ r.center = q ∧
      (ci.loOrder < 1 → r.lo = .negInf) ∧
      (1 ≤ ci.loOrder → ∃ a, s.values[ci.loOrder - 1]? = some a ∧ r.lo = .fin a) ∧
      (ci.hiOrder - 1 ≥ s.values.length → r.hi = .posInf) ∧
      (ci.hiOrder - 1 < s.values.length → ∃ a, s.values[ci.hiOrder - 1]? = some a ∧ r.hi = .fin a) ∧
      r.confidence = ci.confidence ∧
      (r.warnings ≠ [] ↔ (r.lo = .negInf ∨ r.hi = .posInf)) := by
  obtain ⟨xs, t⟩ := s
  simp only at hq hlo ⊢
  unfold Nothing.summary Nothing.sampleCI
  simp only [hq]
  have hhi0 : (ci.hiOrder == 0) = false := by simp; omega
  simp only [hhi0]
  by_cases hl : ci.loOrder < 1
  · by_cases hh : ci.hiOrder - 1 ≥ xs.length
    · simp only [hl, hh, if_true]
      refine ⟨_, rfl, rfl, fun _ => rfl, (by intro h; first | omega | exact False.elim h), fun _ => rfl, (by intro h; first | omega | exact False.elim h), rfl, ?_⟩
      simp [Ext.isInf]
    · have hlt : ci.hiOrder - 1 < xs.length := by omega
      simp only [hl, hh, if_true, if_false, List.getElem?_eq_getElem hlt, Option.map_some]
      refine ⟨_, rfl, rfl, fun _ => rfl, (by intro h; first | omega | exact False.elim h), (by intro h; first | omega | exact False.elim h), fun _ => ⟨_, rfl, rfl⟩, rfl, ?_⟩
      simp [Ext.isInf]
  · have hllt : ci.loOrder - 1 < xs.length := by omega
    by_cases hh : ci.hiOrder - 1 ≥ xs.length
    · simp only [hl, hh, if_true, if_false, List.getElem?_eq_getElem hllt, Option.map_some]
      refine ⟨_, rfl, rfl, (by intro h; first | omega | exact False.elim h), fun _ => ⟨_, rfl, rfl⟩, fun _ => rfl, (by intro h; first | omega | exact False.elim h), rfl, ?_⟩
      simp [Ext.isInf]
    · have hlt : ci.hiOrder - 1 < xs.length := by omega
      simp only [hl, hh, if_false, List.getElem?_eq_getElem hllt, List.getElem?_eq_getElem hlt, Option.map_some]
      refine ⟨_, rfl, rfl, (by intro h; first | omega | exact False.elim h), fun _ => ⟨_, rfl, rfl⟩, (by intro h; first | omega | exact False.elim h), fun _ => ⟨_, rfl, rfl⟩, rfl, ?_⟩
      simp [Ext.isInf]

/-- order statistics of a list sorted by exact value -/
theorem sorted_get?_le (xs : List Bits) (h : xs.Pairwise (fun a b => sval a ≤ sval b)) (i j : Nat) (hij : i ≤ j)
    (a b : Bits) (ha : xs[i]? = some a) (hb : xs[j]? = some b) : sval a ≤ sval b := by
  obtain ⟨hi, rfl⟩ := List.getElem?_eq_some_iff.mp ha
  obtain ⟨hj, rfl⟩ := List.getElem?_eq_some_iff.mp hb
  rcases Nat.lt_or_eq_of_le hij with hlt | heq
  · exact (List.pairwise_iff_getElem.mp h) i j hi hj hlt
  · subst heq; exact le_refl _

/-- for odd sample sizes the float64 `Quantile(0.5)` is the middle value, bit-exactly, provided the
difference of the two order statistics it touches is finite -/
theorem quantileHalf_odd_f64 (xs : List Bits) (h1 : 1 ≤ xs.length) (h70 : xs.length ≤ 70)
    (hodd : xs.length % 2 = 1) (hc : ∀ v ∈ xs, Canon v)
    (hfin : ∀ a b, xs[xs.length / 2]? = some a → xs[xs.length / 2 + 1]? = some b →
      isFinite (F64.sub b a) = true) :
    Nothing.quantileHalf xs = xs[xs.length / 2]? := by
  cases xs with
  | nil => simp at h1
  | cons x0 tl =>
    unfold Nothing.quantileHalf
    simp only [median_index _ h1 h70, hodd, if_true]
    have hk0 : ((x0 :: tl).length + 1) / 2 ≠ 0 := by simp
    simp only [beq_iff_eq, hk0, if_false]
    by_cases hone : ((x0 :: tl).length + 1) / 2 ≥ (x0 :: tl).length
    · have hl : tl.length = 0 := by simp at hone; omega
      have : tl = [] := List.eq_nil_of_length_eq_zero hl
      subst this
      simp
    · simp only [hone, if_false]
      have e : ((x0 :: tl).length + 1) / 2 - 1 = (x0 :: tl).length / 2 := by omega
      have e2 : ((x0 :: tl).length + 1) / 2 = (x0 :: tl).length / 2 + 1 := by omega
      have hk : (x0 :: tl).length / 2 + 1 < (x0 :: tl).length := by omega
      have hk' : (x0 :: tl).length / 2 < (x0 :: tl).length := by omega
      rw [e, e2, List.getElem?_eq_getElem hk, List.getElem?_eq_getElem hk']
      simp only
      have ca := hc _ (List.getElem_mem hk')
      rw [interp_zero _ _ ca.1 ca.2
        (hfin _ _ (List.getElem?_eq_getElem hk') (List.getElem?_eq_getElem hk))]

/-- for even sample sizes the float64 `Quantile(0.5)` is `a + 0.5·(b − a)` evaluated in float64 on
the two middle values -/
theorem quantileHalf_even_f64 (xs : List Bits) (h2 : 2 ≤ xs.length) (h70 : xs.length ≤ 70)
    (heven : xs.length % 2 = 0) (a b : Bits) (ha : xs[xs.length / 2 - 1]? = some a)
    (hb : xs[xs.length / 2]? = some b) :
    Nothing.quantileHalf xs = some (F64.add a (F64.mul half (F64.sub b a))) := by
  cases xs with
  | nil => simp at h2
  | cons x0 tl =>
    unfold Nothing.quantileHalf
    have hne : ¬ ((x0 :: tl).length % 2 = 1) := by omega
    simp only [median_index _ (by omega) h70, hne, if_false]
    have e : ((x0 :: tl).length + 1) / 2 = (x0 :: tl).length / 2 := by omega
    have hk0 : (x0 :: tl).length / 2 ≠ 0 := by omega
    have hone : ¬ ((x0 :: tl).length / 2 ≥ (x0 :: tl).length) := by omega
    simp only [e, beq_iff_eq, hk0, if_false, hone, ha, hb]
    rfl

end C13
