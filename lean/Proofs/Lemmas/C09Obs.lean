/-
Helper lemmas for C09 `first_order_is_observation_order`: the rank map of a `first` field is the
list of its distinct values in order of first observation, numbered 0,1,2,…
-/
import Proofs.Lemmas.C08Inv
import Proofs.Lemmas.C08Val

namespace C09
open Proc.Sort Proc.Projection Proc.Extract C08

/-- The distinct values of a sequence in order of first occurrence. -/
def firstOcc (l : List Bytes) : List Bytes :=
  l.foldl (fun acc v => if acc.contains v then acc else acc ++ [v]) []

theorem firstOcc_snoc (s : List Bytes) (v : Bytes) :
    firstOcc (s ++ [v]) = if v ∈ firstOcc s then firstOcc s else firstOcc s ++ [v] := by
  simp [firstOcc, List.foldl_append]

theorem get?_zipIdx (l : List Bytes) (k : Nat) (v : Bytes) :
    RankMap.get? (l.zipIdx k) v = if v ∈ l then some (k + l.idxOf v) else none := by
  induction l generalizing k with
  | nil => simp [RankMap.get?]
  | cons x xs ih =>
    by_cases hx : x = v
    · subst hx; simp [RankMap.get?, List.find?_cons]
    · have hb : (x == v) = false := by simpa using hx
      have hne : ¬ v = x := fun e => hx e.symm
      have ih' := ih (k + 1)
      simp only [RankMap.get?] at ih' ⊢
      simp only [List.zipIdx_cons, List.find?_cons, hb, ih', List.mem_cons, hne, false_or,
        List.idxOf_cons, cond_false]
      by_cases hm : v ∈ xs
      · simp [hm]; omega
      · simp [hm]

/-- `if _, ok := order[v]; !ok { order[v] = len(order) }` on a map that numbers a duplicate-free
list of values 0,1,2,… appends `v` if it is new. -/
theorem observe_zipIdx (L : List Bytes) (v : Bytes) :
    RankMap.observe (L.zipIdx) v = (if v ∈ L then L else L ++ [v]).zipIdx := by
  unfold RankMap.observe
  rw [get?_zipIdx]
  by_cases hm : v ∈ L
  · simp [hm]
  · simp [hm, List.zipIdx_append]

theorem get_zipIdx (L : List Bytes) (v : Bytes) (hv : v ∈ L) : RankMap.get (L.zipIdx) v = L.idxOf v := by
  unfold RankMap.get
  rw [get?_zipIdx]
  simp [hv]

/-- Values of field index `idx` over the key nodes in allocation (= first observation) order. -/
def obsSeq (p : Proj) (idx : Nat) : List Bytes := p.nodes.map fun n => getVal n.vals idx

/-- Rank invariant: the order map of every `first` field numbers the field's distinct values in
order of first observation (over all keys, with "" for keys made before the field existed). -/
def RInv (p : Proj) : Prop :=
  ∀ f ∈ p.flat, f.order = .first → f.ranks = (firstOcc (obsSeq p f.idx)).zipIdx

theorem firstOcc_all_empty (n : Nat) :
    firstOcc (List.replicate n ([] : Bytes)) = if n = 0 then [] else [[]] := by
  induction n with
  | zero => rfl
  | succ k ih =>
    rw [List.replicate_succ', firstOcc_snoc, ih]
    cases k <;> simp

theorem RInv_of_Ext (h : List Bytes → UInt64) {p q : Proj} (e : Ext p q) (hi : NInv h p) (hr : RInv p) :
    RInv q := by
  intro f hf ho
  have hobs : obsSeq q f.idx = obsSeq p f.idx := by unfold obsSeq; rw [e.nodes]
  rcases e.flatNew f hf with hp | ⟨hidx, hranks⟩
  · rw [hobs]; exact hr f hp ho
  · rw [hobs, hranks ho]
    have hrep : obsSeq p f.idx = List.replicate p.nodes.length [] := by
      unfold obsSeq
      apply List.eq_replicate_iff.mpr
      refine ⟨by simp, ?_⟩
      intro b hb
      obtain ⟨n, hn, rfl⟩ := List.mem_map.mp hb
      exact getVal_of_le _ _ (Nat.le_trans (hi.len n hn) hidx)
    rw [hrep, firstOcc_all_empty]
    cases hn : p.nodes with
    | nil => simp
    | cons a b => simp

theorem internRow_RInv (h : List Bytes → UInt64) (p : Proj) (hr : RInv p) : RInv (p.internRow h).1 := by
  unfold Proj.internRow
  dsimp only
  split
  · exact hr
  · intro f' hf' ho
    simp only [Proj.flat] at hf'
    rw [flat_mapFields] at hf'
    obtain ⟨f, hf, rfl⟩ := List.mem_map.mp hf'
    have hsame := observeField_same (trim p.row) f
    rw [hsame.2.2] at ho
    have hranks : (observeField (trim p.row) f).ranks =
        RankMap.observe f.ranks (getVal (trim p.row) f.idx) := by
      unfold observeField; rw [ho]
    have hobs : obsSeq { p with top := p.top.map (Top.mapFields (observeField (trim p.row))),
                                nodes := p.nodes ++ [{ hash := h (trim p.row), vals := trim p.row }] }
          (observeField (trim p.row) f).idx = obsSeq p f.idx ++ [getVal (trim p.row) f.idx] := by
      simp [obsSeq, hsame.1]
    rw [hobs, firstOcc_snoc, hranks, hr f hf ho, observe_zipIdx]

/-- Invariant + rank invariant. -/
structure Inv2 (h : List Bytes → UInt64) (p : Proj) : Prop where
  inv : Inv h p
  ranks : RInv p

theorem project_inv2 (h : List Bytes → UInt64) (env : Env) (p : Proj) (r : Res) (hi : Inv2 h p) :
    Inv2 h (p.project h env r).1 := by
  refine ⟨project_inv h env p r hi.inv, ?_⟩
  obtain ⟨_, e1⟩ := populateRow_good env p r hi.inv.f
  exact internRow_RInv h _ (RInv_of_Ext h e1 hi.inv.n hi.ranks)

theorem projectUnits_inv2 (h : List Bytes → UInt64) (ui : Nat) (us : List Bytes) (p : Proj) (hi : Inv2 h p) :
    Inv2 h (projectUnits h ui p us).1 := by
  induction us generalizing p with
  | nil => exact hi
  | cons u rest ih =>
    simp only [projectUnits]
    apply ih
    have hinv : Inv h { p with row := p.row.set ui u } :=
      ⟨setRow_FInv p _ _ hi.inv.f, NInv_of_Ext h (setRow_Ext p _ _) hi.inv.n⟩
    exact ⟨internRow_inv h _ hinv, internRow_RInv h _ (RInv_of_Ext h (setRow_Ext p ui u) hi.inv.n hi.ranks)⟩

theorem projectValues_inv2 (h : List Bytes → UInt64) (env : Env) (p : Proj) (r : Res) (hi : Inv2 h p) :
    Inv2 h (p.projectValues h env r).1 := by
  obtain ⟨_, e1⟩ := populateRow_good env p r hi.inv.f
  have h1 : Inv2 h (p.populateRow env r) :=
    ⟨populateRow_inv h env p r hi.inv, RInv_of_Ext h e1 hi.inv.n hi.ranks⟩
  unfold Proj.projectValues
  dsimp only
  split
  · exact ⟨internRow_inv h _ h1.inv, internRow_RInv h _ h1.ranks⟩
  · exact projectUnits_inv2 h _ _ _ h1

/-! ### Freshly parsed projections have empty order maps -/

def AllEmpty (s : Proj) : Prop := ∀ f ∈ s.flat, f.ranks = []

theorem addRootField_AllEmpty (s : Proj) (name : Bytes) (o : Order) (h : AllEmpty s) :
    AllEmpty (s.addRootField name o).1 := by
  intro f hf
  simp only [Proj.addRootField, Proj.flat, flat_append, List.mem_append] at hf
  rcases hf with hf | hf
  · exact h f hf
  · simp [Top.flat] at hf; subst hf; rfl

theorem makeProjection_AllEmpty (pa : Parser) (s : Proj) (sp : Spec) (pa' : Parser) (s' : Proj)
    (h : AllEmpty s) (hm : makeProjection pa s sp = (pa', .ok s')) : AllEmpty s' := by
  unfold makeProjection at hm
  split at hm
  · simp at hm
  split at hm
  · split at hm
    · simp at hm
    · simp only [Proj.addGroup, Prod.mk.injEq, Except.ok.injEq] at hm
      obtain ⟨_, rfl⟩ := hm
      intro f hf
      simp only [Proj.flat, flat_append, List.mem_append] at hf
      rcases hf with hf | hf
      · exact h f hf
      · simp [Top.flat] at hf
  · split at hm
    · simp only [Prod.mk.injEq, Except.ok.injEq] at hm
      obtain ⟨_, rfl⟩ := hm
      exact addRootField_AllEmpty s _ _ h
    · split at hm
      · simp at hm
      · dsimp only at hm
        by_cases he : sp.key.isEmpty = true
        · rw [if_pos he] at hm; simp at hm
        · rw [if_neg he] at hm
          simp only [Prod.mk.injEq, Except.ok.injEq] at hm
          obtain ⟨_, rfl⟩ := hm
          exact addRootField_AllEmpty s _ _ h

theorem parseParts_AllEmpty (specs : List Spec) (pa : Parser) (s : Proj) (pa' : Parser) (s' : Proj)
    (h : AllEmpty s) (hm : parseParts pa s specs = (pa', .ok s')) : AllEmpty s' := by
  induction specs generalizing pa s with
  | nil => simp [parseParts] at hm; obtain ⟨_, rfl⟩ := hm; exact h
  | cons sp rest ih =>
    unfold parseParts at hm
    split at hm
    · rename_i p1 s1 heq
      exact ih p1 s1 (makeProjection_AllEmpty pa s sp p1 s1 h heq) hm
    · simp at hm

theorem RInv_of_AllEmpty (p : Proj) (h : AllEmpty p) (hn : p.nodes = []) : RInv p := by
  intro f hf _
  rw [h f hf]
  simp [obsSeq, hn, firstOcc]

theorem residueStep_AllEmpty (st : Parser × Proj) (sp : Spec) (h : AllEmpty st.2) :
    AllEmpty (residueStep st sp).2 := by
  unfold residueStep
  cases hm : makeProjection st.1 st.2 sp with
  | mk p e =>
    cases e with
    | ok s' => exact makeProjection_AllEmpty st.1 st.2 sp p s' h hm
    | error e => exact h

theorem residue_AllEmpty (pa : Parser) : AllEmpty (pa.residue).2 := by
  unfold Parser.residue
  have h0 : AllEmpty (pa, newProjection).2 := by intro f hf; simp [newProjection, Proj.flat] at hf
  have h1 : ∀ st : Parser × Proj, AllEmpty st.2 → ∀ (b : Bool) (sp : Spec),
      AllEmpty (if b then residueStep st sp else st).2 := by
    intro st hst b sp
    cases b
    · simpa using hst
    · simpa using residueStep_AllEmpty st sp hst
  have h2 := h1 _ h0 (!pa.haveConfig) { key := dotConfig, order := .first }
  exact h1 _ h2 (!(if (!pa.haveConfig) = true then residueStep (pa, newProjection) { key := dotConfig, order := .first } else (pa, newProjection)).1.haveFullname) { key := dotFullname, order := .first }

theorem reachable_inv2 (h : List Bytes → UInt64) (p : Proj) (hr : Reachable h p) : Inv2 h p := by
  induction hr with
  | parsed pa specs pa' s hm =>
    have hi := parse_inv h pa specs pa' s hm
    obtain ⟨_, hn⟩ := parseParts_FInv specs pa newProjection pa' s newProjection_FInv (C08.parse_ok _ _ _ _ hm)
    refine ⟨hi, RInv_of_AllEmpty s (parseParts_AllEmpty specs pa newProjection pa' s ?_ (C08.parse_ok _ _ _ _ hm)) (by rw [hn]; rfl)⟩
    intro f hf; simp [newProjection, Proj.flat] at hf
  | parsedWithUnit pa specs pa' s hm =>
    have hi := parseWithUnit_inv h pa specs pa' s hm
    refine ⟨hi, ?_⟩
    unfold Parser.parseWithUnit at hm
    split at hm
    · rename_i p1 s1 heq
      obtain ⟨_, hn⟩ := parseParts_FInv specs pa newProjection p1 s1 newProjection_FInv (C08.parse_ok _ _ _ _ heq)
      have ha : AllEmpty s1 := parseParts_AllEmpty specs pa newProjection p1 s1
        (by intro f hf; simp [newProjection, Proj.flat] at hf) (C08.parse_ok _ _ _ _ heq)
      simp only [Prod.mk.injEq, Except.ok.injEq] at hm
      obtain ⟨_, rfl⟩ := hm
      apply RInv_of_AllEmpty
      · exact addRootField_AllEmpty s1 _ _ ha
      · simp [Proj.addRootField, hn, newProjection]
    · rename_i hne
      cases hp : pa.parse specs with
      | mk p1 e =>
        cases e with
        | ok s1 => exact absurd hp (hne p1 s1)
        | error e => rw [hp] at hm; simp at hm
  | residue pa =>
    have hi := residue_inv h pa
    exact ⟨hi, RInv_of_AllEmpty _ (residue_AllEmpty pa) (residue_FInv_nodes pa).2⟩
  | project p env r _ ih => exact project_inv2 h env p r ih
  | projectValues p env r _ ih => exact projectValues_inv2 h env p r ih

theorem mem_foldl_firstOcc (l acc : List Bytes) (v : Bytes) :
    v ∈ l.foldl (fun acc v => if acc.contains v then acc else acc ++ [v]) acc ↔ v ∈ acc ∨ v ∈ l := by
  induction l generalizing acc with
  | nil => simp
  | cons x xs ih =>
    rw [List.foldl_cons, ih]
    by_cases hx : x ∈ acc
    · simp only [List.contains_iff_mem, hx, if_true, List.mem_cons]
      constructor
      · rintro (h | h)
        · exact Or.inl h
        · exact Or.inr (Or.inr h)
      · rintro (h | h | h)
        · exact Or.inl h
        · exact Or.inl (h ▸ hx)
        · exact Or.inr h
    · simp only [List.contains_iff_mem, hx, if_false, List.mem_append, List.mem_cons, List.not_mem_nil, or_false]
      constructor
      · rintro ((h | h) | h)
        · exact Or.inl h
        · exact Or.inr (Or.inl h)
        · exact Or.inr (Or.inr h)
      · rintro (h | h | h)
        · exact Or.inl (Or.inl h)
        · exact Or.inl (Or.inr h)
        · exact Or.inr h

theorem mem_firstOcc (s : List Bytes) (v : Bytes) : v ∈ firstOcc s ↔ v ∈ s := by
  unfold firstOcc
  rw [mem_foldl_firstOcc]
  simp

/-- The order of first occurrence among the distinct values is the order of first occurrence in
the raw sequence. -/
theorem firstOcc_idxOf_lt : ∀ (s : List Bytes) (v w : Bytes), v ∈ s → w ∈ s →
    ((firstOcc s).idxOf v < (firstOcc s).idxOf w ↔ s.idxOf v < s.idxOf w) := by
  intro s
  refine snoc_induction (P := fun s => ∀ (v w : Bytes), v ∈ s → w ∈ s →
    ((firstOcc s).idxOf v < (firstOcc s).idxOf w ↔ s.idxOf v < s.idxOf w)) ?_ ?_ s
  · intro v w hv; simp at hv
  · intro s x ih v w hv hw
    rw [firstOcc_snoc]
    simp only [List.idxOf_append]
    have hlen : ∀ a, a ∈ firstOcc s → (firstOcc s).idxOf a < (firstOcc s).length :=
      fun a ha => List.idxOf_lt_length_of_mem ha
    have hlen' : ∀ a, a ∈ s → s.idxOf a < s.length := fun a ha => List.idxOf_lt_length_of_mem ha
    by_cases hvs : v ∈ s <;> by_cases hws : w ∈ s
    · have hvF := (mem_firstOcc s v).mpr hvs
      have hwF := (mem_firstOcc s w).mpr hws
      by_cases hx : x ∈ firstOcc s
      · simp only [hx, if_true, hvs, hws]; exact ih v w hvs hws
      · simp only [hx, if_false, List.idxOf_append, hvF, hwF, if_true, hvs, hws]; exact ih v w hvs hws
    · have hwx : w = x := by
        simp only [List.mem_append, List.mem_singleton] at hw
        rcases hw with h | h
        · exact absurd h hws
        · exact h
      subst hwx
      have hxF : w ∉ firstOcc s := fun h => hws ((mem_firstOcc s w).mp h)
      have hvF := (mem_firstOcc s v).mpr hvs
      have a := hlen v hvF
      have b := hlen' v hvs
      simp [hxF, hvF, hvs, hws, List.idxOf_append]
      omega
    · have hvx : v = x := by
        simp only [List.mem_append, List.mem_singleton] at hv
        rcases hv with h | h
        · exact absurd h hvs
        · exact h
      subst hvx
      have hxF : v ∉ firstOcc s := fun h => hvs ((mem_firstOcc s v).mp h)
      have hwF := (mem_firstOcc s w).mpr hws
      have a := hlen w hwF
      have b := hlen' w hws
      simp [hxF, hwF, hvs, hws, List.idxOf_append]
      omega
    · have hvx : v = x := by
        simp only [List.mem_append, List.mem_singleton] at hv
        rcases hv with h | h
        · exact absurd h hvs
        · exact h
      have hwx : w = x := by
        simp only [List.mem_append, List.mem_singleton] at hw
        rcases hw with h | h
        · exact absurd h hws
        · exact h
      subst hvx; subst hwx
      simp

/-! ### The stream of projected results -/

/-- Interning a row extends the per-field sequence of node values by at most that row's value, and
in a way that keeps "distinct values in order of first occurrence" in step with the stream. -/
theorem internRow_obs (h : List Bytes → UInt64) (p : Proj) (i : Nat) (S : List Bytes)
    (hS : firstOcc S = firstOcc (obsSeq p i)) :
    firstOcc (S ++ [getVal p.row i]) = firstOcc (obsSeq (p.internRow h).1 i) := by
  obtain ⟨_, _, _, _, _, hn, hk, hv⟩ := internRow_spec h p
  rcases hn with hn | ⟨hn, _⟩
  · -- the row is already a node: its value is already among the observed ones
    have hobs : obsSeq (p.internRow h).1 i = obsSeq p i := by unfold obsSeq; rw [hn]
    rw [hobs, firstOcc_snoc, hS]
    have hmem : getVal p.row i ∈ obsSeq p i := by
      rw [hn] at hk
      have hvv : (p.internRow h).1.vals (p.internRow h).2 = p.nodes[(p.internRow h).2].vals := by
        simp [Proj.vals, hn, List.getElem?_eq_getElem hk]
      unfold obsSeq
      refine List.mem_map.mpr ⟨p.nodes[(p.internRow h).2], List.getElem_mem hk, ?_⟩
      rw [← hvv, hv, getVal_trim]
    rw [if_pos ((mem_firstOcc _ _).mpr hmem)]
  · have hobs : obsSeq (p.internRow h).1 i = obsSeq p i ++ [getVal p.row i] := by
      unfold obsSeq; rw [hn]; simp [getVal_trim]
    rw [hobs, firstOcc_snoc, firstOcc_snoc, hS]

/-- A stream of `Project` calls (each under whatever the parser state is then); returns the final
state and the populated row of every call. -/
def runProjects (h : List Bytes → UInt64) : Proj → List (Env × Res) → Proj × List (List Bytes)
  | p, [] => (p, [])
  | p, (env, r) :: rest =>
    ((runProjects h ((p.populateRow env r).internRow h).1 rest).1,
     (p.populateRow env r).row :: (runProjects h ((p.populateRow env r).internRow h).1 rest).2)

theorem populateRow_nodes (env : Env) (p : Proj) (r : Res) : (p.populateRow env r).nodes = p.nodes := by
  have hstep : ∀ (pos : Nat) (o : Order) (q : Proj) (c : Bytes × Bytes × Bool),
      (configStep env pos o q c).nodes = q.nodes := by
    intro pos o q c
    unfold configStep
    split
    · rfl
    · split
      · rfl
      · split <;> rfl
  have hpart : ∀ (q : Proj) (part : Part), (runPart env r q part).nodes = q.nodes := by
    intro q part
    cases part with
    | config pos o =>
      simp only [runPart]
      generalize r.config = cfgs
      induction cfgs generalizing q with
      | nil => rfl
      | cons c rest ih => simp only [List.foldl_cons]; rw [ih, hstep]
    | fullname idx => rfl
    | key k idx => rfl
  unfold Proj.populateRow
  generalize p.parts = parts
  have : ∀ q : Proj, (parts.foldl (runPart env r) q).nodes = q.nodes := by
    induction parts with
    | nil => intro q; rfl
    | cons x rest ih => intro q; simp only [List.foldl_cons]; rw [ih, hpart]
  exact this _

theorem runProjects_obs (h : List Bytes → UInt64) (ops : List (Env × Res)) (p : Proj) (i : Nat) (S : List Bytes)
    (hS : firstOcc S = firstOcc (obsSeq p i)) :
    firstOcc (S ++ (runProjects h p ops).2.map (fun row => getVal row i)) =
      firstOcc (obsSeq (runProjects h p ops).1 i) := by
  induction ops generalizing p S with
  | nil => simpa [runProjects] using hS
  | cons op rest ih =>
    obtain ⟨env, r⟩ := op
    simp only [runProjects, List.map_cons]
    have hS' : firstOcc S = firstOcc (obsSeq (p.populateRow env r) i) := by
      rw [hS]; unfold obsSeq; rw [populateRow_nodes]
    have := ih ((p.populateRow env r).internRow h).1 (S ++ [getVal (p.populateRow env r).row i])
      (internRow_obs h (p.populateRow env r) i S hS')
    simpa using this

end C09
