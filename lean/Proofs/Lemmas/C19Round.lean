/-
C19 helper lemmas: what the Printer writes for a stream of results, the Reader reads back.
Part 1: the label difference the Printer writes, applied the way the Reader applies it, turns the
previous label set into the new one.
-/
import Model.Storage.Fmt
import Proofs.Lemmas.C19Assoc
import Proofs.Lemmas.C19Fmt

namespace C19
open Storage.Query Storage.Fmt

/-- keys the Printer unsets / pairs it (re)writes -/
def removed (prev : Labels) (r : Result) : Labels := prev.filter fun kv => (r.labels.get kv.1).isEmpty
def changed (prev : Labels) (r : Result) : Labels :=
  r.labels.filter fun kv => !kv.2.isEmpty && prev.get kv.1 != kv.2

theorem mem_removed (prev : Labels) (r : Result) (x : Bytes × Bytes) :
    x ∈ removed prev r ↔ x ∈ prev ∧ (r.labels.get x.1).isEmpty = true := List.mem_filter
theorem mem_changed (prev : Labels) (r : Result) (x : Bytes × Bytes) :
    x ∈ changed prev r ↔ x ∈ r.labels ∧ (!x.2.isEmpty && prev.get x.1 != x.2) = true := List.mem_filter

def eraseAll (l : Labels) (ks : Labels) : Labels := ks.foldl (fun a kv => a.erase kv.1) l
def setAll (l : Labels) (kvs : Labels) : Labels := kvs.foldl (fun a kv => a.set kv.1 kv.2) l

theorem get_eraseAll_mem (ks l : Labels) (k : Bytes) (h : ∃ x ∈ ks, x.1 = k) :
    Labels.get (eraseAll l ks) k = [] := by
  induction ks generalizing l with
  | nil => obtain ⟨x, hx, _⟩ := h; cases hx
  | cons y rest ih =>
    unfold eraseAll at *
    simp only [List.foldl_cons]
    by_cases hr : ∃ x ∈ rest, x.1 = k
    · exact ih _ hr
    · obtain ⟨x, hx, hk⟩ := h
      rcases List.mem_cons.mp hx with rfl | hx
      · -- erased here, and later erasures do not touch it
        subst hk
        have : ∀ (rest : Labels) (l : Labels), (¬ ∃ z ∈ rest, z.1 = x.1) → Labels.get l x.1 = [] →
            Labels.get (rest.foldl (fun a kv => a.erase kv.1) l) x.1 = [] := by
          intro rest
          induction rest with
          | nil => intro l _ h; exact h
          | cons z zs ihz =>
            intro l hz h
            simp only [List.foldl_cons]
            apply ihz
            · intro ⟨w, hw, he⟩; exact hz ⟨w, by simp [hw], he⟩
            · have hne : x.1 ≠ z.1 := fun e => hz ⟨z, by simp, e.symm⟩
              rw [get_erase_other _ _ _ hne]; exact h
        exact this rest _ hr (get_erase_self _ _)
      · exact absurd ⟨x, hx, hk⟩ hr

theorem get_eraseAll_not_mem (ks l : Labels) (k : Bytes) (h : ∀ x ∈ ks, x.1 ≠ k) :
    Labels.get (eraseAll l ks) k = Labels.get l k := by
  induction ks generalizing l with
  | nil => rfl
  | cons y rest ih =>
    unfold eraseAll at *
    simp only [List.foldl_cons]
    rw [ih _ (fun x hx => h x (by simp [hx]))]
    exact get_erase_other _ _ _ (fun e => h y (by simp) e.symm)

theorem get_setAll_not_mem (kvs l : Labels) (k : Bytes) (h : ∀ x ∈ kvs, x.1 ≠ k) :
    Labels.get (setAll l kvs) k = Labels.get l k := by
  induction kvs generalizing l with
  | nil => rfl
  | cons y rest ih =>
    unfold setAll at *
    simp only [List.foldl_cons]
    rw [ih _ (fun x hx => h x (by simp [hx]))]
    exact get_set_other _ _ _ _ (fun e => h y (by simp) e.symm)

theorem get_setAll_mem (kvs l : Labels) (hs : StrictSorted kvs) (k v : Bytes) (h : (k, v) ∈ kvs) :
    Labels.get (setAll l kvs) k = v := by
  induction kvs generalizing l with
  | nil => cases h
  | cons y rest ih =>
    unfold StrictSorted at hs
    rw [List.pairwise_cons] at hs
    unfold setAll at *
    simp only [List.foldl_cons]
    rcases List.mem_cons.mp h with rfl | h
    · have := get_setAll_not_mem rest (Labels.set l k v) k
        (fun x hx e => blt_ne _ _ (hs.1 x hx) e.symm)
      unfold setAll at this
      rw [this, get_set_self]
    · exact ih _ hs.2 h

theorem sorted_eraseAll (ks l : Labels) (h : StrictSorted l) : StrictSorted (eraseAll l ks) := by
  induction ks generalizing l with
  | nil => exact h
  | cons y rest ih => unfold eraseAll at *; simp only [List.foldl_cons]; exact ih _ (sorted_erase _ _ h)

theorem sorted_setAll (kvs l : Labels) (h : StrictSorted l) : StrictSorted (setAll l kvs) := by
  induction kvs generalizing l with
  | nil => exact h
  | cons y rest ih => unfold setAll at *; simp only [List.foldl_cons]; exact ih _ (sorted_set _ _ _ h)

theorem mem_eraseAll (ks l : Labels) (x : Bytes × Bytes) (h : x ∈ eraseAll l ks) : x ∈ l := by
  induction ks generalizing l with
  | nil => exact h
  | cons y rest ih =>
    unfold eraseAll at *
    simp only [List.foldl_cons] at h
    exact (List.mem_filter.mp (ih _ h)).1

theorem mem_setAll (kvs l : Labels) (x : Bytes × Bytes) (h : x ∈ setAll l kvs) : x ∈ l ∨ x ∈ kvs := by
  induction kvs generalizing l with
  | nil => exact Or.inl h
  | cons y rest ih =>
    unfold setAll at *
    simp only [List.foldl_cons] at h
    rcases ih _ h with h | h
    · rcases mem_set_cases _ _ _ _ h with h | h
      · exact Or.inr (h ▸ List.mem_cons_self)
      · exact Or.inl h
    · exact Or.inr (List.mem_cons_of_mem _ h)

/-- **the printed difference rebuilds the labels**: un-setting the removed keys and setting the
changed pairs, in the Printer's order, turns `prev` into the labels of the result -/
theorem apply_diff (prev : Labels) (r : Result) (hp : StrictSorted prev) (hr : StrictSorted r.labels)
    (np : ∀ x ∈ prev, x.2 ≠ []) (nr : ∀ x ∈ r.labels, x.2 ≠ []) :
    setAll (eraseAll prev (removed prev r)) (changed prev r) = r.labels := by
  have hch : StrictSorted (changed prev r) := List.Pairwise.filter _ hr
  apply labels_ext _ _ (sorted_setAll _ _ (sorted_eraseAll _ _ hp)) hr
  · intro x hx
    rcases mem_setAll _ _ _ hx with h | h
    · exact np x (mem_eraseAll _ _ _ h)
    · exact nr x ((mem_changed _ _ _).mp h).1
  · exact nr
  · intro k
    by_cases hv : Labels.get r.labels k = []
    · -- k is not a key of the result
      have hnk : ∀ x ∈ r.labels, x.1 ≠ k := by
        intro x hx e
        have := get_of_mem _ hr x.1 x.2 hx
        rw [e, hv] at this
        exact nr x hx this.symm
      rw [get_setAll_not_mem (changed prev r) _ k (fun x hx => hnk x ((mem_changed _ _ _).mp hx).1), hv]
      by_cases hpk : ∃ x ∈ prev, x.1 = k
      · obtain ⟨x, hx, hk⟩ := hpk
        apply get_eraseAll_mem
        refine ⟨x, (mem_removed _ _ _).mpr ⟨hx, ?_⟩, hk⟩
        rw [hk, hv]; rfl
      · have hpk : ∀ x ∈ prev, x.1 ≠ k := fun x hx e => hpk ⟨x, hx, e⟩
        rw [get_eraseAll_not_mem (removed prev r) _ k (fun x hx => hpk x ((mem_removed _ _ _).mp hx).1)]
        exact get_not_key _ _ hpk
    · -- k carries the value v in the result
      have hmem := get_mem _ _ hv
      by_cases hsame : Labels.get prev k = Labels.get r.labels k
      · have hnc : ∀ x ∈ changed prev r, x.1 ≠ k := by
          intro x hx e
          have hx' := (mem_changed _ _ _).mp hx
          have hxv : x.2 = Labels.get r.labels k := by
            have := get_of_mem _ hr x.1 x.2 hx'.1
            rw [e] at this; exact this.symm
          have := hx'.2
          simp only [Bool.and_eq_true, Bool.not_eq_true', bne_iff_ne, ne_eq] at this
          exact this.2 (by rw [e, hsame, hxv])
        rw [get_setAll_not_mem (changed prev r) _ k hnc]
        have hnr : ∀ x ∈ removed prev r, x.1 ≠ k := by
          intro x hx e
          have := ((mem_removed _ _ _).mp hx).2
          rw [e] at this
          exact hv (by simpa using this)
        rw [get_eraseAll_not_mem (removed prev r) _ k hnr, hsame]
      · apply get_setAll_mem _ _ hch
        refine (mem_changed _ _ _).mpr ⟨hmem, ?_⟩
        simp only [Bool.and_eq_true, Bool.not_eq_true', bne_iff_ne, ne_eq]
        exact ⟨by simpa using hv, hsame⟩

end C19
