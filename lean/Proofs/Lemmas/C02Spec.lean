/-
C02 helper lemmas: the specification's configuration map and line splitting.
-/
import Model.Spec.Format
import Proofs.Lemmas.C02Store

namespace Spec.Format
open Fmt

theorem lookup_filter_ne {β : Type} (m : List (Bytes × β)) (k k' : Bytes) :
    List.lookup k' (m.filter (fun e => !(e.1 == k))) = if k' = k then none else List.lookup k' m := by
  induction m with
  | nil => simp
  | cons e es ih =>
    obtain ⟨a, b⟩ := e
    by_cases hak : a = k
    · subst hak
      simp only [List.filter_cons, beq_self_eq_true, Bool.not_true, Bool.false_eq_true, ↓reduceIte]
      rw [ih]
      by_cases hk : k' = a
      · simp [hk]
      · have hb : (k' == a) = false := by simpa using hk
        simp [hk, List.lookup_cons, hb]
    · have : (a == k) = false := by simpa using hak
      simp only [List.filter_cons, this, Bool.not_false, ↓reduceIte, List.lookup_cons]
      by_cases hk : k' = a
      · subst hk; simp [hak]
      · have hb : (k' == a) = false := by simpa using hk
        simp only [hb]; exact ih

theorem CMap.get_del (m : CMap) (k k' : Bytes) :
    (CMap.del m k).get k' = if k' = k then none else m.get k' :=
  lookup_filter_ne m k k'

theorem CMap.get_put (m : CMap) (k v : Bytes) (f : Bool) (k' : Bytes) :
    (CMap.put m k v f).get k' = if k' = k then some (v, f) else m.get k' := by
  have h := CMap.get_del m k k'
  simp only [CMap.put, CMap.get, List.lookup_cons] at h ⊢
  by_cases hk : k' = k
  · subst hk; simp
  · have : (k' == k) = false := by simpa using hk
    simp only [this, hk, ↓reduceIte] at h ⊢
    exact h

theorem CMap.get_assign (m : CMap) (k v : Bytes) (f : Bool) (k' : Bytes) :
    (CMap.assign m k v f).get k' =
      if k' = k then (if v = [] then none else some (v, f)) else m.get k' := by
  unfold CMap.assign
  cases v with
  | nil => simp [CMap.get_del]
  | cons c cs => simp [CMap.get_put]

/-- The spec-level meaning of a store operation. -/
def CMap.applyOp (m : CMap) : StoreOp → CMap
  | .setFile k v => m.assign k v true
  | .setInternal k v => m.assign k v false
  | .delete k => m.del k

/-! ### Lines -/

theorem splitLF_ne_nil (t : Bytes) : splitLF t ≠ [] := by
  cases t with
  | nil => simp [splitLF]
  | cons c r =>
    unfold splitLF
    split
    · simp
    · split <;> simp

/-- Dropping a final empty piece. -/
def trimLast (ps : List Bytes) : List Bytes := if ps.getLast? == some [] then ps.dropLast else ps

theorem trimLast_cons (x : Bytes) (ps : List Bytes) (h : ps ≠ []) :
    trimLast (x :: ps) = x :: trimLast ps := by
  cases ps with
  | nil => exact absurd rfl h
  | cons p ps' =>
    unfold trimLast
    simp only [List.getLast?_cons_cons, List.dropLast_cons_cons]
    split <;> rfl

theorem stripCR_eq (l : Bytes) : stripCR l = dropCR l := rfl

theorem splitLinesAux_eq (cur rest : Bytes) :
    splitLinesAux cur rest =
      match splitLF rest with
      | [] => []
      | p :: ps => (trimLast ((cur.reverse ++ p) :: ps)).map dropCR := by
  induction rest generalizing cur with
  | nil =>
    simp only [splitLinesAux, splitLF, List.append_nil]
    unfold trimLast
    cases cur with
    | nil => simp
    | cons c cs =>
      have : (c :: cs).reverse ≠ [] := by simp
      simp
  | cons c rest ih =>
    unfold splitLinesAux splitLF
    by_cases hc : c = 10
    · subst hc
      simp only [beq_self_eq_true, ↓reduceIte, List.append_nil]
      rw [ih []]
      have hne := splitLF_ne_nil rest
      cases hs : splitLF rest with
      | nil => exact absurd hs hne
      | cons p ps =>
        simp only [List.reverse_nil, List.nil_append]
        rw [trimLast_cons (List.reverse cur) (p :: ps) (by simp)]
        simp
    · have hb : (c == 10) = false := by simpa using hc
      simp only [hb, Bool.false_eq_true, ↓reduceIte]
      rw [ih (c :: cur)]
      have hne := splitLF_ne_nil rest
      cases hs : splitLF rest with
      | nil => exact absurd hs hne
      | cons p ps => simp

theorem lines_eq (text : Bytes) : splitLines text = lines text := by
  unfold splitLines lines
  rw [splitLinesAux_eq]
  have hne := splitLF_ne_nil text
  cases hs : splitLF text with
  | nil => exact absurd hs hne
  | cons p ps =>
    simp only [List.reverse_nil, List.nil_append]
    unfold trimLast
    have : (fun l => stripCR l) = dropCR := rfl
    split <;> rfl

end Spec.Format
