/-
C03 — the mirrored decimal slow path, part 3: `leftShift` multiplies exactly by 2^k when it sets no
truncation flag.
-/
import Proofs.Lemmas.C03Cheat

namespace C03
open Num Spec.NumText

/-- one multiplication step -/
theorem mul_step (n : Nat) : n / 10 < n + 1 ∧ n - 10 * (n / 10) = n % 10 ∧ n % 10 < 10 ∧ 10 * (n / 10) + n % 10 = n := by
  have := Nat.div_add_mod n 10
  have := Nat.mod_lt n (show 0 < 10 by decide)
  omega

/-- first loop of leftShift: digits from the least significant one (`rds` reversed digits) -/
theorem lsMain_spec (k : Nat) : ∀ (rds : Bytes) (n : Nat) (out : Bytes), rds.all isDec = true → out.all isDec = true →
    valOf 10 (lsMain k rds n out).2 + (lsMain k rds n out).1 * 10 ^ (lsMain k rds n out).2.length =
      valOf 10 out + (n + valOf 10 rds.reverse * 2 ^ k) * 10 ^ out.length ∧
    (lsMain k rds n out).2.length = out.length + rds.length ∧ (lsMain k rds n out).2.all isDec = true ∧
    (n < 2 ^ k → (lsMain k rds n out).1 < 2 ^ k) := by
  intro rds
  induction rds with
  | nil =>
    intro n out _ ho
    have v0 : valOf 10 ([] : Bytes) = 0 := rfl
    simp only [lsMain, List.reverse_nil, v0, Nat.zero_mul, Nat.add_zero, List.length_nil]
    exact ⟨trivial, trivial, ho, fun h => h⟩
  | cons c cs ih =>
    intro n out hd ho
    rw [List.all_cons, Bool.and_eq_true] at hd
    have h9 := ((mant_byte_facts c).2.1 hd.1).2.1
    unfold lsMain
    simp only [digit_toNat c hd.1, Nat.shiftLeft_eq]
    obtain ⟨_, s2, s3, s4⟩ := mul_step (n + digVal c * 2 ^ k)
    rw [s2]
    obtain ⟨o1, o2, _⟩ := outDigit ((n + digVal c * 2 ^ k) % 10) s3
    have ho' : (UInt8.ofNat ((n + digVal c * 2 ^ k) % 10 + 48) :: out).all isDec = true := by
      rw [List.all_cons, o1, ho]; rfl
    obtain ⟨a1, a2, a3, a4⟩ := ih ((n + digVal c * 2 ^ k) / 10) _ hd.2 ho'
    refine ⟨?_, by rw [a2]; simp only [List.length_cons]; omega, a3, fun hn => a4 ?_⟩
    · rw [a1, valOf_cons10, o2, List.length_cons, List.reverse_cons, valOf_snoc, Nat.pow_succ]
      generalize hP : 10 ^ out.length = P
      generalize (n + digVal c * 2 ^ k) / 10 = q at *
      generalize (n + digVal c * 2 ^ k) % 10 = r at *
      have : (q + valOf 10 cs.reverse * 2 ^ k) * (P * 10) = (10 * q) * P + valOf 10 cs.reverse * 2 ^ k * (P * 10) := by ring
      rw [this]
      have e2 : (n + (valOf 10 cs.reverse * 10 + digVal c) * 2 ^ k) * P
          = (n + digVal c * 2 ^ k) * P + valOf 10 cs.reverse * 2 ^ k * (P * 10) := by ring
      rw [e2, ← s4]; ring
    · -- carry stays below 2^k
      have hp : 0 < 2 ^ k := Nat.pow_pos (by decide)
      have : n + digVal c * 2 ^ k < 10 * 2 ^ k := by
        have := Nat.mul_le_mul_right (2 ^ k) h9
        omega
      omega

/-- second loop: "put down extra digits" -/
theorem lsTail_spec : ∀ (fuel n : Nat) (out : Bytes), n < 10 ^ fuel → out.all isDec = true →
    valOf 10 (lsTail fuel n out) = valOf 10 out + n * 10 ^ out.length ∧
    (lsTail fuel n out).all isDec = true ∧ out.length ≤ (lsTail fuel n out).length := by
  intro fuel
  induction fuel with
  | zero =>
    intro n out hn ho
    have : n = 0 := by simpa using hn
    subst this; simp [lsTail, ho]
  | succ fuel ih =>
    intro n out hn ho
    unfold lsTail
    by_cases hpos : n > 0
    · rw [if_pos hpos]
      obtain ⟨_, s2, s3, s4⟩ := mul_step n
      simp only [s2]
      obtain ⟨o1, o2, _⟩ := outDigit (n % 10) s3
      have ho' : (UInt8.ofNat (n % 10 + 48) :: out).all isDec = true := by rw [List.all_cons, o1, ho]; rfl
      have hq : n / 10 < 10 ^ fuel := by
        rw [Nat.pow_succ] at hn
        exact (Nat.div_lt_iff_lt_mul (by decide)).mpr hn
      obtain ⟨a1, a2, a3⟩ := ih (n / 10) _ hq ho'
      refine ⟨?_, a2, by simp only [List.length_cons] at a3; omega⟩
      rw [a1, valOf_cons10, o2, List.length_cons, Nat.pow_succ]
      generalize 10 ^ out.length = P
      have : n / 10 * (P * 10) = (10 * (n / 10)) * P := by ring
      rw [this]
      calc n % 10 * P + valOf 10 out + 10 * (n / 10) * P = valOf 10 out + (10 * (n / 10) + n % 10) * P := by ring
        _ = valOf 10 out + n * P := by rw [s4]
    · have : n = 0 := by omega
      subst this
      simp [ho]

/-- the digits the second loop adds are exactly the decimal digits of the carry -/
theorem lsTail_count : ∀ (fuel n : Nat) (out : Bytes), n < 10 ^ fuel →
    ∃ t, (lsTail fuel n out).length = out.length + t ∧ (0 < n → 10 ^ (t - 1) ≤ n ∧ 1 ≤ t) ∧ (n = 0 → t = 0) := by
  intro fuel
  induction fuel with
  | zero =>
    intro n out hn
    have : n = 0 := by simpa using hn
    subst this
    exact ⟨0, by simp [lsTail], fun h => by omega, fun _ => rfl⟩
  | succ fuel ih =>
    intro n out hn
    unfold lsTail
    by_cases hpos : n > 0
    · rw [if_pos hpos]
      have hq : n / 10 < 10 ^ fuel := by
        rw [Nat.pow_succ] at hn
        exact (Nat.div_lt_iff_lt_mul (by decide)).mpr hn
      obtain ⟨t, a1, a2, a3⟩ := ih (n / 10) (UInt8.ofNat (n - 10 * (n / 10) + 48) :: out) hq
      refine ⟨t + 1, by rw [a1]; simp only [List.length_cons]; omega, fun _ => ⟨?_, by omega⟩, fun h => by omega⟩
      by_cases hq0 : n / 10 = 0
      · rw [a3 hq0]; simp; omega
      · obtain ⟨b1, b2⟩ := a2 (by omega)
        have : t + 1 - 1 = (t - 1) + 1 := by omega
        rw [this, Nat.pow_succ]
        have := Nat.div_mul_le_self n 10
        omega
    · have : n = 0 := by omega
      subst this
      exact ⟨0, by simp, fun h => by omega, fun _ => rfl⟩

/-- a digit string whose value reaches 10^(length-1) starts with a non-zero digit -/
theorem head_nonzero (ds : Bytes) (hd : ds.all isDec = true) (h : 10 ^ (ds.length - 1) ≤ valOf 10 ds) :
    ∀ c cs, ds = c :: cs → c ≠ 48 := by
  intro c cs hcs h48
  subst hcs; subst h48
  rw [List.all_cons, Bool.and_eq_true] at hd
  have := valOf_lt cs hd.2
  rw [valOf_cons10] at h
  simp only [List.length_cons, Nat.add_sub_cancel] at h
  have d0 : digVal 48 = 0 := by decide
  rw [d0] at h; omega

/-- and conversely -/
theorem valOf_ge_of_head (ds : Bytes) (c : UInt8) (cs : Bytes) (h : ds = c :: cs) (hc : isDec c = true) (h48 : c ≠ 48) :
    10 ^ (ds.length - 1) ≤ valOf 10 ds := by
  subst h
  rw [valOf_cons10]
  simp only [List.length_cons, Nat.add_sub_cancel]
  have h0 := ((mant_byte_facts c).2.1 hc).2.2.2.2
  have : 1 ≤ digVal c := by
    have : digVal c ≠ 0 := fun hz => h48 (by simpa using h0.mpr hz)
    omega
  calc 10 ^ cs.length = 1 * 10 ^ cs.length := by ring
    _ ≤ digVal c * 10 ^ cs.length := Nat.mul_le_mul_right _ this
    _ ≤ _ := Nat.le_add_right _ _

theorem pow10_unique (a b V : Nat) (ha : 1 ≤ a) (hb : 1 ≤ b) (h1 : 10 ^ (a - 1) ≤ V) (h2 : V < 10 ^ a)
    (h3 : 10 ^ (b - 1) ≤ V) (h4 : V < 10 ^ b) : a = b := by
  apply Classical.byContradiction
  intro hne
  rcases Nat.lt_or_gt_of_ne hne with h | h
  · have : 10 ^ a ≤ 10 ^ (b - 1) := Nat.pow_le_pow_right (by decide) (by omega)
    omega
  · have : 10 ^ b ≤ 10 ^ (a - 1) := Nat.pow_le_pow_right (by decide) (by omega)
    omega

theorem valOf_zeros (z : Bytes) (h : z.any (· != 48) = false) : valOf 10 z = 0 := by
  induction z with
  | nil => rfl
  | cons c cs ih =>
    rw [List.any_cons, Bool.or_eq_false_iff] at h
    have : c = 48 := by simpa using h.1
    subst this
    have d0 : digVal 48 = 0 := by decide
    rw [valOf_cons10, ih h.2, d0]; simp

theorem wf_lo (a : Dc) (hwf : WF a) (hne : a.d ≠ []) : 10 ^ (a.d.length - 1) ≤ valOf 10 a.d := by
  cases hd : a.d with
  | nil => exact absurd hd hne
  | cons c cs =>
    have hdig := hwf.dig
    rw [hd, List.all_cons, Bool.and_eq_true] at hdig
    have := valOf_ge_of_head a.d c cs hd hdig.1 (hwf.lead c cs hd)
    rw [hd] at this; exact this

/-- **leftShift(a, k) multiplies exactly by 2^k** when it sets no truncation flag
(1 ≤ k ≤ 60, a well-formed, non-zero, not truncated); in particular the cheat table predicts
the number of digits correctly, so every produced digit lands where Go writes it. -/
theorem leftShift_exact (a : Dc) (k : Nat) (hk1 : 1 ≤ k) (hk : k ≤ 60) (hwf : WF a) (hne : a.d ≠ [])
    (ht : a.trunc = false) (ht' : (leftShift a k).trunc = false) :
    dval (leftShift a k) = dval a * (2 : ℚ) ^ k ∧ WF (leftShift a k) ∧ (leftShift a k).d ≠ [] ∧
    Trimmed (leftShift a k) ∧ (leftShift a k).neg = a.neg := by
  have hlo := wf_lo a hwf hne
  obtain ⟨c1, c2, c3⟩ := cheat_digits k hk1 hk a.d hwf.dig hlo hne
  -- the two loops
  have hrd : a.d.reverse.all isDec = true := by rw [List.all_reverse]; exact hwf.dig
  obtain ⟨m1, m2, m3, m4⟩ := lsMain_spec k a.d.reverse 0 [] hrd rfl
  have hp2 : 0 < 2 ^ k := Nat.pow_pos (by decide)
  have m4' := m4 hp2
  have v0 : valOf 10 ([] : Bytes) = 0 := rfl
  simp only [List.reverse_reverse, v0, Nat.zero_add, List.length_nil, Nat.pow_zero, Nat.mul_one,
    List.length_reverse] at m1 m2
  generalize hn : (lsMain k a.d.reverse 0 []).1 = n at *
  generalize ho : (lsMain k a.d.reverse 0 []).2 = out at *
  have hn64 : n < 10 ^ 64 := by
    have : 2 ^ k ≤ 2 ^ 60 := Nat.pow_le_pow_right (by decide) hk
    have : (2 : Nat) ^ 60 < 10 ^ 64 := by decide
    omega
  obtain ⟨t1, t2, t3⟩ := lsTail_spec 64 n out hn64 m3
  obtain ⟨t, u1, u2, u3⟩ := lsTail_count 64 n out hn64
  generalize hall : lsTail 64 n out = all at *
  have hV : valOf 10 all = valOf 10 a.d * 2 ^ k := by rw [t1]; exact m1
  -- number of digits
  have hlow : 10 ^ (all.length - 1) ≤ valOf 10 all := by
    rw [u1, m2]
    by_cases hn0 : n = 0
    · rw [u3 hn0, Nat.add_zero, hV]
      calc 10 ^ (a.d.length - 1) ≤ valOf 10 a.d := hlo
        _ ≤ valOf 10 a.d * 2 ^ k := Nat.le_mul_of_pos_right _ hp2
    · obtain ⟨b1, b2⟩ := u2 (by omega)
      rw [t1, m2]
      calc 10 ^ (a.d.length + t - 1) = 10 ^ (t - 1) * 10 ^ a.d.length := by rw [← Nat.pow_add]; congr 1; omega
        _ ≤ n * 10 ^ a.d.length := Nat.mul_le_mul_right _ b1
        _ ≤ _ := Nat.le_add_left _ _
  have hup := valOf_lt all t2
  have hallpos : 1 ≤ all.length := by rw [u1, m2]; have := List.length_pos_iff.mpr hne; omega
  have hcount : all.length = a.d.length + cheatDelta k a.d := by
    apply pow10_unique _ _ (valOf 10 all) hallpos c3 hlow hup
    · rw [hV]; exact c1
    · rw [hV]; exact c2
  -- unfold the model
  have hls : leftShift a k =
      ({ a with d := (all.take bufLen).take (min (a.d.length + cheatDelta k a.d) bufLen + (all.length - (a.d.length + cheatDelta k a.d))),
                dp := a.dp + (cheatDelta k a.d : Int),
                trunc := a.trunc || (all.drop bufLen).any (· != 48) } : Dc).trim := by
    unfold leftShift cheatDelta
    simp only [hn, ho, hall]
  rw [ht, Bool.false_or] at hls
  have hdrop : (all.drop bufLen).any (· != 48) = false := by
    rw [hls] at ht'; exact ht'
  have hkept : (all.take bufLen).take (min (a.d.length + cheatDelta k a.d) bufLen + (all.length - (a.d.length + cheatDelta k a.d)))
      = all.take bufLen := by
    rw [← hcount, Nat.sub_self, Nat.add_zero]
    apply List.take_of_length_le
    rw [List.length_take]; omega
  rw [hkept, hdrop] at hls
  let b : Dc := { a with d := all.take bufLen, dp := a.dp + (cheatDelta k a.d : Int), trunc := false }
  have hb : leftShift a k = b.trim := hls
  have hsplit : all = all.take bufLen ++ all.drop bufLen := (List.take_append_drop _ _).symm
  have hVk : valOf 10 all = valOf 10 (all.take bufLen) * 10 ^ (all.drop bufLen).length := by
    conv => lhs; rw [hsplit]
    rw [valOf_append10, valOf_zeros _ hdrop, Nat.add_zero]
  have hhead := head_nonzero all t2 hlow
  have hbwf : WF b := by
    refine ⟨?_, by show (all.take bufLen).length ≤ bufLen; rw [List.length_take]; omega, ?_⟩
    · show (all.take bufLen).all isDec = true
      rw [hsplit, List.all_append, Bool.and_eq_true] at t2; exact t2.1
    · intro c cs h
      have : b.d = all.take bufLen := rfl
      rw [this] at h
      cases hal : all with
      | nil => rw [hal] at hallpos; simp at hallpos
      | cons x xs =>
        rw [hal] at h
        have hbl : bufLen = 799 + 1 := rfl
        rw [hbl, List.take_succ_cons] at h
        injection h with h _
        rw [← h]; exact hhead x xs hal
  have hbne : b.d ≠ [] := by
    show all.take bufLen ≠ []
    cases hal : all with
    | nil => rw [hal] at hallpos; simp at hallpos
    | cons x xs => have hbl : bufLen = 799 + 1 := rfl
                   rw [hbl, List.take_succ_cons]; simp
  obtain ⟨w1, w2, w3, w4, w5, _⟩ := trim_wf b hbwf hbne
  rw [hb]
  refine ⟨?_, w1, w2, w3, w5⟩
  rw [w4]
  show (valOf 10 (all.take bufLen) : ℚ) * (10 : ℚ) ^ (a.dp + (cheatDelta k a.d : Int) - ((all.take bufLen).length : Int))
      = (valOf 10 a.d : ℚ) * (10 : ℚ) ^ (a.dp - a.d.length) * (2 : ℚ) ^ k
  have hlens : (all.length : Int) = (all.take bufLen).length + (all.drop bufLen).length := by
    have := congrArg List.length hsplit
    rw [List.length_append] at this
    exact_mod_cast this
  have hcountI : (all.length : Int) = a.d.length + (cheatDelta k a.d : Int) := by exact_mod_cast hcount
  have hq : ((valOf 10 a.d * 2 ^ k : Nat) : ℚ) = ((valOf 10 (all.take bufLen) * 10 ^ (all.drop bufLen).length : Nat) : ℚ) := by
    rw [← hV, hVk]
  push_cast at hq
  have hexp : a.dp - (a.d.length : Int) = (a.dp + (cheatDelta k a.d : Int) - ((all.take bufLen).length : Int)) - ((all.drop bufLen).length : Int) := by
    omega
  generalize he1 : a.dp + (cheatDelta k a.d : Int) - ((all.take bufLen).length : Int) = e1 at hexp ⊢
  rw [hexp, zpow_sub₀ (by norm_num : (10 : ℚ) ≠ 0), zpow_natCast]
  have h10 : (10 : ℚ) ^ (all.drop bufLen).length ≠ 0 := by positivity
  generalize (10 : ℚ) ^ e1 = X
  have e : (valOf 10 a.d : ℚ) * (X / (10 : ℚ) ^ (all.drop bufLen).length) * (2 : ℚ) ^ k
      = ((valOf 10 a.d : ℚ) * (2 : ℚ) ^ k) * X / (10 : ℚ) ^ (all.drop bufLen).length := by ring
  rw [e, hq]
  field_simp

end C03
