/-
C11, untied Mann–Whitney distribution: the recurrence `pRec` of `UDist.p` counts assignments.
-/
import Model.Stats.UDist
import Model.Spec.UExact
import Proofs.Lemmas.C11Basic
import Mathlib.Data.Nat.Choose.Basic
import Mathlib.Algebra.Order.Field.Rat
import Mathlib.Algebra.BigOperators.Group.Finset.Basic
import Mathlib.Algebra.BigOperators.Intervals
import Mathlib.Algebra.BigOperators.Field
import Mathlib.Tactic.Ring
import Mathlib.Tactic.Linarith
import Mathlib.Tactic.FieldSimp
import Mathlib.Tactic.LinearCombination

namespace C11
open Stats.UDist Spec.UExact

/-! ### the recurrence multiplied by the binomial -/

theorem pRec_zero_left (m : Nat) (u : Int) : pRec 0 m u = if u = 0 then 1 else 0 := by
  rw [pRec]

theorem pRec_zero_right (n : Nat) (u : Int) : pRec n 0 u = if u = 0 then 1 else 0 := by
  cases n <;> rw [pRec]

theorem pRec_succ_succ (n m : Nat) (u : Int) :
    pRec (n + 1) (m + 1) u = if u < 0 then 0 else
      (((n + 1 : Nat) : Rat) * pRec n (m + 1) (u - ((m + 1 : Nat) : Int))
        + ((m + 1 : Nat) : Rat) * pRec (n + 1) m u) / ((n + 1 + (m + 1) : Nat) : Rat) := by
  rw [pRec]

theorem pRec_neg (n m : Nat) (u : Int) (hu : u < 0) : pRec n m u = 0 := by
  cases n with
  | zero => rw [pRec_zero_left, if_neg (by omega)]
  | succ n =>
    cases m with
    | zero => rw [pRec_zero_right, if_neg (by omega)]
    | succ m => rw [pRec_succ_succ, if_pos hu]

/-- `q n m u = pRec n m u · C(n+m, n)` satisfies the integer recurrence -/
theorem pRec_mul_choose_succ (n m : Nat) (u : Int) (hu : 0 ≤ u) :
    pRec (n + 1) (m + 1) u * (Nat.choose (n + 1 + (m + 1)) (n + 1) : Rat)
      = pRec n (m + 1) (u - ((m + 1 : Nat) : Int)) * (Nat.choose (n + (m + 1)) n : Rat)
        + pRec (n + 1) m u * (Nat.choose (n + 1 + m) (n + 1) : Rat) := by
  rw [pRec_succ_succ, if_neg (by omega)]
  have h1 : ((n + 1 : Nat) : Rat) * (Nat.choose (n + 1 + (m + 1)) (n + 1) : Rat)
      = ((n + 1 + (m + 1) : Nat) : Rat) * (Nat.choose (n + (m + 1)) n : Rat) := by
    have := Nat.add_one_mul_choose_eq (n + (m + 1)) n
    have e : n + 1 + (m + 1) = n + (m + 1) + 1 := by omega
    rw [e]
    exact_mod_cast (by rw [this, mul_comm] : (n + 1) * (n + (m + 1) + 1).choose (n + 1)
      = (n + (m + 1) + 1) * (n + (m + 1)).choose n)
  have h2 : ((m + 1 : Nat) : Rat) * (Nat.choose (n + 1 + (m + 1)) (n + 1) : Rat)
      = ((n + 1 + (m + 1) : Nat) : Rat) * (Nat.choose (n + 1 + m) (n + 1) : Rat) := by
    have := Nat.choose_mul_succ_eq (n + 1 + m) (n + 1)
    have e : n + 1 + m + 1 - (n + 1) = m + 1 := by omega
    rw [e] at this
    have e' : n + 1 + (m + 1) = n + 1 + m + 1 := by omega
    rw [e']
    exact_mod_cast (by rw [mul_comm, ← this, mul_comm] : (m + 1) * (n + 1 + m + 1).choose (n + 1)
      = (n + 1 + m + 1) * (n + 1 + m).choose (n + 1))
  have hD : ((n + 1 + (m + 1) : Nat) : Rat) ≠ 0 := by
    exact_mod_cast (by omega : n + 1 + (m + 1) ≠ 0)
  rw [div_mul_eq_mul_div, div_eq_iff hD]
  linear_combination (pRec n (m + 1) (u - ((m + 1 : Nat) : Int))) * h1 + (pRec (n + 1) m u) * h2

/-! ### the specification side: pair counting over the splits -/

section SpecSide
variable {α : Type} [LT α] [DecidableLT α] [DecidableEq α]

theorem twoUPairs_nil_left_u (x2 : List α) : twoUPairs ([] : List α) x2 = 0 := rfl

theorem twoUPairs_nil_right_u (x1 : List α) : twoUPairs x1 ([] : List α) = 0 := by
  induction x1 with
  | nil => rfl
  | cons a l ih => simp [twoUPairs]

theorem twoUPairs_cons_left_u (a : α) (p1 p2 : List α) :
    twoUPairs (a :: p1) p2 = (p2.map fun b => pairW a b).sum + twoUPairs p1 p2 := by
  simp [twoUPairs]

/-- the head is larger than every member of the second sample: it adds 2 per member -/
theorem twoUPairs_cons_left_gt (a : α) (p1 p2 : List α) (h : ∀ b ∈ p2, b < a) :
    twoUPairs (a :: p1) p2 = twoUPairs p1 p2 + 2 * p2.length := by
  rw [twoUPairs_cons_left_u]
  have : (p2.map fun b => pairW a b).sum = 2 * p2.length := by
    induction p2 with
    | nil => rfl
    | cons b l ih =>
      have hb : b < a := h b (by simp)
      have := ih (fun x hx => h x (by simp [hx]))
      simp only [List.map_cons, List.sum_cons, List.length_cons, this]
      simp only [pairW, if_pos hb]
      omega
  omega

/-- the head is larger than every member of the first sample: it adds nothing -/
theorem twoUPairs_cons_right_gt (a : α) (p1 p2 : List α) (h : ∀ x ∈ p1, ¬ a < x ∧ x ≠ a) :
    twoUPairs p1 (a :: p2) = twoUPairs p1 p2 := by
  induction p1 with
  | nil => rfl
  | cons x l ih =>
    have hx := h x (by simp)
    have := ih (fun y hy => h y (by simp [hy]))
    rw [twoUPairs_cons_left_u, twoUPairs_cons_left_u, this]
    simp [pairW, hx.1, hx.2]

omit [LT α] [DecidableLT α] [DecidableEq α] in
theorem splits_mem_props (n : Nat) (l : List α) :
    ∀ p ∈ splits n l, (∀ x ∈ p.1, x ∈ l) ∧ (∀ x ∈ p.2, x ∈ l) ∧ p.1.length = n
      ∧ p.1.length + p.2.length = l.length := by
  induction l generalizing n with
  | nil =>
    cases n with
    | zero => intro p hp; simp [splits] at hp; subst hp; simp
    | succ n => intro p hp; simp [splits] at hp
  | cons a l ih =>
    cases n with
    | zero => intro p hp; simp [splits] at hp; subst hp; simp
    | succ n =>
      intro p hp
      simp only [splits, List.mem_append, List.mem_map] at hp
      rcases hp with ⟨q, hq, rfl⟩ | ⟨q, hq, rfl⟩
      · obtain ⟨h1, h2, h3, h4⟩ := ih n q hq
        refine ⟨?_, ?_, ?_, ?_⟩
        · intro x hx
          rcases List.mem_cons.1 hx with rfl | hx
          · simp
          · exact List.mem_cons_of_mem _ (h1 x hx)
        · intro x hx; exact List.mem_cons_of_mem _ (h2 x hx)
        · simp [h3]
        · simp only [List.length_cons]; omega
      · obtain ⟨h1, h2, h3, h4⟩ := ih (n + 1) q hq
        refine ⟨?_, ?_, ?_, ?_⟩
        · intro x hx; exact List.mem_cons_of_mem _ (h1 x hx)
        · intro x hx
          rcases List.mem_cons.1 hx with rfl | hx
          · simp
          · exact List.mem_cons_of_mem _ (h2 x hx)
        · exact h3
        · simp only [List.length_cons]; omega

end SpecSide

theorem splits_length {α : Type} (n : Nat) (pool : List α) :
    (splits n pool).length = Nat.choose pool.length n := by
  induction pool generalizing n with
  | nil => cases n <;> simp [splits]
  | cons a l ih =>
    cases n with
    | zero => simp [splits]
    | succ n =>
      simp only [splits, List.length_append, List.length_map, List.length_cons, ih,
        Nat.choose_succ_succ']

/-- number of assignments with `2·U = 2·u` (`u : Int`; none for negative u) -/
def cntSpec {α : Type} [LT α] [DecidableLT α] [DecidableEq α] (n : Nat) (pool : List α)
    (u : Int) : Nat :=
  (nullDistOf n pool).countP (fun (x : Nat) => decide ((x : Int) = 2 * u))

section Count
variable {α : Type} [LT α] [DecidableLT α] [DecidableEq α]

theorem cntSpec_zero (pool : List α) (u : Int) :
    cntSpec 0 pool u = if u = 0 then 1 else 0 := by
  simp only [cntSpec, nullDistOf, splits, List.map_cons, List.map_nil, twoUPairs_nil_left_u]
  by_cases hu : u = 0
  · simp [hu]
  · simp [hu]

theorem cntSpec_of_lt (n : Nat) (pool : List α) (u : Int) (h : pool.length < n) :
    cntSpec n pool u = 0 := by
  have : splits n pool = [] := by
    apply List.eq_nil_of_length_eq_zero
    rw [splits_length, Nat.choose_eq_zero_of_lt h]
  simp [cntSpec, nullDistOf, this]

theorem cntSpec_neg (n : Nat) (pool : List α) (u : Int) (h : u < 0) :
    cntSpec n pool u = 0 := by
  unfold cntSpec
  rw [List.countP_eq_zero]
  intro x _
  have : ¬ ((x : Nat) : Int) = 2 * u := by omega
  simpa using this

/-- the counting recurrence for a head that is larger than all the rest -/
theorem cntSpec_cons (n : Nat) (a : α) (l : List α) (u : Int)
    (hgt : ∀ x ∈ l, x < a ∧ ¬ a < x ∧ x ≠ a) :
    cntSpec (n + 1) (a :: l) u
      = cntSpec n l (u - ((l.length - n : Nat) : Int)) + cntSpec (n + 1) l u := by
  unfold cntSpec nullDistOf
  rw [splits, List.map_append, List.countP_append, List.map_map, List.map_map,
    List.countP_map, List.countP_map, List.countP_map, List.countP_map]
  congr 1
  · apply List.countP_congr
    intro p hp
    obtain ⟨_, h2, h3, h4⟩ := splits_mem_props n l p hp
    have e : twoUPairs (a :: p.1) p.2 = twoUPairs p.1 p.2 + 2 * p.2.length :=
      twoUPairs_cons_left_gt a p.1 p.2 (fun b hb => (hgt b (h2 b hb)).1)
    have e2 : p.2.length = l.length - n := by omega
    simp only [Function.comp, e, e2, decide_eq_true_eq]
    constructor <;> intro h <;> push_cast at h ⊢ <;> omega
  · apply List.countP_congr
    intro p hp
    obtain ⟨h1, _, _, _⟩ := splits_mem_props (n + 1) l p hp
    have e : twoUPairs p.1 (a :: p.2) = twoUPairs p.1 p.2 :=
      twoUPairs_cons_right_gt a p.1 p.2 (fun x hx => (hgt x (h1 x hx)).2)
    simp only [Function.comp, e]

end Count

/-! ### goal 1: the recurrence counts assignments -/

/-- general form (`u : Int`): `pRec n m u · C(n+m, n)` is the number of assignments of a strictly
    descending pool with `2·U = 2·u` -/
theorem pRec_mul_choose_eq_cntSpec {α : Type} [LinearOrder α] (pool : List α) :
    ∀ (n m : Nat), pool.length = n + m → pool.Pairwise (· > ·) → ∀ u : Int,
      pRec n m u * (Nat.choose (n + m) n : Rat) = ((cntSpec n pool u : Nat) : Rat) := by
  induction pool with
  | nil =>
    intro n m hlen _ u
    have hn : n = 0 := by simp at hlen; omega
    have hm : m = 0 := by simp at hlen; omega
    subst hn hm
    rw [pRec_zero_left, cntSpec_zero]
    split <;> simp
  | cons a l ih =>
    intro n m hlen hdesc u
    have hl : l.length = n + m - 1 := by simp at hlen; omega
    rw [List.pairwise_cons] at hdesc
    obtain ⟨ha, hdl⟩ := hdesc
    have hgt : ∀ x ∈ l, x < a ∧ ¬ a < x ∧ x ≠ a := fun x hx =>
      ⟨ha x hx, not_lt.2 (le_of_lt (ha x hx)), ne_of_lt (ha x hx)⟩
    cases n with
    | zero =>
      rw [pRec_zero_left, cntSpec_zero]
      split <;> simp
    | succ n =>
      rw [cntSpec_cons n a l u hgt]
      cases m with
      | zero =>
        have e1 : l.length - n = 0 := by omega
        have e2 : cntSpec (n + 1) l u = 0 := cntSpec_of_lt _ _ _ (by omega)
        have h := ih n 0 (by omega) hdl u
        rw [e1, e2]
        simp only [Nat.add_zero, Nat.cast_zero, sub_zero] at h ⊢
        rw [← h, pRec_zero_right, pRec_zero_right]
        simp
      | succ m =>
        by_cases hu : u < 0
        · rw [pRec_neg _ _ _ hu, cntSpec_neg _ _ _ hu, cntSpec_neg _ _ _ (by omega)]
          simp
        · have e1 : l.length - n = m + 1 := by omega
          rw [pRec_mul_choose_succ n m u (by omega), e1,
            ih n (m + 1) (by omega) hdl, ih (n + 1) m (by omega) hdl]
          exact (Nat.cast_add _ _).symm

theorem cntSpec_eq_filter_length {α : Type} [LT α] [DecidableLT α] [DecidableEq α]
    (n : Nat) (pool : List α) (u : Nat) :
    cntSpec n pool (u : Int) = ((nullDistOf n pool).filter (· = 2 * u)).length := by
  unfold cntSpec
  rw [List.countP_eq_length_filter]
  congr 1
  apply List.filter_congr
  intro x _
  have : ((x : Int) = 2 * (u : Int)) ↔ x = 2 * u := by omega
  simp [this]

/-- the recurrence of `UDist.p`, multiplied by the number of assignments, is the number of
    assignments of a pool of pairwise distinct values (listed in descending order) with `U = u` -/
theorem untied_recurrence_exact {α : Type} [LinearOrder α] (n m : Nat) (pool : List α)
    (hlen : pool.length = n + m) (hdesc : pool.Pairwise (· > ·)) (u : Nat) :
    Stats.UDist.pRec n m (u : Int) * (Nat.choose (n + m) n : Rat)
      = (((Spec.UExact.nullDistOf n pool).filter (· = 2 * u)).length : Rat) := by
  rw [pRec_mul_choose_eq_cntSpec pool n m hlen hdesc, cntSpec_eq_filter_length]

/-! ### goal 2: support, sign and total mass of `pRec` -/

/-- induction along the recursion of `pRec` -/
theorem pRec_induct (P : Nat → Nat → Prop) (h0 : ∀ m, P 0 m) (h1 : ∀ n, P (n + 1) 0)
    (h2 : ∀ n m, P n (m + 1) → P (n + 1) m → P (n + 1) (m + 1)) : ∀ n m, P n m := by
  intro n
  induction n with
  | zero => exact h0
  | succ n ihn =>
    intro m
    induction m with
    | zero => exact h1 n
    | succ m ihm => exact h2 n m (ihn (m + 1)) ihm

theorem pRec_nonneg (n m : Nat) : ∀ u : Int, 0 ≤ pRec n m u := by
  refine pRec_induct (fun n m => ∀ u : Int, 0 ≤ pRec n m u) ?_ ?_ ?_ n m
  · intro m u; rw [pRec_zero_left]; split <;> norm_num
  · intro n u; rw [pRec_zero_right]; split <;> norm_num
  · intro n m ih1 ih2 u
    rw [pRec_succ_succ]
    split
    · exact le_refl _
    · apply div_nonneg
      · apply add_nonneg
        · exact mul_nonneg (Nat.cast_nonneg _) (ih1 _)
        · exact mul_nonneg (Nat.cast_nonneg _) (ih2 _)
      · exact Nat.cast_nonneg _

/-- the support of `p_{n,m}` is contained in `0 … n·m` -/
theorem pRec_eq_zero_of_gt (n m : Nat) : ∀ u : Int, ((n * m : Nat) : Int) < u → pRec n m u = 0 := by
  refine pRec_induct (fun n m => ∀ u : Int, ((n * m : Nat) : Int) < u → pRec n m u = 0) ?_ ?_ ?_ n m
  · intro m u hu; rw [pRec_zero_left, if_neg]; simp at hu; omega
  · intro n u hu; rw [pRec_zero_right, if_neg]; simp at hu; omega
  · intro n m ih1 ih2 u hu
    have e1 : (n + 1) * (m + 1) = n * (m + 1) + (m + 1) := by ring
    have e2 : (n + 1) * (m + 1) = (n + 1) * m + (n + 1) := by ring
    rw [pRec_succ_succ]
    split
    · rfl
    · rw [ih1 _ (by rw [e1] at hu; push_cast at hu ⊢; omega),
        ih2 _ (by rw [e2] at hu; push_cast at hu ⊢; omega)]
      simp

/-- total mass over any range that covers the support -/
theorem pRec_sum_range (n m : Nat) :
    ∀ N, n * m ≤ N → ∑ u ∈ Finset.range (N + 1), pRec n m (u : Int) = 1 := by
  refine pRec_induct
    (fun n m => ∀ N, n * m ≤ N → ∑ u ∈ Finset.range (N + 1), pRec n m (u : Int) = 1) ?_ ?_ ?_ n m
  · intro m N _
    simp only [pRec_zero_left, Int.natCast_eq_zero]
    rw [Finset.sum_ite_eq']; simp
  · intro n N _
    simp only [pRec_zero_right, Int.natCast_eq_zero]
    rw [Finset.sum_ite_eq']; simp
  · intro n m ih1 ih2 N hN
    have e1 : (n + 1) * (m + 1) = n * (m + 1) + (m + 1) := by ring
    have e2 : (n + 1) * (m + 1) = (n + 1) * m + (n + 1) := by ring
    have hg : ∑ u ∈ Finset.range (N + 1), pRec (n + 1) m (u : Int) = 1 := ih2 N (by omega)
    have hf : ∑ u ∈ Finset.range (N + 1),
        pRec n (m + 1) ((u : Int) - ((m + 1 : Nat) : Int)) = 1 := by
      obtain ⟨K, hK⟩ : ∃ K, N + 1 = (m + 1) + (K + 1) := ⟨N - (m + 1), by omega⟩
      rw [hK, Finset.sum_range_add]
      rw [Finset.sum_eq_zero (fun x hx => pRec_neg _ _ _ (by
        have := Finset.mem_range.1 hx; push_cast; omega)), zero_add]
      rw [← ih1 K (by omega)]
      apply Finset.sum_congr rfl
      intro x _
      congr 1
      push_cast; ring
    have hD : ((n + 1 + (m + 1) : Nat) : Rat) ≠ 0 := by
      exact_mod_cast (by omega : n + 1 + (m + 1) ≠ 0)
    have : ∀ u ∈ Finset.range (N + 1), pRec (n + 1) (m + 1) (u : Int)
        = (((n + 1 : Nat) : Rat) * pRec n (m + 1) ((u : Int) - ((m + 1 : Nat) : Int))
          + ((m + 1 : Nat) : Rat) * pRec (n + 1) m (u : Int)) / ((n + 1 + (m + 1) : Nat) : Rat) := by
      intro u _
      rw [pRec_succ_succ, if_neg (by omega)]
    rw [Finset.sum_congr rfl this, ← Finset.sum_div, Finset.sum_add_distrib, ← Finset.mul_sum,
      ← Finset.mul_sum, hf, hg, div_eq_iff hD]
    push_cast; ring

theorem pmf_sums_to_one_untied (n m : Nat) :
    ∑ u ∈ Finset.range (n * m + 1), pRec n m (u : Int) = 1 :=
  pRec_sum_range n m (n * m) (le_refl _)

/-! ### goal 3: symmetries of the untied distribution -/

/-- the count form of the recurrence: `q n m u = pRec n m u · C(n+m, n)` -/
def q (n m : Nat) (u : Int) : Rat := pRec n m u * (Nat.choose (n + m) n : Rat)

theorem q_zero_left (m : Nat) (u : Int) : q 0 m u = if u = 0 then 1 else 0 := by
  unfold q; rw [pRec_zero_left]; simp

theorem q_zero_right (n : Nat) (u : Int) : q n 0 u = if u = 0 then 1 else 0 := by
  unfold q; rw [pRec_zero_right]; simp

theorem q_rec1 (n m : Nat) (u : Int) :
    q (n + 1) (m + 1) u = q n (m + 1) (u - ((m : Int) + 1)) + q (n + 1) m u := by
  unfold q
  by_cases hu : u < 0
  · rw [pRec_neg _ _ _ hu, pRec_neg _ _ _ hu, pRec_neg _ _ _ (by omega : u - ((m : Int) + 1) < 0)]
    simp
  · have := pRec_mul_choose_succ n m u (by omega)
    push_cast at this
    exact this

/-- `(1 − x^{n+1})·G(n+1,m) = (1 − x^{n+m+1})·G(n,m)` coefficientwise -/
def PL (n m : Nat) : Prop :=
  ∀ u : Int, q (n + 1) m u - q (n + 1) m (u - ((n : Int) + 1))
    = q n m u - q n m (u - ((n : Int) + (m : Int) + 1))

/-- `(1 − x^{m+1})·G(n,m+1) = (1 − x^{n+m+1})·G(n,m)` coefficientwise -/
def PL' (n m : Nat) : Prop :=
  ∀ u : Int, q n (m + 1) u - q n (m + 1) (u - ((m : Int) + 1))
    = q n m u - q n m (u - ((n : Int) + (m : Int) + 1))

theorem PL_base (n : Nat) : PL n 0 := by
  intro u
  simp only [q_zero_right]
  push_cast
  simp

theorem PL'_base (m : Nat) : PL' 0 m := by
  intro u
  simp only [q_zero_left]
  push_cast
  simp

theorem PL_step (n m : Nat) (h : PL n m) (h' : PL' n m) : PL n (m + 1) := by
  intro u
  have h1 := q_rec1 n m u
  have h2 := q_rec1 n m (u - ((n : Int) + 1))
  have h3 := h u
  have h4 := h' u
  have e : u - ((n : Int) + 1) - ((m : Int) + 1) = u - ((n : Int) + ((m + 1 : Nat) : Int) + 1) := by
    push_cast; ring
  rw [e] at h2
  linear_combination h1 - h2 + h3 - h4

theorem PL'_step (n m : Nat) (h' : PL' n m) (h : PL n m) : PL' (n + 1) m := by
  intro u
  have h1 := q_rec1 n m u
  have h2 := q_rec1 n m (u - ((m : Int) + 1))
  have h3 := h (u - ((m : Int) + 1))
  have h4 := h' (u - ((m : Int) + 1))
  have e : u - ((m : Int) + 1) - ((n : Int) + 1) = u - (((n + 1 : Nat) : Int) + (m : Int) + 1) := by
    push_cast; ring
  rw [e] at h3
  linear_combination h1 - h2 + h4 - h3

theorem PL_both (n m : Nat) : PL n m ∧ PL' n m := by
  induction n generalizing m with
  | zero =>
    induction m with
    | zero => exact ⟨PL_base 0, PL'_base 0⟩
    | succ m ihm => exact ⟨PL_step 0 m ihm.1 ihm.2, PL'_base (m + 1)⟩
  | succ n ihn =>
    induction m with
    | zero => exact ⟨PL_base (n + 1), PL'_step n 0 (ihn 0).2 (ihn 0).1⟩
    | succ m ihm =>
      exact ⟨PL_step (n + 1) m ihm.1 ihm.2, PL'_step n (m + 1) (ihn (m + 1)).2 (ihn (m + 1)).1⟩

/-- the other form of the recurrence (smallest pooled value first) -/
theorem q_rec2 (n m : Nat) (u : Int) :
    q (n + 1) (m + 1) u = q n (m + 1) u + q (n + 1) m (u - ((n : Int) + 1)) := by
  have h1 := q_rec1 n m u
  have h2 := (PL_both n m).1 u
  have h3 := (PL_both n m).2 u
  linear_combination h1 + h2 - h3

theorem q_swap (n m : Nat) : ∀ u : Int, q n m u = q m n u := by
  refine pRec_induct (fun n m => ∀ u : Int, q n m u = q m n u) ?_ ?_ ?_ n m
  · intro m u; rw [q_zero_left, q_zero_right]
  · intro n u; rw [q_zero_left, q_zero_right]
  · intro n m ih1 ih2 u
    rw [q_rec2 n m u, q_rec1 m n u, ih1, ih2, add_comm]

theorem q_swap_flip (n m : Nat) : ∀ u : Int, q n m u = q m n (((n * m : Nat) : Int) - u) := by
  refine pRec_induct (fun n m => ∀ u : Int, q n m u = q m n (((n * m : Nat) : Int) - u)) ?_ ?_ ?_ n m
  · intro m u; rw [q_zero_left, q_zero_right]
    by_cases hu : u = 0 <;> simp [hu]
  · intro n u; rw [q_zero_left, q_zero_right]
    by_cases hu : u = 0 <;> simp [hu]
  · intro n m ih1 ih2 u
    rw [q_rec1 n m u, q_rec1 m n, ih1, ih2]
    have e1 : ((n * (m + 1) : Nat) : Int) - (u - ((m : Int) + 1))
        = (((n + 1) * (m + 1) : Nat) : Int) - u := by push_cast; ring
    have e2 : (((n + 1) * m : Nat) : Int) - u
        = (((n + 1) * (m + 1) : Nat) : Int) - u - ((n : Int) + 1) := by push_cast; ring
    rw [e1, e2, add_comm]

theorem q_flip (n m : Nat) (u : Int) : q n m u = q n m (((n * m : Nat) : Int) - u) := by
  rw [q_swap_flip n m u, q_swap m n]

theorem choose_cast_ne_zero (n m : Nat) : (Nat.choose (n + m) n : Rat) ≠ 0 := by
  exact_mod_cast Nat.choose_ne_zero (Nat.le_add_right n m)

theorem pRec_eq_q_div (n m : Nat) (u : Int) : pRec n m u = q n m u / (Nat.choose (n + m) n : Rat) := by
  unfold q; rw [mul_div_cancel_right₀ _ (choose_cast_ne_zero n m)]

/-- `p_{n,m}(u) = p_{m,n}(u)` -/
theorem pRec_swap (n m : Nat) (u : Int) : pRec n m u = pRec m n u := by
  rw [pRec_eq_q_div, pRec_eq_q_div m n, q_swap, Nat.add_comm m n, Nat.choose_symm_add]

/-- `p_{n,m}(u) = p_{n,m}(n·m − u)` (for every integer u; both sides vanish outside `0 … n·m`) -/
theorem pRec_flip (n m : Nat) (u : Int) : pRec n m u = pRec n m (((n * m : Nat) : Int) - u) := by
  rw [pRec_eq_q_div, pRec_eq_q_div n m (_ - u), ← q_flip]

theorem untied_dist_symmetric (n m u : Nat) :
    pRec n m (u : Int) = pRec n m (((n * m : Nat) : Int) - (u : Int))
      ∧ pRec n m (u : Int) = pRec m n (u : Int) :=
  ⟨pRec_flip n m u, pRec_swap n m u⟩

/-! ### goal 4: the untied CDF wrapper and its flip -/

theorem pUntiedRec_getD (n1 n2 v : Nat) : (pUntiedRec n1 n2).getD v 0 = pRec n1 n2 (v : Int) := by
  unfold pUntiedRec
  by_cases hv : v < n1 * n2 + 1
  · simp only [Array.getD, Array.size_ofFn, hv, dite_true, Array.getInternal_eq_getElem,
      Array.getElem_ofFn]
    split
    · exact (pRec_swap n1 n2 v).symm
    · rfl
  · simp only [Array.getD, Array.size_ofFn, hv, dite_false]
    exact (pRec_eq_zero_of_gt n1 n2 v (by push_cast at hv ⊢; omega)).symm

theorem foldl_add_eq_sum_rat (f : Nat → Rat) (k : Nat) :
    (List.range k).foldl (fun acc u => acc + f u) (0 : Rat) = ∑ u ∈ Finset.range k, f u := by
  induction k with
  | zero => simp
  | succ k ih => rw [List.range_succ, List.foldl_append, ih, Finset.sum_range_succ]; rfl

/-- the mass above `ui` equals the mass of the reflected prefix -/
theorem pRec_prefix_flip (n m ui : Nat) (hui : ui < n * m) :
    1 - ∑ v ∈ Finset.range (n * m - ui - 1 + 1), pRec n m (v : Int)
      = ∑ v ∈ Finset.range (ui + 1), pRec n m (v : Int) := by
  obtain ⟨K, hK⟩ : ∃ K, n * m = ui + K + 1 := ⟨n * m - ui - 1, by omega⟩
  have e : n * m - ui - 1 + 1 = K + 1 := by omega
  have htot := pmf_sums_to_one_untied n m
  rw [show n * m + 1 = (ui + 1) + (K + 1) by omega, Finset.sum_range_add] at htot
  have hrefl : ∑ x ∈ Finset.range (K + 1), pRec n m ((ui + 1 + x : Nat) : Int)
      = ∑ x ∈ Finset.range (K + 1), pRec n m (x : Int) := by
    rw [← Finset.sum_range_reflect (fun x => pRec n m (x : Int)) (K + 1)]
    apply Finset.sum_congr rfl
    intro x hx
    have hx := Finset.mem_range.1 hx
    rw [pRec_flip n m]
    congr 1
    rw [hK]; push_cast; omega
  rw [e, ← hrefl]
  linarith

/-- the untied branch of `UDist.CDF` (with its flip to the shorter tail) is the prefix sum of
    the table `d.p(·)` -/
theorem cdfPure_untied (n1 n2 : Nat) (T : List Nat) (hT : Stats.UDist.hasTies T = false) (twoU : Int)
    (h0 : 0 ≤ twoU) (h1 : twoU < 2 * ((n1 * n2 : Nat) : Int)) :
    cdfPure n1 n2 T twoU
      = ∑ v ∈ Finset.range ((twoU / 2).toNat + 1), (pUntiedRec n1 n2).getD v 0 := by
  unfold cdfPure cdfWith
  rw [if_neg (by omega), if_neg (by omega), hT]
  simp only [Bool.false_eq_true, if_false, foldl_add_eq_sum_rat, pUntiedRec_getD]
  have hui : (twoU / 2).toNat < n1 * n2 := by omega
  by_cases hflip : (twoU / 2).toNat ≥ (n1 * n2 + 1) / 2
  · simp only [hflip, decide_true, if_true]
    exact pRec_prefix_flip n1 n2 _ hui
  · simp only [hflip, decide_false, Bool.false_eq_true, if_false]

theorem cdfPure_untied_pRec (n1 n2 : Nat) (T : List Nat) (hT : Stats.UDist.hasTies T = false) (twoU : Int)
    (h0 : 0 ≤ twoU) (h1 : twoU < 2 * ((n1 * n2 : Nat) : Int)) :
    cdfPure n1 n2 T twoU = ∑ v ∈ Finset.range ((twoU / 2).toNat + 1), pRec n1 n2 (v : Int) := by
  rw [cdfPure_untied n1 n2 T hT twoU h0 h1]
  simp only [pUntiedRec_getD]

end C11
