/-
C18 helper: invariants of the builder state reached by any `Add` sequence, expressed through the
measurements that were added: which trials and test keys exist, key lists without duplicates,
what hashToOrder holds.
-/
import Proofs.Lemmas.C18Build

namespace C18
open Series

theorem isNum_not_isDen {o : Opts} {e : Ev} (h : e.isNum o = true) : e.isDen o = false := by
  unfold Ev.isNum at h; unfold Ev.isDen
  simp only [Bool.and_eq_true, decide_eq_true_eq] at h
  simpa using h.1

theorem hitsTest_iff (o : Opts) (key : TrialKey × Bytes) (e : Ev) :
    hitsTest o key e = true ↔ e.isNum o = true ∧ key = (e.trial, e.nh) := by
  unfold hitsTest
  constructor
  · intro h
    simp only [Bool.and_eq_true, decide_eq_true_eq] at h
    exact ⟨h.1.2, h.2⟩
  · rintro ⟨h1, h2⟩
    simp [isNum_not_isDen h1, h1, h2]

/-! ### association-list facts -/

theorem mem_of_alookup {κ ν} [DecidableEq κ] {k : κ} {v : ν} {l : List (κ × ν)} (h : alookup k l = some v) :
    (k, v) ∈ l := by
  induction l with
  | nil => simp [alookup] at h
  | cons p l ih =>
    obtain ⟨k', v'⟩ := p
    by_cases hk : k = k'
    · subst hk; simp only [alookup, if_true, Option.some.injEq] at h; subst h; simp
    · simp only [alookup, hk, if_false] at h; exact List.mem_cons_of_mem _ (ih h)

theorem alookup_of_mem {κ ν} [DecidableEq κ] {k : κ} {v : ν} {l : List (κ × ν)} (hm : (k, v) ∈ l)
    (hn : (l.map Prod.fst).Nodup) : alookup k l = some v := by
  induction l with
  | nil => simp at hm
  | cons p l ih =>
    obtain ⟨k', v'⟩ := p
    simp only [List.map_cons, List.nodup_cons] at hn
    rcases List.mem_cons.mp hm with h | h
    · simp only [Prod.mk.injEq] at h; obtain ⟨rfl, rfl⟩ := h; simp [alookup]
    · have hne : k ≠ k' := by
        intro e; subst e
        exact hn.1 (List.mem_map.mpr ⟨(k, v), h, rfl⟩)
      simp only [alookup, hne, if_false]; exact ih h hn.2

theorem aset_keys {κ ν} [DecidableEq κ] (k : κ) (v : ν) (l : List (κ × ν)) :
    (aset k v l).map Prod.fst = if k ∈ l.map Prod.fst then l.map Prod.fst else l.map Prod.fst ++ [k] := by
  induction l with
  | nil => simp [aset]
  | cons p l ih =>
    obtain ⟨k', v'⟩ := p
    by_cases hk : k = k'
    · subst hk; simp [aset]
    · have hk' : ¬ k' = k := fun e => hk e.symm
      simp only [aset, hk, if_false, List.map_cons, ih, List.mem_cons, false_or]
      split <;> simp

theorem aset_keys_nodup {κ ν} [DecidableEq κ] (k : κ) (v : ν) {l : List (κ × ν)} (h : (l.map Prod.fst).Nodup) :
    ((aset k v l).map Prod.fst).Nodup := by
  rw [aset_keys]
  split
  · exact h
  · rename_i hk
    rw [List.nodup_append]
    refine ⟨h, by simp, ?_⟩
    intro a ha b hb
    simp only [List.mem_singleton] at hb
    subst hb
    intro e; subst e; exact hk ha

/-! ### trials -/

theorem add_trials (o : Opts) (b : Builder) (e : Ev) :
    (add o b e).trials = if e.trial ∈ b.trials then b.trials else b.trials ++ [e.trial] := by
  unfold add
  by_cases hd : e.isDen o = true
  · simp only [hd, if_true]
    cases alookup e.trial (if e.trial ∈ b.trials then b.trials else b.trials ++ [e.trial], b.base).2 <;> rfl
  · by_cases hn : e.isNum o = true
    · simp only [hd, hn, if_true, Bool.false_eq_true, if_false]
      cases alookup (e.trial, e.nh) b.tests <;> rfl
    · simp [hd, hn]

theorem trials_mem (o : Opts) (evs : List Ev) (k : TrialKey) :
    k ∈ (build o evs).trials ↔ ∃ e ∈ evs, e.trial = k := by
  induction evs using List.reverseRecOn with
  | nil => simp [build]
  | append_singleton evs e ih =>
    rw [build_snoc, add_trials]
    split
    · rename_i hm
      rw [ih]
      constructor
      · rintro ⟨x, hx, rfl⟩; exact ⟨x, by simp [hx], rfl⟩
      · rintro ⟨x, hx, rfl⟩
        rcases List.mem_append.mp hx with h | h
        · exact ⟨x, h, rfl⟩
        · simp only [List.mem_singleton] at h; subst h; exact ih.mp hm
    · rw [List.mem_append, ih]
      constructor
      · rintro (⟨x, hx, rfl⟩ | h)
        · exact ⟨x, by simp [hx], rfl⟩
        · simp only [List.mem_singleton] at h; exact ⟨e, by simp, h.symm⟩
      · rintro ⟨x, hx, rfl⟩
        rcases List.mem_append.mp hx with h | h
        · exact Or.inl ⟨x, h, rfl⟩
        · simp only [List.mem_singleton] at h; subst h; exact Or.inr (by simp)

theorem trials_nodup (o : Opts) (evs : List Ev) : (build o evs).trials.Nodup := by
  induction evs using List.reverseRecOn with
  | nil => simp [build]
  | append_singleton evs e ih =>
    rw [build_snoc, add_trials]
    split
    · exact ih
    · rename_i hm
      rw [List.nodup_append]
      refine ⟨ih, by simp, ?_⟩
      intro a ha b hb
      simp only [List.mem_singleton] at hb
      subst hb
      intro e'; subst e'; exact hm ha

/-! ### test keys -/

theorem add_tests_keys_nodup (o : Opts) (b : Builder) (e : Ev) (h : (b.tests.map Prod.fst).Nodup) :
    ((add o b e).tests.map Prod.fst).Nodup := by
  unfold add
  by_cases hd : e.isDen o = true
  · simp only [hd, if_true]
    cases alookup e.trial (if e.trial ∈ b.trials then b.trials else b.trials ++ [e.trial], b.base).2 <;> exact h
  · by_cases hn : e.isNum o = true
    · simp only [hd, hn, if_true, Bool.false_eq_true, if_false]
      cases alookup (e.trial, e.nh) b.tests <;> exact aset_keys_nodup _ _ h
    · simpa [hd, hn] using h

theorem tests_keys_nodup (o : Opts) (evs : List Ev) : ((build o evs).tests.map Prod.fst).Nodup := by
  induction evs using List.reverseRecOn with
  | nil => simp [build]
  | append_singleton evs e ih => rw [build_snoc]; exact add_tests_keys_nodup o _ e ih

/-- a test entry is in the map exactly when looking its key up returns its value -/
theorem mem_tests_iff (o : Opts) (evs : List Ev) (x : (TrialKey × Bytes) × List Bits) :
    x ∈ (build o evs).tests ↔ alookup x.1 (build o evs).tests = some x.2 :=
  ⟨fun h => alookup_of_mem (k := x.1) (v := x.2) h (tests_keys_nodup o evs), fun h => mem_of_alookup h⟩

/-- a test key exists exactly when some numerator measurement was added for it -/
theorem test_present_iff (o : Opts) (evs : List Ev) (key : TrialKey × Bytes) :
    (alookup key (build o evs).tests).isSome = true ↔ ∃ e ∈ evs, e.isNum o = true ∧ key = (e.trial, e.nh) := by
  rw [tests_exact]
  constructor
  · intro h
    cases hf : evs.filter (hitsTest o key) with
    | nil => rw [hf] at h; simp at h
    | cons x l =>
      have hx : x ∈ evs.filter (hitsTest o key) := by rw [hf]; simp
      obtain ⟨hx1, hx2⟩ := List.mem_filter.mp hx
      exact ⟨x, hx1, (hitsTest_iff o key x).mp hx2⟩
  · rintro ⟨e, he, h⟩
    have hx : e ∈ evs.filter (hitsTest o key) := List.mem_filter.mpr ⟨he, (hitsTest_iff o key e).mpr h⟩
    cases hf : evs.filter (hitsTest o key) with
    | nil => rw [hf] at hx; simp at hx
    | cons x l => simp

/-! ### hashToOrder -/

theorem add_hto (o : Opts) (b : Builder) (e : Ev) (h : Bytes) :
    alookup h (add o b e).hto =
      if e.isNum o = true ∧ alookup (e.trial, e.nh) b.tests = none ∧ h = e.nh then some e.ser else alookup h b.hto := by
  unfold add
  by_cases hd : e.isDen o = true
  · have hn : e.isNum o = false := by
      cases hh : e.isNum o with
      | false => rfl
      | true => rw [isNum_not_isDen hh] at hd; exact absurd hd (by simp)
    simp only [hd, if_true, hn, Bool.false_eq_true, false_and, if_false]
    cases alookup e.trial (if e.trial ∈ b.trials then b.trials else b.trials ++ [e.trial], b.base).2 <;> rfl
  · by_cases hn : e.isNum o = true
    · simp only [hd, hn, if_true, Bool.false_eq_true, if_false, true_and]
      cases hl : alookup (e.trial, e.nh) b.tests with
      | none =>
        by_cases hh : h = e.nh
        · subst hh; simp [alookup_aset_eq]
        · simp [hh, alookup_aset_ne hh]
      | some vs => simp
    · simp [hd, hn]

/-- hashToOrder only ever holds the series stamp of a numerator measurement with that hash -/
theorem hto_sound (o : Opts) (evs : List Ev) (h s : Bytes) (hl : alookup h (build o evs).hto = some s) :
    ∃ e ∈ evs, e.isNum o = true ∧ e.nh = h ∧ e.ser = s := by
  induction evs using List.reverseRecOn with
  | nil => simp [build, alookup] at hl
  | append_singleton evs e ih =>
    rw [build_snoc, add_hto] at hl
    split at hl
    · rename_i hc
      simp only [Option.some.injEq] at hl
      exact ⟨e, by simp, hc.1, hc.2.2.symm, hl⟩
    · obtain ⟨x, hx, h'⟩ := ih hl
      exact ⟨x, by simp [hx], h'⟩

/-- every existing test key has a hashToOrder entry -/
theorem hto_present (o : Opts) (evs : List Ev) (key : TrialKey × Bytes)
    (hp : (alookup key (build o evs).tests).isSome = true) : (alookup key.2 (build o evs).hto).isSome = true := by
  induction evs using List.reverseRecOn with
  | nil => simp [build, alookup] at hp
  | append_singleton evs e ih =>
    rw [build_snoc, add_tests] at hp
    rw [build_snoc, add_hto]
    by_cases hh : hitsTest o key e = true
    · obtain ⟨hn, hk⟩ := (hitsTest_iff o key e).mp hh
      subst hk
      cases hl : alookup (e.trial, e.nh) (build o evs).tests with
      | none => simp [hn]
      | some vs =>
        have := ih (by simp [hl])
        simpa [hl] using this
    · have hh' : hitsTest o key e = false := by simpa using hh
      simp only [hh', Bool.false_eq_true, if_false] at hp
      have := ih hp
      split
      · simp
      · exact this

end C18
