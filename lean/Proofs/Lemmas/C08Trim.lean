/-
Helper lemmas for C08: trailing-empty trimming, row equality, the bucket scan.
-/
import Model.Proc.Projection

namespace C08
open Proc.Sort Proc.Projection

theorem getVal_nil (i : Nat) : getVal [] i = [] := by simp [getVal]
theorem getVal_zero (x : Bytes) (xs : List Bytes) : getVal (x :: xs) 0 = x := by simp [getVal]
theorem getVal_succ (x : Bytes) (xs : List Bytes) (i : Nat) : getVal (x :: xs) (i + 1) = getVal xs i := by
  simp [getVal]

theorem getVal_of_le (r : List Bytes) (i : Nat) (h : r.length ≤ i) : getVal r i = [] := by
  unfold getVal
  simp [List.getD, List.getElem?_eq_none h]

theorem trim_cons (x : Bytes) (xs : List Bytes) :
    trim (x :: xs) = if trim xs = [] then (if x = [] then [] else [x]) else x :: trim xs := by
  cases h : trim xs with
  | nil => cases x <;> simp [trim, h]
  | cons y ys => simp [trim, h]

theorem trim_nil_iff (r : List Bytes) : trim r = [] ↔ ∀ i, getVal r i = [] := by
  induction r with
  | nil => simp [trim, getVal_nil]
  | cons x xs ih =>
    rw [trim_cons]
    constructor
    · intro h i
      by_cases ht : trim xs = []
      · rw [if_pos ht] at h
        by_cases hx : x = []
        · cases i with
          | zero => rw [getVal_zero]; exact hx
          | succ j => rw [getVal_succ]; exact ih.mp ht j
        · rw [if_neg hx] at h; simp at h
      · rw [if_neg ht] at h; simp at h
    · intro h
      have ht : trim xs = [] := ih.mpr (fun i => by have := h (i + 1); rwa [getVal_succ] at this)
      have hx : x = [] := by have := h 0; rwa [getVal_zero] at this
      simp [ht, hx]

/-- Rows that agree on every index (missing = "") trim to the same row. -/
theorem trim_eq_of_getVal_eq : ∀ (r₁ r₂ : List Bytes), (∀ i, getVal r₁ i = getVal r₂ i) → trim r₁ = trim r₂
  | [], r₂, h => by
    have : trim r₂ = [] := (trim_nil_iff r₂).mpr (fun i => by rw [← h i, getVal_nil])
    rw [this]; rfl
  | x :: xs, [], h => by
    have : trim (x :: xs) = [] := (trim_nil_iff _).mpr (fun i => by rw [h i, getVal_nil])
    rw [this]; rfl
  | x :: xs, y :: ys, h => by
    have hxy : x = y := by have := h 0; rwa [getVal_zero, getVal_zero] at this
    have ih := trim_eq_of_getVal_eq xs ys (fun i => by have := h (i + 1); rwa [getVal_succ, getVal_succ] at this)
    rw [trim_cons, trim_cons, ih, hxy]

/-- Trimming does not change any value (missing = ""). -/
theorem getVal_trim (r : List Bytes) (i : Nat) : getVal (trim r) i = getVal r i := by
  induction r generalizing i with
  | nil => rfl
  | cons x xs ih =>
    rw [trim_cons]
    by_cases ht : trim xs = []
    · rw [if_pos ht]
      have hz := (trim_nil_iff xs).mp ht
      by_cases hx : x = []
      · rw [if_pos hx]
        cases i with
        | zero => rw [getVal_zero, getVal_nil, hx]
        | succ j => rw [getVal_succ, getVal_nil, hz j]
      · rw [if_neg hx]
        cases i with
        | zero => rw [getVal_zero, getVal_zero]
        | succ j => rw [getVal_succ, getVal_succ, getVal_nil, hz j]
    · rw [if_neg ht]
      cases i with
      | zero => rw [getVal_zero, getVal_zero]
      | succ j => rw [getVal_succ, getVal_succ, ih]

theorem trim_idem (r : List Bytes) : trim (trim r) = trim r :=
  trim_eq_of_getVal_eq _ _ (getVal_trim r)

theorem trim_length_le (r : List Bytes) : (trim r).length ≤ r.length := by
  induction r with
  | nil => simp [trim]
  | cons x xs ih =>
    rw [trim_cons]
    by_cases ht : trim xs = []
    · rw [if_pos ht]; by_cases hx : x = [] <;> simp [hx]
    · rw [if_neg ht]; simp; omega

/-- Two trimmed rows that agree on every index are the same row. -/
theorem eq_of_trimmed (a b : List Bytes) (ha : trim a = a) (hb : trim b = b)
    (h : ∀ i, getVal a i = getVal b i) : a = b := by
  rw [← ha, ← hb]; exact trim_eq_of_getVal_eq a b h

theorem equalRow_iff : ∀ (a b : List Bytes), equalRow a b = true ↔ a = b
  | [], [] => by simp [equalRow]
  | [], _ :: _ => by simp [equalRow]
  | _ :: _, [] => by simp [equalRow]
  | x :: xs, y :: ys => by
    have ih := equalRow_iff xs ys
    unfold equalRow at ih ⊢
    by_cases hl : xs.length = ys.length
    · simp [hl] at ih ⊢
      rw [ih]
      intro _; exact Iff.rfl
    · have : ¬ xs = ys := fun e => hl (by rw [e])
      simp [hl, this]

theorem findNode_none (nodes : List Node) (hv : UInt64) (row : List Bytes) (i : Nat)
    (h : findNode nodes hv row i = none) : ∀ n ∈ nodes, ¬ (n.hash = hv ∧ n.vals = row) := by
  induction nodes generalizing i with
  | nil => simp
  | cons n ns ih =>
    unfold findNode at h
    split at h
    · simp at h
    · rename_i hc
      intro m hm
      simp only [List.mem_cons] at hm
      rcases hm with rfl | hm
      · intro ⟨h1, h2⟩
        apply hc
        simp [h1, (equalRow_iff _ _).mpr h2]
      · exact ih (i + 1) h m hm

theorem findNode_some (nodes : List Node) (hv : UInt64) (row : List Bytes) (i k : Nat)
    (h : findNode nodes hv row i = some k) :
    i ≤ k ∧ ∃ n, nodes[k - i]? = some n ∧ n.vals = row := by
  induction nodes generalizing i with
  | nil => simp [findNode] at h
  | cons n ns ih =>
    unfold findNode at h
    split at h
    · rename_i hc
      simp at h; subst h
      simp only [Bool.and_eq_true] at hc
      exact ⟨Nat.le_refl _, n, by simp, (equalRow_iff _ _).mp hc.2⟩
    · obtain ⟨h1, m, h2, h3⟩ := ih (i + 1) h
      refine ⟨by omega, m, ?_, h3⟩
      have : k - i = (k - (i + 1)) + 1 := by omega
      rw [this]; simpa using h2

end C08
