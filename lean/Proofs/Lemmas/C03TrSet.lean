/-
C03 — truncating runs of the decimal slow path, part 6: `decimal.set` on a text with MORE than 800
significant digits (all the excess after the decimal point — the other case is finding N3):
the decimal is the text's value cut to 800 digits, `trunc` set exactly when something non-zero
was cut.
-/
import Proofs.Lemmas.C03DecSet
import Proofs.Lemmas.C03Track

namespace C03
open Num Spec.NumText

/-- the integer part of the reference value only grows while reading on -/
theorem refMant_int_ge (t : Bytes) : ∀ (M F : Nat) (dot : Bool), (dot = false → F = 0) →
    M / 10 ^ F ≤ (refMant false t M F dot).1 / 10 ^ (refMant false t M F dot).2 := by
  induction t with
  | nil => intro M F dot _; exact Nat.le_refl _
  | cons c cs ih =>
    intro M F dot hF
    by_cases h95 : c = 95
    · subst h95; rw [refMant_us]; exact ih M F dot hF
    · by_cases h46 : c = 46
      · subst h46; rw [refMant_dot]
        cases dot with
        | false =>
          have := hF rfl; subst this
          exact ih M 0 true (fun h => by cases h)
        | true => exact ih M F true (fun h => by cases h)
      · by_cases hdec : isDec c = true
        · have hdS : digS false c = true := hdec
          rw [refMant_dig false c cs M F _ hdS]
          have hb10 : baseOf false = 10 := rfl
          rw [hb10]
          cases dot with
          | false =>
            have := hF rfl; subst this
            simp only [Bool.false_eq_true, if_false]
            have := ih (M * 10 + digVal c) 0 false (fun _ => rfl)
            simp only [Nat.pow_zero, Nat.div_one] at this ⊢
            omega
          | true =>
            simp only [if_true]
            have := ih (M * 10 + digVal c) (F + 1) true (fun h => by cases h)
            have h2 : M / 10 ^ F ≤ (M * 10 + digVal c) / 10 ^ (F + 1) := by
              rw [Nat.pow_succ, ← Nat.div_div_eq_div_mul]
              have hpp : 0 < 10 ^ F := Nat.pow_pos (by decide)
              rw [Nat.le_div_iff_mul_le (by decide), Nat.le_div_iff_mul_le hpp]
              have := Nat.div_mul_le_self M (10 ^ F)
              have e : M / 10 ^ F * 10 * 10 ^ F = (M / 10 ^ F * 10 ^ F) * 10 := by ring
              omega
            omega
        · simp only [Bool.not_eq_true] at hdec
          have hdS : digS false c = false := hdec
          rw [refMant_stop false (c :: cs) M F _ (Or.inr ⟨c, cs, rfl, h95, h46, hdS⟩)]

/-- the state of `set`'s digit loop against the reference value `M` (with `F` fraction digits):
`r` digits of value `D` have been dropped since the buffer filled up -/
structure SInvT (ss : SetSt) (M F r D : Nat) : Prop where
  v : valOf 10 ss.acc.reverse * 10 ^ r + D = M
  dlt : D < 10 ^ r
  len : ss.acc.length = ss.nd
  cap : ss.nd ≤ bufLen
  full : 0 < r → ss.nd = bufLen
  dig : ss.acc.all isDec = true
  d3 : ss.sawdot = true → (ss.nd : Int) + r - ss.dp = F
  d4 : ss.sawdot = false → F = 0 ∧ r = 0
  lead : ∀ c cs, ss.acc.reverse = c :: cs → c ≠ 48
  tr : ss.trunc = decide (D ≠ 0)

theorem sinvT_init : SInvT {} 0 0 0 0 := by
  constructor <;> simp [valOf, bufLen]

theorem setLoop_invT (t : Bytes) : ∀ (ss : SetSt) (M F r D : Nat), SInvT ss M F r D →
    (refMant false t M F ss.sawdot).1 / 10 ^ (refMant false t M F ss.sawdot).2 < 10 ^ 800 →
    ∀ ss' rest, setLoop t ss = some (ss', rest) →
    ∃ r' D', SInvT ss' (refMant false t M F ss.sawdot).1 (refMant false t M F ss.sawdot).2 r' D' := by
  induction t with
  | nil =>
    intro ss M F r D inv _ ss' rest h
    simp only [setLoop, Option.some.injEq, Prod.mk.injEq] at h
    obtain ⟨rfl, _⟩ := h
    exact ⟨r, D, by simpa [refMant] using inv⟩
  | cons c cs ih =>
    intro ss M F r D inv hlt ss' rest h
    by_cases h95 : c = 95
    · subst h95
      rw [setLoop_us] at h; rw [refMant_us] at hlt ⊢
      exact ih ss M F r D inv hlt ss' rest h
    · have e95 : (c == 95) = false := by simpa using h95
      unfold setLoop at h
      simp only [e95, Bool.false_eq_true, if_false] at h
      by_cases h46 : c = 46
      · subst h46
        rw [refMant_dot] at hlt ⊢
        simp only [beq_self_eq_true, if_true] at h
        by_cases hs : ss.sawdot = true
        · simp [hs] at h
        · simp only [Bool.not_eq_true] at hs
          simp only [hs, Bool.false_eq_true, if_false] at h
          obtain ⟨hF, hr⟩ := inv.d4 hs
          have inv' : SInvT { ss with sawdot := true, dp := ss.nd } M F r D :=
            ⟨inv.v, inv.dlt, inv.len, inv.cap, inv.full, inv.dig, fun _ => by simp [hF, hr], fun h => by simp at h,
              inv.lead, inv.tr⟩
          exact ih _ M F r D inv' hlt ss' rest h
      · have e46 : (c == 46) = false := by simpa using h46
        simp only [e46, Bool.false_eq_true, if_false] at h
        rw [(mant_byte_facts c).1] at h
        by_cases hdec : isDec c = true
        · obtain ⟨hv, h9, _, _, h0⟩ := (mant_byte_facts c).2.1 hdec
          have hdS : digS false c = true := hdec
          rw [refMant_dig false c cs M F _ hdS] at hlt ⊢
          have hb10 : baseOf false = 10 := rfl
          rw [hb10] at hlt ⊢
          simp only [hdec, if_true] at h
          have hbl : bufLen = 800 := rfl
          by_cases hz : (c == 48 && ss.nd == 0) = true
          · simp only [hz, if_true] at h
            simp only [Bool.and_eq_true, beq_iff_eq] at hz
            have hd0 : digVal c = 0 := h0.mp (by simp [hz.1])
            have hacc : ss.acc = [] := List.length_eq_zero_iff.mp (by rw [inv.len, hz.2])
            have hr0 : r = 0 := by
              rcases Nat.eq_zero_or_pos r with h | h
              · exact h
              · have := inv.full h; omega
            have hD0 : D = 0 := by have := inv.dlt; rw [hr0] at this; simpa using this
            have hM : M = 0 := by have := inv.v; rw [hacc, hr0, hD0] at this; simpa [valOf] using this.symm
            have inv' : SInvT { ss with sawdigits := true, dp := ss.dp - 1 } (M * 10 + digVal c) (if ss.sawdot then F + 1 else F) r D := by
              refine ⟨by rw [hM, hd0, hacc, hr0, hD0]; simp [valOf], inv.dlt, inv.len, inv.cap, inv.full, inv.dig,
                fun hs => ?_, fun hs => ?_, inv.lead, inv.tr⟩
              · have := inv.d3 hs
                simp only at hs; simp only [hs, if_true]; push_cast; omega
              · have := inv.d4 hs
                simp only at hs; simp [hs, this]
            exact ih _ _ _ r D inv' hlt ss' rest h
          · simp only [hz, Bool.false_eq_true, if_false] at h
            by_cases hcap : ss.nd < bufLen
            · simp only [hcap, if_true] at h
              have hr0 : r = 0 := by
                rcases Nat.eq_zero_or_pos r with h | h
                · exact h
                · have := inv.full h; omega
              have hD0 : D = 0 := by have := inv.dlt; rw [hr0] at this; simpa using this
              have hMv : valOf 10 ss.acc.reverse = M := by have := inv.v; rw [hr0, hD0] at this; simpa using this
              have inv' : SInvT { ss with sawdigits := true, acc := c :: ss.acc, nd := ss.nd + 1 }
                  (M * 10 + digVal c) (if ss.sawdot then F + 1 else F) 0 0 := by
                refine ⟨?_, by simp, by simp [inv.len], by show ss.nd + 1 ≤ bufLen; omega, fun h => by omega,
                  by simp [hdec, inv.dig], fun hs => ?_, fun hs => ?_, ?_, ?_⟩
                · show valOf 10 (c :: ss.acc).reverse * 10 ^ 0 + 0 = M * 10 + digVal c
                  rw [List.reverse_cons, valOf_snoc, hMv]; simp
                · have := inv.d3 hs
                  simp only at hs; simp only [hs, if_true]; push_cast; omega
                · have := inv.d4 hs
                  simp only at hs; simp [hs, this.1]
                · intro x xs hx
                  simp only [List.reverse_cons] at hx
                  cases hr : ss.acc.reverse with
                  | nil =>
                    rw [hr] at hx; simp at hx
                    have hnd0 : ss.nd = 0 := by
                      have : ss.acc = [] := by simpa using hr
                      rw [← inv.len, this]; rfl
                    intro h48
                    apply hz
                    simp [hx.1, h48, hnd0]
                  | cons y ys =>
                    rw [hr] at hx
                    injection hx with hx _
                    rw [← hx]; exact inv.lead y ys hr
                · have := inv.tr; rw [hD0] at this; simpa using this
              exact ih _ _ _ 0 0 inv' hlt ss' rest h
            · -- the buffer is full: the digit is dropped
              simp only [hcap, if_false] at h
              have hnd : ss.nd = bufLen := by have := inv.cap; omega
              -- this can only happen after the point
              have hsd : ss.sawdot = true := by
                cases hs : ss.sawdot with
                | true => rfl
                | false =>
                  exfalso
                  obtain ⟨hF, hr⟩ := inv.d4 hs
                  have hD0 : D = 0 := by have := inv.dlt; rw [hr] at this; simpa using this
                  have hMv : valOf 10 ss.acc.reverse = M := by have := inv.v; rw [hr, hD0] at this; simpa using this
                  have hlen : 800 ≤ ss.acc.reverse.length := by rw [List.length_reverse, inv.len]; omega
                  have hMlo : 10 ^ 799 ≤ M := by
                    cases hr' : ss.acc.reverse with
                    | nil => rw [hr'] at hlen; simp at hlen
                    | cons y ys =>
                      have hdy : isDec y = true := by
                        have := inv.dig
                        rw [← List.all_reverse, hr', List.all_cons, Bool.and_eq_true] at this
                        exact this.1
                      have := valOf_ge_of_head ss.acc.reverse y ys hr' hdy (inv.lead y ys hr')
                      rw [hMv] at this
                      calc 10 ^ 799 ≤ 10 ^ (ss.acc.reverse.length - 1) := Nat.pow_le_pow_right (by decide) (by omega)
                        _ ≤ M := this
                  rw [hs, hF] at hlt
                  simp only [Bool.false_eq_true, if_false] at hlt
                  have hge := refMant_int_ge cs (M * 10 + digVal c) 0 false (fun _ => rfl)
                  simp only [Nat.pow_zero, Nat.div_one] at hge
                  have : (10 : Nat) ^ 800 = 10 ^ 799 * 10 := by rw [← Nat.pow_succ]
                  omega
              have hD' : D * 10 + digVal c < 10 ^ (r + 1) := by
                have := inv.dlt; rw [Nat.pow_succ]; omega
              have hv' : valOf 10 ss.acc.reverse * 10 ^ (r + 1) + (D * 10 + digVal c) = M * 10 + digVal c := by
                rw [← inv.v, Nat.pow_succ]; ring
              have hd3' : (ss.nd : Int) + ((r + 1 : Nat) : Int) - ss.dp = ((F + 1 : Nat) : Int) := by
                have := inv.d3 hsd; push_cast; omega
              by_cases hc48 : (c != 48) = true
              · simp only [hc48, if_true] at h
                have hdv : digVal c ≠ 0 := fun h0' => by
                  have := h0.mpr h0'
                  simp only [bne_iff_ne, ne_eq] at hc48
                  exact hc48 (by simpa using this)
                have inv' : SInvT { ss with sawdigits := true, trunc := true } (M * 10 + digVal c)
                    (if ss.sawdot then F + 1 else F) (r + 1) (D * 10 + digVal c) := by
                  refine ⟨hv', hD', inv.len, inv.cap, fun _ => hnd, inv.dig, fun _ => ?_, fun hs => ?_, inv.lead, ?_⟩
                  · simp only [hsd, if_true]; exact hd3'
                  · simp only at hs; rw [hsd] at hs; cases hs
                  · show true = decide (D * 10 + digVal c ≠ 0)
                    symm; apply decide_eq_true; omega
                exact ih _ _ _ _ _ inv' hlt ss' rest h
              · simp only [hc48, Bool.false_eq_true, if_false] at h
                have hdv : digVal c = 0 := by
                  apply h0.mp
                  simp only [bne_iff_ne, ne_eq, Bool.not_eq_true, bne_eq_false_iff_eq] at hc48
                  have : c = 48 := Classical.byContradiction (fun hn => hc48 hn)
                  simp [this]
                have inv' : SInvT { ss with sawdigits := true } (M * 10 + digVal c)
                    (if ss.sawdot then F + 1 else F) (r + 1) (D * 10 + digVal c) := by
                  refine ⟨hv', hD', inv.len, inv.cap, fun _ => hnd, inv.dig, fun _ => ?_, fun hs => ?_, inv.lead, ?_⟩
                  · simp only [hsd, if_true]; exact hd3'
                  · simp only at hs; rw [hsd] at hs; cases hs
                  · show ss.trunc = decide (D * 10 + digVal c ≠ 0)
                    rw [inv.tr, hdv]
                    by_cases hD0 : D = 0
                    · simp [hD0]
                    · have : D * 10 + 0 ≠ 0 := by omega
                      simp [hD0, this]
                exact ih _ _ _ _ _ inv' hlt ss' rest h
        · simp only [Bool.not_eq_true] at hdec
          simp only [hdec, Bool.false_eq_true, if_false, Option.some.injEq, Prod.mk.injEq] at h
          obtain ⟨rfl, _⟩ := h
          have hdS : digS false c = false := hdec
          rw [refMant_stop false (c :: cs) M F _ (Or.inr ⟨c, cs, rfl, h95, h46, hdS⟩)]
          exact ⟨r, D, inv⟩

end C03

namespace C03
open Num Spec.NumText

theorem all_takeWhile (p : UInt8 → Bool) : ∀ l : Bytes, (l.takeWhile p).all p = true := by
  intro l
  induction l with
  | nil => rfl
  | cons c cs ih =>
    rw [List.takeWhile_cons]
    split
    · rename_i h; rw [List.all_cons, h, ih]; rfl
    · rfl

theorem spFP_digits (u : Bytes) : (spFP isDec u).all isDec = true := by
  unfold spFP
  split
  · exact all_takeWhile _ _
  · rfl

/-- the body of `set` on a text whose integer part has at most 800 significant digits: the
decimal is the value cut to the buffer -/
theorem setBody_specT (neg : Bool) (t : Bytes) (prev : Bool) (hu : underscoresOK isDec prev t = true) :
    ∀ M E, parseBody isDec 10 101 1 false (strip t) = some (M, E) →
      valOf 10 ((strip t).takeWhile isDec) < 10 ^ 800 →
      ∃ d, (match setLoop t {} with
        | none => (none : Option Dc)
        | some (st, rest) => if !st.sawdigits then none else (tailAdj false rest).map (fun x => mkDc st neg x)) = some d ∧
        WF d ∧ d.neg = neg ∧ (M = 0 → d.d = [] ∧ d.trunc = false) ∧
        (M ≠ 0 → d.d ≠ [] ∧ dval d ≤ (M : ℚ) * (10 : ℚ) ^ (E + expGap isDec (strip t)) ∧ (M : ℚ) * (10 : ℚ) ^ (E + expGap isDec (strip t)) < dval d + (10 : ℚ) ^ (d.dp - 800) ∧
          (d.trunc = false → dval d = (M : ℚ) * (10 : ℚ) ^ (E + expGap isDec (strip t))) ∧ (d.trunc = true → dval d < (M : ℚ) * (10 : ℚ) ^ (E + expGap isDec (strip t)))) := by
  have hpb := parseBody_eq2 false (strip t)
  have ed : digS false = isDec := rfl
  have eb : baseOf false = 10 := rfl
  simp only [ed, eb, Bool.false_eq_true, if_false] at hpb
  rw [hpb]
  have hsim := setLoop_sim t {} {} rfl rfl (by simp)
  have hu' : underscoresOK (digS false) prev t = true := hu
  rcases mant_phase false t with ⟨hm, r'', hr2⟩ | ⟨ms, rest, hm, hstrip, hsd, href⟩
  · rw [ed] at hr2
    rw [hr2, spTail_dot]
    intro M E h; split at h <;> simp at h
  · rw [hm] at hsim
    rw [ed] at hstrip hsd href
    cases hs : setLoop t {} with
    | none => rw [hs] at hsim; simp at hsim
    | some p =>
      obtain ⟨ss, rest'⟩ := p
      rw [hs] at hsim
      simp only [Option.map_some, Option.some.injEq, Prod.mk.injEq] at hsim
      obtain ⟨hdot, hdig, hrest⟩ := hsim
      subst hrest
      simp only []
      by_cases hnd : (((strip t).takeWhile isDec).isEmpty && (spFP isDec (strip t)).isEmpty) = true
      · rw [if_pos hnd]
        intro M E h; cases h
      · rw [if_neg hnd]
        have hsd' : ss.sawdigits = true := by
          rw [hdig, hsd]; simp only [Bool.not_eq_true] at hnd; rw [hnd]; rfl
        simp only [hsd', Bool.not_true, Bool.false_eq_true, if_false]
        obtain ⟨t1, t2⟩ := tail_spec false rest' (mantLoop_rest false t {} ms rest' hm) (mantLoop_uok false t prev {} ms rest' hu' hm)
        rw [hstrip] at t1 t2
        cases hsp : spTail false (spR2 isDec (strip t)) with
        | none =>
          intro M E h; simp at h
        | some x =>
          obtain ⟨y, hy, hyx⟩ := t2 x hsp
          rw [hy]
          intro M E h hInt
          simp only [Option.map_some, Option.some.injEq, Prod.mk.injEq] at h
          obtain ⟨hMe, hEe⟩ := h
          have hyx' : y = x + expGap isDec (strip t) := by unfold expGap; exact hyx
          have hrefM : (refMant false t 0 0 false).1 = M := by rw [href]; exact hMe
          have hF : (refMant false t 0 0 false).2 = (spFP isDec (strip t)).length := by rw [href]
          -- the integer part of the reference value
          have hint : (refMant false t 0 0 false).1 / 10 ^ (refMant false t 0 0 false).2 < 10 ^ 800 := by
            rw [href]
            simp only [eb]
            rw [valOf_append10]
            have hfp := valOf_lt _ (spFP_digits (strip t))
            have hpp : 0 < 10 ^ (spFP isDec (strip t)).length := Nat.pow_pos (by decide)
            have : (valOf 10 ((strip t).takeWhile isDec) * 10 ^ (spFP isDec (strip t)).length + valOf 10 (spFP isDec (strip t))) /
                10 ^ (spFP isDec (strip t)).length = valOf 10 ((strip t).takeWhile isDec) := by
              apply Nat.div_eq_of_lt_le
              · omega
              · have : (valOf 10 ((strip t).takeWhile isDec) + 1) * 10 ^ (spFP isDec (strip t)).length =
                    valOf 10 ((strip t).takeWhile isDec) * 10 ^ (spFP isDec (strip t)).length + 10 ^ (spFP isDec (strip t)).length := by ring
                omega
            rw [this]; exact hInt
          obtain ⟨r, D, sinv⟩ := setLoop_invT t {} 0 0 0 0 sinvT_init hint ss rest' hs
          rw [hrefM, hF] at sinv
          generalize hFl : (spFP isDec (strip t)).length = Fl at *
          have hbl : bufLen = 800 := rfl
          -- kept digits: no leading zero, so a non-empty buffer has a positive value
          have hkpos : ss.acc.reverse ≠ [] → 0 < valOf 10 ss.acc.reverse := by
            intro hne
            cases hr : ss.acc.reverse with
            | nil => exact absurd hr hne
            | cons c0 cs0 =>
              have hdc : isDec c0 = true := by
                have := sinv.dig
                rw [← List.all_reverse, hr, List.all_cons, Bool.and_eq_true] at this; exact this.1
              have hlo := valOf_ge_of_head ss.acc.reverse c0 cs0 hr hdc (sinv.lead c0 cs0 hr)
              rw [hr] at hlo
              have := Nat.pow_pos (n := (c0 :: cs0).length - 1) (by decide : 0 < 10)
              omega
          refine ⟨mkDc ss neg y, rfl, ?_, rfl, ?_, ?_⟩
          · refine ⟨by show ss.acc.reverse.all isDec = true; rw [List.all_reverse]; exact sinv.dig, ?_, sinv.lead⟩
            show ss.acc.reverse.length ≤ bufLen
            rw [List.length_reverse, sinv.len]; exact sinv.cap
          · intro hM0
            have hv := sinv.v
            rw [hM0] at hv
            have hD0 : D = 0 := by omega
            have hk0 : valOf 10 ss.acc.reverse * 10 ^ r = 0 := by omega
            have hk : valOf 10 ss.acc.reverse = 0 := by
              rcases Nat.mul_eq_zero.mp hk0 with h | h
              · exact h
              · exact absurd h (Nat.pos_of_ne_zero (by positivity)).ne'
            constructor
            · show ss.acc.reverse = []
              apply Classical.byContradiction
              intro hne
              have := hkpos hne; omega
            · show ss.trunc = false
              rw [sinv.tr, hD0]; simp
          · intro hM0
            have hne : ss.acc.reverse ≠ [] := by
              intro hnil
              have hacc : ss.acc = [] := by simpa using hnil
              have hnd0 : ss.nd = 0 := by rw [← sinv.len, hacc]; rfl
              have hr0 : r = 0 := by
                rcases Nat.eq_zero_or_pos r with h | h
                · exact h
                · have := sinv.full h; omega
              have hv := sinv.v
              have hd := sinv.dlt
              rw [hnil, hr0] at hv
              rw [hr0] at hd
              apply hM0
              simp [valOf] at hv
              omega
            refine ⟨hne, ?_⟩
            generalize hE2 : E + expGap isDec (strip t) = E2
            -- the exponent of the last kept digit
            have hexp : (if !ss.sawdot then (ss.nd : Int) else ss.dp) + y - (ss.acc.reverse.length : Int) = E2 + r := by
              rw [List.length_reverse, sinv.len]
              cases hsd0 : ss.sawdot
              · obtain ⟨a, b⟩ := sinv.d4 hsd0
                simp only [Bool.not_false, if_true]; rw [b]; push_cast; omega
              · have := sinv.d3 hsd0
                simp only [Bool.not_true, Bool.false_eq_true, if_false]; push_cast; omega
            have hdv : dval (mkDc ss neg y) = (valOf 10 ss.acc.reverse : ℚ) * (10 : ℚ) ^ (E2 + r) := by
              show (valOf 10 ss.acc.reverse : ℚ) * (10 : ℚ) ^ ((if !ss.sawdot then (ss.nd : Int) else ss.dp) + y - (ss.acc.reverse.length : Int)) = _
              rw [hexp]
            have hMq : (M : ℚ) = (valOf 10 ss.acc.reverse : ℚ) * (10 : ℚ) ^ r + D := by
              have := sinv.v
              have : ((valOf 10 ss.acc.reverse * 10 ^ r + D : Nat) : ℚ) = (M : ℚ) := by rw [this]
              push_cast at this; linarith
            have hV : (M : ℚ) * (10 : ℚ) ^ E2 = dval (mkDc ss neg y) + (D : ℚ) * (10 : ℚ) ^ E2 := by
              rw [hdv, hMq, zpow_add₀ (by norm_num : (10 : ℚ) ≠ 0), zpow_natCast]; ring
            have hE : (0 : ℚ) < (10 : ℚ) ^ E2 := zpow_pos (by norm_num) _
            have hDq : (0 : ℚ) ≤ (D : ℚ) := Nat.cast_nonneg _
            have hDlt : (D : ℚ) < (10 : ℚ) ^ r := by exact_mod_cast sinv.dlt
            refine ⟨by rw [hV]; exact le_add_of_nonneg_right (mul_nonneg hDq hE.le), ?_, ?_, ?_⟩
            · rw [hV]
              by_cases hD0 : D = 0
              · rw [hD0]; simp only [Nat.cast_zero, zero_mul, add_zero]
                have : (0 : ℚ) < (10 : ℚ) ^ ((mkDc ss neg y).dp - 800) := zpow_pos (by norm_num) _
                linarith
              · have hr0 : 0 < r := by
                  rcases Nat.eq_zero_or_pos r with h | h
                  · have := sinv.dlt; rw [h] at this; omega
                  · exact h
                have hnd := sinv.full hr0
                have hgrid : (mkDc ss neg y).dp - 800 = E2 + r := by
                  have e1 : ((mkDc ss neg y).dp : Int) = (if !ss.sawdot then (ss.nd : Int) else ss.dp) + y := rfl
                  rw [e1]
                  rw [List.length_reverse, sinv.len] at hexp
                  have e2 : ((ss.nd : Nat) : Int) = 800 := by rw [hnd]; rfl
                  generalize (if !ss.sawdot then (ss.nd : Int) else ss.dp) = A at *
                  omega
                rw [hgrid, zpow_add₀ (by norm_num : (10 : ℚ) ≠ 0), zpow_natCast]
                have := mul_lt_mul_of_pos_right hDlt hE
                rw [mul_comm ((10 : ℚ) ^ E2) ((10 : ℚ) ^ r)]
                exact add_lt_add_right this _
            · intro htr
              have hD0 : D = 0 := by
                have : ss.trunc = false := htr
                rw [sinv.tr] at this
                simpa using this
              rw [hV, hD0]; simp
            · intro htr
              have hD0 : D ≠ 0 := by
                have : ss.trunc = true := htr
                rw [sinv.tr] at this
                simpa using this
              rw [hV]
              have : (0 : ℚ) < (D : ℚ) := by exact_mod_cast Nat.pos_of_ne_zero hD0
              exact lt_add_of_pos_right _ (mul_pos this hE)

end C03

namespace C03
open Num Spec.NumText

theorem valOf_lt_sig : ∀ (l : Bytes), l.all isDec = true → valOf 10 l < 10 ^ (l.dropWhile (· == 48)).length := by
  intro l
  induction l with
  | nil => intro _; simp [valOf]
  | cons c cs ih =>
    intro h
    rw [List.all_cons, Bool.and_eq_true] at h
    by_cases hc : (c == 48) = true
    · rw [List.dropWhile_cons, if_pos hc, valOf_cons10]
      have : c = 48 := by simpa using hc
      subst this
      have d0 : digVal 48 = 0 := by decide
      rw [d0, Nat.zero_mul, Nat.zero_add]
      exact ih h.2
    · rw [List.dropWhile_cons, if_neg hc]
      exact valOf_lt (c :: cs) (by rw [List.all_cons, h.1, h.2]; rfl)

/-- **`decimal.set` on any recognised decimal text outside the class of finding N3** (at most 800
significant digits BEFORE the point; any number after it): the decimal is the text's value cut
to the 800-digit buffer, `trunc` set exactly when a non-zero digit was cut. -/
theorem decSet_specT (s : Bytes) (hu : underscoreOK s = true) :
    ∀ p, recognise s = some p → p.hex = false → (mantDigits s).1.length ≤ 800 →
      ∃ d, decSet s = some d ∧ WF d ∧ d.neg = p.neg ∧ (p.mant = 0 → d.d = [] ∧ d.trunc = false) ∧
        (p.mant ≠ 0 → d.d ≠ [] ∧ dval d ≤ valueOf (clampP p (expGapS s)) ∧
          valueOf (clampP p (expGapS s)) < dval d + (10 : ℚ) ^ (d.dp - 800) ∧
          (d.trunc = false → dval d = valueOf (clampP p (expGapS s))) ∧
          (d.trunc = true → dval d < valueOf (clampP p (expGapS s)))) := by
  cases s with
  | nil =>
    have : recognise [] = none := by decide
    intro p h; rw [this] at h; cases h
  | cons c0 tl =>
    rw [underscoreOK_cons] at hu
    rw [recognise_cons, decSet_cons]
    unfold expGapS mantDigits
    rw [splitSign_cons]
    simp only []
    generalize bodyOf c0 tl = body at *
    rcases body_cases body with ⟨x, y, b, hb, hx⟩ | ⟨x, hb, hx⟩ | ⟨x, r, hb, hx⟩ | ⟨h1, h2, h3⟩
    · subst hb
      have e1 : (lower x == 120) = true := by simp [hx]
      have e2 : (lowerc x == 120) = true := by rw [← (prefix_byte_facts x).1]; exact e1
      have hp : isHexPrefix (48 :: x :: y :: b) = true := by simp [isHexPrefix, e2]
      simp only [hp, if_true]
      intro p h hh
      exfalso
      split at h
      · cases h
      · cases hpb : parseBody isHexDig 16 112 4 true (strip (List.drop 2 (48 :: x :: y :: b))) with
        | none => rw [hpb] at h; cases h
        | some q => rw [hpb] at h; simp only [Option.map_some, Option.some.injEq] at h; rw [← h] at hh; cases hh
    · subst hb
      have e1 : (lower x == 120) = true := by simp [hx]
      have e2 : (lowerc x == 120) = true := by rw [← (prefix_byte_facts x).1]; exact e1
      have hp : isHexPrefix [48, x] = true := by simp [isHexPrefix, e2]
      simp only [hp, if_true]
      have hpb : parseBody isHexDig 16 112 4 true (strip (List.drop 2 [48, x])) = none := by
        show parseBody isHexDig 16 112 4 true (strip []) = none
        decide
      rw [hpb]
      intro p h; split at h <;> cases h
    · subst hb
      obtain ⟨a1, a2, a3, a4, a5, a6, a7⟩ := (prefix_byte_facts x).2.1 hx
      have e2 : (lowerc x == 120) = false := by simpa using a5
      have hp : isHexPrefix (48 :: x :: r) = false := by simp [isHexPrefix, e2]
      simp only [hp, Bool.false_eq_true, if_false]
      rw [strip_zero_letter x r a1, parseBody_zero_letter x (strip r) a2 a3 a7]
      intro p h; split at h <;> cases h
    · rw [h3, uloop_start] at hu
      have ed : digS false = isDec := rfl
      rw [ed] at hu
      simp only [h1, Bool.false_eq_true, if_false, hu, Bool.not_true]
      have k2 := setBody_specT (c0 == 45) body false hu
      intro p h hh hI
      cases hpb : parseBody isDec 10 101 1 false (strip body) with
      | none => rw [hpb] at h; cases h
      | some q =>
        obtain ⟨M, E⟩ := q
        rw [hpb] at h
        simp only [Option.map_some, Option.some.injEq] at h
        subst h
        have hInt : valOf 10 ((strip body).takeWhile isDec) < 10 ^ 800 := by
          have h1' := valOf_lt_sig ((strip body).takeWhile isDec) (all_takeWhile _ _)
          have h2' : 10 ^ (((strip body).takeWhile isDec).dropWhile (· == 48)).length ≤ 10 ^ 800 :=
            Nat.pow_le_pow_right (by decide) hI
          omega
        obtain ⟨d, e1, e2, e3, e4, e5⟩ := k2 M E hpb hInt
        refine ⟨d, e1, e2, e3, e4, fun hm0 => ?_⟩
        have := e5 hm0
        unfold valueOf clampP
        simpa [h1] using this

end C03
