/-
C03 helper lemmas: the specification's range rule (|value| ≥ 2^1024 − 2^970) is exactly
"the rounding saturates to infinity".
-/
import Proofs.Lemmas.C03Exact

namespace C03
open Num F64 Spec.NumText

theorem threshold_add : overflowThreshold + 2 ^ 970 = 2 ^ 1024 := by decide +kernel

theorem roundMag_threshold : roundMag overflowThreshold 1 = posInf := by decide +kernel

theorem posInf_toNat : posInf.toNat = 0x7FF0000000000000 := by decide

theorem pow_mul_zpow (a : Nat) (b c : Int) (h : (a : Int) + b = c) :
    (2 : ℚ) ^ a * (2 : ℚ) ^ b = (2 : ℚ) ^ c := by
  rw [← zpow_natCast, ← zpow_add₀ (by norm_num : (2 : ℚ) ≠ 0), h]

/-- round-half-even stays at or below c when the value is below c + 1/2 -/
theorem rne_le_of_lt_half (n d c : Nat) (hd : 0 < d) (h : 2 * n < (2 * c + 1) * d) : rne n d ≤ c := by
  rw [rne_def]
  have hdm := Nat.div_add_mod n d
  have hml := Nat.mod_lt n hd
  have e1 : (2 * c + 1) * d = 2 * (c * d) + d := by ring
  have e2 : (c + 1) * d = c * d + d := by ring
  rw [e1] at h
  have hq : n / d ≤ c := by
    apply Nat.le_of_lt_succ
    rw [Nat.div_lt_iff_lt_mul hd, e2]
    omega
  rcases Nat.lt_or_eq_of_le hq with hlt | heq
  · split <;> omega
  · rw [heq] at hdm ⊢
    rw [Nat.mul_comm d c] at hdm
    generalize c * d = cd at *
    have : ¬ (2 * (n % d) > d ∨ 2 * (n % d) = d ∧ c % 2 = 1) := by omega
    rw [if_neg this]

theorem roundMag_inf_iff (n d : Nat) (hd : 0 < d) :
    roundMag n d = posInf ↔ overflowThreshold * d ≤ n := by
  have hT : 0 < overflowThreshold := by decide +kernel
  rcases Nat.eq_zero_or_pos n with h0 | hn
  · subst h0
    constructor
    · intro h; simp [roundMag] at h; exact absurd h (by decide)
    · intro h; have := Nat.mul_pos hT hd; omega
  constructor
  · -- saturates → above the threshold (contrapositive)
    intro hinf
    apply Classical.byContradiction
    intro hlt
    have hlt : n < overflowThreshold * d := by omega
    have hnq : (0 : ℚ) < n := by exact_mod_cast hn
    have hdq : (0 : ℚ) < d := by exact_mod_cast hd
    have hq : (n : ℚ) / d < (overflowThreshold : ℚ) := by
      rw [div_lt_iff₀ hdq]; exact_mod_cast hlt
    have hTq : (overflowThreshold : ℚ) = 2 ^ 1024 - 2 ^ 970 := by
      have : ((overflowThreshold + 2 ^ 970 : Nat) : ℚ) = ((2 ^ 1024 : Nat) : ℚ) := by rw [threshold_add]
      push_cast at this; linarith
    obtain ⟨s1, s2, s3⟩ := shiftOf_specQ n d hn hd
    have hmb : magBits n d < 0x7FF0000000000000 := by
      unfold magBits
      by_cases hs : shiftOf n d ≥ -970
      · have hr : rne (scaled n d (shiftOf n d)).1 (scaled n d (shiftOf n d)).2 ≤ 2 ^ 53 := by
          apply rne_le_of_le_mul _ _ _ (scaled_snd_pos n _ hd)
          have := (shiftOf_spec n d hn hd).2.1
          omega
        have : (1074 - shiftOf n d).toNat ≤ 2044 := by omega
        have := Nat.mul_le_mul_right (2 ^ 52) this
        omega
      · have hs' : shiftOf n d ≤ -971 := by omega
        have hlo := s3 (by omega)
        -- s = −971 exactly
        have hs971 : shiftOf n d = -971 := by
          apply Classical.byContradiction
          intro hne
          have hle : shiftOf n d ≤ -972 := by omega
          have h1 : (2 : ℚ) ^ (shiftOf n d) ≤ 2 ^ (-972 : Int) := zpow_le_zpow_right₀ (by norm_num) hle
          have hqpos : (0 : ℚ) < (n : ℚ) / d := div_pos hnq hdq
          have : (n : ℚ) / d * 2 ^ (shiftOf n d) ≤ (n : ℚ) / d * 2 ^ (-972 : Int) :=
            mul_le_mul_of_nonneg_left h1 hqpos.le
          have h2 : (n : ℚ) / d * 2 ^ (-972 : Int) < (2 ^ 1024 - 2 ^ 970) * 2 ^ (-972 : Int) := by
            apply mul_lt_mul_of_pos_right _ (two_zpow_pos _)
            rw [← hTq]; exact hq
          have h3 : ((2 : ℚ) ^ 1024 - 2 ^ 970) * 2 ^ (-972 : Int) < 2 ^ 52 := by
            rw [sub_mul, pow_mul_zpow 1024 (-972) 52 rfl, pow_mul_zpow 970 (-972) (-2) rfl]
            norm_num
          linarith
        rw [hs971]
        have hr : rne (scaled n d (-971)).1 (scaled n d (-971)).2 ≤ 2 ^ 53 - 1 := by
          apply rne_le_of_lt_half _ _ _ (scaled_snd_pos n _ hd)
          have hp : (0 : ℚ) < ((scaled n d (-971)).2 : ℚ) := by exact_mod_cast scaled_snd_pos n _ hd
          have hrat := scaled_ratio n d (-971)
          have h2 : (n : ℚ) / d * 2 ^ (-971 : Int) < (2 ^ 1024 - 2 ^ 970) * 2 ^ (-971 : Int) := by
            apply mul_lt_mul_of_pos_right _ (two_zpow_pos _)
            rw [← hTq]; exact hq
          have h3 : ((2 : ℚ) ^ 1024 - 2 ^ 970) * 2 ^ (-971 : Int) = 2 ^ 53 - 1 / 2 := by
            rw [sub_mul, pow_mul_zpow 1024 (-971) 53 rfl, pow_mul_zpow 970 (-971) (-1) rfl]
            norm_num
          rw [← hrat, h3, div_lt_iff₀ hp] at h2
          have : (2 * (scaled n d (-971)).1 : ℚ) < ((2 * (2 ^ 53 - 1) + 1 : Nat) : ℚ) * (scaled n d (-971)).2 := by
            push_cast; linarith
          exact_mod_cast this
        have : (1074 - (-971 : Int)).toNat = 2045 := rfl
        rw [this]; omega
    rw [roundMag_eq n d hn hd, if_neg (by omega)] at hinf
    have := congrArg UInt64.toNat hinf
    rw [UInt64.toNat_ofNat', posInf_toNat, Nat.mod_eq_of_lt (by omega)] at this
    omega
  · intro hge
    have hmono := roundMag_mono overflowThreshold 1 n d hT (by decide) hd (by omega)
    rw [roundMag_threshold, posInf_toNat] at hmono
    have hle := roundMag_le_inf n d
    rw [← UInt64.toNat_inj, posInf_toNat]; omega

end C03
