/-
C07 helper lemmas: the tree returned by an error-free run of the filter parser is well formed
(no nil node; a NOT node has exactly one operand).
-/
import Proofs.Lemmas.C07Balance

namespace C07
open Proc.Tok Proc.ParseFilter

/-- no `nil` anywhere; `not` has exactly one operand -/
inductive WF : Filter → Prop
  | lit (k v : Bytes) (off : Int) : WF (.lit k v off)
  | re (k v : Bytes) (off : Int) : WF (.re k v off)
  | op (o : Op) (es : List Filter) : (∀ x, x ∈ es → WF x) → (o = .not → es.length = 1) → WF (.op o es)

theorem wf_finish (o : Op) (ho : o ≠ .not) (terms : List Filter) (h : ∀ x, x ∈ terms → WF x) (hne : terms ≠ []) :
    WF (finish o terms) := by
  unfold finish
  split
  · exact h _ (by simp)
  · exact WF.op o terms h (fun h' => absurd h' ho)

theorem wf_mkMatch (off : Int) (key : Bytes) (val : Tok) : WF (mkMatch off key val) := by
  unfold mkMatch; split
  · exact WF.re _ _ _
  · exact WF.lit _ _ _

theorem wf_append {terms : List Filter} {t : Filter} (h : ∀ x, x ∈ terms → WF x) (ht : WF t) :
    ∀ x, x ∈ terms ++ [t] → WF x := by
  intro x hx
  rcases List.mem_append.mp hx with hx | hx
  · exact h x hx
  · simp at hx; rw [hx]; exact ht

theorem listLoop_wf (cx : Ctx) (off : Int) (key : Bytes) : ∀ (f : Nat) (terms : List Filter) (q : Bytes) (e : ErrSt),
    (∀ x, x ∈ terms → WF x) → (listLoop cx off key f terms q e).err = none →
    WF (listLoop cx off key f terms q e).f := by
  intro f
  induction f with
  | zero => intro terms q e _ h; exact absurd h (perr_ne_none _ _ _ _)
  | succ f ih =>
    intro terms q e ht h
    simp only [listLoop] at h ⊢
    split
    · rename_i hc; rw [if_pos hc] at h; exact absurd h (perr_ne_none _ _ _ _)
    · rename_i hc
      rw [if_neg hc] at h
      have ht' := wf_append ht (wf_mkMatch off key (next cx true q e).tok)
      split
      · exact WF.op _ _ ht' (fun h' => by cases h')
      · rename_i hrp
        rw [if_neg hrp] at h
        split
        · rename_i hor; rw [if_pos hor] at h; exact ih _ _ _ ht' h
        · rename_i hor; rw [if_neg hor] at h; exact absurd h (perr_ne_none _ _ _ _)

theorem parser_wf (cx : Ctx) : ∀ (f : Nat),
    (∀ q e, (exprF cx f q e).err = none → WF (exprF cx f q e).f) ∧
    (∀ terms q e, (∀ x, x ∈ terms → WF x) → (exprLoop cx f terms q e).err = none → WF (exprLoop cx f terms q e).f) ∧
    (∀ q e, (andExprF cx f q e).err = none → WF (andExprF cx f q e).f) ∧
    (∀ terms q e, (∀ x, x ∈ terms → WF x) → terms ≠ [] → (andLoop cx f terms q e).err = none →
      WF (andLoop cx f terms q e).f) ∧
    (∀ q e, (matchF cx f q e).err = none → WF (matchF cx f q e).f) := by
  intro f
  induction f with
  | zero =>
    refine ⟨?_, ?_, ?_, ?_, ?_⟩
    · intro q e h; exact absurd h (perr_ne_none _ _ _ _)
    · intro t q e _ h; exact absurd h (perr_ne_none _ _ _ _)
    · intro q e h; exact absurd h (perr_ne_none _ _ _ _)
    · intro t q e _ _ h; exact absurd h (perr_ne_none _ _ _ _)
    · intro q e h; exact absurd h (perr_ne_none _ _ _ _)
  | succ f ih =>
    obtain ⟨ihE, ihEL, ihA, ihAL, ihM⟩ := ih
    refine ⟨?_, ?_, ?_, ?_, ?_⟩
    · intro q e h
      simp only [exprF] at h ⊢
      exact ihEL [] q e (by intro x hx; simp at hx) h
    · intro terms q e ht h
      simp only [exprLoop] at h ⊢
      split
      · rename_i hk
        rw [if_pos hk] at h
        have hoe := ((parser_ok cx f).2.1 _ _ _).err.none_of_none h
        have hae : (andExprF cx f q e).err = none := next_e_none hoe
        exact ihEL _ _ _ (wf_append ht (ihA q e hae)) h
      · rename_i hk
        rw [if_neg hk] at h
        simp only at h ⊢
        have hae : (andExprF cx f q e).err = none := next_e_none h
        exact wf_finish .or (by decide) _ (wf_append ht (ihA q e hae)) (by simp)
    · intro q e h
      simp only [andExprF] at h ⊢
      have hme := ((parser_ok cx f).2.2.2.1 _ _ _).err.none_of_none h
      refine ihAL _ _ _ ?_ (by simp) h
      intro x hx; simp at hx; rw [hx]; exact ihM q e hme
    · intro terms q e ht hne h
      simp only [andLoop] at h ⊢
      split
      · rename_i hk; rw [if_pos hk] at h; exact ihAL _ _ _ ht hne h
      · rename_i hk
        rw [if_neg hk] at h
        split
        · rename_i hk2
          rw [if_pos hk2] at h
          have hme := ((parser_ok cx f).2.2.2.1 _ _ _).err.none_of_none h
          exact ihAL _ _ _ (wf_append ht (ihM _ _ hme)) (by simp) h
        · rename_i hk2
          rw [if_neg hk2] at h
          split
          · exact wf_finish .and (by decide) _ ht hne
          · rename_i hk3; rw [if_neg hk3] at h; exact absurd h (perr_ne_none _ _ _ _)
    · intro q e h
      simp only [matchF] at h ⊢
      split
      · rename_i hk
        rw [if_pos hk] at h
        split
        · rename_i hk2; rw [if_pos hk2] at h; exact absurd h (perr_ne_none _ _ _ _)
        · rename_i hk2
          rw [if_neg hk2] at h
          simp only at h ⊢
          exact ihE _ _ (next_e_none h)
      · rename_i hk
        rw [if_neg hk] at h
        split
        · rename_i hk2
          rw [if_pos hk2] at h
          simp only at h ⊢
          refine WF.op _ _ ?_ (fun _ => rfl)
          intro x hx; simp at hx; rw [hx]; exact ihM _ _ h
        · rename_i hk2
          rw [if_neg hk2] at h
          split
          · exact WF.op _ _ (by intro x hx; simp at hx) (fun h' => by cases h')
          · rename_i hk3
            rw [if_neg hk3] at h
            split
            · rename_i hw
              rw [if_pos hw] at h
              split
              · rename_i hc; rw [if_pos hc] at h; exact absurd h (perr_ne_none _ _ _ _)
              · rename_i hc
                rw [if_neg hc] at h
                split
                · exact wf_mkMatch _ _ _
                · rename_i hv
                  rw [if_neg hv] at h
                  split
                  · rename_i hlp
                    rw [if_pos hlp] at h
                    exact listLoop_wf cx _ _ _ _ _ _ (by intro x hx; simp at hx) h
                  · rename_i hlp; rw [if_neg hlp] at h; exact absurd h (perr_ne_none _ _ _ _)
            · rename_i hw; rw [if_neg hw] at h; exact absurd h (perr_ne_none _ _ _ _)

end C07
