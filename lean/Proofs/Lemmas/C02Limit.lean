/-
C02 helper lemmas: the 64 KiB line limit (`Model/Fmt/ReaderLimit.lean`) against
`Spec.Format.linesLimited`.
-/
import Model.Fmt.ReaderLimit
import Proofs.Lemmas.C02Spec

namespace Spec.Format
open Fmt

/-- lines up to the first over-long raw piece, and whether there is one -/
def limited (raws : List Bytes) : List Bytes × Bool :=
  ((raws.takeWhile (fun p => p.length < lineLimit)).map dropCR, raws.any (fun p => lineLimit ≤ p.length))

theorem limited_cons_short (x : Bytes) (l : List Bytes) (h : ¬ lineLimit ≤ x.length) :
    limited (x :: l) = (dropCR x :: (limited l).1, (limited l).2) := by
  have h1 : x.length < lineLimit := by omega
  simp [limited, h1, h]

theorem limited_cons_long (x : Bytes) (l : List Bytes) (h : lineLimit ≤ x.length) :
    limited (x :: l) = ([], true) := by
  have h1 : ¬ x.length < lineLimit := by omega
  simp [limited, h1, h]

theorem splitLinesLimAux_eq (cur rest : Bytes) :
    splitLinesLimAux cur rest =
      match splitLF rest with
      | [] => ([], false)
      | p :: ps => limited (trimLast ((cur.reverse ++ p) :: ps)) := by
  induction rest generalizing cur with
  | nil =>
    simp only [splitLinesLimAux, splitLF, List.append_nil]
    unfold trimLast
    cases cur with
    | nil => simp [limited]
    | cons c cs =>
      have hne : (c :: cs).reverse ≠ [] := by simp
      have hl : ((c :: cs).reverse).length = (c :: cs).length := List.length_reverse
      simp only [List.isEmpty_cons, Bool.false_eq_true, ↓reduceIte, List.getLast?_singleton]
      have : (some ((c :: cs).reverse) == some ([] : Bytes)) = false := by simpa using hne
      simp only [this, Bool.false_eq_true, ↓reduceIte]
      by_cases hlong : maxToken ≤ (c :: cs).length
      · simp only [hlong, ↓reduceIte]
        rw [limited_cons_long _ _ (by rw [hl]; exact hlong)]
      · simp only [hlong, ↓reduceIte]
        rw [limited_cons_short _ _ (by rw [hl]; exact hlong)]
        simp [limited]
  | cons c rest ih =>
    unfold splitLinesLimAux
    rw [show splitLF (c :: rest) = (if c == 10 then [] :: splitLF rest
          else match splitLF rest with
            | l :: ls => (c :: l) :: ls
            | [] => [[c]]) from rfl]
    by_cases hc : c = 10
    · subst hc
      simp only [beq_self_eq_true, ↓reduceIte, List.append_nil]
      have hne := splitLF_ne_nil rest
      rw [trimLast_cons _ _ hne]
      have hl : (cur.reverse).length = cur.length := List.length_reverse
      by_cases hlong : maxToken ≤ cur.length
      · simp only [hlong, ↓reduceIte]
        rw [limited_cons_long _ _ (by rw [hl]; exact hlong)]
      · simp only [hlong, ↓reduceIte]
        rw [limited_cons_short _ _ (by rw [hl]; exact hlong), ih []]
        cases hs : splitLF rest with
        | nil => exact absurd hs hne
        | cons p ps => simp
    · have hb : (c == 10) = false := by simpa using hc
      simp only [hb, Bool.false_eq_true, ↓reduceIte]
      rw [ih (c :: cur)]
      have hne := splitLF_ne_nil rest
      cases hs : splitLF rest with
      | nil => exact absurd hs hne
      | cons p ps => simp

/-- The scanner with its token limit delivers exactly the specification's limited lines. -/
theorem splitLinesLim_eq (text : Bytes) : splitLinesLim text = linesLimited text := by
  unfold splitLinesLim linesLimited rawPieces
  rw [splitLinesLimAux_eq]
  have hne := splitLF_ne_nil text
  cases hs : splitLF text with
  | nil => exact absurd hs hne
  | cons p ps =>
    simp only [List.reverse_nil, List.nil_append]
    unfold limited trimLast
    have : (fun l => stripCR l) = dropCR := rfl
    split <;> rfl

theorem takeWhile_all {α : Type} (p : α → Bool) : ∀ l : List α, (∀ x ∈ l, p x = true) → l.takeWhile p = l
  | [], _ => rfl
  | a :: l, h => by
    rw [List.takeWhile_cons_of_pos (h a (List.mem_cons_self ..)),
      takeWhile_all p l (fun x hx => h x (List.mem_cons_of_mem _ hx))]

/-- Below the limit nothing changes: the limited scanner is the unlimited one. -/
theorem splitLinesLim_short (text : Bytes)
    (h : ∀ p ∈ rawPieces text, p.length < lineLimit) :
    splitLinesLim text = (splitLines text, false) := by
  rw [splitLinesLim_eq, lines_eq]
  have e : lines text = (rawPieces text).map stripCR := rfl
  rw [e]
  unfold linesLimited
  simp only
  have h1 : (rawPieces text).takeWhile (fun p => p.length < lineLimit) = rawPieces text := by
    apply takeWhile_all
    intro p hp; simpa using h p hp
  have h2 : (rawPieces text).any (fun p => lineLimit ≤ p.length) = false := by
    apply Bool.eq_false_iff.2
    intro ht
    obtain ⟨p, hp, hl⟩ := List.any_eq_true.1 ht
    have := h p hp
    simp at hl; omega
  simp only [h1, h2]

end Spec.Format
