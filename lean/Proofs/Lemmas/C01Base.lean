/-
C01 helper lemmas, part 1: association lists, `cfgAt`, a counting lemma, and the vocabulary for
following the MODEL reader (`Fmt.scanLine` / `readLines` / `finalState`, C02's reader model)
over the lines the writer prints. Depends on the reader model and on the slot-store lemmas of
`C02Store.lean` only (not on C02's specification).
-/
import Model.Fmt.Writer
import Model.Spec.RoundTrip
import Proofs.Lemmas.C02Store

namespace Fmt

theorem lookup_filter_ne' {β : Type} (m : List (Bytes × β)) (k k' : Bytes) :
    List.lookup k' (m.filter (fun e => !(e.1 == k))) = if k' = k then none else List.lookup k' m := by
  induction m with
  | nil => simp
  | cons e es ih =>
    obtain ⟨a, b⟩ := e
    by_cases hak : a = k
    · subst hak
      simp only [List.filter_cons, beq_self_eq_true, Bool.not_true, Bool.false_eq_true, ↓reduceIte]
      rw [ih]
      by_cases hk : k' = a
      · simp [hk]
      · have hb : (k' == a) = false := by simpa using hk
        simp [hk, List.lookup_cons, hb]
    · have : (a == k) = false := by simpa using hak
      simp only [List.filter_cons, this, Bool.not_false, ↓reduceIte, List.lookup_cons]
      by_cases hk : k' = a
      · subst hk; simp [hak]
      · have hb : (k' == a) = false := by simpa using hk
        simp only [hb]; exact ih

theorem FC.get_erase (m : FC) (k k' : Bytes) :
    (FC.erase m k).get k' = if k' = k then none else m.get k' :=
  lookup_filter_ne' m k k'

theorem FC.get_set (m : FC) (k v : Bytes) (f : Bool) (k' : Bytes) :
    (FC.set m k v f).get k' = if k' = k then some (v, f) else m.get k' := by
  have h := FC.get_erase m k k'
  simp only [FC.set, FC.get, FC.erase, List.lookup_cons] at h ⊢
  by_cases hk : k' = k
  · subst hk; simp
  · have : (k' == k) = false := by simpa using hk
    simp only [this, hk, ↓reduceIte] at h ⊢
    exact h

/-- keys of the map -/
def FC.keys (m : FC) : List Bytes := m.map (·.1)

theorem FC.mem_keys_iff (m : FC) (k : Bytes) : k ∈ m.keys ↔ (m.get k).isSome := by
  induction m with
  | nil => simp [FC.keys, FC.get]
  | cons e es ih =>
    obtain ⟨a, b⟩ := e
    simp only [FC.keys, FC.get, List.map_cons, List.mem_cons, List.lookup_cons] at ih ⊢
    by_cases hk : k = a
    · subst hk; simp
    · have : (k == a) = false := by simpa using hk
      simp only [hk, false_or, this]; exact ih

theorem FC.keys_erase (m : FC) (k : Bytes) : (FC.erase m k).keys = m.keys.filter (fun a => !(a == k)) := by
  induction m with
  | nil => rfl
  | cons e es ih =>
    simp only [FC.erase, FC.keys, List.filter_cons, List.map_cons] at ih ⊢
    by_cases h : e.1 == k <;> simp [h, ih]

theorem FC.nodup_erase {m : FC} (h : m.keys.Nodup) (k : Bytes) : (FC.erase m k).keys.Nodup := by
  rw [FC.keys_erase]; exact h.sublist List.filter_sublist

theorem FC.nodup_set {m : FC} (h : m.keys.Nodup) (k v : Bytes) (f : Bool) : (FC.set m k v f).keys.Nodup := by
  have h1 := FC.nodup_erase h k
  have h2 : k ∉ (FC.erase m k).keys := by
    rw [FC.keys_erase]; simp
  simp only [FC.set, FC.keys, List.map_cons, List.nodup_cons]
  exact ⟨h2, h1⟩

/-- `ConfigIndex` through the lazily built index finds the entry with that key (distinct keys). -/
theorem cfgAt_aux (k : Bytes) : ∀ (cs pre : List Cfg) (m : Index), (cs.map Cfg.key).Nodup →
    (match (buildIndexFrom pre.length cs m).get k with
      | some j => (pre ++ cs)[j]?
      | none => none) =
    (match cs.find? (fun c => c.key == k) with
      | some c => some c
      | none => match m.get k with
        | some j => (pre ++ cs)[j]?
        | none => none) := by
  intro cs
  induction cs with
  | nil => intro pre m _; simp [buildIndexFrom]
  | cons c cs ih =>
    intro pre m hnd
    simp only [List.map_cons, List.nodup_cons] at hnd
    have h := ih (pre ++ [c]) (m.set c.key pre.length) hnd.2
    simp only [List.length_append, List.length_cons, List.length_nil, Nat.zero_add, List.append_assoc,
      List.cons_append, List.nil_append] at h
    simp only [buildIndexFrom, List.find?_cons]
    rw [h, Index.get_set]
    by_cases hk : c.key = k
    · subst hk
      have hnone : cs.find? (fun c' => c'.key == c.key) = none := by
        rw [List.find?_eq_none]
        intro x hx hxe
        exact hnd.1 (by simp only [List.mem_map]; exact ⟨x, hx, by simpa using hxe⟩)
      simp [hnone]
    · have hb : (c.key == k) = false := by simpa using hk
      have hk' : ¬ k = c.key := fun e => hk e.symm
      simp [hb, hk']

theorem cfgAt_eq_find (config : List Cfg) (hnd : (config.map Cfg.key).Nodup) (k : Bytes) :
    cfgAt config k = config.find? (fun c => c.key == k) := by
  have h := cfgAt_aux k config [] [] hnd
  simp only [List.length_nil, List.nil_append] at h
  unfold cfgAt buildIndex
  cases hg : (buildIndexFrom 0 config []).get k with
  | some j =>
    rw [hg] at h
    simp only at h ⊢
    rw [h]
    cases config.find? (fun c => c.key == k) <;> simp [Index.get]
  | none =>
    rw [hg] at h
    simp only at h ⊢
    rw [h]
    cases config.find? (fun c => c.key == k) <;> simp [Index.get]

theorem cfgGet_eq (config : List Cfg) (k : Bytes) :
    cfgGet config k = (config.find? (fun c => c.key == k)).map (fun c => (c.value, c.file)) := rfl

/-- pigeonhole: a duplicate-free list inside a list that is not longer covers it -/
theorem subset_of_nodup_length {α : Type} [DecidableEq α] : ∀ (A B : List α), A.Nodup → A ⊆ B →
    B.length ≤ A.length → B ⊆ A := by
  intro A
  induction A with
  | nil =>
    intro B _ _ hl b hb
    cases B with
    | nil => exact hb
    | cons x xs => simp at hl
  | cons a A ih =>
    intro B hnd hsub hl b hb
    simp only [List.nodup_cons] at hnd
    have haB : a ∈ B := hsub (List.mem_cons_self)
    have hsub' : A ⊆ B.erase a := by
      intro x hx
      have hxa : x ≠ a := fun e => hnd.1 (e ▸ hx)
      exact (List.mem_erase_of_ne hxa).2 (hsub (List.mem_cons_of_mem _ hx))
    have hl' : (B.erase a).length ≤ A.length := by
      rw [List.length_erase_of_mem haB]
      simp only [List.length_cons] at hl
      omega
    by_cases hba : b = a
    · subst hba; exact List.mem_cons_self
    · exact List.mem_cons_of_mem _ (ih (B.erase a) hnd.2 hsub' hl' ((List.mem_erase_of_ne hba).2 hb))

end Fmt

namespace C01
open Fmt

/-! ### following the model reader -/

theorem readLines_append' (O : Oracles) (l1 l2 : List Bytes) :
    ∀ st, readLines O st (l1 ++ l2) = readLines O st l1 ++ readLines O (finalState O st l1) l2 := by
  induction l1 with
  | nil => intro st; rfl
  | cons l ls ih => intro st; simp only [List.cons_append, readLines, finalState, ih, List.append_assoc]

theorem finalState_append' (O : Oracles) (l1 l2 : List Bytes) :
    ∀ st, finalState O st (l1 ++ l2) = finalState O (finalState O st l1) l2 := by
  induction l1 with
  | nil => intro st; rfl
  | cons l ls ih => intro st; simp only [List.cons_append, finalState, ih]

/-- the state after a line that changed nothing but the line counter -/
def next (st : RState) : RState := { st with line := st.line + 1 }

/-- file entries only -/
def fileOnly : Option (Bytes × Bool) → Option (Bytes × Bool)
  | some (v, true) => some (v, true)
  | _ => none

/-- The reader's configuration store satisfies its invariant and denotes the writer's
`fileConfig` restricted to file entries. -/
structure Link (fc : FC) (s : Store) : Prop where
  inv : s.Inv
  map : ∀ k, s.toMap k = fileOnly (fc.get k)

theorem toMap_set {s : Store} (h : s.Inv) (key value : Bytes) (file : Bool) (k : Bytes) :
    (s.set key value file).toMap k =
      if k = key then (if value = [] then none else some (value, file)) else s.toMap k := by
  unfold Store.toMap
  rw [(Store.set_spec h key value file).2 k]
  by_cases hk : k = key
  · by_cases hv : value = [] <;> simp [hk, hv]
  · simp [hk]

/-- what the reader makes of a `key: value` line -/
def KvGood (O : Oracles) (k v : Bytes) : Prop :=
  ∀ st, scanLine O st (kvLine k v) = ({ next st with store := st.store.set k v true }, [])
/-- `key:` deletes `key` -/
def DelFile (O : Oracles) (k : Bytes) : Prop :=
  ∀ st, scanLine O st (delLine k) = ({ next st with store := st.store.set k [] true }, [])
/-- `key:` is ignored -/
def DelInert (O : Oracles) (k : Bytes) : Prop :=
  ∀ st, scanLine O st (delLine k) = (next st, [])

def CfgGood (O : Oracles) (c : Cfg) : Prop :=
  if c.file then KvGood O c.key c.value ∧ c.value ≠ [] ∧ DelFile O c.key
  else DelFile O c.key ∨ DelInert O c.key

def FCGood (O : Oracles) (fc : FC) : Prop :=
  ∀ k v f, fc.get k = some (v, f) →
    if f then DelFile O k else DelFile O k ∨ DelInert O k

theorem blank_inert (O : Oracles) (st : RState) : scanLine O st [] = (next st, []) := by
  simp [scanLine, next, Bytes.hasPrefix, benchmarkPrefix, parseKeyValueLine, kvScan]

/-- The lines `out`, read from state `st`, deliver no record, leave unit metadata and file name
alone, and leave a store linked to `fc'`. -/
structure Block (O : Oracles) (st : RState) (out : List Bytes) (fc' : FC) : Prop where
  quiet : readLines O st out = []
  units : (finalState O st out).units = st.units
  fileName : (finalState O st out).fileName = st.fileName
  link : Link fc' (finalState O st out).store

theorem block_nil (O : Oracles) {st : RState} {fc : FC} (h : Link fc st.store) : Block O st [] fc :=
  ⟨rfl, rfl, rfl, h⟩

theorem block_cons (O : Oracles) {st st1 : RState} {l : Bytes} {ls : List Bytes} {fc' : FC}
    (h1 : scanLine O st l = (st1, [])) (hu : st1.units = st.units) (hf : st1.fileName = st.fileName)
    (hb : Block O st1 ls fc') : Block O st (l :: ls) fc' := by
  refine ⟨?_, ?_, ?_, ?_⟩
  · simp only [readLines, h1, List.nil_append]; exact hb.quiet
  · simp only [finalState, h1]; rw [hb.units, hu]
  · simp only [finalState, h1]; rw [hb.fileName, hf]
  · simp only [finalState, h1]; exact hb.link

theorem block_append (O : Oracles) {st : RState} {l1 l2 : List Bytes} {fc1 fc2 : FC}
    (h1 : Block O st l1 fc1) (h2 : Block O (finalState O st l1) l2 fc2) : Block O st (l1 ++ l2) fc2 := by
  refine ⟨?_, ?_, ?_, ?_⟩
  · rw [readLines_append', h1.quiet, h2.quiet]; rfl
  · rw [finalState_append', h2.units, h1.units]
  · rw [finalState_append', h2.fileName, h1.fileName]
  · rw [finalState_append']; exact h2.link

end C01
