/-
C01 helper lemmas, part 1: association lists, `cfgAt`, a counting lemma, and the
line-by-line form of the specification reader (`runLines`).
-/
import Model.Fmt.Writer
import Model.Spec.Format
import Model.Spec.RoundTrip
import Proofs.Lemmas.C02Store
import Proofs.Lemmas.C02Spec

namespace Fmt

theorem FC.get_erase (m : FC) (k k' : Bytes) :
    (FC.erase m k).get k' = if k' = k then none else m.get k' :=
  Spec.Format.lookup_filter_ne m k k'

theorem FC.get_set (m : FC) (k v : Bytes) (f : Bool) (k' : Bytes) :
    (FC.set m k v f).get k' = if k' = k then some (v, f) else m.get k' :=
  Spec.Format.CMap.get_put m k v f k'

/-- keys of the map -/
def FC.keys (m : FC) : List Bytes := m.map (·.1)

theorem FC.mem_keys_iff (m : FC) (k : Bytes) : k ∈ m.keys ↔ (m.get k).isSome := by
  induction m with
  | nil => simp [FC.keys, FC.get]
  | cons e es ih =>
    obtain ⟨a, b⟩ := e
    simp only [FC.keys, FC.get, List.map_cons, List.mem_cons, List.lookup_cons] at ih ⊢
    by_cases hk : k = a
    · subst hk; simp
    · have : (k == a) = false := by simpa using hk
      simp only [hk, false_or, this]; exact ih

theorem FC.keys_erase (m : FC) (k : Bytes) : (FC.erase m k).keys = m.keys.filter (fun a => !(a == k)) := by
  induction m with
  | nil => rfl
  | cons e es ih =>
    simp only [FC.erase, FC.keys, List.filter_cons, List.map_cons] at ih ⊢
    by_cases h : e.1 == k <;> simp [h, ih]

theorem FC.nodup_erase {m : FC} (h : m.keys.Nodup) (k : Bytes) : (FC.erase m k).keys.Nodup := by
  rw [FC.keys_erase]; exact h.sublist List.filter_sublist

theorem FC.nodup_set {m : FC} (h : m.keys.Nodup) (k v : Bytes) (f : Bool) : (FC.set m k v f).keys.Nodup := by
  have h1 := FC.nodup_erase h k
  have h2 : k ∉ (FC.erase m k).keys := by
    rw [FC.keys_erase]; simp
  simp only [FC.set, FC.keys, List.map_cons, List.nodup_cons]
  exact ⟨h2, h1⟩

/-- `ConfigIndex` through the lazily built index finds the entry with that key (distinct keys). -/
theorem cfgAt_aux (k : Bytes) : ∀ (cs pre : List Cfg) (m : Index), (cs.map Cfg.key).Nodup →
    (match (buildIndexFrom pre.length cs m).get k with
      | some j => (pre ++ cs)[j]?
      | none => none) =
    (match cs.find? (fun c => c.key == k) with
      | some c => some c
      | none => match m.get k with
        | some j => (pre ++ cs)[j]?
        | none => none) := by
  intro cs
  induction cs with
  | nil => intro pre m _; simp [buildIndexFrom]
  | cons c cs ih =>
    intro pre m hnd
    simp only [List.map_cons, List.nodup_cons] at hnd
    have h := ih (pre ++ [c]) (m.set c.key pre.length) hnd.2
    simp only [List.length_append, List.length_cons, List.length_nil, Nat.zero_add, List.append_assoc,
      List.cons_append, List.nil_append] at h
    simp only [buildIndexFrom, List.find?_cons]
    rw [h, Index.get_set]
    by_cases hk : c.key = k
    · subst hk
      have hnone : cs.find? (fun c' => c'.key == c.key) = none := by
        rw [List.find?_eq_none]
        intro x hx hxe
        exact hnd.1 (by simp only [List.mem_map]; exact ⟨x, hx, by simpa using hxe⟩)
      simp [hnone]
    · have hb : (c.key == k) = false := by simpa using hk
      have hk' : ¬ k = c.key := fun e => hk e.symm
      simp [hb, hk']

theorem cfgAt_eq_find (config : List Cfg) (hnd : (config.map Cfg.key).Nodup) (k : Bytes) :
    cfgAt config k = config.find? (fun c => c.key == k) := by
  have h := cfgAt_aux k config [] [] hnd
  simp only [List.length_nil, List.nil_append] at h
  unfold cfgAt buildIndex
  cases hg : (buildIndexFrom 0 config []).get k with
  | some j =>
    rw [hg] at h
    simp only at h ⊢
    rw [h]
    cases config.find? (fun c => c.key == k) <;> simp [Index.get]
  | none =>
    rw [hg] at h
    simp only at h ⊢
    rw [h]
    cases config.find? (fun c => c.key == k) <;> simp [Index.get]

theorem cfgGet_eq (config : List Cfg) (k : Bytes) :
    cfgGet config k = (config.find? (fun c => c.key == k)).map (fun c => (c.value, c.file)) := rfl

/-- pigeonhole: a duplicate-free list inside a list that is not longer covers it -/
theorem subset_of_nodup_length {α : Type} [DecidableEq α] : ∀ (A B : List α), A.Nodup → A ⊆ B →
    B.length ≤ A.length → B ⊆ A := by
  intro A
  induction A with
  | nil =>
    intro B _ _ hl b hb
    cases B with
    | nil => exact hb
    | cons x xs => simp at hl
  | cons a A ih =>
    intro B hnd hsub hl b hb
    simp only [List.nodup_cons] at hnd
    have haB : a ∈ B := hsub (List.mem_cons_self)
    have hsub' : A ⊆ B.erase a := by
      intro x hx
      have hxa : x ≠ a := fun e => hnd.1 (e ▸ hx)
      exact (List.mem_erase_of_ne hxa).2 (hsub (List.mem_cons_of_mem _ hx))
    have hl' : (B.erase a).length ≤ A.length := by
      rw [List.length_erase_of_mem haB]
      simp only [List.length_cons] at hl
      omega
    by_cases hba : b = a
    · subst hba; exact List.mem_cons_self
    · exact List.mem_cons_of_mem _ (ih (B.erase a) hnd.2 hsub' hl' ((List.mem_erase_of_ne hba).2 hb))

end Fmt

namespace C01
open Fmt Spec.Format

/-! ### The specification reader, line by line -/

/-- `Spec.Format.readFrom` with the configuration threaded out. -/
def runLines (O : Oracles) (fn : Bytes) : CMap → UnitMap → Nat → List Bytes → CMap × UnitMap × List SRec
  | cfg, units, _, [] => (cfg, units, [])
  | cfg, units, n, l :: ls =>
    let r := lineRecs O fn cfg units n l
    let r' := runLines O fn r.1 r.2.1 (n + 1) ls
    (r'.1, r'.2.1, r.2.2 ++ r'.2.2)

theorem readFrom_eq_runLines (O : Oracles) (fn : Bytes) (ls : List Bytes) :
    ∀ cfg units n, readFrom O fn cfg units n ls =
      ((runLines O fn cfg units n ls).2.2, (runLines O fn cfg units n ls).2.1) := by
  induction ls with
  | nil => intro cfg units n; rfl
  | cons l ls ih =>
    intro cfg units n
    simp only [readFrom, runLines]
    rw [ih]

theorem runLines_append (O : Oracles) (fn : Bytes) (l1 l2 : List Bytes) :
    ∀ cfg units n,
      runLines O fn cfg units n (l1 ++ l2) =
        (let r := runLines O fn cfg units n l1
         let r' := runLines O fn r.1 r.2.1 (n + l1.length) l2
         (r'.1, r'.2.1, r.2.2 ++ r'.2.2)) := by
  induction l1 with
  | nil => intro cfg units n; simp [runLines]
  | cons l ls ih =>
    intro cfg units n
    simp only [List.cons_append, runLines, List.length_cons]
    rw [ih]
    simp only [List.append_assoc]
    have : n + 1 + ls.length = n + (ls.length + 1) := by omega
    rw [this]

/-- file entries only -/
def fileOnly : Option (Bytes × Bool) → Option (Bytes × Bool)
  | some (v, true) => some (v, true)
  | _ => none

/-- The reader's configuration is the writer's `fileConfig` restricted to file entries. -/
def Link (fc : FC) (m : CMap) : Prop := ∀ k, m.get k = fileOnly (fc.get k)

/-- what the reader makes of a `key: value` line -/
def KvGood (O : Oracles) (fn k v : Bytes) : Prop :=
  ∀ m u n, lineRecs O fn m u n (kvLine k v) = (m.assign k v true, u, [])
/-- `key:` deletes `key` -/
def DelFile (O : Oracles) (fn k : Bytes) : Prop :=
  ∀ m u n, lineRecs O fn m u n (delLine k) = (m.del k, u, [])
/-- `key:` is ignored -/
def DelInert (O : Oracles) (fn k : Bytes) : Prop :=
  ∀ m u n, lineRecs O fn m u n (delLine k) = (m, u, [])

def CfgGood (O : Oracles) (fn : Bytes) (c : Cfg) : Prop :=
  if c.file then KvGood O fn c.key c.value ∧ c.value ≠ [] ∧ DelFile O fn c.key
  else DelFile O fn c.key ∨ DelInert O fn c.key

def FCGood (O : Oracles) (fn : Bytes) (fc : FC) : Prop :=
  ∀ k v f, fc.get k = some (v, f) →
    if f then DelFile O fn k else DelFile O fn k ∨ DelInert O fn k

theorem blank_inert (O : Oracles) (fn : Bytes) (m : CMap) (u : UnitMap) (n : Nat) :
    lineRecs O fn m u n [] = (m, u, []) := by
  simp [lineRecs, classify, Bytes.hasPrefix, benchmarkPrefix, isUnitLine, splitField, takeField,
    skipSpaces, unitPrefix, parseKeyValueLine, kvScan]

end C01
