/-
C19 helper lemmas: the results the server's Reader produces from a file are clean (preserved by the
Printer/Reader pair) as soon as the server labels are and no line of the file ends in CR after the
line terminator has been removed (no CR CR LF) — the complement of finding N7 at the level of inputs.
-/
import Model.Storage.Fmt
import Proofs.Lemmas.C19Round3

namespace C19
open Storage.Query Storage.Fmt

/-! ### scanned lines hold no line feed -/

theorem dropCR_sub (l : Bytes) : ∀ c ∈ dropCR l, c ∈ l := by
  unfold dropCR
  split
  · rename_i x r h
    split
    · intro c hc
      have : l = (x :: r).reverse := by rw [← h, List.reverse_reverse]
      rw [this]; simp only [List.reverse_cons, List.mem_append, List.mem_reverse]
      exact Or.inl (List.mem_reverse.mp hc)
    · exact fun c hc => hc
  · exact fun c hc => hc

theorem scanLinesGo_noNl (data cur : Bytes) (hcur : ∀ c ∈ cur, c ≠ nl) :
    ∀ l ∈ scanLinesGo cur data, ∀ c ∈ l, c ≠ nl := by
  induction data generalizing cur with
  | nil =>
    unfold scanLinesGo
    split
    · simp
    · intro l hl c hc
      simp only [List.mem_singleton] at hl; subst hl
      exact hcur c (List.mem_reverse.mp (dropCR_sub _ c hc))
  | cons x rest ih =>
    unfold scanLinesGo
    split
    · intro l hl c hc
      rcases List.mem_cons.mp hl with rfl | hl
      · exact hcur c (List.mem_reverse.mp (dropCR_sub _ c hc))
      · exact ih [] (by simp) l hl c hc
    · rename_i hx
      exact ih (x :: cur) (by
        intro c hc
        rcases List.mem_cons.mp hc with rfl | hc
        · simpa using hx
        · exact hcur c hc)

theorem scanLines_noNl (data : Bytes) : ∀ l ∈ scanLines data, ∀ c ∈ l, c ≠ nl :=
  scanLinesGo_noNl data [] (by simp)

/-! ### what `parseKeyValueLine` accepts -/

theorem kvScan_sound (l : Bytes) (i j : Nat) (h : kvScan i l = some j) :
    ∃ k rest, l = k ++ cColon :: rest ∧ j = i + k.length ∧ i + k.length > 0 ∧
      (i = 0 → ∃ c r, k = c :: r ∧ isAsciiLower c = true) ∧
      ∀ c ∈ k, isAsciiSpace c = false ∧ isAsciiUpper c = false ∧ c ≠ cColon := by
  induction l generalizing i with
  | nil => simp [kvScan] at h
  | cons c rest ih =>
    rw [kvScan] at h
    split at h
    · cases h
    · rename_i h1
      split at h
      · cases h
      · rename_i h2
        split at h
        · rename_i h3
          simp only [Option.some.injEq] at h
          subst h
          simp only [Bool.and_eq_true, decide_eq_true_eq, beq_iff_eq] at h3
          exact ⟨[], rest, by simp [h3.2], by simp, by simpa using h3.1, by intro e; omega, by simp⟩
        · rename_i h3
          obtain ⟨k, rest', e, hj, _, _, hk⟩ := ih (i + 1) h
          have hsu : isAsciiSpace c = false ∧ isAsciiUpper c = false := by
            simp only [Bool.or_eq_true, not_or, Bool.not_eq_true] at h2; exact h2
          have hlow : i = 0 → isAsciiLower c = true := by
            intro hi
            simp only [hi, beq_self_eq_true, Bool.true_and, Bool.not_eq_true', Bool.not_eq_false] at h1
            simpa using h1
          have hcc : c ≠ cColon := by
            intro e2
            by_cases hi : i = 0
            · have := hlow hi; rw [e2] at this; revert this; decide
            · apply h3; simp only [Bool.and_eq_true, decide_eq_true_eq, beq_iff_eq]; exact ⟨by omega, e2⟩
          refine ⟨c :: k, rest', by simp [e], by simp only [List.length_cons]; omega,
            by simp only [List.length_cons]; omega, fun hi => ⟨c, k, rfl, hlow hi⟩, ?_⟩
          intro x hx
          rcases List.mem_cons.mp hx with rfl | hx
          · exact ⟨hsu.1, hsu.2, hcc⟩
          · exact hk x hx

theorem dropWhile_suffix_facts (p : UInt8 → Bool) (val : Bytes) :
    (∀ c ∈ val.dropWhile p, c ∈ val) ∧
    (val.dropWhile p ≠ [] → (val.dropWhile p).getLast? = val.getLast?) ∧
    (∀ c t, val.dropWhile p = c :: t → p c = false) := by
  induction val with
  | nil => simp
  | cons x rest ih =>
    rw [List.dropWhile_cons]
    split
    · refine ⟨fun c hc => List.mem_cons_of_mem _ (ih.1 c hc), ?_, ih.2.2⟩
      intro hne
      rw [ih.2.1 hne]
      cases rest with
      | nil => simp at hne
      | cons y ys => simp [List.getLast?_cons_cons]
    · rename_i hx
      exact ⟨fun c hc => hc, fun _ => rfl, fun c t e => by cases e; simpa using hx⟩

/-- a parsed configuration line gives a key the Reader accepts again, and a value that is empty or
starts with a non-blank; the value is a suffix of the line -/
theorem parseKV_sound (line k v : Bytes) (h : parseKeyValueLine line = some (k, v)) :
    validKey k ∧ (v = [] ∨ ((∃ c t, v = c :: t ∧ isBlank c = false) ∧ (∀ c ∈ v, c ∈ line) ∧
      v.getLast? = line.getLast?)) := by
  unfold parseKeyValueLine at h
  split at h
  · cases h
  · rename_i j hj
    obtain ⟨key, rest, e, hjl, hpos, hfirst, hall⟩ := kvScan_sound line 0 j hj
    simp only [Nat.zero_add] at hjl hpos
    have ht : line.take j = key := by rw [e, hjl]; simp
    have hd : line.drop (j + 1) = rest := by rw [e, hjl, ← List.drop_drop]; simp
    rw [ht, hd] at h
    have hvk : validKey key := ⟨hfirst rfl, hall⟩
    simp only at h
    split at h
    · simp only [Option.some.injEq, Prod.mk.injEq] at h
      exact ⟨h.1 ▸ hvk, Or.inl h.2.symm⟩
    · split at h
      · rename_i hlen
        simp only [Option.some.injEq, Prod.mk.injEq] at h
        obtain ⟨rfl, rfl⟩ := h
        refine ⟨hvk, ?_⟩
        have hf := dropWhile_suffix_facts isBlank rest
        by_cases hnil : rest.dropWhile isBlank = []
        · exact Or.inl hnil
        · right
          cases hdw : rest.dropWhile isBlank with
          | nil => exact absurd hdw hnil
          | cons c t =>
            refine ⟨⟨c, t, rfl, hf.2.2 c t hdw⟩, ?_, ?_⟩
            · intro x hx
              rw [e]
              have := hf.1 x (hdw ▸ hx)
              simp [this]
            · rw [← hdw, hf.2.1 hnil, e]
              have hrne : rest ≠ [] := by intro e2; rw [e2] at hdw; simp at hdw
              rw [List.getLast?_append, List.getLast?_cons]
              cases hr : rest.getLast? with
              | none => rw [List.getLast?_eq_none_iff] at hr; exact absurd hr hrne
              | some x => simp
      · cases h

/-! ### the Reader keeps its labels good -/

theorem good_set (l : Labels) (k v : Bytes) (h : GoodLabels l) (hk : validKey k) (hv : GoodValue v) :
    GoodLabels (Labels.set l k v) := by
  refine ⟨sorted_set l k v h.sorted, ?_, ?_⟩
  · intro kv hkv
    rcases mem_set_cases _ _ _ _ hkv with rfl | hkv
    · exact hk
    · exact h.keys kv hkv
  · intro kv hkv
    rcases mem_set_cases _ _ _ _ hkv with rfl | hkv
    · exact hv
    · exact h.vals kv hkv

theorem good_erase (l : Labels) (k : Bytes) (h : GoodLabels l) : GoodLabels (Labels.erase l k) :=
  ⟨sorted_erase l k h.sorted, fun kv hkv => h.keys kv (List.mem_filter.mp hkv).1,
   fun kv hkv => h.vals kv (List.mem_filter.mp hkv).1⟩

theorem nextGo_clean (hp : Bool) (lines : List Bytes) (r : Reader)
    (res : Result) (r' : Reader) (rest : List Bytes)
    (h : Reader.nextGo hp r lines = some (res, r', rest)) (hr : GoodLabels r.labels)
    (hl : ∀ l ∈ lines, (∀ c ∈ l, c ≠ nl) ∧ l.getLast? ≠ some cr) :
    CleanResult res ∧ GoodLabels r'.labels ∧ (∀ l ∈ rest, (∀ c ∈ l, c ≠ nl) ∧ l.getLast? ≠ some cr) := by
  induction lines generalizing r with
  | nil => simp [Reader.nextGo] at h
  | cons line ls ih =>
    have hline := hl line (by simp)
    have hls : ∀ l ∈ ls, (∀ c ∈ l, c ≠ nl) ∧ l.getLast? ≠ some cr := fun l h => hl l (by simp [h])
    -- the result produced at a benchmark line
    have hres : ∀ (rd : Reader) (name : Bytes),
        some ((rd.newResult name line).1, (rd.newResult name line).2, ls) = some (res, r', rest) →
        rd.labels = r.labels → parseBenchmarkLine line = some name →
        CleanResult res ∧ GoodLabels r'.labels ∧
          (∀ l ∈ rest, (∀ c ∈ l, c ≠ nl) ∧ l.getLast? ≠ some cr) := by
      intro rd name hh hrd hb
      simp only [Reader.newResult] at hh
      split at hh <;>
      · simp only [Option.some.injEq, Prod.mk.injEq] at hh
        obtain ⟨rfl, rfl, rfl⟩ := hh
        exact ⟨⟨hrd ▸ hr, ⟨name, hb⟩, hline.1, hline.2⟩, hrd ▸ hr, hls⟩
    rw [Reader.nextGo] at h
    simp only at h
    split at h
    · rename_i key value hkv
      obtain ⟨hvk, hval⟩ := parseKV_sound line key value hkv
      split at h
      · exact ih _ h hr hls
      · split at h
        · exact ih _ h (good_erase _ _ hr) hls
        · rename_i hne
          have hgv : GoodValue value := by
            rcases hval with e | ⟨hf, hsub, hlast⟩
            · rw [e] at hne; simp at hne
            · exact ⟨hf, fun c hc => hline.1 c (hsub c hc), by rw [hlast]; exact hline.2⟩
          exact ih _ h (good_set _ _ _ hr hvk hgv) hls
    · cases hp
      · simp only [Bool.not_false, if_true] at h
        by_cases hemp : line.isEmpty = true
        · simp only [hemp, if_true] at h
          split at h
          · rename_i name hb; exact hres _ name h rfl hb
          · exact ih _ h hr hls
        · simp only [hemp, Bool.false_eq_true, if_false] at h
          split at h
          · rename_i name hb; exact hres _ name h rfl hb
          · exact ih _ h hr hls
      · simp only [Bool.not_true, Bool.false_eq_true, if_false] at h
        split at h
        · rename_i name hb; exact hres _ name h rfl hb
        · exact ih _ h hr hls

theorem allGo_clean (fuel : Nat) (r : Reader) (lines : List Bytes) (hr : GoodLabels r.labels)
    (hl : ∀ l ∈ lines, (∀ c ∈ l, c ≠ nl) ∧ l.getLast? ≠ some cr) :
    ∀ res ∈ Reader.allGo fuel r lines, CleanResult res := by
  induction fuel generalizing r lines with
  | zero => simp [Reader.allGo]
  | succ n ih =>
    unfold Reader.allGo
    cases hn : r.next lines with
    | none => simp
    | some t =>
      obtain ⟨res, r', rest⟩ := t
      unfold Reader.next at hn
      have := nextGo_clean _ lines r res r' rest hn hr hl
      intro x hx
      rcases List.mem_cons.mp hx with rfl | hx
      · exact this.1
      · exact ih r' rest this.2.1 this.2.2 x hx

/-- **clean files read into clean results** -/
theorem reader_results_clean (lbls : Labels) (content : Bytes) (hlb : GoodLabels lbls)
    (hcr : ∀ line ∈ scanLines content, line.getLast? ≠ some cr) :
    ∀ r ∈ (Reader.addLabels {} lbls).all content, CleanResult r := by
  unfold Reader.all
  apply allGo_clean
  · -- the labels AddLabels installs
    show GoodLabels (lbls.foldl (fun acc kv => acc.set kv.1 kv.2) [])
    have : ∀ (l acc : Labels), GoodLabels acc → (∀ kv ∈ l, validKey kv.1 ∧ GoodValue kv.2) →
        GoodLabels (l.foldl (fun acc kv => acc.set kv.1 kv.2) acc) := by
      intro l
      induction l with
      | nil => intro acc h _; exact h
      | cons kv rest ih =>
        intro acc h hk
        simp only [List.foldl_cons]
        exact ih _ (good_set _ _ _ h (hk kv (by simp)).1 (hk kv (by simp)).2)
          (fun x hx => hk x (by simp [hx]))
    exact this lbls [] ⟨by simp [StrictSorted], by simp, by simp⟩
      (fun kv hkv => ⟨hlb.keys kv hkv, hlb.vals kv hkv⟩)
  · intro l hl
    exact ⟨scanLines_noNl content l hl, hcr l hl⟩

end C19
