/-
C05 ∘ C02: the configuration an extractor reads after ANY history of `key: value` lines,
`SetConfig` calls and deletions. Uses C02's slot-store refinement (`store_refines_map`).
-/
import Model.Proc.Extract
import Model.Proc.CfgHist
import Proofs.Lemmas.C02Spec
import Proofs.Lemmas.C02Store

namespace C05
open Bytes Fmt Proc.Extract

/-- What an extractor sees of a store: `Config` = the live slots, in slot order. -/
def viewOf (name : Bytes) (s : Store) : ResView :=
  { name := name, config := s.live.map fun c => (c.key, c.value) }

theorem extractConfig_view (name : Bytes) (s : Store) (k : Bytes) :
    extractConfig (viewOf name s) k = ((cfgGet s.live k).map (·.1)).getD [] := by
  unfold extractConfig viewOf cfgGet
  simp only
  induction s.live with
  | nil => simp
  | cons c cs ih =>
    simp only [List.map_cons, List.find?_cons]
    by_cases h : (c.key == k) = true
    · simp [h]
    · simp only [h]
      exact ih

/-- the index-based lookup Go performs (`ConfigIndex`, then `Config[pos].Value`) -/
def extractConfigIndexed (s : Store) (k : Bytes) : Bytes :=
  match s.get k with
  | some c => c.value
  | none => []

theorem extractConfigIndexed_eq (name : Bytes) (s : Store) (h : s.Inv) (k : Bytes) :
    extractConfigIndexed s k = extractConfig (viewOf name s) k := by
  rw [extractConfig_view, Store.cfgGet_live h]
  unfold extractConfigIndexed Store.toMap
  cases s.get k <;> simp

end C05

/-! ### `Result.Clone`: a fresh backing array holding exactly the live slots, nil index -/

namespace C05
open Bytes Fmt Proc.Extract Proc.CfgHist

theorem buildIndexFrom_get (cs : List Cfg) (i : Nat) (m : Index) (k : Bytes) (p : Nat)
    (hnd : (cs.map Cfg.key).Nodup) :
    (buildIndexFrom i cs m).get k = some p ↔
      (∃ j, (cs[j]?).map Cfg.key = some k ∧ p = i + j) ∨
      (k ∉ cs.map Cfg.key ∧ m.get k = some p) := by
  induction cs generalizing i m with
  | nil => simp [buildIndexFrom]
  | cons c cs ih =>
    have hnd' : (cs.map Cfg.key).Nodup := (List.nodup_cons.mp (by simpa using hnd)).2
    have hc : c.key ∉ cs.map Cfg.key := (List.nodup_cons.mp (by simpa using hnd)).1
    unfold buildIndexFrom
    rw [ih (i + 1) (m.set c.key i) hnd', Index.get_set]
    constructor
    · rintro (⟨j, hj, rfl⟩ | ⟨hk, hg⟩)
      · left; exact ⟨j + 1, by simpa using hj, by omega⟩
      · by_cases hkc : k = c.key
        · subst hkc
          simp only [if_true, Option.some.injEq] at hg
          left; exact ⟨0, by simp, by omega⟩
        · simp only [hkc, if_false] at hg
          right
          refine ⟨?_, hg⟩
          simp only [List.map_cons, List.mem_cons, not_or]
          exact ⟨hkc, hk⟩
    · rintro (⟨j, hj, rfl⟩ | ⟨hk, hg⟩)
      · cases j with
        | zero =>
          right
          have : c.key = k := by simpa using hj
          subst this
          exact ⟨hc, by simp⟩
        | succ j => left; exact ⟨j, by simpa using hj, by omega⟩
      · simp only [List.map_cons, List.mem_cons, not_or] at hk
        right
        exact ⟨hk.2, by simp [hk.1, hg]⟩

theorem cloneStore_live (s : Store) : (cloneStore s).live = s.live := by
  show List.take (s.live.length) s.live = s.live
  exact List.take_length

theorem cloneStore_inv {s : Store} (h : s.Inv) : (cloneStore s).Inv := by
  have hnd := Store.live_keys_nodup h
  refine ⟨by simp [cloneStore], ?_⟩
  intro k i
  have hlive : (cloneStore s).live = s.live := cloneStore_live s
  have hidx : (cloneStore s).index = buildIndex s.live := by
    simp only [Store.index, hlive]; rfl
  rw [hidx, buildIndex, buildIndexFrom_get s.live 0 [] k i hnd]
  simp only [Index.get, List.lookup_nil, and_false, or_false, reduceCtorEq]
  show _ ↔ i < s.live.length ∧ (s.live[i]?).map Cfg.key = some k
  constructor
  · rintro ⟨j, hj, rfl⟩
    have hjlt : j < s.live.length := by
      cases hget : s.live[j]? with
      | none => simp [hget] at hj
      | some c => exact (List.getElem?_eq_some_iff.mp hget).1
    exact ⟨by omega, by simpa using hj⟩
  · rintro ⟨_, hj⟩
    exact ⟨i, hj, by omega⟩

/-- a clone denotes the same map as its original -/
theorem cloneStore_toMap {s : Store} (h : s.Inv) (k : Bytes) : (cloneStore s).toMap k = s.toMap k := by
  rw [← Store.cfgGet_live (cloneStore_inv h), ← Store.cfgGet_live h, cloneStore_live]

end C05

/-! ### Histories with clones -/

namespace C05
open Bytes Fmt Spec.Format Proc.Extract Proc.CfgHist

/-- a store denotes a map (and is well-formed) -/
def Rel (s : Store) (m : CMap) : Prop := s.Inv ∧ ∀ k, s.toMap k = m.get k

theorem rel_empty : Rel Store.empty [] :=
  ⟨Store.inv_empty, fun k => by
    simp [Store.toMap, Store.get, Store.configIndex, Store.empty, Store.index, Store.live, buildIndex,
      buildIndexFrom, Index.get, CMap.get]⟩

theorem rel_clone {s : Store} {m : CMap} (h : Rel s m) : Rel (cloneStore s) m :=
  ⟨cloneStore_inv h.1, fun k => (cloneStore_toMap h.1 k).trans (h.2 k)⟩

structure HRel (a : Hist Store) (b : Hist CMap) : Prop where
  len : a.all.length = b.all.length
  all : ∀ i, Rel (a.all.getD i Store.empty) (b.all.getD i [])
  cur : a.cur = b.cur
  stack : a.stack = b.stack

theorem hrel_init : HRel initStore initMap := by
  refine ⟨rfl, ?_, rfl, rfl⟩
  intro i
  cases i with
  | zero => exact rel_empty
  | succ n => simpa [initStore, initMap] using rel_empty

end C05

namespace C05
open Bytes Fmt Spec.Format Proc.Extract Proc.CfgHist

theorem rel_set {s : Store} {m : CMap} (h : Rel s m) (k v : Bytes) :
    Rel (s.set k v false) (m.assign k v false) := by
  obtain ⟨hi, hg⟩ := Store.set_spec h.1 k v false
  refine ⟨hi, fun k' => ?_⟩
  simp only [Store.toMap, hg, CMap.get_assign]
  by_cases hk : k' = k
  · by_cases hv : v = [] <;> simp [hk, hv]
  · simpa [hk, Store.toMap] using h.2 k'

theorem getD_set_rel {a : List Store} {b : List CMap} (hall : ∀ i, Rel (a.getD i Store.empty) (b.getD i []))
    (c : Nat) {s : Store} {m : CMap} (hsm : Rel s m) (hlen : a.length = b.length) (i : Nat) :
    Rel ((a.set c s).getD i Store.empty) ((b.set c m).getD i []) := by
  simp only [List.getD_eq_getElem?_getD, List.getElem?_set]
  by_cases hci : c = i
  · subst hci
    by_cases hlt : c < a.length
    · have hlt' : c < b.length := by omega
      simpa [hlt, hlt'] using hsm
    · have hlt' : ¬ c < b.length := by omega
      have := hall c
      simpa [List.getD_eq_getElem?_getD, hlt, hlt'] using this
  · have := hall i
    simpa [List.getD_eq_getElem?_getD, hci] using this

theorem step_rel {a : Hist Store} {b : Hist CMap} (h : HRel a b) (op : HOp) :
    HRel (stepStore a op) (stepMap b op) := by
  obtain ⟨hlen, hall, hcur, hstack⟩ := h
  cases op with
  | clone =>
    refine ⟨by simp [stepStore, stepMap, Hist.step, hlen], ?_, by simp [stepStore, stepMap, Hist.step, hlen],
      by simp [stepStore, stepMap, Hist.step, hcur, hstack]⟩
    intro i
    simp only [stepStore, stepMap, Hist.step, List.getD_eq_getElem?_getD, List.getElem?_append, id]
    by_cases hlt : i < a.all.length
    · have hlt' : i < b.all.length := by omega
      have := hall i
      simpa [List.getD_eq_getElem?_getD, hlt, hlt'] using this
    · have hlt' : ¬ i < b.all.length := by omega
      simp only [hlt, hlt', if_false]
      by_cases hi0 : i - a.all.length = 0
      · have hi0' : i - b.all.length = 0 := by omega
        have hc := rel_clone (hall a.cur)
        rw [hcur] at hc
        simpa [hi0, hi0', List.getD_eq_getElem?_getD, hcur] using hc
      · have hi0' : ¬ i - b.all.length = 0 := by omega
        have e1 : ([cloneStore ((a.all[a.cur]?).getD Store.empty)] : List Store)[i - a.all.length]? = none := by
          cases hh : i - a.all.length with
          | zero => exact absurd hh hi0
          | succ n => simp
        have e2 : ([(b.all[b.cur]?).getD []] : List CMap)[i - b.all.length]? = none := by
          cases hh : i - b.all.length with
          | zero => exact absurd hh hi0'
          | succ n => simp
        rw [e1, e2]
        exact rel_empty
  | back =>
    simp only [stepStore, stepMap, Hist.step]
    rw [hstack]
    cases b.stack with
    | nil => exact ⟨hlen, hall, hcur, by rw [hstack]⟩
    | cons p rest => exact ⟨hlen, hall, rfl, rfl⟩
  | set k v =>
    refine ⟨by simp [stepStore, stepMap, Hist.step, hlen], ?_, hcur, hstack⟩
    intro i
    simp only [stepStore, stepMap, Hist.step]
    rw [hcur]
    have hc := hall a.cur
    rw [hcur] at hc
    exact getD_set_rel hall b.cur (rel_set hc k v) hlen i

theorem hist_rel (ops : List HOp) :
    HRel (ops.foldl stepStore initStore) (ops.foldl stepMap initMap) := by
  suffices h : ∀ a b, HRel a b → HRel (ops.foldl stepStore a) (ops.foldl stepMap b) from h _ _ hrel_init
  induction ops with
  | nil => intro a b h; exact h
  | cons op ops ih => intro a b h; exact ih _ _ (step_rel h op)

end C05
