/-
C11: exact characterisation of when the code's two-sided value equals the specification's
(the N5 class is the complement).
-/
import Proofs.Lemmas.C11Compose
import Proofs.Lemmas.C11PFormulas

namespace C11
open Stats Stats.UStat Spec.UExact

/-- the code's two-sided value in terms of the specification's lower tail: 1 when U1 = U2 (2u = c),
    else twice P(2U ≤ min(u, c−u)) -/
theorem exactP_differs_pLess (cdf : Int → Rat) (dist : List Nat) (h : IsCDFOf cdf dist) (c u : Nat) (hu : u ≤ c) :
    exactP cdf .differs (u : Int) ((c : Int) - u)
      = if 2 * u = c then 1 else 2 * pLess dist (min u (c - u)) := by
  rw [exactP_differs]
  by_cases h2 : 2 * u = c
  · rw [if_pos (by omega), if_pos h2]
  · rw [if_neg (by omega), if_neg h2]
    have hm : min (u : Int) ((c : Int) - u) = ((min u (c - u) : Nat) : Int) := by omega
    rw [hm]
    have := less_spec cdf dist h (min u (c - u)) 0
    unfold exactP at this
    simp only at this
    rw [this]; ring

/-- **two_sided_spec_iff.** With L = P(2U ≤ u), G = P(2U ≥ u), m = min(u, c−u), c = 2·n1·n2:
    the code's value equals min(1, 2·min(L,G)) exactly when
    * U1 = U2 and 2·min(L,G) ≥ 1, or
    * U1 ≠ U2 and either 2·P(2U ≤ m) = 2·min(L,G) ≤ 1, or 2·P(2U ≤ m) = 1 ≤ 2·min(L,G).
    The driver's N5 class (exact branch, two-sided, ties, model ≠ spec) is the negation of this. -/
theorem two_sided_spec_iff (cdf : Int → Rat) (dist : List Nat) (h : IsCDFOf cdf dist) (c u : Nat) (hu : u ≤ c) :
    exactP cdf .differs (u : Int) ((c : Int) - u) = pTwoSided dist u ↔
      (if 2 * u = c then 1 ≤ 2 * ratMin (pLess dist u) (pGreater dist u)
       else (2 * pLess dist (min u (c - u)) = 2 * ratMin (pLess dist u) (pGreater dist u)
              ∧ 2 * ratMin (pLess dist u) (pGreater dist u) ≤ 1)
          ∨ (2 * pLess dist (min u (c - u)) = 1 ∧ 1 ≤ 2 * ratMin (pLess dist u) (pGreater dist u))) := by
  rw [exactP_differs_pLess cdf dist h c u hu]
  unfold pTwoSided
  set x := 2 * ratMin (pLess dist u) (pGreater dist u) with hx
  by_cases h2 : 2 * u = c
  · rw [if_pos h2, if_pos h2]
    constructor
    · intro e
      by_contra hlt
      rw [ratMin_one_of_le (le_of_lt (not_le.mp hlt))] at e
      exact hlt (le_of_eq e)
    · intro hge; rw [ratMin_one_of_ge hge]
  · rw [if_neg h2, if_neg h2]
    constructor
    · intro e
      by_cases hle : x ≤ 1
      · left; rw [ratMin_one_of_le hle] at e; exact ⟨e, hle⟩
      · right
        have hge : 1 ≤ x := le_of_lt (not_le.mp hle)
        rw [ratMin_one_of_ge hge] at e; exact ⟨e, hge⟩
    · rintro (⟨e, hle⟩ | ⟨e, hge⟩)
      · rw [ratMin_one_of_le hle]; exact e
      · rw [ratMin_one_of_ge hge]; exact e

end C11
