/-
`roundMag` is the identity on representable values (`roundMag_exact`), hence `mul x one = x`.
-/
import Proofs.Lemmas.F64Div

namespace F64

/-- the magnitude bits of a pattern -/
def magOf (x : Bits) : Nat := expField x * 2 ^ 52 + fracField x

theorem fracField_lt (x : Bits) : fracField x < 2 ^ 52 := by
  rw [fracField_eq]; exact Nat.mod_lt _ (by decide)

theorem expField_lt (x : Bits) : expField x < 2 ^ 11 := by
  rw [expField_eq]; exact Nat.mod_lt _ (by decide)

theorem mant_eq (x : Bits) : mant x = if expField x = 0 then fracField x else fracField x + 2 ^ 52 := by
  unfold mant; by_cases h : expField x = 0 <;> simp [h]

theorem expo_eq (x : Bits) : expo x = if expField x = 0 then -1074 else (expField x : Int) - 1075 := by
  unfold expo; by_cases h : expField x = 0 <;> simp [h]

/-- **roundMag_exact** (field form, sign-agnostic) — any fraction n/d whose value is exactly the
magnitude `mant x · 2^expo x` of a finite non-zero pattern rounds to the magnitude bits of x. -/
theorem roundMag_exact_fields (x : Bits) (h0 : 0 < magOf x) (hfin : expField x < 2047)
    (n d : Nat) (hd : 0 < d) (h : (n : ℚ) / d = val x) : roundMag n d = UInt64.ofNat (magOf x) := by
  have hF := fracField_lt x
  have hm := mant_eq x
  have he := expo_eq x
  unfold magOf at h0 ⊢
  have hmpos : 0 < mant x := by rw [hm]; split <;> omega
  have hdq : (0 : ℚ) < d := by exact_mod_cast hd
  have hvpos : (0 : ℚ) < val x := mul_pos (by exact_mod_cast hmpos) (two_zpow_pos _)
  have hn : 0 < n := by
    rcases Nat.eq_zero_or_pos n with h' | h'
    · subst h'; simp at h; linarith
    · exact h'
  have two_ne : (2 : ℚ) ≠ 0 := by norm_num
  -- the ratio at shift −expo x is the mantissa
  have hr : (n : ℚ) / d * (2 : ℚ) ^ (-expo x) = (mant x : ℚ) := by
    rw [h]; unfold val
    rw [mul_assoc, ← zpow_add₀ two_ne, add_neg_cancel, zpow_zero, mul_one]
  have hs : shiftOf n d = -expo x := by
    apply shiftOf_uniqueQ n d hn hd
    · rw [he]; split <;> omega
    · rw [hr]
      have : mant x < 2 ^ 53 := by rw [hm]; split <;> omega
      exact_mod_cast this
    · intro hlt
      rw [hr]
      have : 2 ^ 52 ≤ mant x := by
        rw [hm]; rw [he] at hlt
        split
        · rename_i hE; rw [if_pos hE] at hlt; omega
        · omega
      exact_mod_cast this
  have hsc : (scaled n d (-expo x)).1 = mant x * (scaled n d (-expo x)).2 := by
    have hp : (0 : ℚ) < ((scaled n d (-expo x)).2 : ℚ) := by exact_mod_cast scaled_snd_pos n _ hd
    have := scaled_ratio n d (-expo x)
    rw [hr, div_eq_iff hp.ne'] at this
    exact_mod_cast this
  have hmb : magBits n d = expField x * 2 ^ 52 + fracField x := by
    unfold magBits
    rw [hs, hsc, rne_exact _ _ (scaled_snd_pos n _ hd), hm, he]
    by_cases hE : expField x = 0
    · simp [hE]
    · simp only [hE, if_false]
      have : (1074 - -((expField x : Int) - 1075)).toNat = expField x - 1 := by omega
      rw [this]
      have : expField x = (expField x - 1) + 1 := by omega
      generalize expField x - 1 = k at *
      rw [this]; ring
  rw [roundMag_eq n d hn hd, hmb]
  have : ¬ (expField x * 2 ^ 52 + fracField x ≥ 0x7FF0000000000000) := by omega
  rw [if_neg this]

theorem magOf_posFin {x : Bits} (hx : PosFin x) : magOf x = x.toNat :=
  (toNat_decomp x hx.lt63).1.symm

/-- **roundMag_exact** — identity on representable values: for a finite positive float x every
fraction n/d equal to its value rounds to x itself. -/
theorem roundMag_exactQ (x : Bits) (hx : PosFin x) (n d : Nat) (hd : 0 < d)
    (h : (n : ℚ) / d = val x) : roundMag n d = x := by
  rw [roundMag_exact_fields x (by rw [magOf_posFin hx]; exact hx.1) hx.expField_lt n d hd h,
    magOf_posFin hx, UInt64.ofNat_toNat]

/-- on the model's vocabulary: n/d = toFrac(mant x, expo x) cross-multiplied -/
theorem roundMag_exact (x : Bits) (hx : PosFin x) (n d : Nat) (hd : 0 < d)
    (h : n * (toFrac (mant x) (expo x)).2 = (toFrac (mant x) (expo x)).1 * d) :
    roundMag n d = x := by
  apply roundMag_exactQ x hx n d hd
  have hp : (0 : ℚ) < ((toFrac (mant x) (expo x)).2 : ℚ) := by exact_mod_cast toFrac_snd_pos _ _
  have hdq : (0 : ℚ) < d := by exact_mod_cast hd
  unfold val
  rw [← toFrac_ratio, div_eq_div_iff hdq.ne' hp.ne']
  exact_mod_cast h

/-- rounding the exact value of x gives x back -/
theorem roundMag_self (x : Bits) (hx : PosFin x) :
    roundMag (toFrac (mant x) (expo x)).1 (toFrac (mant x) (expo x)).2 = x :=
  roundMag_exact x hx _ _ (toFrac_snd_pos _ _) rfl

/-! ### `mul x one = x` -/

theorem toNat_decomp_full (x : Bits) :
    x.toNat = (if signBit x then 2 ^ 63 else 0) + magOf x := by
  have hs := signBit_false_iff x
  have hlt := x.toNat_lt
  unfold magOf
  rw [expField_eq, fracField_eq]
  cases h : signBit x
  · have := hs.mp h; simp only [Bool.false_eq_true, if_false]; omega
  · have : ¬ x.toNat < 2 ^ 63 := fun h' => by rw [hs.mpr h'] at h; cases h
    simp only [if_true]; omega

theorem or_negZero_toNat (m : Bits) (hm : m.toNat < 2 ^ 63) :
    (m ||| negZero).toNat = 2 ^ 63 + m.toNat := by
  rw [UInt64.toNat_or]
  have : negZero.toNat = 2 ^ 63 * 1 := by decide
  rw [this, Nat.or_comm, ← Nat.two_pow_add_eq_or_of_lt hm 1]; omega

/-- **mul_one** — multiplication by 1.0 is the identity on every non-NaN pattern
(±Inf, ±0, subnormal and normal numbers). -/
theorem mul_one (x : Bits) (hx : isNaN x = false) : mul x one = x := by
  have hdec := toNat_decomp_full x
  have hF := fracField_lt x
  have hE := expField_lt x
  have h1 : isNaN one = false := by decide
  have h2 : isInf one = false := by decide
  have h3 : isZero one = false := by decide
  have h4 : signBit one = false := by decide
  have h5 : mant one = 2 ^ 52 := by decide
  have h6 : expo one = -52 := by decide
  unfold mul
  simp only [hx, h1, h2, h3, h4, Bool.or_false, Bool.false_eq_true, if_false, Bool.bne_false]
  unfold magOf at hdec
  by_cases hinf : isInf x = true
  · have hz : isZero x = false := by
      unfold isInf at hinf; unfold isZero
      simp only [Bool.and_eq_true, beq_iff_eq] at hinf
      simp [hinf.1]
    simp only [hinf, hz, if_true, Bool.false_eq_true, if_false]
    unfold isInf at hinf
    simp only [Bool.and_eq_true, beq_iff_eq] at hinf
    rw [← UInt64.toNat_inj, hdec, hinf.1, hinf.2]
    unfold inf
    cases signBit x
    · simp only [Bool.false_eq_true, if_false]; decide
    · simp only [if_true]; decide
  · have hinf' : isInf x = false := by simpa using hinf
    simp only [hinf', Bool.false_eq_true, if_false]
    by_cases hz : isZero x = true
    · simp only [hz, if_true]
      unfold isZero at hz
      simp only [Bool.and_eq_true, beq_iff_eq] at hz
      rw [← UInt64.toNat_inj, hdec, hz.1, hz.2]
      unfold zero
      cases signBit x
      · simp only [Bool.false_eq_true, if_false]; decide
      · simp only [if_true]; decide
    · have hz' : isZero x = false := by simpa using hz
      simp only [hz', Bool.false_eq_true, if_false]
      -- finite non-zero
      have hfin : expField x < 2047 := by
        have hne : expField x ≠ 2047 := by
          intro he
          unfold isNaN at hx; unfold isInf at hinf'
          rw [he] at hx hinf'
          simp only [beq_self_eq_true, Bool.true_and] at hx hinf'
          simp at hx hinf'
          exact hinf' hx
        omega
      have hpos : 0 < magOf x := by
        unfold magOf
        unfold isZero at hz'
        by_cases he : expField x = 0
        · have : fracField x ≠ 0 := by
            intro hf; simp [he, hf] at hz'
          omega
        · have := Nat.pos_of_ne_zero he
          omega
      have hval : (((toFrac (mant x * mant one) (expo x + expo one)).1 : Nat) : ℚ) /
          ((toFrac (mant x * mant one) (expo x + expo one)).2 : ℚ) = val x := by
        rw [toFrac_ratio, h5, h6]
        unfold val
        have two_ne : (2 : ℚ) ≠ 0 := by norm_num
        have e : expo x + -52 = expo x - 52 := by omega
        rw [e, zpow_sub₀ two_ne]
        push_cast
        ring
      have hrm := roundMag_exact_fields x hpos hfin _ _ (toFrac_snd_pos _ _) hval
      show roundRat (signBit x) (toFrac (mant x * mant one) (expo x + expo one)).1
        (toFrac (mant x * mant one) (expo x + expo one)).2 = x
      unfold roundRat
      simp only [hrm]
      have hlt : magOf x < 2 ^ 63 := by unfold magOf; omega
      have hm : (UInt64.ofNat (magOf x)).toNat = magOf x := by
        rw [UInt64.toNat_ofNat']; exact Nat.mod_eq_of_lt (by omega)
      rw [← UInt64.toNat_inj, hdec]
      cases signBit x
      · simp only [Bool.false_eq_true, if_false]; rw [hm]; unfold magOf; omega
      · simp only [if_true]
        rw [or_negZero_toNat _ (by rw [hm]; exact hlt), hm]; unfold magOf; omega

/-- non-trivial instances: 0.1 rounds to itself; −3.0 · 1.0 = −3.0; a subnormal; −Inf -/
example : roundMag 1 10 = 0x3FB999999999999A := by decide +kernel
example : roundMag (toFrac (mant 0x3FB999999999999A) (expo 0x3FB999999999999A)).1
    (toFrac (mant 0x3FB999999999999A) (expo 0x3FB999999999999A)).2 = 0x3FB999999999999A :=
  roundMag_self _ (by decide)
example : mul 0xC008000000000000 one = 0xC008000000000000 := mul_one _ (by decide)
example : mul 0x0000000000000003 one = 0x0000000000000003 := mul_one _ (by decide)
example : mul negInf one = negInf := mul_one _ (by decide)

end F64
