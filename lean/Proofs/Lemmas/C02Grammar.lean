/-
C02 helper lemmas: the reader's scanning algorithms (ASCII bit-mask fast path, rune slow path,
skip counters, fuel) compute the declarative single-line grammar of `Model/Spec/Format.lean`.
-/
import Model.Spec.Format
import Proofs.Lemmas.C02SpecM
import Proofs.Lemmas.C02Reader

namespace Spec.Format
open Fmt

/-! ### decodeRune -/

theorem decodeRune_width_pos (c : UInt8) (rest : Bytes) : 1 ≤ (decodeRune (c :: rest)).2 := by
  unfold decodeRune
  repeat' split
  all_goals first
    | (simp; done)
    | (simp_all; done)
    | (split <;> simp)
    | (simp only []; split <;> simp)

theorem decodeRune_ascii (c : UInt8) (rest : Bytes) (h : c < 0x80) :
    decodeRune (c :: rest) = (c.toNat, 1) := by
  unfold decodeRune; simp [h]

/-! non-ASCII lead bytes never decode to an ASCII rune (no over-long forms) -/

theorem rb2 : ∀ n, n < 256 → 0xC2 ≤ n → n < 0xE0 → 0x80 ≤ (n &&& 0x1F) <<< 6 := by decide +kernel
theorem rb3a : ∀ c, c < 256 → 0xE1 ≤ c → c < 0xF0 → 0x80 ≤ (c &&& 0x0F) <<< 12 := by decide +kernel
theorem rb3b : ∀ b, b < 256 → 0xA0 ≤ b → b ≤ 0xBF → 0x80 ≤ (b &&& 0x3F) <<< 6 := by decide +kernel
theorem rb4a : ∀ c, c < 256 → 0xF1 ≤ c → c < 0xF5 → 0x80 ≤ (c &&& 0x07) <<< 18 := by decide +kernel
theorem rb4b : ∀ b, b < 256 → 0x90 ≤ b → b ≤ 0xBF → 0x80 ≤ (b &&& 0x3F) <<< 12 := by decide +kernel

theorem u8_not_lt {c d : UInt8} (h : ¬ c < d) : d.toNat ≤ c.toNat :=
  Nat.le_of_not_lt fun hlt => h (UInt8.lt_iff_toNat_lt.mpr hlt)

theorem ite_fst_ge (cond : Bool) (v n : Nat) (h : cond = true → 0x80 ≤ v) :
    0x80 ≤ (if cond = true then (v, n) else (runeError, 1)).1 := by
  cases cond with
  | true => simpa using h rfl
  | false => simp [runeError]

theorem decodeRune_nonascii (c : UInt8) (rest : Bytes) (h : ¬ c < 0x80) :
    0x80 ≤ (decodeRune (c :: rest)).1 := by
  have hc : c.toNat < 256 := c.toNat_lt
  unfold decodeRune
  simp only [h, ↓reduceIte]
  split
  · simp [runeError]
  · rename_i h1
    have h1' : 0xC2 ≤ c.toNat := u8_not_lt h1
    split
    · rename_i h2'
      have h2n : c.toNat < 0xE0 := UInt8.lt_iff_toNat_lt.mp h2'
      split
      · apply ite_fst_ge
        intro _
        exact Nat.le_trans (rb2 c.toNat hc h1' h2n) Nat.left_le_or
      · simp [runeError]
    · rename_i h2'
      have h2n : 0xE0 ≤ c.toNat := u8_not_lt h2'
      split
      · rename_i h3'
        have h3n : c.toNat < 0xF0 := UInt8.lt_iff_toNat_lt.mp h3'
        split
        · rename_i b1 b2 tl
          apply ite_fst_ge
          intro hcond
          simp only [Bool.and_eq_true, decide_eq_true_eq] at hcond
          have hlo := UInt8.le_iff_toNat_le.mp hcond.1.1
          have hhi := UInt8.le_iff_toNat_le.mp hcond.1.2
          by_cases he : c = 0xE0
          · subst he
            have hb : 0xA0 ≤ b1.toNat := by simpa using hlo
            have hb2 : b1.toNat ≤ 0xBF := by simpa using hhi
            exact Nat.le_trans (Nat.le_trans (rb3b b1.toNat b1.toNat_lt hb hb2) Nat.right_le_or) Nat.left_le_or
          · have hne : c.toNat ≠ 0xE0 := fun e => he (UInt8.toNat_inj.mp e)
            have : 0xE1 ≤ c.toNat := by omega
            exact Nat.le_trans (Nat.le_trans (rb3a c.toNat hc this h3n) Nat.left_le_or) Nat.left_le_or
        · simp [runeError]
      · rename_i h3'
        have h3n : 0xF0 ≤ c.toNat := u8_not_lt h3'
        split
        · rename_i h4'
          have h4n : c.toNat < 0xF5 := UInt8.lt_iff_toNat_lt.mp h4'
          split
          · rename_i b1 b2 b3 tl
            apply ite_fst_ge
            intro hcond
            simp only [Bool.and_eq_true, decide_eq_true_eq] at hcond
            have hlo := UInt8.le_iff_toNat_le.mp hcond.1.1.1
            have hhi := UInt8.le_iff_toNat_le.mp hcond.1.1.2
            by_cases he : c = 0xF0
            · subst he
              have hb : 0x90 ≤ b1.toNat := by simpa using hlo
              have hb2 : b1.toNat ≤ 0xBF := by simpa using hhi
              exact Nat.le_trans (Nat.le_trans (Nat.le_trans (rb4b b1.toNat b1.toNat_lt hb hb2)
                Nat.right_le_or) Nat.left_le_or) Nat.left_le_or
            · have hne : c.toNat ≠ 0xF0 := fun e => he (UInt8.toNat_inj.mp e)
              have : 0xF1 ≤ c.toNat := by omega
              exact Nat.le_trans (Nat.le_trans (Nat.le_trans (rb4a c.toNat hc this h4n)
                Nat.left_le_or) Nat.left_le_or) Nat.left_le_or
          · simp [runeError]
        · simp [runeError]

theorem mask_spec : ∀ n, n < 128 →
    ((asciiSpaceMask >>> n) &&& 1 != 0) = (n == 9 || n == 10 || n == 11 || n == 12 || n == 13 || n == 32) := by
  decide

/-- The bit mask of the ASCII fast path is `unicode.IsSpace` on ASCII. -/
theorem asciiSpace_eq (uc : UC) (c : UInt8) (h : c < 0x80) : asciiSpace c = uc.space c.toNat := by
  have hn : c.toNat < 128 := by
    have := UInt8.lt_iff_toNat_lt.mp h; simpa using this
  unfold asciiSpace UC.space
  rw [mask_spec _ hn]
  simp [hn]

/-! ### runes -/

theorem runesFrom_zero_cons (c : UInt8) (rest : Bytes) :
    runesFrom 0 (c :: rest) =
      ((decodeRune (c :: rest)).1, (c :: rest).take (decodeRune (c :: rest)).2) ::
        runesFrom ((decodeRune (c :: rest)).2 - 1) rest := rfl

@[simp] theorem enc_nil : enc [] = [] := rfl
@[simp] theorem enc_cons (r : RuneB) (rs : List RuneB) : enc (r :: rs) = r.2 ++ enc rs := by
  simp [enc]

/-- every byte is accounted for -/
theorem enc_runesFrom (x : Bytes) : ∀ k, enc (runesFrom k x) = x.drop k := by
  induction x with
  | nil => intro k; simp [runesFrom, enc]
  | cons c rest ih =>
    intro k
    cases k with
    | succ k => simpa [runesFrom] using ih k
    | zero =>
      rw [runesFrom_zero_cons]
      have hw := decodeRune_width_pos c rest
      generalize (decodeRune (c :: rest)).2 = n at hw ⊢
      obtain ⟨m, rfl⟩ : ∃ m, n = m + 1 := ⟨n - 1, by omega⟩
      rw [enc_cons, Nat.add_sub_cancel, ih m]
      simp

theorem enc_runes (x : Bytes) : enc (runes x) = x := by
  unfold runes; simpa using enc_runesFrom x 0

theorem enc_append (a b : List RuneB) : enc (a ++ b) = enc a ++ enc b := by
  simp [enc]

/-- a suffix of a rune decomposition decodes to itself -/
theorem runes_enc_suffix (x : Bytes) : ∀ k (a b : List RuneB), runesFrom k x = a ++ b → runes (enc b) = b := by
  induction x with
  | nil =>
    intro k a b h
    simp only [runesFrom] at h
    have : b = [] := by
      cases a <;> cases b <;> simp_all
    subst this; rfl
  | cons c rest ih =>
    intro k a b h
    cases k with
    | succ k => exact ih k a b (by simpa [runesFrom] using h)
    | zero =>
      cases a with
      | nil =>
        simp only [List.nil_append] at h
        rw [← h, enc_runesFrom]; rfl
      | cons hd a' =>
        rw [runesFrom_zero_cons] at h
        simp only [List.cons_append, List.cons.injEq] at h
        exact ih _ a' b h.2

/-- every rune has at least one byte -/
theorem runesFrom_enc_pos (x : Bytes) : ∀ k, ∀ r ∈ runesFrom k x, r.2 ≠ [] := by
  induction x with
  | nil => intro k r h; simp [runesFrom] at h
  | cons c rest ih =>
    intro k r h
    cases k with
    | succ k => exact ih k r (by simpa [runesFrom] using h)
    | zero =>
      rw [runesFrom_zero_cons] at h
      rcases List.mem_cons.1 h with h | h
      · have hw := decodeRune_width_pos c rest
        subst h
        generalize (decodeRune (c :: rest)).2 = n at hw ⊢
        obtain ⟨m, rfl⟩ : ∃ m, n = m + 1 := ⟨n - 1, by omega⟩
        simp
      · exact ih _ r h

/-! ### splitField -/

/-- the runes after the first white-space rune -/
def afterSp (uc : UC) (rs : List RuneB) : List RuneB :=
  match rs.dropWhile (fun r => !isSp uc r) with
  | [] => []
  | _ :: m => m

theorem takeField_spec (uc : UC) (x : Bytes) : ∀ k,
    takeField uc k x =
      (x.take k ++ enc ((runesFrom k x).takeWhile (fun r => !isSp uc r)), enc (afterSp uc (runesFrom k x))) := by
  induction x with
  | nil => intro k; simp [takeField, runesFrom, enc, afterSp]
  | cons c rest ih =>
    intro k
    cases k with
    | succ k =>
      simp only [takeField, runesFrom, ih k, List.take_succ_cons, List.cons_append]
    | zero =>
      rw [runesFrom_zero_cons]
      unfold takeField
      have hw := decodeRune_width_pos c rest
      by_cases hc : c < 0x80
      · have hd := decodeRune_ascii c rest hc
        simp only [hc, ↓reduceIte, hd, Nat.sub_self] at hw ⊢
        rw [asciiSpace_eq uc c hc]
        by_cases hs : uc.space c.toNat = true
        · simp [hs, isSp, afterSp, enc_runesFrom]
        · have hs' : uc.space c.toNat = false := by simpa using hs
          simp only [hs', Bool.false_eq_true, ↓reduceIte, ih 0, List.take_zero, List.nil_append]
          simp [isSp, hs', afterSp, enc]
      · simp only [hc, ↓reduceIte]
        generalize hdr : decodeRune (c :: rest) = d at hw ⊢
        obtain ⟨r, n⟩ := d
        simp only at hw ⊢
        obtain ⟨m, rfl⟩ : ∃ m, n = m + 1 := ⟨n - 1, by omega⟩
        by_cases hs : uc.space r = true
        · simp [hs, isSp, afterSp, enc_runesFrom]
        · have hs' : uc.space r = false := by simpa using hs
          simp only [hs', Bool.false_eq_true, ↓reduceIte, Nat.add_sub_cancel, ih m]
          simp [isSp, hs', afterSp, enc]

theorem skipSpaces_spec (uc : UC) (x : Bytes) : ∀ k,
    skipSpaces uc k x = enc ((runesFrom k x).dropWhile (isSp uc)) := by
  induction x with
  | nil => intro k; simp [skipSpaces, runesFrom, enc]
  | cons c rest ih =>
    intro k
    cases k with
    | succ k => simp only [skipSpaces, runesFrom, ih k]
    | zero =>
      rw [runesFrom_zero_cons]
      unfold skipSpaces
      have hw := decodeRune_width_pos c rest
      have hall : enc (runesFrom 0 (c :: rest)) = c :: rest := by simpa using enc_runesFrom (c :: rest) 0
      rw [runesFrom_zero_cons] at hall
      by_cases hc : c < 0x80
      · have hd := decodeRune_ascii c rest hc
        simp only [hc, ↓reduceIte, hd, Nat.sub_self] at hw hall ⊢
        rw [asciiSpace_eq uc c hc]
        by_cases hs : uc.space c.toNat = true
        · simp [hs, isSp, ih 0]
        · have hs' : uc.space c.toNat = false := by simpa using hs
          simp only [hs', Bool.false_eq_true, ↓reduceIte]
          rw [List.dropWhile_cons_of_neg (by simp [isSp, hs'])]
          exact hall.symm
      · simp only [hc, ↓reduceIte]
        generalize hdr : decodeRune (c :: rest) = d at hw hall ⊢
        obtain ⟨r, n⟩ := d
        simp only at hw hall ⊢
        by_cases hs : uc.space r = true
        · simp [hs, isSp, ih (n - 1)]
        · have hs' : uc.space r = false := by simpa using hs
          simp only [hs', Bool.false_eq_true, ↓reduceIte]
          rw [List.dropWhile_cons_of_neg (by simp [isSp, hs'])]
          exact hall.symm

/-! ### pieces and fields -/

theorem splitAtSep_eq (sp : RuneB → Bool) (l : List RuneB) :
    splitAtSep sp l = l.takeWhile (fun r => !sp r) ::
      (match l.dropWhile (fun r => !sp r) with
       | [] => []
       | _ :: m => splitAtSep sp m) := by
  induction l with
  | nil => simp [splitAtSep]
  | cons r rs ih =>
    rw [show splitAtSep sp (r :: rs) = (if sp r then [] :: splitAtSep sp rs
          else match splitAtSep sp rs with
            | w :: ws => (r :: w) :: ws
            | [] => [[r]]) from rfl]
    by_cases h : sp r = true
    · simp [h]
    · have h' : sp r = false := by simpa using h
      simp only [h', Bool.false_eq_true, ↓reduceIte]
      rw [ih]
      simp [h']

theorem dropWhile_head_not {α : Type} (p : α → Bool) : ∀ (l : List α) (r : α) (t : List α),
    l.dropWhile p = r :: t → p r = false
  | [], _, _, h => by simp at h
  | a :: l, r, t, h => by
    by_cases ha : p a = true
    · rw [List.dropWhile_cons_of_pos ha] at h; exact dropWhile_head_not p l r t h
    · rw [List.dropWhile_cons_of_neg ha] at h
      simp only [List.cons.injEq] at h
      rw [← h.1]; simpa using ha

/-- the non-empty pieces, as bytes -/
def wordsB (uc : UC) (l : List RuneB) : List Bytes :=
  ((splitAtSep (isSp uc) l).filter (fun p => !p.isEmpty)).map enc

theorem wordsB_nil (uc : UC) : wordsB uc [] = [] := by simp [wordsB, splitAtSep]

theorem wordsB_cons_sp (uc : UC) (r : RuneB) (l : List RuneB) (h : isSp uc r = true) :
    wordsB uc (r :: l) = wordsB uc l := by
  simp [wordsB, splitAtSep, h]

theorem wordsB_dropWhile (uc : UC) (l : List RuneB) :
    wordsB uc (l.dropWhile (isSp uc)) = wordsB uc l := by
  induction l with
  | nil => rfl
  | cons r rs ih =>
    by_cases h : isSp uc r = true
    · rw [List.dropWhile_cons_of_pos h, ih, wordsB_cons_sp uc r rs h]
    · rw [List.dropWhile_cons_of_neg h]

theorem afterSp_nil (uc : UC) : afterSp uc [] = [] := rfl

theorem wordsB_step (uc : UC) (r : RuneB) (l : List RuneB) (h : isSp uc r = false) :
    wordsB uc (r :: l) =
      enc ((r :: l).takeWhile (fun r => !isSp uc r)) :: wordsB uc (afterSp uc (r :: l)) := by
  unfold wordsB
  rw [splitAtSep_eq]
  have hne : (r :: l).takeWhile (fun r => !isSp uc r) ≠ [] := by simp [h]
  simp only [List.filter_cons]
  have : (!((r :: l).takeWhile (fun r => !isSp uc r)).isEmpty) = true := by
    cases hh : (r :: l).takeWhile (fun r => !isSp uc r) with
    | nil => exact absurd hh hne
    | cons _ _ => rfl
  simp only [this, ↓reduceIte, List.map_cons]
  congr 1
  unfold afterSp
  cases (r :: l).dropWhile (fun r => !isSp uc r) with
  | nil => simp [splitAtSep]
  | cons _ m => rfl

theorem afterSp_suffix (uc : UC) (rs : List RuneB) : ∃ a, rs = a ++ afterSp uc rs := by
  have h := List.takeWhile_append_dropWhile (p := fun r => !isSp uc r) (l := rs)
  unfold afterSp
  cases hd : rs.dropWhile (fun r => !isSp uc r) with
  | nil => exact ⟨rs, by simp⟩
  | cons s m =>
    rw [hd] at h
    exact ⟨rs.takeWhile (fun r => !isSp uc r) ++ [s], by simp [h]⟩

theorem dropWhile_suffix {α : Type} (p : α → Bool) (l : List α) : ∃ a, l = a ++ l.dropWhile p :=
  ⟨l.takeWhile p, (List.takeWhile_append_dropWhile).symm⟩

/-- **splitField, declaratively**: the field is the runes before the first white-space rune,
the rest starts at the first non-space rune after it. -/
theorem splitField_spec (uc : UC) (x : Bytes) :
    splitField uc x =
      (enc ((runes x).takeWhile (fun r => !isSp uc r)),
       enc ((afterSp uc (runes x)).dropWhile (isSp uc))) := by
  unfold splitField
  rw [takeField_spec uc x 0]
  simp only [List.take_zero, List.nil_append]
  rw [skipSpaces_spec]
  obtain ⟨a, ha⟩ := afterSp_suffix uc (runes x)
  have hr : runes (enc (afterSp uc (runes x))) = afterSp uc (runes x) :=
    runes_enc_suffix x 0 a _ ha
  unfold runes at hr ⊢
  rw [hr]

/-- a rune list that is its own decoding -/
def Canon (m : List RuneB) : Prop := runes (enc m) = m

theorem canon_runes (x : Bytes) : Canon (runes x) := by
  unfold Canon; rw [enc_runes]

theorem canon_suffix {a m : List RuneB} (h : Canon (a ++ m)) : Canon m := by
  unfold Canon at *
  exact runes_enc_suffix (enc (a ++ m)) 0 a m h

theorem canon_enc_pos {m : List RuneB} (h : Canon m) : ∀ r ∈ m, r.2 ≠ [] := by
  intro r hr
  unfold Canon runes at h
  rw [← h] at hr
  exact runesFrom_enc_pos _ 0 r hr

theorem fieldsN_spec (uc : UC) : ∀ (n : Nat) (m : List RuneB), Canon m →
    (m = [] ∨ ∃ r l, m = r :: l ∧ isSp uc r = false) → (enc m).length < n →
    fieldsN uc n (enc m) = wordsB uc m := by
  intro n
  induction n with
  | zero => intro m _ _ h; omega
  | succ n ih =>
    intro m hc hs hl
    rcases hs with rfl | ⟨r, l, rfl, hr⟩
    · simp [fieldsN, splitField, takeField, skipSpaces, wordsB_nil]
    · have hsf := splitField_spec uc (enc (r :: l))
      rw [hc] at hsf
      have hlen := splitField_length uc (enc (r :: l))
      simp only [fieldsN]
      rw [hsf] at hlen ⊢
      simp only at hlen ⊢
      have hne : enc ((r :: l).takeWhile (fun r => !isSp uc r)) ≠ [] := by
        have : (r :: l).takeWhile (fun r => !isSp uc r) = r :: l.takeWhile (fun r => !isSp uc r) := by
          simp [hr]
        rw [this, enc_cons]
        have := canon_enc_pos hc r (List.mem_cons_self ..)
        intro h0
        exact this (List.append_eq_nil_iff.1 h0).1
      have hne' : (enc ((r :: l).takeWhile (fun r => !isSp uc r))).isEmpty = false := by
        cases hh : enc ((r :: l).takeWhile (fun r => !isSp uc r)) with
        | nil => exact absurd hh hne
        | cons _ _ => rfl
      simp only [hne', Bool.false_eq_true, ↓reduceIte]
      rw [wordsB_step uc r l hr]
      congr 1
      -- the rest
      obtain ⟨a, ha⟩ := afterSp_suffix uc (r :: l)
      obtain ⟨b, hb⟩ := dropWhile_suffix (isSp uc) (afterSp uc (r :: l))
      have hc2 : Canon ((afterSp uc (r :: l)).dropWhile (isSp uc)) := by
        have h1 : Canon (afterSp uc (r :: l)) := canon_suffix (ha ▸ hc)
        exact canon_suffix (hb ▸ h1)
      rw [ih _ hc2 ?_ ?_, wordsB_dropWhile]
      · cases hd : (afterSp uc (r :: l)).dropWhile (isSp uc) with
        | nil => exact Or.inl rfl
        | cons r2 l2 =>
          refine Or.inr ⟨r2, l2, rfl, ?_⟩
          exact dropWhile_head_not _ _ _ _ hd
      · have : 0 < (enc ((r :: l).takeWhile (fun r => !isSp uc r))).length := by
          cases hh : enc ((r :: l).takeWhile (fun r => !isSp uc r)) with
          | nil => exact absurd hh hne
          | cons _ _ => simp
        omega

/-- **fields, declaratively**: what the `for { f, line = splitField(line); … }` loops see after
a first `splitField` are the non-empty pieces after the first white-space rune. -/
theorem fields_after_split (uc : UC) (x : Bytes) :
    fields uc (splitField uc x).2 = wordsB uc (afterSp uc (runes x)) := by
  rw [splitField_spec]
  simp only
  obtain ⟨a, ha⟩ := afterSp_suffix uc (runes x)
  obtain ⟨b, hb⟩ := dropWhile_suffix (isSp uc) (afterSp uc (runes x))
  have hc2 : Canon ((afterSp uc (runes x)).dropWhile (isSp uc)) := by
    have h1 : Canon (afterSp uc (runes x)) := canon_suffix (ha ▸ canon_runes x)
    exact canon_suffix (hb ▸ h1)
  unfold fields
  rw [fieldsN_spec uc _ _ hc2 ?_ (Nat.lt_succ_self _), wordsB_dropWhile]
  cases hd : (afterSp uc (runes x)).dropWhile (isSp uc) with
  | nil => exact Or.inl rfl
  | cons r2 l2 =>
    refine Or.inr ⟨r2, l2, rfl, ?_⟩
    exact dropWhile_head_not _ _ _ _ hd

theorem firstAndFields_eq (uc : UC) (x : Bytes) :
    firstAndFields uc x =
      (enc ((runes x).takeWhile (fun r => !isSp uc r)),
       !((runes x).dropWhile (fun r => !isSp uc r)).isEmpty,
       wordsB uc (afterSp uc (runes x))) := by
  unfold firstAndFields
  rw [splitAtSep_eq]
  simp only
  unfold afterSp wordsB
  cases (runes x).dropWhile (fun r => !isSp uc r) with
  | nil => simp [splitAtSep]
  | cons s m =>
    have := splitAtSep_eq (isSp uc) m
    simp [this]

/-! ### benchmark lines -/

theorem mkVal_eq (O : Oracles) (val : UInt64) (unit : Bytes) :
    (match O.tidy val unit with
      | (tidyVal, tidyUnit) =>
        (if tidyUnit == unit then { value := val, unit := unit, origValue := 0, origUnit := [] }
         else { value := tidyVal, unit := tidyUnit, origValue := val, origUnit := unit } : Val))
      = mkVal O val unit := by
  unfold mkVal
  cases O.tidy val unit with
  | mk a b => rfl

theorem parseValues_eq (O : Oracles) : ∀ (fs : List Bytes) (acc : List Val),
    parseValues O fs acc =
      if fs = [] then (if acc.isEmpty then .error msgMissingMeasurements else .ok acc.reverse)
      else match measurements O fs with
        | .error m => .error m
        | .ok vs => .ok (acc.reverse ++ vs)
  | [], acc => by simp [parseValues, msgMissingMeasurements]
  | [f], acc => by
    simp only [parseValues, measurements, msgMissingUnits]
    cases O.atof f <;> simp
  | f :: u :: fs', acc => by
    simp only [parseValues, measurements]
    cases hf : O.atof f with
    | error e => simp
    | ok val =>
      simp only
      have hv := mkVal_eq O val u
      simp only at hv
      rw [hv, parseValues_eq O fs' (mkVal O val u :: acc)]
      by_cases hfs : fs' = []
      · subst hfs; simp [measurements]
      · simp only [hfs, ↓reduceIte, reduceCtorEq]
        cases measurements O fs' <;> simp

theorem takeWhile_eq_self_of_dropWhile_nil {α : Type} (p : α → Bool) (l : List α)
    (h : l.dropWhile p = []) : l.takeWhile p = l := by
  have := List.takeWhile_append_dropWhile (p := p) (l := l)
  rw [h, List.append_nil] at this; exact this

theorem benchLine_eq (O : Oracles) (line : Bytes) : benchLine O line = parseBenchmarkLine O line := by
  unfold benchLine parseBenchmarkLine
  rw [firstAndFields_eq]
  have hf := fields_after_split O.uc (line.drop 9)
  have hs := splitField_spec O.uc (line.drop 9)
  have hall : enc (runes (line.drop 9)) = line.drop 9 := enc_runes _
  have hcat := List.takeWhile_append_dropWhile (p := fun r => !isSp O.uc r) (l := runes (line.drop 9))
  generalize hrs : runes (line.drop 9) = rs at hf hs hall hcat ⊢
  simp only
  rw [hs] at hf
  rw [hs]
  simp only at hf ⊢
  cases hd : rs.dropWhile (fun r => !isSp O.uc r) with
  | nil =>
    have htw := takeWhile_eq_self_of_dropWhile_nil _ rs hd
    simp [afterSp, hd, htw, hall]
  | cons sp m =>
    -- there is a white-space rune: not a skip
    have hspos : sp.2 ≠ [] := by
      have hc : Canon rs := hrs ▸ canon_runes _
      have : sp ∈ rs := by
        rw [← hcat, hd]; simp
      exact canon_enc_pos hc sp this
    have hl : (line.drop 9).length =
        (enc (rs.takeWhile fun r => !isSp O.uc r)).length + (sp.2.length + (enc m).length) := by
      have e : enc rs = enc ((rs.takeWhile fun r => !isSp O.uc r) ++ sp :: m) := by rw [← hd, hcat]
      rw [← hall, e]
      simp [enc_append]
    have hlen : ¬ (enc (rs.takeWhile fun r => !isSp O.uc r)).length = (line.drop 9).length := by
      have : 0 < sp.2.length := by
        cases h : sp.2 with
        | nil => exact absurd h hspos
        | cons _ _ => simp
      omega
    have hskip : ((enc ((afterSp O.uc rs).dropWhile (isSp O.uc))).isEmpty &&
        (enc (rs.takeWhile fun r => !isSp O.uc r)).length == (line.drop 9).length) = false := by
      have : ((enc (rs.takeWhile fun r => !isSp O.uc r)).length == (line.drop 9).length) = false := by
        simpa using hlen
      rw [this]; simp
    simp only [hskip, Bool.false_eq_true, ↓reduceIte, List.isEmpty_cons, Bool.not_false]
    rw [hf]
    cases hw : wordsB O.uc (afterSp O.uc rs) with
    | nil => rfl
    | cons it ms =>
      simp only
      cases O.atoi it with
      | error e => rfl
      | ok n =>
        simp only
        rw [parseValues_eq]
        cases ms with
        | nil => simp
        | cons a b =>
          simp only [List.isEmpty_cons, Bool.false_eq_true, ↓reduceIte, reduceCtorEq, List.reverse_nil,
            List.nil_append]
          cases measurements O (a :: b) <;> rfl

/-! ### unit lines -/

theorem span_loop_eq {α : Type} (p : α → Bool) : ∀ (l acc : List α),
    List.span.loop p l acc = (acc.reverse ++ l.takeWhile p, l.dropWhile p)
  | [], acc => by simp [List.span.loop]
  | a :: l, acc => by
    unfold List.span.loop
    cases h : p a with
    | true => simp [span_loop_eq p l (a :: acc), h]
    | false => simp [h]

theorem span_eq {α : Type} (p : α → Bool) (l : List α) : l.span p = (l.takeWhile p, l.dropWhile p) := by
  unfold List.span; rw [span_loop_eq]; simp

theorem unitLine_eq (uc : UC) (line : Bytes) :
    unitLine uc line = (isUnitLine uc line).map (fields uc) := by
  unfold unitLine isUnitLine
  rw [firstAndFields_eq]
  have hf := fields_after_split uc line
  have hs := splitField_spec uc line
  rw [hs] at hf
  rw [hs]
  simp only
  split <;> simp [hf]

theorem unitStep_eq (fn : Bytes) (n : Nat) (unit tidy : Bytes) (units : UnitMap) (acc : List SRec)
    (f : Bytes) :
    unitStep fn n unit tidy (units, acc) f =
      ((unitField fn n unit tidy units f).1, acc ++ (unitField fn n unit tidy units f).2.map ofRecNoResult) := by
  unfold unitStep unitField unitKV
  rw [span_eq]
  simp only
  cases hd : f.dropWhile (fun c => !(c == 61)) with
  | nil => simp [msgExpectedKV, ofRecNoResult]
  | cons e v =>
    simp only [List.isEmpty_cons, Bool.false_or, List.drop_succ_cons, List.drop_zero]
    by_cases hk : (f.takeWhile fun c => !(c == 61)).isEmpty = true
    · simp [hk, msgExpectedKV, ofRecNoResult]
    · have hk' : (f.takeWhile fun c => !(c == 61)).isEmpty = false := by simpa using hk
      simp only [hk', Bool.false_eq_true, ↓reduceIte]
      cases units.get tidy (f.takeWhile fun c => !(c == 61)) with
      | none => simp [ofRecNoResult, UnitMap.insert]
      | some h =>
        simp only
        split <;> simp [ofRecNoResult]

theorem unitFields_foldl (fn : Bytes) (n : Nat) (unit tidy : Bytes) (fs : List Bytes) :
    ∀ (units : UnitMap) (acc : List SRec),
      fs.foldl (unitStep fn n unit tidy) (units, acc) =
        ((unitFields fn n unit tidy units fs).1,
         acc ++ (unitFields fn n unit tidy units fs).2.map ofRecNoResult) := by
  induction fs with
  | nil => intro units acc; simp [unitFields]
  | cons f fs ih =>
    intro units acc
    simp only [List.foldl_cons, unitFields]
    rw [unitStep_eq, ih]
    simp

theorem unitRecs_eq (O : Oracles) (fn : Bytes) (n : Nat) (units : UnitMap) (rest : Bytes) :
    unitRecs O fn n units (fields O.uc rest) =
      ((parseUnitLine O fn n units rest).1, (parseUnitLine O fn n units rest).2.map ofRecNoResult) := by
  unfold unitRecs parseUnitLine
  cases fields O.uc rest with
  | nil => simp [msgMissingUnit, ofRecNoResult]
  | cons u fs =>
    simp only
    rw [unitFields_foldl]
    simp

/-! ### key/value lines -/

def _root_.Fmt.KVScan.prepend (bs : Bytes) : KVScan → KVScan
  | .found k v => .found (bs ++ k) v
  | x => x

/-- the rune loop of `parseKeyValueLine` after its first rune, declaratively -/
def kvD (uc : UC) (rs : List RuneB) : KVScan :=
  if (rs.takeWhile fun r => !isColon r).any (fun r => uc.space r.1 || uc.upper r.1) then .reject
  else match rs.dropWhile (fun r => !isColon r) with
    | [] => .noColon
    | _ :: v => .found (enc (rs.takeWhile fun r => !isColon r)) (enc v)

theorem consKey_prepend (c : UInt8) (bs : Bytes) (s : KVScan) :
    (s.prepend bs).consKey c = s.prepend (c :: bs) := by
  cases s <;> rfl

theorem space58 (uc : UC) : uc.space 58 = false := by simp [UC.space]
theorem upper58 (uc : UC) : uc.upper 58 = false := by simp [UC.upper]
theorem lower58 (uc : UC) : uc.lower 58 = false := by simp [UC.lower]

theorem kvScan_spec (uc : UC) (x : Bytes) : ∀ k,
    kvScan uc false k x = (kvD uc (runesFrom k x)).prepend (x.take k) := by
  induction x with
  | nil => intro k; simp [kvScan, runesFrom, kvD, KVScan.prepend]
  | cons c rest ih =>
    intro k
    cases k with
    | succ k =>
      simp only [kvScan, runesFrom, ih k, consKey_prepend, List.take_succ_cons]
    | zero =>
      rw [runesFrom_zero_cons]
      unfold kvScan
      have hw := decodeRune_width_pos c rest
      have hna := decodeRune_nonascii c rest
      have has := decodeRune_ascii c rest
      generalize hdr : decodeRune (c :: rest) = d at hw hna has ⊢
      obtain ⟨r, n⟩ := d
      simp only [Bool.false_and, Bool.false_eq_true, ↓reduceIte, Bool.not_false, Bool.true_and,
        List.take_zero] at hw hna has ⊢
      obtain ⟨m, rfl⟩ : ∃ m, n = m + 1 := ⟨n - 1, by omega⟩
      simp only [Nat.add_sub_cancel]
      by_cases h58 : r = 58
      · -- the colon: one ASCII byte
        subst h58
        have hc : c < 0x80 := by
          apply Decidable.byContradiction
          intro hc; have := hna hc; omega
        have hm : m = 0 := by
          have := has hc
          simp only [Prod.mk.injEq] at this; omega
        subst hm
        simp [space58, upper58, kvD, isColon, KVScan.prepend, enc_runesFrom]
      · have hb : (r == 58) = false := by simpa using h58
        by_cases hbad : (uc.space r || uc.upper r) = true
        · simp [hbad, kvD, isColon, hb, KVScan.prepend]
        · have hbad' : (uc.space r || uc.upper r) = false := by simpa using hbad
          simp only [hbad', Bool.false_eq_true, ↓reduceIte, hb, ih m, consKey_prepend]
          unfold kvD
          simp only [isColon, hb, Bool.not_false, List.takeWhile_cons_of_pos, List.any_cons, hbad',
            Bool.false_or, List.dropWhile_cons_of_pos]
          split
          · rename_i hany
            simp only [hany, ↓reduceIte, KVScan.prepend]
          · rename_i hany
            simp only [hany]
            generalize List.dropWhile _ (runesFrom m rest) = dw
            cases dw <;> simp [KVScan.prepend, List.take_succ_cons]

theorem kvLine_eq (uc : UC) (line : Bytes) : kvLine uc line = parseKeyValueLine uc line := by
  unfold kvLine parseKeyValueLine runes
  cases line with
  | nil => simp [runesFrom, kvScan]
  | cons c rest =>
    rw [runesFrom_zero_cons]
    unfold kvScan
    have hw := decodeRune_width_pos c rest
    generalize hdr : decodeRune (c :: rest) = d at hw ⊢
    obtain ⟨r, n⟩ := d
    simp only [Bool.true_and, Bool.not_true, Bool.false_and, Bool.false_eq_true, ↓reduceIte] at hw ⊢
    obtain ⟨m, rfl⟩ : ∃ m, n = m + 1 := ⟨n - 1, by omega⟩
    simp only [Nat.add_sub_cancel]
    by_cases hl : uc.lower r = true
    · have h58 : (r == 58) = false := by
        have : r ≠ 58 := fun e => by rw [e, lower58] at hl; exact Bool.noConfusion hl
        simpa using this
      simp only [hl, Bool.not_true, Bool.false_eq_true, ↓reduceIte, isColon, h58, Bool.not_false,
        List.takeWhile_cons_of_pos, List.dropWhile_cons_of_pos, List.all_cons, Bool.true_and]
      by_cases hbad : (uc.space r || uc.upper r) = true
      · have : (!uc.space r && !uc.upper r) = false := by
          cases hs : uc.space r <;> cases hu : uc.upper r <;> simp_all
        simp only [hbad, ↓reduceIte, this, Bool.false_and, Bool.false_eq_true]
        split <;> rfl
      · have hbad' : (uc.space r || uc.upper r) = false := by simpa using hbad
        have hgood : (!uc.space r && !uc.upper r) = true := by
          cases hs : uc.space r <;> cases hu : uc.upper r <;> simp_all
        simp only [hbad', Bool.false_eq_true, ↓reduceIte, hgood, Bool.true_and]
        rw [kvScan_spec uc rest m]
        unfold kvD
        simp only [isColon]
        by_cases hany : ((runesFrom m rest).takeWhile fun r => !(r.1 == 58)).any
            (fun r => uc.space r.1 || uc.upper r.1) = true
        · have hall : ((runesFrom m rest).takeWhile fun r => !(r.1 == 58)).all
              (fun r => !uc.space r.1 && !uc.upper r.1) = false := by
            rw [List.any_eq_true] at hany
            obtain ⟨x, hx, hxb⟩ := hany
            apply Bool.eq_false_iff.2
            intro hall
            rw [List.all_eq_true] at hall
            have := hall x hx
            cases hs : uc.space x.1 <;> cases hu : uc.upper x.1 <;> simp_all
          simp only [hany, ↓reduceIte, KVScan.prepend, KVScan.consKey, hall, Bool.false_eq_true]
          split <;> rfl
        · have hany' : ((runesFrom m rest).takeWhile fun r => !(r.1 == 58)).any
              (fun r => uc.space r.1 || uc.upper r.1) = false := by simpa using hany
          have hall : ((runesFrom m rest).takeWhile fun r => !(r.1 == 58)).all
              (fun r => !uc.space r.1 && !uc.upper r.1) = true := by
            rw [List.all_eq_true]
            intro x hx
            have : ¬ (uc.space x.1 || uc.upper x.1) = true := by
              intro hb
              have : ((runesFrom m rest).takeWhile fun r => !(r.1 == 58)).any
                  (fun r => uc.space r.1 || uc.upper r.1) = true := List.any_eq_true.2 ⟨x, hx, hb⟩
              rw [hany'] at this; exact Bool.noConfusion this
            cases hs : uc.space x.1 <;> cases hu : uc.upper x.1 <;> simp_all
          simp only [hany', Bool.false_eq_true, ↓reduceIte, hall]
          cases hd : (runesFrom m rest).dropWhile (fun r => !(r.1 == 58)) with
          | nil => simp [KVScan.prepend, KVScan.consKey]
          | cons colon v =>
            simp only [KVScan.prepend, KVScan.consKey, enc_cons]
            have hkey : ((c :: (List.take m rest ++
                enc ((runesFrom m rest).takeWhile fun r => !(r.1 == 58)))).isEmpty) = false := rfl
            simp only [hkey, Bool.false_eq_true, ↓reduceIte, List.take_succ_cons, List.cons_append]
            cases enc v with
            | nil => rfl
            | cons c0 v0 =>
              have hfun : isBlankByte = isBlank := rfl
              simp [hfun, isBlank]
    · have hl' : uc.lower r = false := by simpa using hl
      simp only [hl', Bool.not_false, ↓reduceIte]
      -- the spec: either no colon, or nothing before it, or a first rune that is not lower case
      by_cases h58 : (r == 58) = true
      · simp [isColon, h58]
      · have h58' : (r == 58) = false := by simpa using h58
        simp only [isColon, h58', Bool.not_false, List.takeWhile_cons_of_pos, List.dropWhile_cons_of_pos,
          hl', Bool.false_and, Bool.false_eq_true, ↓reduceIte]
        split <;> rfl

/-! ### the specification with the declarative grammar = the one with the model's parsers -/

theorem classify_eq (O : Oracles) (line : Bytes) :
    classify O line = Spec.FormatM.classify O line := by
  unfold classify Spec.FormatM.classify
  rw [benchLine_eq, unitLine_eq, kvLine_eq]
  cases isUnitLine O.uc line <;> rfl

theorem lineRecs_eq (O : Oracles) (fn : Bytes) (cfg : CMap) (units : UnitMap) (n : Nat) (line : Bytes) :
    lineRecs O fn cfg units n line = Spec.FormatM.lineRecs O fn cfg units n line := by
  unfold lineRecs Spec.FormatM.lineRecs
  rw [classify_eq, benchLine_eq, unitLine_eq, kvLine_eq]
  cases Spec.FormatM.classify O line with
  | ignored => rfl
  | kv => rfl
  | bench => rfl
  | unit =>
    simp only
    cases isUnitLine O.uc line with
    | none => rfl
    | some rest =>
      simp only [Option.map_some]
      rw [unitRecs_eq]

theorem readFrom_eq (O : Oracles) (fn : Bytes) (ls : List Bytes) :
    ∀ (cfg : CMap) (units : UnitMap) (n : Nat),
      readFrom O fn cfg units n ls = Spec.FormatM.readFrom O fn cfg units n ls := by
  induction ls with
  | nil => intro cfg units n; rfl
  | cons l ls ih =>
    intro cfg units n
    simp only [readFrom, Spec.FormatM.readFrom, lineRecs_eq, ih]

theorem read_eq (O : Oracles) (fn : Bytes) (labels : CMap) (units : UnitMap) (text : Bytes) :
    read O fn labels units text = Spec.FormatM.read O fn labels units text := by
  unfold read Spec.FormatM.read
  exact readFrom_eq O _ _ _ _ _

theorem readFiles_eq (O : Oracles) (fs : FS) (inputs : List (Bytes × Bytes × Bool)) :
    ∀ (units : UnitMap) (stdin : Bytes),
      readFiles O fs units stdin inputs = Spec.FormatM.readFiles O fs units stdin inputs := by
  induction inputs with
  | nil => intro units stdin; rfl
  | cons i rest ih =>
    intro units stdin
    obtain ⟨label, path, isStdin⟩ := i
    simp only [readFiles, Spec.FormatM.readFiles, read_eq, ih]
    cases (if isStdin = true then some stdin else fs.open path) <;> rfl

end Spec.Format
