/-
C02 helper lemmas: `Files.init` (label assignment) against `Spec.Format.labels`.
-/
import Model.Fmt.Files
import Model.Spec.Format

namespace Spec.Format
open Fmt

abbrev Entry := Option Bytes × Bytes

/-- number of unlabelled entries with path `p` -/
def same (es : List Entry) (p : Bytes) : Nat :=
  (es.filter (fun e => e.1.isNone && e.2 == p)).length

/-- the label the specification gives entry `e` when `before` are the entries preceding it -/
def labelOf (all before : List Entry) : Entry → Bytes
  | (some l, _) => l
  | (none, p) => if same all p == 1 then p else p ++ [35] ++ decimal (same before p)

theorem labelsFrom_cons (all before : List Entry) (e : Entry) (rest : List Entry) :
    labelsFrom all before (e :: rest) = labelOf all before e :: labelsFrom all (before ++ [e]) rest := by
  obtain ⟨l, p⟩ := e
  cases l <;> simp [labelsFrom, labelOf, same]

theorem labelsFrom_length (all before rest : List Entry) :
    (labelsFrom all before rest).length = rest.length := by
  induction rest generalizing before with
  | nil => simp [labelsFrom]
  | cons e rest ih => rw [labelsFrom_cons]; simp [ih]

/-- positional description of the specification's labels -/
theorem labelsFrom_getElem? (all before rest : List Entry) (j : Nat) (e : Entry)
    (he : rest[j]? = some e) :
    (labelsFrom all before rest)[j]? = some (labelOf all (before ++ rest.take j) e) := by
  induction rest generalizing before j with
  | nil => simp at he
  | cons e0 rest ih =>
    rw [labelsFrom_cons]
    cases j with
    | zero => simp at he; subst he; simp
    | succ j =>
      simp only [List.getElem?_cons_succ] at he ⊢
      rw [ih (before ++ [e0]) j he]
      simp

theorem same_append (a b : List Entry) (p : Bytes) : same (a ++ b) p = same a p + same b p := by
  simp [same, List.filter_append]

theorem same_singleton_none (q p : Bytes) : same [(none, q)] p = if q = p then 1 else 0 := by
  by_cases h : q = p <;> simp [same, h]

theorem same_singleton_some (l q p : Bytes) : same [(some l, q)] p = 0 := by
  simp [same]

/-! ### the model computes the specification's labels -/

def toEntry (i : Input) : Entry := (if i.isLabeled then some i.label else none, i.path)

theorem toEntry_parsePath (as al : Bool) (p : Bytes) :
    toEntry (parsePath as al p) = splitEntry al p := by
  unfold parsePath splitEntry toEntry
  simp only
  split <;> simp

theorem parsePath_unlabelled (as al : Bool) (p : Bytes) (h : (parsePath as al p).isLabeled = false) :
    (parsePath as al p).label = (parsePath as al p).path := by
  unfold parsePath at h ⊢
  simp only at h ⊢
  split <;> simp_all

theorem pathCount_eq_same (ins : List Input) (p : Bytes) :
    pathCount ins p = same (ins.map toEntry) p := by
  unfold pathCount same
  induction ins with
  | nil => rfl
  | cons i is ih =>
    simp only [List.filter_cons, List.map_cons, toEntry]
    cases hl : i.isLabeled <;> simp [ih] <;> split <;> simp_all

theorem disambiguate_eq_labelsFrom (all : List Entry) (count : Bytes → Nat)
    (hcount : ∀ p, count p = same all p)
    (seen : List Bytes) (before rest : List Input)
    (hseen : ∀ p, count p ≠ 1 → seen.count p = same (before.map toEntry) p)
    (hrest : ∀ i ∈ rest, i.isLabeled = false → i.label = i.path) :
    (disambiguate count seen rest).map (·.label) =
      labelsFrom all (before.map toEntry) (rest.map toEntry) := by
  induction rest generalizing seen before with
  | nil => simp [disambiguate, labelsFrom]
  | cons inp rest ih =>
    have hrest' : ∀ i ∈ rest, i.isLabeled = false → i.label = i.path :=
      fun i hi => hrest i (List.mem_cons_of_mem _ hi)
    rw [List.map_cons, labelsFrom_cons]
    unfold disambiguate
    cases hl : inp.isLabeled with
    | true =>
      simp only [Bool.true_or, ↓reduceIte, List.map_cons]
      have hb : before.map toEntry ++ [toEntry inp] = (before ++ [inp]).map toEntry := by simp
      rw [hb, ← ih seen (before ++ [inp]) ?_ hrest']
      · simp [toEntry, hl, labelOf]
      · intro p hp
        rw [hseen p hp, List.map_append, same_append]
        simp [toEntry, hl, same]
    | false =>
      have hlab := hrest inp (List.mem_cons_self ..) hl
      have hb : before.map toEntry ++ [toEntry inp] = (before ++ [inp]).map toEntry := by simp
      by_cases hc : count inp.path = 1
      · simp only [hc, beq_self_eq_true, Bool.or_true, ↓reduceIte, List.map_cons]
        rw [hb, ← ih seen (before ++ [inp]) ?_ hrest']
        · have : same all inp.path = 1 := by rw [← hcount]; exact hc
          simp [toEntry, hl, labelOf, this, hlab]
        · intro p hp
          rw [hseen p hp, List.map_append, same_append]
          have hne : inp.path ≠ p := fun e => hp (e ▸ hc)
          simp [toEntry, hl, same, hne]
      · have hcb : (count inp.path == 1) = false := by simpa using hc
        simp only [hcb, Bool.or_self, Bool.false_eq_true, ↓reduceIte, List.map_cons]
        rw [hb, ← ih (inp.path :: seen) (before ++ [inp]) ?_ hrest']
        · have h1 : ¬ same all inp.path = 1 := by rw [← hcount]; exact hc
          have h1b : (same all inp.path == 1) = false := by simpa using h1
          simp [toEntry, hl, labelOf, h1b, hseen inp.path hc]
        · intro p hp
          rw [List.count_cons, hseen p hp, List.map_append, same_append]
          simp only [List.map_cons, List.map_nil, toEntry, hl, Bool.false_eq_true, ↓reduceIte]
          rw [same_singleton_none]
          by_cases e : inp.path = p <;> simp [e]

theorem init_labels (paths : List Bytes) (as al : Bool) (h : ¬ (as = true ∧ paths = [])) :
    (Files.init paths as al).map (·.label) = labels paths al := by
  unfold Files.init labels
  have hd : (if (as && paths.isEmpty) = true then
      [({ path := [45], label := [45], isStdin := true, isLabeled := false } : Input)] else []) = [] := by
    cases as <;> cases paths <;> simp_all
  simp only [hd, List.nil_append]
  have hm : (paths.map (parsePath as al)).map toEntry = paths.map (splitEntry al) := by
    simp [toEntry_parsePath]
  have := disambiguate_eq_labelsFrom (paths.map (splitEntry al))
    (pathCount (paths.map (parsePath as al)))
    (fun p => by rw [pathCount_eq_same, hm]) [] [] (paths.map (parsePath as al))
    (fun p _ => by simp [same])
    (fun i hi hl => by
      obtain ⟨p, _, rfl⟩ := List.mem_map.1 hi
      exact parsePath_unlabelled as al p hl)
  rw [this, hm]; rfl

/-- An empty path list with stdin allowed is one input, stdin, labelled `-`. -/
theorem init_implicit_stdin (al : Bool) :
    Files.init [] true al = [{ path := [45], label := [45], isStdin := true, isLabeled := false }] := by
  simp [Files.init, disambiguate, pathCount]

/-! ### decimal numerals -/

theorem map_injOn {α β : Type} (f : α → β) :
    ∀ l1 l2 : List α, (∀ a ∈ l1, ∀ b ∈ l2, f a = f b → a = b) → l1.map f = l2.map f → l1 = l2
  | [], [], _, _ => rfl
  | [], _ :: _, _, h => by simp at h
  | _ :: _, [], _, h => by simp at h
  | a :: l1, b :: l2, hinj, h => by
    simp only [List.map_cons, List.cons.injEq] at h
    have hab := hinj a (List.mem_cons_self ..) b (List.mem_cons_self ..) h.1
    have := map_injOn f l1 l2 (fun x hx y hy => hinj x (List.mem_cons_of_mem _ hx) y (List.mem_cons_of_mem _ hy)) h.2
    rw [hab, this]

theorem digit_byte {c : Char} (h : c.isDigit = true) :
    (UInt8.ofNat c.toNat).toNat = c.toNat ∧ 48 ≤ c.toNat ∧ c.toNat ≤ 57 := by
  simp only [Char.isDigit, Bool.and_eq_true, decide_eq_true_eq] at h
  have h1 : 48 ≤ c.toNat := by
    have := h.1; simp only [Char.toNat]; exact UInt32.le_iff_toNat_le.mp this
  have h2 : c.toNat ≤ 57 := by
    have := h.2; simp only [Char.toNat]; exact UInt32.le_iff_toNat_le.mp this
  refine ⟨?_, h1, h2⟩
  simp only [UInt8.toNat_ofNat']
  omega

theorem decimal_injective {n m : Nat} (h : decimal n = decimal m) : n = m := by
  unfold decimal at h
  have hd : Nat.toDigits 10 n = Nat.toDigits 10 m := by
    apply map_injOn _ _ _ _ h
    intro a ha b hb hab
    have da := digit_byte (Nat.isDigit_of_mem_toDigits (by decide) (by decide) ha)
    have db := digit_byte (Nat.isDigit_of_mem_toDigits (by decide) (by decide) hb)
    have : a.toNat = b.toNat := by rw [← da.1, ← db.1, hab]
    exact Char.ext (UInt32.toNat_inj.mp this)
  have := congrArg (fun l => Nat.ofDigitChars 10 l 0) hd
  simpa [Nat.ofDigitChars_ten_toDigits] using this

theorem hash_not_mem_decimal (n : Nat) : (35 : UInt8) ∉ decimal n := by
  unfold decimal
  intro h
  obtain ⟨c, hc, he⟩ := List.mem_map.1 h
  have d := digit_byte (Nat.isDigit_of_mem_toDigits (by decide) (by decide) hc)
  have : (UInt8.ofNat c.toNat).toNat = 35 := by rw [he]; rfl
  omega

theorem append_hash_inj : ∀ (a b d1 d2 : Bytes), (35 : UInt8) ∉ d1 → (35 : UInt8) ∉ d2 →
    a ++ 35 :: d1 = b ++ 35 :: d2 → a = b ∧ d1 = d2
  | [], [], _, _, _, _, h => by simpa using h
  | [], y :: b, d1, d2, h1, _, h => by
    simp only [List.nil_append, List.cons_append, List.cons.injEq] at h
    exact absurd (h.2 ▸ (by simp : (35 : UInt8) ∈ b ++ 35 :: d2)) h1
  | x :: a, [], d1, d2, _, h2, h => by
    simp only [List.nil_append, List.cons_append, List.cons.injEq] at h
    exact absurd (h.2 ▸ (by simp : (35 : UInt8) ∈ a ++ 35 :: d1)) h2
  | x :: a, y :: b, d1, d2, h1, h2, h => by
    simp only [List.cons_append, List.cons.injEq] at h
    obtain ⟨r1, r2⟩ := append_hash_inj a b d1 d2 h1 h2 h.2
    exact ⟨by rw [h.1, r1], r2⟩

/-! ### distinctness -/

/-- No unlabelled path is literally `q#n` for an unlabelled path `q` that occurs more than once
(the excluded shape is the known finding N4, e.g. `a a a#0`). -/
def NoClash (es : List Entry) : Prop :=
  ∀ p q n, (none, p) ∈ es → (none, q) ∈ es → same es q ≠ 1 → p ≠ q ++ [35] ++ decimal n

theorem same_take_lt (es : List Entry) (i j : Nat) (p : Bytes) (hij : i < j)
    (hi : es[i]? = some (none, p)) : same (es.take i) p < same (es.take j) p := by
  obtain ⟨hlen, hget⟩ := List.getElem?_eq_some_iff.1 hi
  have : es.take j = es.take i ++ (none, p) :: (es.drop (i + 1)).take (j - i - 1) := by
    have h1 : es.take j = (es.take i ++ es.drop i).take j := by rw [List.take_append_drop]
    rw [h1, List.take_append, List.take_take]
    have : min j i = i := by omega
    rw [this]
    congr 1
    rw [List.drop_eq_getElem_cons hlen]
    rw [hget, List.length_take]
    have : min i es.length = i := by omega
    rw [this]
    obtain ⟨k, hk⟩ : ∃ k, j - i = k + 1 := ⟨j - i - 1, by omega⟩
    have hk' : j - i - 1 = k := by omega
    rw [hk', hk, List.take_succ_cons]
  rw [this, same_append]
  have : same ((none, p) :: (es.drop (i + 1)).take (j - i - 1)) p ≥ 1 := by
    simp [same]
  omega

theorem labels_distinct (es : List Entry) (hnc : NoClash es) (i j : Nat) (hij : i < j)
    (p q : Bytes) (hi : es[i]? = some (none, p)) (hj : es[j]? = some (none, q)) :
    (labelsFrom es [] es)[i]? ≠ (labelsFrom es [] es)[j]? := by
  rw [labelsFrom_getElem? es [] es i _ hi, labelsFrom_getElem? es [] es j _ hj]
  simp only [List.nil_append, labelOf]
  have hpm : (none, p) ∈ es := List.mem_of_getElem? hi
  have hqm : (none, q) ∈ es := List.mem_of_getElem? hj
  intro heq
  have heq := Option.some.inj heq
  by_cases hpq : p = q
  · subst hpq
    -- the same path twice: it is a duplicate, both get numbers, the numbers differ
    have hlt := same_take_lt es i j p hij hi
    have hdup : ¬ same es p = 1 := by
      intro h1
      have hle : same (es.take j) p ≤ same es p := by
        have := same_append (es.take j) (es.drop j) p
        rw [List.take_append_drop] at this; omega
      obtain ⟨hjlen, _⟩ := List.getElem?_eq_some_iff.1 hj
      have : same (es.take (j + 1)) p ≤ same es p := by
        have := same_append (es.take (j + 1)) (es.drop (j + 1)) p
        rw [List.take_append_drop] at this; omega
      have h2 := same_take_lt es j (j + 1) p (by omega) hj
      omega
    have hb : (same es p == 1) = false := by simpa using hdup
    simp only [hb, Bool.false_eq_true, ↓reduceIte, List.append_assoc, List.singleton_append] at heq
    have := (append_hash_inj p p _ _ (hash_not_mem_decimal _) (hash_not_mem_decimal _) heq).2
    have := decimal_injective this
    omega
  · by_cases h1 : same es p = 1 <;> by_cases h2 : same es q = 1
    · simp [h1, h2] at heq; exact hpq heq
    · have hb : (same es q == 1) = false := by simpa using h2
      simp only [h1, beq_self_eq_true, ↓reduceIte, hb, Bool.false_eq_true] at heq
      exact hnc p q _ hpm hqm h2 heq
    · have hb : (same es p == 1) = false := by simpa using h1
      simp only [h2, beq_self_eq_true, ↓reduceIte, hb, Bool.false_eq_true] at heq
      exact hnc q p _ hqm hpm h1 heq.symm
    · have hb1 : (same es p == 1) = false := by simpa using h1
      have hb2 : (same es q == 1) = false := by simpa using h2
      simp only [hb1, hb2, Bool.false_eq_true, ↓reduceIte, List.append_assoc, List.singleton_append] at heq
      exact hpq (append_hash_inj p q _ _ (hash_not_mem_decimal _) (hash_not_mem_decimal _) heq).1

end Spec.Format
