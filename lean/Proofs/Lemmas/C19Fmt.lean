/-
C19 helper lemmas about the legacy benchfmt model: configuration lines written by the Printer are
read back by the Reader; record insertion.
-/
import Model.Storage.Fmt

namespace C19
open Storage.Query Storage.Fmt

/-- a key the Reader accepts: lower-case first byte, no blank, upper-case letter or colon -/
def validKey (k : Bytes) : Prop :=
  (∃ c r, k = c :: r ∧ isAsciiLower c = true) ∧
  ∀ c ∈ k, isAsciiSpace c = false ∧ isAsciiUpper c = false ∧ c ≠ cColon

theorem kvScan_key (k rest : Bytes) (i : Nat)
    (h0 : i = 0 → ∃ c r, k = c :: r ∧ isAsciiLower c = true)
    (hk : ∀ c ∈ k, isAsciiSpace c = false ∧ isAsciiUpper c = false ∧ c ≠ cColon)
    (hi : i + k.length > 0) :
    kvScan i (k ++ cColon :: rest) = some (i + k.length) := by
  induction k generalizing i with
  | nil =>
    have : i > 0 := by simpa using hi
    have hne : (i == 0) = false := by simp; omega
    simp [kvScan, hne, this, isAsciiSpace, isAsciiUpper, cColon]
  | cons c r ih =>
    have hc := hk c (by simp)
    have hlow : i = 0 → isAsciiLower c = true := by
      intro hi0
      obtain ⟨c', r', he, hl⟩ := h0 hi0
      cases he; exact hl
    rw [List.cons_append, kvScan]
    have h1 : (i == 0 && !isAsciiLower c) = false := by
      by_cases hi0 : i = 0
      · simp [hlow hi0]
      · simp [hi0]
    have hcc : (c == cColon) = false := by simpa using hc.2.2
    simp only [h1, hc.1, hc.2.1, hcc, Bool.or_self, Bool.false_eq_true, if_false, Bool.and_false]
    rw [ih (i + 1) (by omega) (fun x hx => hk x (by simp [hx])) (by omega)]
    simp only [List.length_cons]; congr 1; omega

/-- a `key: value` line as the Printer writes it is parsed back into the same pair, provided the
value is non-empty and does not start with a blank or tab -/
theorem kv_line_roundtrip (k v : Bytes) (hk : validKey k)
    (hv : ∃ c r, v = c :: r ∧ isBlank c = false) :
    parseKeyValueLine (k ++ [cColon, cSpace] ++ v) = some (k, v) := by
  obtain ⟨c, r, rfl, hc⟩ := hv
  have hs := kvScan_key k (cSpace :: c :: r) 0 (fun _ => hk.1) hk.2 (by
    obtain ⟨c', r', he, -⟩ := hk.1; subst he; simp)
  unfold parseKeyValueLine
  have e : k ++ [cColon, cSpace] ++ c :: r = k ++ cColon :: (cSpace :: c :: r) := by simp
  rw [e, hs]
  simp only [Nat.zero_add]
  have ht : (k ++ cColon :: cSpace :: c :: r).take k.length = k := by simp
  have hd : (k ++ cColon :: cSpace :: c :: r).drop (k.length + 1) = cSpace :: c :: r := by
    rw [← List.drop_drop]; simp
  rw [ht, hd]
  have hb : isBlank cSpace = true := by decide
  simp [List.dropWhile, hb, hc]

/-- the unset line `key:` is read as the removal of the key -/
theorem kv_unset_roundtrip (k : Bytes) (hk : validKey k) :
    parseKeyValueLine (k ++ [cColon]) = some (k, []) := by
  have hs := kvScan_key k [] 0 (fun _ => hk.1) hk.2 (by
    obtain ⟨c', r', he, -⟩ := hk.1; subst he; simp)
  unfold parseKeyValueLine
  rw [hs]
  simp

theorem insertLabel_fields (u : Upload) (k v : Bytes) :
    (u.insertLabel k v).records = u.records ∧ (u.insertLabel k v).id = u.id ∧
    (u.insertLabel k v).recordid = u.recordid := by
  unfold Upload.insertLabel Upload.flush
  split <;> simp

theorem foldl_insertLabel_fields (l : Labels) (u : Upload) :
    (l.foldl (fun u kv => u.insertLabel kv.1 kv.2) u).records = u.records ∧
    (l.foldl (fun u kv => u.insertLabel kv.1 kv.2) u).id = u.id ∧
    (l.foldl (fun u kv => u.insertLabel kv.1 kv.2) u).recordid = u.recordid := by
  induction l generalizing u with
  | nil => simp
  | cons kv rest ih =>
    simp only [List.foldl_cons]
    have h1 := insertLabel_fields u kv.1 kv.2
    have h2 := ih (u.insertLabel kv.1 kv.2)
    exact ⟨h2.1.trans h1.1, h2.2.1.trans h1.2.1, h2.2.2.trans h1.2.2⟩

end C19
