/-
C07 helper lemmas: quoting (hexQuote round trip), bare words, error stickiness.
-/
import Proofs.Lemmas.C07Parse

namespace C07
open Proc.Tok Proc.ParseFilter

/-! ### hexQuote -/

theorem Items.append {a b : Bytes} (ha : Items a) (hb : Items b) : Items (a ++ b) := by
  induction ha with
  | nil => simpa using hb
  | plain hq hbs _ ih => exact Items.plain hq hbs ih
  | esc _ ih => exact Items.esc ih

theorem lowerhex_plain (n : Nat) (h : n < 16) : lowerhex n ≠ cQuote ∧ lowerhex n ≠ cBsl := by
  have : ∀ n, n < 16 → lowerhex n ≠ cQuote ∧ lowerhex n ≠ cBsl := by decide
  exact this n h

theorem unhex_lowerhex (n : Nat) (h : n < 16) : unhex (lowerhex n) = some n := by
  have : ∀ n, n < 16 → unhex (lowerhex n) = some n := by decide
  exact this n h

theorem items_hexEsc (b : UInt8) : Items (hexEsc b) := by
  have hb : b.toNat / 16 < 16 := by have := b.toNat_lt; omega
  have h1 := lowerhex_plain (b.toNat / 16) hb
  have h2 := lowerhex_plain (b.toNat % 16) (Nat.mod_lt _ (by decide))
  exact Items.esc (Items.plain h1.1 h1.2 (Items.plain h2.1 h2.2 Items.nil))

theorem items_hexBody (s : Bytes) : Items (s.flatMap hexEsc) := by
  induction s with
  | nil => exact Items.nil
  | cons b s ih => simpa [List.flatMap_cons] using (items_hexEsc b).append ih

theorem unquoteChar_hexEsc (b : UInt8) (tail : Bytes) :
    unquoteChar (hexEsc b ++ tail) = some ([b], tail) := by
  have hb : b.toNat / 16 < 16 := by have := b.toNat_lt; omega
  have h1 := unhex_lowerhex (b.toNat / 16) hb
  have h2 := unhex_lowerhex (b.toNat % 16) (Nat.mod_lt _ (by decide))
  have e1 : (cBsl == cQuote) = false := by decide
  have e2 : (cBsl ≥ (0x80 : UInt8)) = False := by decide
  simp only [hexEsc, List.cons_append, List.nil_append, unquoteChar, e1]
  simp [cBsl, hexN, h1, h2]
  have key : ∀ n, n < 256 → UInt8.ofNat (n / 16) * 16 + UInt8.ofNat (n % 16) = UInt8.ofNat n := by decide +kernel
  have := key b.toNat b.toNat_lt
  simpa using this

theorem unquoteLoop_hex : ∀ (s : Bytes) (f : Nat) (acc : Bytes), s.length < f →
    unquoteLoop f (s.flatMap hexEsc ++ [cQuote]) acc = some (acc ++ s) := by
  intro s
  induction s with
  | nil =>
    intro f acc h
    match f, h with
    | f + 1, _ => simp [unquoteLoop]
  | cons b s ih =>
    intro f acc h
    match f, h with
    | f + 1, h =>
      have e1 : (cBsl == cQuote) = false := by decide
      have e2 : (cBsl == (10 : UInt8)) = false := by decide
      have hu := unquoteChar_hexEsc b (s.flatMap hexEsc ++ [cQuote])
      have hshape : (b :: s).flatMap hexEsc ++ [cQuote] =
          cBsl :: 120 :: lowerhex (b.toNat / 16) :: lowerhex (b.toNat % 16) :: (s.flatMap hexEsc ++ [cQuote]) := by
        simp [List.flatMap_cons, hexEsc]
      rw [hshape]
      simp only [unquoteLoop, e1, e2]
      have hu' : unquoteChar (cBsl :: 120 :: lowerhex (b.toNat / 16) :: lowerhex (b.toNat % 16) ::
          (s.flatMap hexEsc ++ [cQuote])) = some ([b], s.flatMap hexEsc ++ [cQuote]) := by
        simpa [hexEsc] using hu
      simp only [hu']
      rw [ih f (acc ++ [b]) (by simp at h; omega)]
      simp

theorem unquote_hexQuote (s : Bytes) : unquote (hexQuote s) = some s := by
  simp only [hexQuote, unquote]
  have : (decide ((s.flatMap hexEsc ++ [cQuote]).length ≥ 1)) = true := by simp
  simp only [beq_self_eq_true, this, Bool.and_self, if_true]
  have hlen : s.length < (s.flatMap hexEsc ++ [cQuote]).length + 1 := by
    have : ∀ (s : Bytes), (s.flatMap hexEsc).length = 4 * s.length := by
      intro s; induction s with
      | nil => rfl
      | cons b s ih =>
        rw [List.flatMap_cons, List.length_append, ih]
        simp only [hexEsc, List.length_cons, List.length_nil]; omega
    have := this s
    rw [List.length_append, this]; simp; omega
  simpa using unquoteLoop_hex s _ [] hlen

/-! ### bare words -/

/-- every rune of `q` (decoded as `range` does) satisfies `P` -/
def allRunes (P : Nat → Bool) : Nat → Bytes → Bool
  | 0, _ => true
  | f + 1, q =>
    match q with
    | [] => true
    | _ :: _ => P (decodeRune q).1 && allRunes P f (q.drop (decodeRune q).2)

theorem bareSplit_all (cx : Ctx) : ∀ (f : Nat) (q : Bytes), q.length ≤ f →
    allRunes (fun r => !(isSpaceRune cx r || isOpR r)) f q = true → bareSplit cx f q = (q, []) := by
  intro f
  induction f with
  | zero =>
    intro q h _
    have : q = [] := List.length_eq_zero_iff.mp (by omega)
    subst this; simp [bareSplit]
  | succ f ih =>
    intro q h ha
    match q with
    | [] => simp [bareSplit]
    | c :: t =>
      have hsz := decodeRune_size c t
      simp only [allRunes, Bool.and_eq_true, Bool.not_eq_true'] at ha
      simp only [bareSplit, ha.1]
      have hl : ((c :: t).drop (decodeRune (c :: t)).2).length ≤ f := by
        rw [List.length_drop]; simp at h ⊢; omega
      rw [ih _ hl ha.2]
      simp

/-! ### error stickiness -/

theorem ErrOK.some {cx : Ctx} {q : Bytes} {x : Err} {e' : ErrSt} (h : ErrOK cx q (some x) e') : e' = some x := by
  rcases h with h | ⟨h, _⟩
  · exact h
  · simp at h

theorem endCheck_some (cx : Ctx) (q : Bytes) (x : Err) : endCheck cx q (some x) = some x := by
  have h := (next_ok cx false q (some x)).err.some
  simp only [endCheck]
  split
  · rw [h]; rfl
  · exact h

theorem endCheck_ok (cx : Ctx) (q : Bytes) (e : ErrSt) : ErrOK cx q e (endCheck cx q e) := by
  have h := next_ok cx false q e
  simp only [endCheck]
  split
  · exact h.err.trans (recErr_ok cx _ _ h.cur_le)
  · exact h.err

end C07
