/-
Surface syntax of the literal fragment of filter expressions (text, meaning, well-formedness) and
the predicates that say "the parser's tree means b".  Used by the text-level theorems of C06.
-/
import Proofs.Lemmas.C06Regex
import Model.Spec.FilterSem
import Model.Proc.FilterText
namespace C06
open Proc.Tok Proc.ParseFilter C07 Proc.FilterText
open Proc.FilterEval (ReOracle Res)
open Spec.FilterSem (denote denoteAll denoteAny termHolds)

/-- a value as written: a word (bare or quoted; `val` is its value) or a regular expression
`/val/` (`re = true`, `val` is the source) -/
structure SV where
  re : Bool
  txt : Bytes
  val : Bytes

/-- the tree leaf's matcher: a literal, or the oracle index of the regexp source -/
def SV.matcher (v : SV) : Proc.FilterEval.Matcher := if v.re then .re (reId v.val) else .lit v.val

/-- surface syntax of filter expressions: a key is given by its text and its value, a value by an
`SV`; `paren` holds an OR of juxtapositions; the `Bool` of an item says that it is written with
`AND` in front (ignored for the first item of a juxtaposition) -/
inductive S
  | paren (alts : List (List (Bool × S)))
  | neg (m : S)
  | star
  | term (kt kv : Bytes) (v : SV)
  | list (kt kv : Bytes) (vs : List SV)

def sepAND : Bytes := 0x20 :: (wAND ++ [0x20])
def sepOR : Bytes := 0x20 :: (wOR ++ [0x20])

/-- `a₁ OR a₂ OR … OR aₙ` as written (each item: text and value) -/
def renderVs : List SV → Bytes
  | [] => []
  | [p] => p.txt
  | p :: q :: r => p.txt ++ (0x20 :: (wOR ++ 0x20 :: renderVs (q :: r)))

mutual
/-- the text of a term -/
def render : S → Bytes
  | .paren alts => cLP :: (renderE alts ++ [cRP])
  | .neg m => cDash :: render m
  | .star => [cStar]
  | .term kt _ v => kt ++ cColon :: v.txt
  | .list kt _ vs => kt ++ cColon :: cLP :: (renderVs vs ++ [cRP])
/-- the items of a juxtaposition after the first: each preceded by " " or " AND " -/
def renderT : List (Bool × S) → Bytes
  | [] => []
  | (b, s) :: r => (if b then sepAND else [0x20]) ++ (render s ++ renderT r)
/-- a juxtaposition -/
def renderA : List (Bool × S) → Bytes
  | [] => []
  | (_, s) :: r => render s ++ renderT r
/-- alternatives separated by " OR " -/
def renderE : List (List (Bool × S)) → Bytes
  | [] => []
  | [a] => renderA a
  | a :: b :: r => renderA a ++ (sepOR ++ renderE (b :: r))
end

mutual
/-- the boolean meaning of the surface syntax, by ordinary recursion -/
def sem (re : ReOracle) (res : Res) (i : Nat) : S → Bool
  | .paren alts => semE re res i alts
  | .neg m => !sem re res i m
  | .star => true
  | .term _ kv v => termHolds re res i kv v.matcher
  | .list _ kv vs => vs.any fun p => termHolds re res i kv p.matcher
def semT (re : ReOracle) (res : Res) (i : Nat) : List (Bool × S) → Bool
  | [] => true
  | (_, s) :: r => sem re res i s && semT re res i r
def semE (re : ReOracle) (res : Res) (i : Nat) : List (List (Bool × S)) → Bool
  | [] => false
  | a :: r => semT re res i a || semE re res i r
end

/-- a well-formed value: a word in value position, or `/src/` whose scan ends at the top level and
which compiles; the flag says which -/
def okV (cx : Ctx) (v : SV) : Prop := ∃ k, Val cx k v.txt v.val ∧ (k == kR) = v.re

mutual
/-- well-formedness: the words are words, the regular expressions scan and compile, lists and
juxtapositions are non-empty -/
def okS (cx : Ctx) : S → Prop
  | .paren alts => alts ≠ [] ∧ okE cx alts
  | .neg m => okS cx m
  | .star => True
  | .term kt kv v => (∃ k, Word cx false k kt kv) ∧ okV cx v
  | .list kt kv vs => (∃ k, Word cx false k kt kv) ∧ vs ≠ [] ∧ ∀ p, p ∈ vs → okV cx p
def okT (cx : Ctx) : List (Bool × S) → Prop
  | [] => True
  | (_, s) :: r => okS cx s ∧ okT cx r
def okE (cx : Ctx) : List (List (Bool × S)) → Prop
  | [] => True
  | a :: r => a ≠ [] ∧ okT cx a ∧ okE cx r
end


/-! ### "the parsed tree means b" -/

abbrev Meaning := ReOracle → Res → Nat → Bool

/-- the parser's tree converts to an evaluator tree whose denotation is `b` -/
def GoodT (t : Filter) (b : Meaning) : Prop :=
  ∃ t', toTree t = some t' ∧ ∀ re res i, denote re res i t' = b re res i

def GoodAll (ts : List Filter) (b : Meaning) : Prop :=
  ∃ ts', toTrees ts = some ts' ∧ ∀ re res i, denoteAll re res i ts' = b re res i

def GoodAny (ts : List Filter) (b : Meaning) : Prop :=
  ∃ ts', toTrees ts = some ts' ∧ ∀ re res i, denoteAny re res i ts' = b re res i

theorem toTrees_append_one (ts : List Filter) (t : Filter) (ts' : List Proc.FilterEval.Filter)
    (t' : Proc.FilterEval.Filter) (h1 : toTrees ts = some ts') (h2 : toTree t = some t') :
    toTrees (ts ++ [t]) = some (ts' ++ [t']) := by
  induction ts generalizing ts' with
  | nil => simp [toTrees] at h1; subst h1; simp [toTrees, h2]
  | cons a r ih =>
    simp only [toTrees] at h1
    cases ha : toTree a with
    | none => simp [ha] at h1
    | some a' =>
      cases hr : toTrees r with
      | none => simp [ha, hr] at h1
      | some r' =>
        simp [ha, hr] at h1; subst h1
        simp [toTrees, ha, ih r' hr]

theorem denoteAll_append_one (re : ReOracle) (res : Res) (i : Nat) (ts : List Proc.FilterEval.Filter)
    (t : Proc.FilterEval.Filter) :
    denoteAll re res i (ts ++ [t]) = (denoteAll re res i ts && denote re res i t) := by
  induction ts with
  | nil => simp [denoteAll]
  | cons a r ih => simp [denoteAll, ih, Bool.and_assoc]

theorem denoteAny_append_one (re : ReOracle) (res : Res) (i : Nat) (ts : List Proc.FilterEval.Filter)
    (t : Proc.FilterEval.Filter) :
    denoteAny re res i (ts ++ [t]) = (denoteAny re res i ts || denote re res i t) := by
  induction ts with
  | nil => simp [denoteAny]
  | cons a r ih => simp [denoteAny, ih, Bool.or_assoc]

theorem GoodAll.nil : GoodAll [] (fun _ _ _ => true) := ⟨[], by simp [toTrees], by simp [denoteAll]⟩
theorem GoodAny.nil : GoodAny [] (fun _ _ _ => false) := ⟨[], by simp [toTrees], by simp [denoteAny]⟩

theorem GoodAll.snoc {ts : List Filter} {t : Filter} {b c : Meaning} (h1 : GoodAll ts b) (h2 : GoodT t c) :
    GoodAll (ts ++ [t]) (fun re res i => b re res i && c re res i) := by
  obtain ⟨ts', e1, d1⟩ := h1
  obtain ⟨t', e2, d2⟩ := h2
  exact ⟨ts' ++ [t'], toTrees_append_one ts t ts' t' e1 e2, fun re res i => by
    rw [denoteAll_append_one, d1, d2]⟩

theorem GoodAny.snoc {ts : List Filter} {t : Filter} {b c : Meaning} (h1 : GoodAny ts b) (h2 : GoodT t c) :
    GoodAny (ts ++ [t]) (fun re res i => b re res i || c re res i) := by
  obtain ⟨ts', e1, d1⟩ := h1
  obtain ⟨t', e2, d2⟩ := h2
  exact ⟨ts' ++ [t'], toTrees_append_one ts t ts' t' e1 e2, fun re res i => by
    rw [denoteAny_append_one, d1, d2]⟩

theorem GoodT.congr {t : Filter} {b c : Meaning} (h : GoodT t b) (hbc : ∀ re res i, b re res i = c re res i) :
    GoodT t c := by
  obtain ⟨t', e, d⟩ := h
  exact ⟨t', e, fun re res i => by rw [d, hbc]⟩

/-- `finish .and`: a single operand is returned as it is -/
theorem GoodAll.finish {ts : List Filter} {b : Meaning} (h : GoodAll ts b) : GoodT (finish .and ts) b := by
  obtain ⟨ts', e, d⟩ := h
  match ts, ts', e with
  | [], ts', e =>
    simp [toTrees] at e; subst e
    exact ⟨.and [], by simp [Proc.ParseFilter.finish, toTree, toTrees], fun re res i => by rw [← d]; simp [denote]⟩
  | [t], ts', e =>
    simp only [toTrees] at e
    cases ht : toTree t with
    | none => simp [ht] at e
    | some t' =>
      simp [ht] at e; subst e
      exact ⟨t', by simp [Proc.ParseFilter.finish, ht], fun re res i => by rw [← d]; simp [denoteAll]⟩
  | t :: u :: r, ts', e =>
    exact ⟨.and ts', by simp [Proc.ParseFilter.finish, toTree, e], fun re res i => by rw [← d]; simp [denote]⟩

theorem GoodAny.finish {ts : List Filter} {b : Meaning} (h : GoodAny ts b) : GoodT (finish .or ts) b := by
  obtain ⟨ts', e, d⟩ := h
  match ts, ts', e with
  | [], ts', e =>
    simp [toTrees] at e; subst e
    exact ⟨.or [], by simp [Proc.ParseFilter.finish, toTree, toTrees], fun re res i => by rw [← d]; simp [denote]⟩
  | [t], ts', e =>
    simp only [toTrees] at e
    cases ht : toTree t with
    | none => simp [ht] at e
    | some t' =>
      simp [ht] at e; subst e
      exact ⟨t', by simp [Proc.ParseFilter.finish, ht], fun re res i => by rw [← d]; simp [denoteAny]⟩
  | t :: u :: r, ts', e =>
    exact ⟨.or ts', by simp [Proc.ParseFilter.finish, toTree, e], fun re res i => by rw [← d]; simp [denote]⟩

theorem GoodT.not {t : Filter} {b : Meaning} (h : GoodT t b) :
    GoodT (.op .not [t]) (fun re res i => !b re res i) := by
  obtain ⟨t', e, d⟩ := h
  exact ⟨.not t', by simp [toTree, toTrees, e], fun re res i => by simp [denote, d]⟩

/-- the leaf the parser builds for a value -/
def leafSV (kv : Bytes) (v : SV) (off : Int) : Filter :=
  if v.re then .re kv v.val off else .lit kv v.val off

theorem GoodT.leaf (kv : Bytes) (v : SV) (off : Int) :
    GoodT (leafSV kv v off) (fun re res i => termHolds re res i kv v.matcher) := by
  refine ⟨.mtch kv off.toNat v.matcher, ?_, fun re res i => by simp [denote]⟩
  unfold leafSV SV.matcher
  cases v.re <;> simp [toTree]

theorem GoodT.star : GoodT (.op .and []) (fun _ _ _ => true) :=
  ⟨.and [], by simp [toTree, toTrees], fun re res i => by simp [denote, denoteAll]⟩

theorem GoodT.leaves (kv : Bytes) (off : Int) (vs : List SV) :
    GoodT (.op .or (vs.map fun p => leafSV kv p off))
      (fun re res i => vs.any fun p => termHolds re res i kv p.matcher) := by
  have h : ∀ vs : List SV, toTrees (vs.map fun p => leafSV kv p off) =
      some (vs.map fun p => .mtch kv off.toNat p.matcher) := by
    intro vs
    induction vs with
    | nil => simp [toTrees]
    | cons p r ih =>
      have hp : toTree (leafSV kv p off) = some (.mtch kv off.toNat p.matcher) := by
        unfold leafSV SV.matcher
        cases p.re <;> simp [toTree]
      simp [toTrees, hp, ih]
  refine ⟨.or (vs.map fun p => .mtch kv off.toNat p.matcher), by simp [toTree, h], fun re res i => ?_⟩
  simp only [denote]
  induction vs with
  | nil => simp [denoteAny]
  | cons p r ih => simp [denoteAny, denote, ih]

end C06
