/-
C16 — lemmas about the width pass of texttab.Format (Model/Tab/TextTab.lean).
-/
import Model.Tab.TextTab

namespace C16
open Tab.TextTab

/-! ### list plumbing -/

theorem getD_set (ws : List Int) (i j : Nat) (v : Int) :
    (ws.set i v).getD j 0 = if i = j ∧ i < ws.length then v else ws.getD j 0 := by
  simp only [List.getD_eq_getElem?_getD, List.getElem?_set]
  by_cases hij : i = j
  · subst hij
    by_cases hl : i < ws.length
    · simp [hl]
    · simp [hl]
  · simp [hij]

theorem getD_set_nat (ws : List Nat) (i j : Nat) (v : Nat) :
    (ws.set i v).getD j 0 = if i = j ∧ i < ws.length then v else ws.getD j 0 := by
  simp only [List.getD_eq_getElem?_getD, List.getElem?_set]
  by_cases hij : i = j
  · subst hij
    by_cases hl : i < ws.length
    · simp [hl]
    · simp [hl]
  · simp [hij]

theorem perm_sum_map {α : Type} (f : α → Int) {l₁ l₂ : List α} (h : l₁.Perm l₂) :
    (l₁.map f).sum = (l₂.map f).sum := by
  induction h with
  | nil => rfl
  | cons x _ ih => simp [ih]
  | swap x y l => simp only [List.map_cons, List.sum_cons]; omega
  | trans _ _ ih1 ih2 => exact ih1.trans ih2

/-! ### sumRange -/

theorem sumRange_mono (ws ws' : List Int) (h : ∀ i, ws.getD i 0 ≤ ws'.getD i 0) :
    ∀ n c, sumRange ws c n ≤ sumRange ws' c n := by
  intro n
  induction n with
  | zero => intro c; simp [sumRange]
  | succ n ih =>
    intro c
    simp only [sumRange]
    have := h c
    have := ih (c + 1)
    omega

theorem sumRange_congr (ws ws' : List Int) :
    ∀ n c, (∀ i, c ≤ i → i < c + n → ws'.getD i 0 = ws.getD i 0) →
      sumRange ws' c n = sumRange ws c n := by
  intro n
  induction n with
  | zero => intro c _; simp [sumRange]
  | succ n ih =>
    intro c h
    simp only [sumRange]
    rw [h c (Nat.le_refl _) (by omega), ih (c + 1) (fun i h1 h2 => h i (by omega) (by omega))]

/-! ### splitShrink / addBack -/

theorem split_mem (shrink : Nat → Bool) (ws : List Int) :
    ∀ n c w i, i ∈ (splitShrink shrink ws c n w).2 → c ≤ i ∧ i < c + n := by
  intro n
  induction n with
  | zero => intro c w i h; simp [splitShrink] at h
  | succ n ih =>
    intro c w i h
    unfold splitShrink at h
    split at h
    · have := ih _ _ _ h; omega
    · simp only [List.mem_cons] at h
      rcases h with h | h
      · omega
      · have := ih _ _ _ h; omega

theorem split_nodup (shrink : Nat → Bool) (ws : List Int) :
    ∀ n c w, (splitShrink shrink ws c n w).2.Nodup := by
  intro n
  induction n with
  | zero => intro c w; simp [splitShrink]
  | succ n ih =>
    intro c w
    unfold splitShrink
    split
    · exact ih _ _
    · simp only [List.nodup_cons]
      refine ⟨?_, ih _ _⟩
      intro h
      have := split_mem shrink ws _ _ _ _ h
      omega

/-- the columns not collected keep their width, so the total under the cell is what was
subtracted plus the collected columns -/
theorem split_sum (shrink : Nat → Bool) (ws ws' : List Int) :
    ∀ n c w, (∀ i, c ≤ i → i < c + n → i ∉ (splitShrink shrink ws c n w).2 →
        ws'.getD i 0 = ws.getD i 0) →
      sumRange ws' c n = (w - (splitShrink shrink ws c n w).1) +
        ((splitShrink shrink ws c n w).2.map (fun i => ws'.getD i 0)).sum := by
  intro n
  induction n with
  | zero => intro c w _; simp [splitShrink, sumRange]
  | succ n ih =>
    intro c w h
    unfold splitShrink at h ⊢
    by_cases hs : shrink c = true
    · simp only [hs, if_true] at h ⊢
      have hc : ws'.getD c 0 = ws.getD c 0 := by
        apply h c (Nat.le_refl _) (by omega)
        intro hm
        have := split_mem shrink ws _ _ _ _ hm
        omega
      have := ih (c + 1) (w - ws.getD c 0) (fun i h1 h2 h3 => h i (by omega) (by omega) h3)
      simp only [sumRange]
      omega
    · have hs' : shrink c = false := by simpa using hs
      simp only [hs', Bool.false_eq_true, if_false] at h ⊢
      have := ih (c + 1) w (fun i h1 h2 h3 => h i (by omega) (by omega) (by
        simp only [List.mem_cons, not_or]
        exact ⟨by omega, h3⟩))
      simp only [sumRange, List.map_cons, List.sum_cons]
      omega

theorem addBack_mem (ws : List Int) :
    ∀ n c w i, i ∈ (addBack ws c n w).2 → c ≤ i ∧ i < c + n := by
  intro n
  induction n with
  | zero => intro c w i h; simp [addBack] at h
  | succ n ih =>
    intro c w i h
    unfold addBack at h
    simp only [List.mem_cons] at h
    rcases h with h | h
    · omega
    · have := ih _ _ _ h; omega

theorem addBack_nodup (ws : List Int) : ∀ n c w, (addBack ws c n w).2.Nodup := by
  intro n
  induction n with
  | zero => intro c w; simp [addBack]
  | succ n ih =>
    intro c w
    unfold addBack
    simp only [List.nodup_cons]
    refine ⟨?_, ih _ _⟩
    intro h
    have := addBack_mem ws _ _ _ _ h
    omega

theorem addBack_fst (ws : List Int) : ∀ n c w, (addBack ws c n w).1 = w + sumRange ws c n := by
  intro n
  induction n with
  | zero => intro c w; simp [addBack, sumRange]
  | succ n ih =>
    intro c w
    unfold addBack
    simp only [sumRange, ih]
    omega

theorem addBack_sum (ws ws' : List Int) :
    ∀ n c w, sumRange ws' c n = ((addBack ws c n w).2.map (fun i => ws'.getD i 0)).sum := by
  intro n
  induction n with
  | zero => intro c w; simp [addBack, sumRange]
  | succ n ih =>
    intro c w
    unfold addBack
    simp only [sumRange, List.map_cons, List.sum_cons]
    rw [ih (c + 1) (w + ws.getD c 0)]

theorem addBack_ne_nil (ws : List Int) (n c : Nat) (w : Int) (h : 1 ≤ n) : (addBack ws c n w).2 ≠ [] := by
  cases n with
  | zero => omega
  | succ n => unfold addBack; simp

/-! ### distribute -/

theorem distribute_length : ∀ (l : List Nat) (ws : List Int) (w : Int),
    (distribute ws w l).length = ws.length := by
  intro l
  induction l with
  | nil => intro ws w; simp [distribute]
  | cons c rest ih => intro ws w; simp [distribute, ih]

theorem distribute_ge : ∀ (l : List Nat) (ws : List Int) (w : Int) (i : Nat),
    ws.getD i 0 ≤ (distribute ws w l).getD i 0 := by
  intro l
  induction l with
  | nil => intro ws w i; simp [distribute]
  | cons c rest ih =>
    intro ws w i
    simp only [distribute]
    refine Int.le_trans ?_ (ih _ _ i)
    rw [getD_set]
    split
    · rename_i h; rw [← h.1]; exact Int.le_max_left _ _
    · exact Int.le_refl _

theorem distribute_unchanged : ∀ (l : List Nat) (ws : List Int) (w : Int) (i : Nat),
    i ∉ l → (distribute ws w l).getD i 0 = ws.getD i 0 := by
  intro l
  induction l with
  | nil => intro ws w i _; simp [distribute]
  | cons c rest ih =>
    intro ws w i h
    simp only [List.mem_cons, not_or] at h
    simp only [distribute]
    rw [ih _ _ i h.2, getD_set]
    have : ¬ (c = i ∧ c < ws.length) := fun hh => h.1 hh.1.symm
    simp [this]

/-- whatever order the columns are taken in, the last one absorbs the whole remainder
(`avg = w` when `span = 1`), so the columns end up holding at least `w` together -/
theorem distribute_total : ∀ (l : List Nat) (ws : List Int) (w : Int),
    l ≠ [] → l.Nodup → (∀ c ∈ l, c < ws.length) →
    w ≤ (l.map (fun c => (distribute ws w l).getD c 0)).sum := by
  intro l
  induction l with
  | nil => intro ws w h; exact absurd rfl h
  | cons c rest ih =>
    intro ws w _ hnd hlt
    have hc : c < ws.length := hlt c (List.mem_cons_self ..)
    simp only [List.nodup_cons] at hnd
    simp only [distribute, List.map_cons, List.sum_cons]
    have hcv : ∀ v w', (distribute (ws.set c v) w' rest).getD c 0 = v := by
      intro v w'
      rw [distribute_unchanged _ _ _ _ hnd.1, getD_set]
      simp [hc]
    rw [hcv]
    cases rest with
    | nil =>
      simp only [List.length_nil, List.map_nil, List.sum_nil]
      have : Int.tdiv (w + ((0 + 1 : Nat) : Int) - 1) ((0 + 1 : Nat) : Int) = w := by
        simp
      rw [this]
      have := Int.le_max_right (ws.getD c 0) w
      omega
    | cons d rest' =>
      have := ih (ws.set c (max (ws.getD c 0) (Int.tdiv (w + ((d :: rest').length + 1 : Nat) - 1) ((d :: rest').length + 1 : Nat))))
        (w - max (ws.getD c 0) (Int.tdiv (w + ((d :: rest').length + 1 : Nat) - 1) ((d :: rest').length + 1 : Nat)))
        (by simp) hnd.2 (by
          intro x hx
          rw [List.length_set]
          exact hlt x (List.mem_cons_of_mem _ hx))
      omega

end C16
