/-
The literal-regexp matcher of Model/Spec/LitRegexp.lean means what it should:
`matches` ⇔ the value is p ++ literal ++ s, p empty under a start anchor, s empty under an end anchor.
-/
import Model.Spec.LitRegexp

namespace C06
open Bytes Spec.LitRegexp

theorem hasPrefix_iff (v l : Bytes) : hasPrefix v l = true ↔ ∃ s, v = l ++ s := by
  induction l generalizing v with
  | nil => cases v <;> simp [hasPrefix]
  | cons c l ih =>
    cases v with
    | nil => simp [hasPrefix]
    | cons a v =>
      simp only [hasPrefix, Bool.and_eq_true, beq_iff_eq, ih, List.cons_append, List.cons.injEq]
      constructor
      · rintro ⟨rfl, s, rfl⟩; exact ⟨s, rfl, rfl⟩
      · rintro ⟨s, rfl, rfl⟩; exact ⟨rfl, s, rfl⟩

theorem contains_iff (v l : Bytes) : contains v l = true ↔ ∃ p s, v = p ++ l ++ s := by
  induction v with
  | nil =>
    simp only [contains, List.isEmpty_iff]
    constructor
    · rintro rfl; exact ⟨[], [], rfl⟩
    · rintro ⟨p, s, h⟩
      have := congrArg List.length h
      simp at this
      exact List.length_eq_zero_iff.mp (by omega)
  | cons a v ih =>
    simp only [contains, Bool.or_eq_true, hasPrefix_iff, ih]
    constructor
    · rintro (⟨s, h⟩ | ⟨p, s, h⟩)
      · exact ⟨[], s, by simpa using h⟩
      · exact ⟨a :: p, s, by simp [h]⟩
    · rintro ⟨p, s, h⟩
      cases p with
      | nil => exact Or.inl ⟨s, by simpa using h⟩
      | cons b p =>
        simp only [List.cons_append, List.cons.injEq] at h
        exact Or.inr ⟨p, s, h.2⟩

theorem hasSuffix_iff (v l : Bytes) : hasSuffix v l = true ↔ ∃ p, v = p ++ l := by
  unfold hasSuffix
  rw [hasPrefix_iff]
  constructor
  · rintro ⟨s, h⟩
    refine ⟨s.reverse, ?_⟩
    have := congrArg List.reverse h
    simpa using this
  · rintro ⟨p, rfl⟩
    exact ⟨p.reverse, by simp⟩

/-- **litre_matches_spec** -/
theorem litre_matches_spec (r : LitRe) (v : Bytes) :
    r.matches v = true ↔
      ∃ p s, v = p ++ r.lit ++ s ∧ (r.anchS = true → p = []) ∧ (r.anchE = true → s = []) := by
  obtain ⟨a, l, z⟩ := r
  cases a <;> cases z <;> simp only [LitRe.matches]
  · rw [contains_iff]
    constructor
    · rintro ⟨p, s, h⟩; exact ⟨p, s, h, by simp, by simp⟩
    · rintro ⟨p, s, h, _, _⟩; exact ⟨p, s, h⟩
  · rw [hasSuffix_iff]
    constructor
    · rintro ⟨p, h⟩; exact ⟨p, [], by simpa using h, by simp, by simp⟩
    · rintro ⟨p, s, h, _, hs⟩; exact ⟨p, by rw [h, hs trivial]; simp⟩
  · rw [hasPrefix_iff]
    constructor
    · rintro ⟨s, h⟩; exact ⟨[], s, by simpa using h, by simp, by simp⟩
    · rintro ⟨p, s, h, hp, _⟩; exact ⟨s, by rw [h, hp trivial]; simp⟩
  · simp only [beq_iff_eq]
    constructor
    · rintro rfl; exact ⟨[], [], by simp, by simp, by simp⟩
    · rintro ⟨p, s, h, hp, hs⟩; rw [h, hp trivial, hs trivial]; simp

/-- the forms of the seeded defect are in the sub-language: `^Copy$`, `\ACopy\z`, `^(?:Copy)$`,
`^B\/op$` all mean "is exactly", `^Copy` "starts with", `Copy$` "ends with", `Copy` "contains" -/
example : parse (Bytes.ofString "^Copy$") = some ⟨true, Bytes.ofString "Copy", true⟩ := by decide +kernel
example : parse (Bytes.ofString "\\ACopy\\z") = some ⟨true, Bytes.ofString "Copy", true⟩ := by decide +kernel
example : parse (Bytes.ofString "^(?:Copy)$") = some ⟨true, Bytes.ofString "Copy", true⟩ := by decide +kernel
example : parse (Bytes.ofString "^B\\/op$") = some ⟨true, Bytes.ofString "B/op", true⟩ := by decide +kernel
example : parse (Bytes.ofString "^Copy") = some ⟨true, Bytes.ofString "Copy", false⟩ := by decide +kernel
example : parse (Bytes.ofString "Copy$") = some ⟨false, Bytes.ofString "Copy", true⟩ := by decide +kernel
example : parse (Bytes.ofString "^Co.y$") = none := by decide +kernel
example : (⟨true, Bytes.ofString "Copy", true⟩ : LitRe).matches (Bytes.ofString "FastCopy") = false := by decide +kernel

end C06
