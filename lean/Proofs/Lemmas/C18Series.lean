/-
C18 helper lemmas about the comparison-series model: association lists, locality of the
rearrangement fold (a contribution only touches its own (benchmark, series) cell), the per-cell
folds of the two duplicate policies, and permutation lemmas for the iteration orders.
-/
import Model.Series.Builder

namespace C18
open Series

theorem alookup_aset_eq {κ ν} [DecidableEq κ] (k : κ) (v : ν) (l : List (κ × ν)) :
    alookup k (aset k v l) = some v := by
  induction l with
  | nil => simp [aset, alookup]
  | cons p l ih =>
    obtain ⟨k', v'⟩ := p
    by_cases h : k = k'
    · simp [aset, alookup, h]
    · simp [aset, alookup, h, ih]

theorem alookup_aset_ne {κ ν} [DecidableEq κ] {k k' : κ} (h : k ≠ k') (v : ν) (l : List (κ × ν)) :
    alookup k (aset k' v l) = alookup k l := by
  induction l with
  | nil => simp [aset, alookup, h]
  | cons p l ih =>
    obtain ⟨k'', v''⟩ := p
    by_cases h2 : k' = k''
    · subst h2; simp [aset, alookup, h]
    · by_cases h3 : k = k''
      · simp [aset, alookup, h2, h3]
      · simp [aset, alookup, h2, h3, ih]

/-- what one contribution does to the cell it belongs to -/
def stepCell (env : Env) (pol : Policy) (o : Option Cmp) (c : Contrib) : Option Cmp :=
  match o with
  | none => some { num := c.num, den := c.den, date := c.date }
  | some cc =>
    match pol with
    | .replace => if env.lt cc.date c.date then some { num := c.num, den := c.den, date := c.date } else some cc
    | .combine => some { num := cc.num ++ c.num, den := combineDen cc.den c.den,
                         date := if env.lt cc.date c.date then c.date else cc.date }

def _root_.Series.Contrib.key (c : Contrib) : Bytes × Bytes := (c.bench, c.ser)

/-- one step, seen from a fixed cell -/
theorem step_lookup (env : Env) (pol : Policy) (a : Acc) (c : Contrib) (sk : Bytes × Bytes) :
    alookup sk (step env pol a c).cells =
      if c.key = sk then stepCell env pol (alookup sk a.cells) c else alookup sk a.cells := by
  unfold step Contrib.key
  by_cases h : (c.bench, c.ser) = sk
  · subst h
    simp only [if_true]
    cases hl : alookup (c.bench, c.ser) a.cells with
    | none => simp [stepCell, alookup_aset_eq]
    | some cc =>
      cases pol with
      | replace =>
        simp only [stepCell]
        by_cases hd : env.lt cc.date c.date = true
        · simp [hd, alookup_aset_eq]
        · simp [hd, hl]
      | combine => simp [stepCell, alookup_aset_eq]
  · have h' : sk ≠ (c.bench, c.ser) := fun e => h e.symm
    simp only [h, if_false]
    cases hl : alookup (c.bench, c.ser) a.cells with
    | none => simp [alookup_aset_ne h']
    | some cc =>
      cases pol with
      | replace =>
        by_cases hd : env.lt cc.date c.date = true
        · simp [hd, alookup_aset_ne h']
        · simp [hd]
      | combine => simp [alookup_aset_ne h']

/-- **locality**: the cell of `sk` after the whole rearrangement loop is the fold of `stepCell`
over the contributions addressed to `sk`, in visiting order -/
theorem cells_lookup_foldl (env : Env) (pol : Policy) (cs : List Contrib) (a : Acc) (sk : Bytes × Bytes) :
    alookup sk (cs.foldl (step env pol) a).cells =
      (cs.filter (fun c => c.key = sk)).foldl (stepCell env pol) (alookup sk a.cells) := by
  induction cs generalizing a with
  | nil => rfl
  | cons c cs ih =>
    simp only [List.foldl_cons, ih, step_lookup]
    by_cases h : c.key = sk
    · simp [h]
    · simp [h]

/-! ### replace: the latest date wins -/

structure StrictOrder (lt : Bytes → Bytes → Bool) : Prop where
  irrefl : ∀ a, lt a a = false
  trans : ∀ a b c, lt a b = true → lt b c = true → lt a c = true
  total : ∀ a b, lt a b = false → lt b a = false → a = b

def fresh (c : Contrib) : Cmp := { num := c.num, den := c.den, date := c.date }

/-- folding `stepCell .replace` from a contribution `c0` keeps a contribution of the list whose
date no other one exceeds -/
theorem replace_fold_max (env : Env) (ho : StrictOrder env.lt) (F : List Contrib) (c0 : Contrib) :
    ∃ c, c ∈ c0 :: F ∧ F.foldl (stepCell env .replace) (some (fresh c0)) = some (fresh c) ∧
      ∀ c' ∈ c0 :: F, env.lt c.date c'.date = false := by
  induction F generalizing c0 with
  | nil => exact ⟨c0, by simp, rfl, by intro c' hc'; simp at hc'; subst hc'; exact ho.irrefl _⟩
  | cons x F ih =>
    simp only [List.foldl_cons, stepCell, fresh]
    by_cases hd : env.lt c0.date x.date = true
    · simp only [hd, if_true]
      obtain ⟨c, hc, hf, hmax⟩ := ih x
      refine ⟨c, ?_, hf, ?_⟩
      · rcases List.mem_cons.mp hc with h | h
        · subst h; simp
        · simp [h]
      · intro c' hc'
        rcases List.mem_cons.mp hc' with h | h
        · subst h
          -- c ≥ x > c0
          have hx := hmax x (by simp)
          cases hcc : env.lt c.date c'.date with
          | false => rfl
          | true =>
            have := ho.trans _ _ _ hcc hd
            rw [hx] at this; exact absurd this (by simp)
        · exact hmax c' h
    · have hd' : env.lt c0.date x.date = false := by simpa using hd
      simp only [hd', Bool.false_eq_true, if_false]
      obtain ⟨c, hc, hf, hmax⟩ := ih c0
      refine ⟨c, ?_, hf, ?_⟩
      · rcases List.mem_cons.mp hc with h | h
        · subst h; simp
        · simp [h]
      · intro c' hc'
        rcases List.mem_cons.mp hc' with h | h
        · subst h; exact hmax _ (by simp)
        · rcases List.mem_cons.mp h with h | h
          · subst h
            -- c ≥ c0 ≥ x
            have hc0 := hmax c0 (by simp)
            cases hcc : env.lt c.date c'.date with
            | false => rfl
            | true =>
              -- c < x, and not (c0 < x), not (c < c0): by totality cases
              cases h1 : env.lt c'.date c0.date with
              | true =>
                have := ho.trans _ _ _ hcc h1
                rw [hc0] at this; exact absurd this (by simp)
              | false =>
                have e := ho.total _ _ hd' h1
                rw [← e] at hcc; rw [hc0] at hcc; exact absurd hcc (by simp)
          · exact hmax c' (by simp [h])

/-! ### combine: concatenation -/

theorem combine_fold (env : Env) (F : List Contrib) (z : Cmp) :
    ∃ d, F.foldl (stepCell env .combine) (some z) =
      some { num := z.num ++ F.flatMap (·.num), den := (F.map (·.den)).foldl combineDen z.den, date := d } := by
  induction F generalizing z with
  | nil => exact ⟨z.date, by simp⟩
  | cons x F ih =>
    simp only [List.foldl_cons, stepCell]
    obtain ⟨d, hd⟩ := ih { num := z.num ++ x.num, den := combineDen z.den x.den,
                            date := if env.lt z.date x.date then x.date else z.date }
    exact ⟨d, by rw [hd]; simp [List.append_assoc]⟩

/-! ### iteration orders are permutations -/

theorem perm_flatMap_left {α β} (l : List α) {f g : α → List β} (h : ∀ a ∈ l, (f a).Perm (g a)) :
    (l.flatMap f).Perm (l.flatMap g) := by
  induction l with
  | nil => simp
  | cons a l ih =>
    simp only [List.flatMap_cons]
    exact (h a (by simp)).append (ih fun b hb => h b (by simp [hb]))

structure _root_.Series.Iter.Valid (it : Iter) : Prop where
  tables : ∀ l, (it.tables l).Perm l
  trials : ∀ l, (it.trials l).Perm l
  tests : ∀ l, (it.tests l).Perm l

theorem contribs_perm (env : Env) (it : Iter) (hv : it.Valid) (b : Builder) (t : TKey) :
    (contribs env it b t).Perm (contribs env Iter.id b t) := by
  unfold contribs
  exact (perm_flatMap_left _ (fun k _ => (hv.tests _).map _)).trans ((hv.trials _).flatMap_right _)

/-- the max-date element of a list with pairwise distinct dates does not depend on the order -/
theorem replace_fold_perm (env : Env) (ho : StrictOrder env.lt) {F1 F2 : List Contrib} (hp : F1.Perm F2)
    (hdist : ∀ x ∈ F1, ∀ y ∈ F1, x.date = y.date → x = y) :
    F1.foldl (stepCell env .replace) none = F2.foldl (stepCell env .replace) none := by
  cases F1 with
  | nil => rw [hp.symm.eq_nil]
  | cons a F1 =>
    cases F2 with
    | nil => exact absurd hp.length_eq (by simp)
    | cons b F2 =>
      simp only [List.foldl_cons, stepCell]
      obtain ⟨c1, hc1, hf1, hm1⟩ := replace_fold_max env ho F1 a
      obtain ⟨c2, hc2, hf2, hm2⟩ := replace_fold_max env ho F2 b
      have e1 : ({ num := a.num, den := a.den, date := a.date } : Cmp) = fresh a := rfl
      have e2 : ({ num := b.num, den := b.den, date := b.date } : Cmp) = fresh b := rfl
      rw [e1, e2, hf1, hf2]
      have h12 := hm1 c2 (hp.mem_iff.mpr hc2)
      have h21 := hm2 c1 (hp.mem_iff.mp hc1)
      have hd : c1.date = c2.date := ho.total _ _ h12 h21
      rw [hdist c1 hc1 c2 (hp.mem_iff.mpr hc2) hd]

end C18

namespace C18
open Series

theorem mem_dedup {α} [DecidableEq α] (a : α) (l : List α) : a ∈ dedup l ↔ a ∈ l := by
  induction l with
  | nil => simp [dedup]
  | cons x l ih =>
    simp only [dedup]
    by_cases hx : x ∈ l
    · simp only [hx, if_true, ih, List.mem_cons]
      constructor
      · exact Or.inr
      · rintro (rfl | h)
        · exact hx
        · exact h
    · simp [hx, ih]

theorem nodup_dedup {α} [DecidableEq α] (l : List α) : (dedup l).Nodup := by
  induction l with
  | nil => simp [dedup]
  | cons x l ih =>
    simp only [dedup]
    by_cases hx : x ∈ l
    · simpa [hx] using ih
    · simp only [hx, if_false, List.nodup_cons]
      exact ⟨by rwa [mem_dedup], ih⟩

structure TotalOrder (le : Bytes → Bytes → Bool) : Prop where
  trans : ∀ a b c, le a b = true → le b c = true → le a c = true
  total : ∀ a b, (le a b || le b a) = true
  antisymm : ∀ a b, le a b = true → le b a = true → a = b

/-- `sortStringSet` depends on the *set* only -/
theorem sortSet_ext (env : Env) (ho : TotalOrder env.le) {l1 l2 : List Bytes} (h : ∀ a, a ∈ l1 ↔ a ∈ l2) :
    sortSet env l1 = sortSet env l2 := by
  unfold sortSet
  have p : (dedup l1).Perm (dedup l2) :=
    (List.perm_ext_iff_of_nodup (nodup_dedup l1) (nodup_dedup l2)).mpr (by intro a; simp [mem_dedup, h])
  have p' : ((dedup l1).mergeSort env.le).Perm ((dedup l2).mergeSort env.le) :=
    (List.mergeSort_perm _ _).trans (p.trans (List.mergeSort_perm _ _).symm)
  exact List.Perm.eq_of_pairwise (fun a b _ _ => ho.antisymm a b)
    (List.pairwise_mergeSort ho.trans ho.total _) (List.pairwise_mergeSort ho.trans ho.total _) p'

end C18
