/-
C18 helper: insertion sort over ℚ sorts and permutes; percentile, median, resampled ratios stay
inside the interval spanned by the data.
-/
import Proofs.Lemmas.C18Ordered

namespace C18
open Series.Boot

theorem rat_less (x y : Rat) : rat.less x y = decide (x < y) := by simp [Arith.less]

theorem insertSorted_perm (x : Rat) (l : List Rat) : (insertSorted rat x l).Perm (x :: l) := by
  induction l with
  | nil => simp [insertSorted]
  | cons y l ih =>
    simp only [insertSorted, rat_less]
    split
    · exact ((List.Perm.cons y ih).trans (List.Perm.swap x y l))
    · exact List.Perm.refl _

theorem insertSorted_sorted (x : Rat) (l : List Rat) (h : l.Pairwise (· ≤ ·)) :
    (insertSorted rat x l).Pairwise (· ≤ ·) := by
  induction l with
  | nil => simp [insertSorted]
  | cons y l ih =>
    simp only [insertSorted, rat_less]
    rw [List.pairwise_cons] at h
    split
    · rename_i hyx
      have hyx : y < x := by simpa using hyx
      rw [List.pairwise_cons]
      refine ⟨?_, ih h.2⟩
      intro z hz
      rcases (List.mem_cons.mp ((insertSorted_perm x l).mem_iff.mp hz)) with rfl | hz'
      · exact le_of_lt hyx
      · exact h.1 z hz'
    · rename_i hyx
      have hxy : x ≤ y := by simpa using hyx
      rw [List.pairwise_cons]
      refine ⟨?_, List.pairwise_cons.mpr h⟩
      intro z hz
      rcases List.mem_cons.mp hz with rfl | hz'
      · exact hxy
      · exact le_trans hxy (h.1 z hz')

theorem sort_perm (l : List Rat) : (sort rat l).Perm l := by
  induction l with
  | nil => simp [sort]
  | cons x l ih =>
    show (insertSorted rat x (sort rat l)).Perm (x :: l)
    exact (insertSorted_perm x _).trans (List.Perm.cons x ih)

theorem sort_sorted (l : List Rat) : (sort rat l).Pairwise (· ≤ ·) := by
  induction l with
  | nil => simp [sort]
  | cons x l ih => exact insertSorted_sorted x _ ih

/-- every element lies in [L, H] -/
def Within (L H : Rat) (a : List Rat) : Prop := ∀ v ∈ a, L ≤ v ∧ v ≤ H

theorem g_within {L H : Rat} {a : List Rat} (h : Within L H a) {j : Nat} (hj : j < a.length) :
    L ≤ g a j ∧ g a j ≤ H := by
  have : g a j = a[j] := by simp [g, List.getD_eq_getElem?_getD, List.getElem?_eq_getElem hj]
  rw [this]; exact h _ (List.getElem_mem hj)

theorem median_within {L H : Rat} {a : List Rat} (h : Within L H a) (hne : a ≠ []) :
    L ≤ median rat a ∧ median rat a ≤ H := by
  have hn : 0 < a.length := List.length_pos_iff.mpr hne
  unfold median
  by_cases hodd : a.length % 2 = 1
  · simp only [hodd, if_true, rat_nan]
    exact g_within h (by omega)
  · simp only [hodd, if_false, rat_nan, rat_div, rat_add, rat_ofNat]
    obtain ⟨h1, h2⟩ := g_within h (j := a.length / 2) (by omega)
    obtain ⟨h3, h4⟩ := g_within h (j := a.length / 2 - 1) (by omega)
    show L ≤ (g a (a.length / 2) + g a (a.length / 2 - 1)) / ((2 : Nat) : Rat) ∧
      (g a (a.length / 2) + g a (a.length / 2 - 1)) / ((2 : Nat) : Rat) ≤ H
    constructor
    · rw [le_div_iff₀ (by norm_num)]; push_cast; linarith
    · rw [div_le_iff₀ (by norm_num)]; push_cast; linarith

theorem percentile_within {L H : Rat} {a : List Rat} {p : Rat} (h : Within L H a) (hne : a ≠ [])
    (hp0 : 0 ≤ p) (hp1 : p ≤ 1) : L ≤ percentile rat a p ∧ percentile rat a p ≤ H := by
  have hn : 0 < a.length := List.length_pos_iff.mpr hne
  have hnq : (0 : Rat) < (a.length : Rat) := by exact_mod_cast hn
  rcases eq_or_lt_of_le hp0 with h0 | hpos
  · rw [← h0, percentile_zero hne]; exact g_within h hn
  rcases eq_or_lt_of_le hp1 with h1 | hlt
  · rw [h1, percentile_one hne]; exact g_within h (by omega)
  rw [percentile_general hne (ne_of_gt hpos) (ne_of_lt hlt)]
  have hf0 : 0 ≤ (a.length : Rat) * p := le_of_lt (mul_pos hnq hpos)
  have hfn : (a.length : Rat) * p < (a.length : Rat) := by
    have : (a.length : Rat) * p < (a.length : Rat) * 1 := mul_lt_mul_of_pos_left hlt hnq
    simpa using this
  have hi1 := floor_toNat_le hf0
  have hi2 := lt_floor_toNat_succ hf0
  generalize ((a.length : Rat) * p).floor.toNat = i at *
  have hilt : i < a.length := by
    have : (i : Rat) < (a.length : Rat) := lt_of_le_of_lt hi1 hfn
    exact_mod_cast this
  obtain ⟨hl, hh⟩ := g_within h hilt
  split
  · rename_i hc
    obtain ⟨hl', hh'⟩ := g_within h hc.2
    have hx0 := hc.1
    have hx1 : (a.length : Rat) * p - (i : Rat) < 1 := by linarith
    constructor <;> nlinarith
  · exact ⟨hl, hh⟩

theorem within_of_perm {L H : Rat} {a b : List Rat} (hp : a.Perm b) (h : Within L H b) : Within L H a :=
  fun v hv => h v (hp.mem_iff.mp hv)

theorem resample_within {L H : Rat} {vals : List Rat} (h : Within L H vals) (hne : vals ≠ []) (idx : List Nat) :
    Within L H (resample rat vals idx) := by
  apply within_of_perm (sort_perm _)
  intro v hv
  obtain ⟨i, _, rfl⟩ := List.mem_map.mp hv
  have hn : 0 < vals.length := List.length_pos_iff.mpr hne
  exact g_within h (Nat.mod_lt _ hn)

theorem resample_length (vals : List Rat) (idx : List Nat) : (resample rat vals idx).length = idx.length := by
  simp [resample, (sort_perm _).length_eq]

end C18

namespace C18
open Series.Boot

theorem oneRatio_within {nl nh dl dh : Rat} {nu de : List Rat} (hnu : Within nl nh nu) (hde : Within dl dh de)
    (hnu0 : nu ≠ []) (hde0 : de ≠ []) (hnl : 0 < nl) (hdl : 0 < dl) {inu ide : List Nat}
    (hi : inu ≠ []) (hd : ide ≠ []) :
    nl / dh ≤ oneRatio rat nu de inu ide ∧ oneRatio rat nu de inu ide ≤ nh / dl := by
  have hrn : resample rat nu inu ≠ [] := by
    intro h; have := resample_length nu inu; rw [h] at this; simp at this; exact hi (List.length_eq_zero_iff.mp this.symm)
  have hrd : resample rat de ide ≠ [] := by
    intro h; have := resample_length de ide; rw [h] at this; simp at this; exact hd (List.length_eq_zero_iff.mp this.symm)
  obtain ⟨hm1, hm2⟩ := median_within (resample_within hnu hnu0 inu) hrn
  obtain ⟨hd1, hd2⟩ := median_within (resample_within hde hde0 ide) hrd
  have hdpos : 0 < median rat (resample rat de ide) := lt_of_lt_of_le hdl hd1
  have hdhpos : 0 < dh := lt_of_lt_of_le hdpos hd2
  have hne : ¬ median rat (resample rat de ide) = 0 := ne_of_gt hdpos
  unfold oneRatio
  simp only [rat_eq, rat_ofNat, Nat.cast_zero, decide_eq_true_eq, hne, if_false, rat_div]
  constructor
  · rw [div_le_div_iff₀ hdhpos hdpos]; nlinarith
  · rw [div_le_div_iff₀ hdpos hdl]; nlinarith

theorem ratios_length (nu de : List Rat) (n : Nat) (stream : List Nat) :
    (ratios rat nu de n stream).length = n := by
  induction n generalizing stream with
  | zero => simp [ratios]
  | succ n ih => simp [ratios, ih]

theorem ratios_within {nl nh dl dh : Rat} {nu de : List Rat} (hnu : Within nl nh nu) (hde : Within dl dh de)
    (hnu0 : nu ≠ []) (hde0 : de ≠ []) (hnl : 0 < nl) (hdl : 0 < dl) (n : Nat) (stream : List Nat)
    (hs : n * (nu.length + de.length) ≤ stream.length) :
    Within (nl / dh) (nh / dl) (ratios rat nu de n stream) := by
  induction n generalizing stream with
  | zero => intro v hv; simp [ratios] at hv
  | succ n ih =>
    have hnl' : 0 < nu.length := List.length_pos_iff.mpr hnu0
    have hdl' : 0 < de.length := List.length_pos_iff.mpr hde0
    have hexp : (n + 1) * (nu.length + de.length) = n * (nu.length + de.length) + nu.length + de.length := by ring
    rw [hexp] at hs
    intro v hv
    simp only [ratios, List.mem_cons] at hv
    rcases hv with rfl | hv
    · apply oneRatio_within hnu hde hnu0 hde0 hnl hdl
      · intro h
        have := congrArg List.length h
        rw [List.length_take, List.length_nil] at this
        omega
      · intro h
        have := congrArg List.length h
        rw [List.length_take, List.length_drop, List.length_nil] at this
        omega
    · refine ih _ ?_ v hv
      simp only [List.length_drop]
      omega

end C18
