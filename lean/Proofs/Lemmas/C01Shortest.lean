/-
C01 helper lemmas, part 9: the number hypothesis WITHOUT an existence assumption.

* for every finite non-zero float64 a decimal `m·10^e` with at most 17 significant digits in its
  rounding interval exists (F64Shortest: `exists_isShortest`, `shortestLen_le_17`);
* ANY plain decimal numeral with the sign of `x` whose value lies in the rounding interval of `x`
  — in particular a shortest one — reads back to exactly `x`, through C03's specification
  `parseFloatSpec` and through C03's MODEL of the reader's `atof` (`reader_atof_correct`);
* `%d` then `Atoi` gives every int64 back (`parseIntSpec_fmtInt`).

What remains a correspondence-level fact about Go's formatter is `GoFmtOK`: its `%v` output for a
finite non-zero `x` IS such a numeral (one field; NaN/±Inf/±0 print as `NaN`, `+Inf`, `-Inf`, `0`,
`-0`). Nothing about existence or digit counts is assumed.
-/
import Proofs.Lemmas.F64Shortest
import Proofs.Lemmas.C01Num
import Proofs.C03

namespace C01
open Fmt F64 Spec.NumText Spec.RoundTrip

theorem isNaN_eq (x : UInt64) : Spec.RoundTrip.isNaN x = F64.isNaN x := by
  unfold Spec.RoundTrip.isNaN F64.isNaN F64.expField F64.fracField
  rfl

theorem expo_le_of_finite (x : Bits) (hx : isFinite x = true) : expo x ≤ 971 := by
  have h1 := expField_lt x
  unfold isFinite at hx
  simp only [bne_iff_ne, ne_eq] at hx
  rw [expo_eq]; split <;> omega

theorem threshold_cast : ((overflowThreshold : Nat) : ℚ) = (2 : ℚ) ^ 1024 - (2 : ℚ) ^ 970 := by
  unfold overflowThreshold
  rw [Nat.cast_sub (Nat.pow_le_pow_right (by decide) (by decide))]
  push_cast; ring

/-- a value in the rounding interval of a finite float is below the overflow threshold
2^1024 − 2^970 of the range rule -/
theorem inRound_lt_threshold (x : Bits) (hx : PosFin x) (q : ℚ) (h : InRound x q) :
    q < (2 : ℚ) ^ 1024 - (2 : ℚ) ^ 970 := by
  obtain ⟨_, hhi⟩ := h
  have he := expo_le_of_finite x hx.isFinite
  have hp := two_zpow_pos (expo x)
  have hq : q = q * (2 : ℚ) ^ (-expo x) * (2 : ℚ) ^ (expo x) := by
    rw [mul_assoc, ← zpow_add₀ (by norm_num : (2 : ℚ) ≠ 0)]; simp
  have hpow : (2 : ℚ) ^ (expo x) ≤ (2 : ℚ) ^ (971 : Int) := zpow_le_zpow_right₀ (by norm_num) he
  have hstrict : q * (2 : ℚ) ^ (-expo x) < 9007199254740992 - 1 / 2 := by
    rcases hhi with h | h
    · have hM : (mant x : ℚ) ≤ 9007199254740991 := by
        have := mant_lt x
        have h' : mant x ≤ 9007199254740991 := by omega
        exact_mod_cast h'
      linarith
    · have hm2 : mant x ≤ 9007199254740990 := by
        have := mant_lt x; have := h.2; omega
      have : (mant x : ℚ) ≤ 9007199254740990 := by exact_mod_cast hm2
      linarith [h.1]
  have h971 : (2 : ℚ) ^ (971 : Int) = 2 * (2 : ℚ) ^ 970 := by
    rw [show (971 : Int) = ((970 : Nat) : Int) + 1 by norm_num, zpow_add_one₀ (by norm_num), zpow_natCast]; ring
  have h1024 : (2 : ℚ) ^ 1024 = 18014398509481984 * (2 : ℚ) ^ 970 := by
    rw [show (1024 : Nat) = 54 + 970 by norm_num, pow_add]; norm_num
  calc q = q * (2 : ℚ) ^ (-expo x) * (2 : ℚ) ^ (expo x) := hq
    _ < (9007199254740992 - 1 / 2) * (2 : ℚ) ^ (expo x) := mul_lt_mul_of_pos_right hstrict hp
    _ ≤ (9007199254740992 - 1 / 2) * (2 : ℚ) ^ (971 : Int) := mul_le_mul_of_nonneg_left hpow (by norm_num)
    _ = (2 : ℚ) ^ 1024 - (2 : ℚ) ^ 970 := by rw [h971, h1024]; ring

theorem not_overflows (m : Nat) (e : Int) (h : (m : ℚ) * (10 : ℚ) ^ e < (2 : ℚ) ^ 1024 - (2 : ℚ) ^ 970) :
    overflows 10 m e = false := by
  rw [← threshold_cast] at h
  unfold overflows
  by_cases he : e ≥ 0
  · simp only [he, ↓reduceIte, decide_eq_false_iff_not, ge_iff_le, Nat.not_le]
    obtain ⟨k, rfl⟩ := Int.eq_ofNat_of_zero_le he
    rw [zpow_natCast] at h
    simp only [Int.toNat_natCast]
    exact_mod_cast h
  · simp only [he, ↓reduceIte, decide_eq_false_iff_not, ge_iff_le, Nat.not_le]
    obtain ⟨k, hk⟩ := Int.eq_ofNat_of_zero_le (by omega : 0 ≤ -e)
    have hek : e = -(k : Int) := by omega
    rw [hk, Int.toNat_natCast]
    rw [hek, zpow_neg, zpow_natCast] at h
    have h10 : (0 : ℚ) < (10 : ℚ) ^ k := by positivity
    have : (m : ℚ) < (overflowThreshold : ℚ) * (10 : ℚ) ^ k := by
      have := mul_lt_mul_of_pos_right h h10
      rw [mul_assoc, inv_mul_cancel₀ (ne_of_gt h10)] at this
      simpa using this
    exact_mod_cast this

/-- **a reading-back decimal numeral parses to `x`** (specification level): a text that is not
one of the special spellings, that the grammar recognises as the plain decimal `m·10^e` with the
sign of `x`, and whose value lies in the rounding interval of `x`. -/
theorem reads_back_spec (x : Bits) (hx : isFinite x = true) (zx : isZero x = false) (t : Bytes)
    (m : Nat) (e : Int) (hs : specialSpec t = none)
    (hr : recognise t = some { neg := signBit x, hex := false, mant := m, exp := e })
    (hin : InRound (F64.abs x) ((m : ℚ) * (10 : ℚ) ^ e)) : parseFloatSpec t = .ok x := by
  have hov := not_overflows m e (inRound_lt_threshold _ (posFin_abs x hx zx) _ hin)
  unfold parseFloatSpec
  simp only [hs, hr, Parsed.eval, Bool.false_eq_true, ↓reduceIte, hov]
  rw [parse_of_inRound x hx zx m e hin]

/-- … and through C03's model of the reader's `atof` (integer fast path, else `ParseFloat`) -/
theorem reads_back_reader (x : Bits) (hx : isFinite x = true) (zx : isZero x = false) (t : Bytes)
    (m : Nat) (e : Int) (hne : t ≠ []) (hs : specialSpec t = none)
    (hr : recognise t = some { neg := signBit x, hex := false, mant := m, exp := e })
    (hin : InRound (F64.abs x) ((m : ℚ) * (10 : ℚ) ^ e))
    (hN3 : Num.inClassN3 t = false) (hlit : C03.expLit t < 10000) :
    C03.liftF (Num.readerAtof t) = .ok x := by
  have h := C03.reader_atof_correct t hne hN3 (Or.inl (by omega))
  rw [reads_back_spec x hx zx t m e hs hr hin] at h
  unfold Num.FloatRes.toExcept at h
  unfold C03.liftF
  cases he : (Num.readerAtof t).err with
  | none => rw [he] at h; simpa using h
  | some err => rw [he] at h; cases h

/-- **existence with at most 17 digits**: every finite non-zero float64 has a shortest decimal,
it has at most 17 significant digits, and it reads back -/
theorem shortest_exists_17 (x : Bits) (hx : isFinite x = true) (zx : isZero x = false) :
    ∃ (m : Nat) (e : Int), m < 10 ^ 17 ∧ IsShortestDecimal x m e ∧ ofDecimal (signBit x) m e = x := by
  obtain ⟨m, e, h⟩ := exists_isShortest x hx zx
  refine ⟨m, e, ?_, h, shortest_reads_back x hx zx m e h⟩
  exact lt_of_lt_of_le h.1 (Nat.pow_le_pow_right (by decide) (shortestLen_le_17 x hx zx))


/-! ### `%d` then `Atoi` -/

theorem digVal_digit (ch : Char) (h : ch.isDigit = true) :
    isDec (UInt8.ofNat ch.toNat) = true ∧ digVal (UInt8.ofNat ch.toNat) = ch.toNat - '0'.toNat := by
  simp only [Char.isDigit, Bool.and_eq_true, decide_eq_true_eq] at h
  have h1 : 48 ≤ ch.toNat := by
    have := h.1; rw [ge_iff_le, UInt32.le_iff_toNat_le] at this; exact this
  have h2 : ch.toNat ≤ 57 := by
    have := h.2; rw [UInt32.le_iff_toNat_le] at this; exact this
  have hn : (UInt8.ofNat ch.toNat).toNat = ch.toNat := by
    simp only [UInt8.toNat_ofNat']; omega
  have hd : isDec (UInt8.ofNat ch.toNat) = true := by
    unfold isDec
    simp only [Bool.and_eq_true, decide_eq_true_eq, UInt8.le_iff_toNat_le, hn]
    exact ⟨h1, h2⟩
  refine ⟨hd, ?_⟩
  unfold digVal
  rw [hd, hn]; rfl

theorem valOf_digits : ∀ (l : List Char) (acc : Nat), (∀ c ∈ l, c.isDigit = true) →
    (l.map fun c => UInt8.ofNat c.toNat).foldl (fun a c => a * 10 + digVal c) acc = Nat.ofDigitChars 10 l acc := by
  intro l
  induction l with
  | nil => intro acc _; simp [Nat.ofDigitChars_nil]
  | cons c cs ih =>
    intro acc h
    simp only [List.map_cons, List.foldl_cons, Nat.ofDigitChars_cons]
    rw [(digVal_digit c (h c List.mem_cons_self)).2, ih _ (fun c' hc' => h c' (List.mem_cons_of_mem _ hc'))]
    congr 1; omega

theorem decimalDigits_spec (n : Nat) :
    valOf 10 (decimalDigits n) = n ∧ (decimalDigits n).all isDec = true ∧ decimalDigits n ≠ [] := by
  have hdig : ∀ c ∈ Nat.toDigits 10 n, c.isDigit = true :=
    fun c hc => Nat.isDigit_of_mem_toDigits (by decide) (by decide) hc
  refine ⟨?_, ?_, ?_⟩
  · unfold valOf decimalDigits
    rw [valOf_digits _ 0 hdig, Nat.ofDigitChars_ten_toDigits]
  · simp only [decimalDigits, List.all_map, List.all_eq_true, Function.comp_apply]
    exact fun c hc => (digVal_digit c (hdig c hc)).1
  · simp [decimalDigits, Nat.toDigits_ne_nil]

/-- **`%d` then `Atoi`**: every int64 comes back -/
theorem parseIntSpec_fmtInt (n : Int) (h1 : -(2 ^ 63 : Int) ≤ n) (h2 : n ≤ (2 ^ 63 : Int) - 1) :
    parseIntSpec (fmtInt n) = .ok n := by
  unfold fmtInt
  by_cases hn : n < 0
  · obtain ⟨hv, hall, hne⟩ := decimalDigits_spec n.natAbs
    have he : (decimalDigits n.natAbs).isEmpty = false := by
      cases h : decimalDigits n.natAbs <;> simp_all
    simp only [hn, ↓reduceIte, parseIntSpec, splitSign, he, hall, Bool.not_true, Bool.or_self,
      Bool.false_eq_true, hv]
    have : -((n.natAbs : Nat) : Int) = n := by omega
    rw [this]
    simp only [Bool.or_eq_true, decide_eq_true_eq]
    rw [if_neg (by omega)]
  · obtain ⟨hv, hall, hne⟩ := decimalDigits_spec n.toNat
    have he : (decimalDigits n.toNat).isEmpty = false := by
      cases h : decimalDigits n.toNat <;> simp_all
    -- the first digit is neither '+' nor '-'
    have hsplit : splitSign (decimalDigits n.toNat) = (false, decimalDigits n.toNat) := by
      cases hd : decimalDigits n.toNat with
      | nil => exact absurd hd hne
      | cons c cs =>
        have hc : isDec c = true := by
          rw [hd] at hall; simp only [List.all_cons, Bool.and_eq_true] at hall; exact hall.1
        have h43 : c ≠ 43 := by intro e; subst e; simp [isDec] at hc
        have h45 : c ≠ 45 := by intro e; subst e; simp [isDec] at hc
        unfold splitSign
        split
        · rename_i r heq; injection heq with e1 _; exact absurd e1 h43
        · rename_i r heq; injection heq with e1 _; exact absurd e1 h45
        · rfl
    simp only [hn, ↓reduceIte, parseIntSpec, hsplit, he, hall, Bool.not_true, Bool.or_self,
      Bool.false_eq_true, hv]
    have : ((n.toNat : Nat) : Int) = n := by omega
    rw [this]
    simp only [Bool.or_eq_true, decide_eq_true_eq]
    rw [if_neg (by omega)]

/-- an iteration count in `int` range -/
def inInt64 (n : Int) : Prop := -(2 ^ 63 : Int) ≤ n ∧ n ≤ (2 ^ 63 : Int) - 1

theorem intGood_c03 (uc : UC) (tidy : UInt64 → Bytes → UInt64 × Bytes) (n : Int) (h : inInt64 n) :
    IntGood (C03.oracles uc tidy) n := by
  unfold IntGood
  have := (C03.atoi_correct (fmtInt n)).1 n (parseIntSpec_fmtInt n h.1 h.2)
  simp [C03.oracles, C03.liftI, this]

theorem intGood_spec (uc : UC) (tidy : UInt64 → Bytes → UInt64 × Bytes) (n : Int) (h : inInt64 n) :
    IntGood (specOracles uc tidy) n := by
  unfold IntGood
  simp [specOracles, parseIntSpec_fmtInt n h.1 h.2]

/-! ### what is assumed of Go's formatter, and what follows -/

/-- `t` is a reading-back numeral for the finite non-zero `x`: one non-empty field, not a special
spelling, recognised by the grammar as a plain decimal `m·10^e` with the sign of `x` whose value
lies in the rounding interval of `x`; and it is of the size for which C03's model of the
reader's `atof` is proved against the specification (fewer than 800 mantissa digits, exponent
literal below 10000 — a `%v` text has at most 17 digits and 3 exponent digits). -/
structure ReadsBack (uc : UC) (x : Bits) (t : Bytes) : Prop where
  field : t ≠ [] ∧ tokenOK uc t = true
  plain : specialSpec t = none
  dec : ∃ (m : Nat) (e : Int), recognise t = some { neg := signBit x, hex := false, mant := m, exp := e } ∧
    InRound (F64.abs x) ((m : ℚ) * (10 : ℚ) ^ e)
  small : Num.inClassN3 t = false ∧ C03.expLit t < 10000

/-- **The correspondence-level fact about Go's `%v`** (and nothing more): special values print as
`NaN`, `+Inf`, `-Inf`, `0`, `-0`; for every other value the text is a reading-back numeral.
K checks it for every value it generates (`obs fmt=`: the text equals `Spec.FmtFloat.fmtNumSpec`,
whose candidates are accepted only if `parseFloatSpec` maps them back to the value). -/
def GoFmtOK (uc : UC) (P : WParams) : Prop :=
  ∀ x : Bits,
    if F64.isNaN x then P.fmtNum x = [78, 97, 78]
    else if F64.isInf x then P.fmtNum x = (if signBit x then [45, 73, 110, 102] else [43, 73, 110, 102])
    else if F64.isZero x then P.fmtNum x = (if signBit x then [45, 48] else [48])
    else ReadsBack uc x (P.fmtNum x)

theorem normNum_of_not_nan (x : Bits) (h : F64.isNaN x = false) : normNum x = x := by
  unfold normNum; rw [isNaN_eq, h]; rfl

theorem isFinite_of (x : Bits) (h1 : F64.isNaN x = false) (h2 : F64.isInf x = false) : isFinite x = true := by
  unfold F64.isNaN at h1; unfold F64.isInf at h2; unfold isFinite
  by_cases he : expField x = 2047
  · simp only [he, beq_self_eq_true, Bool.true_and] at h1 h2
    rw [bne_eq_false_iff_eq] at h1
    simp [h1] at h2
  · simpa using he

theorem special_texts (uc : UC) :
    (∀ t ∈ [[78, 97, 78], [45, 73, 110, 102], [43, 73, 110, 102], [45, 48], [48]],
      t ≠ [] ∧ tokenOK uc t = true) := by
  intro t ht
  refine ⟨by intro e; subst e; simp at ht, tokenOK_ascii uc t ?_⟩
  intro c hc
  simp only [List.mem_cons, List.not_mem_nil, or_false] at ht
  rcases ht with rfl | rfl | rfl | rfl | rfl <;> (simp only [List.mem_cons, List.not_mem_nil, or_false] at hc) <;>
    (rcases hc with rfl | rfl | rfl | rfl <;> exact ⟨by decide, by decide⟩)


theorem eq_inf_of (x : Bits) (h : F64.isInf x = true) : x = if signBit x then negInf else posInf := by
  have hm := (isInf_iff x).1 h
  by_cases hs : signBit x = true
  · simp only [hs, ↓reduceIte]
    exact eq_of_sign_mag _ _ (by rw [hs]; decide) (by rw [hm]; decide)
  · have hs' : signBit x = false := by simpa using hs
    simp only [hs', Bool.false_eq_true, ↓reduceIte]
    exact eq_of_sign_mag _ _ (by rw [hs']; decide) (by rw [hm]; decide)

theorem eq_zero_of (x : Bits) (h : F64.isZero x = true) : x = if signBit x then negZero else posZero := by
  have hm := (isZero_iff x).1 h
  by_cases hs : signBit x = true
  · simp only [hs, ↓reduceIte]
    exact eq_of_sign_mag _ _ (by rw [hs]; decide) (by rw [hm]; decide)
  · have hs' : signBit x = false := by simpa using hs
    simp only [hs', Bool.false_eq_true, ↓reduceIte]
    exact eq_of_sign_mag _ _ (by rw [hs']; decide) (by rw [hm]; decide)

/-- the five special texts through C03's reader model and through the specification -/
theorem special_reads :
    C03.liftF (Num.readerAtof [78, 97, 78]) = .ok F64.nan ∧
    C03.liftF (Num.readerAtof [45, 73, 110, 102]) = .ok negInf ∧
    C03.liftF (Num.readerAtof [43, 73, 110, 102]) = .ok posInf ∧
    C03.liftF (Num.readerAtof [45, 48]) = .ok negZero ∧
    C03.liftF (Num.readerAtof [48]) = .ok posZero ∧
    parseFloatSpec [78, 97, 78] = .ok F64.nan ∧ parseFloatSpec [45, 73, 110, 102] = .ok negInf ∧
    parseFloatSpec [43, 73, 110, 102] = .ok posInf ∧ parseFloatSpec [45, 48] = .ok negZero ∧
    parseFloatSpec [48] = .ok posZero := by
  decide +kernel

/-- the number hypothesis for one value, from the fact about the formatter alone; `atofOK` says
that the oracle's `atof` is one of the two readers below -/
theorem numGood_go (O : Oracles) (P : WParams) (hgo : GoFmtOK O.uc P)
    (hatof : (∀ t, O.atof t = C03.liftF (Num.readerAtof t)) ∨
      (∀ t, O.atof t = match parseFloatSpec t with
        | .ok v => .ok v
        | .error e => .error (liftErr e)))
    (x : Bits) : NumGood O P x := by
  have hx := hgo x
  have hsp := special_reads
  have htok := special_texts O.uc
  -- reduce to: the text is a field and reads as some y with normNum y = normNum x
  suffices h : (P.fmtNum x ≠ [] ∧ tokenOK O.uc (P.fmtNum x) = true) ∧
      ∃ y, C03.liftF (Num.readerAtof (P.fmtNum x)) = .ok y ∧ parseFloatSpec (P.fmtNum x) = .ok y ∧
        normNum y = normNum x by
    obtain ⟨hf, y, h1, h2, h3⟩ := h
    refine ⟨⟨y, ?_, h3⟩, hf.1, hf.2⟩
    rcases hatof with ha | ha
    · rw [ha, h1]
    · rw [ha, h2]
  by_cases hnan : F64.isNaN x = true
  · simp only [hnan, ↓reduceIte] at hx
    rw [hx]
    refine ⟨htok _ (by simp), F64.nan, hsp.1, hsp.2.2.2.2.2.1, ?_⟩
    unfold normNum
    rw [isNaN_eq, isNaN_eq, hnan]
    rfl
  · have hnan' : F64.isNaN x = false := by simpa using hnan
    simp only [hnan', Bool.false_eq_true, ↓reduceIte] at hx
    by_cases hinf : F64.isInf x = true
    · simp only [hinf, ↓reduceIte] at hx
      have hxe := eq_inf_of x hinf
      by_cases hs : signBit x = true
      · simp only [hs, ↓reduceIte] at hx hxe
        rw [hx]
        exact ⟨htok _ (by simp), negInf, hsp.2.1, hsp.2.2.2.2.2.2.1, by rw [hxe]⟩
      · have hs' : signBit x = false := by simpa using hs
        simp only [hs', Bool.false_eq_true, ↓reduceIte] at hx hxe
        rw [hx]
        exact ⟨htok _ (by simp), posInf, hsp.2.2.1, hsp.2.2.2.2.2.2.2.1, by rw [hxe]⟩
    · have hinf' : F64.isInf x = false := by simpa using hinf
      simp only [hinf', Bool.false_eq_true, ↓reduceIte] at hx
      by_cases hz : F64.isZero x = true
      · simp only [hz, ↓reduceIte] at hx
        have hxe := eq_zero_of x hz
        by_cases hs : signBit x = true
        · simp only [hs, ↓reduceIte] at hx hxe
          rw [hx]
          exact ⟨htok _ (by simp), negZero, hsp.2.2.2.1, hsp.2.2.2.2.2.2.2.2.1, by rw [hxe]⟩
        · have hs' : signBit x = false := by simpa using hs
          simp only [hs', Bool.false_eq_true, ↓reduceIte] at hx hxe
          rw [hx]
          exact ⟨htok _ (by simp), posZero, hsp.2.2.2.2.1, hsp.2.2.2.2.2.2.2.2.2, by rw [hxe]⟩
      · have hz' : F64.isZero x = false := by simpa using hz
        simp only [hz', Bool.false_eq_true, ↓reduceIte] at hx
        have hfin := isFinite_of x hnan' hinf'
        obtain ⟨m, e, hr, hin⟩ := hx.dec
        exact ⟨hx.field, x,
          reads_back_reader x hfin hz' _ m e hx.field.1 hx.plain hr hin hx.small.1 hx.small.2,
          reads_back_spec x hfin hz' _ m e hx.plain hr hin, rfl⟩


/-! ### iteration counts a reader delivers are in `int` range -/

theorem parseIntSpec_range (f : Bytes) (v : Int) (h : parseIntSpec f = .ok v) : inInt64 v := by
  unfold parseIntSpec at h
  simp only at h
  by_cases hc : ((splitSign f).2.isEmpty || !(splitSign f).2.all isDec) = true
  · rw [if_pos hc] at h; cases h
  · rw [if_neg hc] at h
    generalize (if (splitSign f).1 = true then -((valOf 10 (splitSign f).2 : Nat) : Int)
      else ((valOf 10 (splitSign f).2 : Nat) : Int)) = v0 at h
    by_cases hr : (decide (v0 < -(2 ^ 63 : Int)) || decide (v0 > (2 ^ 63 : Int) - 1)) = true
    · rw [if_pos hr] at h; cases h
    · rw [if_neg hr] at h
      simp only [Except.ok.injEq] at h
      subst h
      simp only [Bool.or_eq_true, decide_eq_true_eq, not_or, not_lt] at hr
      exact ⟨hr.1, by have := hr.2; omega⟩

theorem atoi_range_c03 (f : Bytes) (v : Int) (h : C03.liftI (Num.atoi f) = .ok v) : inInt64 v := by
  obtain ⟨h1, h2⟩ := C03.atoi_correct f
  cases hp : parseIntSpec f with
  | error e =>
    have := h2 e hp
    unfold C03.liftI at h
    cases he : (Num.atoi f).err with
    | none => exact absurd he this
    | some e' => rw [he] at h; cases h
  | ok v' =>
    have := h1 v' hp
    rw [this] at h
    simp only [C03.liftI, Except.ok.injEq] at h
    subst h
    exact parseIntSpec_range f v' hp

/-- every result a reader with C03's `Atoi` model delivers has its iteration count in range -/
theorem iters_inInt64 (O : Oracles) (hatoi : ∀ t, O.atoi t = C03.liftI (Num.atoi t))
    (st : RState) (ls : List Bytes) (r : Res) (hr : Rec.result r ∈ readLines O st ls) : inInt64 r.iters := by
  obtain ⟨f, hf⟩ := readLines_iters O ls st _ hr
  rw [hatoi] at hf
  exact atoi_range_c03 f _ hf

/-- **the number hypothesis from the formatter fact**: for C03's reader models (`atof`, `Atoi`)
and any writer number text satisfying `GoFmtOK`, every history whose iteration counts are in
`int` range satisfies `NumOKFor` -/
theorem numOKFor_go (uc : UC) (tidy : UInt64 → Bytes → UInt64 × Bytes) (P : WParams)
    (hgo : GoFmtOK uc P) (h : List Rec) (hit : ∀ r, Rec.result r ∈ h → inInt64 r.iters) :
    NumOKFor (C03.oracles uc tidy) P h := by
  intro r hr
  refine ⟨intGood_c03 uc tidy r.iters (hit r hr), fun v _ => ?_⟩
  exact numGood_go (C03.oracles uc tidy) P hgo (Or.inl fun _ => rfl) _

end C01
