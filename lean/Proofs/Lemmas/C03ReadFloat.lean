/-
C03 helper lemmas: the mantissa loop of `readFloat` against an exact reference evaluation.
-/
import Proofs.Lemmas.C03Fast

namespace C03
open Num Spec.NumText

/-- REFERENCE evaluation of a mantissa text: every digit counts (no 19-digit cap, no special
treatment of leading zeros, unbounded naturals). Returns (M, F): all digits read as one integer
in `base`, and the number of digits after the point; the text denotes M / base^F. -/
def refMant (hex : Bool) : Bytes → Nat → Nat → Bool → Nat × Nat
  | [], M, F, _ => (M, F)
  | c :: cs, M, F, dot =>
    let base : Nat := if hex then 16 else 10
    if c == 95 then refMant hex cs M F dot
    else if c == 46 then refMant hex cs M F true
    else if isDec c || (hex && isHexDig c) then
      refMant hex cs (M * base + digVal c) (if dot then F + 1 else F) dot
    else (M, F)

theorem mant_byte_facts (c : UInt8) :
    ((48 ≤ c && c ≤ 57) = isDec c) ∧
    (isDec c = true → (c - 48).toNat = digVal c ∧ digVal c ≤ 9 ∧ c ≠ 95 ∧ c ≠ 46 ∧ ((c == 48) = true ↔ digVal c = 0)) ∧
    (isDec c = false → ((97 ≤ lower c && lower c ≤ 102) = isHexDig c) ∧
       (isHexDig c = true → (lower c - 97 + 10).toNat = digVal c ∧ digVal c ≤ 15 ∧ c ≠ 95 ∧ c ≠ 46)) := by
  revert c; apply byte_forall; decide +kernel

def baseOf (hex : Bool) : Nat := if hex then 16 else 10
def maxDOf (hex : Bool) : Nat := if hex then 16 else 19

theorem base_pow_le (hex : Bool) : baseOf hex ^ maxDOf hex ≤ 2 ^ 64 := by
  cases hex <;> decide +kernel

/-- invariant tying the loop state to the reference values (M, F) of the text consumed so far -/
structure Inv (hex : Bool) (st : MS) (M F : Nat) (dot : Bool) : Prop where
  i1 : st.trunc = false → M = st.mant * baseOf hex ^ (st.nd - st.ndMant)
  i2 : st.ndMant ≤ st.nd ∧ st.ndMant ≤ maxDOf hex ∧ (st.ndMant < maxDOf hex → st.ndMant = st.nd)
  i3 : st.sawdot = true → (st.nd : Int) - st.dp = F
  i4 : st.sawdot = false → F = 0
  i5 : st.mant < baseOf hex ^ st.ndMant
  i6 : st.nd = 0 → M = 0
  i7 : dot = st.sawdot

theorem inv_init (hex : Bool) : Inv hex {} 0 0 false := by
  constructor <;> simp [baseOf]

theorem pow_step (b m nd k : Nat) (h : k ≤ nd) : m * b ^ (nd - k) * b = m * b ^ (nd + 1 - k) := by
  rw [Nat.mul_assoc, ← Nat.pow_succ]; congr 2; omega

/-- a digit of value `d` is appended while the mantissa still has room -/
theorem inv_push (hex : Bool) (st : MS) (M F : Nat) (d : Nat) (hd : d < baseOf hex)
    (inv : Inv hex st M F st.sawdot) (hroom : st.ndMant < maxDOf hex) :
    Inv hex { st with sawdigits := true, nd := st.nd + 1,
                      mant := ((st.mant * baseOf hex) % 2 ^ 64 + d) % 2 ^ 64, ndMant := st.ndMant + 1 }
      (M * baseOf hex + d) (if st.sawdot then F + 1 else F) st.sawdot := by
  have hnd := inv.i2.2.2 hroom
  have hlt : st.mant * baseOf hex + d < baseOf hex ^ (st.ndMant + 1) := by
    have := inv.i5
    rw [Nat.pow_succ]
    calc st.mant * baseOf hex + d < st.mant * baseOf hex + baseOf hex := by omega
      _ = (st.mant + 1) * baseOf hex := by rw [Nat.add_mul]; omega
      _ ≤ baseOf hex ^ st.ndMant * baseOf hex := Nat.mul_le_mul_right _ this
  have hle : baseOf hex ^ (st.ndMant + 1) ≤ 2 ^ 64 :=
    Nat.le_trans (Nat.pow_le_pow_right (by cases hex <;> decide) (by omega)) (base_pow_le hex)
  have e1 : (st.mant * baseOf hex) % 2 ^ 64 = st.mant * baseOf hex := Nat.mod_eq_of_lt (by omega)
  have e2 : (st.mant * baseOf hex + d) % 2 ^ 64 = st.mant * baseOf hex + d := Nat.mod_eq_of_lt (by omega)
  constructor
  · intro ht
    have := inv.i1 ht
    simp only [e1, e2]
    rw [this, hnd]; simp
  · simp only; refine ⟨by omega, by omega, fun _ => by omega⟩
  · intro hs
    have := inv.i3 hs
    simp only at hs; simp only [hs, if_true]; push_cast; omega
  · intro hs
    have := inv.i4 hs
    simp only at hs; simp [hs, this]
  · simp only [e1, e2]; exact hlt
  · intro h; simp at h
  · rfl

/-- a digit is read after the mantissa is full (or a leading zero is skipped): the state's
mantissa is unchanged -/
theorem inv_extra (hex : Bool) (st : MS) (M F : Nat) (d : Nat)
    (inv : Inv hex st M F st.sawdot) (hfull : ¬ st.ndMant < maxDOf hex) (tr : Bool)
    (htr : tr = false → st.trunc = false ∧ d = 0) :
    Inv hex { st with sawdigits := true, nd := st.nd + 1, trunc := tr }
      (M * baseOf hex + d) (if st.sawdot then F + 1 else F) st.sawdot := by
  constructor
  · intro ht
    obtain ⟨h1, h2⟩ := htr ht
    have := inv.i1 h1
    simp only
    rw [h2, this, Nat.add_zero]
    exact pow_step _ _ _ _ inv.i2.1
  · simp only; refine ⟨by have := inv.i2.1; omega, inv.i2.2.1, fun h => absurd h hfull⟩
  · intro hs
    have := inv.i3 hs
    simp only at hs; simp only [hs, if_true]; push_cast; omega
  · intro hs
    have := inv.i4 hs
    simp only at hs; simp [hs, this]
  · exact inv.i5
  · intro h; simp at h
  · rfl

theorem inv_leading_zero (hex : Bool) (st : MS) (M F : Nat)
    (inv : Inv hex st M F st.sawdot) (hnd : st.nd = 0) :
    Inv hex { st with sawdigits := true, dp := st.dp - 1 }
      (M * baseOf hex + 0) (if st.sawdot then F + 1 else F) st.sawdot := by
  have hM := inv.i6 hnd
  constructor
  · intro ht
    have := inv.i1 ht
    simp only; rw [hM] at this ⊢; simpa using this
  · exact inv.i2
  · intro hs
    have := inv.i3 hs
    simp only at hs; simp only [hs, if_true]; push_cast; omega
  · intro hs
    have := inv.i4 hs
    simp only at hs; simp [hs, this]
  · exact inv.i5
  · intro _; simp [hM]
  · rfl

theorem inv_dot (hex : Bool) (st : MS) (M F : Nat)
    (inv : Inv hex st M F st.sawdot) (hs : st.sawdot = false) :
    Inv hex { st with sawdot := true, dp := st.nd } M F true := by
  have hF := inv.i4 hs
  constructor
  · exact inv.i1
  · exact inv.i2
  · intro _; simp [hF]
  · intro h; simp at h
  · exact inv.i5
  · exact inv.i6
  · rfl

/-- **the mantissa loop computes the reference value**: whatever `mantLoop` returns satisfies the
invariant with respect to the exact reference evaluation of the same text. -/
theorem mantLoop_inv (hex : Bool) (s : Bytes) : ∀ (st : MS) (M F : Nat), Inv hex st M F st.sawdot →
    ∀ st' rest, mantLoop hex s st = some (st', rest) →
    Inv hex st' (refMant hex s M F st.sawdot).1 (refMant hex s M F st.sawdot).2 st'.sawdot := by
  induction s with
  | nil =>
    intro st M F inv st' rest h
    simp only [mantLoop, Option.some.injEq, Prod.mk.injEq] at h
    obtain ⟨rfl, _⟩ := h
    simpa [refMant] using inv
  | cons c cs ih =>
    intro st M F inv st' rest h
    obtain ⟨hb1, hb2, hb3⟩ := mant_byte_facts c
    unfold mantLoop at h
    unfold refMant
    simp only [] at h ⊢
    by_cases h95 : c = 95
    · subst h95
      simp only [beq_self_eq_true, if_true] at h ⊢
      exact ih st M F inv st' rest h
    · have e95 : (c == 95) = false := by simpa using h95
      simp only [e95, Bool.false_eq_true, if_false] at h ⊢
      by_cases h46 : c = 46
      · subst h46
        simp only [beq_self_eq_true, if_true] at h ⊢
        by_cases hs : st.sawdot = true
        · simp [hs] at h
        · simp only [Bool.not_eq_true] at hs
          simp only [hs, Bool.false_eq_true, if_false] at h
          exact ih _ M F (inv_dot hex st M F inv hs) st' rest h
      · have e46 : (c == 46) = false := by simpa using h46
        simp only [e46, Bool.false_eq_true, if_false] at h ⊢
        rw [hb1] at h
        by_cases hdec : isDec c = true
        · obtain ⟨hv, h9, _, _, h0⟩ := hb2 hdec
          simp only [hdec, if_true, Bool.true_or] at h ⊢
          by_cases hz : (c == 48 && st.nd == 0) = true
          · simp only [hz, if_true] at h
            simp only [Bool.and_eq_true, beq_iff_eq] at hz
            have hd0 : digVal c = 0 := h0.mp (by simp [hz.1])
            rw [hd0]
            exact ih _ _ _ (inv_leading_zero hex st M F inv hz.2) st' rest h
          · simp only [hz, Bool.false_eq_true, if_false] at h
            by_cases hroom : st.ndMant < (if hex = true then 16 else 19)
            · simp only [hroom, if_true] at h
              have hd : digVal c < baseOf hex := by cases hex <;> simp [baseOf] <;> omega
              have := inv_push hex st M F (digVal c) hd inv hroom
              rw [hv] at h
              exact ih _ _ _ this st' rest h
            · simp only [hroom, if_false] at h
              by_cases h48 : c = 48
              · subst h48
                simp only [bne_self_eq_false, Bool.false_eq_true, if_false] at h
                have hd0 : digVal 48 = 0 := by decide
                rw [hd0]
                have := inv_extra hex st M F 0 inv hroom st.trunc (fun h => ⟨h, rfl⟩)
                exact ih _ _ _ this st' rest h
              · have e48 : (c != 48) = true := by simpa using h48
                simp only [e48, if_true] at h
                have := inv_extra hex st M F (digVal c) inv hroom true (fun h => by cases h)
                exact ih _ _ _ this st' rest h
        · simp only [Bool.not_eq_true] at hdec
          obtain ⟨hl, hh⟩ := hb3 hdec
          simp only [hdec, Bool.false_eq_true, if_false, Bool.false_or] at h ⊢
          cases hex with
          | false =>
            simp only [Bool.false_and, Bool.false_eq_true, if_false, Option.some.injEq, Prod.mk.injEq] at h ⊢
            obtain ⟨rfl, _⟩ := h
            exact inv
          | true =>
            simp only [Bool.true_and] at h ⊢
            rw [hl] at h
            by_cases hx : isHexDig c = true
            · obtain ⟨hv, h15, _, _⟩ := hh hx
              simp only [hx, if_true] at h ⊢
              by_cases hroom : st.ndMant < 16
              · simp only [hroom, if_true] at h
                have := inv_push true st M F (digVal c) (by simp [baseOf]; omega) inv hroom
                rw [hv] at h
                exact ih _ _ _ this st' rest h
              · simp only [hroom, if_false] at h
                have := inv_extra true st M F (digVal c) inv hroom true (fun h => by cases h)
                exact ih _ _ _ this st' rest h
            · simp only [hx, Bool.false_eq_true, if_false, Option.some.injEq, Prod.mk.injEq] at h ⊢
              obtain ⟨rfl, _⟩ := h
              exact inv

end C03
