/-
Regular-expression values at token level (for the text-level theorems of C06): when the C07
tokenizer model's `regexpParseUntil` scan (`reScan`: brackets, parentheses, escapes) stops exactly
at the closing slash of `/src/`, and what `next` then returns.  `Val` = a value as written: a
word (bare / quoted) or a regular expression.
-/
import Proofs.Lemmas.C06Tok

namespace C06
open Proc.Tok C07

/-- the scanner state (bracket depth, paren depth) after `src`; `none` if `src` contains a `/` at
the top level (it would end the expression early) or ends in a lone backslash (it would escape the
closing slash) -/
def reState : Bytes → Nat → Int → Option (Nat × Int)
  | [], cs, cp => some (cs, cp)
  | c :: r, cs, cp =>
    if cs == 0 && cp == 0 && c == cSlash then none
    else if c == cBsl then
      match r with
      | [] => none
      | _ :: r' => reState r' cs cp
    else
      let cs' := if c == cLB then cs + 1 else if c == cRB then cs - 1 else cs
      let cp' := if cs == 0 then (if c == cLP then cp + 1 else if c == cRP then cp - 1 else cp) else cp
      reState r cs' cp'

/-- `regexpParseUntil` stops at the slash that follows a source whose scan ends at the top level -/
theorem reScan_of_reState (tail : Bytes) : ∀ (n : Nat) (src : Bytes) (cs : Nat) (cp : Int), src.length ≤ n →
    reState src cs cp = some (0, 0) → reScan (src ++ cSlash :: tail) cs cp = some (src, cSlash :: tail) := by
  intro n
  induction n with
  | zero =>
    intro src cs cp hl h
    have : src = [] := List.length_eq_zero_iff.mp (by omega)
    subst this
    simp only [reState, Option.some.injEq, Prod.mk.injEq] at h
    obtain ⟨rfl, rfl⟩ := h
    rw [List.nil_append]; unfold reScan; simp
  | succ n ih =>
    intro src cs cp hl h
    match src with
    | [] =>
      simp only [reState, Option.some.injEq, Prod.mk.injEq] at h
      obtain ⟨rfl, rfl⟩ := h
      rw [List.nil_append]; unfold reScan; simp
    | c :: r =>
      unfold reState at h
      rw [List.cons_append]; unfold reScan
      split at h
      · cases h
      · rename_i h1
        rw [if_neg h1]
        split at h
        · rename_i h2
          rw [if_pos h2]
          match r, h with
          | [], h => cases h
          | d :: r', h =>
            simp only at h
            have := ih r' cs cp (by simp at hl ⊢; omega) h
            simp only [List.cons_append, this]
        · rename_i h2
          rw [if_neg h2]
          have := ih r _ _ (by simp at hl ⊢; omega) h
          simp only [this]

/-- `/src/` is a well-formed regular-expression value: the scan of `src` ends at the top level
and Go's `regexp.Compile` accepts it (oracle of the tokenizer model) -/
def RegexOK (cx : Ctx) (src : Bytes) : Prop := reState src 0 0 = some (0, 0) ∧ cx.compileOK src = true

theorem followOK_of_delim (cx : Ctx) (rest : Bytes) (h : Delim cx rest) : followOK cx rest = true := by
  rcases h with rfl | ⟨d, r, rfl, _, hs⟩
  · rfl
  · simp only [followOK, Bool.or_eq_true] at hs ⊢
    rcases hs with hs | hs
    · exact Or.inl hs
    · right; simp [isStartOpB, isStartOpR, hs]

/-- a regular expression in value position, followed by a delimiter (or by nothing), is one token -/
theorem next_regexp (cx : Ctx) (src : Bytes) (hok : RegexOK cx src) (rest : Bytes) (hrest : Delim cx rest) (e : ErrSt) :
    next cx true (cSlash :: (src ++ [cSlash]) ++ rest) e =
      mkTok cx (cSlash :: (src ++ [cSlash]) ++ rest) kR src rest e := by
  have hshape : cSlash :: (src ++ [cSlash]) ++ rest = cSlash :: (src ++ cSlash :: rest) := by simp
  have h1 : isStartOpB cSlash = false := by decide
  have h2 : isSpaceLen cx (cSlash :: (src ++ cSlash :: rest)) = 0 := by
    simp [isSpaceLen, cSlash, decodeRune, isSpaceRune]
  have hscan := reScan_of_reState rest src.length src 0 0 (Nat.le_refl _) hok.1
  rw [hshape]
  simp only [next, List.length_cons]
  rw [nextF]
  simp only [h1, h2, Bool.false_eq_true, if_false, Nat.lt_irrefl, Bool.true_and, beq_self_eq_true, if_true]
  simp only [regexpTok, List.drop_succ_cons, List.drop_zero, hscan, hok.2, Bool.not_true, Bool.false_eq_true,
    if_false, followOK_of_delim cx rest hrest, if_true]

/-- a value as written: a word (in value position) or `/src/`; `k` is the token kind, the last
argument the token's text -/
inductive Val (cx : Ctx) : UInt8 → Bytes → Bytes → Prop
  | word {k : UInt8} {txt val : Bytes} : Word cx true k txt val → Val cx k txt val
  | regex (src : Bytes) : RegexOK cx src → Val cx kR (cSlash :: (src ++ [cSlash])) src

theorem next_val (cx : Ctx) {k : UInt8} {txt tok : Bytes} (hv : Val cx k txt tok) (rest : Bytes)
    (hrest : Delim cx rest) (e : ErrSt) :
    next cx true (txt ++ rest) e = mkTok cx (txt ++ rest) k tok rest e := by
  cases hv with
  | word hw => exact next_word cx true hw rest hrest e
  | regex _ hok => exact next_regexp cx _ hok rest hrest e

theorem Val.kind {cx : Ctx} {k : UInt8} {txt tok : Bytes} (h : Val cx k txt tok) : k = kW ∨ k = kQ ∨ k = kR := by
  cases h with
  | word hw => cases hw <;> simp
  | regex => simp

theorem Val.ne_nil {cx : Ctx} {k : UInt8} {txt tok : Bytes} (h : Val cx k txt tok) : txt ≠ [] := by
  cases h with
  | word hw => exact hw.ne_nil
  | regex => simp

/-- plain bytes (no `/ \ [ ] ( )`) leave the scanner at the top level -/
theorem reState_plain (src : Bytes)
    (h : ∀ c, c ∈ src → c ≠ cSlash ∧ c ≠ cBsl ∧ c ≠ cLB ∧ c ≠ cRB ∧ c ≠ cLP ∧ c ≠ cRP) :
    reState src 0 0 = some (0, 0) := by
  induction src with
  | nil => rfl
  | cons c r ih =>
    obtain ⟨h1, h2, h3, h4, h5, h6⟩ := h c (by simp)
    unfold reState
    simp [h1, h2, h3, h4, h5, h6]
    exact ih (fun x hx => h x (by simp [hx]))

end C06
