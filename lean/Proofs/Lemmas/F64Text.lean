/-
Text level: `DecText.parse` of the text produced by `F64.fmtFixed` is the numeral
(sign, `fixedScaled`, −p); with `fmtFixed_reads_back_partial` the printed text reads back to the
float. Also: any text whose parsed decimal lies in the rounding interval reads back.
-/
import Proofs.Lemmas.F64Shortest
import Model.Base.DecText

namespace F64.Text
open DecText F64

theorem digitVal_of_isDigit (c : Char) (h : c.isDigit = true) : digitVal c = some (c.toNat - 48) := by
  unfold digitVal
  have : '0' ≤ c ∧ c ≤ '9' := by
    simp only [Char.isDigit, Bool.and_eq_true, decide_eq_true_eq] at h
    exact ⟨h.1, h.2⟩
  rw [if_pos this]

theorem readDigits_digits (ds : List Char) (hds : ∀ c ∈ ds, c.isDigit = true) (rest : List Char)
    (hrest : ∀ c r, rest = c :: r → digitVal c = none) (acc n : Nat) :
    readDigits digitVal 10 (ds ++ rest) acc n = (Nat.ofDigitChars 10 ds acc, n + ds.length, rest) := by
  induction ds generalizing acc n with
  | nil =>
    cases rest with
    | nil => simp [readDigits]
    | cons c r => simp [readDigits, hrest c r rfl]
  | cons d ds ih =>
    have hd := digitVal_of_isDigit d (hds d (List.mem_cons_self))
    simp only [List.cons_append, readDigits, hd]
    rw [ih (fun c hc => hds c (List.mem_cons_of_mem _ hc)), Nat.ofDigitChars_cons]
    simp only [List.length_cons]
    congr 1
    · congr 1; simp [Nat.mul_comm]
    · congr 1; omega

theorem not_sign_of_isDigit (c : Char) (h : c.isDigit = true) : c ≠ '-' ∧ c ≠ '+' ∧ c ≠ 'x' ∧ c ≠ 'X' := by
  refine ⟨?_, ?_, ?_, ?_⟩ <;> (intro e; subst e; revert h; decide)


def signSplit (cs : List Char) : Bool × List Char :=
  match cs with
  | '-' :: r => (true, r)
  | '+' :: r => (false, r)
  | _ => (false, cs)

def parseBody (neg : Bool) (cs : List Char) : Option Num :=
  match cs with
  | '0' :: x :: r =>
    if x == 'x' || x == 'X' then
      let (ip, n1, r1) := readDigits hexVal 16 r 0 0
      let (m, n2, r2) := match r1 with
        | '.' :: r' => let (m, n2, r2) := readDigits hexVal 16 r' ip 0; (m, n2, r2)
        | _ => (ip, 0, r1)
      if n1 + n2 == 0 then none else
      match r2 with
      | p :: r3 =>
        if p == 'p' || p == 'P' then
          match readInt r3 with
          | some (e, []) => some { neg, mant := m, exp := e - 4 * (n2 : Int), hex := true }
          | _ => none
        else none
      | [] => none
    else parse.parseDec neg cs
  | _ => parse.parseDec neg cs

theorem parse_eq (s : String) : parse s = parseBody (signSplit s.toList).1 (signSplit s.toList).2 := rfl

theorem signSplit_digit (c0 : Char) (h0 : c0.isDigit = true) (tl : List Char) :
    signSplit (c0 :: tl) = (false, c0 :: tl) := by
  obtain ⟨h1, h2, _, _⟩ := not_sign_of_isDigit c0 h0
  unfold signSplit
  split
  · rename_i heq; simp at heq; exact absurd heq.1 h1
  · rename_i heq; simp at heq; exact absurd heq.1 h2
  · rfl

theorem parseBody_dec (neg : Bool) (c0 : Char) (tl : List Char)
    (h : ∀ x r, tl = x :: r → x ≠ 'x' ∧ x ≠ 'X') :
    parseBody neg (c0 :: tl) = parse.parseDec neg (c0 :: tl) := by
  unfold parseBody
  split
  · rename_i x r heq
    simp only [List.cons.injEq] at heq
    obtain ⟨h1, h2⟩ := h x r heq.2
    have : (x == 'x' || x == 'X') = false := by simp [h1, h2]
    simp only [this, Bool.false_eq_true, if_false]
  · rfl

theorem parseDec_int (neg : Bool) (ip : List Char) (hne : ip ≠ []) (hip : ∀ c ∈ ip, c.isDigit = true) :
    parse.parseDec neg ip = some { neg := neg, mant := Nat.ofDigitChars 10 ip 0, exp := 0, hex := false } := by
  have h1 := readDigits_digits ip hip [] (by intro c r h; cases h) 0 0
  rw [List.append_nil] at h1
  have hlen : 0 < ip.length := List.length_pos_iff.mpr hne
  unfold parse.parseDec
  simp only [h1]
  simp [hne]

theorem parseDec_frac (neg : Bool) (ip fp : List Char) (hne : ip ≠ [])
    (hip : ∀ c ∈ ip, c.isDigit = true) (hfp : ∀ c ∈ fp, c.isDigit = true) :
    parse.parseDec neg (ip ++ '.' :: fp) =
      some { neg := neg, mant := Nat.ofDigitChars 10 fp (Nat.ofDigitChars 10 ip 0),
             exp := -(fp.length : Int), hex := false } := by
  have h1 := readDigits_digits ip hip ('.' :: fp)
    (by intro c r h; simp only [List.cons.injEq] at h; rw [← h.1]; decide) 0 0
  have h2 := readDigits_digits fp hfp [] (by intro c r h; cases h) (Nat.ofDigitChars 10 ip 0) 0
  rw [List.append_nil] at h2
  have hlen : 0 < ip.length := List.length_pos_iff.mpr hne
  unfold parse.parseDec
  simp only [h1, h2]
  simp [hne]

/-! ### the text of `fmtFixed` -/

/-- the zero-padded digit list of `fmtFixed` -/
def padded (k p : Nat) : List Char :=
  List.replicate (p + 1 - (Nat.toDigits 10 k).length) '0' ++ Nat.toDigits 10 k

theorem padded_digits (k p : Nat) : ∀ c ∈ padded k p, c.isDigit = true := by
  intro c hc
  unfold padded at hc
  rcases List.mem_append.mp hc with h | h
  · rw [(List.mem_replicate.mp h).2]; decide
  · exact Nat.isDigit_of_mem_toDigits (by decide) (by decide) h

theorem padded_length (k p : Nat) : p + 1 ≤ (padded k p).length := by
  unfold padded; rw [List.length_append, List.length_replicate]; omega

theorem padded_value (k p : Nat) : Nat.ofDigitChars 10 (padded k p) 0 = k := by
  unfold padded
  rw [Nat.ofDigitChars_append, Nat.ofDigitChars_replicate_zero, Nat.mul_zero, Nat.ofDigitChars_ten_toDigits]

theorem fmtFixed_toList (b : Bits) (hb : isFinite b = true) (p : Nat) :
    (fmtFixed b p).toList = (if signBit b then ['-'] else []) ++
      ((padded (fixedScaled b p) p).take ((padded (fixedScaled b p) p).length - p) ++
       (if p = 0 then [] else '.' :: (padded (fixedScaled b p) p).drop ((padded (fixedScaled b p) p).length - p))) := by
  unfold fmtFixed
  simp only [isNaN_of_finite hb, isInf_of_finite hb, Bool.false_eq_true, if_false, natToDigits]
  rw [String.toList_append, String.toList_append, String.toList_ofList]
  congr 1
  · cases signBit b <;> rfl
  · congr 1
    by_cases hp : p = 0
    · subst hp; simp
    · have : (p == 0) = false := by simp [hp]
      simp only [this, hp, Bool.false_eq_true, if_false]
      rw [String.toList_append, String.toList_ofList, String.toList_ofList]; rfl


/-- **parse_fmtFixed** — the text printed by `strconv 'f'` with precision p for a finite float parses
(as a plain decimal numeral) to sign, the integer `fixedScaled b p`, exponent −p. -/
theorem parse_fmtFixed (b : Bits) (hb : isFinite b = true) (p : Nat) :
    DecText.parse (fmtFixed b p) =
      some { neg := signBit b, mant := fixedScaled b p, exp := -(p : Int), hex := false } := by
  rw [parse_eq, fmtFixed_toList b hb p]
  generalize hk : fixedScaled b p = k
  have hdig := padded_digits k p
  have hlen := padded_length k p
  have hval := padded_value k p
  generalize padded k p = L at hdig hlen hval
  have hsplit : L.take (L.length - p) ++ L.drop (L.length - p) = L := List.take_append_drop _ _
  have hipd : ∀ c ∈ L.take (L.length - p), c.isDigit = true := fun c hc => hdig c (List.mem_of_mem_take hc)
  have hfpd : ∀ c ∈ L.drop (L.length - p), c.isDigit = true := fun c hc => hdig c (List.mem_of_mem_drop hc)
  have hfplen : (L.drop (L.length - p)).length = p := by rw [List.length_drop]; omega
  have hiplen : 0 < (L.take (L.length - p)).length := by rw [List.length_take]; omega
  generalize L.take (L.length - p) = ip at *
  generalize L.drop (L.length - p) = fp at *
  have hipne : ip ≠ [] := List.length_pos_iff.mp hiplen
  obtain ⟨c0, ip', rfl⟩ := List.exists_cons_of_ne_nil hipne
  have hc0 := hipd c0 List.mem_cons_self
  -- the sign
  have hsign : signSplit ((if signBit b then ['-'] else []) ++ (c0 :: ip' ++ if p = 0 then [] else '.' :: fp))
      = (signBit b, c0 :: ip' ++ if p = 0 then [] else '.' :: fp) := by
    cases signBit b
    · simp only [Bool.false_eq_true, if_false, List.nil_append, List.cons_append]
      exact signSplit_digit c0 hc0 _
    · rfl
  rw [hsign]
  simp only []
  -- not a hex literal
  have hbody : parseBody (signBit b) (c0 :: ip' ++ if p = 0 then [] else '.' :: fp)
      = parse.parseDec (signBit b) (c0 :: ip' ++ if p = 0 then [] else '.' :: fp) := by
    rw [List.cons_append]
    apply parseBody_dec
    intro x r hx
    have hxd : x.isDigit = true ∨ x = '.' := by
      cases ip' with
      | nil =>
        by_cases hp : p = 0
        · simp [hp] at hx
        · simp only [hp, if_false, List.nil_append, List.cons.injEq] at hx
          right; exact hx.1.symm
      | cons y ys =>
        simp only [List.cons_append, List.cons.injEq] at hx
        left; rw [← hx.1]; exact hipd y (List.mem_cons_of_mem _ List.mem_cons_self)
    rcases hxd with h | h
    · exact ⟨(not_sign_of_isDigit x h).2.2.1, (not_sign_of_isDigit x h).2.2.2⟩
    · subst h; exact ⟨by decide, by decide⟩
  rw [hbody]
  by_cases hp : p = 0
  · subst hp
    have hfp : fp = [] := List.length_eq_zero_iff.mp hfplen
    subst hfp
    simp only [if_true, List.append_nil] at hsplit ⊢
    rw [parseDec_int _ _ hipne hipd, hsplit, hval]
    simp
  · simp only [hp, if_false]
    rw [parseDec_frac _ _ _ hipne hipd hfpd, ← Nat.ofDigitChars_append, hsplit, hval, hfplen]

/-- the text of `fmtFixed` converts (by correctly rounded parsing) to `ofDecimal` of the printed numeral -/
theorem toF64_fmtFixed (b : Bits) (hb : isFinite b = true) (p : Nat) :
    DecText.toF64? (fmtFixed b p) = some (ofDecimal (signBit b) (fixedScaled b p) (-(p : Int))) := by
  unfold DecText.toF64?
  rw [parse_fmtFixed b hb p]
  simp only [Option.map_some, DecText.Num.toF64, Bool.false_eq_true, if_false]

/-- **fmtFixed_reads_back** — if half a unit of the last printed place is smaller than half the gap
from x to its nearer neighbour, parsing the text `fmtFixed x p` returns x. -/
theorem fmtFixed_reads_back (x : Bits) (hx : isFinite x = true) (zx : isZero x = false) (p : Nat)
    (h : (10 : ℚ) ^ (-(p : Int)) / 2 < lowGap x * (2 : ℚ) ^ (expo x)) :
    DecText.toF64? (fmtFixed x p) = some x := by
  rw [toF64_fmtFixed x hx p, fmtFixed_reads_back_partial x hx zx p h]

/-- **text_reads_back** — any text that parses as a decimal numeral with the sign of x and a value in
the rounding interval of |x| converts to x; in particular every text denoting a shortest decimal. -/
theorem text_reads_back (x : Bits) (hx : isFinite x = true) (zx : isZero x = false) (s : String)
    (n : DecText.Num) (hp : DecText.parse s = some n) (hdec : n.hex = false) (hsign : n.neg = signBit x)
    (hin : InRound (F64.abs x) ((n.mant : ℚ) * (10 : ℚ) ^ n.exp)) : DecText.toF64? s = some x := by
  unfold DecText.toF64?
  rw [hp]
  simp only [Option.map_some, DecText.Num.toF64, hdec, Bool.false_eq_true, if_false, hsign]
  rw [parse_of_inRound x hx zx n.mant n.exp hin]

theorem shortest_text_reads_back (x : Bits) (hx : isFinite x = true) (zx : isZero x = false) (s : String)
    (n : DecText.Num) (hp : DecText.parse s = some n) (hdec : n.hex = false) (hsign : n.neg = signBit x)
    (hsh : IsShortestDecimal x n.mant n.exp) : DecText.toF64? s = some x :=
  text_reads_back x hx zx s n hp hdec hsign hsh.2.1

/-- instance: 1.5 printed with 17 decimals reads back -/
example : DecText.toF64? (fmtFixed 0x3FF8000000000000 17) = some 0x3FF8000000000000 :=
  fmtFixed_reads_back _ (by decide) (by decide) 17 (by
    have h1 : mant 0x3FF8000000000000 = 2 ^ 52 + 2 ^ 51 := by decide
    have h2 : expo 0x3FF8000000000000 = -52 := by decide
    unfold lowGap; rw [h1, h2]; norm_num)

end F64.Text
