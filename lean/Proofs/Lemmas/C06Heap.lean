/-
Aliasing facts about the heap model of the evaluator (Model/Proc/FilterHeap.lean):
frame (cells that existed before a call are untouched), freshness (the returned mask was allocated
during the call) and refinement (reading the returned address gives the functional model's mask).
-/
import Model.Proc.FilterHeap
import Proofs.Lemmas.C06Walk

namespace C06
open Proc.FilterEval Proc.FilterHeap Proc.Extract

/-- `h` is `hb` with cells appended: every cell of `hb` is still there, unchanged -/
def Ext (hb h : Heap) : Prop := ∃ ext, h = hb ++ ext

theorem Ext.refl (h : Heap) : Ext h h := ⟨[], by simp⟩

theorem Ext.trans {a b c : Heap} (h1 : Ext a b) (h2 : Ext b c) : Ext a c := by
  obtain ⟨x, rfl⟩ := h1; obtain ⟨y, rfl⟩ := h2
  exact ⟨x ++ y, by simp⟩

theorem Ext.snoc (h : Heap) (m : Mask) : Ext h (h ++ [m]) := ⟨[m], rfl⟩

theorem Ext.length_le {hb h : Heap} (e : Ext hb h) : hb.length ≤ h.length := by
  obtain ⟨x, rfl⟩ := e; simp

theorem Ext.cell {hb h : Heap} (e : Ext hb h) (a : Nat) (ha : a < hb.length) : cell h a = cell hb a := by
  obtain ⟨x, rfl⟩ := e
  unfold Proc.FilterHeap.cell
  rw [List.getD_eq_getElem?_getD, List.getD_eq_getElem?_getD, List.getElem?_append_left ha]

theorem length_updAt (f : Mask → Mask) (h : Heap) (a : Nat) : (updAt f h a).length = h.length := by
  induction h generalizing a with
  | nil => simp [updAt]
  | cons m h ih => cases a <;> simp [updAt, ih]

theorem updAt_append_right (f : Mask → Mask) (hb ext : Heap) (a : Nat) (ha : hb.length ≤ a) :
    updAt f (hb ++ ext) a = hb ++ updAt f ext (a - hb.length) := by
  induction hb generalizing a with
  | nil => simp
  | cons m hb ih =>
    cases a with
    | zero => simp at ha
    | succ a =>
      simp only [List.cons_append, updAt, List.length_cons, Nat.add_sub_add_right]
      rw [ih a (by simpa using ha)]

/-- an in-place update at an address beyond `hb` leaves `hb` alone -/
theorem Ext.updAt {hb h : Heap} (e : Ext hb h) (f : Mask → Mask) (a : Nat) (ha : hb.length ≤ a) :
    Ext hb (updAt f h a) := by
  obtain ⟨x, rfl⟩ := e
  exact ⟨_, updAt_append_right f hb x a ha⟩

theorem cell_updAt_same (f : Mask → Mask) (h : Heap) (a : Nat) (ha : a < h.length) :
    cell (updAt f h a) a = f (cell h a) := by
  induction h generalizing a with
  | nil => simp at ha
  | cons m h ih =>
    cases a with
    | zero => simp [updAt, cell]
    | succ a =>
      have := ih a (by simpa using ha)
      simpa [updAt, cell] using this

theorem cell_snoc (h : Heap) (m : Mask) : cell (h ++ [m]) h.length = m := by
  simp [cell]

/-! ### frame and freshness -/

mutual
theorem frameE (re : ReOracle) (res : Res) : ∀ (e : Filter) (h : Heap),
    Ext h (evalH re res e h).2 ∧
    ∀ a, (evalH re res e h).1.1 = some a → h.length ≤ a ∧ a < (evalH re res e h).2.length
  | .mtch key off mt, h => by
    rw [evalH]
    split
    · exact ⟨Ext.snoc _ _, fun a ha => by simp at ha; subst ha; simp⟩
    · exact ⟨Ext.refl _, fun a ha => by simp at ha⟩
  | .not e, h => by
    obtain ⟨hx, hf⟩ := frameE re res e h
    rw [evalH]
    rcases hr : evalH re res e h with ⟨⟨_ | a, x⟩, h'⟩
    · rw [hr] at hx
      exact ⟨hx, fun a ha => by simp at ha⟩
    · rw [hr] at hx hf
      obtain ⟨h1, h2⟩ := hf a rfl
      refine ⟨hx.updAt _ a h1, fun b hb => ?_⟩
      simp at hb; subst hb
      exact ⟨h1, by rw [length_updAt]; exact h2⟩
  | .and es, h => by
    rw [evalH]
    exact frameAnd re res es none h h (Ext.refl _) (fun a ha => by simp at ha)
  | .or es, h => by
    rw [evalH]
    exact frameOr re res es none h h (Ext.refl _) (fun a ha => by simp at ha)
theorem frameAnd (re : ReOracle) (res : Res) : ∀ (es : List Filter) (m : Option Nat) (h hb : Heap),
    Ext hb h → (∀ a, m = some a → hb.length ≤ a ∧ a < h.length) →
    Ext hb (andH re res es m h).2 ∧
    ∀ a, (andH re res es m h).1.1 = some a → hb.length ≤ a ∧ a < (andH re res es m h).2.length
  | [], m, h, hb, hx, hm => by
    rw [andH]; exact ⟨hx, fun a ha => hm a ha⟩
  | e :: es, m, h, hb, hx, hm => by
    obtain ⟨ex, ef⟩ := frameE re res e h
    rw [andH]
    rcases hr : evalH re res e h with ⟨⟨_ | a2, x⟩, h'⟩
    · rw [hr] at ex
      have hm' : ∀ a, m = some a → hb.length ≤ a ∧ a < h'.length :=
        fun a ha => ⟨(hm a ha).1, Nat.lt_of_lt_of_le (hm a ha).2 ex.length_le⟩
      cases x with
      | false => exact ⟨hx.trans ex, fun a ha => by simp at ha⟩
      | true => exact frameAnd re res es m h' hb (hx.trans ex) hm'
    · rw [hr] at ex ef
      obtain ⟨f1, f2⟩ := ef a2 rfl
      cases m with
      | none =>
        exact frameAnd re res es (some a2) h' hb (hx.trans ex)
          (fun a ha => by cases ha; exact ⟨Nat.le_trans hx.length_le f1, f2⟩)
      | some a =>
        obtain ⟨m1, m2⟩ := hm a rfl
        exact frameAnd re res es (some a) _ hb ((hx.trans ex).updAt _ a m1)
          (fun b hb' => by cases hb'; exact ⟨m1, by rw [length_updAt]; exact Nat.lt_of_lt_of_le m2 ex.length_le⟩)
theorem frameOr (re : ReOracle) (res : Res) : ∀ (es : List Filter) (m : Option Nat) (h hb : Heap),
    Ext hb h → (∀ a, m = some a → hb.length ≤ a ∧ a < h.length) →
    Ext hb (orH re res es m h).2 ∧
    ∀ a, (orH re res es m h).1.1 = some a → hb.length ≤ a ∧ a < (orH re res es m h).2.length
  | [], m, h, hb, hx, hm => by
    rw [orH]; exact ⟨hx, fun a ha => hm a ha⟩
  | e :: es, m, h, hb, hx, hm => by
    obtain ⟨ex, ef⟩ := frameE re res e h
    rw [orH]
    rcases hr : evalH re res e h with ⟨⟨_ | a2, x⟩, h'⟩
    · rw [hr] at ex
      have hm' : ∀ a, m = some a → hb.length ≤ a ∧ a < h'.length :=
        fun a ha => ⟨(hm a ha).1, Nat.lt_of_lt_of_le (hm a ha).2 ex.length_le⟩
      cases x with
      | true => exact ⟨hx.trans ex, fun a ha => by simp at ha⟩
      | false => exact frameOr re res es m h' hb (hx.trans ex) hm'
    · rw [hr] at ex ef
      obtain ⟨f1, f2⟩ := ef a2 rfl
      cases m with
      | none =>
        exact frameOr re res es (some a2) h' hb (hx.trans ex)
          (fun a ha => by cases ha; exact ⟨Nat.le_trans hx.length_le f1, f2⟩)
      | some a =>
        obtain ⟨m1, m2⟩ := hm a rfl
        exact frameOr re res es (some a) _ hb ((hx.trans ex).updAt _ a m1)
          (fun b hb' => by cases hb'; exact ⟨m1, by rw [length_updAt]; exact Nat.lt_of_lt_of_le m2 ex.length_le⟩)
end


/-! ### refinement: the heap evaluator computes the masks of the functional one -/

/-- "the functional out `o` is the heap out `r` read in heap `h`" -/
def Reads (o : Out) (r : HOut) (h : Heap) : Prop := o.2 = r.2 ∧ o.1 = r.1.map (cell h)

mutual
theorem refE (re : ReOracle) (res : Res) : ∀ (e : Filter) (f : FilterFn), walk re e = .ok f →
    ∀ h, Reads (f res) (evalH re res e h).1 (evalH re res e h).2
  | .mtch key off mt, f, hw, h => by
    unfold walk at hw
    rw [evalH]
    split at hw
    · rename_i hu
      cases hw
      simp only [hu, if_true]
      exact ⟨rfl, by simp [unitFn, cell_snoc]⟩
    · rename_i hu
      split at hw
      · cases hw
      · split at hw
        · cases hw
        · cases hw
          simp only [hu]
          exact ⟨rfl, rfl⟩
  | .not e, f, hw, h => by
    unfold walk at hw
    split at hw
    · rename_i sub hs
      cases hw
      obtain ⟨r1, r2⟩ := refE re res e sub hs h
      obtain ⟨_, hf⟩ := frameE re res e h
      rw [evalH]
      rcases hr : evalH re res e h with ⟨⟨_ | a, x⟩, h'⟩
      · rw [hr] at r1 r2
        simp only [Option.map_none] at r2
        have : sub res = (none, x) := Prod.ext r2 r1
        simp [Reads, notFn, this]
      · rw [hr] at r1 r2 hf
        obtain ⟨_, h2⟩ := hf a rfl
        simp only [Option.map_some] at r2
        have : sub res = (some (cell h' a), x) := Prod.ext r2 r1
        simp [Reads, notFn, this, cell_updAt_same _ _ _ h2]
    · cases hw
  | .and es, f, hw, h => by
    unfold walk at hw
    split at hw
    · rename_i subs hs
      cases hw
      rw [evalH]
      exact refAnd re res es subs hs none none h rfl (fun a ha => by simp at ha)
    · cases hw
  | .or es, f, hw, h => by
    unfold walk at hw
    split at hw
    · rename_i subs hs
      cases hw
      rw [evalH]
      exact refOr re res es subs hs none none h rfl (fun a ha => by simp at ha)
    · cases hw
theorem refAnd (re : ReOracle) (res : Res) : ∀ (es : List Filter) (fs : List FilterFn), walkList re es = .ok fs →
    ∀ (mf : Option Mask) (mh : Option Nat) (h : Heap), mf = mh.map (cell h) → (∀ a, mh = some a → a < h.length) →
    Reads (andLoop res fs mf) (andH re res es mh h).1 (andH re res es mh h).2
  | [], fs, hw, mf, mh, h, hm, _ => by
    unfold walkList at hw; cases hw
    rw [andH, andLoop]
    exact ⟨rfl, hm⟩
  | e :: es, fs, hw, mf, mh, h, hm, hlt => by
    unfold walkList at hw
    split at hw
    · cases hw
    · rename_i f hf
      split at hw
      · cases hw
      · rename_i fs' hfs
        cases hw
        obtain ⟨r1, r2⟩ := refE re res e f hf h
        obtain ⟨ex, ef⟩ := frameE re res e h
        rw [andH, andLoop]
        rcases hr : evalH re res e h with ⟨⟨_ | a2, x⟩, h'⟩
        · rw [hr] at r1 r2 ex
          simp only [Option.map_none] at r2
          have hfr : f res = (none, x) := Prod.ext r2 r1
          have hm' : mf = mh.map (cell h') := by
            rw [hm]; cases mh with
            | none => rfl
            | some a => simp [ex.cell a (hlt a rfl)]
          have hlt' : ∀ a, mh = some a → a < h'.length := fun a ha => Nat.lt_of_lt_of_le (hlt a ha) ex.length_le
          rw [hfr]
          cases x with
          | false => exact ⟨rfl, rfl⟩
          | true => exact refAnd re res es fs' hfs mf mh h' hm' hlt'
        · rw [hr] at r1 r2 ex ef
          obtain ⟨_, f2⟩ := ef a2 rfl
          simp only [Option.map_some] at r2
          have hfr : f res = (some (cell h' a2), x) := Prod.ext r2 r1
          rw [hfr]
          cases mh with
          | none =>
            simp only [Option.map_none] at hm; subst hm
            exact refAnd re res es fs' hfs (some (cell h' a2)) (some a2) h' rfl (fun a ha => by cases ha; exact f2)
          | some a =>
            have ha := hlt a rfl
            have ha' : a < h'.length := Nat.lt_of_lt_of_le ha ex.length_le
            simp only [Option.map_some] at hm; subst hm
            simp only
            refine refAnd re res es fs' hfs _ (some a) _ ?_ (fun b hb => by cases hb; rw [length_updAt]; exact ha')
            simp [cell_updAt_same _ _ _ ha', ex.cell a ha]
theorem refOr (re : ReOracle) (res : Res) : ∀ (es : List Filter) (fs : List FilterFn), walkList re es = .ok fs →
    ∀ (mf : Option Mask) (mh : Option Nat) (h : Heap), mf = mh.map (cell h) → (∀ a, mh = some a → a < h.length) →
    Reads (orLoop res fs mf) (orH re res es mh h).1 (orH re res es mh h).2
  | [], fs, hw, mf, mh, h, hm, _ => by
    unfold walkList at hw; cases hw
    rw [orH, orLoop]
    exact ⟨rfl, hm⟩
  | e :: es, fs, hw, mf, mh, h, hm, hlt => by
    unfold walkList at hw
    split at hw
    · cases hw
    · rename_i f hf
      split at hw
      · cases hw
      · rename_i fs' hfs
        cases hw
        obtain ⟨r1, r2⟩ := refE re res e f hf h
        obtain ⟨ex, ef⟩ := frameE re res e h
        rw [orH, orLoop]
        rcases hr : evalH re res e h with ⟨⟨_ | a2, x⟩, h'⟩
        · rw [hr] at r1 r2 ex
          simp only [Option.map_none] at r2
          have hfr : f res = (none, x) := Prod.ext r2 r1
          have hm' : mf = mh.map (cell h') := by
            rw [hm]; cases mh with
            | none => rfl
            | some a => simp [ex.cell a (hlt a rfl)]
          have hlt' : ∀ a, mh = some a → a < h'.length := fun a ha => Nat.lt_of_lt_of_le (hlt a ha) ex.length_le
          rw [hfr]
          cases x with
          | true => exact ⟨rfl, rfl⟩
          | false => exact refOr re res es fs' hfs mf mh h' hm' hlt'
        · rw [hr] at r1 r2 ex ef
          obtain ⟨_, f2⟩ := ef a2 rfl
          simp only [Option.map_some] at r2
          have hfr : f res = (some (cell h' a2), x) := Prod.ext r2 r1
          rw [hfr]
          cases mh with
          | none =>
            simp only [Option.map_none] at hm; subst hm
            exact refOr re res es fs' hfs (some (cell h' a2)) (some a2) h' rfl (fun a ha => by cases ha; exact f2)
          | some a =>
            have ha := hlt a rfl
            have ha' : a < h'.length := Nat.lt_of_lt_of_le ha ex.length_le
            simp only [Option.map_some] at hm; subst hm
            simp only
            refine refOr re res es fs' hfs _ (some a) _ ?_ (fun b hb => by cases hb; rw [length_updAt]; exact ha')
            simp [cell_updAt_same _ _ _ ha', ex.cell a ha]
end

end C06
