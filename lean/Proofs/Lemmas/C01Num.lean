/-
C01 helper lemmas, part 8: an INSTANCE of the number hypothesis. Number parsing is C03's
specification (`Spec.NumText.parseFloatSpec`, `parseIntSpec`), number printing is the
specification of `%v` (`Spec.FmtFloat.fmtNumSpec`) and `fmtInt`. For every value for which the
search of `fmtNumSpec?` succeeds — a decidable condition, and what the correspondence run
observes for every value it meets — the printed text is one field and parses back to the value.
-/
import Proofs.Lemmas.C01ReaderWF
import Model.Spec.FmtFloat

namespace C01
open Fmt Spec.RoundTrip Spec.FmtFloat Spec.NumText

def liftErr : Spec.NumText.NumErr → Fmt.NumErr
  | .syntax => .syntax
  | .range => .range

/-- oracles whose number parsers are the SPECIFICATIONS of `strconv.Atoi` / `ParseFloat` -/
def specOracles (uc : UC) (tidy : UInt64 → Bytes → UInt64 × Bytes) : Oracles :=
  { uc := uc
    tidy := tidy
    atoi := fun t => match parseIntSpec t with
      | .ok v => .ok v
      | .error e => .error (liftErr e)
    atof := fun t => match parseFloatSpec t with
      | .ok v => .ok v
      | .error e => .error (liftErr e) }

/-- the writer's number text is the specification of `%v` -/
def specParams : WParams := ⟨fmtNumSpec⟩

theorem normNum_idem (x : UInt64) : normNum (normNum x) = normNum x := by
  unfold normNum
  by_cases h : isNaN x = true
  · simp only [h, ↓reduceIte]
    have : isNaN 0x7FF8000000000001 = true := by decide
    simp [this]
  · simp [h]

theorem fmtNumSpec?_accept {x : UInt64} {t : Bytes} (h : fmtNumSpec? x = some t) : accept x t = true := by
  unfold fmtNumSpec? at h
  exact List.find?_some h

/-- **the printed text parses back.** Whenever the specification of `%v` yields a text for
`x`, that text is non-empty, is a single field, and `parseFloatSpec` maps it to `x` (NaNs
identified). -/
theorem fmtNumSpec_good (uc : UC) (tidy : UInt64 → Bytes → UInt64 × Bytes) (x : UInt64)
    (h : (fmtNumSpec? x).isSome = true) : NumGood (specOracles uc tidy) specParams x := by
  obtain ⟨t, ht⟩ := Option.isSome_iff_exists.1 h
  have hacc := fmtNumSpec?_accept ht
  have hfmt : specParams.fmtNum x = t := by simp [specParams, fmtNumSpec, ht]
  unfold accept at hacc
  simp only [Bool.and_eq_true, Bool.not_eq_true', List.all_eq_true, decide_eq_true_eq] at hacc
  obtain ⟨⟨hne, hall⟩, hparse⟩ := hacc
  unfold NumGood
  rw [hfmt]
  refine ⟨?_, ?_, ?_⟩
  · cases hp : parseFloatSpec t with
    | error e => rw [hp] at hparse; simp at hparse
    | ok y =>
      rw [hp] at hparse
      simp only [beq_iff_eq] at hparse
      refine ⟨y, by simp [specOracles, hp], ?_⟩
      rw [hparse, normNum_idem]
  · intro e; rw [e] at hne; simp at hne
  · apply tokenOK_ascii
    intro c hc
    have := hall c hc
    refine ⟨this.2, asciiSpace_high c ?_⟩
    have h1 := this.1
    rw [UInt8.le_iff_toNat_le] at h1
    exact h1

/-- `%d` then `Atoi` gives the number back (decidable per number) -/
def intCheck (n : Int) : Bool :=
  match parseIntSpec (fmtInt n) with
  | .ok v => v == n
  | .error _ => false

theorem intGood_of_check (uc : UC) (tidy : UInt64 → Bytes → UInt64 × Bytes) (n : Int)
    (h : intCheck n = true) : IntGood (specOracles uc tidy) n := by
  unfold intCheck at h
  unfold IntGood
  cases hp : parseIntSpec (fmtInt n) with
  | error e => rw [hp] at h; simp at h
  | ok v =>
    rw [hp] at h
    simp only [beq_iff_eq] at h
    simp [specOracles, hp, h]

/-- the decidable form of `NumOKFor` for the specification oracles -/
def numCheck (h : List Rec) : Bool :=
  h.all fun r => match r with
    | .result res => intCheck res.iters && res.values.all (fun v => (fmtNumSpec? v.written.1).isSome)
    | _ => true

theorem numOKFor_of_check (uc : UC) (tidy : UInt64 → Bytes → UInt64 × Bytes) (h : List Rec)
    (hc : numCheck h = true) : NumOKFor (specOracles uc tidy) specParams h := by
  intro r hr
  simp only [numCheck, List.all_eq_true] at hc
  have := hc _ hr
  simp only [Bool.and_eq_true, List.all_eq_true] at this
  exact ⟨intGood_of_check uc tidy _ this.1, fun v hv => fmtNumSpec_good uc tidy _ (this.2 v hv)⟩

end C01
