/-
C16 — footnote numbering of the text rendering and the warnings stream of the CSV rendering.
-/
import Proofs.Lemmas.C16ToText
import Mathlib.Tactic.Set

namespace C16
open Tab.TextTab Tab.Render

/-! ### the warning list: distinct messages in order of first emission -/

/-- append `m` unless it is already listed -/
def addNew (l : List Bytes) (m : Bytes) : List Bytes := if m ∈ l then l else l ++ [m]

theorem findIdx_none (l : List Bytes) (m : Bytes) : findIdx l m = none ↔ m ∉ l := by
  induction l with
  | nil => simp [findIdx]
  | cons a as ih =>
    unfold findIdx
    by_cases h : a = m
    · subst h; simp
    · have h' : (a == m) = false := by simpa using h
      simp only [h', Bool.false_eq_true, if_false, Option.map_eq_none_iff, ih, List.mem_cons, not_or]
      exact ⟨fun x => ⟨fun e => h e.symm, x⟩, fun x => x.2⟩

theorem mem_of_findIdx (l : List Bytes) (m : Bytes) (i : Nat) (h : findIdx l m = some i) : m ∈ l := by
  cases Decidable.em (m ∈ l) with
  | inl h' => exact h'
  | inr hn => rw [(findIdx_none l m).mpr hn] at h; cases h

theorem findIdx_some_lt (l : List Bytes) (m : Bytes) (i : Nat) (h : findIdx l m = some i) :
    i < l.length ∧ l.getD i [] = m := by
  induction l generalizing i with
  | nil => simp [findIdx] at h
  | cons a as ih =>
    unfold findIdx at h
    by_cases hm : a = m
    · subst hm; simp at h; subst h; simp
    · have h' : (a == m) = false := by simpa using hm
      simp only [h', Bool.false_eq_true, if_false, Option.map_eq_some_iff] at h
      obtain ⟨j, hj, rfl⟩ := h
      have := ih j hj
      simp only [List.length_cons, List.getD_cons_succ]
      exact ⟨by omega, this.2⟩

theorem findIdx_append (l x : List Bytes) (m : Bytes) (h : m ∈ l) : findIdx (l ++ x) m = findIdx l m := by
  induction l with
  | nil => cases h
  | cons a as ih =>
    simp only [List.cons_append, findIdx]
    by_cases hm : a = m
    · subst hm; simp
    · have h' : (a == m) = false := by simpa using hm
      simp only [h', Bool.false_eq_true, if_false]
      rw [ih (by
        rcases List.mem_cons.mp h with h1 | h1
        · exact absurd h1.symm hm
        · exact h1)]

theorem findIdx_new (l : List Bytes) (m : Bytes) (h : m ∉ l) : findIdx (l ++ [m]) m = some l.length := by
  induction l with
  | nil => simp [findIdx]
  | cons a as ih =>
    simp only [List.mem_cons, not_or] at h
    have h' : (a == m) = false := by simpa using fun e => h.1 e.symm
    simp [findIdx, h', ih h.2]

theorem warnStep_fst (st : List Bytes × List Bytes) (m : Bytes) : (warnStep st m).1 = addNew st.1 m := by
  unfold warnStep addNew
  cases hf : findIdx st.1 m with
  | none => have := (findIdx_none st.1 m).mp hf; simp [this]
  | some i =>
    have : m ∈ st.1 := mem_of_findIdx _ _ _ hf
    simp [this]

/-- the mark `warn` adds for `m`: its number in the list after the step -/
theorem warnStep_snd (st : List Bytes × List Bytes) (m : Bytes) :
    ∃ i, findIdx (addNew st.1 m) m = some i ∧ (warnStep st m).2 = st.2 ++ [superscript (i + 1)] := by
  unfold warnStep addNew
  cases hf : findIdx st.1 m with
  | none =>
    have hn := (findIdx_none st.1 m).mp hf
    exact ⟨st.1.length, by simp [hn, findIdx_new _ _ hn], rfl⟩
  | some i =>
    have : m ∈ st.1 := mem_of_findIdx _ _ _ hf
    exact ⟨i, by simp [this, hf], rfl⟩

theorem addNew_prefix (l : List Bytes) (m : Bytes) : ∃ x, addNew l m = l ++ x := by
  unfold addNew; split
  · exact ⟨[], by simp⟩
  · exact ⟨[m], rfl⟩

theorem foldl_addNew_prefix (msgs : List Bytes) : ∀ l, ∃ x, msgs.foldl addNew l = l ++ x := by
  induction msgs with
  | nil => intro l; exact ⟨[], by simp⟩
  | cons m rest ih =>
    intro l
    obtain ⟨x, hx⟩ := addNew_prefix l m
    obtain ⟨y, hy⟩ := ih (addNew l m)
    exact ⟨x ++ y, by rw [List.foldl_cons, hy, hx, List.append_assoc]⟩

theorem mem_addNew (l : List Bytes) (m x : Bytes) : x ∈ addNew l m ↔ x ∈ l ∨ x = m := by
  unfold addNew; split
  · rename_i h
    constructor
    · exact Or.inl
    · rintro (h1 | h1)
      · exact h1
      · subst h1; exact h
  · simp

theorem mem_foldl_addNew (msgs : List Bytes) : ∀ l x, x ∈ msgs.foldl addNew l ↔ x ∈ l ∨ x ∈ msgs := by
  induction msgs with
  | nil => intro l x; simp
  | cons m rest ih =>
    intro l x
    simp only [List.foldl_cons, ih, mem_addNew, List.mem_cons]
    constructor
    · rintro ((h | h) | h)
      · exact Or.inl h
      · exact Or.inr (Or.inl h)
      · exact Or.inr (Or.inr h)
    · rintro (h | h | h)
      · exact Or.inl (Or.inl h)
      · exact Or.inl (Or.inr h)
      · exact Or.inr h

theorem nodup_addNew (l : List Bytes) (m : Bytes) (h : l.Nodup) : (addNew l m).Nodup := by
  unfold addNew; split
  · exact h
  · rename_i hm
    rw [List.nodup_append]
    exact ⟨h, by simp, by
      intro a ha b hb
      simp only [List.mem_singleton] at hb
      subst hb
      intro e; subst e; exact hm ha⟩

theorem nodup_foldl_addNew (msgs : List Bytes) : ∀ l, l.Nodup → (msgs.foldl addNew l).Nodup := by
  induction msgs with
  | nil => intro l h; exact h
  | cons m rest ih => intro l h; exact ih _ (nodup_addNew l m h)

/-- `warn(msgs)`: the list becomes the old list plus the new messages in order of first
appearance, and the marks are the numbers of the messages IN ANY LATER LIST `fin` (numbers never
change: lists only grow at the end) -/
theorem warn_fold (msgs : List Bytes) : ∀ (wl acc : List Bytes),
    (msgs.foldl warnStep (wl, acc)).1 = msgs.foldl addNew wl ∧
    ∀ fin x, fin = msgs.foldl addNew wl ++ x →
      ∃ marks, (msgs.foldl warnStep (wl, acc)).2 = acc ++ marks ∧
        marks.length = msgs.length ∧
        ∀ k, k < msgs.length → ∃ i, findIdx fin (msgs.getD k []) = some i ∧ marks.getD k [] = superscript (i + 1) := by
  induction msgs with
  | nil =>
    intro wl acc
    exact ⟨rfl, fun fin x _ => ⟨[], by simp, rfl, fun k hk => by simp at hk⟩⟩
  | cons m rest ih =>
    intro wl acc
    simp only [List.foldl_cons]
    have hst : warnStep (wl, acc) m = ((warnStep (wl, acc) m).1, (warnStep (wl, acc) m).2) := rfl
    rw [hst, warnStep_fst]
    obtain ⟨i, hi, hsnd⟩ := warnStep_snd (wl, acc) m
    simp only at hi hsnd
    rw [hsnd]
    have := ih (addNew wl m) (acc ++ [superscript (i + 1)])
    refine ⟨this.1, ?_⟩
    intro fin x hfin
    obtain ⟨marks, h1, h2, h3⟩ := this.2 fin x hfin
    refine ⟨superscript (i + 1) :: marks, by rw [h1]; simp, by simp [h2], ?_⟩
    intro k hk
    cases k with
    | zero =>
      refine ⟨i, ?_, by simp⟩
      obtain ⟨y, hy⟩ := foldl_addNew_prefix rest (addNew wl m)
      have hm : m ∈ addNew wl m := (mem_addNew wl m m).mpr (Or.inr rfl)
      simp only [List.getD_cons_zero]
      rw [hfin, hy, List.append_assoc, findIdx_append _ _ _ hm]
      exact hi
    | succ k =>
      obtain ⟨j, hj1, hj2⟩ := h3 k (by simpa using hk)
      exact ⟨j, by simpa using hj1, by simpa using hj2⟩

/-! ### footnote lines -/

theorem footnoteLines_append (wl : List Bytes) (m : Bytes) :
    footnoteLines (wl ++ [m]) = footnoteLines wl ++ (superscript (wl.length + 1) ++ [0x20] ++ m ++ [0x0A]) := by
  unfold footnoteLines
  simp only [List.length_append, List.length_singleton, List.range_succ]
  rw [List.zip_append (by simp)]
  simp

/-! ### the stream of warnings of the text rendering -/

/-- messages `warn` is called with for the cell of logical column `exp`, in call order -/
def cellMsgs (exp : Nat) (c : DataCell) : List Bytes :=
  c.warns ++ match (if exp > 0 then c.delta else none) with
    | some d => d.warns
    | none => []

def colsMsgs : Nat → List (Option DataCell) → List Bytes
  | _, [] => []
  | exp, none :: rest => colsMsgs (exp + 1) rest
  | exp, some c :: rest => cellMsgs exp c ++ colsMsgs (exp + 1) rest

def rowsMsgs (rows : List (Bytes × List (Option DataCell))) : List Bytes := rows.flatMap fun r => colsMsgs 0 r.2

def sumsMsgs : List (Option SumCell) → List Bytes
  | [] => []
  | none :: rest => sumsMsgs rest
  | some s :: rest => s.warns ++ sumsMsgs rest

/-- the messages in the order ToText meets them (row-major; the summary row only if printed) -/
def textWarnStream (v : View) : List Bytes :=
  rowsMsgs v.rows ++ (if v.rows.length > 1 then sumsMsgs v.summary else [])

theorem warnCell_fst (wl msgs : List Bytes) : (warnCell wl msgs).1 = msgs.foldl addNew wl := by
  unfold warnCell; exact (warn_fold msgs wl []).1

theorem dataCellOps_fst (wl : List Bytes) (exp : Nat) (c : DataCell) :
    (dataCellOps wl exp c).1 = (cellMsgs exp c).foldl addNew wl := by
  unfold dataCellOps cellMsgs
  simp only
  have h1 := warnCell_fst wl c.warns
  cases hd : (if exp > 0 then c.delta else none) with
  | none => simp only [hd]; rw [List.append_nil]; exact h1
  | some d =>
    simp only [hd]
    rw [List.foldl_append, ← h1]
    exact warnCell_fst _ d.warns

theorem dataColsOps_fst : ∀ (cells : List (Option DataCell)) (wl : List Bytes) (exp : Nat),
    (dataColsOps wl exp cells).1 = (colsMsgs exp cells).foldl addNew wl := by
  intro cells
  induction cells with
  | nil => intro wl exp; rfl
  | cons oc rest ih =>
    intro wl exp
    cases oc with
    | none => simpa [dataColsOps, colsMsgs] using ih wl (exp + 1)
    | some c =>
      simp only [dataColsOps, colsMsgs, List.foldl_append]
      rw [ih, dataCellOps_fst]

theorem dataRowsOps_fst : ∀ (rows : List (Bytes × List (Option DataCell))) (wl : List Bytes),
    (dataRowsOps wl rows).1 = (rowsMsgs rows).foldl addNew wl := by
  intro rows
  induction rows with
  | nil => intro wl; rfl
  | cons r rest ih =>
    intro wl
    simp only [dataRowsOps, rowsMsgs, List.flatMap_cons, List.foldl_append]
    have := ih (dataRowOps wl r).1
    simp only [rowsMsgs] at this
    rw [this]
    simp only [dataRowOps]
    rw [dataColsOps_fst]

theorem sumColsOps_fst : ∀ (sums : List (Option SumCell)) (wl : List Bytes) (exp : Nat),
    (sumColsOps wl exp sums).1 = (sumsMsgs sums).foldl addNew wl := by
  intro sums
  induction sums with
  | nil => intro wl exp; rfl
  | cons oc rest ih =>
    intro wl exp
    cases oc with
    | none => simpa [sumColsOps, sumsMsgs] using ih wl (exp + 1)
    | some s =>
      simp only [sumColsOps, sumsMsgs, List.foldl_append]
      rw [ih]
      simp only [sumCellOps]
      rw [warnCell_fst]

theorem toTextOps_snd (v : View) : (toTextOps v).2 = (textWarnStream v).foldl addNew [] := by
  unfold toTextOps textWarnStream
  simp only
  split
  · simp only [List.foldl_append]
    rw [sumColsOps_fst, dataRowsOps_fst]
  · simp only [List.append_nil]
    exact dataRowsOps_fst v.rows []

/-! ### the warnings stream of the CSV rendering -/

/-- (field index of the cell in its record, CSV row number, message) for one present cell: the
centre's warnings refer to field `csvStartCol exp`, the comparison's to `csvStartCol exp + 2` -/
def cellPairs (rowNo exp : Nat) (c : DataCell) : List (Nat × Nat × Bytes) :=
  c.warns.map (fun m => (csvStartCol exp, rowNo, m)) ++
  match (if exp > 0 then c.delta else none) with
    | some d => d.warns.map (fun m => (csvStartCol exp + 2, rowNo, m))
    | none => []

def colsPairs (rowNo : Nat) : Nat → List (Option DataCell) → List (Nat × Nat × Bytes)
  | _, [] => []
  | exp, none :: rest => colsPairs rowNo (exp + 1) rest
  | exp, some c :: rest => cellPairs rowNo exp c ++ colsPairs rowNo (exp + 1) rest

def rowsPairs : Nat → List (Bytes × List (Option DataCell)) → List (Nat × Nat × Bytes)
  | _, [] => []
  | n, r :: rest => colsPairs n 0 r.2 ++ rowsPairs (n + 1) rest

def sumsPairs (rowNo : Nat) : Nat → List (Option SumCell) → List (Nat × Nat × Bytes)
  | _, [] => []
  | exp, none :: rest => sumsPairs rowNo (exp + 1) rest
  | exp, some s :: rest => s.warns.map (fun m => (csvStartCol exp, rowNo, m)) ++ sumsPairs rowNo (exp + 1) rest

theorem csvWarn_eq (a b : Nat) (msgs : List Bytes) :
    csvWarn a b msgs = (msgs.map fun m => (a, b, m)).map warnLine := by
  simp [csvWarn, List.map_map, Function.comp_def]

theorem csvDataCols_warns (rowNo : Nat) : ∀ (cells : List (Option DataCell)) (row w : List Bytes) (exp : Nat),
    row.length ≤ csvStartCol exp →
    (csvDataCols rowNo row w exp cells).2 = w ++ (colsPairs rowNo exp cells).map warnLine := by
  intro cells
  induction cells with
  | nil => intro row w exp _; simp [csvDataCols, colsPairs]
  | cons oc rest ih =>
    intro row w exp hlen
    cases oc with
    | none =>
      have := ih row w (exp + 1) (Nat.le_trans hlen (csvStartCol_mono (Nat.le_succ _)))
      simpa [csvDataCols, colsPairs] using this
    | some c =>
      have hl1 := clearTo_length row (csvStartCol exp) hlen
      have hs := csvStartCol_succ exp
      simp only [csvDataCols, colsPairs, cellPairs]
      cases hd : (if exp > 0 then c.delta else none) with
      | none =>
        simp only [hd]
        rw [ih _ _ _ (by
          rw [List.length_append, hl1, hs]; unfold csvGroupWidth; split <;> simp), hl1, csvWarn_eq]
        simp
      | some d =>
        simp only [hd]
        have hpos : exp > 0 := by
          by_cases h : exp > 0
          · exact h
          · simp [h] at hd
        rw [ih _ _ _ (by
          rw [List.length_append, List.length_append, hl1, hs]; unfold csvGroupWidth
          have : (exp == 0) = false := by simp; omega
          simp [this]), List.length_append, hl1, csvWarn_eq, csvWarn_eq]
        simp

theorem csvSumCols_warns (rowNo : Nat) : ∀ (sums : List (Option SumCell)) (row w : List Bytes) (exp : Nat),
    row.length ≤ csvStartCol exp →
    (csvSumCols rowNo row w exp sums).2 = w ++ (sumsPairs rowNo exp sums).map warnLine := by
  intro sums
  induction sums with
  | nil => intro row w exp _; simp [csvSumCols, sumsPairs]
  | cons oc rest ih =>
    intro row w exp hlen
    cases oc with
    | none =>
      have := ih row w (exp + 1) (Nat.le_trans hlen (csvStartCol_mono (Nat.le_succ _)))
      simpa [csvSumCols, sumsPairs] using this
    | some s =>
      have hl1 := clearTo_length row (csvStartCol exp) hlen
      have heq := csvSumCell_eq exp row s hlen
      have hl3 : (csvSumCell exp row s).length ≤ csvStartCol (exp + 1) := by
        rw [heq, List.length_append, hl1, csvStartCol_succ]
        have := sumTail_length exp s
        omega
      have hstep : (csvSumCols rowNo row w exp (some s :: rest)).2 =
          (csvSumCols rowNo (csvSumCell exp row s)
            (w ++ csvWarn (clearTo row (csvStartCol exp)).length rowNo s.warns) (exp + 1) rest).2 := by
        simp [csvSumCols, csvSumCell]
      rw [hstep, ih _ _ _ hl3, hl1, csvWarn_eq]
      simp [sumsPairs]

/-! #### the whole CSV table -/

theorem emit_fold (g : Nat → List Bytes) : ∀ (l : List Nat) (st : CsvSt),
    (l.foldl (fun st k => st.emit (g k)) st).rowCount = st.rowCount + l.length ∧
    (l.foldl (fun st k => st.emit (g k)) st).warn = st.warn := by
  intro l
  induction l with
  | nil => intro st; exact ⟨rfl, rfl⟩
  | cons k rest ih =>
    intro st
    simp only [List.foldl_cons, List.length_cons]
    have := ih (st.emit (g k))
    exact ⟨by rw [this.1]; simp [CsvSt.emit]; omega, by rw [this.2]; rfl⟩

theorem rows_fold (startRow : Nat) : ∀ (rows : List (Bytes × List (Option DataCell))) (st : CsvSt),
    let st' := rows.foldl (fun (st : CsvSt) r =>
      let (row, w) := csvDataCols (startRow + st.rowCount) [r.1] [] 0 r.2
      { (st.emit row) with warn := st.warn ++ w }) st
    st'.rowCount = st.rowCount + rows.length ∧
    st'.warn = st.warn ++ (rowsPairs (startRow + st.rowCount) rows).map warnLine := by
  intro rows
  induction rows with
  | nil => intro st; simp [rowsPairs]
  | cons r rest ih =>
    intro st
    simp only [List.foldl_cons, List.length_cons]
    have hw := csvDataCols_warns (startRow + st.rowCount) r.2 [r.1] [] 0 (by simp [csvStartCol])
    have := ih ({ (st.emit (csvDataCols (startRow + st.rowCount) [r.1] [] 0 r.2).1) with
      warn := st.warn ++ (csvDataCols (startRow + st.rowCount) [r.1] [] 0 r.2).2 })
    simp only at this
    refine ⟨by rw [this.1]; simp [CsvSt.emit]; omega, ?_⟩
    rw [this.2, hw]
    simp [rowsPairs, CsvSt.emit, Nat.add_assoc]

/-- **the CSV warnings stream**: one line `warnLine (field, row, message)` per warning of every
present cell, in row-major order, then those of the summary row -/
theorem toCsv_warn (v : View) (startRow : Nat) :
    (toCsv v startRow).warn =
      (rowsPairs (startRow + (v.nfields + 1)) v.rows ++
       sumsPairs (startRow + (v.nfields + 1 + v.rows.length)) 0 v.summary).map warnLine := by
  unfold toCsv
  simp only
  have h1 := emit_fold (csvHeaderRow v.colKeys) (List.range v.nfields) {}
  simp only [List.length_range] at h1
  set st1 := (List.range v.nfields).foldl (fun st k => st.emit (csvHeaderRow v.colKeys k)) ({} : CsvSt) with hst1
  have h2c : (st1.emit (csvUnitRow v.ncols v.unit)).rowCount = v.nfields + 1 := by
    simp [CsvSt.emit, h1.1]
  have h2w : (st1.emit (csvUnitRow v.ncols v.unit)).warn = [] := by
    simp [CsvSt.emit, h1.2]
  have h3 := rows_fold startRow v.rows (st1.emit (csvUnitRow v.ncols v.unit))
  simp only at h3
  rw [h2c, h2w] at h3
  have hs := csvSumCols_warns (startRow + (v.nfields + 1 + v.rows.length)) v.summary [v.summaryLabel] [] 0
    (by simp [csvStartCol])
  rw [h3.1]
  simp only [h3.2, hs]
  simp

theorem cellPairs_msgs (rowNo exp : Nat) (c : DataCell) : (cellPairs rowNo exp c).map (·.2.2) = cellMsgs exp c := by
  unfold cellPairs cellMsgs
  cases (if exp > 0 then c.delta else none) <;> simp [List.map_map, Function.comp_def]

theorem colsPairs_msgs (rowNo : Nat) : ∀ (cells : List (Option DataCell)) (exp : Nat),
    (colsPairs rowNo exp cells).map (·.2.2) = colsMsgs exp cells := by
  intro cells
  induction cells with
  | nil => intro exp; rfl
  | cons oc rest ih =>
    intro exp
    cases oc with
    | none => simpa [colsPairs, colsMsgs] using ih (exp + 1)
    | some c => simp [colsPairs, colsMsgs, cellPairs_msgs, ih]

theorem rowsPairs_msgs : ∀ (rows : List (Bytes × List (Option DataCell))) (n : Nat),
    (rowsPairs n rows).map (·.2.2) = rowsMsgs rows := by
  intro rows
  induction rows with
  | nil => intro n; rfl
  | cons r rest ih =>
    intro n
    have := ih (n + 1)
    simp only [rowsMsgs] at this
    simp [rowsPairs, rowsMsgs, colsPairs_msgs, this]

theorem sumsPairs_msgs (rowNo : Nat) : ∀ (sums : List (Option SumCell)) (exp : Nat),
    (sumsPairs rowNo exp sums).map (·.2.2) = sumsMsgs sums := by
  intro sums
  induction sums with
  | nil => intro exp; rfl
  | cons oc rest ih =>
    intro exp
    cases oc with
    | none => simpa [sumsPairs, sumsMsgs] using ih (exp + 1)
    | some s => simp [sumsPairs, sumsMsgs, ih, List.map_map, Function.comp_def]

end C16
